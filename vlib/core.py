"""Common plumbing: build from /repo's working tree, run sharded harnesses, classify
violations against known_findings.json, write evidence, exit protocol."""
import os, sys, json, subprocess, time, re, hashlib, shutil, threading
from concurrent.futures import ThreadPoolExecutor

VERIF = os.path.dirname(os.path.dirname(os.path.abspath(__file__)))
REPO = os.environ.get('VERIF_REPO', '/repo')
NCPU = min(16, os.cpu_count() or 1)

# What the repository's CMake adds on this Linux image (see _build/build.ninja) + our guard.
PLAT_DEFS = ['-D_GNU_SOURCE', '-DLINUX', '-D__USE_GNU=1',
             '-DHAVE_ACCEPT4', '-DHAVE_EXPLICIT_BZERO', '-DHAVE_MEMMEM', '-DHAVE_MEMRCHR',
             '-DHAVE_PIPE2', '-DHAVE_POSIX_SPAWN_FILE_ACTIONS_ADDCLOSEFROM_NP',
             '-DHAVE_PTHREAD_SETNAME_NP', '-DHAVE_REALLOCARRAY', '-DHAVE_SOCK_CLOEXEC',
             '-DHAVE_SOCK_NONBLOCK', '-DHAVE_STRNCASECMP', '-DLIBLCB_VERIF']
WARN = ['-w']
ASAN = ['-fsanitize=address', '-fsanitize-recover=address', '-fno-omit-frame-pointer', '-g']
TSAN = ['-fsanitize=thread', '-g']


def build_dir(prop):
    d = os.path.join(VERIF, 'build', prop)
    os.makedirs(d, exist_ok=True)
    return d


class BuildError(Exception):
    pass


def compile_c(prop, name, sources, flags=(), cc='gcc', opt='-O1', san='asan', libs=(), defs=None, quiet=False):
    """Compile harness + repo sources into build/<prop>/<name>.  Always rebuilds."""
    out = os.path.join(build_dir(prop), name)
    cmd = [cc, opt] + WARN + (PLAT_DEFS if defs is None else list(defs))
    cmd += ['-I' + os.path.join(REPO, 'include'), '-I' + os.path.join(REPO, 'src'),
            '-I' + os.path.join(VERIF, 'engines', 'enum'), '-I' + os.path.join(VERIF, 'engines')]
    if san == 'asan':
        cmd += ASAN
    elif san == 'tsan':
        cmd += TSAN
    cmd += list(flags)
    for s in sources:
        cmd.append(s if os.path.isabs(s) else os.path.join(VERIF, s))
    cmd += ['-o', out] + list(libs)
    p = subprocess.run(cmd, capture_output=True, text=True)
    if p.returncode != 0:
        if quiet:
            raise BuildError(p.stderr[-2000:])
        sys.stderr.write('BUILD FAILED: %s\n%s\n' % (' '.join(cmd), p.stderr[-4000:]))
        raise BuildError(p.stderr[-2000:])
    return out


def repo_src(*parts):
    return os.path.join(REPO, 'src', *parts)


def repo_head():
    try:
        return subprocess.run(['git', '-C', REPO, 'rev-parse', 'HEAD'], capture_output=True, text=True).stdout.strip()
    except Exception:
        return 'unknown'


# --------------------------------------------------------------------------- findings

def load_findings():
    p = os.path.join(VERIF, 'known_findings.json')
    if not os.path.exists(p):
        return []
    return json.load(open(p)).get('findings', [])


def match_finding(findings, prop, target, clause, desc=''):
    """Return the matching *known* finding or None.  'fixed' entries never match."""
    import fnmatch
    for f in findings:
        if f.get('property') != prop or f.get('status') != 'known':
            continue
        if not fnmatch.fnmatchcase(target, f.get('target', '')):
            continue
        if not fnmatch.fnmatchcase(clause, f.get('clause', '')):
            continue
        rx = f.get('case_regex')
        if rx and not re.search(rx, desc):
            continue
        return f
    return None


# --------------------------------------------------------------------------- report

class Report:
    """Collects what a run covered and what it found; owns the exit protocol."""

    def __init__(self, prop, tier, level, rule):
        self.prop = prop
        self.tier = tier
        self.level = level
        self.rule = rule
        self.t0 = time.time()
        self.seed = int(os.environ.get('VERIF_SEED', '0') or 0)
        self.stats = {}           # target -> {key: int}
        self.clauses = {}         # (target, clause) -> count
        self.viol = {}            # (target, clause) -> [ (index, desc) ... ]
        self.samples = []
        self.assumptions = []
        self.extra = {}
        self.exhaustive = True
        self.notes = []
        self.harness_errors = []
        self.configs = []

    # -- ingestion of harness stdout
    def ingest(self, text, config=''):
        done = False
        for line in text.splitlines():
            f = line.split('\t')
            # a process that dies while printing (or a sanitizer report landing inside a line) leaves malformed records
            # behind: they are dropped, the death itself is attributed through the progress file
            if f[0] in ('STAT', 'CLAUSE') and (len(f) != 4 or not f[3].lstrip('-').isdigit()):
                continue
            if f[0] == 'SAMPLE' and (len(f) < 4 or not f[2].isdigit()):
                continue
            if f[0] == 'VIOL' and len(f) >= 5:
                self.add_violation(f[1], f[2], f[3], f[4], config)
            elif f[0] == 'STAT' and len(f) == 4:
                d = self.stats.setdefault(f[1], {})
                if f[2] == 'cases':      # every shard counts all cases: take max, per config sum later
                    key = ('cases', config)
                    d[key] = max(d.get(key, 0), int(f[3]))
                else:
                    d[f[2]] = d.get(f[2], 0) + int(f[3])
            elif f[0] == 'CLAUSE' and len(f) == 4:
                k = (f[1], f[2])
                self.clauses[k] = self.clauses.get(k, 0) + int(f[3])
            elif f[0] == 'SAMPLE' and len(f) >= 4:
                if sum(1 for s in self.samples if s.get('target') == f[1]) < 2 and len(self.samples) < 40:
                    self.samples.append({'target': f[1], 'index': int(f[2]), 'case': f[3][:300], **({'config': config} if config else {})})
            elif f[0] == 'NOTE':
                self.notes.append('\t'.join(f[1:]))
                if len(f) > 1 and f[1] == 'cut':
                    self.exhaustive = False
            elif f[0] == 'DONE':
                done = True
        return done

    def add_violation(self, target, clause, index, desc, config=''):
        k = (target, clause)
        l = self.viol.setdefault(k, [])
        if len(l) < 8:
            l.append((str(index), desc, config))

    def total(self, key):
        return sum(v.get(key, 0) for v in self.stats.values())

    def total_cases(self):
        n = 0
        for v in self.stats.values():
            for k, c in v.items():
                if isinstance(k, tuple) and k[0] == 'cases':
                    n += c
        return n

    # -- finish
    def finish(self, replayer=None):
        findings = load_findings()
        known_lines, viol_lines = [], []
        known_hits = {}
        rdir = os.path.join(os.environ.get('VERIF_REPLAY_DIR', os.path.join(VERIF, 'replay')), self.prop)
        for (target, clause), cases in sorted(self.viol.items()):
            count = self.clauses.get((target, clause), len(cases))
            idx, desc, config = cases[0]
            f = match_finding(findings, self.prop, target, clause, desc)
            if f is not None:
                known_hits.setdefault(id(f), [f, 0, []])
                known_hits[id(f)][1] += count
                known_hits[id(f)][2].append('%s / %s' % (target, clause))
                # keep the committed replay artefact of a listed finding usable: its choice list / case index changes
                # whenever the harness gets a new scheduling point or case (only in runs that write to the tree's own replay/)
                if f.get('replay') and 'VERIF_REPLAY_DIR' not in os.environ:
                    kp = os.path.join(VERIF, f['replay'])
                    try:
                        old = json.load(open(kp))
                    except Exception:
                        old = None
                    if old is None or (old.get('target') == target and old.get('clause') == clause and old.get('index') != idx):
                        os.makedirs(os.path.dirname(kp), exist_ok=True)
                        with open(kp, 'w') as fh:
                            json.dump({'property': self.prop, 'target': target, 'clause': clause, 'index': idx,
                                       'config': config, 'case': desc, 'count_this_run': count,
                                       'other_cases': [c[1] for c in cases[1:]]}, fh, indent=1)
                continue
            # replay before report
            confirmed = True
            if replayer is not None:
                try:
                    confirmed = replayer(target, clause, idx, config)
                except Exception as e:  # a broken replay is a harness error, not a violation
                    self.harness_errors.append('replay of %s/%s#%s failed to run: %r' % (target, clause, idx, e))
                    confirmed = False
            if not confirmed:
                self.harness_errors.append('violation %s/%s#%s did not reproduce on replay (not reported)' % (target, clause, idx))
                continue
            os.makedirs(rdir, exist_ok=True)
            slug = re.sub(r'[^A-Za-z0-9_.-]+', '_', '%s-%s' % (target, clause))[:100]
            rpath = os.path.join(rdir, slug + '.replay')
            with open(rpath, 'w') as fh:
                json.dump({'property': self.prop, 'target': target, 'clause': clause, 'index': idx,
                           'config': config, 'case': desc, 'count_this_run': count,
                           'other_cases': [c[1] for c in cases[1:]]}, fh, indent=1)
            viol_lines.append('VIOLATION property=%s replay=%s' % (self.prop, rpath))
            sys.stderr.write('  violation: %s / %s : %s\n' % (target, clause, desc[:300]))
        for f, cnt, where in known_hits.values():   # one line per listed finding
            known_lines.append('KNOWN-FINDING: property=%s %s [seen %d time(s) this run in: %s]' % (
                self.prop, f.get('what', ''), cnt, '; '.join(where[:12]) + (' ...' if len(where) > 12 else '')))
        self.write_evidence(len(viol_lines), len(known_lines))
        for l in known_lines:
            print(l)
        for l in viol_lines:
            print(l)
        for e in self.harness_errors:
            sys.stderr.write('HARNESS-ERROR: %s\n' % e)
        sys.stdout.flush()
        if viol_lines:
            sys.exit(1)
        if self.harness_errors:
            sys.exit(2)
        sys.exit(0)

    def write_evidence(self, nviol, nknown):
        evals = self.total('run') or self.total_cases()
        nontriv = self.total('nontrivial')
        cov = dict(self.extra)
        cov.setdefault('evaluations', int(evals))
        cov.setdefault('distinct_nontrivial', int(nontriv))
        cov.setdefault('rule', self.rule)
        cov.setdefault('samples', self.samples[:40] or [{'note': 'no sample recorded'}])
        cov.setdefault('exhaustive', bool(self.exhaustive))
        cov['distinct_outcomes_sum_over_shards'] = int(self.total('outcomes'))
        cov['per_target'] = {t: {(k if isinstance(k, str) else 'cases[%s]' % k[1]): v for k, v in d.items()}
                             for t, d in sorted(self.stats.items())}
        if self.configs:
            cov['configurations'] = self.configs
        cov['known_findings_reproduced'] = nknown
        cov['repo_head'] = repo_head()
        if self.notes:
            cov['notes'] = self.notes[:50]
        ev = {'property_id': self.prop, 'tier': self.tier, 'seed': self.seed, 'level': self.level,
              'coverage': cov, 'assumptions': self.assumptions, 'wall_s': round(time.time() - self.t0, 2),
              'violations': nviol}
        validate_evidence(ev)
        edir = os.environ.get('VERIF_EVIDENCE_DIR', os.path.join(VERIF, 'evidence'))
        os.makedirs(edir, exist_ok=True)
        with open(os.path.join(edir, self.prop + '.json'), 'w') as fh:
            json.dump(ev, fh, indent=1)


def validate_evidence(ev):
    """Schema check (jsonschema if importable, else the rules that matter, by hand)."""
    try:
        import jsonschema
        sch = json.load(open('/root/.vp/EVIDENCE.schema.json'))
        jsonschema.validate(ev, sch)
        return
    except ImportError:
        pass
    except FileNotFoundError:
        pass
    c = ev['coverage']
    lvl = ev['level']
    if lvl == 'model_checking' and all(k in c for k in ('states', 'transitions', 'traces_validated_against_impl', 'samples')):
        assert c['states'] >= 1 and c['transitions'] >= 1 and len(c['samples']) >= 1
    else:
        assert c['evaluations'] >= 1 and c['distinct_nontrivial'] >= 2 and len(c['samples']) >= 1, 'evidence too thin: %r' % {k: c.get(k) for k in ('evaluations', 'distinct_nontrivial')}


# --------------------------------------------------------------------------- sharded runs

def run_sharded(report, binary, tier, nshards=None, extra_args=(), config='', deadline_s=None, env=None, hang_s=60):
    """Run `binary` as nshards processes; ingest output; attribute crashes/hangs via the progress file
    and resume after the crashing case."""
    nshards = nshards or NCPU
    bdir = os.path.dirname(binary)
    t_end = time.time() + deadline_s if deadline_s else None
    lock = threading.Lock()

    def one(shard):
        skip = 0
        restarts = hangs = 0
        while True:
            prog = os.path.join(bdir, 'progress.%s.%d' % (os.path.basename(binary), shard))
            cmd = [binary, '--shard', '%d/%d' % (shard, nshards), '--tier', tier, '--progress', prog,
                   '--skip-until', str(skip)] + list(extra_args)
            e = dict(os.environ)
            if env:
                e.update(env)
            p = subprocess.Popen(cmd, stdout=subprocess.PIPE, stderr=subprocess.DEVNULL, env=e)
            out_chunks = []
            th = threading.Thread(target=lambda: out_chunks.append(p.stdout.read()))
            th.start()
            last, last_t, hung, cut = None, time.time(), False, False
            while p.poll() is None:
                time.sleep(0.2)
                cur = read_progress(prog)
                now = time.time()
                if cur is not None and cur[0] != last:
                    last, last_t = cur[0], now
                elif now - last_t > hang_s:
                    hung = True
                    p.kill()
                    break
                if t_end and now > t_end:
                    cut = True
                    p.kill()
                    break
            th.join()
            text = (out_chunks[0] if out_chunks else b'').decode('utf-8', 'replace')
            with lock:
                done = report.ingest(text, config)
                if cut:
                    report.exhaustive = False
                    report.notes.append('deadline hit in shard %d of %s' % (shard, os.path.basename(binary)))
                    return
                if done:
                    return
                cur = read_progress(prog)
                if cur is None:
                    report.harness_errors.append('%s shard %d died (rc=%s) before any case' % (binary, shard, p.returncode))
                    return
                g, idx, target, desc = cur
                report.add_violation(target, 'hang' if hung else 'crash:rc=%s' % p.returncode, idx, desc, config)
                k = (target, 'hang' if hung else 'crash:rc=%s' % p.returncode)
                report.clauses[k] = report.clauses.get(k, 0) + 1
                restarts += 1
                hangs += 1 if hung else 0
                if restarts > 20 or hangs > 3:     # a hang costs hang_s seconds: a few of them say enough
                    report.exhaustive = False
                    report.notes.append('shard %d: %d crashes / %d hangs, gave up resuming' % (shard, restarts, hangs))
                    return
                skip = g
    with ThreadPoolExecutor(max_workers=nshards) as ex:
        list(ex.map(one, range(nshards)))


def read_progress(path):
    try:
        with open(path, 'rb') as fh:
            b = fh.read()
        if len(b) < 16 + 64:
            return None
        g = int.from_bytes(b[0:8], 'little')
        idx = int.from_bytes(b[8:16], 'little')
        target = b[16:80].split(b'\0')[0].decode('utf-8', 'replace')
        desc = b[80:].split(b'\0')[0].decode('utf-8', 'replace')
        if g == 0:
            return None
        return g, idx, target, desc
    except OSError:
        return None


def make_replayer(binary_for_config, tier, extra_args=()):
    """Replay = run the single case alone, twice; must fail with the same clause both times."""
    def replayer(target, clause, idx, config):
        binary = binary_for_config(config)
        if clause.startswith('crash') or clause == 'hang':
            oks = 0
            for _ in range(2):
                try:
                    p = subprocess.run([binary, '--tier', tier, '--only', '%s#%s' % (target, idx)] + list(extra_args),
                                       capture_output=True, timeout=120)
                    if p.returncode != 0 or b'DONE' not in p.stdout:
                        oks += 1
                except subprocess.TimeoutExpired:
                    oks += 1
            return oks == 2
        hits = 0
        for _ in range(2):
            p = subprocess.run([binary, '--tier', tier, '--only', '%s#%s' % (target, idx)] + list(extra_args),
                               capture_output=True, timeout=600)
            for line in p.stdout.decode('utf-8', 'replace').splitlines():
                f = line.split('\t')
                if f[0] == 'VIOL' and f[1] == target and f[2] == clause:
                    hits += 1
                    break
        return hits == 2
    return replayer


def parse_args(argv):
    import argparse
    ap = argparse.ArgumentParser()
    ap.add_argument('prop')
    ap.add_argument('--tier', default=os.environ.get('VERIF_TIER', 'quick'), choices=['quick', 'thorough'])
    ap.add_argument('--replay', default=None)
    return ap.parse_args(argv)
