"""Front end of engine E1 (engines/sched): build with link-time wrappers, run exploration jobs, replay."""
import os, subprocess, time, sys, threading
from concurrent.futures import ThreadPoolExecutor
from . import core

WRAPS = ['pthread_create', 'pthread_join', 'pthread_mutex_lock', 'pthread_mutex_unlock', 'pthread_mutex_init',
         'pthread_mutex_destroy', 'sched_yield', 'nanosleep', 'epoll_wait', 'epoll_ctl', 'epoll_create1', 'pipe2',
         'read', 'write', 'close', 'timerfd_create', 'timerfd_settime', 'calloc', 'free', 'syslog', 'openlog',
         'pthread_setaffinity_np', 'pthread_setname_np', 'sysconf']


def build(prop, name, sources, flags=(), extra_repo=(), cc='gcc', san='asan'):
    srcs = list(sources) + ['engines/sched/sched.c',
                            core.repo_src('threadpool', 'threadpool.c'),
                            core.repo_src('threadpool', 'threadpool_msg_sys.c')] + list(extra_repo)
    fl = list(flags) + ['-I' + os.path.join(core.VERIF, 'harness'), '-pthread',
                        '-Wl,' + ','.join('--wrap=' + w for w in WRAPS)]
    return core.compile_c(prop, name, srcs, flags=fl, cc=cc, opt='-O1', san=san)


def run_jobs(rep, binary, jobs, tier, job_deadline_s=None, total_deadline_s=None, nshards_heavy=None):
    """jobs: list of (scenario, bound_p, bound_f).  One process per job, NCPU jobs at a time."""
    t_end = time.time() + total_deadline_s if total_deadline_s else None
    lock = threading.Lock()
    rep.extra.setdefault('jobs', [])
    # One CPU per explorer: all threads of an execution share a core, so the futex hand-offs of the
    # cooperative scheduler are plain context switches instead of cross-core wake-ups (measured 2.6x faster,
    # and far less sensitive to other load on the machine).
    import queue
    try:
        cpus = sorted(os.sched_getaffinity(0))
    except AttributeError:
        cpus = list(range(core.NCPU))
    free_cpus = queue.Queue()
    for c in cpus[:core.NCPU]:
        free_cpus.put(c)
    nworkers = min(core.NCPU, len(cpus)) or 1

    def one(job):
        scen, bp, bf = job[:3]
        if t_end and time.time() > t_end:
            with lock:
                rep.exhaustive = False
                rep.notes.append('not started before the global deadline: %s' % scen)
            return
        cmd = [binary, '--scenario', scen, '--bound-p', str(bp), '--bound-f', str(bf), '--tier', tier]
        dl = job_deadline_s
        if t_end:
            left = max(5.0, t_end - time.time())
            dl = min(dl, left) if dl else left
        if dl:
            cmd += ['--deadline', '%.0f' % dl]
        t0 = time.time()
        cpu = free_cpus.get()
        try:
            p = subprocess.run(cmd, capture_output=True, preexec_fn=(lambda c=cpu: os.sched_setaffinity(0, {c})))
        finally:
            free_cpus.put(cpu)
        text = p.stdout.decode('utf-8', 'replace')
        with lock:
            done = rep.ingest(text, '')
            for line in text.splitlines():
                if line.startswith('HARNESS-ERROR'):
                    rep.harness_errors.append(line)
                if line.startswith('NOTE\tcut'):
                    rep.exhaustive = False
            if not done and not any(l.startswith('HARNESS-ERROR') for l in text.splitlines()):
                rep.harness_errors.append('explorer for %s exited rc=%s without DONE: %s' % (scen, p.returncode, p.stderr.decode('utf-8', 'replace')[-400:]))
            st = rep.stats.get(scen, {})
            rep.extra['jobs'].append({'scenario': scen, 'bound_preemptions_and_faults': bp, 'bound_free_switch_deviations': bf,
                                      'executions': st.get('run', 0), 'distinct_outcomes': st.get('outcomes', 0),
                                      'wall_s': round(time.time() - t0, 1)})
    with ThreadPoolExecutor(max_workers=nworkers) as ex:
        list(ex.map(one, jobs))


def finish(rep, binary, tier):
    execs = rep.total('run')
    rep.extra['states'] = int(execs)
    rep.extra['transitions'] = int(rep.total('steps'))
    rep.extra['traces_validated_against_impl'] = int(execs)
    rep.extra['choice_points_total'] = int(rep.total('points'))
    rep.extra['distinct_outcome_logs_sum_over_scenarios'] = int(rep.total('outcomes'))
    rep.extra['explanation'] = ('states = complete executions (distinct schedules/fault placements) of the real code under the '
                                'cooperative scheduler; transitions = scheduling steps executed; every execution IS a run of the implementation')
    if len(rep.extra.get('jobs', [])) > 60:   # keep the evidence file readable
        js = rep.extra['jobs']
        rep.extra['jobs_summary'] = {'count': len(js), 'executions': sum(j['executions'] for j in js)}
        rep.extra['jobs'] = sorted(js, key=lambda j: -j['executions'])[:60]

    def replayer(target, clause, idx, config):
        hits = 0
        for _ in range(2):
            p = subprocess.run([binary, '--scenario', target, '--replay', idx], capture_output=True, timeout=300)
            for line in p.stdout.decode('utf-8', 'replace').splitlines():
                f = line.split('\t')
                if f[0] == 'VIOL' and f[1] == target and f[2] == clause:
                    hits += 1
                    break
        return hits == 2
    rep.finish(replayer)


def replay(binary, r):
    p = subprocess.run([binary, '--scenario', r['target'], '--replay', r['index']], capture_output=True)
    sys.stdout.write(p.stdout.decode('utf-8', 'replace'))
    sys.stderr.write(p.stderr.decode('utf-8', 'replace')[-6000:])
    return 1 if b'\nVIOL\t' in b'\n' + p.stdout else 0
