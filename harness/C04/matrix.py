"""Build matrix and reference preparation shared by C04 and C07 (DESIGN 7)."""
import os, subprocess, sys, time
from vlib import core

HERE = os.path.dirname(os.path.abspath(__file__))
if HERE not in sys.path:
    sys.path.insert(0, HERE)
import gen_ref  # noqa: E402

# compile-time variants of the matrix: name -> flags
VARIANTS = {
    'nosimd':   ['-DH_NOSIMD'],                       # #undef __SSE2__ before the headers (as tests/hash/main.c)
    'nosse2':   ['-mno-sse2'],                        # the other way the headers allow to switch SIMD off
    'sse2':     ['-msse2'],
    'ssse3':    ['-mssse3'],
    'sse41':    ['-msse4.1'],
    'avx':      ['-mavx'],
    'avx2':     ['-mavx2'],
    'shani':    ['-msha', '-msse4.1'],                # the headers define SHA1/SHA2_ENABLE_SIMD themselves
    'smalltab': ['-DGOST3411_2012_USE_SMALL_TABLES', '-DH_NOSIMD'],   # header: "Incompatible with SIMD"
    'smalltab-tau': ['-DGOST3411_2012_USE_SMALL_TABLES', '-DGOST3411_2012_USE_SMALL_TABLES_TABLE_TAU', '-DH_NOSIMD'],
    'native':   ['-mavx2', '-msha'],                  # what -march=native gives here: every transform in one binary
}
MATRIX_VARIANTS = ['nosimd', 'sse2', 'ssse3', 'sse41', 'avx', 'avx2', 'shani', 'smalltab']


def configs(tier):
    """(name, cc, opt, variant, level)"""
    if tier == 'quick':
        # covering subset: every compile-time variant, both compilers, every -O level at least once
        # (clang -O2/-O3 needs 25-50 s to compile the SIMD variants under ASan, gcc 7-12 s: the quick tier
        # therefore uses clang for the non-SIMD and -O0 builds; the thorough tier has all combinations)
        return [('gcc-O2-native', 'gcc', '-O2', 'native', 0),
                ('clang-O3-nosimd', 'clang', '-O3', 'nosimd', 0),
                ('gcc-O0-smalltab', 'gcc', '-O0', 'smalltab', 0),
                ('gcc-O3-sse41', 'gcc', '-O3', 'sse41', 0),
                ('gcc-O2-avx', 'gcc', '-O2', 'avx', 0),
                ('clang-O0-shani', 'clang', '-O0', 'shani', 0),
                ('gcc-O2-avx2', 'gcc', '-O2', 'avx2', 0),
                ('clang-O0-sse2', 'clang', '-O0', 'sse2', 0),
                ('clang-O2-smalltab', 'clang', '-O2', 'smalltab', 0),
                ('gcc-O2-ssse3', 'gcc', '-O2', 'ssse3', 0)]     # does not compile with gcc (reported as skipped)
    out = [('gcc-O2-native', 'gcc', '-O2', 'native', 2),          # full cube: all alignments 0..63
           ('clang-O2-native', 'clang', '-O2', 'native', 1)]
    for cc in ('gcc', 'clang'):
        for opt in ('-O0', '-O2', '-O3'):
            for v in MATRIX_VARIANTS:
                out.append(('%s%s-%s' % (cc, opt, v), cc, opt, v, 1))
    out += [('gcc-O2-nosse2', 'gcc', '-O2', 'nosse2', 1), ('clang-O2-nosse2', 'clang', '-O2', 'nosse2', 1),
            ('gcc-O2-smalltab-tau', 'gcc', '-O2', 'smalltab-tau', 1)]
    return out


def prepare_reference(prop):
    """Generate tables + the reference object into build/<prop>/.  Returns (libs, python_violation_checker)."""
    bdir = core.build_dir(prop)
    gen_ref.gen_expected(bdir)
    gen_ref.gen_expected_hmac(bdir)
    gen_ref.gen_expected_preset(bdir)       # validates the written-out compression functions against hashlib first
    tables = gen_ref.parse_streebog_tables(core.REPO)       # TableError -> harness error (exit 2)
    gen_ref.gen_streebog_tables(bdir, tables)
    src = os.path.join(HERE, 'ref_streebog.c')
    obj = os.path.join(bdir, 'ref_streebog.o')
    subprocess.run(['gcc', '-O2', '-w', '-I' + bdir, '-c', src, '-o', obj], check=True)
    selft = os.path.join(bdir, 'ref_selftest')
    subprocess.run(['gcc', '-O2', '-w', '-I' + bdir, '-DREF_SELFTEST_MAIN', src, '-o', selft], check=True)

    def python_checks():
        """-> list of (target, clause, desc)"""
        v = []
        t = gen_ref.parse_streebog_tables(core.REPO)
        bad = gen_ref.check_expanded_tables(t)
        if bad:
            v.append(('gost3411_2012_Ax', 'expanded-table-is-not-LPS-of-small-tables', '%d entries differ, first: %s' % (len(bad), bad[0])))
        p = subprocess.run([selft], capture_output=True, text=True)
        if p.returncode != 0:
            v.append(('gost3411_2012_tables', 'published-vectors-not-reproduced',
                      'the construction from the standard over the header\'s pi/tau/A/C does not reproduce RFC 6986 / RFC 7836 vectors: ' + p.stdout.strip()))
        return v
    return [obj], python_checks




def residue_configs(tier):
    """(name, cc, opt, variant) for the dead-stack scan (h_residue.c, no sanitizer).  No -O0 builds: the scan looks for
    stores the optimiser removed, -O0 removes none, and its SIMD transforms spill the whole block being hashed into their
    own frames (clang -O0 GOST: the 40-byte tail is found there on the unchanged tree although the context is wiped)."""
    q = [('gcc-O2-sse41', 'gcc', '-O2', 'sse41'), ('clang-O2-nosimd', 'clang', '-O2', 'nosimd'), ('gcc-O3-native', 'gcc', '-O3', 'native'),
         ('clang-O1-sse41', 'clang', '-O1', 'sse41'), ('gcc-Os-sse41', 'gcc', '-Os', 'sse41'), ('gcc-O1-avx', 'gcc', '-O1', 'avx'),
         ('clang-O3-native', 'clang', '-O3', 'native'), ('gcc-O2-smalltab', 'gcc', '-O2', 'smalltab')]
    if tier == 'quick':
        return q
    out = []
    for cc in ('gcc', 'clang'):
        for opt in ('-O1', '-O2', '-O3', '-Os'):
            for v in ('nosimd', 'sse2', 'sse41', 'avx', 'avx2', 'shani', 'native', 'smalltab'):
                out.append(('%s%s-%s' % (cc, opt, v), cc, opt, v))
    return out


def run_residue(rep, prop, tier, bins, residue_set):
    """Dead-stack scan: every one-shot / init entry point runs on a stack the harness owns; message tail (C04, set 0)
    or keyed pads (C07, set 1) must not be found there afterwards."""
    from concurrent.futures import ThreadPoolExecutor
    cfgs = residue_configs(tier)

    def build(cfg):
        name, cc, opt, var = cfg
        try:
            return core.compile_c(prop, 'h_residue-' + name, [os.path.join(HERE, 'h_residue.c')],
                                  flags=VARIANTS[var] + ['-DRESIDUE_SET=%d' % residue_set], cc=cc, opt=opt, san='none', quiet=True)
        except core.BuildError:
            return None
    with ThreadPoolExecutor(max_workers=core.NCPU) as ex:
        built = list(ex.map(build, cfgs))
    n = 0
    for (name, cc, opt, var), b in zip(cfgs, built):
        cfgname = 'residue:' + name
        if b is None:
            rep.configs.append({'name': cfgname, 'status': 'skipped: does not compile'})
            continue
        bins[cfgname] = b
        core.run_sharded(rep, b, tier, nshards=1, config=cfgname)
        rep.configs.append({'name': cfgname, 'cc': cc, 'opt': opt, 'flags': VARIANTS[var], 'status': 'ran'})
        n += 1
    rep.extra['residue_builds_run'] = n
    if 0 == n:
        rep.harness_errors.append('no dead-stack configuration could be built')


def run_huge(rep, prop, tier, bins):
    """Thorough only: a 4 GiB + 72 byte message in one update call against the same message in pieces (h_huge.c), six
    algorithms in parallel; unsanitised optimised builds of two variants."""
    from concurrent.futures import ThreadPoolExecutor
    cfgs = [('huge:gcc-O2-nosimd', 'gcc', '-O2', 'nosimd'), ('huge:clang-O2-avx2', 'clang', '-O2', 'avx2')]
    cfgs = [c for c in cfgs if c[3] in VARIANTS]

    def build(cfg):
        name, cc, opt, var = cfg
        try:
            return core.compile_c(prop, 'h_huge-' + name.split(':')[1], [os.path.join(HERE, 'h_huge.c')], flags=VARIANTS[var], cc=cc, opt=opt, san='none', quiet=True)
        except core.BuildError:
            return None
    with ThreadPoolExecutor(max_workers=2) as ex:
        built = list(ex.map(build, cfgs))
    for (name, cc, opt, var), b in zip(cfgs, built):
        if b is None:
            rep.configs.append({'name': name, 'status': 'skipped: does not compile'})
            continue
        bins[name] = b
        core.run_sharded(rep, b, tier, nshards=6, config=name, hang_s=900)
        rep.configs.append({'name': name, 'cc': cc, 'opt': opt, 'flags': VARIANTS[var], 'status': 'ran'})


def run_matrix(rep, prop, tier, source, binprefix, extra_flags=(), residue_set=None):
    """Reference material, python-side table checks, build every configuration in parallel, run each
    sharded, fill the model-checking evidence and finish (prints verdict lines, exits)."""
    from concurrent.futures import ThreadPoolExecutor
    libs, python_checks = prepare_reference(prop)
    for i, (target, clause, desc) in enumerate(python_checks()):
        rep.add_violation(target, clause, i, desc, 'python')
        rep.clauses[(target, clause)] = 1

    cfgs = configs(tier)
    bins = {}

    def build(cfg):
        name, cc, opt, var, level = cfg
        try:
            return name, core.compile_c(prop, binprefix + '-' + name, [source],
                                        flags=VARIANTS[var] + ['-DH_LEVEL=%d' % level, '-I' + core.build_dir(prop), '-I' + HERE] + list(extra_flags),
                                        cc=cc, opt=opt, san='asan', libs=libs, quiet=True), None
        except core.BuildError as e:
            errs = [l for l in str(e).splitlines() if 'error' in l]
            return name, None, (errs[0] if errs else str(e)[-300:]).strip()[:300]
    t0 = time.time()
    with ThreadPoolExecutor(max_workers=core.NCPU) as ex:
        built = list(ex.map(build, cfgs))
    rep.extra['compile_wall_s'] = round(time.time() - t0, 1)
    ran = 0
    for (name, cc, opt, var, level), (_, binary, err) in zip(cfgs, built):
        entry = {'name': name, 'cc': cc, 'opt': opt, 'flags': VARIANTS[var], 'level': level}
        if binary is None:
            entry['status'] = 'skipped: does not compile'
            rep.notes.append('configuration %s skipped, it does not compile: %s' % (name, err))
            rep.configs.append(entry)
            if var == 'nosimd':
                rep.harness_errors.append('the plain configuration %s does not compile: %s' % (name, err))
            continue
        bins[name] = binary
        t0 = time.time()
        core.run_sharded(rep, binary, tier, config=name)
        entry['status'] = 'ran'
        entry['wall_s'] = round(time.time() - t0, 1)
        rep.configs.append(entry)
        ran += 1
    if 0 == ran:
        rep.harness_errors.append('no configuration could be built')
    if residue_set is not None:
        run_residue(rep, prop, tier, bins, residue_set)
    if tier == 'thorough' and prop == 'C04':
        run_huge(rep, prop, tier, bins)
    if any('giving up' in n for n in rep.notes):
        rep.exhaustive = False
    m = rep.stats.get('_model', {})
    rep.extra['states'] = int(m.get('states', 0))
    rep.extra['transitions'] = int(m.get('transitions', 0))
    rep.extra['traces_validated_against_impl'] = int(m.get('transitions', 0))
    rep.extra['builds_run'] = ran
    rep.extra['builds_skipped'] = len(cfgs) - ran

    base_replay = core.make_replayer(lambda cfg: bins[cfg], tier)

    def replayer(target, clause, idx, config):
        if config == 'python':
            return all(any(t == target and c == clause for t, c, _ in python_checks()) for _ in range(2))
        return base_replay(target, clause, idx, config)
    rep.finish(replayer)
