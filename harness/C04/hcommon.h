/*
 * hcommon.h - what the C04 (hashes) and C07 (HMAC) harnesses share:
 * one descriptor per hash variant (8 of them) that knows how to call liblcb,
 * which bytes of the context are live / dead / sensitive, and which block-transform
 * implementations this build can be forced into.
 *
 * Build knobs (set by run.py):
 *   -DH_NOSIMD        #undef __SSE2__ before the headers (what tests/hash/main.c does)
 *   -DH_LEVEL=0|1|2   size of the enumerated space (quick / reduced / full), see h_c04.c, h_c07.c
 */
#ifndef HCOMMON_H
#define HCOMMON_H

#ifdef H_NOSIMD
#	undef __SSE2__
#endif
#include <stddef.h>
#include "crypto/hash/md5.h"
#include "crypto/hash/sha1.h"
#include "crypto/hash/sha2.h"
#include "crypto/hash/gost3411-2012.h"
#include "vh.h"

#ifndef H_LEVEL
#	define H_LEVEL 0
#endif

/* Reference Streebog (ref_streebog.c, separate object, never instrumented). */
void ref_streebog(int bits, const uint8_t *msg, size_t len, uint8_t *out);
void ref_streebog_ex(int bits, const uint8_t *N0, const uint8_t *msg, size_t len, uint8_t *out);
void ref_hmac_streebog(int bits, const uint8_t *key, size_t klen, const uint8_t *msg,
    size_t mlen, uint8_t *out);

typedef struct hreg_s { size_t off, len; } hreg_t;
#define HREG_MAX	16
#define HCANON_MAX	1024
#define HVAR_MAX	3

typedef struct halg_s {
	const char *pfx, *sfx;		/* liblcb function name = pfx + "_update" + sfx */
	int	gost_bits;		/* 0: expected values come from the hashlib table */
	size_t	B, hs;			/* block and digest size */
	size_t	ctx_size, hctx_size, kopad_off;
	int	nvar;
	const char *vname[HVAR_MAX];
	int	has_size_out;		/* the one-shot calls report the digest size */
	void	(*init)(void *ctx);
	void	(*force)(void *ctx, const char *vname);
	void	(*update)(void *ctx, const uint8_t *d, size_t n);
	void	(*final)(void *ctx, uint8_t *dg);
	size_t	(*fill)(const void *ctx);
	void	(*set_count)(void *ctx, uint64_t lo, uint64_t hi);	/* absorbed-bytes counter := hi * 2^64 + lo */
	int	(*live)(const void *ctx, hreg_t *r);	/* regions that are part of the abstract state */
	int	(*sens)(hreg_t *r);			/* regions that may hold message / chaining data */
	void	(*get_digest)(const void *d, size_t n, uint8_t *dg, size_t *dsz);
	void	(*get_digest_str)(const char *d, size_t n, char *s, size_t *ssz);
	void	(*h_init)(const uint8_t *key, size_t klen, void *hctx);
	void	(*h_update)(void *hctx, const uint8_t *d, size_t n);
	void	(*h_final)(void *hctx, uint8_t *dg, size_t *dsz);
	void	(*h_oneshot)(const uint8_t *key, size_t klen, const uint8_t *d, size_t n, uint8_t *dg, size_t *dsz);
	void	(*h_get_digest)(const void *key, size_t klen, const void *d, size_t n, uint8_t *dg, size_t *dsz);
	void	(*h_get_digest_str)(const char *key, size_t klen, const char *d, size_t n, char *s, size_t *ssz);
} halg_t;

#define HR(_r, _i, _type, _field, _len) do {				\
	(_r)[(_i)].off = offsetof(_type, _field);			\
	(_r)[(_i)].len = (_len);					\
	(_i) ++;							\
} while (0)
#define HFS(_type, _field)	sizeof(((_type *)0)->_field)


/* ------------------------------------------------------------------ MD5 */
static void a_md5_init(void *c) { md5_init((md5_ctx_p)c); }
static void a_md5_force(void *c, const char *v) { (void)c; (void)v; }
static void a_md5_update(void *c, const uint8_t *d, size_t n) { md5_update((md5_ctx_p)c, d, n); }
static void a_md5_final(void *c, uint8_t *dg) { md5_final((md5_ctx_p)c, dg); }
static size_t a_md5_fill(const void *c) { return ((size_t)(((const md5_ctx_t *)c)->count & MD5_MSG_BLK_SIZE_MASK)); }
static void a_md5_set_count(void *c, uint64_t lo, uint64_t hi) { (void)hi; ((md5_ctx_p)c)->count = lo; }
static int a_md5_live(const void *c, hreg_t *r) {
	int i = 0;
	HR(r, i, md5_ctx_t, hash, MD5_HASH_SIZE);
	HR(r, i, md5_ctx_t, count, 8);
	HR(r, i, md5_ctx_t, buffer, a_md5_fill(c));
	return (i);
}
static int a_md5_sens(hreg_t *r) {
	int i = 0;
	HR(r, i, md5_ctx_t, hash, HFS(md5_ctx_t, hash));
	HR(r, i, md5_ctx_t, count, 8);
	HR(r, i, md5_ctx_t, buffer, HFS(md5_ctx_t, buffer));
	return (i);
}
static void a_md5_get_digest(const void *d, size_t n, uint8_t *dg, size_t *dsz) { (void)dsz; md5_get_digest(d, n, dg); }
static void a_md5_get_digest_str(const char *d, size_t n, char *s, size_t *ssz) { (void)ssz; md5_get_digest_str(d, n, s); }
#ifdef H_WITH_HMAC
static void a_md5_h_init(const uint8_t *k, size_t kl, void *h) { hmac_md5_init(k, kl, (hmac_md5_ctx_p)h); }
static void a_md5_h_update(void *h, const uint8_t *d, size_t n) { hmac_md5_update((hmac_md5_ctx_p)h, d, n); }
static void a_md5_h_final(void *h, uint8_t *dg, size_t *dsz) { (void)dsz; hmac_md5_final((hmac_md5_ctx_p)h, dg); }
static void a_md5_h_oneshot(const uint8_t *k, size_t kl, const uint8_t *d, size_t n, uint8_t *dg, size_t *dsz) { (void)dsz; hmac_md5(k, kl, d, n, dg); }
static void a_md5_h_get_digest(const void *k, size_t kl, const void *d, size_t n, uint8_t *dg, size_t *dsz) { (void)dsz; md5_hmac_get_digest(k, kl, d, n, dg); }
static void a_md5_h_get_digest_str(const char *k, size_t kl, const char *d, size_t n, char *s, size_t *ssz) { (void)ssz; md5_hmac_get_digest_str(k, kl, d, n, s); }
#endif


/* ------------------------------------------------------------------ SHA-1 */
static void a_sha1_init(void *c) { sha1_init((sha1_ctx_p)c); }
static void a_sha1_force(void *c, const char *v) {
	sha1_ctx_p x = (sha1_ctx_p)c;
	(void)x; (void)v;
#ifdef __SSE2__
	x->use_sse = (0 == strcmp(v, "sse"));
#endif
#ifdef SHA1_ENABLE_SIMD
	x->use_simd = (0 == strcmp(v, "shani"));
#endif
}
static void a_sha1_update(void *c, const uint8_t *d, size_t n) { sha1_update((sha1_ctx_p)c, d, n); }
static void a_sha1_final(void *c, uint8_t *dg) { sha1_final((sha1_ctx_p)c, dg); }
static size_t a_sha1_fill(const void *c) { return ((size_t)(((const sha1_ctx_t *)c)->count & SHA1_MSG_BLK_SIZE_MASK)); }
static void a_sha1_set_count(void *c, uint64_t lo, uint64_t hi) { (void)hi; ((sha1_ctx_p)c)->count = lo; }
static int a_sha1_live(const void *c, hreg_t *r) {
	int i = 0;
	HR(r, i, sha1_ctx_t, count, 8);
	HR(r, i, sha1_ctx_t, hash, SHA1_HASH_SIZE);
	HR(r, i, sha1_ctx_t, buffer, a_sha1_fill(c));
#ifdef __SSE2__
	HR(r, i, sha1_ctx_t, use_sse, sizeof(int));
#endif
#ifdef SHA1_ENABLE_SIMD
	HR(r, i, sha1_ctx_t, use_simd, sizeof(int));
#endif
	return (i);
}
static int a_sha1_sens(hreg_t *r) {
	int i = 0;
	HR(r, i, sha1_ctx_t, count, 8);
	HR(r, i, sha1_ctx_t, hash, HFS(sha1_ctx_t, hash));
	HR(r, i, sha1_ctx_t, buffer, HFS(sha1_ctx_t, buffer));
	HR(r, i, sha1_ctx_t, W, HFS(sha1_ctx_t, W));
	return (i);
}
static void a_sha1_get_digest(const void *d, size_t n, uint8_t *dg, size_t *dsz) { (void)dsz; sha1_get_digest(d, n, dg); }
static void a_sha1_get_digest_str(const char *d, size_t n, char *s, size_t *ssz) { (void)ssz; sha1_get_digest_str(d, n, s); }
#ifdef H_WITH_HMAC
static void a_sha1_h_init(const uint8_t *k, size_t kl, void *h) { hmac_sha1_init(k, kl, (hmac_sha1_ctx_p)h); }
static void a_sha1_h_update(void *h, const uint8_t *d, size_t n) { hmac_sha1_update((hmac_sha1_ctx_p)h, d, n); }
static void a_sha1_h_final(void *h, uint8_t *dg, size_t *dsz) { (void)dsz; hmac_sha1_final((hmac_sha1_ctx_p)h, dg); }
static void a_sha1_h_oneshot(const uint8_t *k, size_t kl, const uint8_t *d, size_t n, uint8_t *dg, size_t *dsz) { (void)dsz; hmac_sha1(k, kl, d, n, dg); }
static void a_sha1_h_get_digest(const void *k, size_t kl, const void *d, size_t n, uint8_t *dg, size_t *dsz) { (void)dsz; sha1_hmac_get_digest(k, kl, d, n, dg); }
static void a_sha1_h_get_digest_str(const char *k, size_t kl, const char *d, size_t n, char *s, size_t *ssz) { (void)ssz; sha1_hmac_get_digest_str(k, kl, d, n, s); }
#endif


/* ------------------------------------------------------------------ SHA-2 */
static void a_sha2_force(void *c, const char *v) {
	sha2_ctx_p x = (sha2_ctx_p)c;
	(void)x; (void)v;
#ifdef SHA2_ENABLE_SIMD
	x->use_simd = (0 == strcmp(v, "shani"));
#endif
}
static void a_sha2_update(void *c, const uint8_t *d, size_t n) { sha2_update((sha2_ctx_p)c, d, n); }
static void a_sha2_final(void *c, uint8_t *dg) { sha2_final((sha2_ctx_p)c, dg); }
static size_t a_sha2_fill(const void *c) {
	const sha2_ctx_t *x = (const sha2_ctx_t *)c;
	return ((size_t)(x->count & (x->block_size - 1)));
}
static void a_sha2_set_count(void *c, uint64_t lo, uint64_t hi) { ((sha2_ctx_p)c)->count = lo; ((sha2_ctx_p)c)->count_hi = hi; }
static int a_sha2_live(const void *c, hreg_t *r) {
	const sha2_ctx_t *x = (const sha2_ctx_t *)c;
	int i = 0;
	/* SHA-224/256 keep eight 32-bit words in the first half of hash[]. */
	HR(r, i, sha2_ctx_t, hash, (SHA2_256_MSG_BLK_SIZE == x->block_size) ? 32 : 64);
	HR(r, i, sha2_ctx_t, buffer, a_sha2_fill(c));
	HR(r, i, sha2_ctx_t, count, 8);
	HR(r, i, sha2_ctx_t, count_hi, 8);
	HR(r, i, sha2_ctx_t, hash_size, sizeof(size_t));
	HR(r, i, sha2_ctx_t, block_size, sizeof(size_t));
#ifdef SHA2_ENABLE_SIMD
	HR(r, i, sha2_ctx_t, use_simd, sizeof(int));
#endif
	return (i);
}
static int a_sha2_sens(hreg_t *r) {
	int i = 0;
	HR(r, i, sha2_ctx_t, hash, HFS(sha2_ctx_t, hash));
	HR(r, i, sha2_ctx_t, buffer, HFS(sha2_ctx_t, buffer));
	HR(r, i, sha2_ctx_t, W, HFS(sha2_ctx_t, W));
	HR(r, i, sha2_ctx_t, count, 8);
	HR(r, i, sha2_ctx_t, count_hi, 8);
	return (i);
}
#ifdef H_WITH_HMAC
static void a_sha2_h_update(void *h, const uint8_t *d, size_t n) { hmac_sha2_update((hmac_sha2_ctx_p)h, d, n); }
static void a_sha2_h_final(void *h, uint8_t *dg, size_t *dsz) { hmac_sha2_final((hmac_sha2_ctx_p)h, dg, dsz); }
#endif
#define A_SHA2_BITS(_b)							\
static void a_sha2_##_b##_init(void *c) { sha2_init(_b, (sha2_ctx_p)c); } \
static void a_sha2_##_b##_get_digest(const void *d, size_t n, uint8_t *dg, size_t *dsz) { sha2_get_digest(_b, d, n, dg, dsz); } \
static void a_sha2_##_b##_get_digest_str(const char *d, size_t n, char *s, size_t *ssz) { sha2_get_digest_str(_b, d, n, s, ssz); }
#define A_SHA2_HBITS(_b)							\
static void a_sha2_##_b##_h_init(const uint8_t *k, size_t kl, void *h) { hmac_sha2_init(_b, k, kl, (hmac_sha2_ctx_p)h); } \
static void a_sha2_##_b##_h_oneshot(const uint8_t *k, size_t kl, const uint8_t *d, size_t n, uint8_t *dg, size_t *dsz) { hmac_sha2(_b, k, kl, d, n, dg, dsz); } \
static void a_sha2_##_b##_h_get_digest(const void *k, size_t kl, const void *d, size_t n, uint8_t *dg, size_t *dsz) { sha2_hmac_get_digest(_b, k, kl, d, n, dg, dsz); } \
static void a_sha2_##_b##_h_get_digest_str(const char *k, size_t kl, const char *d, size_t n, char *s, size_t *ssz) { sha2_hmac_get_digest_str(_b, k, kl, d, n, s, ssz); }
A_SHA2_BITS(224)
A_SHA2_BITS(256)
A_SHA2_BITS(384)
A_SHA2_BITS(512)
#ifdef H_WITH_HMAC
A_SHA2_HBITS(224)
A_SHA2_HBITS(256)
A_SHA2_HBITS(384)
A_SHA2_HBITS(512)
#endif


/* ------------------------------------------------------------------ GOST R 34.11-2012 */
static void a_gost_force(void *c, const char *v) {
	gost3411_2012_ctx_p x = (gost3411_2012_ctx_p)c;
	x->use_sse = (0 == strcmp(v, "sse"));
	x->use_avx = (0 == strcmp(v, "avx"));
}
static void a_gost_update(void *c, const uint8_t *d, size_t n) { gost3411_2012_update((gost3411_2012_ctx_p)c, d, n); }
static void a_gost_final(void *c, uint8_t *dg) { gost3411_2012_final((gost3411_2012_ctx_p)c, dg); }
static size_t a_gost_fill(const void *c) {
	size_t u = ((const gost3411_2012_ctx_t *)c)->buffer_usage;
	return ((u <= GOST3411_2012_MSG_BLK_SIZE) ? u : GOST3411_2012_MSG_BLK_SIZE);
}
/* the Streebog context counts BITS in a 512-bit little-endian number */
static void a_gost_set_count(void *c, uint64_t lo, uint64_t hi) {
	gost3411_2012_ctx_p x = (gost3411_2012_ctx_p)c;
	memset(x->counter, 0, sizeof(x->counter));
	x->counter[0] = (lo << 3);
	x->counter[1] = ((hi << 3) | (lo >> 61));
	x->counter[2] = (hi >> 61);
}
static int a_gost_live(const void *c, hreg_t *r) {
	int i = 0;
	HR(r, i, gost3411_2012_ctx_t, hash_size, sizeof(size_t));
	HR(r, i, gost3411_2012_ctx_t, buffer_usage, sizeof(size_t));
	HR(r, i, gost3411_2012_ctx_t, use_sse, sizeof(int));
	HR(r, i, gost3411_2012_ctx_t, use_avx, sizeof(int));
	HR(r, i, gost3411_2012_ctx_t, hash, 64);
	HR(r, i, gost3411_2012_ctx_t, counter, 64);
	HR(r, i, gost3411_2012_ctx_t, sigma, 64);
	HR(r, i, gost3411_2012_ctx_t, buffer, a_gost_fill(c));
	return (i);
}
static int a_gost_sens(hreg_t *r) {
	int i = 0;
	HR(r, i, gost3411_2012_ctx_t, buffer_usage, sizeof(size_t));
	HR(r, i, gost3411_2012_ctx_t, hash, 64);
	HR(r, i, gost3411_2012_ctx_t, counter, 64);
	HR(r, i, gost3411_2012_ctx_t, sigma, 64);
	HR(r, i, gost3411_2012_ctx_t, buffer, 64);
	HR(r, i, gost3411_2012_ctx_t, kbuf, 64);
	HR(r, i, gost3411_2012_ctx_t, tbuf, 64);
	HR(r, i, gost3411_2012_ctx_t, sbuf, 64);
	return (i);
}
#ifdef H_WITH_HMAC
static void a_gost_h_update(void *h, const uint8_t *d, size_t n) { hmac_gost3411_2012_update((hmac_gost3411_2012_ctx_p)h, d, n); }
static void a_gost_h_final(void *h, uint8_t *dg, size_t *dsz) { hmac_gost3411_2012_final((hmac_gost3411_2012_ctx_p)h, dg, dsz); }
#endif
#define A_GOST_BITS(_b)							\
static void a_gost_##_b##_init(void *c) { gost3411_2012_init(_b, (gost3411_2012_ctx_p)c); } \
static void a_gost_##_b##_get_digest(const void *d, size_t n, uint8_t *dg, size_t *dsz) { gost3411_2012_get_digest(_b, d, n, dg, dsz); } \
static void a_gost_##_b##_get_digest_str(const char *d, size_t n, char *s, size_t *ssz) { gost3411_2012_get_digest_str(_b, d, n, s, ssz); }
#define A_GOST_HBITS(_b)							\
static void a_gost_##_b##_h_init(const uint8_t *k, size_t kl, void *h) { hmac_gost3411_2012_init(_b, k, kl, (hmac_gost3411_2012_ctx_p)h); } \
static void a_gost_##_b##_h_oneshot(const uint8_t *k, size_t kl, const uint8_t *d, size_t n, uint8_t *dg, size_t *dsz) { hmac_gost3411_2012(_b, k, kl, d, n, dg, dsz); } \
static void a_gost_##_b##_h_get_digest(const void *k, size_t kl, const void *d, size_t n, uint8_t *dg, size_t *dsz) { gost3411_2012_hmac_get_digest(_b, k, kl, d, n, dg, dsz); } \
static void a_gost_##_b##_h_get_digest_str(const char *k, size_t kl, const char *d, size_t n, char *s, size_t *ssz) { gost3411_2012_hmac_get_digest_str(_b, k, kl, d, n, s, ssz); }
A_GOST_BITS(256)
A_GOST_BITS(512)
#ifdef H_WITH_HMAC
A_GOST_HBITS(256)
A_GOST_HBITS(512)
#endif


/* ------------------------------------------------------------------ the table */
#ifdef H_WITH_HMAC
#	define HM(_f)	_f
#else	/* C04 does not need (or compile) the HMAC entry points */
#	define HM(_f)	NULL
#endif
/* Transform implementations this BUILD contains (the sandbox CPU supports all of them). */
#if defined(SHA1_ENABLE_SIMD)
#	define SHA1_VARS	3, { "generic", "sse", "shani" }
#elif defined(__SSE2__)
#	define SHA1_VARS	2, { "generic", "sse" }
#else
#	define SHA1_VARS	1, { "generic" }
#endif
#ifdef SHA2_ENABLE_SIMD
#	define SHA2_64_VARS	2, { "generic", "shani" }
#else
#	define SHA2_64_VARS	1, { "generic" }
#endif
#if defined(GOST3411_2012_USE_SMALL_TABLES)
#	define GOST_VARS	1, { "generic" }	/* "Incompatible with SIMD" */
#elif defined(__AVX__)
#	define GOST_VARS	3, { "generic", "sse", "avx" }
#elif defined(__SSE2__)
#	define GOST_VARS	2, { "generic", "sse" }
#else
#	define GOST_VARS	1, { "generic" }
#endif

#define SHA2_128_VARS	1, { "generic" }	/* no SIMD transform for the 128-byte block */

#define A_SHA2_ROW(_b, _blk, _hs, _vars)				\
	{ "sha2", "[" #_b "]", 0, _blk, _hs, sizeof(sha2_ctx_t), sizeof(hmac_sha2_ctx_t), \
	  offsetof(hmac_sha2_ctx_t, k_opad), _vars, 1,			\
	  a_sha2_##_b##_init, a_sha2_force, a_sha2_update, a_sha2_final, a_sha2_fill, a_sha2_set_count, a_sha2_live, a_sha2_sens, \
	  a_sha2_##_b##_get_digest, a_sha2_##_b##_get_digest_str,	\
	  HM(a_sha2_##_b##_h_init), HM(a_sha2_h_update), HM(a_sha2_h_final), HM(a_sha2_##_b##_h_oneshot), \
	  HM(a_sha2_##_b##_h_get_digest), HM(a_sha2_##_b##_h_get_digest_str) }
#define A_GOST_ROW(_b, _hs)						\
	{ "gost3411_2012", "[" #_b "]", _b, 64, _hs, sizeof(gost3411_2012_ctx_t), sizeof(hmac_gost3411_2012_ctx_t), \
	  offsetof(hmac_gost3411_2012_ctx_t, k_opad), GOST_VARS, 1,	\
	  a_gost_##_b##_init, a_gost_force, a_gost_update, a_gost_final, a_gost_fill, a_gost_set_count, a_gost_live, a_gost_sens, \
	  a_gost_##_b##_get_digest, a_gost_##_b##_get_digest_str,	\
	  HM(a_gost_##_b##_h_init), HM(a_gost_h_update), HM(a_gost_h_final), HM(a_gost_##_b##_h_oneshot), \
	  HM(a_gost_##_b##_h_get_digest), HM(a_gost_##_b##_h_get_digest_str) }

#define HALG_COUNT 8
static const halg_t halgs[HALG_COUNT] = {
	{ "md5", "", 0, 64, 16, sizeof(md5_ctx_t), sizeof(hmac_md5_ctx_t), offsetof(hmac_md5_ctx_t, k_opad),
	  1, { "generic" }, 0,
	  a_md5_init, a_md5_force, a_md5_update, a_md5_final, a_md5_fill, a_md5_set_count, a_md5_live, a_md5_sens,
	  a_md5_get_digest, a_md5_get_digest_str,
	  HM(a_md5_h_init), HM(a_md5_h_update), HM(a_md5_h_final), HM(a_md5_h_oneshot), HM(a_md5_h_get_digest), HM(a_md5_h_get_digest_str) },
	{ "sha1", "", 0, 64, 20, sizeof(sha1_ctx_t), sizeof(hmac_sha1_ctx_t), offsetof(hmac_sha1_ctx_t, k_opad),
	  SHA1_VARS, 0,
	  a_sha1_init, a_sha1_force, a_sha1_update, a_sha1_final, a_sha1_fill, a_sha1_set_count, a_sha1_live, a_sha1_sens,
	  a_sha1_get_digest, a_sha1_get_digest_str,
	  HM(a_sha1_h_init), HM(a_sha1_h_update), HM(a_sha1_h_final), HM(a_sha1_h_oneshot), HM(a_sha1_h_get_digest), HM(a_sha1_h_get_digest_str) },
	A_SHA2_ROW(224, 64, 28, SHA2_64_VARS),
	A_SHA2_ROW(256, 64, 32, SHA2_64_VARS),
	A_SHA2_ROW(384, 128, 48, SHA2_128_VARS),
	A_SHA2_ROW(512, 128, 64, SHA2_128_VARS),
	A_GOST_ROW(256, 32),
	A_GOST_ROW(512, 64),
};


/* ------------------------------------------------------------------ helpers */
/* the 7 of DESIGN 9/C04 plus 16 and 32: one representative of every alignment class the transforms
 * distinguish (mod 4: md5; mod 8: gost generic; mod 16: sha1/sha2 SIMD; mod 32: gost SSE/AVX) */
static const int h_aligns_sub[] = { 0, 1, 3, 4, 8, 16, 31, 32, 63 };
#define H_NSUB	9
static const int h_aligns_3[] = { 0, 1, 31 };
static const uint8_t h_poisons[2] = { 0x00, 0xA5 };	/* values written over the dead bytes of a context */
#if H_LEVEL >= 2
#	define H_BOTH	8	/* alignments (by list index) below this run with both poisons, the rest alternate */
#else
#	define H_BOTH	2
#endif
static int h_aligns_all[64];
static uint64_t h_transitions = 0;	/* real update/final calls executed inside cases */

/* open-addressing set of canonical-state hashes -> "states" of the evidence */
#define HSET_SIZE (1u << 21)
static uint64_t *h_set = NULL;
static uint64_t h_states = 0;

static inline void
h_state_seen(int alg, const uint8_t *canon, size_t len, uint64_t salt) {
	uint64_t h = 1469598103934665603ull ^ ((uint64_t)(alg + 1) * 0x9E3779B97F4A7C15ull) ^ (salt * 0xD6E8FEB86659FD93ull);
	size_t i;
	uint32_t pos;

	for (i = 0; i < len; i ++) {
		h ^= canon[i];
		h *= 1099511628211ull;
	}
	if (0 == h)
		h = 1;
	if (NULL == h_set)
		h_set = (uint64_t *)calloc(HSET_SIZE, sizeof(uint64_t));
	pos = (uint32_t)(h >> 17) & (HSET_SIZE - 1);
	for (i = 0; i < HSET_SIZE; i ++) {
		if (h_set[pos] == h)
			return;
		if (0 == h_set[pos]) {
			h_set[pos] = h;
			h_states ++;
			return;
		}
		pos = (pos + 1) & (HSET_SIZE - 1);
	}
}

static inline void *
h_ctx_alloc(size_t size) {
	void *p = NULL;
	if (0 != posix_memalign(&p, 32, size)) {
		fprintf(stderr, "posix_memalign failed\n");
		exit(2);
	}
	memset(p, 0x5A, size);	/* whatever was there before init must not matter */
	return (p);
}

/* Exact-size source buffer whose first byte sits at address = a (mod 64); the ASan redzone
 * starts right behind the last byte.  *base is what must be freed. */
static inline uint8_t *
h_src(const uint8_t *data, size_t len, int a, void **base) {
	void *p = NULL;
	size_t total = (size_t)a + len;

	if (0 != posix_memalign(&p, 64, (0 != total) ? total : 1)) {
		fprintf(stderr, "posix_memalign failed\n");
		exit(2);
	}
	if (a)
		memset(p, 0xEE, (size_t)a);
	if (len)
		memcpy(((uint8_t *)p) + a, data, len);
	(*base) = p;
	return (((uint8_t *)p) + a);
}

/* live regions of a plain hash context / of an HMAC context (hash ctx at offset 0 + keyed pad) */
static inline int
h_live(const halg_t *A, const void *ctx, int is_hmac, hreg_t *r) {
	int n = A->live(ctx, r);
	if (is_hmac) {
		r[n].off = A->kopad_off;
		r[n].len = A->B;
		n ++;
	}
	return (n);
}

static inline size_t
h_canon(const halg_t *A, const void *ctx, int is_hmac, uint8_t *out) {
	hreg_t r[HREG_MAX];
	int i, n = h_live(A, ctx, is_hmac, r);
	size_t o = 0;

	for (i = 0; i < n; i ++) {
		memcpy(out + o, ((const uint8_t *)ctx) + r[i].off, r[i].len);
		o += r[i].len;
	}
	return (o);
}

/* Overwrite every byte of the context that is NOT in a live region. */
static inline void
h_poison(const halg_t *A, void *ctx, int is_hmac, uint8_t val) {
	hreg_t r[HREG_MAX];
	int i, n = h_live(A, ctx, is_hmac, r);
	size_t size = is_hmac ? A->hctx_size : A->ctx_size, pos;
	uint8_t *c = (uint8_t *)ctx;

	for (pos = 0; pos < size; pos ++) {
		for (i = 0; i < n; i ++) {
			if (pos >= r[i].off && pos < r[i].off + r[i].len)
				break;
		}
		if (i == n)
			c[pos] = val;
	}
}

/* 0 when every sensitive region is all-zero, else 1 + offset of the first non-zero byte */
static inline size_t
h_not_wiped(const halg_t *A, const void *ctx, int is_hmac) {
	hreg_t r[HREG_MAX];
	int i, n = A->sens(r);
	size_t k;

	if (is_hmac) {
		r[n].off = A->kopad_off;
		r[n].len = A->B;
		n ++;
	}
	for (i = 0; i < n; i ++) {
		for (k = 0; k < r[i].len; k ++) {
			if (0 != ((const uint8_t *)ctx)[r[i].off + k])
				return (1 + r[i].off + k);
		}
	}
	return (0);
}

static inline void
h_common_init(void) {
	int i;
	for (i = 0; i < 64; i ++)
		h_aligns_all[i] = i;
}

/* names must stay valid for the whole run (vh keeps the pointer) */
static inline const char *
h_name(const char *pfx, const char *fn, const char *sfx, const char *var) {
	char *s = (char *)malloc(96);
	if (NULL != var)
		snprintf(s, 96, "%s%s%s/%s", pfx, fn, sfx, var);
	else
		snprintf(s, 96, "%s%s%s", pfx, fn, sfx);
	return (s);
}

/* The model counters are printed as deltas whenever a group of cases is done, so that what was
 * measured survives a shard that dies later (the driver sums STAT lines). */
static uint64_t h_states_printed = 0, h_transitions_printed = 0;

static inline void
h_flush_model(int states_from_this_process) {
	if (states_from_this_process && h_states != h_states_printed) {
		printf("STAT\t_model\tstates\t%llu\n", (unsigned long long)(h_states - h_states_printed));
		h_states_printed = h_states;
	}
	if (h_transitions != h_transitions_printed) {
		printf("STAT\t_model\ttransitions\t%llu\n", (unsigned long long)(h_transitions - h_transitions_printed));
		h_transitions_printed = h_transitions;
	}
	fflush(stdout);
}


/* ------------------------------------------------------------------ crash containment
 * A fault inside a case (typically an aligned SIMD load on an unaligned source) must be ONE finding
 * of that case, not the death of the shard: the handlers below replace ASan's, and H_GUARDED()
 * runs a case body under sigsetjmp.  Best effort: after a wild write the process may be beyond
 * repair, then the driver's crash/hang attribution takes over. */
#include <setjmp.h>
#include <signal.h>
static sigjmp_buf h_jmp;
static volatile sig_atomic_t h_jmp_armed = 0;
static uint64_t h_crashes = 0;

static void
h_on_signal(int sig) {
	if (h_jmp_armed) {
		h_jmp_armed = 0;
		siglongjmp(h_jmp, sig);
	}
	signal(sig, SIG_DFL);
	raise(sig);
}

static inline void
h_install_handlers(void) {
	static const int sigs[] = { SIGSEGV, SIGBUS, SIGILL, SIGFPE };
	struct sigaction sa;
	size_t i;

	memset(&sa, 0, sizeof(sa));
	sa.sa_handler = h_on_signal;
	sigemptyset(&sa.sa_mask);
	sa.sa_flags = SA_NODEFER | SA_ONSTACK;
	for (i = 0; i < sizeof(sigs) / sizeof(sigs[0]); i ++)
		sigaction(sigs[i], &sa, NULL);
}

/* Runs `call` (a function call that returns non-zero when the case failed); evaluates to that
 * value, or reports clause "fatal-signal" and evaluates to 1 when a signal interrupted it. */
#define H_GUARDED(_bad, call) do {					\
	int sig_;							\
	h_jmp_armed = 1;						\
	if (0 == (sig_ = sigsetjmp(h_jmp, 1))) {			\
		(_bad) = (call);					\
	} else {							\
		h_crashes ++;						\
		vh_fail("fatal-signal", "signal %d (%s) inside the case", sig_, strsignal(sig_)); \
		(_bad) = 1;						\
		if (h_crashes > 2000) {					\
			printf("NOTE\tmore than 2000 crashes in one process, giving up\n"); \
			h_flush_model(0);				\
			vh_finish();					\
			_exit(0);					\
		}							\
	}								\
	h_jmp_armed = 0;						\
} while (0)

#endif /* HCOMMON_H */
