/* C04, "long multi-block messages": a message of 4 GiB + 72 bytes handed over in ONE update call must give the digest of
 * the same message handed over in 256 MiB pieces (that path is tied to the standard by the small-scope cases and the
 * reference tables).  The message is an anonymous mapping that is never written: it costs no memory. */
#define _GNU_SOURCE
#include <stdint.h>
#include <string.h>
#include <sys/mman.h>
#ifdef H_NOSIMD
#undef __SSE2__
#endif
#include "vh.h"
#include "crypto/hash/md5.h"
#include "crypto/hash/sha1.h"
#include "crypto/hash/sha2.h"
#include "crypto/hash/gost3411-2012.h"

#define HUGE_LEN	((size_t)4 * 1024 * 1024 * 1024 + 72)
#define PIECE		((size_t)256 * 1024 * 1024)
static const uint8_t *msg;

static void
hash_run(int algo, int pieces, uint8_t *dg) {
	md5_ctx_t m; sha1_ctx_t s1; sha2_ctx_t s2; gost3411_2012_ctx_t g; size_t off, n;
	memset(dg, 0, 64);
	switch (algo) {
	case 0: md5_init(&m); break;
	case 1: sha1_init(&s1); break;
	case 2: sha2_init(256, &s2); break;
	case 3: sha2_init(512, &s2); break;
	case 4: gost3411_2012_init(256, &g); break;
	default: gost3411_2012_init(512, &g); break;
	}
	for (off = 0; off < HUGE_LEN; off += n) {
		n = pieces ? ((HUGE_LEN - off < PIECE) ? HUGE_LEN - off : PIECE) : HUGE_LEN;
		switch (algo) {
		case 0: md5_update(&m, msg + off, n); break;
		case 1: sha1_update(&s1, msg + off, n); break;
		case 2: case 3: sha2_update(&s2, msg + off, n); break;
		default: gost3411_2012_update(&g, msg + off, n); break;
		}
	}
	switch (algo) {
	case 0: md5_final(&m, dg); break;
	case 1: sha1_final(&s1, dg); break;
	case 2: case 3: sha2_final(&s2, dg); break;
	default: gost3411_2012_final(&g, dg); break;
	}
}

int
main(int argc, char **argv) {
	static const char *T[6] = { "md5_update/4GiB-in-one-call", "sha1_update/4GiB-in-one-call", "sha2_update[256]/4GiB-in-one-call",
	    "sha2_update[512]/4GiB-in-one-call", "gost3411_2012_update[256]/4GiB-in-one-call", "gost3411_2012_update[512]/4GiB-in-one-call" };
	int a; uint8_t d1[64], d2[64]; char h1[140], h2[140];
	vh_init(argc, argv);
	for (a = 0; a < 6; a ++) {
		if (!vh_begin(T[a])) continue;
		vh_desc("message of %zu zero bytes: one update call against pieces of %zu bytes", HUGE_LEN, PIECE);
		if (NULL == msg) {
			msg = (const uint8_t *)mmap(NULL, HUGE_LEN, PROT_READ, MAP_PRIVATE | MAP_ANONYMOUS | MAP_NORESERVE, -1, 0);
			if (MAP_FAILED == (void *)msg) { msg = NULL; vh_fail("harness", "cannot map %zu bytes", HUGE_LEN); continue; }
		}
		hash_run(a, 0, d1);
		hash_run(a, 1, d2);
		if (0 != memcmp(d1, d2, 64)) {
			vh_hex(h1, sizeof(h1), d1, 32); vh_hex(h2, sizeof(h2), d2, 32);
			vh_fail("one-call-differs-from-pieces", "digest of one update call %s..., of the same message in pieces %s...", h1, h2);
		} else
			vh_nontrivial();
		vh_outcome(d2, 64);
	}
	return (vh_finish());
}
