/*
 * C04 - hash functions: standard digest for any message, chunking, alignment and build.
 *
 * Partition-confluence exploration (DESIGN 5) on the REAL contexts.  For one algorithm, one forced
 * block-transform implementation ("variant"), one message M of length L:
 *
 *   state  n        = the context after absorbing M[0..n)            (n = 0..L)
 *   S[n]            = representative: init + ONE update(M, n) from an aligned exact-size copy
 *   transition      = copy S[n], overwrite its dead bytes, update(M+n, c) with the chunk at address
 *                     = a (mod 64) in an exact-size heap block            (c = 0..L-n)
 *   oracle          = canonical(result) == canonical(S[n+c])
 *
 * canonical() = the live bytes only (chaining value, counters, parameters, transform selector, the
 * first `fill` bytes of the block buffer).  That this abstraction is right is itself checked: every
 * transition and every final is executed twice, with all other bytes of the context (buffer tail,
 * scratch arrays, unused half of hash[], padding) set to 0x00 and to 0xA5; the results must agree.
 * As every transition into n+c lands on the same canonical context, by induction every composition
 * of every prefix into update calls (empty ones included) yields S[n], and `final` from S[n] (again
 * under both poisons) must give the reference digest of M[0..n) and leave the sensitive fields zero.
 *
 * One-shot entry points (*_get_digest, *_get_digest_str) are run on every prefix and compared with
 * the same reference.  Reference = hashlib table generated at check time (expected.h); Streebog =
 * ref_streebog.c.
 *
 * H_LEVEL: 0 quick   : pattern 0: L = 2 blocks+1, alignments {0,1,3,4,8,16,31,32,63}; patterns 1-3: L = 1 block+1, {0,1,31}
 *          1 reduced : pattern 0: L = 3 blocks+1, the same 9 alignments;      patterns 1-3: L = 2 blocks+1, {0,1,31}
 *          2 full    : every pattern L = 4 blocks+1; pattern 0 with all alignments 0..63, patterns 1-3 with the 9
 * Both poisons are applied for the first H_BOTH (2; level 2: 8) alignments of the list - an aligned and
 * an unaligned source at every (n, c) - the remaining alignments alternate between the two.
 */
#include "hcommon.h"
#include "expected.h"
#include <sys/wait.h>

#if H_LEVEL == 0
static const int lvl_blocks[REF_NPAT] = { 2, 1, 1, 1 };
#elif H_LEVEL == 1
static const int lvl_blocks[REF_NPAT] = { 3, 2, 2, 2 };
#else
static const int lvl_blocks[REF_NPAT] = { 4, 4, 4, 4 };
#endif

static const uint8_t *const exp_base[HALG_COUNT] = {
	(const uint8_t *)exp_md5, (const uint8_t *)exp_sha1, (const uint8_t *)exp_sha2_224,
	(const uint8_t *)exp_sha2_256, (const uint8_t *)exp_sha2_384, (const uint8_t *)exp_sha2_512,
	NULL, NULL
};

static void
expected(int ai, int p, size_t n, uint8_t *out) {
	const halg_t *A = &halgs[ai];

	if (A->gost_bits) {
		ref_streebog(A->gost_bits, ref_pat[p], n, out);
	} else {
		size_t lmax = 4 * A->B + 1;
		memcpy(out, exp_base[ai] + (((size_t)p * (lmax + 1)) + n) * A->hs, A->hs);
	}
}

static void
aligns_for(int p, const int **al, int *nal) {
#if H_LEVEL >= 2
	if (0 == p) {
		(*al) = h_aligns_all;
		(*nal) = 64;
	} else {
		(*al) = h_aligns_sub;
		(*nal) = H_NSUB;
	}
#else
	if (0 == p) {
		(*al) = h_aligns_sub;
		(*nal) = H_NSUB;
	} else {
		(*al) = h_aligns_3;
		(*nal) = 3;
	}
#endif
}


static void *
h_shared(size_t size) {
	void *m = mmap(NULL, size, PROT_READ | PROT_WRITE, MAP_SHARED | MAP_ANONYMOUS, -1, 0);
	if (MAP_FAILED == m) {
		fprintf(stderr, "mmap failed\n");
		exit(2);
	}
	return (m);
}

/* Build S[n] = init + force + ONE update(M, n) for n = 0..L in a child process (results come back
 * through shared memory).  0 = fine; -1 = the child reported an ASan error or died: the group is
 * skipped and the finding is printed (by shard 0 / a replay only, every shard sees the same thing). */
static int
build_group(int ai, int v, int p, size_t L, const char *t_update, uint8_t **S, uint8_t *canon, size_t *clen) {
	const halg_t *A = &halgs[ai];
	int reporter = (0 == vh_shard || NULL != vh_only_target), st = 0, pz;
	volatile size_t *cur_n = clen + L + 1;	/* spare slot: where the child is */
	size_t n;
	pid_t pid;

	fflush(stdout);
	pid = fork();
	if (pid < 0) {
		fprintf(stderr, "fork failed\n");
		exit(2);
	}
	if (0 == pid) {
		uint8_t *W = (uint8_t *)h_ctx_alloc(A->ctx_size);

		if (!reporter && NULL == freopen("/dev/null", "w", stdout))
			_exit(4);
		vh_cur = vh_target_id(t_update);
		vh_case_failed = 0;
		for (n = 0; n <= L; n ++) {
			void *base;
			const uint8_t *src = h_src(ref_pat[p], n, 0, &base);

			(*cur_n) = n;
			vh_desc("pat=%d: representative state, init + one update of n=%zu bytes", p, n);
			vh_publish_desc();
			memset(W, 0x5A, A->ctx_size);
			A->init(W);
			A->force(W, A->vname[v]);
			if (n)
				A->update(W, src, n);
			free(base);
			clen[n] = h_canon(A, W, 0, canon + n * HCANON_MAX);
			for (pz = 0; pz < 2; pz ++) {
				h_poison(A, W, 0, h_poisons[pz]);
				memcpy(S[pz] + n * A->ctx_size, W, A->ctx_size);
			}
		}
		fflush(stdout);
		_exit(vh_case_failed ? 3 : 0);
	}
	while (waitpid(pid, &st, 0) < 0)
		;
	if (WIFEXITED(st) && 0 == WEXITSTATUS(st))
		return (0);
	if (reporter && !(WIFEXITED(st) && 3 == WEXITSTATUS(st))) {
		vh_cur = vh_target_id(t_update);
		vh_desc("pat=%d: representative state, init + one update of n=%zu bytes", p, (size_t)(*cur_n));
		vh_publish_desc();
		vh_case_failed = 0;
		if (WIFSIGNALED(st))
			vh_fail("crash-in-single-update", "killed by signal %d", WTERMSIG(st));
		else
			vh_fail("crash-in-single-update", "child exit status %d", WEXITSTATUS(st));
	}
	return (-1);
}


int
main(int argc, char **argv) {
	int ai, v, p, pz, k, nal;
	const int *al;
	size_t n, c, L, lmax_all = 4 * 128 + 1;
	uint8_t *S[2], *canon, *W, cbuf[HCANON_MAX], want[64], *dg;
	size_t *clen;
	char hex[2 * 64 + 8];	/* vh_hex wants 3 spare bytes */

	vh_init(argc, argv);
	h_common_init();
	canon = (uint8_t *)h_shared((lmax_all + 1) * HCANON_MAX);
	clen = (size_t *)h_shared((lmax_all + 2) * sizeof(size_t));

	for (ai = 0; ai < HALG_COUNT; ai ++) {
		const halg_t *A = &halgs[ai];

		S[0] = (uint8_t *)h_shared((lmax_all + 1) * A->ctx_size);
		S[1] = (uint8_t *)h_shared((lmax_all + 1) * A->ctx_size);
		for (v = 0; v < A->nvar; v ++) {
			const char *t_update = h_name(A->pfx, "_update", A->sfx, A->vname[v]);
			const char *t_final = h_name(A->pfx, "_final", A->sfx, A->vname[v]);

			for (p = 0; p < REF_NPAT; p ++) {
				const uint8_t *M = ref_pat[p];

				L = (size_t)lvl_blocks[p] * A->B + 1;
				aligns_for(p, &al, &nal);

				/* representatives S[n], their canonical form, and the two poisoned copies -
				 * built in a forked child so that a crash in a plain single update is a finding
				 * attributed to this group, not the death of the whole shard */
				if (0 != build_group(ai, v, p, L, t_update, S, canon, clen))
					continue;	/* identical in every shard: case numbering stays consistent */
				if (0 == vh_shard) {
					for (n = 0; n <= L; n ++)
						h_state_seen(ai, canon + n * HCANON_MAX, clen[n], (uint64_t)p);
				}

				/* final from every state */
				for (n = 0; n <= L; n ++) {
					int bad = 0;

					if (!vh_begin(t_final))
						continue;
					vh_desc("pat=%d L=%zu n=%zu", p, L, n);
					vh_publish_desc();
					expected(ai, p, n, want);
					for (pz = 0; pz < 2; pz ++) {
						size_t nw;

						W = (uint8_t *)h_ctx_alloc(A->ctx_size);
						memcpy(W, S[pz] + n * A->ctx_size, A->ctx_size);
						dg = (uint8_t *)malloc(A->hs);
						memset(dg, 0xCC, A->hs);
						A->final(W, dg);
						h_transitions ++;
						if (0 != memcmp(dg, want, A->hs)) {
							vh_hex(hex, sizeof(hex), dg, A->hs);
							vh_fail("digest", "dead-bytes=0x%02x got %s", h_poisons[pz], hex);
							bad = 1;
						}
						nw = h_not_wiped(A, W, 0);
						if (0 != nw) {
							vh_fail("ctx-not-wiped", "dead-bytes=0x%02x: context byte at offset %zu is 0x%02x after final",
							    h_poisons[pz], (nw - 1), W[nw - 1]);
							bad = 1;
						}
						vh_outcome(dg, A->hs);
						free(dg);
						free(W);
					}
					if (!bad)
						vh_nontrivial();
				}

				/* every transition (n, c, a) */
				for (n = 0; n <= L; n ++) {
					for (c = 0; c <= L - n; c ++) {
						int bad = 0;

						if (!vh_begin(t_update))
							continue;
						vh_desc("pat=%d L=%zu n=%zu c=%zu", p, L, n, c);
						vh_publish_desc();
						W = (uint8_t *)h_ctx_alloc(A->ctx_size);
						for (k = 0; k < nal; k ++) {
							void *base;
							const uint8_t *src = h_src(M + n, c, al[k], &base);

							for (pz = 0; pz < 2; pz ++) {
								size_t len;

								if (k >= H_BOTH && pz != (k & 1))
									continue;
								memcpy(W, S[pz] + n * A->ctx_size, A->ctx_size);
								A->update(W, src, c);
								h_transitions ++;
								len = h_canon(A, W, 0, cbuf);
								if (len != clen[n + c] ||
								    0 != memcmp(cbuf, canon + (n + c) * HCANON_MAX, len)) {
									size_t d = 0;
									while (d < len && d < clen[n + c] &&
									    cbuf[d] == canon[(n + c) * HCANON_MAX + d])
										d ++;
									vh_fail("confluence", "a=%d dead-bytes=0x%02x: context differs from the "
									    "single-update context of %zu bytes (canonical length %zu vs %zu, first "
									    "difference at canonical byte %zu)", al[k], h_poisons[pz],
									    (n + c), len, clen[n + c], d);
									bad = 1;
								}
							}
							free(base);
						}
						free(W);
						if (!bad && 0 != c)
							vh_nontrivial();
					}
				}
			}
		}

		/* one-shot entry points on every prefix (transform = whatever init selects on this CPU) */
		{
			const char *t_gd = h_name(A->pfx, "_get_digest", A->sfx, NULL);
			const char *t_gds = h_name(A->pfx, "_get_digest_str", A->sfx, NULL);

			for (p = 0; p < REF_NPAT; p ++) {
				L = (size_t)lvl_blocks[p] * A->B + 1;
				aligns_for(p, &al, &nal);
				for (n = 0; n <= L; n ++) {
					int own_gd = vh_begin(t_gd), bad = 0;

					if (own_gd) {
						vh_desc("pat=%d n=%zu", p, n);
						vh_publish_desc();
						expected(ai, p, n, want);
						for (k = 0; k < nal; k ++) {
							void *base;
							const uint8_t *src = h_src(ref_pat[p], n, al[k], &base);
							size_t dsz = 0xdead;

							dg = (uint8_t *)malloc(A->hs);
							memset(dg, 0xCC, A->hs);
							/* the size out-parameter is optional (NULL is tested by the library) */
							A->get_digest(src, n, dg, (k & 1) ? NULL : &dsz);
							if (0 != memcmp(dg, want, A->hs)) {
								vh_hex(hex, sizeof(hex), dg, A->hs);
								vh_fail("digest", "a=%d got %s", al[k], hex);
								bad = 1;
							}
							if (A->has_size_out && 0 == (k & 1) && dsz != A->hs) {
								vh_fail("digest-size", "a=%d reported %zu", al[k], dsz);
								bad = 1;
							}
							free(dg);
							free(base);
						}
						if (!bad)
							vh_nontrivial();
					}
					bad = 0;
					if (vh_begin(t_gds)) {
						char whex[2 * 64 + 8];

						vh_desc("pat=%d n=%zu", p, n);
						vh_publish_desc();
						expected(ai, p, n, want);
						vh_hex(whex, sizeof(whex), want, A->hs);
						for (k = 0; k < nal; k ++) {
							void *base;
							const uint8_t *src = h_src(ref_pat[p], n, al[k], &base);
							size_t ssz = 0xdead;
							/* 2*hs characters + the terminating NUL the function writes */
							char *s = (char *)malloc(2 * A->hs + 1);

							memset(s, 0x7e, 2 * A->hs + 1);
							A->get_digest_str((const char *)src, n, s, (k & 1) ? NULL : &ssz);
							if (0 != memcmp(s, whex, 2 * A->hs)) {
								vh_fail("hex-digest", "a=%d got %.*s", al[k], (int)(2 * A->hs), s);
								bad = 1;
							}
							if (A->has_size_out && 0 == (k & 1) && ssz != 2 * A->hs) {
								vh_fail("digest-size", "a=%d reported %zu", al[k], ssz);
								bad = 1;
							}
							free(s);
							free(base);
						}
						if (!bad)
							vh_nontrivial();
					}
				}
			}
		}
		munmap(S[0], (lmax_all + 1) * A->ctx_size);
		munmap(S[1], (lmax_all + 1) * A->ctx_size);
	}
	h_finish_model(0 == vh_shard && NULL == vh_only_target);
	return (vh_finish());
}
