/*
 * C04 - hash functions: standard digest for any message, chunking, alignment and build.
 *
 * Partition-confluence exploration (DESIGN 5) on the REAL contexts.  For one algorithm, one forced
 * block-transform implementation ("variant"), one message M of length L:
 *
 *   state  n        = the context after absorbing M[0..n)            (n = 0..L)
 *   S[n]            = representative: init + ONE update(M, n) from an aligned exact-size copy
 *   transition      = copy S[n], overwrite its dead bytes, update(M+n, c) with the chunk at address
 *                     = a (mod 64) in an exact-size heap block            (c = 0..L-n)
 *   oracle          = canonical(result) == canonical(S[n+c])
 *
 * canonical() = the live bytes only (chaining value, counters, parameters, transform selector, the
 * first `fill` bytes of the block buffer).  That this abstraction is right is itself checked: the
 * transitions and every final are executed with all other bytes of the context (buffer tail,
 * scratch arrays, unused half of hash[], padding) set to 0x00 and to 0xA5; the results must agree.
 * As every transition into n+c lands on the same canonical context, by induction every composition
 * of every prefix into update calls (empty ones included) yields S[n], and `final` from S[n] (under
 * both poisons) must give the reference digest of M[0..n) and leave the sensitive fields zero.
 *
 * One-shot entry points (*_get_digest, *_get_digest_str) are run on every prefix and compared with
 * the same reference.  Reference = hashlib table generated at check time (expected.h); Streebog =
 * ref_streebog.c.
 *
 * Long messages (every level): 16 blocks and 33 blocks+7 of an LFSR pattern, absorbed in one update at
 * alignments {0,1,16,31} and as 7|rest and B+1|rest, must give the reference digest (bulk loop over
 * many blocks; by the confluence argument nothing else can differ, this is the cheap cross-check).
 *
 * Length-encoding carries (every level): the byte counter of a freshly initialised context is preset to
 * P = 2^29-B, 2^32-B (bit length / byte count crossing 2^32) and, where the length field is 128 bits
 * wide (SHA-384/512) 2^61-B, 2^64-B (carry into the high word / into count_hi); Streebog additionally
 * 2^125-B (carry through two words of its 512-bit bit counter N).  Then m in {0,1,B-1,B,B+1,2B+1}
 * bytes are absorbed (one update, and 1 | rest) and final must give what the standard's padding rule
 * yields for a length field of (P+m)*8 bits over the chaining value IV (gen_ref.md_digest, validated
 * against hashlib on ordinary messages in the same run; ref_streebog_ex for Streebog).
 *
 * H_LEVEL: 0 quick   : pattern 0: L = 2 blocks+1, alignments {0,1,3,4,8,16,31,32,63}; patterns 1-3: L = 1 block+1, {0,1,31}
 *          1 reduced : pattern 0: L = 3 blocks+1, the same 9 alignments;            patterns 1-3: L = 2 blocks+1, {0,1,31}
 *          2 full    : every pattern L = 4 blocks+1; pattern 0 with all alignments 0..63, patterns 1-3 with the 9
 * Both poisons are applied for the first H_BOTH (2; level 2: 8) alignments of the list - an aligned and
 * an unaligned source at every (n, c) - the remaining alignments alternate between the two.
 */
#include "hcommon.h"
#include "expected.h"
#include "expected_preset.h"
#include <sys/wait.h>

#if H_LEVEL == 0
static const int lvl_blocks[REF_NPAT] = { 2, 1, 1, 1 };
#elif H_LEVEL == 1
static const int lvl_blocks[REF_NPAT] = { 3, 2, 2, 2 };
#else
static const int lvl_blocks[REF_NPAT] = { 4, 4, 4, 4 };
#endif

static const uint8_t *const exp_base[HALG_COUNT] = {
	(const uint8_t *)exp_md5, (const uint8_t *)exp_sha1, (const uint8_t *)exp_sha2_224,
	(const uint8_t *)exp_sha2_256, (const uint8_t *)exp_sha2_384, (const uint8_t *)exp_sha2_512,
	NULL, NULL
};

static void
expected(int ai, int p, size_t n, uint8_t *out) {
	const halg_t *A = &halgs[ai];

	if (A->gost_bits) {
		ref_streebog(A->gost_bits, ref_pat[p], n, out);
	} else {
		size_t lmax = 4 * A->B + 1;
		memcpy(out, exp_base[ai] + (((size_t)p * (lmax + 1)) + n) * A->hs, A->hs);
	}
}

static void
aligns_for(int p, const int **al, int *nal) {
#if H_LEVEL >= 2
	if (0 == p) {
		(*al) = h_aligns_all;
		(*nal) = 64;
	} else {
		(*al) = h_aligns_sub;
		(*nal) = H_NSUB;
	}
#else
	if (0 == p) {
		(*al) = h_aligns_sub;
		(*nal) = H_NSUB;
	} else {
		(*al) = h_aligns_3;
		(*nal) = 3;
	}
#endif
}

static void *
h_shared(size_t size) {
	void *m = mmap(NULL, size, PROT_READ | PROT_WRITE, MAP_SHARED | MAP_ANONYMOUS, -1, 0);
	if (MAP_FAILED == m) {
		fprintf(stderr, "mmap failed\n");
		exit(2);
	}
	return (m);
}

#define LMAX_ALL	(4 * 128 + 1)
/* the group being explored */
static struct {
	int	ai, v, p, nal;
	const int *al;
	size_t	L;
	uint8_t	*S[2];		/* poisoned representatives of the current pattern: S[pz] + n * ctx_size */
	uint8_t	*canon;		/* canon + n * HCANON_MAX */
	size_t	*clen;
	/* shared with the builder child, all patterns: index (p * (LMAX_ALL + 2) + n) */
	uint8_t	*S_all[2], *canon_all;
	size_t	*clen_all;
} G;

static void
select_pattern(int p) {
	size_t off = (size_t)p * (LMAX_ALL + 2);

	G.p = p;
	G.L = (size_t)lvl_blocks[p] * halgs[G.ai].B + 1;
	G.S[0] = G.S_all[0] + off * halgs[G.ai].ctx_size;
	G.S[1] = G.S_all[1] + off * halgs[G.ai].ctx_size;
	G.canon = G.canon_all + off * HCANON_MAX;
	G.clen = G.clen_all + off;
	aligns_for(p, &G.al, &G.nal);
}

/* Build S[n] = init + force + ONE update(M, n) for every pattern and n = 0..L in a child process
 * (results come back through shared memory), so that a crash in a plain single update is a finding
 * of this (algorithm, transform) group and not the death of the shard.  0 = fine; -1 = the child
 * reported an ASan error or died: the group is skipped (identically in every shard, so case
 * numbering stays consistent) and the finding is printed by shard 0 / by a replay. */
static int
build_group(const char *t_update) {
	const halg_t *A = &halgs[G.ai];
	int reporter = (0 == vh_shard || NULL != vh_only_target), st = 0, pz;
	volatile size_t *cur_n = G.clen_all + (LMAX_ALL + 1);	/* spare slots: where the child is */
	volatile size_t *cur_p = G.clen_all + (LMAX_ALL + 2) + (LMAX_ALL + 1);
	size_t n;
	int p;
	pid_t pid;

	fflush(stdout);
	pid = fork();
	if (pid < 0) {
		fprintf(stderr, "fork failed\n");
		exit(2);
	}
	if (0 == pid) {
		uint8_t *W = (uint8_t *)h_ctx_alloc(A->ctx_size);

		if (!reporter && NULL == freopen("/dev/null", "w", stdout))
			_exit(4);
		signal(SIGSEGV, SIG_DFL);
		signal(SIGBUS, SIG_DFL);
		signal(SIGILL, SIG_DFL);
		signal(SIGFPE, SIG_DFL);
		vh_cur = vh_target_id(t_update);
		vh_case_failed = 0;
		for (p = 0; p < REF_NPAT; p ++) {
			select_pattern(p);
			(*cur_p) = (size_t)p;
			for (n = 0; n <= G.L; n ++) {
				void *base;
				const uint8_t *src = h_src(ref_pat[p], n, 0, &base);

				(*cur_n) = n;
				vh_desc("pat=%d: representative state, init + one update of n=%zu bytes", p, n);
				memset(W, 0x5A, A->ctx_size);
				A->init(W);
				A->force(W, A->vname[G.v]);
				if (n)
					A->update(W, src, n);
				free(base);
				G.clen[n] = h_canon(A, W, 0, G.canon + n * HCANON_MAX);
				for (pz = 0; pz < 2; pz ++) {
					h_poison(A, W, 0, h_poisons[pz]);
					memcpy(G.S[pz] + n * A->ctx_size, W, A->ctx_size);
				}
			}
		}
		fflush(stdout);
		_exit(vh_case_failed ? 3 : 0);
	}
	while (waitpid(pid, &st, 0) < 0)
		;
	if (WIFEXITED(st) && 0 == WEXITSTATUS(st))
		return (0);
	if (reporter && !(WIFEXITED(st) && 3 == WEXITSTATUS(st))) {
		vh_cur = vh_target_id(t_update);
		vh_desc("pat=%d: representative state, init + one update of n=%zu bytes", (int)(*cur_p), (size_t)(*cur_n));
		vh_case_failed = 0;
		if (WIFSIGNALED(st))
			vh_fail("fatal-signal-in-single-update", "killed by signal %d (%s)", WTERMSIG(st), strsignal(WTERMSIG(st)));
		else
			vh_fail("fatal-signal-in-single-update", "child exit status %d", WEXITSTATUS(st));
	}
	return (-1);
}

/* final from state n, both poisons */
static int
case_final(size_t n) {
	const halg_t *A = &halgs[G.ai];
	uint8_t want[64], *dg, *W;
	char hex[2 * 64 + 8];	/* vh_hex wants 3 spare bytes */
	int pz, bad = 0;

	expected(G.ai, G.p, n, want);
	for (pz = 0; pz < 2; pz ++) {
		size_t nw;

		W = (uint8_t *)h_ctx_alloc(A->ctx_size);
		memcpy(W, G.S[pz] + n * A->ctx_size, A->ctx_size);
		dg = (uint8_t *)malloc(A->hs);	/* exact size: a longer write hits the redzone */
		memset(dg, 0xCC, A->hs);
		A->final(W, dg);
		h_transitions ++;
		if (0 != memcmp(dg, want, A->hs)) {
			vh_hex(hex, sizeof(hex), dg, A->hs);
			vh_fail("digest", "dead-bytes=0x%02x got %s", h_poisons[pz], hex);
			bad = 1;
		}
		nw = h_not_wiped(A, W, 0);
		if (0 != nw) {
			vh_fail("ctx-not-wiped", "dead-bytes=0x%02x: context byte at offset %zu is 0x%02x after final",
			    h_poisons[pz], (nw - 1), W[nw - 1]);
			bad = 1;
		}
		vh_outcome(dg, A->hs);
		free(dg);
		free(W);
	}
	return (bad);
}

/* transitions (n, c, a) for every alignment of the group */
static int
case_update(size_t n, size_t c) {
	const halg_t *A = &halgs[G.ai];
	uint8_t cbuf[HCANON_MAX], *W = (uint8_t *)h_ctx_alloc(A->ctx_size);
	const uint8_t *wc = G.canon + (n + c) * HCANON_MAX;
	int k, pz, bad = 0;

	for (k = 0; k < G.nal; k ++) {
		void *base;
		const uint8_t *src = h_src(ref_pat[G.p] + n, c, G.al[k], &base);

		for (pz = 0; pz < 2; pz ++) {
			size_t len;

			if (k >= H_BOTH && pz != (k & 1))
				continue;
			memcpy(W, G.S[pz] + n * A->ctx_size, A->ctx_size);
			A->update(W, src, c);
			h_transitions ++;
			len = h_canon(A, W, 0, cbuf);
			if (len != G.clen[n + c] || 0 != memcmp(cbuf, wc, len)) {
				size_t d = 0;
				while (d < len && d < G.clen[n + c] && cbuf[d] == wc[d])
					d ++;
				vh_fail("confluence", "a=%d dead-bytes=0x%02x: context differs from the "
				    "single-update context of %zu bytes (canonical length %zu vs %zu, first "
				    "difference at canonical byte %zu)", G.al[k], h_poisons[pz],
				    (n + c), len, G.clen[n + c], d);
				bad = 1;
			}
		}
		free(base);
	}
	free(W);
	return (bad);
}

/* *_get_digest (str = 0) / *_get_digest_str (str = 1) on the n-byte prefix, every alignment */
static int
case_oneshot(int ai, int p, size_t n, int str, const int *al, int nal) {
	const halg_t *A = &halgs[ai];
	uint8_t want[64];
	char hex[2 * 64 + 8], whex[2 * 64 + 8];
	int k, bad = 0;

	expected(ai, p, n, want);
	vh_hex(whex, sizeof(whex), want, A->hs);
	for (k = 0; k < nal; k ++) {
		void *base;
		const uint8_t *src = h_src(ref_pat[p], n, al[k], &base);
		size_t sz = 0xdead;
		int with_size = (0 == (k & 1));	/* the size out-parameter is optional (the library tests for NULL) */

		if (!str) {
			uint8_t *dg = (uint8_t *)malloc(A->hs);

			memset(dg, 0xCC, A->hs);
			A->get_digest(src, n, dg, with_size ? &sz : NULL);
			if (0 != memcmp(dg, want, A->hs)) {
				vh_hex(hex, sizeof(hex), dg, A->hs);
				vh_fail("digest", "a=%d got %s", al[k], hex);
				bad = 1;
			}
			if (A->has_size_out && with_size && sz != A->hs) {
				vh_fail("digest-size", "a=%d reported %zu", al[k], sz);
				bad = 1;
			}
			free(dg);
		} else {
			/* 2*hs characters + the terminating NUL the function writes */
			char *s = (char *)malloc(2 * A->hs + 1);

			memset(s, 0x7e, 2 * A->hs + 1);
			A->get_digest_str((const char *)src, n, s, with_size ? &sz : NULL);
			if (0 != memcmp(s, whex, 2 * A->hs)) {
				vh_fail("hex-digest", "a=%d got %.*s", al[k], (int)(2 * A->hs), s);
				bad = 1;
			}
			if (A->has_size_out && with_size && sz != 2 * A->hs) {
				vh_fail("digest-size", "a=%d reported %zu", al[k], sz);
				bad = 1;
			}
			free(s);
		}
		free(base);
	}
	return (bad);
}

static const struct { const int *n; const uint64_t (*p)[2]; const uint8_t *e; } preset_tab[HALG_COUNT] = {
	{ &npreset_md5, preset_md5, (const uint8_t *)expp_md5 },
	{ &npreset_sha1, preset_sha1, (const uint8_t *)expp_sha1 },
	{ &npreset_sha2_224, preset_sha2_224, (const uint8_t *)expp_sha2_224 },
	{ &npreset_sha2_256, preset_sha2_256, (const uint8_t *)expp_sha2_256 },
	{ &npreset_sha2_384, preset_sha2_384, (const uint8_t *)expp_sha2_384 },
	{ &npreset_sha2_512, preset_sha2_512, (const uint8_t *)expp_sha2_512 },
	{ &npreset_gost, preset_gost, NULL },
	{ &npreset_gost, preset_gost, NULL },
};

static const uint8_t *const expl_base[HALG_COUNT] = {
	(const uint8_t *)expl_md5, (const uint8_t *)expl_sha1, (const uint8_t *)expl_sha2_224,
	(const uint8_t *)expl_sha2_256, (const uint8_t *)expl_sha2_384, (const uint8_t *)expl_sha2_512,
	NULL, NULL
};

/* one long message: bulk path over many blocks */
static int
case_long(int ai, int v, int li) {
	static const int la[4] = { 0, 1, 16, 31 };
	const halg_t *A = &halgs[ai];
	size_t len = (0 == li) ? (16 * A->B) : (33 * A->B + 7), first;
	uint8_t want[64], *W, *dg;
	char hex[2 * 64 + 8];
	int k, bad = 0;

	if (A->gost_bits)
		ref_streebog(A->gost_bits, ref_long, len, want);
	else
		memcpy(want, expl_base[ai] + (size_t)li * A->hs, A->hs);
	for (k = 0; k < 6; k ++) {
		void *base;
		const uint8_t *src = h_src(ref_long, len, la[k & 3], &base);

		W = (uint8_t *)h_ctx_alloc(A->ctx_size);
		A->init(W);
		A->force(W, A->vname[v]);
		first = (k < 4) ? len : ((4 == k) ? 7 : (A->B + 1));
		A->update(W, src, first);
		A->update(W, src + first, len - first);
		h_transitions += 2;
		dg = (uint8_t *)malloc(A->hs);
		memset(dg, 0xCC, A->hs);
		A->final(W, dg);
		h_transitions ++;
		if (0 != memcmp(dg, want, A->hs)) {
			vh_hex(hex, sizeof(hex), dg, A->hs);
			vh_fail("digest", "len=%zu a=%d updates %zu|%zu: got %s", len, la[k & 3], first, len - first, hex);
			bad = 1;
		}
		free(dg);
		free(W);
		free(base);
	}
	return (bad);
}

/* Byte counter preset to P (buffer empty, chaining value = IV), then m more bytes and final. */
static int
case_preset(int ai, int v, int j) {
	const halg_t *A = &halgs[ai];
	uint64_t lo = preset_tab[ai].p[j][0], hi = preset_tab[ai].p[j][1];
	size_t ml[6], m, nw;
	uint8_t want[64], *W, *dg;
	char hex[2 * 64 + 8];
	int mi, split, bad = 0;

	ml[0] = 0; ml[1] = 1; ml[2] = A->B - 1; ml[3] = A->B; ml[4] = A->B + 1; ml[5] = 2 * A->B + 1;
	for (mi = 0; mi < 6; mi ++) {
		m = ml[mi];
		if (A->gost_bits) {
			uint8_t N0[64];
			int i;

			memset(N0, 0, sizeof(N0));	/* N0 = P * 8 as a 512-bit little-endian number */
			for (i = 0; i < 8; i ++) {
				N0[i] = (uint8_t)((lo << 3) >> (8 * i));
				N0[8 + i] = (uint8_t)(((hi << 3) | (lo >> 61)) >> (8 * i));
				N0[16 + i] = (uint8_t)((hi >> 61) >> (8 * i));
			}
			ref_streebog_ex(A->gost_bits, N0, ref_pat[0], m, want);
		} else {
			memcpy(want, preset_tab[ai].e + (((size_t)j * 6) + (size_t)mi) * A->hs, A->hs);
		}
		for (split = 0; split < 2; split ++) {
			void *base;
			const uint8_t *src = h_src(ref_pat[0], m, h_aligns_sub[(mi + split) % H_NSUB], &base);

			W = (uint8_t *)h_ctx_alloc(A->ctx_size);
			A->init(W);
			A->force(W, A->vname[v]);
			A->set_count(W, lo, hi);
			if (0 == split || 0 == m) {
				A->update(W, src, m);
				h_transitions ++;
			} else {
				A->update(W, src, 1);
				A->update(W, src + 1, m - 1);
				h_transitions += 2;
			}
			dg = (uint8_t *)malloc(A->hs);
			memset(dg, 0xCC, A->hs);
			A->final(W, dg);
			h_transitions ++;
			if (0 != memcmp(dg, want, A->hs)) {
				vh_hex(hex, sizeof(hex), dg, A->hs);
				vh_fail("length-encoding", "m=%zu %s: got %s", m, split ? "updates 1|rest" : "one update", hex);
				bad = 1;
			}
			nw = h_not_wiped(A, W, 0);
			if (0 != nw) {
				vh_fail("ctx-not-wiped", "m=%zu: context byte at offset %zu is 0x%02x after final", m, (nw - 1), W[nw - 1]);
				bad = 1;
			}
			free(dg);
			free(W);
			free(base);
		}
	}
	return (bad);
}


int
main(int argc, char **argv) {
	int ai, v, p, j, bad, str;
	size_t n, c;

	vh_init(argc, argv);
	h_common_init();
	h_install_handlers();
	G.canon_all = (uint8_t *)h_shared(REF_NPAT * (LMAX_ALL + 2) * HCANON_MAX);
	G.clen_all = (size_t *)h_shared(REF_NPAT * (LMAX_ALL + 2) * sizeof(size_t));

	for (ai = 0; ai < HALG_COUNT; ai ++) {
		const halg_t *A = &halgs[ai];

		G.ai = ai;
		G.S_all[0] = (uint8_t *)h_shared(REF_NPAT * (LMAX_ALL + 2) * A->ctx_size);
		G.S_all[1] = (uint8_t *)h_shared(REF_NPAT * (LMAX_ALL + 2) * A->ctx_size);
		for (v = 0; v < A->nvar; v ++) {
			const char *t_update = h_name(A->pfx, "_update", A->sfx, A->vname[v]);
			const char *t_final = h_name(A->pfx, "_final", A->sfx, A->vname[v]);

			G.v = v;
			if (0 != build_group(t_update))
				continue;
			for (p = 0; p < REF_NPAT; p ++) {
				select_pattern(p);
				if (0 == vh_shard) {
					for (n = 0; n <= G.L; n ++)
						h_state_seen(ai, G.canon + n * HCANON_MAX, G.clen[n], (uint64_t)p);
				}
				for (n = 0; n <= G.L; n ++) {
					if (!vh_begin(t_final))
						continue;
					vh_desc("pat=%d L=%zu n=%zu", p, G.L, n);
					vh_publish_desc();
					H_GUARDED(bad, case_final(n));
					if (!bad)
						vh_nontrivial();
				}
				for (n = 0; n <= G.L; n ++) {
					for (c = 0; c <= G.L - n; c ++) {
						if (!vh_begin(t_update))
							continue;
						vh_desc("pat=%d L=%zu n=%zu c=%zu", p, G.L, n, c);
						vh_publish_desc();
						H_GUARDED(bad, case_update(n, c));
						if (!bad && 0 != c)
							vh_nontrivial();
					}
				}
			}
			h_flush_model(0 == vh_shard && NULL == vh_only_target);
		}

		/* long messages; length-encoding carries from preset byte counters */
		for (v = 0; v < A->nvar; v ++) {
			const char *t_preset = h_name(A->pfx, "_final", A->sfx, A->vname[v]);
			char *t = (char *)malloc(128), *tl = (char *)malloc(128);

			snprintf(tl, 128, "%s/long", h_name(A->pfx, "_update", A->sfx, A->vname[v]));
			for (j = 0; j < 2; j ++) {
				if (!vh_begin(tl))
					continue;
				vh_desc("long message %d: %zu bytes", j, (0 == j) ? (16 * A->B) : (33 * A->B + 7));
				vh_publish_desc();
				H_GUARDED(bad, case_long(ai, v, j));
				if (!bad)
					vh_nontrivial();
			}
			snprintf(t, 128, "%s/preset-count", t_preset);
			for (j = 0; j < (*preset_tab[ai].n); j ++) {
				if (!vh_begin(t))
					continue;
				vh_desc("byte counter preset to 0x%llx%016llx", (unsigned long long)preset_tab[ai].p[j][1],
				    (unsigned long long)preset_tab[ai].p[j][0]);
				vh_publish_desc();
				H_GUARDED(bad, case_preset(ai, v, j));
				if (!bad)
					vh_nontrivial();
			}
		}

		/* one-shot entry points on every prefix (transform = whatever init selects on this CPU) */
		for (str = 0; str < 2; str ++) {
			const char *t = h_name(A->pfx, str ? "_get_digest_str" : "_get_digest", A->sfx, NULL);

			for (p = 0; p < REF_NPAT; p ++) {
				size_t L = (size_t)lvl_blocks[p] * A->B + 1;

				/* (G.al/G.nal: no address-taken block-scope locals around sigsetjmp - gcc's
				 * use-after-scope instrumentation misfires on them) */
				aligns_for(p, &G.al, &G.nal);
				for (n = 0; n <= L; n ++) {
					if (!vh_begin(t))
						continue;
					vh_desc("pat=%d n=%zu", p, n);
					vh_publish_desc();
					H_GUARDED(bad, case_oneshot(ai, p, n, str, G.al, G.nal));
					if (!bad)
						vh_nontrivial();
				}
			}
		}
		munmap(G.S_all[0], REF_NPAT * (LMAX_ALL + 2) * A->ctx_size);
		munmap(G.S_all[1], REF_NPAT * (LMAX_ALL + 2) * A->ctx_size);
	}
	h_flush_model(0 == vh_shard && NULL == vh_only_target);
	return (vh_finish());
}
