/* C04 / C07: what a finished computation leaves behind in the DEAD STACK.
 *
 * The one-shot entry points (X_get_digest, X_get_digest_str, hmac_X, X_hmac_get_digest*) keep their hash
 * context in a local variable, hmac_X_init keeps the inner pad in one.  Wiping such an object is the last
 * thing done to it, which is exactly what an optimiser removes when the wipe is written as a plain store
 * (the library goes through a volatile function pointer for that reason).  A context-inspecting check
 * cannot see this: the object is gone when the call returns.  Here every entry point runs on a stack this
 * program owns (makecontext), and afterwards the whole used part of that stack is searched for
 *   - the message tail (the bytes that only ever live in ctx.buffer)            -> C04 "holds no message data"
 *   - the keyed pads K^0x36.. and K^0x5c.. (K = key, or H(key) for long keys)  -> C07 "keyed pads are wiped"
 * as raw byte runs of at least RUN_MAX bytes (see below).  Inputs and outputs live in static storage, so a hit is a copy
 * made by the library.  Built WITHOUT sanitizers (ASan moves locals to a fake stack) for each compiler and
 * optimisation level of the matrix; -O0 builds keep every wipe and serve as the control. */
#define _GNU_SOURCE
#include <errno.h>
#include <stdint.h>
#include <string.h>
#include <ucontext.h>
#ifdef H_NOSIMD
#undef __SSE2__
#endif
#include "crypto/hash/md5.h"
#include "crypto/hash/sha1.h"
#include "crypto/hash/sha2.h"
#include "crypto/hash/gost3411-2012.h"
#include "vh.h"

#define STK_SIZE (1024 * 1024)
/* A hit is a run of at least this many bytes (or the whole pattern when it is shorter).  Register spills of the block
 * transforms leave 16-32 byte fragments of the block being hashed in their frames on the unchanged tree (md5 at -O2/-O3,
 * sha512 with SIMD loads); an object that was not wiped - ctx.buffer with the 40-byte tail, a 64/128-byte pad - is there
 * as a whole.  The bound separates the two. */
#define RUN_MAX 40
#define RUN_MIN 16
static uint8_t stk[STK_SIZE] __attribute__((aligned(64)));
static ucontext_t main_uc, job_uc;

/* ---- static inputs / outputs ---- */
#define TAIL 40
static uint8_t msg[256 + TAIL];		/* two 128-byte blocks (one or more blocks for every variant) + tail */
static size_t msg_size;
static uint8_t key[512];
static size_t key_size;
static uint8_t out_digest[128];
static char out_str[300];
static size_t out_size;
static union { md5_ctx_t md5; sha1_ctx_t sha1; sha2_ctx_t sha2; gost3411_2012_ctx_t gost; hmac_md5_ctx_t hmd5; hmac_sha1_ctx_t hsha1;
	hmac_sha2_ctx_t hsha2; hmac_gost3411_2012_ctx_t hgost; } static_ctx;

enum { V_MD5 = 0, V_SHA1, V_SHA224, V_SHA256, V_SHA384, V_SHA512, V_GOST256, V_GOST512, V_N };
static const char *vname[V_N] = { "md5", "sha1", "sha224", "sha256", "sha384", "sha512", "gost3411_2012_256", "gost3411_2012_512" };
static const size_t vblock[V_N] = { 64, 64, 64, 64, 128, 128, 64, 64 };
static const size_t vbits[V_N] = { 0, 0, 224, 256, 384, 512, 256, 512 };
enum { E_DIGEST = 0, E_DIGEST_STR, E_STREAM_STATIC_CTX, E_HMAC, E_HMAC_GET, E_HMAC_GET_STR, E_HMAC_STREAM_STATIC_CTX, E_N };
static const char *ename[E_N] = { "get_digest", "get_digest_str", "init+update+final(static ctx)", "hmac", "hmac_get_digest", "hmac_get_digest_str",
	"hmac_init+update+final(static ctx)" };
static int cur_v, cur_e;

static void
job(void) {
	size_t bits = vbits[cur_v];
	switch (cur_v) {
	case V_MD5:
		switch (cur_e) {
		case E_DIGEST: md5_get_digest(msg, msg_size, out_digest); break;
		case E_DIGEST_STR: md5_get_digest_str((const char *)msg, msg_size, out_str); break;
		case E_STREAM_STATIC_CTX: md5_init(&static_ctx.md5); md5_update(&static_ctx.md5, msg, msg_size); md5_final(&static_ctx.md5, out_digest); break;
		case E_HMAC: hmac_md5(key, key_size, msg, msg_size, out_digest); break;
		case E_HMAC_GET: md5_hmac_get_digest(key, key_size, msg, msg_size, out_digest); break;
		case E_HMAC_GET_STR: md5_hmac_get_digest_str((const char *)key, key_size, (const char *)msg, msg_size, out_str); break;
		case E_HMAC_STREAM_STATIC_CTX: hmac_md5_init(key, key_size, &static_ctx.hmd5); hmac_md5_update(&static_ctx.hmd5, msg, msg_size); hmac_md5_final(&static_ctx.hmd5, out_digest); break;
		}
		break;
	case V_SHA1:
		switch (cur_e) {
		case E_DIGEST: sha1_get_digest(msg, msg_size, out_digest); break;
		case E_DIGEST_STR: sha1_get_digest_str((const char *)msg, msg_size, out_str); break;
		case E_STREAM_STATIC_CTX: sha1_init(&static_ctx.sha1); sha1_update(&static_ctx.sha1, msg, msg_size); sha1_final(&static_ctx.sha1, out_digest); break;
		case E_HMAC: hmac_sha1(key, key_size, msg, msg_size, out_digest); break;
		case E_HMAC_GET: sha1_hmac_get_digest(key, key_size, msg, msg_size, out_digest); break;
		case E_HMAC_GET_STR: sha1_hmac_get_digest_str((const char *)key, key_size, (const char *)msg, msg_size, out_str); break;
		case E_HMAC_STREAM_STATIC_CTX: hmac_sha1_init(key, key_size, &static_ctx.hsha1); hmac_sha1_update(&static_ctx.hsha1, msg, msg_size); hmac_sha1_final(&static_ctx.hsha1, out_digest); break;
		}
		break;
	case V_SHA224: case V_SHA256: case V_SHA384: case V_SHA512:
		switch (cur_e) {
		case E_DIGEST: sha2_get_digest(bits, msg, msg_size, out_digest, &out_size); break;
		case E_DIGEST_STR: sha2_get_digest_str(bits, (const char *)msg, msg_size, out_str, &out_size); break;
		case E_STREAM_STATIC_CTX: sha2_init(bits, &static_ctx.sha2); sha2_update(&static_ctx.sha2, msg, msg_size); sha2_final(&static_ctx.sha2, out_digest); break;
		case E_HMAC: hmac_sha2(bits, key, key_size, msg, msg_size, out_digest, &out_size); break;
		case E_HMAC_GET: sha2_hmac_get_digest(bits, key, key_size, msg, msg_size, out_digest, &out_size); break;
		case E_HMAC_GET_STR: sha2_hmac_get_digest_str(bits, (const char *)key, key_size, (const char *)msg, msg_size, out_str, &out_size); break;
		case E_HMAC_STREAM_STATIC_CTX: hmac_sha2_init(bits, key, key_size, &static_ctx.hsha2); hmac_sha2_update(&static_ctx.hsha2, msg, msg_size); hmac_sha2_final(&static_ctx.hsha2, out_digest, &out_size); break;
		}
		break;
	default:
		switch (cur_e) {
		case E_DIGEST: gost3411_2012_get_digest(bits, msg, msg_size, out_digest, &out_size); break;
		case E_DIGEST_STR: gost3411_2012_get_digest_str(bits, (const char *)msg, msg_size, out_str, &out_size); break;
		case E_STREAM_STATIC_CTX: gost3411_2012_init(bits, &static_ctx.gost); gost3411_2012_update(&static_ctx.gost, msg, msg_size); gost3411_2012_final(&static_ctx.gost, out_digest); break;
		case E_HMAC: hmac_gost3411_2012(bits, key, key_size, msg, msg_size, out_digest, &out_size); break;
		case E_HMAC_GET: gost3411_2012_hmac_get_digest(bits, key, key_size, msg, msg_size, out_digest, &out_size); break;
		case E_HMAC_GET_STR: gost3411_2012_hmac_get_digest_str(bits, (const char *)key, key_size, (const char *)msg, msg_size, out_str, &out_size); break;
		case E_HMAC_STREAM_STATIC_CTX: hmac_gost3411_2012_init(bits, key, key_size, &static_ctx.hgost); hmac_gost3411_2012_update(&static_ctx.hgost, msg, msg_size); hmac_gost3411_2012_final(&static_ctx.hgost, out_digest, &out_size); break;
		}
		break;
	}
}

static void
run_on_own_stack(void) {
	memset(stk, 0xC3, sizeof(stk));
	getcontext(&job_uc);
	job_uc.uc_stack.ss_sp = stk; job_uc.uc_stack.ss_size = sizeof(stk); job_uc.uc_link = &main_uc;
	makecontext(&job_uc, job, 0);
	swapcontext(&main_uc, &job_uc);
}

/* longest run of pat[] (any substring, anywhere) found in the used part of the stack; returns its length (>= the bound) or 0 */
static size_t
find_residue(const uint8_t *pat, size_t plen, size_t *where, size_t *pat_off) {
	size_t lo = 0, w, best = 0, RUN = (plen < RUN_MAX) ? plen : RUN_MAX;
	const uint8_t *hit;
	while (lo < sizeof(stk) && 0xC3 == stk[lo]) lo ++;
	if (plen < RUN_MIN) return (0);
	for (w = 0; w + RUN <= plen; w ++) {
		const uint8_t *from = stk + lo; size_t left = sizeof(stk) - lo;
		while (NULL != (hit = (const uint8_t *)memmem(from, left, pat + w, RUN))) {
			size_t n = RUN;
			while (w + n < plen && (size_t)(hit - stk) + n < sizeof(stk) && hit[n] == pat[w + n]) n ++;
			if (n > best) { best = n; *where = (size_t)(hit - stk); *pat_off = w; }
			left -= (size_t)(hit + 1 - from); from = hit + 1;
		}
		if (best >= plen - w) break;
	}
	return (best);
}

/* K' of RFC 2104: the key, or its hash when it is longer than the block (computed here with the static context) */
static size_t
effective_key(int v, uint8_t *kp) {
	size_t b = vblock[v], hs = 0;
	if (key_size <= b) { memcpy(kp, key, key_size); return (key_size); }
	switch (v) {
	case V_MD5: md5_get_digest(key, key_size, kp); hs = 16; break;
	case V_SHA1: sha1_get_digest(key, key_size, kp); hs = 20; break;
	case V_GOST256: case V_GOST512: gost3411_2012_get_digest(vbits[v], key, key_size, kp, &hs); break;
	default: sha2_get_digest(vbits[v], key, key_size, kp, &hs); break;
	}
	return (hs);
}

int
main(int argc, char **argv) {
	size_t i, where = 0, poff = 0, n, kl, ks;
	int kv;
	uint8_t kp[128], pad[128];
	static const char *kname[3] = { "short", "block", "long" };

	vh_init(argc, argv);
	/* byte patterns without repeats (so a run identifies its place); none of them equals the stack fill */
	for (i = 0; i < sizeof(msg); i ++) msg[i] = (uint8_t)(((i * 167u + 13u) ^ (i >> 8) * 91u) & 0xff);
	for (cur_v = 0; cur_v < V_N; cur_v ++) {
		size_t b = vblock[cur_v];
		msg_size = b + TAIL;	/* one whole block (hashed from the caller's buffer) + a tail that only lives in ctx.buffer */
		for (cur_e = 0; cur_e < E_N; cur_e ++) {
#ifdef RESIDUE_SET	/* 0: the hash entry points (C04); 1: the HMAC entry points (C07) */
			if ((cur_e >= E_HMAC) != (0 != RESIDUE_SET)) continue;
#endif
			for (kv = 0; kv < ((cur_e >= E_HMAC) ? 3 : 1); kv ++) {
				char target[96];
				snprintf(target, sizeof(target), "dead-stack/%s/%s", vname[cur_v], ename[cur_e]);
				if (!vh_begin(target)) continue;
				key_size = (0 == kv) ? 40 : (1 == kv) ? b : b + 40;
				for (i = 0; i < key_size; i ++) key[i] = (uint8_t)((i * 89u + 7u + (unsigned)kv * 50u) & 0xff);
				vh_desc("%s %s msg=%zu bytes (tail %d)%s%s", vname[cur_v], ename[cur_e], msg_size, TAIL, (cur_e >= E_HMAC) ? " key=" : "", (cur_e >= E_HMAC) ? kname[kv] : "");
				memset(&static_ctx, 0, sizeof(static_ctx));
				run_on_own_stack();
				/* C04: the message tail */
				n = find_residue(msg + b, TAIL, &where, &poff);
				if (n) vh_fail("message-left-on-stack", "%zu bytes of the message tail (from tail offset %zu) are still in the dead stack, %zu bytes below its top", n, poff, sizeof(stk) - where);
				if (cur_e >= E_HMAC) {
					/* C07: the keyed pads */
					ks = effective_key(cur_v, kp);
					for (kl = 0; kl < 2; kl ++) {
						for (i = 0; i < ks; i ++) pad[i] = kp[i] ^ (kl ? 0x5c : 0x36);
						n = find_residue(pad, ks, &where, &poff);
						if (n) vh_fail(kl ? "k_opad-left-on-stack" : "k_ipad-left-on-stack", "%zu bytes of the keyed %s pad are still in the dead stack, %zu bytes below its top", n, kl ? "outer" : "inner", sizeof(stk) - where);
					}
				}
				vh_nontrivial();
				{ size_t used = 0; while (used < sizeof(stk) && 0xC3 == stk[used]) used ++; used = sizeof(stk) - used; vh_outcome(&used, sizeof(used)); }
			}
		}
	}
	return (vh_finish());
}
