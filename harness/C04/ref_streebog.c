/*
 * Reference GOST R 34.11-2012 ("Streebog") and HMAC (RFC 2104) over it.
 *
 * A plain transcription of the construction in the standard / RFC 6986:
 * S (byte substitution pi), P (byte permutation tau), L (64x64 GF(2) matrix A
 * applied to each 64-bit word, most significant bit <-> first row), X (xor),
 * key schedule K_{i+1} = LPS(K_i xor C_i), E, g_N, padding 0..01||M,
 * counters N and Sigma modulo 2^512.  No shared code with liblcb.
 *
 * Byte convention: a 512-bit vector is 64 bytes, byte 0 least significant; a
 * message occupies bytes in memory order (the RFC prints vectors most significant
 * byte first, i.e. reversed).
 *
 * The TABLES (pi, tau, A, C) are not typed in here: gen_ref.py parses them as data
 * from liblcb's header into streebog_tables.h.  Their VALUES are therefore anchored
 * only by the published vectors in ref_streebog_selftest() (RFC 6986 M1, M2; the
 * empty message, 64 zero bytes and three short strings from the header's self test;
 * the RFC 7836 HMAC vector).  The run refuses to trust this file unless they pass.
 *
 * Compiled once per check run with -O2 and without sanitizers (it is not under test).
 */
#include <stdint.h>
#include <stddef.h>
#include <string.h>
#include <stdlib.h>
#include <stdio.h>
#include "streebog_tables.h"

static void
ref_X(const uint8_t *a, const uint8_t *b, uint8_t *o) {
	int i;
	for (i = 0; i < 64; i ++)
		o[i] = a[i] ^ b[i];
}

static void
ref_S(uint8_t *v) {
	int i;
	for (i = 0; i < 64; i ++)
		v[i] = ref_pi[v[i]];
}

static void
ref_P(uint8_t *v) {
	uint8_t t[64];
	int i;
	for (i = 0; i < 64; i ++)
		t[i] = v[ref_tau[i]];
	memcpy(v, t, 64);
}

static void
ref_L(uint8_t *v) {
	int w, i, k;
	for (w = 0; w < 8; w ++) {
		uint64_t x = 0, r = 0;
		for (k = 7; k >= 0; k --)
			x = (x << 8) | v[w * 8 + k];
		for (i = 0; i < 64; i ++) {
			if ((x >> (63 - i)) & 1)
				r ^= ref_A[i];
		}
		for (k = 0; k < 8; k ++)
			v[w * 8 + k] = (uint8_t)(r >> (8 * k));
	}
}

static void
ref_LPS(uint8_t *v) {
	ref_S(v);
	ref_P(v);
	ref_L(v);
}

/* h = g_N(h, m) = E(LPS(h xor N), m) xor h xor m */
static void
ref_g(const uint8_t *N, uint8_t *h, const uint8_t *m) {
	uint8_t K[64], st[64], t[64];
	int i;

	ref_X(h, N, K);
	ref_LPS(K);			/* K_1 */
	memcpy(st, m, 64);
	for (i = 0; i < 12; i ++) {
		ref_X(st, K, st);	/* X[K_{i+1}] */
		ref_LPS(st);
		ref_X(K, ref_C[i], K);	/* K_{i+2} = LPS(K_{i+1} xor C_{i+1}) */
		ref_LPS(K);
	}
	ref_X(st, K, st);		/* X[K_13] */
	ref_X(st, h, t);
	ref_X(t, m, h);
}

static void
ref_add512(uint8_t *a, const uint8_t *b) {
	unsigned c = 0;
	int i;
	for (i = 0; i < 64; i ++) {
		c += (unsigned)a[i] + b[i];
		a[i] = (uint8_t)c;
		c >>= 8;
	}
}

static void
ref_add512_u(uint8_t *a, uint64_t v) {
	uint8_t b[64];
	int i;
	memset(b, 0, 64);
	for (i = 0; i < 8; i ++)
		b[i] = (uint8_t)(v >> (8 * i));
	ref_add512(a, b);
}

/* Stages 2 and 3 of the standard started from h = IV, Sigma = 0 and the bit counter N = N0
 * (64 bytes, least significant first; NULL = 0, i.e. the hash function itself).  N0 != 0 is what
 * the preset-counter cases of the harness need: the carries inside N are not reachable otherwise. */
void
ref_streebog_ex(int bits, const uint8_t *N0, const uint8_t *msg, size_t len, uint8_t *out) {
	uint8_t h[64], N[64], Sg[64], m[64], Z[64];

	memset(h, (256 == bits) ? 0x01 : 0x00, 64);
	memset(N, 0, 64);
	if (NULL != N0)
		memcpy(N, N0, 64);
	memset(Sg, 0, 64);
	memset(Z, 0, 64);
	while (len >= 64) {		/* stage 2 */
		ref_g(N, h, msg);
		ref_add512_u(N, 512);
		ref_add512(Sg, msg);
		msg += 64;
		len -= 64;
	}
	memset(m, 0, 64);		/* stage 3: m = 0...01 || M */
	if (len)
		memcpy(m, msg, len);
	m[len] = 0x01;
	ref_g(N, h, m);
	ref_add512_u(N, (uint64_t)len * 8);
	ref_add512(Sg, m);
	ref_g(Z, h, N);
	ref_g(Z, h, Sg);
	if (256 == bits)
		memcpy(out, h + 32, 32);	/* MSB_256 */
	else
		memcpy(out, h, 64);
}

void
ref_streebog(int bits, const uint8_t *msg, size_t len, uint8_t *out) {
	ref_streebog_ex(bits, NULL, msg, len, out);
}

/* RFC 2104 with B = 64, L = 32/64. */
void
ref_hmac_streebog(int bits, const uint8_t *key, size_t klen, const uint8_t *msg,
    size_t mlen, uint8_t *out) {
	size_t hs = (256 == bits) ? 32 : 64, i;
	uint8_t K[64], inner[64], *buf;

	memset(K, 0, 64);
	if (klen > 64)
		ref_streebog(bits, key, klen, K);
	else if (klen)
		memcpy(K, key, klen);
	buf = (uint8_t *)malloc(64 + mlen + 64);
	for (i = 0; i < 64; i ++)
		buf[i] = K[i] ^ 0x36;
	if (mlen)
		memcpy(buf + 64, msg, mlen);
	ref_streebog(bits, buf, 64 + mlen, inner);
	for (i = 0; i < 64; i ++)
		buf[i] = K[i] ^ 0x5c;
	memcpy(buf + 64, inner, hs);
	ref_streebog(bits, buf, 64 + hs, out);
	free(buf);
}


/* ---- published vectors (RFC 6986 section 10 as carried by liblcb's self test, byte order as
 * liblcb emits it = reverse of the RFC's most-significant-first print; RFC 7836 appendix B). */
static int
ref_hexeq(const uint8_t *b, size_t n, const char *hex) {
	static const char hx[] = "0123456789abcdef";
	size_t i;
	if (strlen(hex) != 2 * n)
		return (0);
	for (i = 0; i < n; i ++) {
		if (hex[2 * i] != hx[b[i] >> 4] || hex[2 * i + 1] != hx[b[i] & 15])
			return (0);
	}
	return (1);
}

static const uint8_t ref_m2[72] = {
	0xd1, 0xe5, 0x20, 0xe2, 0xe5, 0xf2, 0xf0, 0xe8, 0x2c, 0x20, 0xd1, 0xf2, 0xf0, 0xe8, 0xe1, 0xee,
	0xe6, 0xe8, 0x20, 0xe2, 0xed, 0xf3, 0xf6, 0xe8, 0x2c, 0x20, 0xe2, 0xe5, 0xfe, 0xf2, 0xfa, 0x20,
	0xf1, 0x20, 0xec, 0xee, 0xf0, 0xff, 0x20, 0xf1, 0xf2, 0xf0, 0xe5, 0xeb, 0xe0, 0xec, 0xe8, 0x20,
	0xed, 0xe0, 0x20, 0xf5, 0xf0, 0xe0, 0xe1, 0xf0, 0xfb, 0xff, 0x20, 0xef, 0xeb, 0xfa, 0xea, 0xfb,
	0x20, 0xc8, 0xe3, 0xee, 0xf0, 0xe5, 0xe2, 0xfb
};
static const uint8_t ref_zero64[64];

static const struct {
	const void *msg; size_t len; const char *h256, *h512;
} ref_vec[] = {
	{ "", 0,
	  "3f539a213e97c802cc229d474c6aa32a825a360b2a933a949fd925208d9ce1bb",
	  "8e945da209aa869f0455928529bcae4679e9873ab707b55315f56ceb98bef0a7362f715528356ee83cda5f2aac4c6ad2ba3a715c1bcd81cb8e9f90bf4c1c1a8a" },
	{ "012345678901234567890123456789012345678901234567890123456789012", 63,	/* RFC 6986 M1 */
	  "9d151eefd8590b89daa6ba6cb74af9275dd051026bb149a452fd84e5e57b5500",
	  "1b54d01a4af5b9d5cc3d86d68d285462b19abc2475222f35c085122be4ba1ffa00ad30f8767b3a82384c6574f024c311e2a481332b08ef7f41797891c1646f48" },
	{ ref_m2, 72,									/* RFC 6986 M2 */
	  "9dd2fe4e90409e5da87f53976d7405b0c0cac628fc669a741d50063c557e8f50",
	  "1e88e62226bfca6f9994f1f2d51569e0daf8475a3b0fe61a5300eee46d961376035fe83549ada2b8620fcd7c496ce5b33f0cb9dddc2b6460143b03dabac9fb28" },
	{ ref_zero64, 64,
	  "df1fda9ce83191390537358031db2ecaa6aa54cd0eda241dc107105e13636b95",
	  "b0fd29ac1b0df441769ff3fdb8dc564df67721d6ac06fb28ceffb7bbaa7948c6c014ac999235b58cb26fb60fb112a145d7b4ade9ae566bf2611402c552d20db7" },
	{ "The quick brown fox jumps over the lazy dog", 43,
	  "3e7dea7f2384b6c5a3d0e24aaa29c05e89ddd762145030ec22c71a6db8b2c1f4", NULL },
	{ "The quick brown fox jumps over the lazy dog.", 44,
	  "36816a824dcbe7d6171aa58500741f2ea2757ae2e1784ab72c5c3c6c198d71da", NULL },
	{ "foobar", 6,
	  "e3c9fd89226d93b489a9fe27d686806e24a514e3787bca053c698ec4616ceb78", NULL },
};

/* 0 = every published vector reproduced; otherwise 1 + index of the first failing one. */
int
ref_streebog_selftest(void) {
	uint8_t d[64], key[32];
	static const uint8_t hm[16] = { 0x01, 0x26, 0xbd, 0xb8, 0x78, 0x00, 0xaf, 0x21,
	    0x43, 0x41, 0x45, 0x65, 0x63, 0x78, 0x01, 0x00 };
	size_t i;

	for (i = 0; i < sizeof(ref_vec) / sizeof(ref_vec[0]); i ++) {
		ref_streebog(256, (const uint8_t *)ref_vec[i].msg, ref_vec[i].len, d);
		if (!ref_hexeq(d, 32, ref_vec[i].h256))
			return (1 + (int)i);
		if (NULL != ref_vec[i].h512) {
			ref_streebog(512, (const uint8_t *)ref_vec[i].msg, ref_vec[i].len, d);
			if (!ref_hexeq(d, 64, ref_vec[i].h512))
				return (1 + (int)i);
		}
	}
	for (i = 0; i < 32; i ++)
		key[i] = (uint8_t)i;
	ref_hmac_streebog(256, key, 32, hm, 16, d);		/* RFC 7836 */
	if (!ref_hexeq(d, 32, "a1aa5f7de402d7b3d323f2991c8d4534013137010a83754fd0af6d7cd4922ed9"))
		return (100);
	ref_hmac_streebog(512, key, 32, hm, 16, d);
	if (!ref_hexeq(d, 64, "a59bab22ecae19c65fbde6e5f4e9f5d8549d31f037f9df9b905500e171923a773d5f1530f2ed7e964cb2eedc29e9ad2f3afe93b2814f79f5000ffc0366c251e6"))
		return (101);
	return (0);
}

#ifdef REF_SELFTEST_MAIN
int
main(void) {
	int r = ref_streebog_selftest();
	printf("ref_streebog_selftest=%d\n", r);
	return (r ? 1 : 0);
}
#endif
