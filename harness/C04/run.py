"""C04 - hash functions give the standard digest for any message, chunking, alignment and build.

Builds h_c04.c once per configuration of the matrix (DESIGN 7), runs each binary sharded, and
reports.  Reference material (hashlib tables, Streebog tables parsed from the header, the C
reference object) is generated first into build/C04/.
"""
import os, sys
from vlib import core

HERE = os.path.dirname(os.path.abspath(__file__))
sys.path.insert(0, HERE)
import matrix  # noqa: E402

PROP = 'C04'

def run(tier):
    rep = core.Report(PROP, tier, 'model_checking',
        'states = canonical contexts (algorithm, forced transform, message pattern, absorbed length n); transitions = '
        'every update(next c bytes, c=0..L-n, source address = a mod 64) and every final, each executed on the real '
        'context with its dead bytes set to 0x00 and again to 0xA5; a transition counts as non-trivial when c>0 and the '
        'successor equals the single-update context; finals/one-shots when the digest equals the reference and the '
        'context is wiped.  quick: L<=2 blocks+1, 7 alignments, 9 builds; thorough: L=4 blocks+1, 7 alignments in 53 builds, '
        'all 64 alignments in the all-transforms build')
    rep.assumptions = [
        'hashlib (OpenSSL) is the reference for MD5, SHA-1, SHA-224/256/384/512',
        'Streebog reference = the construction of the standard written out in harness/C04/ref_streebog.c over the tables pi, tau, A, C '
        'parsed as data from liblcb\'s own header; the table VALUES are anchored only by the published vectors (RFC 6986 M1/M2, empty, '
        '64 zero bytes, three short strings, RFC 7836 HMAC), which the reference must reproduce in this run',
        'the sandbox CPU implements every instruction set a forced transform needs (sse4.1, avx2, sha_ni)',
        'message contents are the four fixed patterns; a value-dependent defect that these and the published vectors miss is outside the bound',
    ]
    matrix.run_matrix(rep, PROP, tier, 'harness/C04/h_c04.c', 'h_c04')
