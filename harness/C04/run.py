"""C04 - hash functions give the standard digest for any message, chunking, alignment and build.

Builds h_c04.c once per configuration of the matrix (DESIGN 7), runs each binary sharded, and
reports.  Reference material (hashlib tables, Streebog tables parsed from the header, the C
reference object) is generated first into build/C04/.
"""
import os, sys
from vlib import core

HERE = os.path.dirname(os.path.abspath(__file__))
sys.path.insert(0, HERE)
import matrix  # noqa: E402

PROP = 'C04'

def run(tier):
    rep = core.Report(PROP, tier, 'model_checking',
        'states = canonical contexts (algorithm, forced transform, message pattern, absorbed length n); transitions = every '
        'update(next c bytes, c=0..L-n, source address = a mod 64, exact-size heap block) and every final, executed on the real '
        'context with its dead bytes overwritten (0x00 and 0xA5; both for the first alignments of the list, alternating after); '
        'oracle: successor == the single-update context of n+c bytes, final == reference digest of the prefix and context wiped; '
        'one-shot/hex entry points on every prefix; length-encoding carries from preset byte counters.  quick: 10 builds (gcc -mssse3 does not compile), counter '
        'pattern L=2 blocks+1 x alignments {0,1,3,4,8,16,31,32,63}, other three patterns L=1 block+1 x {0,1,31}; thorough: the '
        'whole build matrix with L=3 blocks+1 (other patterns 2 blocks+1), plus the all-transforms build with every pattern at '
        'L=4 blocks+1 and all 64 alignments for the counter pattern.  A transition is non-trivial when c>0 and it was confluent.  '
        'Dead-stack scan (configurations residue:*): the one-shot entry points and init+update+final run on a stack the harness owns, '
        'in unsanitised builds of every optimisation level; the message tail must not be found there afterwards')
    rep.assumptions = [
        'hashlib (OpenSSL) is the reference for MD5, SHA-1, SHA-224/256/384/512',
        'Streebog reference = the construction of the standard written out in harness/C04/ref_streebog.c over the tables pi, tau, A, C '
        'parsed as data from liblcb\'s own header; the table VALUES are anchored only by the published vectors (RFC 6986 M1/M2, empty, '
        '64 zero bytes, three short strings, RFC 7836 HMAC), which the reference must reproduce in this run',
        'the sandbox CPU implements every instruction set a forced transform needs (sse4.1, avx2, sha_ni)',
        'message contents are the four fixed patterns; a value-dependent defect that these and the published vectors miss is outside the bound',
        'preset-counter cases: the reference is the standard\'s padding rule applied to (IV, data, length field = (P+m)*8 bits), computed by '
        'compression functions written out in gen_ref.py (constants derived from primes / sin) and validated against hashlib in the same run',
    ]
    matrix.run_matrix(rep, PROP, tier, 'harness/C04/h_c04.c', 'h_c04', residue_set=0)
