/* C15 (DNS half) - messages built by liblcb's builders parse back, validate and are
 * byte-identical to an RFC 1035 section 4 encoding computed here from the *label list*
 * (never from the dotted text, never with liblcb code).
 *
 *  part 1  every name of the grammar  label := c^L, c in {a,Z,0,-}, L in {1,2,62,63},
 *          name := 1..4 labels  (69904 names, text length 1..255) through the raw and
 *          the message-level label encoder/decoder;
 *  part 2  every section-ordered sequence of <= 3 (thorough: 5) add operations from an
 *          18-symbol alphabet, into a heap buffer of EVERY size 12 .. exactly-fits+1.
 *          Each add runs on the real builder; after it the full oracle is evaluated.
 *
 * How the builders are used mirrors src/proto/dns_resolv.c:dns_resolver_send():
 * dns_hdr_create(), dns_msg_question_add(..., &msg_size) (increments QDCOUNT itself),
 * dns_msg_optrr_add(..., 0, NULL, &msg_size) followed by dns_hdr_ar_inc(hdr, 1) by the
 * CALLER; dns_msg_rr_add() has the same shape as optrr_add (no counter update inside),
 * so the caller increments the section counter after a successful add.  compress = 0
 * (the library returns EOPNOTSUPP for anything else, so the reference never compresses). */
#include <errno.h>
#include <inttypes.h>
#include "vh.h"
#include "proto/dns.h"

/* ------------------------------------------------------------------ small utilities */
static uint64_t
fnv64(const uint8_t *p, size_t n, uint64_t h) {
	size_t i;
	for (i = 0; i < n; i ++) { h ^= p[i]; h *= 1099511628211ull; }
	return (h);
}

/* distinct-state set (open addressing, grows) - states are written to a file per shard
 * so that run.py can take the union over shards */
static uint64_t *st_tbl = NULL; static size_t st_cap = 0, st_cnt = 0;
static void
st_add(uint64_t h) {
	size_t i, pos;
	if (0 == h) h = 1;
	if ((st_cnt + 1) * 2 > st_cap) {
		size_t ncap = st_cap ? st_cap * 2 : (1u << 16);
		uint64_t *nt = (uint64_t *)calloc(ncap, sizeof(uint64_t));
		for (i = 0; i < st_cap; i ++) if (st_tbl[i]) {
			pos = (size_t)(st_tbl[i] >> 17) & (ncap - 1);
			while (nt[pos]) pos = (pos + 1) & (ncap - 1);
			nt[pos] = st_tbl[i];
		}
		free(st_tbl); st_tbl = nt; st_cap = ncap;
	}
	pos = (size_t)(h >> 17) & (st_cap - 1);
	while (st_tbl[pos]) { if (st_tbl[pos] == h) return; pos = (pos + 1) & (st_cap - 1); }
	st_tbl[pos] = h; st_cnt ++;
}
static void
st_dump(const char *argv0, const char *tag) {
	char path[1024], *sl; FILE *f; size_t i;
	if (NULL != vh_only_target) return;
	snprintf(path, sizeof(path), "%s", argv0);
	sl = strrchr(path, '/');
	if (NULL == sl) return;
	snprintf(sl + 1, sizeof(path) - (size_t)(sl + 1 - path), "states.%s.%d.bin", tag, vh_shard);
	f = fopen(path, "wb");
	if (NULL == f) return;
	for (i = 0; i < st_cap; i ++) if (st_tbl[i]) fwrite(&st_tbl[i], 8, 1, f);
	fclose(f);
}

static uint64_t n_transitions = 0, n_spurious_overflow = 0, n_overlong_accepted = 0, n_overlong_rejected = 0;
static uint64_t n_fail_adds = 0, n_ok_adds = 0;

/* ------------------------------------------------------------------ names */
static const uint8_t LBL_LEN[4] = { 1, 2, 62, 63 };
static const char LBL_CH[4] = { 'a', 'Z', '0', '-' };

typedef struct name_s {
	int	nlabels;
	int	lab[4];			/* label symbol 0..15: (len index << 2) | char index */
	uint8_t	text[260]; size_t tlen;	/* dotted text, no trailing dot */
	uint8_t	wire[260]; size_t wlen;	/* RFC 1035 3.1 label sequence, from the label list */
	int	uniform_len;		/* != 0: nlabels labels of this length (many-label names), lab[] unused */
} name_t;

static void
name_make(name_t *n, int nlabels, const int *lab) {
	int i; size_t k;
	n->uniform_len = 0;
	n->nlabels = nlabels; n->tlen = 0; n->wlen = 0;
	for (i = 0; i < nlabels; i ++) {
		size_t L = LBL_LEN[lab[i] >> 2]; char c = LBL_CH[lab[i] & 3];
		n->lab[i] = lab[i];
		if (i) n->text[n->tlen ++] = '.';
		n->wire[n->wlen ++] = (uint8_t)L;
		for (k = 0; k < L; k ++) { n->text[n->tlen ++] = (uint8_t)c; n->wire[n->wlen ++] = (uint8_t)c; }
	}
	n->wire[n->wlen ++] = 0;
	n->text[n->tlen] = 0;
}

/* many-label names: k labels of the same length (1..253 bytes of text in total) */
static void
name_make_uniform(name_t *n, int k, int L) {
	int i, j;
	n->uniform_len = L; n->nlabels = k; n->tlen = 0; n->wlen = 0;
	for (i = 0; i < k; i ++) {
		char c = LBL_CH[i & 3];
		if (i) n->text[n->tlen ++] = '.';
		n->wire[n->wlen ++] = (uint8_t)L;
		for (j = 0; j < L; j ++) { n->text[n->tlen ++] = (uint8_t)c; n->wire[n->wlen ++] = (uint8_t)c; }
	}
	n->wire[n->wlen ++] = 0;
	n->text[n->tlen] = 0;
}

static const name_t *cur_name;
static void
desc_name(char *b, size_t n) {
	int i; size_t o = 0;
	if (0 != cur_name->uniform_len) {
		snprintf(b, n, "name text_len=%zu: %d labels of %d byte(s)", cur_name->tlen, cur_name->nlabels, cur_name->uniform_len);
		return;
	}
	o += (size_t)snprintf(b + o, n - o, "name text_len=%zu labels=", cur_name->tlen);
	for (i = 0; i < cur_name->nlabels && o < n; i ++)
		o += (size_t)snprintf(b + o, n - o, "%s%c*%d", i ? "." : "", LBL_CH[cur_name->lab[i] & 3], LBL_LEN[cur_name->lab[i] >> 2]);
}

static void
name_case_raw(const name_t *nm) {
	uint8_t *src, *out, *wire, *txt; size_t ret = 7777, sz = 7777; int rc, valid = (nm->tlen <= 253);

	if (!vh_begin("DomainNameToSequenceOfLabels")) return;
	src = (uint8_t *)vh_dup(nm->text, nm->tlen);
	out = (uint8_t *)malloc(nm->wlen); memset(out, 0xA5, nm->wlen);
	rc = DomainNameToSequenceOfLabels(src, nm->tlen, out, nm->wlen, &ret);
	if (!valid) { /* outside the property's domain (RFC 1035 2.3.4: 255 octets on the wire): observe only */
		if (0 == rc) n_overlong_accepted ++; else n_overlong_rejected ++;
		goto done;
	}
	if (0 != rc) vh_fail("encode-rc", "rc=%d for a valid name into exactly %zu bytes", rc, nm->wlen);
	else if (ret != nm->wlen) vh_fail("encode-size", "reported %zu, RFC 1035 label sequence has %zu", ret, nm->wlen);
	else if (0 != memcmp(out, nm->wire, nm->wlen)) vh_fail("encode-bytes", "label sequence differs from RFC 1035 3.1 encoding");
	else {
		/* one byte too small: must not write past it (ASan decides); rc is not constrained */
		uint8_t *small = (uint8_t *)malloc(nm->wlen - 1);
		(void)DomainNameToSequenceOfLabels(src, nm->tlen, small, nm->wlen - 1, NULL);
		free(small);
		/* decode the reference wire form */
		wire = (uint8_t *)vh_dup(nm->wire, nm->wlen);
		rc = SequenceOfLabelsGetSize(wire, nm->wlen, &sz);
		if (0 != rc || sz != nm->wlen) vh_fail("getsize", "SequenceOfLabelsGetSize rc=%d size=%zu want %zu", rc, sz, nm->wlen);
		txt = (uint8_t *)malloc(nm->wlen - 1); memset(txt, 0xA5, nm->wlen - 1); /* documented minimum: buf_size - 1 */
		rc = SequenceOfLabelsToDomainName(wire, nm->wlen, txt, nm->wlen - 1, NULL);
		if (0 != rc) vh_fail("decode-rc", "SequenceOfLabelsToDomainName rc=%d", rc);
		else if (0 != memcmp(txt, nm->text, nm->tlen) || 0 != txt[nm->tlen]) vh_fail("decode-text", "decode(encode(name)) != name");
		else vh_nontrivial();
		free(txt); free(wire);
	}
done:
	free(src); free(out);
}

static void
name_case_msg(const name_t *nm) {
	uint8_t *src, *buf, *txt; size_t cap = sizeof(dns_hdr_t) + nm->wlen, ms = 0, ret = 7777, nl = 7777; int rc, valid = (nm->tlen <= 253);
	dns_hdr_p hdr;

	if (!vh_begin("dns_msg_name2sequence_of_labels")) return;
	src = (uint8_t *)vh_dup(nm->text, nm->tlen);
	buf = (uint8_t *)malloc(cap); memset(buf, 0xA5, cap);
	hdr = (dns_hdr_p)buf;
	dns_hdr_create(0x1234, 0, hdr, cap, &ms);
	rc = dns_msg_name2sequence_of_labels(hdr, cap, sizeof(dns_hdr_t), src, nm->tlen, 0, &ret);
	if (!valid) goto done;
	if (0 != rc) vh_fail("encode-rc", "rc=%d for a valid name, %zu bytes free", rc, nm->wlen);
	else if (ret != nm->wlen) vh_fail("encode-size", "reported %zu want %zu", ret, nm->wlen);
	else if (0 != memcmp(buf + sizeof(dns_hdr_t), nm->wire, nm->wlen)) vh_fail("encode-bytes", "label sequence differs from RFC 1035 3.1 encoding");
	else {
		rc = dns_msg_sequence_of_labels_get_name_len(hdr, cap, sizeof(dns_hdr_t), &nl);
		if (0 != rc || nl != nm->tlen) vh_fail("name-len", "dns_msg_sequence_of_labels_get_name_len rc=%d len=%zu want %zu", rc, nl, nm->tlen);
		txt = (uint8_t *)malloc(nm->tlen + 2); memset(txt, 0xA5, nm->tlen + 2); nl = 7777;
		rc = dns_msg_sequence_of_labels2name(hdr, cap, sizeof(dns_hdr_t), txt, nm->tlen + 2, &nl);
		if (0 != rc) vh_fail("decode-rc", "dns_msg_sequence_of_labels2name rc=%d with %zu bytes", rc, nm->tlen + 2);
		else if (nl != nm->tlen) vh_fail("decode-len", "reported %zu want %zu", nl, nm->tlen);
		else if (0 != memcmp(txt, nm->text, nm->tlen) || 0 != txt[nm->tlen]) vh_fail("decode-text", "decode(encode(name)) != name");
		else vh_nontrivial();
		free(txt);
	}
done:
	free(src); free(buf);
}

static void
names_all(void) {
	int n, lab[4], i; uint32_t c, tot; name_t nm;
	cur_name = &nm;
	vh_set_describer(desc_name);
	for (n = 1; n <= 4; n ++) {
		for (tot = 1, i = 0; i < n; i ++) tot *= 16;
		for (c = 0; c < tot; c ++) {
			uint32_t t = c;
			for (i = 0; i < n; i ++) { lab[i] = (int)(t & 15); t >>= 4; }
			name_make(&nm, n, lab);
			name_case_raw(&nm);
			name_case_msg(&nm);
		}
	}
	/* every label count: k labels of 1, 2, 3, 5 and 10 bytes while the text fits 253 bytes (1..127 labels) */
	{
		static const int LL[5] = { 1, 2, 3, 5, 10 };
		int li, k;
		for (li = 0; li < 5; li ++) {
			for (k = 1; (k * LL[li] + (k - 1)) <= 253; k ++) {
				name_make_uniform(&nm, k, LL[li]);
				name_case_raw(&nm);
				name_case_msg(&nm);
			}
		}
	}
	vh_set_describer(NULL);
}

/* ------------------------------------------------------------------ operations */
enum { K_Q = 0, K_RR = 1, K_OPT = 2 };
enum { S_QD = 0, S_AN = 1, S_NS = 2, S_AR = 3 };

typedef struct op_s {
	const char	*label;
	int		kind, sect;
	const name_t	*name;		/* NULL for OPT (root) */
	uint16_t	type, class;
	uint32_t	ttl;
	uint16_t	rdlen;
	const uint8_t	*rdata;
	/* OPT only */
	uint16_t	udp; uint8_t version, ex_rcode; uint8_t exfl[2];
	size_t		need;		/* bytes this entry occupies in the RFC encoding */
} op_t;

#define MAX_OPS 24
static op_t ops[MAX_OPS]; static int nops = 0;
static name_t N_q1, N_q2, N_r1, N_r2;
static uint8_t RD_A[4] = { 192, 0, 2, 1 };
static uint8_t RD_TXT0[1] = { 0 };
static uint8_t RD_TXT1[2] = { 1, 'x' };
static uint8_t RD_TXT255[256];
static uint8_t RD_OPTDATA[12] = { 0x00, 0x0a, 0x00, 0x08, 1, 2, 3, 4, 5, 6, 7, 8 }; /* COOKIE option, 8 bytes */

static void
op_add(const char *label, int kind, int sect, const name_t *nm, uint16_t type, uint16_t class, uint32_t ttl, uint16_t rdlen, const uint8_t *rdata) {
	op_t *o = &ops[nops ++];
	memset(o, 0, sizeof(*o));
	o->label = label; o->kind = kind; o->sect = sect; o->name = nm; o->type = type; o->class = class; o->ttl = ttl; o->rdlen = rdlen; o->rdata = rdata;
	if (K_Q == kind) o->need = nm->wlen + 4;
	else if (K_RR == kind) o->need = nm->wlen + 10 + rdlen;
	else o->need = 1 + 10 + rdlen;
}

static void
ops_init(void) {
	int l1[1] = { (0 << 2) | 0 };				/* "a" */
	int l2[4] = { (3 << 2) | 0, (3 << 2) | 1, (2 << 2) | 2, (2 << 2) | 3 };	/* 63.63.62.62 = 253 */
	int l3[2] = { (1 << 2) | 1, (0 << 2) | 3 };		/* "ZZ.-" */
	int l4[4] = { (2 << 2) | 3, (3 << 2) | 2, (3 << 2) | 1, (2 << 2) | 0 };	/* 62.63.63.62 = 253 */
	int i; op_t *o; dns_ex_flags_t ef;
	name_make(&N_q1, 1, l1); name_make(&N_q2, 4, l2); name_make(&N_r1, 2, l3); name_make(&N_r2, 4, l4);
	RD_TXT255[0] = 255; for (i = 1; i < 256; i ++) RD_TXT255[i] = (uint8_t)('A' + (i % 26));
	op_add("Q(A,IN,short)", K_Q, S_QD, &N_q1, DNS_RR_TYPE_A, DNS_RR_CLASS_IN, 0, 0, NULL);
	op_add("Q(A,IN,253)", K_Q, S_QD, &N_q2, DNS_RR_TYPE_A, DNS_RR_CLASS_IN, 0, 0, NULL);
	op_add("Q(AAAA,IN,short)", K_Q, S_QD, &N_q1, DNS_RR_TYPE_AAAA, DNS_RR_CLASS_IN, 0, 0, NULL);
	op_add("Q(AAAA,IN,253)", K_Q, S_QD, &N_q2, DNS_RR_TYPE_AAAA, DNS_RR_CLASS_IN, 0, 0, NULL);
	op_add("Q(ANY,ANY,short)", K_Q, S_QD, &N_q1, DNS_RR_QTYPE_ALL, DNS_RR_QCLASS_ANY, 0, 0, NULL);
	op_add("Q(ANY,ANY,253)", K_Q, S_QD, &N_q2, DNS_RR_QTYPE_ALL, DNS_RR_QCLASS_ANY, 0, 0, NULL);
	op_add("AN:RR(A,short)", K_RR, S_AN, &N_r1, DNS_RR_TYPE_A, DNS_RR_CLASS_IN, 0x01020304u, 4, RD_A);
	op_add("AN:RR(A,253)", K_RR, S_AN, &N_r2, DNS_RR_TYPE_A, DNS_RR_CLASS_IN, 0x01020304u, 4, RD_A);
	op_add("AN:RR(TXT0,short)", K_RR, S_AN, &N_r1, DNS_RR_TYPE_TXT, DNS_RR_CLASS_CH, 0, 1, RD_TXT0);
	op_add("AN:RR(TXT0,253)", K_RR, S_AN, &N_r2, DNS_RR_TYPE_TXT, DNS_RR_CLASS_CH, 0, 1, RD_TXT0);
	op_add("NS:RR(TXT1,short)", K_RR, S_NS, &N_r1, DNS_RR_TYPE_TXT, DNS_RR_CLASS_IN, DNS_TTL_MAX, 2, RD_TXT1);
	op_add("NS:RR(TXT1,253)", K_RR, S_NS, &N_r2, DNS_RR_TYPE_TXT, DNS_RR_CLASS_IN, DNS_TTL_MAX, 2, RD_TXT1);
	op_add("NS:RR(rdlen0,short)", K_RR, S_NS, &N_r1, DNS_RR_QTYPE_ALL, DNS_RR_QCLASS_NONE, 0, 0, RD_TXT0);
	op_add("NS:RR(rdlen0,253)", K_RR, S_NS, &N_r2, DNS_RR_QTYPE_ALL, DNS_RR_QCLASS_NONE, 0, 0, RD_TXT0);
	op_add("AR:RR(TXT255,short)", K_RR, S_AR, &N_r1, DNS_RR_TYPE_TXT, DNS_RR_CLASS_HS, 0x7fffffffu, 256, RD_TXT255);
	op_add("AR:RR(TXT255,253)", K_RR, S_AR, &N_r2, DNS_RR_TYPE_TXT, DNS_RR_CLASS_HS, 0x7fffffffu, 256, RD_TXT255);
	/* OPT exactly as dns_resolver_send() adds it: version 0, ex_rcode 0, DO flag set through the union, no data */
	ef.u16 = 0; ef.bits.d0 = 1;
	op_add("AR:OPT(do,nodata)", K_OPT, S_AR, NULL, DNS_RR_TYPE_OPT, 0, 0, 0, NULL);
	o = &ops[nops - 1]; o->udp = 1232; memcpy(o->exfl, &ef.u16, 2);
	op_add("AR:OPT(cookie)", K_OPT, S_AR, NULL, DNS_RR_TYPE_OPT, 0, 0, 12, RD_OPTDATA);
	o = &ops[nops - 1]; o->udp = 4096; o->exfl[0] = 0; o->exfl[1] = 0;
}

/* ------------------------------------------------------------------ reference encoder (RFC 1035 4.1) */
#define HDR_ID_B0 0xBE
#define HDR_ID_B1 0xEF
static uint16_t hdr_id_value(void) { uint8_t b[2] = { HDR_ID_B0, HDR_ID_B1 }; uint16_t v; memcpy(&v, b, 2); return (v); }
static uint16_t hdr_flags_value(void) { /* as dns_resolver_send(): RD and CD set through the bit-field union */
	dns_hdr_flags_t f; f.u16 = 0; f.bits.rd = 1; f.bits.opcode = DNS_HDR_FLAG_OPCODE_QUERY; f.bits.qr = DNS_HDR_FLAG_QR_QUERY; f.bits.cd = 1; return (f.u16);
}

static inline void put16(uint8_t *p, uint16_t v) { p[0] = (uint8_t)(v >> 8); p[1] = (uint8_t)v; }
static inline void put32(uint8_t *p, uint32_t v) { p[0] = (uint8_t)(v >> 24); p[1] = (uint8_t)(v >> 16); p[2] = (uint8_t)(v >> 8); p[3] = (uint8_t)v; }

static size_t
ref_encode(const int *rec, int nrec, uint8_t *out) {
	size_t o = 12; int i, cnt[4] = { 0, 0, 0, 0 };
	out[0] = HDR_ID_B0; out[1] = HDR_ID_B1;
	out[2] = 0x01;	/* QR=0 Opcode=0 AA=0 TC=0 RD=1		RFC 1035 4.1.1 */
	out[3] = 0x10;	/* RA=0 Z=0 AD=0 CD=1 RCODE=0		RFC 2535 6.1 */
	for (i = 0; i < nrec; i ++) {
		const op_t *p = &ops[rec[i]];
		cnt[p->sect] ++;
		if (K_OPT == p->kind) {
			out[o ++] = 0;					/* root name */
			put16(out + o, 41); o += 2;			/* TYPE OPT */
			put16(out + o, p->udp); o += 2;			/* CLASS = sender's UDP payload size */
			out[o ++] = p->ex_rcode; out[o ++] = p->version;	/* TTL: EXTENDED-RCODE, VERSION (both 0 in every enumerated op) */
			out[o ++] = p->exfl[0]; out[o ++] = p->exfl[1];	/*      DO + Z as the caller's 2-byte image */
			put16(out + o, p->rdlen); o += 2;
		} else {
			memcpy(out + o, p->name->wire, p->name->wlen); o += p->name->wlen;
			put16(out + o, p->type); o += 2;
			put16(out + o, p->class); o += 2;
			if (K_Q == p->kind) continue;
			put32(out + o, p->ttl); o += 4;
			put16(out + o, p->rdlen); o += 2;
		}
		if (p->rdlen) memcpy(out + o, p->rdata, p->rdlen);
		o += p->rdlen;
	}
	put16(out + 4, (uint16_t)cnt[0]); put16(out + 6, (uint16_t)cnt[1]); put16(out + 8, (uint16_t)cnt[2]); put16(out + 10, (uint16_t)cnt[3]);
	return (o);
}

/* ------------------------------------------------------------------ one (sequence, capacity) case */
static int cur_seq[5], cur_len; static size_t cur_cap; static int cur_step;
static void
desc_seq(char *b, size_t n) {
	int i; size_t o = 0;
	o += (size_t)snprintf(b + o, n - o, "cap=%zu ops=[", cur_cap);
	for (i = 0; i < cur_len && o < n; i ++) o += (size_t)snprintf(b + o, n - o, "%s%s", i ? " ; " : "", ops[cur_seq[i]].label);
	if (o < n) o += (size_t)snprintf(b + o, n - o, "] step=%d", cur_step);
}

#define MAXMSG 3000
static uint8_t ref_buf[MAXMSG], prev_buf[MAXMSG];

static int
full_oracle(const char *fn, dns_hdr_p hdr, size_t msg_size, const int *rec, int nrec, size_t expect_len) {
	char cl[96]; int i, rc, bad = 0, cnt[4] = { 0, 0, 0, 0 };
	size_t qd = 0, an = 0, ns = 0, ar = 0, rrc = 0, sz = 0, off, exp_off[5];
	uint8_t *nb;
#define FAIL(clause, ...) do { snprintf(cl, sizeof(cl), "%s:%s", fn, clause); vh_fail(cl, __VA_ARGS__); bad = 1; } while (0)

	if (msg_size != expect_len || 0 != memcmp(hdr, ref_buf, expect_len)) {
		size_t d = 0; while (d < expect_len && d < msg_size && ((uint8_t *)hdr)[d] == ref_buf[d]) d ++;
		FAIL("rfc1035-bytes", "message (%zu bytes) differs from the RFC 1035 encoding (%zu bytes) at offset %zu", msg_size, expect_len, d);
	}
	rc = dns_msg_validate(hdr, msg_size);
	if (0 != rc) { FAIL("validate", "dns_msg_validate rc=%d on a message the builder just returned", rc); return (1); }
	for (i = 0; i < nrec; i ++) cnt[ops[rec[i]].sect] ++;
	if (dns_hdr_qd_get(hdr) != cnt[0] || dns_hdr_an_get(hdr) != cnt[1] || dns_hdr_ns_get(hdr) != cnt[2] || dns_hdr_ar_get(hdr) != cnt[3])
		FAIL("counters", "qd/an/ns/ar = %u/%u/%u/%u want %d/%d/%d/%d", dns_hdr_qd_get(hdr), dns_hdr_an_get(hdr), dns_hdr_ns_get(hdr), dns_hdr_ar_get(hdr), cnt[0], cnt[1], cnt[2], cnt[3]);
	exp_off[0] = 12; off = 12;
	{ int s = 0; for (i = 0; i < nrec; i ++) { while (s < ops[rec[i]].sect) exp_off[++ s] = off; off += ops[rec[i]].need; } while (s < 4) exp_off[++ s] = off; }
	rc = dns_msg_info_get(hdr, msg_size, &qd, &an, &ns, &ar, &rrc, &sz);
	if (0 != rc) { FAIL("info", "dns_msg_info_get rc=%d", rc); return (1); }
	if (sz != expect_len) FAIL("info", "real size %zu want %zu", sz, expect_len);
	if (qd != exp_off[0] || an != exp_off[1] || ns != exp_off[2] || ar != exp_off[3]) FAIL("info", "section offsets %zu/%zu/%zu/%zu want %zu/%zu/%zu/%zu", qd, an, ns, ar, exp_off[0], exp_off[1], exp_off[2], exp_off[3]);
	if (rrc != (size_t)(cnt[1] + cnt[2] + cnt[3])) FAIL("info", "rr count %zu want %d", rrc, cnt[1] + cnt[2] + cnt[3]);
	if (bad) return (1);
	/* field-for-field through the getters */
	off = 12;
	for (i = 0; i < nrec; i ++) {
		const op_t *p = &ops[rec[i]];
		size_t tlen = p->name ? p->name->tlen : 0, nl = tlen + 2, esz = 0;
		uint16_t t = 0xdead, c = 0xdead, ds = 0xdead; uint32_t ttl = 0xdeadbeef; void *dp = NULL;
		nb = (uint8_t *)malloc(tlen + 2); memset(nb, 0xA5, tlen + 2);
		if (K_Q == p->kind) {
			rc = dns_msg_question_get_data(hdr, msg_size, off, nb, &nl, &t, &c, &esz);
			if (0 != rc) FAIL("parse-back", "question #%d at %zu: rc=%d", i, off, rc);
			else if (nl != tlen || 0 != memcmp(nb, p->name->text, tlen) || 0 != nb[tlen]) FAIL("parse-back", "question #%d: name differs (len %zu want %zu)", i, nl, tlen);
			else if (t != p->type || c != p->class) FAIL("parse-back", "question #%d: type/class %u/%u want %u/%u", i, t, c, p->type, p->class);
			else if (esz != p->need) FAIL("parse-back", "question #%d: size %zu want %zu", i, esz, p->need);
		} else {
			uint32_t ettl = p->ttl, ettl2 = p->ttl;
			/* OPT: the getter hands back the 4 TTL octets as they are in the message (no ntohl); the host-order
			 * reading is accepted as well, the header does not say which it is.  version = ex_rcode = 0 */
			if (K_OPT == p->kind) { uint8_t im[4] = { 0, 0, p->exfl[0], p->exfl[1] }; memcpy(&ettl, im, 4); ettl2 = ((uint32_t)im[2] << 8) | im[3]; }
			rc = dns_msg_rr_get_data(hdr, msg_size, off, nb, &nl, &t, &c, &ttl, &ds, &dp, &esz);
			if (0 != rc) FAIL("parse-back", "rr #%d at %zu: rc=%d", i, off, rc);
			else if (nl != tlen || (tlen && 0 != memcmp(nb, p->name->text, tlen)) || 0 != nb[tlen]) FAIL("parse-back", "rr #%d: name differs (len %zu want %zu)", i, nl, tlen);
			else if (t != p->type || c != (K_OPT == p->kind ? p->udp : p->class)) FAIL("parse-back", "rr #%d: type/class %u/%u", i, t, c);
			else if (ttl != ettl && ttl != ettl2) FAIL("parse-back", "rr #%d: ttl %" PRIu32 " want %" PRIu32, i, ttl, ettl);
			else if (ds != p->rdlen || esz != p->need) FAIL("parse-back", "rr #%d: rdlength %u size %zu want %u %zu", i, ds, esz, p->rdlen, p->need);
			else if ((uint8_t *)dp != (uint8_t *)hdr + off + p->need - p->rdlen || (p->rdlen && 0 != memcmp(dp, p->rdata, p->rdlen))) FAIL("parse-back", "rr #%d: rdata differs", i);
		}
		free(nb);
		off += p->need;
	}
	/* look every record up by its owner name, the way the resolver does: the first record of that name must be found */
	{
		int j, first;
		for (i = 0; i < nrec && !bad; i ++) {
			const op_t *p = &ops[rec[i]], *f;
			size_t foff = exp_off[1], fcnt = (size_t)(cnt[1] + cnt[2] + cnt[3]), want_off = exp_off[1], fsz = 0;
			uint16_t t = 0xdead, c = 0xdead, ds = 0; uint32_t ttl = 0; void *dp = NULL;
			if (K_RR != p->kind) continue;
			first = -1;
			for (j = 0; j < nrec; j ++) {
				if (K_Q == ops[rec[j]].kind) continue;
				if (first < 0 && K_RR == ops[rec[j]].kind && ops[rec[j]].name == p->name) { first = j; break; }
				want_off += ops[rec[j]].need;
			}
			if (first < 0) continue;
			f = &ops[rec[first]];
			rc = dns_msg_rr_find(hdr, msg_size, &foff, &fcnt, p->name->text, p->name->tlen, &t, &c, &ttl, &ds, &dp, &fsz);
			if (0 != rc) FAIL("find-by-name", "dns_msg_rr_find of the owner name of rr #%d: rc=%d, the record is in the message", i, rc);
			else if (foff != want_off || t != f->type || c != f->class || fsz != f->need)
				FAIL("find-by-name", "dns_msg_rr_find of the owner name of rr #%d: offset %zu type/class %u/%u size %zu, first record of that name is at %zu (%u/%u, %zu bytes)", i, foff, t, c, fsz, want_off, f->type, f->class, f->need);
		}
	}
	return (bad);
#undef FAIL
}

static void
seq_case(const int *seq, int len, size_t cap) {
	uint8_t *buf; dns_hdr_p hdr; size_t msg_size = 0; int rec[5], nrec = 0, i, rc, bad = 0, ok = 0; char cl[96];
	static const char *FN[3] = { "dns_msg_question_add", "dns_msg_rr_add", "dns_msg_optrr_add" };

	if (!vh_begin("dns_msg_add_sequence")) return;
	memcpy(cur_seq, seq, sizeof(int) * (size_t)len); cur_len = len; cur_cap = cap; cur_step = -1;
	buf = (uint8_t *)malloc(cap); memset(buf, 0xA5, cap);
	hdr = (dns_hdr_p)buf;
	rc = dns_hdr_create(hdr_id_value(), hdr_flags_value(), hdr, cap, &msg_size);
	if (0 != rc || sizeof(dns_hdr_t) != msg_size) { vh_fail("dns_hdr_create:rc", "rc=%d size=%zu cap=%zu", rc, msg_size, cap); free(buf); return; }
	(void)ref_encode(rec, 0, ref_buf);
	if (0 != memcmp(buf, ref_buf, 12)) vh_fail("dns_hdr_create:rfc1035-bytes", "header differs from RFC 1035 4.1.1");
	for (i = 0; i < len && !bad; i ++) {
		const op_t *p = &ops[seq[i]]; size_t out = (size_t)-7, elen;
		cur_step = i; vh_desc_set = 0;
		memcpy(prev_buf, buf, msg_size);
		if (K_Q == p->kind)
			rc = dns_msg_question_add(hdr, msg_size, cap, 0, p->name->text, p->name->tlen, p->type, p->class, &out);
		else if (K_RR == p->kind)
			rc = dns_msg_rr_add(hdr, msg_size, cap, 0, p->name->text, p->name->tlen, p->type, p->class, p->ttl, p->rdlen, (void *)p->rdata, &out);
		else {
			uint16_t ef; memcpy(&ef, p->exfl, 2);
			rc = dns_msg_optrr_add(hdr, msg_size, cap, p->udp, p->version, p->ex_rcode, ef, p->rdlen, (void *)p->rdata, &out);
		}
		n_transitions ++;
		if (0 != rc) {
			n_fail_adds ++;
			if (msg_size + p->need <= cap) n_spurious_overflow ++;	/* not promised either way; counted */
			if (0 != memcmp(prev_buf, buf, msg_size)) {
				snprintf(cl, sizeof(cl), "%s:failed-add-changed-message", FN[p->kind]);
				vh_fail(cl, "rc=%d but the %zu message bytes (header counters included) changed", rc, msg_size);
				bad = 1;
			}
			continue;
		}
		n_ok_adds ++;
		/* caller's part of the contract, as in dns_resolver_send() */
		if (K_Q != p->kind) { if (S_AN == p->sect) dns_hdr_an_inc(hdr, 1); else if (S_NS == p->sect) dns_hdr_ns_inc(hdr, 1); else dns_hdr_ar_inc(hdr, 1); }
		rec[nrec ++] = seq[i];
		elen = ref_encode(rec, nrec, ref_buf);
		if (elen > cap) {
			snprintf(cl, sizeof(cl), "%s:success-beyond-capacity", FN[p->kind]);
			vh_fail(cl, "rc=0 although the entry needs %zu bytes and the buffer has %zu", elen, cap);
			bad = 1; break;
		}
		/* question_add/optrr_add report the new message size (that is how dns_resolver_send uses both);
		 * rr_add's out parameter is called rr_size: accept the new message size or the RR's own size */
		if (out != elen && !(K_RR == p->kind && out == p->need)) {
			snprintf(cl, sizeof(cl), "%s:size-ret", FN[p->kind]);
			vh_fail(cl, "reported size %zu, message is %zu bytes", out, elen);
			bad = 1;
		}
		msg_size = elen;
		if (full_oracle(FN[p->kind], hdr, msg_size, rec, nrec, elen)) bad = 1; else ok ++;
		st_add(fnv64(buf, msg_size, 1469598103934665603ull));
	}
	if (!bad && ok) vh_nontrivial();
	free(buf);
}

/* every section-ordered sequence (an entry never goes into a section before the previous one's) */
static uint64_t n_sequences = 0;
static void
seq_rec(int *seq, int len, int maxlen, size_t total) {
	int o; size_t cap;
	if (len > 0) {
		n_sequences ++;
		for (cap = sizeof(dns_hdr_t); cap <= total + 1; cap ++) seq_case(seq, len, cap);
	}
	if (len == maxlen) return;
	for (o = 0; o < nops; o ++) {
		if (len > 0 && ops[o].sect < ops[seq[len - 1]].sect) continue;
		seq[len] = o;
		seq_rec(seq, len + 1, maxlen, total + ops[o].need);
	}
}

static void
hdr_cases(void) {
	size_t cap;
	for (cap = 0; cap <= 13; cap ++) {
		uint8_t *buf; size_t ms = 777; int rc;
		if (!vh_begin("dns_hdr_create")) continue;
		vh_desc("cap=%zu", cap);
		buf = (uint8_t *)malloc(cap); memset(buf, 0xA5, cap);
		rc = dns_hdr_create(hdr_id_value(), hdr_flags_value(), (dns_hdr_p)buf, cap, &ms);
		if (cap < 12) { if (0 == rc) vh_fail("success-beyond-capacity", "rc=0 with %zu bytes", cap); }
		else { int none[1]; (void)ref_encode(none, 0, ref_buf); if (0 != rc || 12 != ms) vh_fail("rc", "rc=%d size=%zu", rc, ms); else if (0 != memcmp(buf, ref_buf, 12)) vh_fail("rfc1035-bytes", "header differs from RFC 1035 4.1.1"); else if (0 != dns_msg_validate((dns_hdr_p)buf, 12)) vh_fail("validate", "empty message rejected"); else vh_nontrivial(); }
		free(buf);
	}
}

/* Observation only (NOT an oracle clause): RFC 6891 6.1.3 puts EXTENDED-RCODE in the first TTL octet and
 * VERSION in the second.  The property speaks of the RFC 1035 encoding, and the only caller passes 0/0. */
static void
observe_opt_layout(void) {
	uint8_t buf[64]; size_t ms = 0, out = 0; dns_hdr_p hdr = (dns_hdr_p)buf;
	memset(buf, 0, sizeof(buf));
	dns_hdr_create(0, 0, hdr, sizeof(buf), &ms);
	if (0 == dns_msg_optrr_add(hdr, ms, sizeof(buf), 512, 0x11 /* version */, 0x22 /* ex_rcode */, 0, 0, NULL, &out))
		printf("NOTE\toptrr_ttl_first_octet_is_%s\n", (0x22 == buf[12 + 5]) ? "extended_rcode(rfc6891)" : ((0x11 == buf[12 + 5]) ? "version(swapped_vs_rfc6891)" : "other"));
}

/* "all sequences of add operations until the buffer is full", the long ones: one section is filled with the same
 * entry until a large buffer is full (several hundred entries: every counter passes 255 -> 256 and 511 -> 512); the three
 * other sections get one entry each where section order allows.  After every add the 16-bit counter in the header is read
 * as RFC 1035 lays it out (two octets, high first); at the end the message is validated and walked entry by entry. */
static void
long_fill_case(int op_main, size_t n_want) {
	const op_t *p = &ops[op_main]; size_t cap = 12 + p->need * n_want + 300 + 7, msg_size = 0, out, n = 0, off, i, nq, nr; int rc, bad = 0;
	uint8_t *buf; dns_hdr_p hdr; size_t qd = 0, an = 0, ns = 0, ar = 0, rrc = 0, sz = 0;
	if (!vh_begin("dns_msg_fill_section")) return;
	vh_desc("%s repeated until %zu bytes are full (about %zu entries)", p->label, cap, n_want);
	buf = (uint8_t *)malloc(cap); memset(buf, 0xA5, cap); hdr = (dns_hdr_p)buf;
	if (0 != dns_hdr_create(hdr_id_value(), hdr_flags_value(), hdr, cap, &msg_size)) { vh_fail("dns_hdr_create:rc", "cap=%zu", cap); free(buf); return; }
	if (K_Q != p->kind) {	/* one question first, as every real message has */
		const op_t *q = &ops[0]; out = 0;
		if (0 == dns_msg_question_add(hdr, msg_size, cap, 0, q->name->text, q->name->tlen, q->type, q->class, &out)) msg_size = out;
	}
	for (;;) {
		out = (size_t)-7;
		if (K_Q == p->kind) rc = dns_msg_question_add(hdr, msg_size, cap, 0, p->name->text, p->name->tlen, p->type, p->class, &out);
		else rc = dns_msg_rr_add(hdr, msg_size, cap, 0, p->name->text, p->name->tlen, p->type, p->class, p->ttl, p->rdlen, (void *)p->rdata, &out);
		if (0 != rc) break;
		if (K_Q != p->kind) { if (S_AN == p->sect) dns_hdr_an_inc(hdr, 1); else if (S_NS == p->sect) dns_hdr_ns_inc(hdr, 1); else dns_hdr_ar_inc(hdr, 1); }
		n ++; msg_size += p->need;
		{ size_t cnt_off = 4 + 2 * (size_t)p->sect, got = ((size_t)buf[cnt_off] << 8) | buf[cnt_off + 1], want = n + ((K_Q == p->kind) ? 0 : 0);
		  if (got != want) { vh_fail("fill:rfc1035-counter", "after add #%zu the %s count octets read %zu", n, (0 == p->sect) ? "QD" : (1 == p->sect) ? "AN" : (2 == p->sect) ? "NS" : "AR", got); bad = 1; break; } }
		if (msg_size > cap) { vh_fail("fill:success-beyond-capacity", "add #%zu accepted, message would be %zu bytes of %zu", n, msg_size, cap); bad = 1; break; }
		if (n > 70000) break;
	}
	if (!bad) {
		if (msg_size + p->need <= cap) vh_fail("fill:refused-though-fitting", "add #%zu refused rc=%d with %zu bytes free, entry needs %zu", n + 1, rc, cap - msg_size, p->need);
		if (n < 520) vh_fail("harness", "only %zu entries fitted", n);
		rc = dns_msg_validate(hdr, msg_size);
		if (0 != rc) { vh_fail("fill:validate", "dns_msg_validate rc=%d on a message of %zu entries the builder returned", rc, n); bad = 1; }
	}
	if (!bad) {
		rc = dns_msg_info_get(hdr, msg_size, &qd, &an, &ns, &ar, &rrc, &sz);
		nq = (K_Q == p->kind) ? n : 1; nr = (K_Q == p->kind) ? 0 : n;
		if (0 != rc || sz != msg_size || rrc != nr) { vh_fail("fill:info", "dns_msg_info_get rc=%d size %zu (message %zu) rr count %zu (added %zu)", rc, sz, msg_size, rrc, nr); bad = 1; }
		off = 12;
		for (i = 0; i < nq + nr && !bad; i ++) {
			const op_t *e = (i < nq) ? ((K_Q == p->kind) ? p : &ops[0]) : p;
			uint8_t nb[300]; size_t nl = sizeof(nb), esz = 0; uint16_t t = 0, c = 0, ds = 0; uint32_t ttl = 0; void *dp = NULL;
			if (K_Q == e->kind) rc = dns_msg_question_get_data(hdr, msg_size, off, nb, &nl, &t, &c, &esz);
			else rc = dns_msg_rr_get_data(hdr, msg_size, off, nb, &nl, &t, &c, &ttl, &ds, &dp, &esz);
			if (0 != rc || t != e->type || c != e->class || esz != e->need || nl != e->name->tlen || 0 != memcmp(nb, e->name->text, nl)) {
				vh_fail("fill:parse-back", "entry #%zu at offset %zu: rc=%d type/class %u/%u size %zu", i, off, rc, t, c, esz); bad = 1; }
			off += e->need;
		}
	}
	if (!bad) vh_nontrivial();
	free(buf);
}

/* "all record types and classes": every 16-bit TYPE (class IN) and every 16-bit CLASS (type A) in a one-record answer -
 * bytes as RFC 1035 lays them out, validated, and parsed back field for field (TYPE 41 = OPT is left to the OPT cases: its
 * TTL octets have another meaning).  One case = the 256 values with the same high byte. */
static void
type_class_sweep(void) {
	int which, hi, lo, rc; uint8_t buf[128], want[128], nb[300]; dns_hdr_p hdr = (dns_hdr_p)buf;
	const name_t *nm = &N_r1; const uint32_t TTL = 0x01020304u; size_t msg_size, out, wl, nl, esz; uint16_t t, c, ds; uint32_t ttl; void *dp;
	for (which = 0; which < 2; which ++) for (hi = 0; hi < 256; hi ++) {
		int bad = 0;
		if (!vh_begin(which ? "dns_msg_rr_add/every-class" : "dns_msg_rr_add/every-type")) continue;
		vh_desc("%s 0x%02x00..0x%02xff, ttl 0x%08x, 4 bytes of data", which ? "class" : "type", hi, hi, TTL);
		for (lo = 0; lo < 256 && !bad; lo ++) {
			uint16_t v = (uint16_t)((hi << 8) | lo), type = which ? DNS_RR_TYPE_A : v, class = which ? v : DNS_RR_CLASS_IN;
			if (!which && (DNS_RR_TYPE_OPT == v || 0 == v)) continue;
			memset(buf, 0xA5, sizeof(buf)); msg_size = 0;
			if (0 != dns_hdr_create(hdr_id_value(), hdr_flags_value(), hdr, sizeof(buf), &msg_size)) { vh_fail("dns_hdr_create:rc", "-"); bad = 1; break; }
			memcpy(want, buf, msg_size); wl = msg_size;
			out = 0;
			rc = dns_msg_rr_add(hdr, msg_size, sizeof(buf), 0, nm->text, nm->tlen, type, class, TTL, 4, (void *)RD_A, &out);
			if (0 != rc) { vh_fail("sweep:add-refused", "type %u class %u: rc=%d", type, class, rc); bad = 1; break; }
			dns_hdr_an_inc(hdr, 1);
			want[7] = 1;	/* ANCOUNT = 1 */
			memcpy(want + wl, nm->wire, nm->wlen); wl += nm->wlen;
			put16(want + wl, type); put16(want + wl + 2, class); put32(want + wl + 4, TTL); put16(want + wl + 8, 4); memcpy(want + wl + 10, RD_A, 4); wl += 14;
			if (out != wl || 0 != memcmp(buf, want, wl)) { vh_fail("sweep:rfc1035-bytes", "type %u class %u: message differs from the RFC 1035 encoding (size %zu want %zu)", type, class, out, wl); bad = 1; break; }
			if (0 != (rc = dns_msg_validate(hdr, wl))) { vh_fail("sweep:validate", "type %u class %u: dns_msg_validate rc=%d", type, class, rc); bad = 1; break; }
			nl = sizeof(nb); t = c = ds = 0; ttl = 0; dp = NULL; esz = 0;
			rc = dns_msg_rr_get_data(hdr, wl, 12, nb, &nl, &t, &c, &ttl, &ds, &dp, &esz);
			if (0 != rc || t != type || c != class || ttl != TTL || 4 != ds || NULL == dp || 0 != memcmp(dp, RD_A, 4)) {
				vh_fail("sweep:parse-back", "type %u class %u ttl 0x%08x parsed back as rc=%d type %u class %u ttl 0x%08" PRIx32 " rdlength %u", type, class, TTL, rc, t, c, ttl, ds); bad = 1; break; }
		}
		if (!bad) vh_nontrivial();
	}
}

int
main(int argc, char **argv) {
	int seq[5];
	vh_init(argc, argv);
	ops_init();
	hdr_cases();
	names_all();
	vh_set_describer(desc_seq);
	seq_rec(seq, 0, vh_thorough ? 5 : 3, sizeof(dns_hdr_t));
	vh_set_describer(NULL);
	{ int o; for (o = 0; o < nops; o ++) if (K_OPT != ops[o].kind && ops[o].need < 64) long_fill_case(o, vh_thorough ? 3000 : 600); }
	type_class_sweep();
	if (0 == vh_shard && NULL == vh_only_target) observe_opt_layout();
	st_dump(argv[0], "dns");
	printf("NOTE\tdns_transitions=%llu\n", (unsigned long long)n_transitions);
	printf("NOTE\tdns_adds_ok=%llu\n", (unsigned long long)n_ok_adds);
	printf("NOTE\tdns_adds_failed=%llu\n", (unsigned long long)n_fail_adds);
	printf("NOTE\tdns_adds_failed_though_fitting=%llu\n", (unsigned long long)n_spurious_overflow);
	printf("NOTE\tdns_overlong_names_accepted=%llu\n", (unsigned long long)n_overlong_accepted);
	printf("NOTE\tdns_overlong_names_rejected=%llu\n", (unsigned long long)n_overlong_rejected);
	if (0 == vh_shard) printf("NOTE\tdns_sequences=%llu\n", (unsigned long long)n_sequences);
	return (vh_finish());
}
