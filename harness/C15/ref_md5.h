/* Independent MD5 (RFC 1321) and HMAC-MD5 (RFC 2104) used only as the reference
 * side of C15.  Written from the RFC text: one-shot over a flat buffer, message
 * padded into a scratch copy, T[i] derived from sin() at start-up (RFC 1321 3.4),
 * per-round shift/index formulas instead of the unrolled macro table.  Shares no
 * code and no tables with liblcb's crypto/hash/md5.h.  Validated at check time
 * against Python hashlib/hmac vectors (build/C15/md5_vectors.h, see run.py). */
#ifndef C15_REF_MD5_H
#define C15_REF_MD5_H

#include <stdint.h>
#include <string.h>
#include <stdlib.h>
#include <math.h>

static uint32_t rmd5_T[64];
static int rmd5_ready = 0;

static void
rmd5_setup(void) {
	int i;
	for (i = 0; i < 64; i ++)
		rmd5_T[i] = (uint32_t)(uint64_t)floor(fabs(sin((double)(i + 1))) * 4294967296.0);
	rmd5_ready = 1;
}

static inline uint32_t
rmd5_rol(uint32_t x, unsigned s) {
	return ((x << s) | (x >> (32 - s)));
}

/* digest = MD5(concatenation of up to 4 segments) */
typedef struct rmd5_seg_s { const uint8_t *p; size_t n; } rmd5_seg_t;

static void
rmd5_segs(const rmd5_seg_t *segs, int nsegs, uint8_t digest[16]) {
	static const unsigned S[4][4] = { {7, 12, 17, 22}, {5, 9, 14, 20}, {4, 11, 16, 23}, {6, 10, 15, 21} };
	uint8_t stackbuf[1024], *m;
	size_t len = 0, padded, off, i;
	uint32_t st[4] = { 0x67452301u, 0xefcdab89u, 0x98badcfeu, 0x10325476u };
	uint64_t bits;
	int k;

	if (!rmd5_ready)
		rmd5_setup();
	for (k = 0; k < nsegs; k ++)
		len += segs[k].n;
	padded = ((len + 8) / 64 + 1) * 64;
	m = (padded <= sizeof(stackbuf)) ? stackbuf : (uint8_t *)malloc(padded);
	for (k = 0, off = 0; k < nsegs; k ++) {
		if (segs[k].n)
			memcpy(m + off, segs[k].p, segs[k].n);
		off += segs[k].n;
	}
	m[len] = 0x80;
	memset(m + len + 1, 0, padded - len - 1);
	bits = (uint64_t)len * 8;
	for (i = 0; i < 8; i ++)
		m[padded - 8 + i] = (uint8_t)(bits >> (8 * i));

	for (off = 0; off < padded; off += 64) {
		uint32_t X[16], a = st[0], b = st[1], c = st[2], d = st[3], f, t;
		unsigned g, r;
		for (i = 0; i < 16; i ++)
			X[i] = (uint32_t)m[off + 4 * i] | ((uint32_t)m[off + 4 * i + 1] << 8) |
			    ((uint32_t)m[off + 4 * i + 2] << 16) | ((uint32_t)m[off + 4 * i + 3] << 24);
		for (i = 0; i < 64; i ++) {
			r = (unsigned)(i / 16);
			switch (r) {
			case 0: f = (b & c) | (~b & d); g = (unsigned)i; break;
			case 1: f = (b & d) | (c & ~d); g = (unsigned)(5 * i + 1) % 16; break;
			case 2: f = b ^ c ^ d; g = (unsigned)(3 * i + 5) % 16; break;
			default: f = c ^ (b | ~d); g = (unsigned)(7 * i) % 16; break;
			}
			t = d; d = c; c = b;
			b = b + rmd5_rol(a + f + X[g] + rmd5_T[i], S[r][i % 4]);
			a = t;
		}
		st[0] += a; st[1] += b; st[2] += c; st[3] += d;
	}
	for (i = 0; i < 4; i ++) {
		digest[4 * i] = (uint8_t)st[i]; digest[4 * i + 1] = (uint8_t)(st[i] >> 8);
		digest[4 * i + 2] = (uint8_t)(st[i] >> 16); digest[4 * i + 3] = (uint8_t)(st[i] >> 24);
	}
	if (m != stackbuf)
		free(m);
}

static void
rmd5(const uint8_t *p, size_t n, uint8_t digest[16]) {
	rmd5_seg_t s = { p, n };
	rmd5_segs(&s, 1, digest);
}

/* RFC 2104: H(K ^ opad, H(K ^ ipad, text)); keys longer than 64 bytes are hashed first. */
static void
rhmac_md5(const uint8_t *key, size_t key_len, const uint8_t *text, size_t text_len, uint8_t mac[16]) {
	uint8_t k0[64], ipad[64], opad[64], inner[16];
	rmd5_seg_t s[2];
	int i;

	memset(k0, 0, sizeof(k0));
	if (key_len > 64)
		rmd5(key, key_len, k0);
	else if (key_len)
		memcpy(k0, key, key_len);
	for (i = 0; i < 64; i ++) { ipad[i] = k0[i] ^ 0x36; opad[i] = k0[i] ^ 0x5c; }
	s[0].p = ipad; s[0].n = 64; s[1].p = text; s[1].n = text_len;
	rmd5_segs(s, 2, inner);
	s[0].p = opad; s[0].n = 64; s[1].p = inner; s[1].n = 16;
	rmd5_segs(s, 2, mac);
}

#endif
