/* C15 (RADIUS half) - packets assembled with liblcb's attribute-add functions and signed by
 * radius_pkt_sign() equal an independent RFC 2865 (3, 5.2) / RFC 2866 (3) / RFC 2869 (5.14)
 * construction, pass radius_pkt_chk() + radius_pkt_verify(), list the same attributes, and the
 * library's accept/reject decision on every single-byte corruption and every wrong secret equals
 * the decision of a reference verifier written here.
 *
 * Usage contract mirrored from include/proto/radius.h and src/proto/radius_client.c:
 *  - request:  radius_pkt_init(pkt, cap, &size, code, id, authenticator)   (authenticator = the random
 *              Request Authenticator for Access-Request; ignored/zeroed for Accounting-Request)
 *  - response: radius_pkt_reply_init(pkt, cap, &size, code, pkt_req)        (copies id and the request's
 *              authenticator into the reply; sign then works "authenticator inside")
 *  - radius_pkt_attr_add(pkt, cap, &size, type, len, data, &offset); User-Password is given in
 *    PLAIN text (it is padded now and hidden by radius_pkt_sign); Message-Authenticator is added
 *    with len 0 / data NULL (16 zero bytes, filled by sign)
 *  - radius_pkt_sign(pkt, cap, &size, key, key_len, add_msg_authr): add_msg_authr = 1 appends a
 *    Message-Authenticator itself (radius_client.c does that) and fails with EEXIST when one is
 *    already there, so 1 is used only for sequences without the attribute
 *  - receiver: radius_pkt_chk(pkt, received_size) then radius_pkt_verify(pkt, key, key_len, pkt_req)
 *    (pkt_req = the request for responses, NULL for requests); verify un-hides User-Password in place.
 *
 * The reference uses ref_md5.h (own MD5/HMAC from RFC 1321/2104), validated against hashlib/hmac
 * at check time (--selftest, see run.py) together with a sample of reference-built packets. */
#include <errno.h>
#include <inttypes.h>
#include "vh.h"
#include "proto/radius.h"
#include "ref_md5.h"
#ifdef C15_HAVE_VECTORS
#include "md5_vectors.h"
#endif

/* ------------------------------------------------------------------ utilities (same as the DNS half) */
static uint64_t
fnv64(const uint8_t *p, size_t n, uint64_t h) {
	size_t i;
	for (i = 0; i < n; i ++) { h ^= p[i]; h *= 1099511628211ull; }
	return (h);
}
static uint64_t *st_tbl = NULL; static size_t st_cap = 0, st_cnt = 0;
static void
st_add(uint64_t h) {
	size_t i, pos;
	if (0 == h) h = 1;
	if ((st_cnt + 1) * 2 > st_cap) {
		size_t ncap = st_cap ? st_cap * 2 : (1u << 16);
		uint64_t *nt = (uint64_t *)calloc(ncap, sizeof(uint64_t));
		for (i = 0; i < st_cap; i ++) if (st_tbl[i]) {
			pos = (size_t)(st_tbl[i] >> 17) & (ncap - 1);
			while (nt[pos]) pos = (pos + 1) & (ncap - 1);
			nt[pos] = st_tbl[i];
		}
		free(st_tbl); st_tbl = nt; st_cap = ncap;
	}
	pos = (size_t)(h >> 17) & (st_cap - 1);
	while (st_tbl[pos]) { if (st_tbl[pos] == h) return; pos = (pos + 1) & (st_cap - 1); }
	st_tbl[pos] = h; st_cnt ++;
}
static void
st_dump(const char *argv0, const char *tag) {
	char path[1024], *sl; FILE *f; size_t i;
	if (NULL != vh_only_target) return;
	snprintf(path, sizeof(path), "%s", argv0);
	sl = strrchr(path, '/');
	if (NULL == sl) return;
	snprintf(sl + 1, sizeof(path) - (size_t)(sl + 1 - path), "states.%s.%d.bin", tag, vh_shard);
	f = fopen(path, "wb");
	if (NULL == f) return;
	for (i = 0; i < st_cap; i ++) if (st_tbl[i]) fwrite(&st_tbl[i], 8, 1, f);
	fclose(f);
}

static uint64_t n_transitions = 0, n_corruptions = 0, n_corr_ref_reject = 0, n_corr_ref_accept = 0, n_corr_unspec = 0;
static uint64_t n_corr_unspec_covered = 0;
static uint64_t n_wrong_secret = 0, n_ws_ref_accept = 0, n_dup_refused = 0, n_dup_accepted = 0;

/* ------------------------------------------------------------------ the enumerated space */
static const uint8_t CODES[6] = { 1, 2, 3, 4, 5, 11 };
static const int IS_RESPONSE[6] = { 0, 1, 1, 0, 1, 1 };
static const uint8_t REQ_CODE_FOR[6] = { 0, 1, 1, 0, 4, 1 };

enum { A_UN1 = 0, A_UN253, A_PW0, A_PW1, A_PW15, A_PW16, A_PW17, A_PW128, A_NASIP, A_VSA, A_MA, A_COUNT };
typedef struct asym_s { const char *label; uint8_t type; size_t len; const uint8_t *val; } asym_t;
static uint8_t V_UN253[253], V_PW[128];
static const uint8_t V_UN1[1] = { 'u' };
static const uint8_t V_NASIP[4] = { 192, 0, 2, 129 };
static const uint8_t V_VSA[7] = { 0x00, 0x00, 0x00, 0x09, 0x01, 0x03, 'x' };	/* vendor 9, sub-attribute 1 */
static asym_t ASYM[A_COUNT];

#define NSECRETS 4
static uint8_t SECRET_BYTES[NSECRETS][64]; static size_t SECRET_LEN[NSECRETS] = { 0, 1, 16, 64 };
/* a "random" Request Authenticator with high bits, zeros and 0xff in it */
static const uint8_t REQ_AUTH[16] = { 0x8f, 0x00, 0xff, 0x10, 0x7e, 0x81, 0x01, 0xc3, 0x55, 0xaa, 0x02, 0xfe, 0x00, 0x99, 0x3c, 0xe7 };
#define PKT_ID 0xA7

static void
space_init(void) {
	size_t i; int s;
	for (i = 0; i < sizeof(V_UN253); i ++) V_UN253[i] = (uint8_t)('a' + (i % 26));
	for (i = 0; i < sizeof(V_PW); i ++) V_PW[i] = (uint8_t)(0x21 + (i * 7) % 0x5e);	/* printable, never NUL */
	ASYM[A_UN1] = (asym_t){ "User-Name(1)", 1, 1, V_UN1 };
	ASYM[A_UN253] = (asym_t){ "User-Name(253)", 1, 253, V_UN253 };
	ASYM[A_PW0] = (asym_t){ "User-Password(0)", 2, 0, V_PW };
	ASYM[A_PW1] = (asym_t){ "User-Password(1)", 2, 1, V_PW };
	ASYM[A_PW15] = (asym_t){ "User-Password(15)", 2, 15, V_PW };
	ASYM[A_PW16] = (asym_t){ "User-Password(16)", 2, 16, V_PW };
	ASYM[A_PW17] = (asym_t){ "User-Password(17)", 2, 17, V_PW };
	ASYM[A_PW128] = (asym_t){ "User-Password(128)", 2, 128, V_PW };
	ASYM[A_NASIP] = (asym_t){ "NAS-IP-Address", 4, 4, V_NASIP };
	ASYM[A_VSA] = (asym_t){ "Vendor-Specific", 26, 7, V_VSA };
	ASYM[A_MA] = (asym_t){ "Message-Authenticator", 80, 0, NULL };
	for (s = 0; s < NSECRETS; s ++)
		for (i = 0; i < 64; i ++) SECRET_BYTES[s][i] = (1 == SECRET_LEN[s]) ? 's' : (uint8_t)(0x30 + ((i * 11 + (size_t)s * 5) % 0x4b));
}

/* ------------------------------------------------------------------ reference: RFC constructions */
static inline size_t pw_padded(size_t n) { return (0 == n ? 16 : ((n + 15) / 16) * 16); }

/* RFC 2865 5.2: c(1) = p1 xor MD5(S + RA), c(i) = pi xor MD5(S + c(i-1)); p padded with NULs to 16n */
static void
ref_pw_hide(const uint8_t *secret, size_t slen, const uint8_t *ra, const uint8_t *plain, size_t plen, uint8_t *out) {
	size_t padded = pw_padded(plen), j, i; uint8_t p[128], b[16]; rmd5_seg_t s[2];
	memset(p, 0, sizeof(p)); if (plen) memcpy(p, plain, plen);
	s[0].p = secret; s[0].n = slen;
	for (j = 0; j < padded; j += 16) {
		s[1].p = (0 == j) ? ra : (out + j - 16); s[1].n = 16;
		rmd5_segs(s, 2, b);
		for (i = 0; i < 16; i ++) out[j + i] = p[j + i] ^ b[i];
	}
}
static void
ref_pw_unhide(const uint8_t *secret, size_t slen, const uint8_t *ra, const uint8_t *hidden, size_t hlen, uint8_t *out) {
	size_t j, i; uint8_t b[16]; rmd5_seg_t s[2];
	s[0].p = secret; s[0].n = slen;
	for (j = 0; j < hlen; j += 16) {
		s[1].p = (0 == j) ? ra : (hidden + j - 16); s[1].n = 16;
		rmd5_segs(s, 2, b);
		for (i = 0; i < 16; i ++) out[j + i] = hidden[j + i] ^ b[i];
	}
}

typedef struct model_s {
	uint8_t	code, id;
	uint8_t	auth_init[16];	/* what the Authenticator field holds while the packet is assembled:
				 * Access-Request: its random Request Authenticator; Accounting-Request: zeros;
				 * responses: the Request Authenticator of the request */
	int	nattr, attr[4];	/* accepted attribute symbols, in order (a trailing A_MA when sign adds it) */
	int	sidx;		/* secret index */
} model_t;

/* Build the complete signed packet per RFC.  Returns its length; offsets of the password value / MA value or 0. */
static size_t
ref_build(const model_t *m, const uint8_t *secret, size_t slen, uint8_t *out, size_t *pw_off, size_t *ma_off) {
	size_t o = 20, po = 0, mo = 0, ppad = 0; int i; uint8_t d[16]; rmd5_seg_t s[4];
	out[0] = m->code; out[1] = m->id; memcpy(out + 4, m->auth_init, 16);
	for (i = 0; i < m->nattr; i ++) {
		const asym_t *a = &ASYM[m->attr[i]];
		if (2 == a->type) {
			ppad = pw_padded(a->len);
			out[o] = 2; out[o + 1] = (uint8_t)(2 + ppad); po = o + 2;
			ref_pw_hide(secret, slen, m->auth_init, a->val, a->len, out + po);
			o += 2 + ppad;
		} else if (80 == a->type) {
			out[o] = 80; out[o + 1] = 18; mo = o + 2; memset(out + mo, 0, 16); o += 18;
		} else {
			out[o] = a->type; out[o + 1] = (uint8_t)(2 + a->len); memcpy(out + o + 2, a->val, a->len); o += 2 + a->len;
		}
	}
	out[2] = (uint8_t)(o >> 8); out[3] = (uint8_t)o;
	/* RFC 2869 5.14: HMAC-MD5(secret; Type, Identifier, Length, Request Authenticator, Attributes) with the
	 * attribute's 16 octets zero.  Access-Request: own authenticator; Accept/Reject/Challenge: the request's.
	 * (Accounting: not defined by RFC 2869; de-facto zeros for the request, request authenticator for the response -
	 * both are what auth_init holds.) */
	if (mo) rhmac_md5(secret, slen, out, o, out + mo);
	/* RFC 2865 3 Response Authenticator = MD5(Code+ID+Length+RequestAuth+Attributes+Secret);
	 * RFC 2866 3 Accounting Request Authenticator = MD5(Code+ID+Length+16 zero octets+Attributes+Secret) */
	if (1 != m->code) {
		s[0].p = out; s[0].n = o; s[1].p = secret; s[1].n = slen;
		rmd5_segs(s, 2, d);
		memcpy(out + 4, d, 16);
	}
	if (pw_off) *pw_off = po;
	if (ma_off) *ma_off = mo;
	return (o);
}

/* Reference verifier over received bytes.  req_auth = Request Authenticator of the request (responses) or NULL. */
enum { R_ACCEPT = 0, R_REJECT = 1, R_UNSPEC = 2 };
static int
ref_verify(const uint8_t *pkt, size_t size, const uint8_t *secret, size_t slen, const uint8_t *req_auth, const char **why) {
	static const uint8_t zeros[16] = { 0 };
	size_t L, off, ma_off = 0; int nma = 0, unknown = 0, bad_known = 0, unspec = 0; uint8_t code, d[16]; const uint8_t *ra; rmd5_seg_t s[4];
	*why = "";
	if (size < 20) { *why = "short"; return (R_REJECT); }
	L = ((size_t)pkt[2] << 8) | pkt[3];
	if (L < 20 || L > 4096 || L > size) { *why = "length"; return (R_REJECT); }	/* RFC 2865 3 Length */
	code = pkt[0];
	switch (code) {
	case 1: ra = pkt + 4; break;
	case 4: ra = zeros; break;
	case 2: case 3: case 5: case 11: if (NULL == req_auth) { *why = "no-request"; return (R_REJECT); } ra = req_auth; break;
	case 12: case 13: case 40: case 41: case 42: case 43: case 44: case 45: *why = "other-code"; return (R_UNSPEC);
	default: *why = "code"; return (R_REJECT);	/* RFC 2865 3: invalid Code is silently discarded */
	}
	for (off = 20; off < L; ) {
		size_t al, vl;
		if (L - off < 2) { *why = "attr-hdr"; return (R_REJECT); }
		al = pkt[off + 1];
		if (al < 2 || al > L - off) { *why = "attr-len"; return (R_REJECT); }
		vl = al - 2;
		switch (pkt[off]) {
		case 1: if (vl < 1) bad_known = 1; break;			/* RFC 2865 5.1 Length >= 3 */
		case 2: if (vl < 16 || vl > 128) bad_known = 1; else if (vl % 16) unspec = 1; break;	/* 5.2: 18..130 */
		case 4: if (4 != vl) bad_known = 1; break;			/* 5.4 Length 6 */
		case 26: if (vl < 5) bad_known = 1; break;			/* 5.26 Length >= 7 */
		case 80: if (16 != vl) bad_known = 1; else if (0 == nma ++) ma_off = off + 2; break;	/* RFC 2869 5.14 Length 18 */
		default: unknown = 1; break;					/* "MAY ignore Attributes with an unknown Type" */
		}
		off += al;
	}
	if (nma > 1) unspec = 1;
	if (nma >= 1) {
		uint8_t mac[16]; static uint8_t tmp[4096];
		memcpy(tmp, pkt, L); memcpy(tmp + 4, ra, 16); memset(tmp + ma_off, 0, 16);
		rhmac_md5(secret, slen, tmp, L, mac);
		if (0 != memcmp(mac, pkt + ma_off, 16)) { *why = "message-authenticator"; return (R_REJECT); }
	}
	if (1 != code) {
		s[0].p = pkt; s[0].n = 4; s[1].p = ra; s[1].n = 16; s[2].p = pkt + 20; s[2].n = L - 20; s[3].p = secret; s[3].n = slen;
		rmd5_segs(s, 4, d);
		if (0 != memcmp(d, pkt + 4, 16)) { *why = "authenticator"; return (R_REJECT); }
	}
	if (bad_known) { *why = "attribute-length"; return (R_REJECT); }
	if (unknown || unspec) { *why = "unknown-attribute"; return (R_UNSPEC); }
	return (R_ACCEPT);
}

/* ------------------------------------------------------------------ case description */
static struct { int code_i, sidx, add_ma, len, seq[3]; const char *phase; size_t c_off; int c_mask; } cur;
static void
desc_case(char *b, size_t n) {
	int i; size_t o = 0;
	o += (size_t)snprintf(b + o, n - o, "code=%u secret_len=%zu sign(add_msg_authr=%d) attrs=[", CODES[cur.code_i], SECRET_LEN[cur.sidx], cur.add_ma);
	for (i = 0; i < cur.len && o < n; i ++) o += (size_t)snprintf(b + o, n - o, "%s%s", i ? ", " : "", ASYM[cur.seq[i]].label);
	if (o < n) o += (size_t)snprintf(b + o, n - o, "] phase=%s", cur.phase);
	if (cur.c_mask && o < n) o += (size_t)snprintf(b + o, n - o, " corrupt[%zu]^=0x%02x", cur.c_off, cur.c_mask);
}
#define PHASE(p) do { cur.phase = (p); vh_desc_set = 0; } while (0)

/* request header the responses answer (only code, id and authenticator matter to the receiver) */
static void
make_request_hdr(uint8_t code, const uint8_t *secret, size_t slen, uint8_t *req20) {
	req20[0] = code; req20[1] = PKT_ID; req20[2] = 0; req20[3] = 20;
	if (1 == code) memcpy(req20 + 4, REQ_AUTH, 16);
	else { rmd5_seg_t s[2]; memset(req20 + 4, 0, 16); s[0].p = req20; s[0].n = 20; s[1].p = secret; s[1].n = slen; { uint8_t d[16]; rmd5_segs(s, 2, d); memcpy(req20 + 4, d, 16); } }
}

/* model of which adds are accepted: RFC 2865 5.44 / RFC 2869 5.19 allow at most one User-Password and one
 * Message-Authenticator; the library refuses the second one with EEXIST */
static void
model_make(model_t *m, int code_i, int sidx, const int *seq, int len, int add_ma, const uint8_t *req20, int *expect_ok) {
	int i, have_pw = 0, have_ma = 0;
	memset(m, 0, sizeof(*m));
	m->code = CODES[code_i]; m->id = PKT_ID; m->sidx = sidx;
	if (1 == m->code) memcpy(m->auth_init, REQ_AUTH, 16);
	else if (4 == m->code) memset(m->auth_init, 0, 16);
	else memcpy(m->auth_init, req20 + 4, 16);
	for (i = 0; i < len; i ++) {
		int t = ASYM[seq[i]].type, ok = 1;
		if (2 == t) { ok = !have_pw; have_pw = 1; }
		if (80 == t) { ok = !have_ma; have_ma = 1; }
		if (expect_ok) expect_ok[i] = ok;
		if (ok) m->attr[m->nattr ++] = seq[i];
	}
	if (add_ma) m->attr[m->nattr ++] = A_MA;
}

static uint8_t refpkt[4200];

/* ------------------------------------------------------------------ target 1: build + sign with the library */
static void
list_check(const char *fn_clause_prefix, rad_pkt_hdr_p pkt, size_t size, const model_t *m, int pw_is_plain) {
	size_t off = 20; int i; char cl[96];
	for (i = 0; i < m->nattr; i ++) {
		const asym_t *a = &ASYM[m->attr[i]]; uint8_t t = 0, *dp = NULL, *rp = NULL; size_t dl = 9999, rl = 9999; int rc;
		size_t raw = (2 == a->type) ? pw_padded(a->len) : ((80 == a->type) ? 16 : a->len);
		snprintf(cl, sizeof(cl), "%s:list-attributes", fn_clause_prefix);
		rc = radius_pkt_attr_get_data_ptr_raw(pkt, off, &t, &rp, &rl);
		if (0 != rc) { vh_fail(cl, "attribute #%d at %zu: rc=%d", i, off, rc); return; }
		if (t != a->type || rl != raw || rp != (uint8_t *)pkt + off + 2) { vh_fail(cl, "attribute #%d at %zu: type %u len %zu, want %u %zu", i, off, t, rl, a->type, raw); return; }
		rc = radius_pkt_attr_get_data_ptr(pkt, off, &t, &dp, &dl);
		if (0 != rc || t != a->type) { vh_fail(cl, "attribute #%d: get_data_ptr rc=%d type=%u", i, rc, t); return; }
		if (2 == a->type) {
			if (pw_is_plain && (dl != a->len || (a->len && 0 != memcmp(dp, a->val, a->len)))) {
				snprintf(cl, sizeof(cl), "%s:password-roundtrip", fn_clause_prefix);
				vh_fail(cl, "un-hidden password differs from the one added (len %zu want %zu)", dl, a->len); return;
			}
		} else if (80 != a->type) {
			if (dl != a->len || 0 != memcmp(dp, a->val, a->len)) { vh_fail(cl, "attribute #%d (type %u): value differs", i, t); return; }
		}
		off += 2 + raw;
	}
	if (off != size) { snprintf(cl, sizeof(cl), "%s:list-attributes", fn_clause_prefix); vh_fail(cl, "attributes end at %zu, packet has %zu", off, size); }
	/* all User-Name values through the collecting getter.  It is given a copy with two spare zero bytes behind the
	 * packet: radius_pkt_attr_get_data_to_buf() -> radius_pkt_attr_find(offset == packet length) ->
	 * radius_pkt_attr_get_from_offset() reads attr->len at packet[length + 1] (see NOTES.md, observation O2);
	 * memory safety of the getters is not what C15 states, so that read is kept off the redzone here. */
	{
		uint8_t want[800], got[800], *padded; size_t wl = 0, gl = 0; int rc, any = 0;
		for (i = 0; i < m->nattr; i ++) if (1 == ASYM[m->attr[i]].type) { memcpy(want + wl, ASYM[m->attr[i]].val, ASYM[m->attr[i]].len); wl += ASYM[m->attr[i]].len; any = 1; }
		padded = (uint8_t *)calloc(1, size + 2); memcpy(padded, pkt, size);
		rc = radius_pkt_attr_get_data_to_buf((rad_pkt_hdr_p)padded, 0, 0, 1, got, sizeof(got), &gl);
		if ((any && 0 != rc) || gl != wl || 0 != memcmp(got, want, wl)) { snprintf(cl, sizeof(cl), "%s:list-attributes", fn_clause_prefix); vh_fail(cl, "radius_pkt_attr_get_data_to_buf(User-Name): rc=%d len=%zu want %zu", rc, gl, wl); }
		free(padded);
	}
}

static void
case_sign(int code_i, int sidx, const int *seq, int len, int add_ma) {
	model_t m; int expect_ok[3], i, rc; uint8_t req20[20], *buf, *copy; rad_pkt_hdr_p pkt, req; size_t cap, size = 7777, ref_len, pw_off, ma_off, cur_size;
	const uint8_t *secret = SECRET_BYTES[sidx]; size_t slen = SECRET_LEN[sidx]; int fails_before;

	if (!vh_begin("radius_pkt_sign")) return;
	cur.code_i = code_i; cur.sidx = sidx; cur.add_ma = add_ma; cur.len = len; memcpy(cur.seq, seq, sizeof(int) * (size_t)len); cur.c_mask = 0; PHASE("build");
	fails_before = vh_case_failed; vh_publish_desc(); vh_desc_set = 0;
	make_request_hdr(REQ_CODE_FOR[code_i] ? REQ_CODE_FOR[code_i] : 1, secret, slen, req20);
	model_make(&m, code_i, sidx, seq, len, add_ma, req20, expect_ok);
	ref_len = ref_build(&m, secret, slen, refpkt, &pw_off, &ma_off);
	cap = ref_len;				/* exactly the final packet: ASan redzone right behind it */
	buf = (uint8_t *)malloc(cap); memset(buf, 0xA5, cap);
	pkt = (rad_pkt_hdr_p)buf;
	req = (rad_pkt_hdr_p)vh_dup(req20, 20);
	if (IS_RESPONSE[code_i]) rc = radius_pkt_reply_init(pkt, cap, &size, CODES[code_i], req);
	else rc = radius_pkt_init(pkt, cap, &size, CODES[code_i], PKT_ID, (uint8_t *)(size_t)REQ_AUTH);
	n_transitions ++;
	if (0 != rc || 20 != size) { vh_fail("radius_pkt_init:rc", "rc=%d size=%zu", rc, size); goto out; }
	cur_size = 20;
	for (i = 0; i < len; i ++) {
		const asym_t *a = &ASYM[seq[i]]; size_t off = 0, want_off = cur_size;
		size_t raw = (2 == a->type) ? pw_padded(a->len) : ((80 == a->type) ? 16 : a->len);
		uint8_t *val = (uint8_t *)vh_dup(a->val ? a->val : (const uint8_t *)"", a->len);
		rc = radius_pkt_attr_add(pkt, cap, &size, a->type, (uint8_t)a->len, (80 == a->type) ? NULL : val, &off);
		free(val);
		n_transitions ++;
		if (!expect_ok[i]) {	/* second User-Password / Message-Authenticator */
			if (0 == rc) { n_dup_accepted ++; goto out; }	/* not promised either way: the case ends here, counted */
			n_dup_refused ++;
			continue;
		}
		if (0 != rc && 2 == a->type && RADIUS_PKT_HDR_LEN_GET(pkt) == cur_size) {
			/* finding F1 (see NOTES.md): reported, then the case goes on through the lower-level entry of the same
			 * family with the state radius_pkt_attr_add documents ("plain text, zero padded, hidden late, on pkt sign"),
			 * so that sign/verify of password-carrying packets stay explored while F1 exists */
			uint8_t *padded = (uint8_t *)calloc(1, raw);
			vh_fail("radius_pkt_attr_add:user-password-refused", "rc=%d adding %s at size %zu into %zu bytes", rc, a->label, cur_size, cap);
			if (a->len) memcpy(padded, a->val, a->len);
			rc = radius_pkt_attr_add_raw(pkt, cap, &size, 2, (uint8_t)raw, padded, NULL, &off);
			free(padded);
			n_transitions ++;
		}
		if (0 != rc) { vh_fail("radius_pkt_attr_add:rc", "rc=%d adding %s at size %zu into %zu bytes", rc, a->label, cur_size, cap); goto out; }
		cur_size += 2 + raw;
		if (size != cur_size || RADIUS_PKT_HDR_LEN_GET(pkt) != cur_size || off != want_off) { vh_fail("radius_pkt_attr_add:size", "size_ret=%zu hdr len=%u offset=%zu, want %zu %zu", size, RADIUS_PKT_HDR_LEN_GET(pkt), off, cur_size, want_off); goto out; }
		rc = radius_pkt_chk(pkt, cur_size);
		if (0 != rc) { vh_fail("radius_pkt_chk:rejects-built-packet", "rc=%d after adding %s", rc, a->label); goto out; }
		st_add(fnv64(buf, cur_size, 1469598103934665603ull));
	}
	PHASE("sign");
	rc = radius_pkt_sign(pkt, cap, &size, (uint8_t *)(size_t)secret, slen, add_ma);
	n_transitions ++;
	if (0 != rc) { vh_fail("radius_pkt_sign:rc", "rc=%d", rc); goto out; }
	if (size != ref_len || RADIUS_PKT_HDR_LEN_GET(pkt) != ref_len) { vh_fail("radius_pkt_sign:size", "size_ret=%zu hdr len=%u want %zu", size, RADIUS_PKT_HDR_LEN_GET(pkt), ref_len); goto out; }
	st_add(fnv64(buf, ref_len, 1469598103934665603ull));
	if (0 != memcmp(buf, refpkt, ref_len)) {
		size_t d = 0; while (buf[d] == refpkt[d]) d ++;
		if (pw_off && d >= pw_off && d < pw_off + buf[pw_off - 1] - 2u) vh_fail("radius_pkt_sign:password-hiding", "hidden User-Password differs from RFC 2865 5.2 at value byte %zu", d - pw_off);
		else if (ma_off && d >= ma_off && d < ma_off + 16) vh_fail("radius_pkt_sign:message-authenticator", "Message-Authenticator differs from RFC 2869 5.14 HMAC-MD5");
		else if (d >= 4 && d < 20) vh_fail("radius_pkt_sign:authenticator", "authenticator differs from RFC 2865/2866 section 3 (first difference at byte %zu)", d);
		else vh_fail("radius_pkt_sign:rfc-bytes", "packet differs from the RFC encoding at byte %zu", d);
	}
	/* the library's own receiver */
	PHASE("own-verify");
	rc = radius_pkt_chk(pkt, ref_len);
	if (0 != rc) { vh_fail("radius_pkt_chk:rejects-built-packet", "rc=%d on the signed packet", rc); goto out; }
	list_check("radius_pkt_sign", pkt, ref_len, &m, 0);
	copy = (uint8_t *)vh_dup(buf, ref_len);
	rc = radius_pkt_verify((rad_pkt_hdr_p)copy, (uint8_t *)(size_t)secret, slen, IS_RESPONSE[code_i] ? req : NULL);
	if (0 != rc) vh_fail("radius_pkt_verify:rejects-own-signature", "rc=%d verifying the packet radius_pkt_sign just produced", rc);
	else list_check("radius_pkt_verify", (rad_pkt_hdr_p)copy, ref_len, &m, 1 == m.code);
	free(copy);
	if (vh_case_failed == fails_before) vh_nontrivial();
out:
	free(buf); free(req);
}

/* ------------------------------------------------------------------ target 2: receiver decisions on RFC-built packets */
/* `scratch` is an exact-size heap block (redzone right behind the received bytes), reused within one case;
 * verify un-hides the password in place, so the library always works on a fresh copy */
static int
lib_decide(uint8_t *scratch, const uint8_t *bytes, size_t size, uint8_t *key, size_t slen, rad_pkt_hdr_p req, int *rc_chk, int *rc_ver) {
	memcpy(scratch, bytes, size);
	*rc_ver = -999;
	*rc_chk = radius_pkt_chk((rad_pkt_hdr_p)scratch, size);
	if (0 == *rc_chk) *rc_ver = radius_pkt_verify((rad_pkt_hdr_p)scratch, key, slen, req);
	return (0 == *rc_chk && 0 == *rc_ver);
}

static void
case_verify(int code_i, int sidx, const int *seq, int len, int add_ma) {
	model_t m; uint8_t req20[20], *base, *work, *scratch = NULL, *keydup = NULL; rad_pkt_hdr_p req; size_t ref_len, pw_off, ma_off, i; int rc_chk, rc_ver, la, rd, k, w, fails_before; const char *why;
	const uint8_t *secret = SECRET_BYTES[sidx]; size_t slen = SECRET_LEN[sidx]; static const int MASKS[8] = { 0x01, 0x80, 0x02, 0x04, 0x08, 0x10, 0x20, 0x40 };	/* quick: the first two; thorough: every single-bit flip */
	int nmasks = vh_thorough ? 8 : 2;
	int covered_all;

	if (!vh_begin("radius_pkt_verify")) return;
	cur.code_i = code_i; cur.sidx = sidx; cur.add_ma = add_ma; cur.len = len; memcpy(cur.seq, seq, sizeof(int) * (size_t)len); cur.c_mask = 0; PHASE("rfc-packet");
	fails_before = vh_case_failed; vh_publish_desc(); vh_desc_set = 0;
	make_request_hdr(REQ_CODE_FOR[code_i] ? REQ_CODE_FOR[code_i] : 1, secret, slen, req20);
	model_make(&m, code_i, sidx, seq, len, add_ma, req20, NULL);
	ref_len = ref_build(&m, secret, slen, refpkt, &pw_off, &ma_off);
	base = (uint8_t *)vh_dup(refpkt, ref_len);
	req = IS_RESPONSE[code_i] ? (rad_pkt_hdr_p)vh_dup(req20, 20) : NULL;
	/* reference accepts its own packet (harness self-check), library accepts the RFC packet */
	rd = ref_verify(base, ref_len, secret, slen, req ? req20 + 4 : NULL, &why);
	if (R_ACCEPT != rd) { vh_fail("harness:reference-rejects-reference-packet", "decision %d (%s)", rd, why); goto out; }
	work = (uint8_t *)vh_dup(base, ref_len);
	rc_chk = radius_pkt_chk((rad_pkt_hdr_p)work, ref_len);
	rc_ver = (0 == rc_chk) ? radius_pkt_verify((rad_pkt_hdr_p)work, (uint8_t *)(size_t)secret, slen, req) : -999;
	/* RFC 2869 does not define Message-Authenticator for accounting packets: the library's own consistency for them is
	 * judged in case_sign (rejects-own-signature), acceptance of the de-facto construction is not demanded here */
	if ((0 != rc_chk || 0 != rc_ver) && ma_off && (4 == m.code || 5 == m.code)) ;
	else if (0 != rc_chk || 0 != rc_ver) vh_fail("rejects-rfc-packet", "chk=%d verify=%d on a packet built per RFC 2865/2866/2869", rc_chk, rc_ver);
	else list_check("radius_pkt_verify", (rad_pkt_hdr_p)work, ref_len, &m, 1 == m.code);
	free(work);
	/* every single-byte corruption.  Everything is covered by an authenticator unless this is an Access-Request:
	 * there only the Message-Authenticator (if present) protects the packet. */
	covered_all = (1 != m.code);
	scratch = (uint8_t *)malloc(ref_len); keydup = (uint8_t *)vh_dup(secret, slen);
	PHASE("corruption");
	/* quick tier: the corruption sweep covers every packet with <= 2 enumerated attributes, thorough all of them */
	for (i = 0; i < ref_len && (vh_thorough || len <= 2); i ++) {
		for (k = 0; k < nmasks; k ++) {
			base[i] ^= (uint8_t)MASKS[k];
			cur.c_off = i; cur.c_mask = MASKS[k]; vh_desc_set = 0;
			rd = ref_verify(base, ref_len, secret, slen, req ? req20 + 4 : NULL, &why);
			la = lib_decide(scratch, base, ref_len, keydup, slen, req, &rc_chk, &rc_ver);
			n_corruptions ++;
			if (R_UNSPEC == rd) n_corr_unspec ++;
			else if (R_REJECT == rd) { n_corr_ref_reject ++; if (la) vh_fail("accepts-corrupted-packet", "chk=%d verify=%d; the reference rejects it (%s)", rc_chk, rc_ver, why); }
			else { n_corr_ref_accept ++; if (!la) vh_fail("rejects-unprotected-change", "chk=%d verify=%d; no authenticator covers this byte and the packet is well-formed, RFC receiver accepts", rc_chk, rc_ver); }
			/* harness self-check: every byte of a response / Accounting-Request is under its authenticator.  A flip that
			 * turns the Code into Access-Request (3^02, 5^04) yields, by RFC design, an unauthenticated request: excluded */
			if (covered_all && 1 != base[0] && R_ACCEPT == rd) vh_fail("harness:reference-accepts-covered-corruption", "decision %d", rd);
			if (covered_all && 1 != base[0] && R_UNSPEC == rd) n_corr_unspec_covered ++;	/* Code flipped to 12/13/43: outside the reference */
			base[i] ^= (uint8_t)MASKS[k];
		}
	}
	cur.c_mask = 0;
	/* wrong secrets: the other secrets of the set, the secret with its last byte changed, one byte longer, one shorter */
	PHASE("wrong-secret");
	for (w = 0; w < NSECRETS + 3; w ++) {
		uint8_t ws[80]; size_t wl;
		if (w < NSECRETS) { if (w == sidx) continue; wl = SECRET_LEN[w]; memcpy(ws, SECRET_BYTES[w], wl); }
		else if (NSECRETS == w) { if (0 == slen) continue; wl = slen; memcpy(ws, secret, wl); ws[wl - 1] ^= 0x01; }
		else if (NSECRETS + 1 == w) { wl = slen + 1; memcpy(ws, secret, slen); ws[slen] = 'x'; }
		else { if (0 == slen) continue; wl = slen - 1; memcpy(ws, secret, wl); }
		if (wl == slen && 0 == memcmp(ws, secret, wl)) continue;
		rd = ref_verify(base, ref_len, ws, wl, req ? req20 + 4 : NULL, &why);
		{ uint8_t *wk = (uint8_t *)vh_dup(ws, wl); la = lib_decide(scratch, base, ref_len, wk, wl, req, &rc_chk, &rc_ver); free(wk); }
		n_wrong_secret ++;
		if (R_ACCEPT == rd) n_ws_ref_accept ++;
		if (R_REJECT == rd && la) vh_fail("accepts-wrong-secret", "chk=%d verify=%d with a different secret (%zu bytes)", rc_chk, rc_ver, wl);
		if (R_ACCEPT == rd && !la) vh_fail("rejects-unprotected-change", "wrong secret, but nothing in this packet depends on the secret: chk=%d verify=%d", rc_chk, rc_ver);
		if ((covered_all || ma_off) && R_REJECT != rd) vh_fail("harness:reference-accepts-wrong-secret", "decision %d", rd);
	}
	if (vh_case_failed == fails_before) vh_nontrivial();
out:
	free(base); free(req); free(scratch); free(keydup);
}

/* ------------------------------------------------------------------ target 3: the password functions directly */
static size_t cur_pwlen; static int cur_pw_s, cur_pw_a;
static void desc_pw(char *b, size_t n) { snprintf(b, n, "password_len=%zu secret_len=%zu authenticator#%d", cur_pwlen, SECRET_LEN[cur_pw_s], cur_pw_a); }

static void
password_cases(void) {
	static const size_t PL[] = { 0, 1, 2, 15, 16, 17, 31, 32, 33, 47, 48, 49, 112, 113, 127, 128 };
	static const uint8_t AUTH2[16] = { 0, 0, 0, 0, 0, 0, 0, 0, 0, 0, 0, 0, 0, 0, 0, 0 };
	size_t pi; int s, a;
	vh_set_describer(desc_pw);
	for (pi = 0; pi < sizeof(PL) / sizeof(PL[0]); pi ++) for (s = 0; s < NSECRETS; s ++) for (a = 0; a < 2; a ++) {
		size_t plen = PL[pi], pad = pw_padded(plen), ret = 7777; int rc; uint8_t want[128], *au, *pw, *key, *enc, *dec, *inpl;
		if (!vh_begin("radius_pkt_attr_password_encode")) continue;
		cur_pwlen = plen; cur_pw_s = s; cur_pw_a = a;
		au = (uint8_t *)vh_dup(a ? AUTH2 : REQ_AUTH, 16); pw = (uint8_t *)vh_dup(V_PW, plen); key = (uint8_t *)vh_dup(SECRET_BYTES[s], SECRET_LEN[s]);
		ref_pw_hide(SECRET_BYTES[s], SECRET_LEN[s], au, V_PW, plen, want);
		enc = (uint8_t *)malloc(pad); memset(enc, 0xA5, pad);
		rc = radius_pkt_attr_password_encode(au, pw, plen, key, SECRET_LEN[s], enc, pad, &ret);
		if (0 != rc || ret != pad) vh_fail("encode-rc", "rc=%d size=%zu want 0 %zu", rc, ret, pad);
		else if (0 != memcmp(enc, want, pad)) vh_fail("password-hiding", "differs from RFC 2865 5.2");
		else {
			dec = (uint8_t *)malloc(pad); memset(dec, 0xA5, pad); ret = 7777;
			rc = radius_pkt_attr_password_decode(au, enc, pad, key, SECRET_LEN[s], dec, pad, &ret);
			if (0 != rc) vh_fail("decode-rc", "rc=%d", rc);
			else if (ret != plen || (plen && 0 != memcmp(dec, V_PW, plen))) vh_fail("password-roundtrip", "unhide(hide(p)) != p (len %zu want %zu)", ret, plen);
			else {
				/* in place, the way radius_pkt_sign / radius_pkt_verify call them: buf == password, length = padded */
				inpl = (uint8_t *)malloc(pad); memset(inpl, 0, pad); if (plen) memcpy(inpl, V_PW, plen);
				rc = radius_pkt_attr_password_encode(au, inpl, pad, key, SECRET_LEN[s], inpl, pad, NULL);
				if (0 != rc || 0 != memcmp(inpl, want, pad)) vh_fail("password-hiding", "in-place call (buf == password) rc=%d differs from RFC 2865 5.2", rc);
				else {
					rc = radius_pkt_attr_password_decode(au, inpl, pad, key, SECRET_LEN[s], inpl, pad, &ret);
					if (0 != rc || ret != plen || (plen && 0 != memcmp(inpl, V_PW, plen))) vh_fail("password-roundtrip", "in-place unhide(hide(p)) != p (rc=%d len %zu)", rc, ret);
					else vh_nontrivial();
				}
				free(inpl);
			}
			free(dec);
		}
		free(enc); free(au); free(pw); free(key);
	}
	vh_set_describer(NULL);
}

/* ------------------------------------------------------------------ enumeration */
static void
enumerate(int maxlen, void (*fn)(int, int, const int *, int, int), int emit) {
	int code_i, sidx, len, seq[3], add_ma, i; uint32_t c, tot;
	/* the sequence is the innermost loop so that consecutive case numbers (= shards) see all kinds of packets */
	for (code_i = 0; code_i < 6; code_i ++) for (len = 0; len <= maxlen; len ++) {
		for (tot = 1, i = 0; i < len; i ++) tot *= A_COUNT;
		for (sidx = 0; sidx < NSECRETS; sidx ++) for (add_ma = 0; add_ma <= 1; add_ma ++) {
			for (c = 0; c < tot; c ++) {
				uint32_t t = c; int has_ma = 0;
				for (i = 0; i < len; i ++) { seq[i] = (int)(t % A_COUNT); t /= A_COUNT; if (A_MA == seq[i]) has_ma = 1; }
				if (has_ma && add_ma) continue;	/* sign(add_msg_authr=1) fails with EEXIST by contract */
				if (!emit) { fn(code_i, sidx, seq, len, add_ma); continue; }
				/* --selftest: print the spec and the reference-built packet for the Python cross-check */
				{
					model_t m; uint8_t req20[20]; size_t L, k; int j;
					make_request_hdr(REQ_CODE_FOR[code_i] ? REQ_CODE_FOR[code_i] : 1, SECRET_BYTES[sidx], SECRET_LEN[sidx], req20);
					model_make(&m, code_i, sidx, seq, len, add_ma, req20, NULL);
					L = ref_build(&m, SECRET_BYTES[sidx], SECRET_LEN[sidx], refpkt, NULL, NULL);
					printf("REFPKT\t%u\t%u\t", m.code, m.id);
					for (k = 0; k < 16; k ++) printf("%02x", m.auth_init[k]);
					printf("\t"); for (k = 0; k < SECRET_LEN[sidx]; k ++) printf("%02x", SECRET_BYTES[sidx][k]);
					printf("\t");
					for (j = 0; j < m.nattr; j ++) { const asym_t *a = &ASYM[m.attr[j]]; printf("%s%u:", j ? "," : "", a->type); for (k = 0; k < a->len; k ++) printf("%02x", a->val[k]); }
					printf("\t"); for (k = 0; k < L; k ++) printf("%02x", refpkt[k]);
					printf("\n");
				}
			}
		}
	}
}

static int
selftest(void) {
	int bad = 0, n = 0;
#ifdef C15_HAVE_VECTORS
	size_t i; uint8_t d[16];
	for (i = 0; i < C15_NVEC; i ++) {
		if (c15_vec[i].key_len < 0) rmd5(c15_vec_data + c15_vec[i].msg_off, c15_vec[i].msg_len, d);
		else rhmac_md5(c15_vec_data + c15_vec[i].key_off, (size_t)c15_vec[i].key_len, c15_vec_data + c15_vec[i].msg_off, c15_vec[i].msg_len, d);
		if (0 != memcmp(d, c15_vec[i].digest, 16)) { bad ++; printf("SELFTEST-MISMATCH\tvector %zu\n", i); }
		n ++;
	}
#else
	bad = 1;
#endif
	printf("SELFTEST\tvectors=%d\tbad=%d\n", n, bad);
	enumerate(2, NULL, 1);
	printf("SELFTEST-DONE\n");
	return (bad ? 3 : 0);
}

int
main(int argc, char **argv) {
	int i, maxlen;
	space_init();
	for (i = 1; i < argc; i ++) if (0 == strcmp(argv[i], "--selftest")) return (selftest());
	vh_init(argc, argv);
	maxlen = 3;
	password_cases();
	vh_set_describer(desc_case);
	enumerate(maxlen, case_sign, 0);
	enumerate(maxlen, case_verify, 0);
	vh_set_describer(NULL);
	st_dump(argv[0], "radius");
	printf("NOTE\tradius_transitions=%llu\n", (unsigned long long)n_transitions);
	printf("NOTE\tradius_corruptions=%llu\n", (unsigned long long)n_corruptions);
	printf("NOTE\tradius_corruptions_ref_reject=%llu\n", (unsigned long long)n_corr_ref_reject);
	printf("NOTE\tradius_corruptions_ref_accept=%llu\n", (unsigned long long)n_corr_ref_accept);
	printf("NOTE\tradius_corruptions_unspecified=%llu\n", (unsigned long long)n_corr_unspec);
	printf("NOTE\tradius_corruptions_unspecified_code_flip=%llu\n", (unsigned long long)n_corr_unspec_covered);
	printf("NOTE\tradius_wrong_secret_trials=%llu\n", (unsigned long long)n_wrong_secret);
	printf("NOTE\tradius_wrong_secret_ref_accept=%llu\n", (unsigned long long)n_ws_ref_accept);
	printf("NOTE\tradius_duplicate_adds_refused=%llu\n", (unsigned long long)n_dup_refused);
	printf("NOTE\tradius_duplicate_adds_accepted=%llu\n", (unsigned long long)n_dup_accepted);
	return (vh_finish());
}
