"""C15 - DNS and RADIUS messages built by the library parse back and authenticate per RFC.

Two enumerating harnesses (h_c15_dns.c, h_c15_radius.c).  The RADIUS reference side uses its own
MD5/HMAC-MD5 (ref_md5.h); before anything is decided it is validated here, at check time, against
hashlib/hmac test vectors, and the reference *constructions* (password hiding, authenticators,
Message-Authenticator) are validated by recomputing every reference-built packet with <= 2
attributes in Python from its specification."""
import os, sys, glob, struct, hashlib, hmac, subprocess
from concurrent.futures import ThreadPoolExecutor
from vlib import core

PROP = 'C15'


# --------------------------------------------------------------------------- hashlib vectors for ref_md5.h
def gen_vectors(path):
    data = bytearray()
    vecs = []

    def put(b):
        off = len(data)
        data.extend(b)
        return off

    def msg(n, salt):
        return bytes(((i * 131 + salt * 17 + (i >> 3)) & 0xff) for i in range(n))

    lens = list(range(0, 200)) + [255, 256, 257, 511, 512, 513, 1000, 4096, 4117]
    for n in lens:
        m = msg(n, n)
        vecs.append((-1, 0, put(m), n, hashlib.md5(m).digest()))
    for kl in (0, 1, 16, 63, 64, 65, 100, 200):
        k = msg(kl, 99 + kl)
        for n in (0, 1, 20, 55, 56, 63, 64, 65, 119, 120, 300, 4096):
            m = msg(n, kl + n)
            vecs.append((kl, put(k), put(m), n, hmac.new(k, m, 'md5').digest()))
    with open(path, 'w') as fh:
        fh.write('/* generated at check time by harness/C15/run.py from hashlib/hmac - do not edit */\n')
        fh.write('typedef struct { int key_len; size_t key_off, msg_off, msg_len; uint8_t digest[16]; } c15_vec_t;\n')
        fh.write('static const uint8_t c15_vec_data[] = {%s};\n' % ','.join(str(b) for b in (data or b'\0')))
        fh.write('#define C15_NVEC %d\n' % len(vecs))
        fh.write('static const c15_vec_t c15_vec[C15_NVEC] = {\n')
        for kl, ko, mo, ml, d in vecs:
            fh.write(' {%d, %d, %d, %d, {%s}},\n' % (kl, ko, mo, ml, ','.join(str(b) for b in d)))
        fh.write('};\n')
    return len(vecs)


# --------------------------------------------------------------------------- RFC 2865/2866/2869 in Python
def py_radius(code, ident, auth_init, secret, attrs):
    body = b''
    ma_at = None
    for t, v in attrs:
        if t == 2:      # RFC 2865 5.2
            p = (v + b'\0' * ((-len(v)) % 16)) if v else b'\0' * 16
            out, prev = b'', auth_init
            for i in range(0, len(p), 16):
                b = hashlib.md5(secret + prev).digest()
                c = bytes(x ^ y for x, y in zip(p[i:i + 16], b))
                out += c
                prev = c
            v = out
        elif t == 80:   # RFC 2869 5.14
            v = b'\0' * 16
            if ma_at is None:
                ma_at = len(body) + 2
        body += bytes([t, len(v) + 2]) + v
    hdr4 = bytes([code, ident]) + struct.pack('>H', 20 + len(body))
    if ma_at is not None:
        mac = hmac.new(secret, hdr4 + auth_init + body, 'md5').digest()
        body = body[:ma_at] + mac + body[ma_at + 16:]
    auth = auth_init if code == 1 else hashlib.md5(hdr4 + auth_init + body + secret).digest()
    return hdr4 + auth + body


def selftest(rep, binary):
    p = subprocess.run([binary, '--selftest'], capture_output=True, timeout=300)
    out = p.stdout.decode('utf-8', 'replace')
    nvec = bad = None
    npk = 0
    mism = []
    for line in out.splitlines():
        f = line.split('\t')
        if f[0] == 'SELFTEST' and len(f) == 3:
            nvec = int(f[1].split('=')[1])
            bad = int(f[2].split('=')[1])
        elif f[0] == 'REFPKT' and len(f) == 7:
            code, ident = int(f[1]), int(f[2])
            auth_init, secret = bytes.fromhex(f[3]), bytes.fromhex(f[4])
            attrs = []
            if f[5]:
                for a in f[5].split(','):
                    t, v = a.split(':')
                    attrs.append((int(t), bytes.fromhex(v)))
            want = py_radius(code, ident, auth_init, secret, attrs)
            ok = (want == bytes.fromhex(f[6]))
            if code == 4 and auth_init != b'\0' * 16:
                ok = False
            if code == 5 and auth_init != hashlib.md5(bytes([4, ident, 0, 20]) + b'\0' * 16 + secret).digest():
                ok = False
            npk += 1
            if not ok and len(mism) < 3:
                mism.append(line[:200])
    if p.returncode != 0 or 'SELFTEST-DONE' not in out or nvec is None or bad != 0 or nvec < 100:
        rep.harness_errors.append('reference MD5/HMAC-MD5 self-test against hashlib failed (rc=%s vectors=%s bad=%s)' % (p.returncode, nvec, bad))
    if mism or npk < 100:
        rep.harness_errors.append('reference RADIUS constructions differ from the Python RFC computation (%d packets): %s' % (npk, mism))
    rep.extra['reference_md5_vectors_checked_against_hashlib'] = nvec or 0
    rep.extra['reference_packets_recomputed_in_python'] = npk


def _build(tier):
    bdir = core.build_dir(PROP)
    nvec = gen_vectors(os.path.join(bdir, 'md5_vectors.h'))
    with ThreadPoolExecutor(max_workers=2) as ex:
        fd = ex.submit(core.compile_c, PROP, 'h_c15_dns', ['harness/C15/h_c15_dns.c'])
        fr = ex.submit(core.compile_c, PROP, 'h_c15_radius', ['harness/C15/h_c15_radius.c'],
                       flags=['-I' + bdir, '-I' + os.path.join(core.VERIF, 'harness', PROP), '-DC15_HAVE_VECTORS'], libs=['-lm'], opt='-O2')
        return {'dns': fd.result(), 'radius': fr.result()}, nvec


def _note_sum(rep, key):
    n = 0
    for line in rep.notes:
        if line.startswith(key + '='):
            n += int(line.split('=', 1)[1])
    return n


def _union_states(bdir, tag):
    s = set()
    for p in glob.glob(os.path.join(bdir, 'states.%s.*.bin' % tag)):
        b = open(p, 'rb').read()
        s.update(struct.unpack('<%dQ' % (len(b) // 8), b[:len(b) // 8 * 8]))
    return len(s)


def run(tier):
    d = 5 if tier == 'thorough' else 3
    a = 3
    masks = 'every single-bit flip (8 masks)' if tier == 'thorough' else '{^01,^80} (quick: corruption sweep on the packets with <= 2 enumerated attributes)'
    rep = core.Report(PROP, tier, 'model_checking',
        'DNS: every name of the grammar (labels c^L, c in {a,Z,0,-}, L in {1,2,62,63}, 1..4 labels = 69904 names, text length 1..255) '
        'through the raw and message-level label encoder/decoder; every section-ordered sequence of <= %d add operations over 18 '
        'symbols (3 question types x 2 names, RR A/TXT(0,1,255)/rdlength-0 x 2 names in AN/NS/AR, OPT with and without data) into a heap '
        'buffer of every size 12..exactly-fits+1, each add executed on the real builder and followed by the full oracle. '
        'RADIUS: codes {1,2,3,4,5,11} x every attribute sequence of length <= %d over 11 symbols (User-Name 1/253, User-Password '
        '0/1/15/16/17/128, NAS-IP-Address, Vendor-Specific, Message-Authenticator) x secrets of 0/1/16/64 bytes x sign with/without '
        'appending Message-Authenticator; for each RFC-built packet every byte x %s and 3..6 wrong secrets through '
        'radius_pkt_chk+radius_pkt_verify. A case is non-trivial when at least one add succeeded (DNS) / the packet was signed (RADIUS) '
        'and every oracle clause was evaluated and held; cases are distinct by construction (distinct sequence, capacity, code, secret). '
        'states = distinct message/packet byte strings produced by the real builders (union over shards of 64-bit hashes), '
        'transitions = init/add/sign calls executed on the real builders by the owning shard.' % (d, a, masks))
    rep.assumptions = [
        'reference MD5/HMAC-MD5 is harness/C15/ref_md5.h (written from RFC 1321/2104, T[] from sin()), checked against hashlib/hmac vectors on every run',
        'reference RADIUS constructions (RFC 2865 3, 5.2; RFC 2866 3; RFC 2869 5.14) are cross-checked against a Python recomputation of every reference packet with <= 2 attributes on every run',
        'Message-Authenticator in Accounting-Request/-Response is not defined by RFC 2869; the reference uses the de-facto rule (zero authenticator for the request, Request Authenticator for the response)',
        'DNS section counters for RR/OPT entries are incremented by the caller after a successful add (as dns_resolver_send does); sequences are restricted to section order QD<=AN<=NS<=AR',
        'corruptions whose outcome the RFCs leave to the receiver (unknown attribute type appears and no authenticator fails) are not compared',
    ]
    bdir = core.build_dir(PROP)
    for p in glob.glob(os.path.join(bdir, 'states.*.bin')):
        os.unlink(p)
    bins, nvec = _build(tier)
    selftest(rep, bins['radius'])
    rep.configs = ['dns', 'radius']
    core.run_sharded(rep, bins['dns'], tier, config='dns')
    core.run_sharded(rep, bins['radius'], tier, config='radius')
    sd, sr = _union_states(bdir, 'dns'), _union_states(bdir, 'radius')
    td, tr = _note_sum(rep, 'dns_transitions'), _note_sum(rep, 'radius_transitions')
    rep.extra['states'] = sd + sr
    rep.extra['transitions'] = td + tr
    rep.extra['traces_validated_against_impl'] = td + tr
    rep.extra['dns'] = {'distinct_messages': sd, 'add_operations': td,
                        'adds_ok': _note_sum(rep, 'dns_adds_ok'), 'adds_failed': _note_sum(rep, 'dns_adds_failed'),
                        'adds_failed_though_fitting(not enforced)': _note_sum(rep, 'dns_adds_failed_though_fitting'),
                        'sequences': _note_sum(rep, 'dns_sequences'),
                        'names_over_253_accepted(not enforced)': _note_sum(rep, 'dns_overlong_names_accepted'),
                        'names_over_253_rejected': _note_sum(rep, 'dns_overlong_names_rejected')}
    rep.extra['radius'] = {'distinct_packets': sr, 'builder_calls': tr,
                           'corrupted_packets_decided': _note_sum(rep, 'radius_corruptions'),
                           'corruptions_reference_rejects': _note_sum(rep, 'radius_corruptions_ref_reject'),
                           'corruptions_reference_accepts(unprotected byte)': _note_sum(rep, 'radius_corruptions_ref_accept'),
                           'corruptions_not_compared(receiver-defined)': _note_sum(rep, 'radius_corruptions_unspecified'),
                           'corruptions_not_compared_because_code_became_12_13_43': _note_sum(rep, 'radius_corruptions_unspecified_code_flip'),
                           'wrong_secret_trials': _note_sum(rep, 'radius_wrong_secret_trials'),
                           'wrong_secret_reference_accepts(Access-Request without Message-Authenticator)': _note_sum(rep, 'radius_wrong_secret_ref_accept'),
                           'duplicate_adds_refused': _note_sum(rep, 'radius_duplicate_adds_refused'),
                           'duplicate_adds_accepted(not enforced)': _note_sum(rep, 'radius_duplicate_adds_accepted')}
    rep.notes = [n for n in rep.notes if n.startswith('optrr_') or n.startswith('deadline') or n.startswith('shard')]
    rep.finish(core.make_replayer(lambda cfg: bins[cfg], tier))


def replay(r, tier):
    """./check C15 --replay replay/C15/<x>.replay : rebuild and re-run the single recorded case."""
    bins, _ = _build(tier)
    b = bins.get(r.get('config') or ('dns' if r['target'].startswith(('dns', 'Domain')) else 'radius'))
    p = subprocess.run([b, '--tier', tier, '--only', '%s#%s' % (r['target'], r['index'])], capture_output=True, timeout=600)
    hit = False
    for line in p.stdout.decode('utf-8', 'replace').splitlines():
        f = line.split('\t')
        if f[0] == 'VIOL':
            print(line)
            if f[1] == r['target'] and f[2] == r['clause']:
                hit = True
    print('VIOLATION property=%s reproduced' % PROP if hit else 'not reproduced')
    return 1 if hit else 0
