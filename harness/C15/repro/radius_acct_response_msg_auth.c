/* C15 finding F2: radius_pkt_verify() rejects an Accounting-Response carrying a Message-Authenticator
 * that radius_pkt_sign() itself produced (and that FreeRADIUS-style peers produce).
 *
 * sign:   radius_pkt_attr_msg_authenticator_update(..., pkt_authenticator_inside = 1, ...) feeds
 *         pkt->authenticator, which radius_pkt_reply_init() filled with the REQUEST authenticator.
 * verify: radius_pkt_attr_msg_authenticator_calc(..., 0, pkt_req, ...), case
 *         RADIUS_PKT_TYPE_ACCOUNTING_RESPONSE, uses the request authenticator only when
 *         pkt_req->code == STATUS_SERVER and otherwise falls through to the Accounting-REQUEST rule
 *         (16 zero bytes)  ->  HMAC mismatch, EBADMSG.
 *
 * gcc -w -D_GNU_SOURCE -DHAVE_EXPLICIT_BZERO -DHAVE_MEMRCHR -DHAVE_MEMMEM -DHAVE_REALLOCARRAY \
 *     -DHAVE_STRNCASECMP -DHAVE_PIPE2 -DHAVE_ACCEPT4 -I/repo/include radius_acct_response_msg_auth.c \
 *     -o /tmp/radius_acct_response_msg_auth && /tmp/radius_acct_response_msg_auth   (exit 1 while present)
 */
#include <errno.h>
#include <stdio.h>
#include "proto/radius.h"

int
main(void) {
	uint8_t rbuf[256], abuf[256], secret[] = "s3cret";
	rad_pkt_hdr_p req = (rad_pkt_hdr_p)rbuf, rsp = (rad_pkt_hdr_p)abuf;
	size_t rsize = 0, asize = 0;
	int rc;

	/* Accounting-Request, signed (its Request Authenticator becomes non-zero) */
	radius_pkt_init(req, sizeof(rbuf), &rsize, RADIUS_PKT_TYPE_ACCOUNTING_REQUEST, 7, NULL);
	radius_pkt_attr_add(req, sizeof(rbuf), &rsize, RADIUS_ATTR_TYPE_USER_NAME, 3, (uint8_t *)"bob", NULL);
	rc = radius_pkt_sign(req, sizeof(rbuf), &rsize, secret, 6, 0);
	printf("request : sign rc=%d, chk=%d, verify=%d\n", rc, radius_pkt_chk(req, rsize), radius_pkt_verify(req, secret, 6, NULL));
	/* Accounting-Response with Message-Authenticator, built and signed by the library */
	radius_pkt_reply_init(rsp, sizeof(abuf), &asize, RADIUS_PKT_TYPE_ACCOUNTING_RESPONSE, req);
	rc = radius_pkt_sign(rsp, sizeof(abuf), &asize, secret, 6, 1 /* add Message-Authenticator */);
	printf("response: sign rc=%d, chk=%d\n", rc, radius_pkt_chk(rsp, asize));
	rc = radius_pkt_verify(rsp, secret, 6, req);
	printf("response: radius_pkt_verify(own packet, right secret, its request) = %d (%s)\n", rc, strerror(rc));
	return (0 != rc);
}
