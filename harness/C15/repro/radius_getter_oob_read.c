/* C15 observation O2 (memory safety of a getter, outside what C15 states - probably C13's business):
 * radius_pkt_attr_get_data_to_buf() advances `offset` behind the last matching attribute and calls
 * radius_pkt_attr_find(pkt, offset == packet length, ...) -> radius_pkt_attr_get_from_offset(), which accepts
 * offset == pkt_size and then evaluates RADIUS_PKT_ATTR_NEXT(attr), i.e. reads attr->len at pkt[pkt_size + 1].
 *
 * gcc -w -g -fsanitize=address -D_GNU_SOURCE -DHAVE_EXPLICIT_BZERO -DHAVE_MEMRCHR -DHAVE_MEMMEM -DHAVE_REALLOCARRAY \
 *     -DHAVE_STRNCASECMP -DHAVE_PIPE2 -DHAVE_ACCEPT4 -I/repo/include radius_getter_oob_read.c -o /tmp/radius_getter_oob_read \
 *     && /tmp/radius_getter_oob_read      (ASan: heap-buffer-overflow READ of size 1, 1 byte after the 25-byte region)
 */
#include <errno.h>
#include <stdio.h>
#include <stdlib.h>
#include "proto/radius.h"

int
main(void) {
	uint8_t tmp[64], *exact, out[16], ra[16] = { 0 };
	size_t size = 0, got = 0;
	radius_pkt_init((rad_pkt_hdr_p)tmp, sizeof(tmp), &size, RADIUS_PKT_TYPE_ACCESS_REQUEST, 1, ra);
	radius_pkt_attr_add((rad_pkt_hdr_p)tmp, sizeof(tmp), &size, RADIUS_ATTR_TYPE_USER_NAME, 3, (uint8_t *)"bob", NULL);
	exact = malloc(size);			/* the packet exactly as received: 25 bytes */
	memcpy(exact, tmp, size);
	printf("chk=%d\n", radius_pkt_chk((rad_pkt_hdr_p)exact, size));
	printf("get_data_to_buf rc=%d\n", radius_pkt_attr_get_data_to_buf((rad_pkt_hdr_p)exact, 0, 0, RADIUS_ATTR_TYPE_USER_NAME, out, sizeof(out), &got));
	printf("got %zu bytes\n", got);
	free(exact);
	return (0);
}
