/* C15 finding F1: radius_pkt_attr_add(RADIUS_ATTR_TYPE_USER_PASSWORD) can never succeed.
 *
 * include/proto/radius.h, radius_pkt_attr_add(), case RADIUS_ATTR_TYPE_USER_PASSWORD:
 *     error = radius_pkt_attr_password_encode(NULL, NULL, len, NULL, 0, NULL, 0, &tm);   // "Calc size"
 *     if (0 != error) return (error);
 * radius_pkt_attr_password_encode() returns EOVERFLOW whenever the padded length (>= 16) exceeds
 * buf_size, and buf_size is 0 in this call, so the size calculation always "fails".
 *
 * gcc -w -D_GNU_SOURCE -DHAVE_EXPLICIT_BZERO -DHAVE_MEMRCHR -DHAVE_MEMMEM -DHAVE_REALLOCARRAY \
 *     -DHAVE_STRNCASECMP -DHAVE_PIPE2 -DHAVE_ACCEPT4 -I/repo/include radius_password_add.c -o /tmp/radius_password_add \
 *     && /tmp/radius_password_add     (exit status 1 and "rc=75" while the defect is present)
 */
#include <errno.h>
#include <stdio.h>
#include "proto/radius.h"

int
main(void) {
	uint8_t buf[4096], ra[16] = { 1, 2, 3, 4, 5, 6, 7, 8, 9, 10, 11, 12, 13, 14, 15, 16 };
	rad_pkt_hdr_p pkt = (rad_pkt_hdr_p)buf;
	size_t size = 0, off = 0;
	int rc;

	rc = radius_pkt_init(pkt, sizeof(buf), &size, RADIUS_PKT_TYPE_ACCESS_REQUEST, 1, ra);
	printf("radius_pkt_init rc=%d size=%zu\n", rc, size);
	rc = radius_pkt_attr_add(pkt, sizeof(buf), &size, RADIUS_ATTR_TYPE_USER_PASSWORD, 6, (uint8_t *)"secret", &off);
	printf("radius_pkt_attr_add(User-Password, 6 bytes) into a 4096-byte buffer: rc=%d (%s), packet length %u\n",
	    rc, strerror(rc), RADIUS_PKT_HDR_LEN_GET(pkt));
	return (0 != rc);
}
