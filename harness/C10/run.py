import os, itertools
from vlib import core, e1

BS = [('0', '0'), ('SKIP', 'F_SKIP'), ('DIR', 'F_DIR'), ('SYNC', 'F_SYNC'), ('SYNC+USL', 'F_SYNC|F_USL'),
      ('SYNC+SKIP', 'F_SYNC|F_SKIP'), ('SYNC+DIR', 'F_SYNC|F_DIR'),
      ('SKIP+DIR', 'F_SKIP|F_DIR'), ('SYNC+SKIP+DIR', 'F_SYNC|F_SKIP|F_DIR')]      # both self flags: skip wins, the caller is not targeted
CB = [('0', '0'), ('SKIP', 'F_SKIP'), ('DIR', 'F_DIR'), ('OBO', 'F_OBO'), ('OBO+SKIP', 'F_OBO|F_SKIP'), ('OBO+DIR', 'F_OBO|F_DIR'),
      ('SKIP+DIR', 'F_SKIP|F_DIR'), ('OBO+SKIP+DIR', 'F_OBO|F_SKIP|F_DIR')]
CALLER = {0: 'ext', 1: 'w0', 2: 'wlast', 3: 'otherpool'}
NOTRUN = {0: 'allrun', 1: 't0-notstarted', 2: 'tlast-detached', 3: 't0-was-the-caller', 4: 'all-in-stop-hook', 5: 'caller-queue-full', 6: 'caller-detached-itself', 7: 'tlast-busy-detached-from-outside'}


def variants():
    out = []
    for W in (1, 2, 3, 4, 16):
        for caller in (0, 1, 2, 3):
            if caller == 2 and W == 1:
                continue
            if caller == 3 and W > 3:
                continue
            for api, fl in [(0, f) for f in BS] + [(1, f) for f in CB]:
                if api == 1 and caller == 0:
                    continue            # cbsend needs an originating pool thread
                sync = api == 0 and 'SYNC' in fl[0]
                if sync and caller in (1, 2) and not ('SKIP' in fl[0] or 'DIR' in fl[0]):
                    continue            # documented: a pool thread cannot wait synchronously for itself
                if W == 16 and fl[0] not in ('0', 'SYNC', 'SKIP', 'OBO', 'SYNC+DIR'):
                    continue
                for notrun in (0, 1, 2, 3, 4, 5, 6, 7):
                    if caller == 3 and notrun not in (0, 2):
                        continue        # a thread of a second pool broadcasts: all running / last thread detached
                    if notrun == 6 and (caller == 0 or api != 0 or W not in (2, 3) or fl[0] not in ('0', 'SKIP', 'SYNC+SKIP')):
                        continue        # a pool thread that has just detached itself broadcasts (no self-direct forms: nothing says what a direct call to oneself means then)
                    if notrun == 7 and (caller >= 2 or W not in (2, 3)):
                        continue
                    if notrun == 5 and (caller != 1 or W not in (2, 3)):
                        continue        # a pool thread with a really full queue broadcasts (the default schedule decides where it is full)
                    if notrun == 4 and (caller != 0 or api != 0 or W not in (2, 3)):
                        continue        # an outside caller broadcasts to a pool whose workers are all between loop and stop
                    if notrun == 3 and (caller != 0 or W == 1 or W > 3):
                        continue        # the outside caller ran pool thread 0 itself (attach_first) and left it again
                    if notrun == 1 and (caller == 1 or W == 1):
                        continue        # caller must be running / keep one running thread
                    if notrun == 2 and (caller == 2 or W == 1):
                        continue
                    for faults in (0, 1):
                        if notrun == 5 and faults:
                            continue
                        name = '%s/W%d/%s/%s/%s/%s' % ('bsend' if api == 0 else 'cbsend', W, CALLER[caller], fl[0],
                                                       NOTRUN[notrun], 'wfault' if faults else 'nofault')
                        out.append((name, W, caller, api, fl[1], notrun, faults))
    return out


def gen_header(path, vs):
    with open(path, 'w') as f:
        f.write('static const bvar_t variants[] = {\n')
        for v in vs:
            f.write('\t{ %d, %d, %d, %s, %d, %d },\n' % v[1:])
        f.write('};\nconst sc_scenario_t sc_scenarios[] = {\n')
        for i, v in enumerate(vs):
            f.write('\t{ "%s", bcast_scenario, %d },\n' % (v[0], i))
        f.write('};\nconst int sc_nscenarios = %d;\n' % len(vs))


def plan(tier, vs):
    """(scenario name, bound_p, bound_f) list.  Bounds chosen so that every tier completes."""
    jobs = []
    for v in vs:
        name, W, caller, api, fl, notrun, faults = v
        if notrun == 5:                  # ~130 sends per execution: the default schedule (thorough: one preemption)
            jobs.append((name, 0 if tier == 'quick' else 1, 0))
            continue
        if tier == 'quick':
            if W == 2 and not faults:
                jobs.append((name, 2, 2))
            elif W == 2 and faults:
                jobs.append((name, 1, 1))
            elif W == 3 and not faults and notrun == 0:
                jobs.append((name, 1, 1))
            elif W == 1 and not faults:
                jobs.append((name, 2, 2))
        else:
            if W <= 2:
                jobs.append((name, 3 if not faults else 2, 2))
            elif W == 3:
                jobs.append((name, 2 if not faults else 1, 2))
            elif W == 16:
                if not faults:
                    jobs.append((name, 1, 0))
            else:
                jobs.append((name, 1, 1))
    return jobs


def run(tier):
    rep = core.Report('C10', tier, 'model_checking',
        'stateless deviation-bounded DFS over schedules and write() faults of the real pool code; one case = one complete '
        'execution of a broadcast scenario; non-trivial = any execution other than the default schedule')
    vs = variants()
    bdir = core.build_dir('C10')
    gen_header(os.path.join(bdir, 'c10_variants.h'), vs)
    b = e1.build('C10', 'h_c10', ['harness/C10/h_c10.c'], ['-I' + bdir])
    e1.run_jobs(rep, b, plan(tier, vs), tier)
    e1.finish(rep, b, tier)


def replay(r, tier):
    vs = variants()
    bdir = core.build_dir('C10')
    gen_header(os.path.join(bdir, 'c10_variants.h'), vs)
    b = e1.build('C10', 'h_c10', ['harness/C10/h_c10.c'], ['-I' + bdir])
    return e1.replay(b, r)
