/* C10 - broadcasts reach each running thread once; completion fires once, after all.
 * Scenarios for the E1 explorer (engines/sched).  Real threadpool.c / threadpool_msg_sys.c. */
#include "tp/tp_common.h"

typedef struct bvar_s {
	int	W;		/* workers */
	int	caller;		/* 0 = external thread, 1 = worker 0 (via a seed message), 2 = worker W-1,
				 * 3 = the only thread of a second pool (outside the target pool, but tpt_get_current() is not NULL there) */
	int	api;		/* 0 = tpt_msg_bsend_ex, 1 = tpt_msg_cbsend */
	uint32_t flags;
	int	notrun;		/* 0 all running; 1 thread 0 never started (skip_first); 2 last thread detached before the call;
				 * 3 the caller itself ran thread 0 through tp_thread_attach_first() and was detached again;
				 * 4 tp_shutdown() was called and every worker has left its loop and sits in its stop hook;
				 * 5 all running, but the calling pool thread's own queue is full (one-page pipes, filled by the caller
				 *   itself right before the call): the kernel, not an injected errno, refuses the caller's own slot;
				 * 6 the calling pool thread detached itself (tp_thread_dettach(self)) in the callback that makes the call;
				 * 7 the last thread is busy in a callback when the set-up detaches it from outside (tp_thread_dettach
				 *   from a foreign thread returned), the broadcast follows at once, then the callback is let go */
	int	faults;		/* write() fault menu on during the broadcast call */
} bvar_t;

#define F_SKIP	TP_BMSG_F_SELF_SKIP
#define F_DIR	TP_MSG_F_SELF_DIRECT
#define F_SYNC	TP_BMSG_F_SYNC
#define F_USL	TP_BMSG_F_SYNC_USLEEP
#define F_OBO	TP_CBMSG_F_ONE_BY_ONE

static const bvar_t *cur;
static volatile int in_cb[40];		/* callback currently executing on thread n */
static volatile int cb_active = 0;	/* number of user callbacks currently executing (overlap detection) */
static int overlap_seen = 0;
static int caller_tnum = -1;		/* thread number of the caller, -1 external */
static int caller_tid = -1;		/* scheduler thread that made the call */
static tp_p tp2 = NULL;			/* caller 3: the caller's own pool */
static int call_rc = -1;
static size_t call_sent = 9999, call_err = 9999;
static int done_cnt = 0, done_tid = -1, done_ev = -1;
static size_t done_sent = 0, done_err = 0;
static int call_ret_ev = -1;

static void
user_cb(tpt_p tpt, void *udata) {
	int n = (int)tpt_get_num(tpt);
	tpt_p curt = tpt_get_current();

	if (tpt_get_tp(tpt) != tpc_tp) {	/* "runs the callback ... on every running pool thread it targets": a thread of another pool is not one */
		sc_fail("cb-on-foreign-thread", "the callback ran with a thread of another pool as its thread argument (on T%d)", sc_self());
		return;
	}
	tpc_add(E_CB_BEGIN, n, (long)(intptr_t)udata, (NULL != curt) ? (long)tpt_get_num(curt) : -1, 0);
	if (cb_active > 0)
		overlap_seen = 1;
	cb_active ++;
	sc_point("in-user-cb");		/* lets another thread run while this callback is "working" */
	cb_active --;
	tpc_add(E_CB_END, n, (long)(intptr_t)udata, 0, 0);
}

static void
done_cb(tpt_p tpt, size_t send_msg_cnt, size_t error_cnt, void *udata) {
	done_ev = tpc_add(E_DONE, (int)tpt_get_num(tpt), (long)send_msg_cnt, (long)error_cnt, (long)(intptr_t)udata);
	done_cnt ++;
	done_tid = sc_self();
	done_sent = send_msg_cnt;
	done_err = error_cnt;
}

/* The call is made from its own frame so that the frame is dead afterwards. */
static void __attribute__((noinline))
do_call(tpt_p src) {
	size_t sent = 7777, err = 7777;
	int rc;

	tpc_add(E_CALL_BEGIN, caller_tnum, (long)cur->api, (long)cur->flags, 0);
	caller_tid = sc_self();
	if (cur->faults)
		sc_fault_mask = SC_F_WRITE;
	if (0 == cur->api) {
		rc = tpt_msg_bsend_ex(tpc_tp, src, cur->flags, user_cb, (void *)(intptr_t)42, &sent, &err);
	} else {
		rc = tpt_msg_cbsend(tpc_tp, src, cur->flags, user_cb, (void *)(intptr_t)42, done_cb);
		sent = err = 0;
	}
	sc_fault_mask = 0;
	call_rc = rc;
	call_sent = sent;
	call_err = err;
	call_ret_ev = tpc_add(E_CALL_RET, caller_tnum, (long)rc, (long)sent, (long)err);
}

static int fill_accepted = 0;
static void
filler_cb(tpt_p tpt, void *udata) { (void)tpt; (void)udata; }

static void
caller_seed_cb(tpt_p tpt, void *udata) {
	(void)udata;
	caller_tnum = (int)tpt_get_num(tpt);
	if (6 == cur->notrun)
		tp_thread_dettach(tpt);	/* "not running" from here on; the thread leaves its loop when this callback returns */
	if (5 == cur->notrun) {	/* fill the own queue to the last packet */
		int k;
		for (k = 0; k < 400 && 0 == tpt_msg_send(tpt, tpt, 0, filler_cb, NULL); k ++)
			fill_accepted ++;
		if (k >= 400) sc_fail("harness", "the caller's queue never became full");
		sc_log("caller filled its own queue with %d messages", fill_accepted);
	}
	do_call(NULL);
	tpc_scribble();
}

static void
caller_otherpool_cb(tpt_p tpt, void *udata) {	/* runs on the second pool's thread: a caller outside the target pool */
	(void)tpt; (void)udata;
	caller_tnum = -1;
	do_call(NULL);
	tpc_scribble();
}

static void
detach_cb(tpt_p tpt, void *udata) {
	(void)udata;
	tp_thread_dettach(tpt);	/* documented way for a thread to leave its loop */
}

static void
bcast_scenario(int idx);

static volatile int busy_gate = 0;
static void
busy_cb(tpt_p tpt, void *udata) {	/* keeps a thread inside a callback until the scenario lets it go */
	(void)tpt; (void)udata;
	sc_gate_wait(&busy_gate, "busy-callback");
}

static volatile int stop_gate = 0;
static void
c10_stop_extra(tpt_p tpt) {	/* the workers' stop hooks wait here: out of their loops, not yet stopped */
	if ((int)tpt_get_num(tpt) < tpc_W)
		sc_gate_wait(&stop_gate, "stop-hook");
}

void *
c10_detach_sender(void *arg) {	/* queues the detach message for thread 0 as soon as the attaching thread made it sendable */
	int i;
	(void)arg;
	for (i = 0; i < 50; i ++) {
		if (0 == tpt_msg_send(tp_thread_get(tpc_tp, 0), NULL, 0, detach_cb, NULL))
			return (NULL);
		sc_yield("wait-for-attach");
	}
	sc_fail("harness", "thread 0 never became sendable");
	return (NULL);
}

#include "c10_variants.h"	/* generated: static const bvar_t variants[]; scenario table */

static void
bcast_scenario(int idx) {
	const bvar_t *v = &variants[idx];
	int i, running[40], targeted[40], ntarget = 0, nrun_target = 0, cbs, total_cb = 0, rc;
	int sync = (0 == v->api && 0 != (v->flags & F_SYNC));

	cur = v;
	if (5 == v->notrun)
		sc_small_pipes = 1;
	if (3 == v->notrun) {
		pthread_t helper;
		rc = tpc_create(v->W);
		if (0 != rc) sc_fail("harness", "tp_create rc=%d", rc);
		rc = tp_threads_create(tpc_tp, 1);
		if (0 != rc) sc_fail("harness", "tp_threads_create rc=%d", rc);
		pthread_create(&helper, NULL, c10_detach_sender, NULL);
		rc = tp_thread_attach_first(tpc_tp);	/* this thread is pool thread 0 until the detach message arrives */
		if (0 != rc) sc_fail("harness", "attach_first rc=%d", rc);
		pthread_join(helper, NULL);
		sc_wait_quiescent();
	} else if (4 == v->notrun) {
		stop_gate = 0;
		tpc_stop_extra = c10_stop_extra;
		tpc_up(v->W, 0);
		tp_shutdown(tpc_tp);
		sc_wait_quiescent();	/* every worker took its shutdown message and is parked in its stop hook */
	} else
		tpc_up(v->W, (1 == v->notrun));
	for (i = 0; i < v->W; i ++)
		running[i] = (4 != v->notrun);
	if (1 == v->notrun || 3 == v->notrun)
		running[0] = 0;
	if (7 == v->notrun) {
		busy_gate = 0;
		rc = tpt_msg_send(tp_thread_get(tpc_tp, (size_t)(v->W - 1)), NULL, 0, busy_cb, NULL);
		if (0 != rc) sc_fail("harness", "busy send rc=%d", rc);
		sc_wait_quiescent();	/* the last thread is parked inside the callback */
		rc = tp_thread_dettach(tp_thread_get(tpc_tp, (size_t)(v->W - 1)));
		if (0 != rc) sc_fail("harness", "tp_thread_dettach rc=%d", rc);
		running[v->W - 1] = 0;	/* the call returned: the thread is out of the pool as far as any later call is concerned */
	}
	if (2 == v->notrun) {
		rc = tpt_msg_send(tp_thread_get(tpc_tp, (size_t)(v->W - 1)), NULL, 0, detach_cb, NULL);
		sc_wait_quiescent();
		running[v->W - 1] = 0;
		if (0 != rc && 0 == tpt_is_running(tp_thread_get(tpc_tp, (size_t)(v->W - 1))))	/* the set-up send is a send like any other */
			sc_fail("failed-send-ran-callback", "the detach message: tpt_msg_send returned %d but the thread ran it and left its loop", rc);
		if (0 != rc)
			sc_fail("harness", "detach send rc=%d", rc);
		if (0 != tpt_is_running(tp_thread_get(tpc_tp, (size_t)(v->W - 1))))
			sc_fail("harness", "detached thread still reported running");
	}
	/* the call */
	if (3 == v->caller) {
		tp_settings_t s2;
		tp_settings_def(&s2);
		s2.flags = 0;
		s2.threads_max = 1;
		tp2 = NULL;
		rc = tp_create(&s2, &tp2);
		if (0 != rc || NULL == tp2) sc_fail("harness", "second pool: tp_create rc=%d", rc);
		rc = tp_threads_create(tp2, 0);
		if (0 != rc) sc_fail("harness", "second pool: tp_threads_create rc=%d", rc);
		sc_wait_quiescent();
		rc = tpt_msg_send(tp_thread_get(tp2, 0), NULL, 0, caller_otherpool_cb, NULL);
		if (0 != rc) sc_fail("harness", "second pool: seed send rc=%d", rc);
	} else if (0 == v->caller) {
		caller_tnum = -1;
		do_call(NULL);
		tpc_scribble();
		stop_gate = 1;
	} else {
		int ct = (1 == v->caller) ? 0 : v->W - 1;
		if (!running[ct])
			sc_fail("harness", "variant has a non-running caller");
		rc = tpt_msg_send(tp_thread_get(tpc_tp, (size_t)ct), NULL, 0, caller_seed_cb, NULL);
		if (0 != rc)
			sc_fail("harness", "seed send rc=%d", rc);
		if (6 == v->notrun)
			running[ct] = 0;
	}
	if (7 == v->notrun) {
		sc_wait_quiescent();	/* the call is over (or waits for the busy thread: then it never returns) */
		busy_gate = 1;
	}
	sc_wait_quiescent();
	tpc_scribble();

	/* ---------------- oracle ---------------- */
	if (call_ret_ev < 0)
		sc_fail("call-never-returned", "the broadcast call did not return although the system is quiescent");
	for (i = 0; i < v->W; i ++) {
		targeted[i] = 1;
		if (i == caller_tnum && 0 != (v->flags & F_SKIP))
			targeted[i] = 0;
		if (targeted[i]) {
			ntarget ++;
			if (running[i])
				nrun_target ++;
		}
	}
	/* 1-thread special case documented in the code: external callers still target the thread. */
	for (i = 0; i < v->W; i ++) {
		cbs = tpc_count(E_CB_BEGIN, i, 42);
		total_cb += cbs;
		if (cbs != tpc_count(E_CB_END, i, 42))
			sc_fail("cb-unfinished", "callback on thread %d began but did not end", i);
		if (!targeted[i] && 0 != cbs)
			sc_fail("cb-on-untargeted", "thread %d was not targeted (self-skip) but ran the callback %d time(s)", i, cbs);
		if (targeted[i] && cbs > 1)
			sc_fail("cb-duplicated", "thread %d ran the callback %d times", i, cbs);
		if (targeted[i] && !running[i] && 0 != cbs)
			sc_fail("cb-on-stopped", "thread %d is not running but the callback ran for it", i);
		/* A call that returned an error delivered nothing (checked below) and is not held to
		 * "reaches every running thread": the caller was told the broadcast failed. */
		if (targeted[i] && running[i] && !v->faults && !(5 == v->notrun && i == caller_tnum) && 0 == call_rc && 1 != cbs)
			sc_fail("cb-missing", "running thread %d was targeted but ran the callback %d time(s)", i, cbs);
	}
	if (0 != call_rc && 0 != total_cb)
		sc_fail("error-but-delivered", "the call returned %d but %d callback(s) ran", call_rc, total_cb);
	if (0 == v->api && !v->faults && nrun_target > 0 && 0 != call_rc)
		sc_fail("spurious-error", "tpt_msg_bsend_ex returned %d although %d targeted threads are running and no send failed", call_rc, nrun_target);
	/* every callback ran on the OS thread of the pool thread it names, and tpt_get_current() agreed */
	for (i = 0; i < tpc_nev; i ++) {
		if (E_CB_BEGIN != tpc_ev[i].type || 42 != tpc_ev[i].a)
			continue;
		if (tpc_ev[i].tnum < 0 || tpc_ev[i].tnum >= v->W)
			sc_fail("cb-bad-thread-arg", "callback got thread number %d", tpc_ev[i].tnum);
		if (tpc_tid_of[tpc_ev[i].tnum] != tpc_ev[i].tid)
			sc_fail("cb-wrong-os-thread", "callback for pool thread %d ran on scheduler thread T%d (its loop is T%d)",
			    tpc_ev[i].tnum, tpc_ev[i].tid, tpc_tid_of[tpc_ev[i].tnum]);
		if (tpc_ev[i].b != tpc_ev[i].tnum)
			sc_fail("cb-wrong-current", "tpt_get_current() says %ld inside the callback for thread %d", tpc_ev[i].b, tpc_ev[i].tnum);
	}
	if (0 == v->api) {
		/* counts reported by tpt_msg_bsend_ex */
		if ((int)(call_sent + call_err) != ntarget)
			sc_fail("counts-dont-add-up", "sent %zu + failed %zu != targeted %d", call_sent, call_err, ntarget);
		if ((int)call_sent != total_cb)
			sc_fail("sent-count-wrong", "reported sent %zu but %d callbacks ran", call_sent, total_cb);
		if (sync) {
			int last_end = tpc_last(E_CB_END, -1, 42);
			if (last_end > call_ret_ev)
				sc_fail("sync-returned-early", "tpt_msg_bsend_ex(SYNC) returned (event %d) before the last callback finished (event %d)", call_ret_ev, last_end);
		}
	} else {
		int last_end = tpc_last(E_CB_END, -1, 42);
		if (0 == call_rc && 1 != done_cnt)
			sc_fail("done-count", "tpt_msg_cbsend returned 0 but the completion callback ran %d time(s)", done_cnt);
		if (done_cnt > 1)
			sc_fail("done-count", "completion callback ran %d times", done_cnt);
		if (1 == done_cnt) {
			int want_tid = (caller_tnum >= 0) ? tpc_tid_of[caller_tnum] : caller_tid;
			if (done_tid != want_tid)
				sc_fail("done-wrong-thread", "completion ran on T%d, originating thread (%s %d) is T%d", done_tid, (caller_tnum >= 0) ? "pool thread" : "a thread of another pool, caller", caller_tnum, want_tid);
			if (last_end > done_ev)
				sc_fail("done-before-last-cb", "completion (event %d) ran before the last callback finished (event %d)", done_ev, last_end);
			if ((int)done_sent != total_cb)
				sc_fail("done-sent-count", "completion reports sent=%zu but %d callbacks ran", done_sent, total_cb);
			if ((int)(done_sent + done_err) != ntarget)
				sc_fail("done-counts-dont-add-up", "completion reports %zu + %zu != targeted %d", done_sent, done_err, ntarget);
		}
		if (0 != (v->flags & F_OBO)) {
			int prev = -1;
			if (overlap_seen)
				sc_fail("one-by-one-overlap", "two callbacks of a one-by-one broadcast overlapped");
			for (i = 0; i < tpc_nev; i ++) {
				if (E_CB_BEGIN != tpc_ev[i].type || 42 != tpc_ev[i].a || tpc_ev[i].tnum == caller_tnum)
					continue;
				if (tpc_ev[i].tnum <= prev)
					sc_fail("one-by-one-order", "thread %d ran after thread %d", tpc_ev[i].tnum, prev);
				prev = tpc_ev[i].tnum;
			}
		}
	}
	/* tear down; a detached thread must be collected by the harness' own knowledge: it is the pool's job */
	/* teardown is C11's subject: the execution ends here (the child process exits) */
}

int
main(int argc, char **argv) {
	return (sc_main(argc, argv));
}
