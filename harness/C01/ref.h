/*
 * ref.h - deliberately boring reference integers for the C01 oracle.
 *
 * Non-negative integers, base 2^32 limbs, little-endian, normalised (n = number of
 * significant limbs, l[i] == 0 for i >= n).  Schoolbook add/sub/mul, bit-serial
 * shift-subtract division.  Shares no code and no idea with liblcb's big_num.h
 * (different base, different division algorithm).  Validated at check time against
 * Python int (run.py --refcheck stream) and, for 8-bit digits, against native
 * uint64_t arithmetic (h_x32.c).
 *
 * Capacity: RL limbs (1152 bits): the largest intermediate the oracles need is the
 * product of two 512-bit operands.  r_ovf is set if anything ever exceeds it
 * (harness error, never silently wrong).
 */
#ifndef C01_REF_H
#define C01_REF_H
#include <stdint.h>
#include <string.h>

#ifndef RL
#define RL 36
#endif
typedef struct { int n; uint32_t l[RL]; } R;
static int r_ovf = 0;

static inline void r_norm(R *a) { while (a->n > 0 && 0 == a->l[a->n - 1]) a->n --; }
static inline void r_zero(R *a) { memset(a, 0, sizeof(*a)); }
static inline void r_set_u64(R *a, uint64_t v) {
	r_zero(a); a->l[0] = (uint32_t)v; a->l[1] = (uint32_t)(v >> 32); a->n = 2; r_norm(a);
}
static inline int r_is_zero(const R *a) { return (0 == a->n); }
static inline int r_is_one(const R *a) { return (1 == a->n && 1 == a->l[0]); }
static inline int r_fits_u64(const R *a) { return (a->n <= 2); }
static inline uint64_t r_low_u64(const R *a) { return ((uint64_t)a->l[0] | ((uint64_t)a->l[1] << 32)); }

static inline int r_cmp(const R *a, const R *b) {
	int i;
	if (a->n != b->n) return ((a->n > b->n) ? 1 : -1);
	for (i = a->n - 1; i >= 0; i --) {
		if (a->l[i] != b->l[i]) return ((a->l[i] > b->l[i]) ? 1 : -1);
	}
	return (0);
}
static inline int r_eq(const R *a, const R *b) { return (0 == r_cmp(a, b)); }

/* r = a + b (r may alias). */
static inline void r_add(R *r, const R *a, const R *b) {
	int i, n = (a->n > b->n) ? a->n : b->n;
	uint64_t c = 0;
	R t; r_zero(&t);
	for (i = 0; i < n; i ++) {
		c += (uint64_t)a->l[i] + b->l[i];
		t.l[i] = (uint32_t)c; c >>= 32;
	}
	if (c) { if (n >= RL) { r_ovf = 1; } else { t.l[n ++] = (uint32_t)c; } }
	t.n = n; r_norm(&t); *r = t;
}
/* r = a - b, requires a >= b (else r_ovf). */
static inline void r_sub(R *r, const R *a, const R *b) {
	int i; int64_t c = 0;
	R t; r_zero(&t);
	if (r_cmp(a, b) < 0) { r_ovf = 1; *r = t; return; }
	for (i = 0; i < a->n; i ++) {
		c += (int64_t)a->l[i] - (int64_t)b->l[i];
		t.l[i] = (uint32_t)c; c >>= 32; /* arithmetic shift: borrow -1 */
	}
	t.n = a->n; r_norm(&t); *r = t;
}
static inline void r_mul(R *r, const R *a, const R *b) {
	int i, j; R t; r_zero(&t);
	if (a->n + b->n > RL) { r_ovf = 1; *r = t; return; }
	for (i = 0; i < a->n; i ++) {
		uint64_t c = 0;
		for (j = 0; j < b->n; j ++) {
			c += (uint64_t)a->l[i] * b->l[j] + t.l[i + j];
			t.l[i + j] = (uint32_t)c; c >>= 32;
		}
		t.l[i + b->n] = (uint32_t)c;
	}
	t.n = a->n + b->n; r_norm(&t); *r = t;
}
static inline int r_bitlen(const R *a) {
	int b; uint32_t top;
	if (0 == a->n) return (0);
	top = a->l[a->n - 1];
	for (b = 0; top; top >>= 1) b ++;
	return ((a->n - 1) * 32 + b);
}
static inline int r_bit(const R *a, int i) {
	if (i < 0 || i / 32 >= a->n) return (0);
	return ((a->l[i / 32] >> (i % 32)) & 1);
}
static inline void r_setbit(R *a, int i, int v) {
	if (i / 32 >= RL) { if (v) r_ovf = 1; return; }
	if (v) { a->l[i / 32] |= (1u << (i % 32)); if (a->n < i / 32 + 1) a->n = i / 32 + 1; }
	else { a->l[i / 32] &= ~(1u << (i % 32)); r_norm(a); }
}
/* r = a << s */
static inline void r_shl(R *r, const R *a, int s) {
	int i, w = s / 32, b = s % 32; R t; r_zero(&t);
	if (0 == a->n) { *r = t; return; }
	if (a->n + w + 1 > RL) { if (r_bitlen(a) + s > RL * 32) { r_ovf = 1; *r = t; return; } }
	for (i = 0; i < a->n; i ++) {
		uint64_t v = (uint64_t)a->l[i] << b;
		if (i + w < RL) t.l[i + w] |= (uint32_t)v;
		if (i + w + 1 < RL) t.l[i + w + 1] |= (uint32_t)(v >> 32);
	}
	t.n = a->n + w + 1; if (t.n > RL) t.n = RL; r_norm(&t); *r = t;
}
/* r = a >> s */
static inline void r_shr(R *r, const R *a, int s) {
	int i, w = s / 32, b = s % 32; R t; r_zero(&t);
	for (i = w; i < a->n; i ++) {
		uint64_t v = (uint64_t)a->l[i] | ((i + 1 < a->n) ? ((uint64_t)a->l[i + 1] << 32) : 0);
		t.l[i - w] = (uint32_t)(v >> b);
	}
	t.n = (a->n > w) ? (a->n - w) : 0; r_norm(&t); *r = t;
}
/* r = a mod 2^bits */
static inline void r_trunc(R *r, const R *a, int bits) {
	int i; R t = *a;
	for (i = 0; i < t.n; i ++) {
		if (i * 32 >= bits) t.l[i] = 0;
		else if ((i + 1) * 32 > bits) t.l[i] &= ((1u << (bits - i * 32)) - 1);
	}
	r_norm(&t); *r = t;
}
static inline void r_shr1_ip(R *a) {
	int i;
	for (i = 0; i < a->n; i ++)
		a->l[i] = (a->l[i] >> 1) | ((i + 1 < a->n) ? (a->l[i + 1] << 31) : 0);
	r_norm(a);
}
static inline void r_sub_ip(R *a, const R *b) {	/* a -= b, a >= b */
	int i; int64_t c = 0;
	for (i = 0; i < a->n; i ++) {
		c += (int64_t)a->l[i] - (int64_t)((i < b->n) ? b->l[i] : 0);
		a->l[i] = (uint32_t)c; c >>= 32;
	}
	if (c) r_ovf = 1;
	r_norm(a);
}
/* q = a / b, m = a % b: align the divisor under the dividend, then compare-subtract and
 * move the divisor right one bit at a time (school long division in base 2).
 * b != 0 (else r_ovf). q/m may be NULL. */
static inline void r_divmod(R *q, R *m, const R *a, const R *b) {
	int i, d; R qq, rr, t; r_zero(&qq); rr = *a;
	if (0 == b->n) { r_ovf = 1; r_zero(&rr); if (q) *q = qq; if (m) *m = rr; return; }
	if (r_cmp(a, b) >= 0) {
		d = r_bitlen(a) - r_bitlen(b);
		r_shl(&t, b, d);
		for (i = d; i >= 0; i --) {
			if (r_cmp(&rr, &t) >= 0) { r_sub_ip(&rr, &t); qq.l[i / 32] |= (1u << (i % 32)); }
			r_shr1_ip(&t);
		}
		qq.n = d / 32 + 1; r_norm(&qq);
	}
	if (q) *q = qq;
	if (m) *m = rr;
}
static inline void r_mod(R *m, const R *a, const R *b) { r_divmod(NULL, m, a, b); }
static inline void r_and(R *r, const R *a, const R *b) { int i; R t; r_zero(&t); for (i = 0; i < RL; i ++) t.l[i] = a->l[i] & b->l[i]; t.n = RL; r_norm(&t); *r = t; }
static inline void r_or(R *r, const R *a, const R *b)  { int i; R t; r_zero(&t); for (i = 0; i < RL; i ++) t.l[i] = a->l[i] | b->l[i]; t.n = RL; r_norm(&t); *r = t; }
static inline void r_xor(R *r, const R *a, const R *b) { int i; R t; r_zero(&t); for (i = 0; i < RL; i ++) t.l[i] = a->l[i] ^ b->l[i]; t.n = RL; r_norm(&t); *r = t; }
static inline int r_ctz(const R *a) { int i; if (0 == a->n) return (0); for (i = 0; 0 == r_bit(a, i); i ++) ; return (i); }

/* Euclid by repeated r_mod. */
static inline void r_gcd(R *g, const R *a, const R *b) {
	R x = *a, y = *b, t;
	while (!r_is_zero(&y)) { r_mod(&t, &x, &y); x = y; y = t; }
	*g = x;
}
/* r = (a * b) mod m */
static inline void r_mulmod(R *r, const R *a, const R *b, const R *m) { R t; r_mul(&t, a, b); r_mod(r, &t, m); }
/* r = a^e mod m, m >= 1 (left-to-right square and multiply over the bits of e). */
static inline void r_powmod(R *r, const R *a, const R *e, const R *m) {
	int i; R acc, base;
	r_set_u64(&acc, 1); r_mod(&acc, &acc, m); r_mod(&base, a, m);
	for (i = r_bitlen(e) - 1; i >= 0; i --) {
		r_mulmod(&acc, &acc, &acc, m);
		if (r_bit(e, i)) r_mulmod(&acc, &acc, &base, m);
	}
	*r = acc;
}
/* r = a^e if it has at most lim_bits bits; returns 0, else returns 1 (too big, r unspecified). */
static inline int r_pow_lim(R *r, const R *a, uint64_t e, int lim_bits) {
	R acc; uint64_t k;
	r_set_u64(&acc, 1);
	if (0 == e) { *r = acc; return (0); }
	if (r_is_zero(a)) { r_zero(r); return (0); }
	if (r_is_one(a)) { *r = acc; return (0); }
	for (k = 0; k < e; k ++) {	/* a >= 2: at most lim_bits+1 rounds */
		r_mul(&acc, &acc, a);
		if (r_bitlen(&acc) > lim_bits) return (1);
	}
	*r = acc; return (0);
}
/* floor(sqrt(a)) bit by bit from the top (tries each bit, keeps it if square <= a). */
static inline void r_isqrt(R *r, const R *a) {
	int i; R x, t; r_zero(&x);
	for (i = (r_bitlen(a) + 1) / 2; i >= 0; i --) {
		r_setbit(&x, i, 1);
		r_mul(&t, &x, &x);
		if (r_cmp(&t, a) > 0) r_setbit(&x, i, 0);
	}
	*r = x;
}
/* bytes (little endian) <-> R */
static inline void r_from_le(R *r, const uint8_t *p, size_t len) {
	size_t i; r_zero(r);
	if (len > RL * 4) { r_ovf = 1; return; }
	for (i = 0; i < len; i ++) r->l[i / 4] |= ((uint32_t)p[i]) << (8 * (i % 4));
	r->n = (int)((len + 3) / 4); r_norm(r);
}
static inline void r_from_be(R *r, const uint8_t *p, size_t len) {
	size_t i; r_zero(r);
	if (len > RL * 4) { r_ovf = 1; return; }
	for (i = 0; i < len; i ++) r->l[i / 4] |= ((uint32_t)p[len - 1 - i]) << (8 * (i % 4));
	r->n = (int)((len + 3) / 4); r_norm(r);
}
static inline size_t r_bytelen(const R *a) { return ((size_t)(r_bitlen(a) + 7) / 8); }
static inline uint8_t r_byte(const R *a, size_t i) { return ((i / 4 < RL) ? (uint8_t)(a->l[i / 4] >> (8 * (i % 4))) : 0); }
/* big-endian hex, no leading zeros ("0" for zero) */
static inline const char *r_hex(const R *a, char *buf, size_t bufsz) {
	static const char hx[] = "0123456789abcdef";
	int nib = (r_bitlen(a) + 3) / 4, i; size_t o = 0;
	if (0 == nib) nib = 1;
	for (i = nib - 1; i >= 0 && o + 1 < bufsz; i --) buf[o ++] = hx[(a->l[i / 8] >> (4 * (i % 8))) & 15];
	buf[o] = 0;
	return (buf);
}
static inline int r_from_hex(R *r, const char *s) {
	size_t n = strlen(s), i; r_zero(r);
	if (n > RL * 8) return (-1);
	for (i = 0; i < n; i ++) {
		char c = s[n - 1 - i]; uint32_t v;
		if (c >= '0' && c <= '9') v = (uint32_t)(c - '0');
		else if (c >= 'a' && c <= 'f') v = (uint32_t)(c - 'a' + 10);
		else if (c >= 'A' && c <= 'F') v = (uint32_t)(c - 'A' + 10);
		else return (-1);
		r->l[i / 8] |= v << (4 * (i % 8));
	}
	r->n = RL; r_norm(r);
	return (0);
}
#endif
