/* bn_and() keeps the high digits of bn when n is shorter: 0x1_0000000000000000_0000000000000001 & 0x1 != 1.
 * cc -I/repo/include bn_and_high_digits.c -o /tmp/r && /tmp/r   (exit 1 = defect present) */
#include <sys/param.h>
#include <errno.h>
#include <stdio.h>
#include <stdlib.h>
#include <string.h>
#include "math/big_num.h"

int main(void) {
	bn_t a, b;
	bn_init(&a, 256); bn_init(&b, 256);
	bn_assign_digit(&a, 1); bn_l_shift(&a, 128); bn_add_digit(&a, 1, NULL);	/* a = 2^128 + 1 (3 digits) */
	bn_assign_digit(&b, 1);							/* b = 1 */
	if (0 != bn_and(&a, &b)) return (2);
	printf("(2^128+1) & 1: digits=%zu num[2]=%llu num[0]=%llu (want digits=1, value 1)\n", a.digits,
	    (unsigned long long)a.num[2], (unsigned long long)a.num[0]);
	return ((1 == a.digits && 1 == a.num[0]) ? 0 : 1);
}
