/* bn_digits_export_le_bin(): the bound for "the missing top bytes are zero" is 1 << (1 + ddiff*8); it must be
 * 1 << ((BN_DIGIT_SIZE - ddiff) * 8).  Wrong in both directions (DESIGN.md suspect #10):
 *   2^32 into 4 bytes: rc 0, bytes 00 00 00 00 (silent truncation);  0x1234 into 7 bytes: EOVERFLOW although it fits.
 * cc -I/repo/include bn_export_le_bin_truncation.c -o /tmp/r && /tmp/r   (exit 1 = defect present) */
#include <sys/param.h>
#include <errno.h>
#include <stdio.h>
#include <stdlib.h>
#include <string.h>
#include "math/big_num.h"

int main(void) {
	bn_t a; uint8_t buf[8]; size_t n = 0; int rc, bad = 0;
	bn_init(&a, 64); bn_assign_digit(&a, 0x100000000ull);
	memset(buf, 0xee, sizeof(buf));
	rc = bn_export_le_bin(&a, 0, buf, 4, &n);
	printf("2^32 -> 4 bytes: rc=%d n=%zu bytes=%02x %02x %02x %02x (want an error)\n", rc, n, buf[0], buf[1], buf[2], buf[3]);
	if (0 == rc) bad = 1;
	bn_assign_digit(&a, 0x1234);
	rc = bn_export_le_bin(&a, 0, buf, 7, &n);
	printf("0x1234 -> 7 bytes: rc=%d (EOVERFLOW=%d; fits, so 0 expected - a loud failure, not a wrong value)\n", rc, EOVERFLOW);
	return (bad);
}
