/* bn_r_shift(): shifting a small value by more bits than it has digits wraps a size_t:
 *  (a) bits/8 > digits*BN_DIGIT_SIZE -> memmove(..., (count*BN_DIGIT_SIZE) - i) with a negative size;
 *  (b) bits > BN_DIGIT_BITS and bits/8 == digits*BN_DIGIT_SIZE -> count becomes 0 and the loop runs to count-1 = SIZE_MAX.
 * The mathematical result is 0.  (The guard "#if 0 if ((bn->digits * BN_DIGIT_BITS) <= bits) assign_zero" is disabled.)
 * cc -I/repo/include bn_r_shift_crash.c -o /tmp/r; /tmp/r a; /tmp/r b   (killed by SIGSEGV = defect present) */
#include <sys/param.h>
#include <errno.h>
#include <stdio.h>
#include <stdlib.h>
#include <string.h>
#include "math/big_num.h"

int main(int argc, char **argv) {
	bn_t a;
	bn_init(&a, 256); bn_assign_digit(&a, 1);
	if (argc > 1 && 'b' == argv[1][0]) bn_r_shift(&a, 65); else bn_r_shift(&a, 128);
	printf("1 >> n = digits %zu (want 0)\n", a.digits);
	return (0 != a.digits);
}
