/* bn_calc_jsf() reads tmA.num[0] / tmB.num[0] of its stack copies even when the operand is zero; bn_assign_init() copies
 * only `digits` digits, so for a zero operand that digit is uninitialised stack.  Depending on the garbage the row of
 * the zero operand comes back non-zero (wrong recoding, rc 0) or the loop does not stop when the operands are
 * exhausted and writes past jsf_arr.  The stack is painted here to make the garbage reproducible.
 * cc -O1 -I/repo/include bn_calc_jsf_zero_operand.c -o /tmp/r && /tmp/r   (exit 1 or death by SIGSEGV = defect present) */
#include <sys/param.h>
#include <errno.h>
#include <stdio.h>
#include <stdlib.h>
#include <string.h>
#include "math/big_num.h"
__attribute__((noinline)) static void paint(int c) { volatile uint8_t a[8192]; memset((void *)a, c, sizeof(a)); __asm__ volatile ("" : : "r"(a) : "memory"); }
__attribute__((noinline)) static int call(bn_p a, bn_p b, size_t size, int8_t *arr, size_t *cnt, size_t *off) { return (bn_calc_jsf(a, b, size, arr, cnt, off)); }
int main(void) {
	bn_t a, b; int8_t arr[4096]; size_t cnt = 0, off = 0, i; int rc, bad = 0; long v = 0;
	setvbuf(stdout, NULL, _IONBF, 0);
	bn_init(&a, 64); bn_init(&b, 64); bn_assign_digit(&b, 1);	/* a = 0, b = 1 */
	printf("calling bn_calc_jsf(0, 1) with a 4-entry array on a painted stack ...\n");
	memset(arr, 0x55, sizeof(arr));
	paint(0xA5);
	rc = call(&a, &b, 4, arr, &cnt, &off);		/* 2 * (max bits + 1) = 4 entries are what the function asks for */
	for (i = 0; i < cnt && i < 60; i ++) v += (long)arr[i] << i;
	printf("JSF(0, 1): rc=%d items=%zu, row of the zero operand evaluates to %ld (want 0)\n", rc, cnt, v);
	if (0 == rc && 0 != v) bad = 1;
	bn_assign_digit(&b, 2);
	memset(arr, 0x55, sizeof(arr));
	paint(0xA5);
	rc = call(&a, &b, 6, arr, &cnt, &off);		/* b = 2: 2 * (2 + 1) = 6 entries */
	for (i = 6; i < sizeof(arr); i ++) if (0x55 != arr[i]) break;
	printf("JSF(0, 2) into 6 entries: rc=%d items=%zu offset=%zu, first byte written past the 6 entries: %s\n", rc, cnt, off,
	    (i < sizeof(arr)) ? "yes (overflow)" : "none");
	if (i < sizeof(arr)) bad = 1;
	return (bad);
}
