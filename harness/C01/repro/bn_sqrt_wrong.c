/* bn_sqrt() (= bn_sqrt1) starts from bit = 2^bitlen(bn), which is an ODD power of two whenever bitlen is odd; the
 * digit-by-digit method needs a power of four.  sqrt(1) = 0, sqrt(19) = 6, sqrt(25) = 6 ...
 * cc -I/repo/include bn_sqrt_wrong.c -o /tmp/r && /tmp/r   (exit 1 = defect present) */
#include <sys/param.h>
#include <errno.h>
#include <stdio.h>
#include <stdlib.h>
#include <string.h>
#include "math/big_num.h"

int main(void) {
	unsigned long long v, r; int bad = 0;
	for (v = 1; v < 200; v ++) {
		bn_t a; int rc;
		bn_init(&a, 128); bn_assign_digit(&a, v);
		rc = bn_sqrt(&a);
		r = a.digits ? a.num[0] : 0;
		if (0 == rc && !(r * r <= v && v < (r + 1) * (r + 1))) {
			if (bad < 8) printf("bn_sqrt(%llu): rc=0 result=%llu\n", v, r);
			bad ++;
		}
	}
	printf("%d of 199 arguments give rc=0 with a wrong root\n", bad);
	return (bad ? 1 : 0);
}
