/* bn_is_bit_set() reads num[0] without looking at digits for bit < BN_DIGIT_BITS: a bn that is zero
 * (bn_assign_zero only resets digits) still reports the bits of its previous value.
 * cc -I/repo/include bn_is_bit_set_stale.c -o /tmp/r && /tmp/r   (exit 1 = defect present) */
#include <sys/param.h>
#include <errno.h>
#include <stdio.h>
#include <stdlib.h>
#include <string.h>
#include "math/big_num.h"

int main(void) {
	bn_t a; int bit;
	bn_init(&a, 128); bn_assign_digit(&a, 5);
	bn_assign_zero(&a);
	bit = bn_is_bit_set(&a, 0);
	printf("a = 5; a = 0; bn_is_zero=%d bn_is_bit_set(a, 0)=%d (want 0)\n", bn_is_zero(&a), bit);
	return (bit ? 1 : 0);
}
