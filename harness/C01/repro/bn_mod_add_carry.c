/* bn_mod_add() adds with carry == NULL; when bn's capacity equals the size of the modulus the carry is lost:
 * (m-1) + (m-1) mod m with m = 2^64-59 in a 64-bit bn returns 0 and a wrong residue.
 * cc -I/repo/include bn_mod_add_carry.c -o /tmp/r && /tmp/r   (exit 1 = defect present) */
#include <sys/param.h>
#include <errno.h>
#include <stdio.h>
#include <stdlib.h>
#include <string.h>
#include "math/big_num.h"

int main(void) {
	bn_t a, b, m; int rc;
	bn_init(&a, 64); bn_init(&b, 64); bn_init(&m, 64);
	bn_assign_digit(&m, 0xffffffffffffffc5ull);		/* prime 2^64-59 */
	bn_assign_digit(&a, 0xffffffffffffffc4ull);		/* m-1 */
	bn_assign_digit(&b, 0xffffffffffffffc4ull);
	rc = bn_mod_add(&a, &b, &m, NULL);
	printf("(m-1)+(m-1) mod m: rc=%d value=0x%llx want 0x%llx (m-2)\n", rc, (unsigned long long)a.num[0], 0xffffffffffffffc3ull);
	return ((0 == rc && 0xffffffffffffffc3ull != a.num[0]) ? 1 : 0);
}
