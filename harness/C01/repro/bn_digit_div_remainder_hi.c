/* Portable bn_digit_div__int() (BN_CC_MULL_DIV undefined), power-of-two divisor shortcut: remainder_hi is set to
 * dividend_hi & mask instead of 0.  bn_digit_div(0, 1, 2): remainder must be 0:0.
 * cc -I/repo/include -DBN_DIGIT_BIT_CNT=64 bn_digit_div_remainder_hi.c -o /tmp/r && /tmp/r   (exit 1 = defect present) */
#include <sys/param.h>
#include <errno.h>
#include <stdio.h>
#include <stdlib.h>
#include <string.h>
#include "math/big_num.h"

int main(void) {
	bn_digit_t ql, qh, rl, rh; int rc;
	rc = bn_digit_div(0, 1, 2, &ql, &qh, &rl, &rh);	/* 2^64 / 2 */
	printf("2^64 / 2: rc=%d q=%llu:%llu r=%llu:%llu (want q=0:2^63 r=0:0)\n", rc, (unsigned long long)qh, (unsigned long long)ql,
	    (unsigned long long)rh, (unsigned long long)rl);
	return ((0 == rc && 0 != rh) ? 1 : 0);
}
