/* bn_import_le_bin()/bn_import_be_bin() into a bn that holds a longer value: bn_update_digits__int(bn, new) takes the
 * "digits < bn->digits" branch and rescans the OLD digit range, so the old high digits become part of the new value.
 * cc -I/repo/include bn_import_bin_keeps_old_digits.c -o /tmp/r && /tmp/r   (exit 1 = defect present) */
#include <sys/param.h>
#include <errno.h>
#include <stdio.h>
#include <stdlib.h>
#include <string.h>
#include "math/big_num.h"

int main(void) {
	bn_t a; uint8_t one[1] = { 0x07 }; int rc, bad = 0;
	bn_init(&a, 256); bn_assign_digit(&a, 1); bn_l_shift(&a, 128);		/* a = 2^128: 3 digits */
	rc = bn_import_le_bin(&a, one, 1);
	printf("import_le_bin(07) over 2^128: rc=%d digits=%zu num[2]=%llu num[0]=%llu (want digits 1, value 7)\n", rc, a.digits,
	    (unsigned long long)a.num[2], (unsigned long long)a.num[0]);
	if (0 == rc && 1 != a.digits) bad = 1;
	bn_init(&a, 256); bn_assign_digit(&a, 1); bn_l_shift(&a, 128);
	rc = bn_import_be_bin(&a, one, 1);
	printf("import_be_bin(07) over 2^128: rc=%d digits=%zu\n", rc, a.digits);
	if (0 == rc && 1 != a.digits) bad = 1;
	return (bad);
}
