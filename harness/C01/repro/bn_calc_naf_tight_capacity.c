/* bn_calc_naf() works on a copy with the capacity of bn; "tm += 1" for a value of all ones overflows that capacity, the
 * carry is dropped and the recoding stops early: NAF(2^64-1) in a 64-bit bn comes back as the single digit -1 (= -1, not 2^64-1).
 * cc -I/repo/include bn_calc_naf_tight_capacity.c -o /tmp/r && /tmp/r   (exit 1 = defect present) */
#include <sys/param.h>
#include <errno.h>
#include <stdio.h>
#include <stdlib.h>
#include <string.h>
#include "math/big_num.h"

int main(void) {
	bn_t a; int8_t naf[80]; size_t cnt = 0, i; int rc; __int128 v = 0;
	bn_init(&a, 64); bn_assign_digit(&a, 0xffffffffffffffffull);
	rc = bn_calc_naf(&a, 2, sizeof(naf), naf, &cnt);
	for (i = 0; i < cnt; i ++) v += ((__int128)naf[i]) << i;
	printf("NAF_2(2^64-1): rc=%d items=%zu, sum d_i 2^i = %s0x%llx\n", rc, cnt, (v < 0) ? "-" : "", (unsigned long long)((v < 0) ? -v : v));
	return ((0 == rc && v != (__int128)0xffffffffffffffffull) ? 1 : 0);
}
