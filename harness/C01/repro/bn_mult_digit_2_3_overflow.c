/* bn_mult_digit(bn, 2) and (bn, 3) go through bn_add(..., NULL): the carry out of the capacity is dropped and 0 is
 * returned with a truncated product, while every other multiplier reports EOVERFLOW.
 * cc -I/repo/include bn_mult_digit_2_3_overflow.c -o /tmp/r && /tmp/r   (exit 1 = defect present) */
#include <sys/param.h>
#include <errno.h>
#include <stdio.h>
#include <stdlib.h>
#include <string.h>
#include "math/big_num.h"

int main(void) {
	bn_t a; int rc2, rc3, rc5, bad = 0;
	bn_init(&a, 64); bn_assign_digit(&a, 0x8000000000000001ull);
	rc2 = bn_mult_digit(&a, 2);
	printf("0x8000000000000001 * 2 in a 64-bit bn: rc=%d value=0x%llx (digits %zu)\n", rc2, (unsigned long long)a.num[0], a.digits);
	if (0 == rc2) bad = 1;	/* the product needs 65 bits */
	bn_init(&a, 64); bn_assign_digit(&a, 0x8000000000000001ull);
	rc3 = bn_mult_digit(&a, 3);
	printf("0x8000000000000001 * 3: rc=%d value=0x%llx\n", rc3, (unsigned long long)a.num[0]);
	if (0 == rc3) bad = 1;
	bn_init(&a, 64); bn_assign_digit(&a, 0x8000000000000001ull);
	rc5 = bn_mult_digit(&a, 5);
	printf("0x8000000000000001 * 5: rc=%d (EOVERFLOW=%d)\n", rc5, EOVERFLOW);
	return (bad);
}
