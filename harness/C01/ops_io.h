static void run_io(void) {}
