/* Import/export (binary + hex, both byte orders) and NAF / JSF recoding.  Included by h_c01.c.
 * Byte buffers end exactly at a PROT_NONE page (gbuf): the first byte past the stated size faults. */

enum { F_BE_BIN, F_LE_BIN, F_LE_HEX, F_BE_HEX, F__N };
static const char *exp_name[F__N] = { "bn_export_be_bin", "bn_export_le_bin", "bn_export_le_hex", "bn_export_be_hex" };
static const char *imp_name[F__N] = { "bn_import_be_bin", "bn_import_le_bin", "bn_import_le_hex", "bn_import_be_hex" };

static int
hexval(uint8_t c) {
	if (c >= '0' && c <= '9') return (c - '0');
	if (c >= 'a' && c <= 'f') return (c - 'a' + 10);
	if (c >= 'A' && c <= 'F') return (c - 'A' + 10);
	return (-1);
}
/* decode `len` bytes/chars of format f into v; returns 0 when well formed */
static int
decode_fmt(int f, const uint8_t *p, size_t len, R *v) {
	uint8_t tmp[RL * 4]; size_t i, nb;
	if (F_BE_BIN == f) { if (len > sizeof(tmp)) return (-1); r_from_be(v, p, len); return (0); }
	if (F_LE_BIN == f) { if (len > sizeof(tmp)) return (-1); r_from_le(v, p, len); return (0); }
	if (len & 1) return (-1);
	nb = len / 2;
	if (nb > sizeof(tmp)) return (-1);
	for (i = 0; i < nb; i ++) {
		int h = hexval(p[2 * i]), l = hexval(p[2 * i + 1]);
		if (h < 0 || l < 0) return (-1);
		tmp[i] = (uint8_t)((h << 4) | l);	/* byte i of the string, high nibble first */
	}
	if (F_LE_HEX == f) r_from_le(v, tmp, nb); else r_from_be(v, tmp, nb);
	return (0);
}
/* encode v into exactly `units` bytes (bin) / byte pairs (hex); returns 0 if it does not fit */
static int
encode_fmt(int f, const R *v, size_t units, uint8_t *p, int upper) {
	static const char lo[] = "0123456789abcdef", up[] = "0123456789ABCDEF";
	const char *hx = upper ? up : lo; size_t i;
	if (r_bytelen(v) > units) return (0);
	for (i = 0; i < units; i ++) {
		uint8_t byte = r_byte(v, i);
		size_t pos = (F_LE_BIN == f || F_LE_HEX == f) ? i : (units - 1 - i);
		if (F_BE_BIN == f || F_LE_BIN == f) p[pos] = byte;
		else { p[2 * pos] = (uint8_t)hx[byte >> 4]; p[2 * pos + 1] = (uint8_t)hx[byte & 15]; }
	}
	return (1);
}

static NOINLINE int
call_export(int f, bn_p X, uint32_t flags, uint8_t *buf, size_t sz, size_t *ret) {
	volatile int rc = -1;
	switch (f) {
	case F_BE_BIN: GUARDED(rc = bn_export_be_bin(X, flags, buf, sz, ret)); break;
	case F_LE_BIN: GUARDED(rc = bn_export_le_bin(X, flags, buf, sz, ret)); break;
	case F_LE_HEX: GUARDED(rc = bn_export_le_hex(X, flags, buf, sz, ret)); break;
	case F_BE_HEX: GUARDED(rc = bn_export_be_hex(X, flags, buf, sz, ret)); break;
	}
	return (rc);
}
static NOINLINE int
call_import(int f, bn_p X, const uint8_t *buf, size_t len) {
	volatile int rc = -1;
	switch (f) {
	case F_BE_BIN: GUARDED(rc = bn_import_be_bin(X, buf, len)); break;
	case F_LE_BIN: GUARDED(rc = bn_import_le_bin(X, buf, len)); break;
	case F_LE_HEX: GUARDED(rc = bn_import_le_hex(X, buf, len)); break;
	case F_BE_HEX: GUARDED(rc = bn_import_be_hex(X, buf, len)); break;
	}
	return (rc);
}
static NOINLINE int
call_naf(bn_p X, size_t w, size_t size, int8_t *arr, size_t *cnt) {
	volatile int rc = -1;
	GUARDED(rc = bn_calc_naf(X, w, size, arr, cnt));
	return (rc);
}
static NOINLINE int
call_jsf(bn_p X, bn_p Y, size_t size, int8_t *arr, size_t *cnt, size_t *off) {
	volatile int rc = -1;
	GUARDED(rc = bn_calc_jsf(X, Y, size, arr, cnt, off));
	return (rc);
}

static void
run_export(int f, const vset_t *sa) {
	size_t i, ca, sz, maxsz; R av, got; const R *a = &av; bn_p X = slot[0];
	int fl, fi, hex = (F_LE_HEX == f || F_BE_HEX == f);

	for (i = 0; i < sa->n; i ++) {
		vs_get(sa, i, &av);
		for (ca = cap_min(a); ca <= MAXCAP; ca += (MAXCAP - cap_min(a)) ? (MAXCAP - cap_min(a)) : 1) {
			if (!begin_case(exp_name[f])) continue;
			d_op = exp_name[f]; d_a = av; d_cap = ca; d_set = "every buffer size 0..capacity+1, AUTO_SIZE on/off";
			vh_publish_desc();
			maxsz = ca * DSZ * (hex ? 2 : 1) + 1;
			for (sz = 0; sz <= maxsz; sz ++) for (fl = 0; fl < 2; fl ++) {
				uint32_t flags = fl ? BN_EXPORT_F_AUTO_SIZE : 0;
				uint8_t keep[2][RL * 8 + 8]; size_t keepn[2] = { 0, 0 }; int keeprc[2] = { 0, 0 };
				for (fi = 0; fi < 2; fi ++) {
					uint8_t *buf = gbuf(0, sz);
					volatile int rc = -1; volatile size_t ret = (size_t)-7;
					size_t len;
					g_fill = fi ? 0x00 : 0xA5;
					memset(buf, 0xEE, sz);
					bn_make(X, a, ca, g_fill);
					g_crashed = 0;
					CALL_COUNT();
					g_cur_a = a; g_cur_b = NULL; g_cur_k = sz;
					paint_stack(g_fill);
					rc = call_export(f, X, flags, buf, sz, (size_t *)&ret);
					keeprc[fi] = g_crashed ? -99 : rc;
					if (!g_crashed && RC_OK(rc)) {
						/* what the caller reads: `ret` units with AUTO_SIZE (or for the hex string), the whole buffer for fixed-size binary */
						len = (fl || hex) ? ret : sz;
						if (ret > sz) {
							vh_fail("size-reported", "a=0x%s size=%zu flags=%u rc=0 reported size %zu > buffer", HX(a, hx1), sz, flags, (size_t)ret);
						} else if (0 != decode_fmt(f, buf, len, &got) || !r_eq(&got, a)) {
							char dump[140]; vh_hex(dump, sizeof(dump), buf, (len < 64) ? len : 64);
							vh_fail("value", "a=0x%s (%zu digit(s)) buffer=%zu flags=%u rc=0 reported=%zu bytes=%s decode to 0x%s stale=0x%02x",
							    HX(a, hx1), r_ndigits(a), sz, flags, (size_t)ret, dump, HX(&got, hx2), g_fill);
						} else if (0 == fi) {
							vh_nontrivial();
						}
						keepn[fi] = (len < sizeof(keep[fi])) ? len : 0;
						memcpy(keep[fi], buf, keepn[fi]);
					}
				}
				if (RC_OK(keeprc[0]) != RC_OK(keeprc[1]) ||
				    (RC_OK(keeprc[0]) && (keepn[0] != keepn[1] || 0 != memcmp(keep[0], keep[1], keepn[0]))))
					vh_fail("stale-storage", "a=0x%s buffer=%zu flags=%u: rc %d vs %d or different bytes for fill 0xA5 / 0x00", HX(a, hx1), sz, flags, keeprc[0], keeprc[1]);
			}
		}
	}
}

static void
run_import(int f, const vset_t *sa) {
	size_t i, ca, units; R av, got; const R *a = &av; bn_p X = slot[0];
	int fi, hex = (F_LE_HEX == f || F_BE_HEX == f);

	for (i = 0; i < sa->n; i ++) {
		vs_get(sa, i, &av);
		for (ca = 1; ca <= MAXCAP; ca ++) {	/* capacity independent of the value: too large a value must be refused */
			if (!begin_case(imp_name[f])) continue;
			d_op = imp_name[f]; d_a = av; d_cap = ca; d_set = "every encoding length 0..capacity+1 bytes";
			vh_publish_desc();
			for (units = 0; units <= ca * DSZ + 1; units ++) {
				size_t len = units * (hex ? 2 : 1);
				uint8_t *buf; res_t r[2];
				if (r_bytelen(a) > units) continue;
				buf = gbuf(1, len);
				encode_fmt(f, a, units, buf, (int)(i & 1));
				for (fi = 0; fi < 2; fi ++) {
					R prev; volatile int rc = -1;
					g_fill = fi ? 0x00 : 0xA5;
					/* previous content of the destination: all ones / zero */
					r_zero(&prev);
					if (0 == fi) { r_capacity(&prev, ca); r_sub_ip(&prev, &(R){ 1, { 1 } }); }
					bn_make(X, &prev, ca, g_fill);
					g_crashed = 0;
					CALL_COUNT();
					g_cur_a = a; g_cur_b = NULL; g_cur_k = len;
					paint_stack(g_fill);
					rc = call_import(f, X, buf, len);
					memset(&r[fi], 0, sizeof(r[fi]));
					r[fi].rc = rc; r[fi].crashed = g_crashed;
					if (g_crashed || !RC_OK(rc)) continue;
					bn_read(X, &got); r[fi].v1 = got;
					if (!r_eq(&got, a))
						vh_fail("value", "encoding of 0x%s in %zu unit(s) into capacity %zu: rc=0 value=0x%s stale=0x%02x", HX(a, hx1), units, ca, HX(&got, hx2), g_fill);
					else if (bn_denorm(X))
						vh_fail("denormalized", "0x%s in %zu unit(s) into capacity %zu: value right, digits=%zu not normal", HX(a, hx1), units, ca, X->digits);
					else if (0 == fi)
						vh_nontrivial();
				}
				if (!res_same(&r[0], &r[1]))
					vh_fail("stale-storage", "0x%s in %zu unit(s) into capacity %zu: rc %d/%d value 0x%s/0x%s for previous content all-ones+0xA5 / zero+0x00",
					    HX(a, hx1), units, ca, r[0].rc, r[1].rc, HX(&r[0].v1, hx2), HX(&r[1].v1, hx3));
			}
		}
	}
}

/* ---------------------------------------------------------------- NAF */
/* value of sum d_i 2^i as (positive part, negative part) */
static void
signed_eval(const int8_t *d, size_t n, R *pos, R *neg) {
	size_t i; R t;
	r_zero(pos); r_zero(neg);
	for (i = 0; i < n; i ++) {
		if (0 == d[i]) continue;
		r_set_u64(&t, (uint64_t)((d[i] < 0) ? -(int)d[i] : d[i]));
		r_shl(&t, &t, (int)i);
		if (d[i] > 0) r_add(pos, pos, &t); else r_add(neg, neg, &t);
	}
}
static void
run_naf(const vset_t *sa) {
	size_t i, ca, w, ds; R av, pos, neg, t; const R *a = &av; bn_p X = slot[0];
	int fi;

	for (i = 0; i < sa->n; i ++) {
		vs_get(sa, i, &av);
		ca = (i & 1) ? MAXCAP : cap_min(a);
		if (!begin_case("bn_calc_naf")) continue;
		d_op = "bn_calc_naf"; d_a = av; d_cap = ca; d_set = "w=2..6, array sizes bits..bits+2";
		vh_publish_desc();
		for (w = 2; w <= 6; w ++) for (ds = 0; ds < 3; ds ++) {
			size_t size = (size_t)r_bitlen(a) + ds, k, j;
			int8_t keep[2][RL * 32 + 8]; int keeprc[2]; size_t keepn[2] = { 0, 0 };
			for (fi = 0; fi < 2; fi ++) {
				int8_t *arr = (int8_t *)gbuf(0, size);
				volatile int rc = -1; volatile size_t cnt = (size_t)-7;
				int bad = 0;
				g_fill = fi ? 0x00 : 0xA5;
				memset(arr, 0x55, size);
				bn_make(X, a, ca, g_fill);
				g_crashed = 0;
				CALL_COUNT();
				g_cur_a = a; g_cur_b = NULL; g_cur_k = w;
				paint_stack(g_fill);
				rc = call_naf(X, w, size, arr, (size_t *)&cnt);
				keeprc[fi] = g_crashed ? -99 : rc;
				if (!g_crashed && RC_OK(rc)) {
					if (cnt > size) { bad = 1; vh_fail("size-reported", "a=0x%s w=%zu size=%zu rc=0 count=%zu", HX(a, hx1), w, size, (size_t)cnt); }
					else {
						signed_eval(arr, cnt, &pos, &neg); r_add(&t, a, &neg);
						if (!r_eq(&pos, &t)) { bad = 1; vh_fail("value", "a=0x%s w=%zu: digits do not sum to a (positive part 0x%s, negative part 0x%s) stale=0x%02x", HX(a, hx1), w, HX(&pos, hx2), HX(&neg, hx3), g_fill); }
						for (k = 0; k < cnt && !bad; k ++) {
							int dk = arr[k];
							if (0 == dk) continue;
							if (0 == (dk & 1) || dk >= (1 << (w - 1)) || dk <= -(1 << (w - 1))) { bad = 1; vh_fail("naf-digit", "a=0x%s w=%zu digit[%zu]=%d not odd or |d| >= 2^(w-1)", HX(a, hx1), w, k, dk); }
							for (j = k + 1; j < k + w && j < cnt && !bad; j ++)
								if (0 != arr[j]) { bad = 1; vh_fail("naf-adjacent", "a=0x%s w=%zu non-zero digits at %zu and %zu", HX(a, hx1), w, k, j); }
						}
						keepn[fi] = cnt; memcpy(keep[fi], arr, cnt);
					}
					if (!bad && 0 == fi) vh_nontrivial();
				}
			}
			if (RC_OK(keeprc[0]) != RC_OK(keeprc[1]) || (RC_OK(keeprc[0]) && (keepn[0] != keepn[1] || 0 != memcmp(keep[0], keep[1], keepn[0]))))
				vh_fail("stale-storage", "a=0x%s w=%zu size=%zu: different outcome for fill 0xA5 / 0x00 (rc %d / %d)", HX(a, hx1), w, size, keeprc[0], keeprc[1]);
		}
	}
}

/* ---------------------------------------------------------------- JSF (Solinas; Hankerson-Menezes-Vanstone Alg. 3.50)
 * value clause: both rows re-evaluate to the operands, entries in {-1,0,1}.
 * form clauses (the three defining properties - the JSF is unique, so they pin the exact result):
 *   1. of any three consecutive columns at least one is (0,0)
 *   2. adjacent terms of a row never have opposite signs
 *   3. if u[i][j+1]*u[i][j] != 0 then u[1-i][j+1] = +-1 and u[1-i][j] = 0 */
static void
run_jsf(const vset_t *sa, const vset_t *sb) {
	size_t i, j, ds; R av, b, pos, neg, t; const R *a = &av; bn_p X = slot[0], Y = slot[1];
	int fi;

	for (i = 0; i < sa->n; i ++) {
		vs_get(sa, i, &av);
		if (!begin_case("bn_calc_jsf")) continue;
		d_op = "bn_calc_jsf"; d_a = av; d_cap = cap_min(a); d_set = vs_name(sb);
		vh_publish_desc();
		{	/* warm-up with well-defined operands (1, 1), result ignored: whatever an optimiser leaves in registers for
			 * the library's undefined reads (finding 11) is then the same whether the preceding case ran or was skipped */
			R one; size_t c0 = 0, o0 = 0;
			r_set_u64(&one, 1);
			g_fill = 0xA5;
			bn_make(X, &one, 1, g_fill); bn_make(Y, &one, 1, g_fill);
			g_cur_a = &one; g_cur_b = &one; g_cur_k = 8;
			paint_stack(g_fill);
			(void)call_jsf(X, Y, 8, (int8_t *)gbuf(0, 8), &c0, &o0);
		}
		for (j = 0; j < sb->n; j ++) {
			size_t off, bl;
			vs_get(sb, j, &b);
			bl = (size_t)((r_bitlen(a) > r_bitlen(&b)) ? r_bitlen(a) : r_bitlen(&b));
			off = bl + 1;
			for (ds = 0; ds < 3; ds ++) {
				size_t size = 2 * off - 1 + ds * 2;	/* one short, exact, generous */
				int keeprc[2];
				for (fi = 0; fi < 2; fi ++) {
					int8_t *arr = (int8_t *)gbuf(0, size);
					volatile int rc = -1; volatile size_t cnt = (size_t)-7, offr = (size_t)-7;
					int bad = 0; size_t k; int row;
					g_fill = fi ? 0x00 : 0xA5;
					memset(arr, 0x55, size);
					bn_make(X, a, cap_alt(a, j), g_fill);
					bn_make(Y, &b, cap_alt(&b, i), g_fill);
					g_crashed = 0;
					CALL_COUNT();
					g_cur_a = a; g_cur_b = &b; g_cur_k = size;
					paint_stack(g_fill);
					rc = call_jsf(X, Y, size, arr, (size_t *)&cnt, (size_t *)&offr);
					keeprc[fi] = g_crashed ? -99 : rc;
					if (g_crashed || !RC_OK(rc)) continue;
					if (cnt > offr || 2 * offr > size) {
						bad = 1; vh_fail("size-reported", "a=0x%s b=0x%s size=%zu rc=0 count=%zu offset=%zu", HX(a, hx1), HX(&b, hx2), size, (size_t)cnt, (size_t)offr);
					} else {
						const int8_t *u[2]; u[0] = arr; u[1] = arr + offr;
						for (row = 0; row < 2 && !bad; row ++) {
							const R *want = row ? &b : a;
							for (k = 0; k < cnt; k ++) if (u[row][k] < -1 || u[row][k] > 1) { bad = 1; vh_fail("value", "a=0x%s b=0x%s row %d digit[%zu]=%d", HX(a, hx1), HX(&b, hx2), row, k, u[row][k]); break; }
							if (bad) break;
							signed_eval(u[row], cnt, &pos, &neg); r_add(&t, want, &neg);
							if (!r_eq(&pos, &t)) { bad = 1; vh_fail("value", "a=0x%s b=0x%s: row %d does not re-evaluate to its operand stale=0x%02x", HX(a, hx1), HX(&b, hx2), row, g_fill); }
						}
						for (k = 0; k < cnt && !bad; k ++) {
							if (k + 2 < cnt && (u[0][k] || u[1][k]) && (u[0][k + 1] || u[1][k + 1]) && (u[0][k + 2] || u[1][k + 2])) { bad = 1; vh_fail("jsf-form", "a=0x%s b=0x%s: three consecutive non-zero columns at %zu", HX(a, hx1), HX(&b, hx2), k); }
							for (row = 0; row < 2 && !bad && k + 1 < cnt; row ++) {
								int p = u[row][k] * u[row][k + 1];
								if (-1 == p) { bad = 1; vh_fail("jsf-form", "a=0x%s b=0x%s: row %d opposite signs at %zu", HX(a, hx1), HX(&b, hx2), row, k); }
								else if (0 != p && (0 == u[1 - row][k + 1] || 0 != u[1 - row][k])) { bad = 1; vh_fail("jsf-form", "a=0x%s b=0x%s: row %d adjacent non-zeros at %zu without the other row being (0, +-1)", HX(a, hx1), HX(&b, hx2), row, k); }
							}
						}
					}
					if (!bad && 0 == fi) vh_nontrivial();
				}
				if (RC_OK(keeprc[0]) != RC_OK(keeprc[1]))
					vh_fail("stale-storage", "a=0x%s b=0x%s size=%zu: rc %d / %d for fill 0xA5 / 0x00", HX(a, hx1), HX(&b, hx2), size, keeprc[0], keeprc[1]);
			}
		}
	}
}

static void
run_io(void) {
	int f, p;
	for (f = 0; f < F__N; f ++)
		for (p = 0; p < g_nunary; p ++) {
			TIMED(exp_name[f], run_export(f, g_unary[p].a));
			TIMED(imp_name[f], run_import(f, g_unary[p].a));
		}
	if (VS_BB.n) for (f = 0; f < F__N; f ++) {
		TIMED(exp_name[f], run_export(f, &VS_BB));
		TIMED(imp_name[f], run_import(f, &VS_BB));
	}
	for (p = 0; p < g_nunary; p ++)
		TIMED("naf", run_naf(g_unary[p].a));
#if C01_SCOPE == 0
	TIMED("jsf", run_jsf(&VS_EX1, &VS_EX1));
	TIMED("jsf", run_jsf(&VS_A3, &VS_A3));
#else
	TIMED("jsf", run_jsf(g_small, g_small));
#endif
}
