static void run_mod(void) {}
