/* Modular layer.  Included by h_c01.c.
 * Documented domains kept (header comments + what the code visibly assumes):
 *   bn_mod_add/sub        operands already reduced (a, b < m), m > 0  (one conditional subtraction only)
 *   bn_mod_exp(_digit)    a < m, m >= 2  (exp == 1 returns bn untouched, exp == 0 returns 1)
 *   bn_mod_inv            "assuming inverse exists": 0 < a < m, gcd(a, m) == 1, m odd (binary inversion halves modulo m)
 *   bn_mod_reduce         m >= 2
 *   bn_mod_legendre/sqrt  "m - odd prime"
 */
enum {
	M_MOD, M_ADD, M_SUB, M_MULT, M_MULT_AL, M_SQUARE, M_MULT_DIGIT, M_EXP, M_EXP_DIGIT,
	M_INV, M_REDUCE, M_LEGENDRE, M_SQRT, M__N
};
static const char *mod_name[M__N] = {
	"bn_mod", "bn_mod_add", "bn_mod_sub", "bn_mod_mult", "bn_mod_mult/bn=n", "bn_mod_square",
	"bn_mod_mult_digit", "bn_mod_exp", "bn_mod_exp_digit", "bn_mod_inv", "bn_mod_reduce",
	"bn_mod_legendre", "bn_mod_sqrt"
};
static uint64_t g_sqrt_refused_qr = 0;	/* bn_mod_sqrt said "no root"/error although a root exists (loud, not a violation) */

static NOINLINE void
exec_mod(int op, const R *a, size_t ca, const R *b, const R *m, size_t cm, uint8_t fill, res_t *o) {
	bn_p X = slot[0], Y = slot[1], M = slot[3];
	static bn_mod_rd_data_t rd;
	size_t cb = cap_min(b);

	memset(o, 0, sizeof(*o));
	memset(&rd, 0, sizeof(rd));
	g_cur_a = a; g_cur_b = b; g_cur_k = ca;
	bn_make(X, a, ca, fill);
	bn_make(Y, b, cb, fill);
	bn_make(M, m, cm, fill);
	g_crashed = 0;
	switch (op) {
	case M_MOD:	GUARDED(o->rc = bn_mod(X, M, &rd)); break;
	case M_ADD:	GUARDED(o->rc = bn_mod_add(X, Y, M, &rd)); break;
	case M_SUB:	GUARDED(o->rc = bn_mod_sub(X, Y, M, &rd)); break;
	case M_MULT:	GUARDED(o->rc = bn_mod_mult(X, Y, M, &rd)); break;
	case M_MULT_AL:	GUARDED(o->rc = bn_mod_mult(X, X, M, &rd)); break;
	case M_SQUARE:	GUARDED(o->rc = bn_mod_square(X, M, &rd)); break;
	case M_MULT_DIGIT: GUARDED(o->rc = bn_mod_mult_digit(X, r_to_digit(b), M, &rd)); break;
	case M_EXP:	GUARDED(o->rc = bn_mod_exp(X, Y, M, &rd)); break;
	case M_EXP_DIGIT: GUARDED(o->rc = bn_mod_exp_digit(X, (size_t)r_low_u64(b), M, &rd)); break;
	case M_INV:	GUARDED(o->rc = bn_mod_inv(X, M, &rd)); break;
	case M_REDUCE:	GUARDED(o->rc = bn_mod_reduce(X, M, &rd)); break;
	case M_LEGENDRE: GUARDED(o->rc = bn_mod_legendre(X, M, &rd)); break;
	case M_SQRT:	GUARDED(o->rc = bn_mod_sqrt(X, M, &rd)); break;
	}
	o->crashed = g_crashed;
	if (o->crashed)
		return;
	if (M_LEGENDRE == op) {	/* the return value is the result; anything outside -1..1 is an error code */
		o->aux = (uint64_t)(o->rc + 1);
		o->rc = (o->rc >= -1 && o->rc <= 1) ? 0 : o->rc;
		return;
	}
	if (!RC_OK(o->rc))
		return;
	bn_read(X, &o->v1); o->den = bn_denorm(X);
}

#define FAILM(clause, what) vh_fail(clause, "%s: a=0x%s (cap %zu) b=0x%s m=0x%s (cap %zu) rc=0 got=0x%s want=0x%s stale=0x%02x", \
	what, HX(a, hx1), ca, HX(b, hx2), HX(m, hx3), cm, HX(got, hx4), HX(&want, hx5), g_fill)
static char hx5[300];

static int
ref_legendre(const R *a, const R *p) {	/* Euler's criterion, p odd prime */
	R e, t, one, pm1;
	r_set_u64(&one, 1);
	r_mod(&t, a, p);
	if (r_is_zero(&t)) return (0);
	r_sub(&pm1, p, &one); r_shr(&e, &pm1, 1);
	r_powmod(&t, a, &e, p);
	return (r_is_one(&t) ? 1 : -1);
}

static void
check_mod(int op, const R *a, size_t ca, const R *b, const R *m, size_t cm, const res_t *o) {
	R want, t, one; const R *got = &o->v1;
	int bad = 0;

	if (o->crashed) return;
	r_set_u64(&one, 1); r_zero(&want);
	if (r_is_zero(m)) {	/* only bn_mod is called with m == 0 */
		if (RC_OK(o->rc)) vh_fail("div-by-zero-accepted", "a=0x%s m=0 returned 0", HX(a, hx1));
		return;
	}
	if (!RC_OK(o->rc)) {
		if (M_SQRT == op && 1 == ref_legendre(a, m)) g_sqrt_refused_qr ++;
		return;
	}
	switch (op) {
	case M_MOD:	r_mod(&want, a, m); if (!r_eq(got, &want)) { bad = 1; FAILM("value", "a mod m"); } break;
	case M_ADD:	r_add(&t, a, b); r_mod(&want, &t, m); if (!r_eq(got, &want)) { bad = 1; FAILM("value", "(a+b) mod m"); } break;
	case M_SUB:	r_add(&t, a, m); r_sub(&t, &t, b); r_mod(&want, &t, m); if (!r_eq(got, &want)) { bad = 1; FAILM("value", "(a-b) mod m"); } break;
	case M_MULT: case M_MULT_DIGIT:
		r_mulmod(&want, a, b, m); if (!r_eq(got, &want)) { bad = 1; FAILM("value", "(a*b) mod m"); } break;
	case M_MULT_AL: case M_SQUARE:
		r_mulmod(&want, a, a, m); if (!r_eq(got, &want)) { bad = 1; FAILM("value", "(a*a) mod m"); } break;
	case M_EXP: case M_EXP_DIGIT:
		r_powmod(&want, a, b, m); if (!r_eq(got, &want)) { bad = 1; FAILM("value", "a^b mod m"); } break;
	case M_INV:	/* the inverse in [0, m) is unique: verify instead of recomputing */
		r_mulmod(&t, got, a, m);
		r_set_u64(&want, 1);
		if (r_cmp(got, m) >= 0 || !r_is_one(&t)) { want = t; bad = 1; FAILM("value", "got*a mod m (shown as want) must be 1 and got < m"); }
		break;
	case M_REDUCE:
		if (r_cmp(a, m) < 0) want = *a;
		else { r_sub(&t, m, &one); r_mod(&want, a, &t); r_add(&want, &want, &one); }
		if (!r_eq(got, &want)) { bad = 1; FAILM("value", "a<m ? a : (a mod (m-1))+1"); }
		break;
	case M_LEGENDRE: {
		int l = ref_legendre(a, m);
		if ((int)o->aux - 1 != l) { bad = 1; vh_fail("value", "legendre(0x%s / 0x%s) returned %d, Euler criterion gives %d (cap %zu, stale 0x%02x)", HX(a, hx1), HX(m, hx3), (int)o->aux - 1, l, ca, g_fill); }
		break; }
	case M_SQRT:
		r_mulmod(&t, got, got, m); r_mod(&want, a, m);
		if (r_cmp(got, m) >= 0 || !r_eq(&t, &want)) { bad = 1; FAILM("value", "got^2 mod m must equal a mod m (shown as want) and got < m"); }
		break;
	}
	if (!bad && o->den) { bad = 1; FAILM("denormalized", "value right but digits field/top digit not normal"); }
	if (!bad) vh_nontrivial();
}

/* ---------------------------------------------------------------- value sets of the modular layer */
static vset_t VS_PRIMES, VS_EXPS, VS_SMALLP;
static const char *prime_hex[] = {
	"3", "5", "7", "d", "11", "61", "c1", "f1", "fb", "101", "3001", "a001", "ff9d", "ffef", "fff1", "10001",
	"7fffffff", "ffffff79", "ffffff9d", "fffffffb", "fffffffffdf1", "ffffffffffc5", "1fffffffffffffff",
	"ffffffffffffffa1", "ffffffffffffffc5", "ffffffff00000001", "1ffffffffffffffffffffff",
	"ffffffffffffffffffffffa9", "ffffffffffffffffffffff6d", "7ffffffffffffffffffffffffff",
	"7fffffffffffffffffffffffffffffff", "ffffffffffffffffffffffffffffff61", "fffffffffffffffffffffffffffffeed",
	"3fffffffffffffffffffffffffffffffb", "fffffffffffffffffffffffffffffffeffffffffffffffff",
	"fffffffffffffffffffffffffffffffffffffffffffffe71", "fffffffffffffffffffffffffffffffffffffffffffffc6d",
	"ffffffffffffffffffffffffffffffff000000000000000000000001",
	"7fffffffffffffffffffffffffffffffffffffffffffffffffffffffffffffed",
	"fffffffffffffffffffffffffffffffffffffffffffffffffffffffefffffc2f",
	"ffffffff00000001000000000000000000000000ffffffffffffffffffffffff",
	"fffffffffffffffffffffffffffffffffffffffffffffffffffffffffffff7f1",
	"fffffffffffffffffffffffffffffffffffffffffffffffffffffffffffffe4d",
	"fffffffffffffffffffffffffffffffffffffffffffffffffffffffffffffffeffffffff0000000000000000ffffffff",
	"fffffffffffffffffffffffffffffffffffffffffffffffffffffffeffffffffffffffffffffffffffffffffffffffffffffffffffffffff",
	NULL
};
static void
modsets_init(void) {
	size_t n = 0, i; R v, one, t; int k;
	r_set_u64(&one, 1);
	/* primes: the fixed list (verified prime with sympy while writing the harness) up to 4 digits;
	 * scope 0 adds every odd prime below 2^8 by trial division */
	VS_PRIMES.kind = 1; VS_PRIMES.arr = (R *)calloc(160, sizeof(R));
#if C01_SCOPE == 0
	for (k = 3; k < 256; k += 2) {
		int d, pr = 1;
		for (d = 3; d * d <= k; d += 2) if (0 == k % d) pr = 0;
		if (pr) r_set_u64(&VS_PRIMES.arr[n ++], (uint64_t)k);
	}
#endif
	for (i = 0; NULL != prime_hex[i]; i ++) {
		r_from_hex(&v, prime_hex[i]);
		if (r_ndigits(&v) > 4) continue;
#if C01_SCOPE == 0
		if (r_bitlen(&v) <= 8) continue;	/* already there */
#endif
#if C01_SCOPE == 2
		if (r_ndigits(&v) > 2 && W > 8) continue;
#endif
		VS_PRIMES.arr[n ++] = v;
	}
	VS_PRIMES.n = n;
	/* exponents */
	VS_EXPS.kind = 1; VS_EXPS.arr = (R *)calloc(32, sizeof(R)); n = 0;
	{ static const uint64_t e[] = { 0, 1, 2, 3, 4, 5, 6, 7, 8, 15, 16, 17 };
	  for (i = 0; i < sizeof(e) / sizeof(e[0]); i ++) r_set_u64(&VS_EXPS.arr[n ++], e[i]); }
	alpha_digit(4, &VS_EXPS.arr[n ++]);	/* top bit */
	alpha_digit(6, &VS_EXPS.arr[n ++]);	/* MAX */
	r_shl(&VS_EXPS.arr[n ++], &one, W);	/* B */
	r_shl(&t, &one, W); r_add(&VS_EXPS.arr[n ++], &t, &one);	/* B+1 */
	r_shl(&t, &one, 2 * W); r_sub(&VS_EXPS.arr[n ++], &t, &one);	/* B^2-1 */
	VS_EXPS.n = n;
}

/* operand set for modulus m: base set plus values hugging m */
static size_t
operands_for(const R *m, const vset_t *base, int all_below_256, R *out, size_t max) {
	size_t n = 0, i; R one, two, t;
	r_set_u64(&one, 1); r_set_u64(&two, 2);
	if (all_below_256 && r_bitlen(m) <= 8) {
		for (i = 0; i < (size_t)r_low_u64(m) && n < max; i ++) r_set_u64(&out[n ++], i);
		return (n);
	}
	for (i = 0; i < base->n && n + 6 < max; i ++) out[n ++] = base->arr[i];
	if (r_cmp(m, &one) >= 0) { r_sub(&out[n ++], m, &one); }
	if (r_cmp(m, &two) >= 0) { r_sub(&out[n ++], m, &two); }
	r_shr(&out[n ++], m, 1);
	r_shr(&t, m, 1); r_add(&out[n ++], &t, &one);
	r_add(&out[n ++], m, &one);
	out[n ++] = *m;
	return (n);
}

static int
mod_domain(int op, const R *a, const R *b, const R *m) {
	R g, two; r_set_u64(&two, 2);
	switch (op) {
	case M_MOD: return (1);
	case M_ADD: case M_SUB: return (!r_is_zero(m) && r_cmp(a, m) < 0 && r_cmp(b, m) < 0);
	case M_MULT: case M_MULT_AL: case M_SQUARE: return (!r_is_zero(m));
	case M_MULT_DIGIT: return (!r_is_zero(m) && r_ndigits(b) <= 1);
	case M_EXP: return (r_cmp(m, &two) >= 0 && r_cmp(a, m) < 0);
	case M_EXP_DIGIT: return (r_cmp(m, &two) >= 0 && r_cmp(a, m) < 0 && r_fits_u64(b));
	case M_INV:
		if (r_is_zero(a) || r_cmp(a, m) >= 0 || 0 == r_bit(m, 0)) return (0);
		r_gcd(&g, a, m); return (r_is_one(&g));
	case M_REDUCE: return (r_cmp(m, &two) >= 0);
	}
	return (1);	/* legendre / sqrt: m comes from the prime list */
}

#define MAXOPS 420
static void
run_mod_op(int op, const vset_t *mods, const vset_t *abase, const vset_t *bset, int exhaustive8) {
	static R as[MAXOPS], bs[MAXOPS];
	size_t im, ic, i, j, na, nb; R m, zero; res_t r1, r2;
	int two_operand = (M_ADD == op || M_SUB == op || M_MULT == op || M_MULT_DIGIT == op || M_EXP == op || M_EXP_DIGIT == op);

	r_zero(&zero);
	for (im = 0; im < mods->n; im ++) {
		size_t ndm, caps[3];
		vs_get(mods, im, &m);
		if (r_is_zero(&m) && M_MOD != op) continue;
		ndm = cap_min(&m);
		caps[0] = ndm; caps[1] = 2 * ndm; caps[2] = 2 * ndm + 1;
		for (ic = 0; ic < 3; ic ++) {
			size_t ca = caps[ic], cm = (im & 1) ? ca : ndm;
			if (exhaustive8 && 2 == ic) continue;	/* exhaustive operand sets: tight and double capacity */
			if (ca > BN_MAX_DIGITS) continue;	/* full-capacity builds: the modulus is as wide as a bn_t can be */
			if (!begin_case(mod_name[op])) continue;
			d_op = mod_name[op]; d_a = m; d_cap = ca; d_set = "operands for this modulus (a= is the modulus)";
			vh_publish_desc();
			na = operands_for(&m, abase, exhaustive8, as, MAXOPS);
			if ((M_SQRT == op || M_LEGENDRE == op) && r_bitlen(&m) > 8) {	/* guarantee quadratic residues: squares of the first operands */
				size_t nsq = (na < 24) ? na : 24;
				for (i = 0; i < nsq && na < MAXOPS; i ++) { r_mulmod(&as[na], &as[i], &as[i], &m); na ++; }
			}
			if (!two_operand) { nb = 1; bs[0] = zero; }
			else if (M_ADD == op || M_SUB == op || M_MULT == op) nb = operands_for(&m, bset, exhaustive8, bs, MAXOPS);	/* second operand: bset plus the values hugging m */
			else { nb = bset->n; for (j = 0; j < nb; j ++) bs[j] = bset->arr[j]; }
			for (i = 0; i < na; i ++) {
				if (r_ndigits(&as[i]) > ca) continue;
				for (j = 0; j < nb; j ++) {
					if (r_ndigits(&bs[j]) > BN_MAX_DIGITS) continue;	/* full-capacity builds: not representable */
					if (!mod_domain(op, &as[i], &bs[j], &m)) continue;
					CALL_COUNT();
					if (exhaustive8 && two_operand) {	/* stale fill alternates instead of running both */
						g_fill = ((i ^ j) & 1) ? 0x00 : 0xA5;
						paint_stack(g_fill);
						exec_mod(op, &as[i], ca, &bs[j], &m, cm, g_fill, &r1);
						check_mod(op, &as[i], ca, &bs[j], &m, cm, &r1);
						continue;
					}
					g_fill = 0xA5;
					paint_stack(0xA5);
					exec_mod(op, &as[i], ca, &bs[j], &m, cm, 0xA5, &r1);
					check_mod(op, &as[i], ca, &bs[j], &m, cm, &r1);
					g_fill = 0x00;
					paint_stack(0x00);
					exec_mod(op, &as[i], ca, &bs[j], &m, cm, 0x00, &r2);
					if (!res_same(&r1, &r2))
						vh_fail("stale-storage", "a=0x%s (cap %zu) b=0x%s m=0x%s: fill 0xA5 -> rc=%d v=0x%s; fill 0x00 -> rc=%d v=0x%s",
						    HX(&as[i], hx1), ca, HX(&bs[j], hx2), HX(&m, hx3), r1.rc, HX(&r1.v1, hx4), r2.rc, HX(&r2.v1, hx5));
				}
			}
		}
	}
}

static void
run_mod(void) {
	const vset_t *mods, *ops2 = &VS_A2;
	int ex8 = 0;
	modsets_init();
#if C01_SCOPE == 0
	ex8 = 1;
	/* every 1-digit modulus with every operand below it ... */
	TIMED(mod_name[M_MOD], run_mod_op(M_MOD, &VS_EX1, &VS_A3, NULL, 0));
	TIMED(mod_name[M_ADD], run_mod_op(M_ADD, &VS_EX1, &VS_A2, &VS_A2, 1));
	TIMED(mod_name[M_SUB], run_mod_op(M_SUB, &VS_EX1, &VS_A2, &VS_A2, 1));
	TIMED(mod_name[M_MULT], run_mod_op(M_MULT, &VS_EX1, &VS_A2, &VS_A2, 1));
	TIMED(mod_name[M_MULT_AL], run_mod_op(M_MULT_AL, &VS_EX1, &VS_A2, NULL, 1));
	TIMED(mod_name[M_SQUARE], run_mod_op(M_SQUARE, &VS_EX1, &VS_A2, NULL, 1));
	TIMED(mod_name[M_MULT_DIGIT], run_mod_op(M_MULT_DIGIT, &VS_EX1, &VS_A2, &VS_DX, 1));
	TIMED(mod_name[M_EXP], run_mod_op(M_EXP, &VS_EX1, &VS_A2, &VS_EXPS, 1));
	TIMED(mod_name[M_EXP_DIGIT], run_mod_op(M_EXP_DIGIT, &VS_EX1, &VS_A2, &VS_EXPS, 1));
	TIMED(mod_name[M_INV], run_mod_op(M_INV, &VS_EX1, &VS_A2, NULL, 1));
	TIMED(mod_name[M_REDUCE], run_mod_op(M_REDUCE, &VS_EX1, &VS_A3, NULL, 0));
	mods = &VS_A3;	/* ... and the alphabet moduli up to 3 digits */
#elif C01_SCOPE == 1
	mods = &VS_A3;
#else
	mods = &VS_A2;
#endif
	TIMED(mod_name[M_MOD], run_mod_op(M_MOD, mods, g_small, NULL, 0));
	TIMED(mod_name[M_ADD], run_mod_op(M_ADD, mods, ops2, ops2, 0));
	TIMED(mod_name[M_SUB], run_mod_op(M_SUB, mods, ops2, ops2, 0));
	TIMED(mod_name[M_MULT], run_mod_op(M_MULT, mods, ops2, &VS_D, 0));
	TIMED(mod_name[M_MULT_AL], run_mod_op(M_MULT_AL, mods, ops2, NULL, 0));
	TIMED(mod_name[M_SQUARE], run_mod_op(M_SQUARE, mods, ops2, NULL, 0));
	TIMED(mod_name[M_MULT_DIGIT], run_mod_op(M_MULT_DIGIT, mods, ops2, &VS_DX, 0));
	TIMED(mod_name[M_EXP], run_mod_op(M_EXP, &VS_A2, &VS_D, &VS_EXPS, 0));
	TIMED(mod_name[M_EXP_DIGIT], run_mod_op(M_EXP_DIGIT, &VS_A2, &VS_D, &VS_EXPS, 0));
	TIMED(mod_name[M_INV], run_mod_op(M_INV, mods, ops2, NULL, 0));
	TIMED(mod_name[M_REDUCE], run_mod_op(M_REDUCE, mods, g_small, NULL, 0));
	/* prime moduli: Legendre symbol and square roots, every residue for primes < 2^8 in scope 0 */
	TIMED(mod_name[M_LEGENDRE], run_mod_op(M_LEGENDRE, &VS_PRIMES, ops2, NULL, ex8));
	TIMED(mod_name[M_SQRT], run_mod_op(M_SQRT, &VS_PRIMES, ops2, NULL, ex8));
	printf("NOTE\tmod_sqrt_refused_although_root_exists=%llu\n", (unsigned long long)g_sqrt_refused_qr);
}
