/* Digit-level helpers: the portable double-digit multiply/divide lives here.  Included by h_c01.c.
 * Scope 0 (8-bit digits): every argument tuple.  Other scopes: the extended digit alphabet cubed. */

static void
digit_desc(char *b, size_t n) { snprintf(b, n, "%s W=%d first argument 0x%s, all other arguments", d_op, W, HX(&d_a, hx4)); }

static void
run_digit(void) {
	const vset_t *ds;
	size_t i, j, k; R x, y, z, N, q, r, want, t; int pop, b;
	volatile int rc, rcs; bn_digit_t qs, g1, g2;
#if C01_SCOPE == 0
	ds = &VS_EX1;
#else
	ds = &VS_DX;
#endif
	vh_set_describer(digit_desc);
	for (i = 0; i < ds->n; i ++) {
		bn_digit_t dx, dy, dz, lo, hi, rlo, rhi;
		vs_get(ds, i, &x); dx = r_to_digit(&x);
		d_a = x;
		/* one-argument helpers */
		if (begin_case("bn_digit_bits_ctz_clz")) {
			d_op = "bn_digit_bits/ctz/clz/ffs/is_pow2";
			CALL_COUNT();
			for (pop = 0, b = 0; b < W; b ++) pop += r_bit(&x, b);
			if (bn_digit_bits(dx) != (size_t)pop) vh_fail("value", "bn_digit_bits(0x%s)=%zu want %d", HX(&x, hx1), bn_digit_bits(dx), pop);
			if (bn_digit_ctz(dx) != (size_t)(r_is_zero(&x) ? W : r_ctz(&x))) vh_fail("value", "bn_digit_ctz(0x%s)=%zu", HX(&x, hx1), bn_digit_ctz(dx));
			if (bn_digit_clz(dx) != (size_t)(W - r_bitlen(&x))) vh_fail("value", "bn_digit_clz(0x%s)=%zu", HX(&x, hx1), bn_digit_clz(dx));
			if (bn_digit_ffs(dx) != (size_t)(r_is_zero(&x) ? 0 : r_ctz(&x) + 1)) vh_fail("value", "bn_digit_ffs(0x%s)=%zu", HX(&x, hx1), bn_digit_ffs(dx));
			if ((0 != bn_digit_is_pow2(dx)) != (1 == pop)) vh_fail("value", "bn_digit_is_pow2(0x%s)", HX(&x, hx1));
			if (!vh_case_failed) vh_nontrivial();
		}
		/* two-argument helpers */
		if (begin_case("bn_digit_mult")) {
			d_op = "bn_digit_mult";
			for (j = 0; j < ds->n; j ++) {
				vs_get(ds, j, &y); dy = r_to_digit(&y);
				CALL_COUNT();
				lo = hi = 0x5a;
				g_crashed = 0;
				GUARDED(bn_digit_mult(dx, dy, &lo, &hi));
				if (g_crashed) continue;
				r_mul(&want, &x, &y);
				r_from_digit(&t, hi); r_shl(&t, &t, W); r_from_digit(&q, lo); r_add(&t, &t, &q);
				if (!r_eq(&t, &want)) vh_fail("value", "0x%s * 0x%s = 0x%s want 0x%s", HX(&x, hx1), HX(&y, hx2), HX(&t, hx3), HX(&want, hx4));
				else vh_nontrivial();
			}
		}
		if (begin_case("bn_digit_gcd")) {
			d_op = "bn_digit_gcd / bn_digit_gcd_bin";
			for (j = 0; j < ds->n; j ++) {
				g1 = 0; g2 = 0;
				vs_get(ds, j, &y); dy = r_to_digit(&y);
				CALL_COUNT();
				g_crashed = 0;
				GUARDED(g1 = bn_digit_gcd(dx, dy));
				GUARDED(g2 = bn_digit_gcd_bin(dx, dy));
				if (g_crashed) continue;
				r_gcd(&want, &x, &y);
				r_from_digit(&t, g1); r_from_digit(&q, g2);
				if (!r_eq(&t, &want)) vh_fail("value", "bn_digit_gcd(0x%s, 0x%s) = 0x%s want 0x%s", HX(&x, hx1), HX(&y, hx2), HX(&t, hx3), HX(&want, hx4));
				else if (!r_eq(&q, &want)) vh_fail("value-bin", "bn_digit_gcd_bin(0x%s, 0x%s) = 0x%s want 0x%s", HX(&x, hx1), HX(&y, hx2), HX(&q, hx3), HX(&want, hx4));
				else vh_nontrivial();
			}
		}
		/* three-argument: (hi:lo) / divisor with x = divisor */
		if (begin_case("bn_digit_div")) {
			d_op = "bn_digit_div (first argument is the divisor)";
			/* dividend high: every value in the thorough tier, the extended digit alphabet in quick */
			const vset_t *dh = (vh_thorough || ds != &VS_EX1) ? ds : &VS_DX;
			for (j = 0; j < ds->n; j ++) for (k = 0; k < dh->n; k ++) {
				rc = -1; rcs = -1; qs = 0;
				vs_get(ds, j, &y); dy = r_to_digit(&y);	/* dividend low */
				vs_get(dh, k, &z); dz = r_to_digit(&z);	/* dividend high */
				CALL_COUNT();
				lo = hi = rlo = rhi = 0x5a;
				g_crashed = 0;
				GUARDED(rc = bn_digit_div(dy, dz, dx, &lo, &hi, &rlo, &rhi));
				GUARDED(rcs = bn_digit_div__int_short(dy, dz, dx, &qs));
				if (g_crashed) continue;
				if (r_is_zero(&x)) {
					if (RC_OK(rc) || RC_OK(rcs)) vh_fail("div-by-zero-accepted", "0x%s:0x%s / 0 returned 0", HX(&z, hx1), HX(&y, hx2));
					continue;
				}
				if (!RC_OK(rc) || !RC_OK(rcs)) continue;
				r_shl(&N, &z, W); r_add(&N, &N, &y);
				r_divmod(&q, &r, &N, &x);
				r_from_digit(&t, hi); r_shl(&t, &t, W); r_from_digit(&want, lo); r_add(&t, &t, &want);
				if (!r_eq(&t, &q)) { vh_fail("value", "0x%s / 0x%s: quotient 0x%s want 0x%s", HX(&N, hx1), HX(&x, hx2), HX(&t, hx3), HX(&q, hx4)); continue; }
				r_from_digit(&t, rlo);
				if (!r_eq(&t, &r)) { vh_fail("value", "0x%s %% 0x%s: remainder_lo 0x%s want 0x%s", HX(&N, hx1), HX(&x, hx2), HX(&t, hx3), HX(&r, hx4)); continue; }
				if (0 != rhi) { r_from_digit(&t, rhi); vh_fail("value-remainder-hi", "0x%s %% 0x%s: remainder_hi 0x%s, a remainder is below the one-digit divisor so it must be 0", HX(&N, hx1), HX(&x, hx2), HX(&t, hx3)); continue; }
				r_from_digit(&t, qs); r_trunc(&want, &q, W);
				if (!r_eq(&t, &want)) { vh_fail("value-short", "bn_digit_div__int_short 0x%s / 0x%s: low quotient digit 0x%s want 0x%s", HX(&N, hx1), HX(&x, hx2), HX(&t, hx3), HX(&want, hx4)); continue; }
				vh_nontrivial();
			}
		}
	}
	vh_set_describer(describe);
}
