static void run_digit(void) {}
