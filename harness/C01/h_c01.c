/*
 * C01 - multi-precision integer arithmetic is exact or fails loudly.
 *
 * One binary per build configuration (digit width x BN_CC_MULL_DIV x compiler x -O).
 * Compile-time knobs (set by run.py):
 *   -DBN_DIGIT_BIT_CNT=8|16|32|64|128  [-DBN_CC_MULL_DIV]  -DBN_BIT_LEN=16*width
 *   -DC01_SCOPE=0  W=8 exhaustive: all 1-digit x 2-digit operand pairs (both orders) + alphabet to 4 digits
 *              1  structural alphabet, operands of <= 3 digits (343 values)
 *              2  structural alphabet, operands of <= 2 digits (43 values)
 *
 * A vh "case" is (operation, first operand, capacity) - or (operation, modulus, capacity)
 * for the modular layer; inside a case the second operand runs over its whole value set.
 * The number of library calls compared with the oracle is reported as STAT <target> calls.
 */
#include <sys/param.h>
#include <errno.h>
#include <setjmp.h>
#include <signal.h>
#include <inttypes.h>
#include <time.h>
#include <sys/personality.h>

#ifndef BN_DIGIT_BIT_CNT
#error "BN_DIGIT_BIT_CNT must be given"
#endif
#ifndef BN_BIT_LEN
#define BN_BIT_LEN (16 * BN_DIGIT_BIT_CNT)
#endif
#ifndef C01_SCOPE
#define C01_SCOPE 1
#endif
#include "vh.h"
/* reference integers must hold the product of two 4-digit values (+ margin) */
#define RL ((8 * BN_DIGIT_BIT_CNT) / 32 + 4)
#include "ref.h"

/* The library is header-only, so its calls to memmove/memset/memcpy can be routed through a
 * size check: a length above 1 MiB can only be a wrapped-around size_t.  Reported as clause
 * "wild-mem-size" and the library call is abandoned (ASan would abort the whole process on
 * such a call; normal sizes still go to ASan's interceptors). */
static void *c01_memmove(void *d, const void *s, size_t n);
static void *c01_memcpy(void *d, const void *s, size_t n);
static void *c01_memset(void *d, int c, size_t n);
#define memmove	c01_memmove
#define memcpy	c01_memcpy
#define memset	c01_memset
#include "math/big_num.h"
#undef memmove
#undef memcpy
#undef memset

#define W	((int)BN_DIGIT_BITS)
#define DSZ	((size_t)BN_DIGIT_SIZE)
#ifndef MAXCAP
#define MAXCAP	4		/* capacities of plain operands: 1..4 digits (the full-capacity builds: BN_BIT_LEN = MAXCAP = 2 digits) */
#endif

/* ------------------------------------------------------------------ operand arena
 * Every bn_t handed to the library lives at the END of its own page, followed by a
 * PROT_NONE page: a run-away memmove/memset inside the library faults at once and can
 * only damage the operand itself.  SIGSEGV/SIGBUS/SIGFPE inside a guarded library call
 * are turned into a "crash" clause of the current case and enumeration continues. */
#define NSLOTS 12
static bn_p slot[NSLOTS];
static int g_crashed = 0;
static sigjmp_buf g_jb;
static volatile sig_atomic_t g_armed = 0;
static volatile int g_sig = 0;

/* Byte buffers handed to the library (export output, NAF/JSF arrays, import input) end exactly at a
 * PROT_NONE page as well: the first byte written or read past the stated size faults, nothing else is damaged. */
#define GBUF_MAX 8192
static uint8_t *gbuf_end[2];	/* [0] output, [1] input: address of the guard page */
static volatile uintptr_t g_fault_addr = 0;
static long g_pagesz = 4096;
static uint8_t *
gbuf(int which, size_t size) { return (gbuf_end[which] - size); }
/* operands of the library call in flight, for the messages of crash_report()/wild_size() */
static const R *g_cur_a = NULL, *g_cur_b = NULL;
static size_t g_cur_k = 0;
static char g_hxa[300], g_hxb[300];
static const char *
cur_operands(char *buf, size_t n) {
	snprintf(buf, n, "[a=0x%s b=0x%s k=%zu]", g_cur_a ? r_hex(g_cur_a, g_hxa, sizeof(g_hxa)) : "-",
	    g_cur_b ? r_hex(g_cur_b, g_hxb, sizeof(g_hxb)) : "-", g_cur_k);
	return (buf);
}

static void
on_fault(int sig, siginfo_t *si, void *ctx) {
	(void)ctx;
	if (g_armed) {
		g_armed = 0;
		g_sig = sig;
		g_fault_addr = (uintptr_t)si->si_addr;
		siglongjmp(g_jb, 1);
	}
	signal(sig, SIG_DFL);
	raise(sig);
}
static void
arena_init(void) {
	long pg = sysconf(_SC_PAGESIZE);
	size_t span = ((sizeof(bn_t) + (size_t)pg - 1) / (size_t)pg) * (size_t)pg;
	int i;
	struct sigaction sa;
	for (i = 0; i < NSLOTS; i ++) {
		uint8_t *m = (uint8_t *)mmap(NULL, span + (size_t)pg, PROT_READ | PROT_WRITE,
		    MAP_PRIVATE | MAP_ANONYMOUS, -1, 0);
		if (MAP_FAILED == m) { perror("mmap"); exit(2); }
		mprotect(m + span, (size_t)pg, PROT_NONE);
		slot[i] = (bn_p)(void *)(m + span - sizeof(bn_t));
	}
	g_pagesz = pg;
	for (i = 0; i < 2; i ++) {
		uint8_t *m = (uint8_t *)mmap(NULL, GBUF_MAX + (size_t)pg, PROT_READ | PROT_WRITE,
		    MAP_PRIVATE | MAP_ANONYMOUS, -1, 0);
		if (MAP_FAILED == m) { perror("mmap"); exit(2); }
		mprotect(m + GBUF_MAX, (size_t)pg, PROT_NONE);
		gbuf_end[i] = m + GBUF_MAX;
	}
	memset(&sa, 0, sizeof(sa));
	sa.sa_sigaction = on_fault;
	sa.sa_flags = SA_NODEFER | SA_SIGINFO;
	sigaction(SIGSEGV, &sa, NULL);
	sigaction(SIGBUS, &sa, NULL);
	sigaction(SIGFPE, &sa, NULL);
}
/* GUARDED(stmt): returns into the else-branch when stmt faulted. */
#define GUARDED(stmt) do {							\
	g_sig = 0;								\
	if (0 == sigsetjmp(g_jb, 0)) { g_armed = 1; stmt; g_armed = 0; }	\
	else { crash_report(); }						\
} while (0)
static void
crash_report(void) {
	char ob[700];
	if (g_crashed) return;	/* wild size already reported */
	g_crashed = 1;
	cur_operands(ob, sizeof(ob));
	if (g_fault_addr >= (uintptr_t)gbuf_end[0] && g_fault_addr < (uintptr_t)gbuf_end[0] + (uintptr_t)g_pagesz)
		vh_fail("output-buffer-overflow", "the library wrote %lu byte(s) past the end of the caller's buffer %s", (unsigned long)(g_fault_addr - (uintptr_t)gbuf_end[0]) + 1, ob);
	else if (g_fault_addr >= (uintptr_t)gbuf_end[1] && g_fault_addr < (uintptr_t)gbuf_end[1] + (uintptr_t)g_pagesz)
		vh_fail("input-buffer-overread", "the library read past the end of the caller's input buffer %s", ob);
	else
		vh_fail("fault-signal", "signal %d inside the library call %s", g_sig, ob);
}

static void
wild_size(const char *fn, size_t n) {
	char ob[700];
	vh_fail("wild-mem-size", "%s called with size %zu (size_t wrap-around) inside the library call %s", fn, n, cur_operands(ob, sizeof(ob)));
	g_crashed = 1;
	if (g_armed) { g_armed = 0; siglongjmp(g_jb, 2); }
	abort();
}
#define WILD (((size_t)1) << 20)
static void *c01_memmove(void *d, const void *s, size_t n) { if (n > WILD) wild_size("memmove", n); return (memmove(d, s, n)); }
static void *c01_memcpy(void *d, const void *s, size_t n) { if (n > WILD) wild_size("memcpy", n); return (memcpy(d, s, n)); }
static void *c01_memset(void *d, int c, size_t n) { if (n > WILD) wild_size("memset", n); return (memset(d, c, n)); }

/* ------------------------------------------------------------------ deterministic "uninitialised" stack
 * The library's temporaries (bn_t tmp on the stack, bn_assign_init copies only `digits` digits) are stale storage
 * too.  Before every library call the stack region below the caller is painted with the current stale pattern, so a
 * read of an uninitialised temporary digit behaves like a read of stale operand storage: deterministic, and different
 * between the 0xA5 and the 0x00 run.  This needs the real stack: ASan's fake stack (detect_stack_use_after_return,
 * switched on in vh.h) is switched off by re-executing with ASAN_OPTIONS once (also under --only replays); the same
 * re-execution switches address space randomisation off. */
#define PAINT_BYTES (72 * sizeof(bn_t))
static __attribute__((noinline)) void
paint_stack(uint8_t fill) {
	volatile uint8_t area[PAINT_BYTES];
	memset((void *)area, fill, sizeof(area));
	__asm__ volatile ("" : : "r"(area) : "memory");
}
static void
reexec_without_fake_stack(char **argv) {
#ifdef VH_HAS_ASAN
	const char *cur = getenv("ASAN_OPTIONS");
	char buf[1024];
	if (NULL != getenv("C01_REEXEC")) return;
	snprintf(buf, sizeof(buf), "%s%sdetect_stack_use_after_return=0", cur ? cur : "", cur ? ":" : "");
	setenv("ASAN_OPTIONS", buf, 1);
	setenv("C01_REEXEC", "1", 1);
	(void)personality(ADDR_NO_RANDOMIZE);	/* same addresses in every run: even garbage that is a pointer is reproducible */
	execv("/proc/self/exe", argv);
	perror("execv");	/* fall through: run anyway */
#else
	(void)argv;
#endif
}
#define NOINLINE __attribute__((noinline))

/* ------------------------------------------------------------------ self-imposed deadline
 * C01_DEADLINE=<unix time>: after it every remaining case is counted as skipped (NOTE deadline_skipped)
 * so that the run still ends with its STAT lines; run.py then reports exhaustive=false. */
static time_t g_deadline = 0;
static uint64_t g_deadline_skipped = 0;
static int
begin_case(const char *target) {
	if (!vh_begin(target)) return (0);
	if (0 != g_deadline && NULL == vh_only_target && time(NULL) > g_deadline) {
		g_deadline_skipped ++;
		vh_targets[vh_cur].run --;
		return (0);
	}
	return (1);
}

/* ------------------------------------------------------------------ per target call counter */
static uint64_t calls_by_target[VH_MAX_TARGETS];
#define CALL_COUNT() (calls_by_target[vh_cur] ++)
static void
calls_print(void) {
	int i;
	for (i = 0; i < vh_ntargets; i ++)
		printf("STAT\t%s\tcalls\t%llu\n", vh_targets[i].name, (unsigned long long)calls_by_target[i]);
}

/* ------------------------------------------------------------------ bn <-> R */
static uint8_t g_fill = 0xA5;	/* stale-storage pattern of the current run */

static size_t
r_ndigits(const R *v) { return ((size_t)(r_bitlen(v) + W - 1) / (size_t)W); }

/* Build operand: whole struct is `fill`, then count/digits and the significant digits. */
static void
bn_make(bn_p x, const R *v, size_t count, uint8_t fill) {
	size_t nd = r_ndigits(v), i;
	uint8_t *p;
	memset(x, fill, sizeof(*x));
	x->count = count;
	x->digits = nd;
	p = (uint8_t *)x->num;
	for (i = 0; i < nd * DSZ; i ++)	/* host is little endian (assumption recorded in run.py) */
		p[i] = r_byte(v, i);
}
static void
bn_read(const bn_p x, R *v) {
	size_t nd = x->digits;
	if (nd > BN_MAX_DIGITS) nd = BN_MAX_DIGITS;
	r_from_le(v, (const uint8_t *)x->num, nd * DSZ);
}
static bn_digit_t
r_to_digit(const R *v) {
	bn_digit_t d = 0; size_t i;
	for (i = 0; i < DSZ; i ++) d |= ((bn_digit_t)r_byte(v, i)) << (8 * i);
	return (d);
}
static void
r_from_digit(R *v, bn_digit_t d) { r_from_le(v, (const uint8_t *)&d, DSZ); }
/* B^count as R */
static void
r_capacity(R *v, size_t count) { R one; r_set_u64(&one, 1); r_shl(v, &one, (int)(count * (size_t)W)); }

static char hx1[300], hx2[300], hx3[300], hx4[300];
#define HX(v, b) r_hex((v), (b), sizeof(b))

/* Normal form of a result: digits <= count and the top significant digit is non-zero. */
static int
bn_denorm(const bn_p x) {
	if (x->digits > x->count || x->digits > BN_MAX_DIGITS) return (1);
	if (x->digits > 0 && 0 == x->num[x->digits - 1]) return (1);
	return (0);
}

/* ------------------------------------------------------------------ value sets */
typedef struct { int kind; size_t n; R *arr; } vset_t;	/* kind 0: 0..n-1, kind 1: table */
static vset_t VS_EX1, VS_EX2, VS_A2, VS_A3, VS_R4, VS_D, VS_DX, VS_BB;

static void
vs_get(const vset_t *s, size_t i, R *v) {
	if (0 == s->kind) r_set_u64(v, (uint64_t)i);
	else *v = s->arr[i];
}
/* the 7 structural digits */
static void
alpha_digit(int k, R *v) {
	R one, max; r_set_u64(&one, 1);
	r_shl(&max, &one, W); r_sub(&max, &max, &one);	/* MAX */
	switch (k) {
	case 0: r_zero(v); break;
	case 1: r_set_u64(v, 1); break;
	case 2: r_set_u64(v, 2); break;
	case 3: r_shr(v, &max, 1); break;			/* MAX/2 */
	case 4: r_shr(v, &max, 1); r_add(v, v, &one); break;	/* MAX/2+1 */
	case 5: r_sub(v, &max, &one); break;			/* MAX-1 */
	default: *v = max; break;
	}
}
/* all distinct values with <= k digits over the alphabet (leading digit non-zero), zero first */
static void
vs_alpha(vset_t *s, int k) {
	size_t cap = 1, n = 0, len; int i;
	for (i = 0; i < k; i ++) cap *= 7;
	s->kind = 1; s->arr = (R *)calloc(cap, sizeof(R));
	r_zero(&s->arr[n ++]);
	for (len = 1; len <= (size_t)k; len ++) {
		size_t combos = 1, c;
		for (i = 0; i < (int)len; i ++) combos *= 7;
		for (c = 0; c < combos; c ++) {
			size_t t = c; R v, d; int top = 0;
			r_zero(&v);
			for (i = 0; i < (int)len; i ++) {	/* digit i (little endian) */
				int sym = (int)(t % 7); t /= 7;
				alpha_digit(sym, &d);
				r_shl(&d, &d, i * W);
				r_add(&v, &v, &d);
				top = sym;
			}
			if (0 == top) continue;	/* not canonical: equals a shorter vector */
			s->arr[n ++] = v;
		}
	}
	s->n = n;
}
/* digit-level alphabet: structural digits + half-digit boundaries + bit patterns */
static void
vs_digits(vset_t *s, int extended) {
	R one, t, max; size_t n = 0; int i;
	s->kind = 1; s->arr = (R *)calloc(32, sizeof(R));
	r_set_u64(&one, 1);
	r_shl(&max, &one, W); r_sub(&max, &max, &one);
	for (i = 0; i < 7; i ++) alpha_digit(i, &s->arr[n ++]);
	if (extended) {
		r_set_u64(&s->arr[n ++], 3);
		r_set_u64(&s->arr[n ++], 5);
		r_shl(&t, &one, W / 2); s->arr[n ++] = t;			/* 2^(W/2) */
		r_sub(&s->arr[n], &t, &one); n ++;				/* 2^(W/2)-1 */
		r_add(&s->arr[n], &t, &one); n ++;				/* 2^(W/2)+1 */
		r_shl(&t, &one, W - 2); s->arr[n ++] = t;			/* 2^(W-2) */
		r_shl(&t, &max, W / 2); r_trunc(&s->arr[n ++], &t, W);		/* high half all ones */
		r_zero(&t); for (i = 0; i < W; i += 2) r_setbit(&t, i, 1); s->arr[n ++] = t;	/* 0x55.. */
		r_zero(&t); for (i = 1; i < W; i += 2) r_setbit(&t, i, 1); s->arr[n ++] = t;	/* 0xAA.. */
		r_set_u64(&s->arr[n ++], 10);
	}
	s->n = n;
}
/* values of exactly 4 digits over the reduced alphabet {0, 1, MAX/2+1, MAX} (top digit non-zero) */
static void
vs_reduced4(vset_t *s) {
	static const int sym[4] = { 0, 1, 4, 6 };
	size_t c, n = 0; int i;
	s->kind = 1; s->arr = (R *)calloc(256, sizeof(R));
	for (c = 0; c < 256; c ++) {
		R v, d; size_t t = c; int top = 0;
		r_zero(&v);
		for (i = 0; i < 4; i ++) { top = sym[t % 4]; t /= 4; alpha_digit(top, &d); r_shl(&d, &d, i * W); r_add(&v, &v, &d); }
		if (0 == top) continue;
		s->arr[n ++] = v;
	}
	s->n = n;
}
/* byte-boundary values for import/export: top digit 2^(8k)-1, 2^(8k), 2^(8k+1)-1, 2^(8k+1) for every byte
 * position k inside a digit, alone and above one lower digit (0 or MAX) */
static void
vs_bytebound(vset_t *s) {
	size_t n = 0; int k, v, lowsel; R one, top, low, t;
	s->kind = 1; s->arr = (R *)calloc(4 * 3 * (DSZ ? DSZ : 1) + 4, sizeof(R));
	r_set_u64(&one, 1);
	for (k = 1; k < (int)DSZ; k ++) for (v = 0; v < 4; v ++) {
		r_shl(&top, &one, 8 * k + (v >= 2));
		if (0 == (v & 1)) r_sub(&top, &top, &one);
		for (lowsel = 0; lowsel < 3; lowsel ++) {
			if (0 == lowsel) { s->arr[n ++] = top; continue; }
			alpha_digit((1 == lowsel) ? 0 : 6, &low);
			r_shl(&t, &top, W); r_add(&t, &t, &low);
			s->arr[n ++] = t;
		}
	}
	s->n = n;
}
static void
vsets_init(void) {
	VS_EX1.kind = 0; VS_EX1.n = 256;
	VS_EX2.kind = 0; VS_EX2.n = 65536;
	vs_alpha(&VS_A2, 2);
	vs_alpha(&VS_A3, 3);
	vs_reduced4(&VS_R4);
	vs_bytebound(&VS_BB);
	vs_digits(&VS_D, 0);
	vs_digits(&VS_DX, 1);
}

/* The operand-set pairs a binary operation is run over in this scope.
 * lite: exhaustive sets - two capacities (tight, maximal), the stale fill alternates with the
 *       second operand instead of running both fills; core: only add/sub/mult/div/cmp. */
typedef struct { const vset_t *a, *b; int lite, core_only; } vpair_t;
static vpair_t g_pairs[6];
static int g_npairs = 0;
typedef struct { const vset_t *a; int lite; } vun_t;
static vun_t g_unary[4];
static int g_nunary = 0;
static const vset_t *g_small;	/* modest set for expensive operations */
static void
add_pair(const vset_t *a, const vset_t *b, int lite, int core_only) {
	g_pairs[g_npairs].a = a; g_pairs[g_npairs].b = b; g_pairs[g_npairs].lite = lite; g_pairs[g_npairs ++].core_only = core_only;
}
static void
scope_init(void) {
#if C01_SCOPE == 0
	add_pair(&VS_EX2, &VS_EX1, 1, 1);
	add_pair(&VS_EX1, &VS_EX2, 1, 1);
	add_pair(&VS_EX1, &VS_EX1, 0, 0);
	add_pair(&VS_A3, &VS_A3, 0, 0);
	add_pair(&VS_R4, &VS_R4, 0, 0);
	g_unary[g_nunary].a = &VS_EX2; g_unary[g_nunary ++].lite = 1;
	g_unary[g_nunary].a = &VS_A3; g_unary[g_nunary ++].lite = 0;
	g_unary[g_nunary].a = &VS_R4; g_unary[g_nunary ++].lite = 0;
	g_small = &VS_A3;
#elif C01_SCOPE == 1
	add_pair(&VS_A3, &VS_A3, 0, 0);
	add_pair(&VS_R4, &VS_R4, 0, 0);
	g_unary[g_nunary].a = &VS_A3; g_unary[g_nunary ++].lite = 0;
	g_unary[g_nunary].a = &VS_R4; g_unary[g_nunary ++].lite = 0;
	g_small = &VS_A3;
#else
	add_pair(&VS_A2, &VS_A2, 0, 0);
	g_unary[g_nunary].a = &VS_A2; g_unary[g_nunary ++].lite = 0;
	g_small = &VS_A2;
#endif
}

/* case description */
static const char *d_op; static R d_a; static size_t d_cap; static const char *d_set;
static void
describe(char *b, size_t n) {
	snprintf(b, n, "%s W=%d a=0x%s cap=%zu digit(s) over %s", d_op, W, HX(&d_a, hx4), d_cap, d_set);
}
static const char *
vs_name(const vset_t *s) {
	if (s == &VS_EX1) return ("all 1-digit values");
	if (s == &VS_EX2) return ("all values < 2^16");
	if (s == &VS_A2) return ("alphabet<=2 digits");
	if (s == &VS_A3) return ("alphabet<=3 digits");
	if (s == &VS_R4) return ("reduced alphabet, 4 digits");
	if (s == &VS_BB) return ("byte-boundary values");
	return ("digits");
}

#define RC_OK(rc)	(0 == (rc))

/* CPU time per operation group (NOTE time_ms_<name>=...; summed over shards by run.py) */
#include <time.h>
#define TIMED(name, call) do { clock_t _c = clock(); call; printf("NOTE\ttime_ms_%s=%ld\n", name, (long)((clock() - _c) * 1000 / CLOCKS_PER_SEC)); } while (0)

#include "ops_arith.h"
#include "ops_mod.h"
#include "ops_io.h"
#include "ops_digit.h"

/* --refcheck: dump reference computations for run.py to verify with Python int */
static void
refcheck_dump(void) {
	size_t i, j; R a, b, t, q, m; vset_t *s = &VS_A3;
	for (i = 0; i < s->n; i += 7) for (j = 0; j < s->n; j += 11) {
		a = s->arr[i]; b = s->arr[j];
		r_add(&t, &a, &b); printf("R\tadd\t%s\t%s\t%s\n", HX(&a, hx1), HX(&b, hx2), HX(&t, hx3));
		r_mul(&t, &a, &b); printf("R\tmul\t%s\t%s\t%s\n", HX(&a, hx1), HX(&b, hx2), HX(&t, hx3));
		if (r_cmp(&a, &b) >= 0) { r_sub(&t, &a, &b); printf("R\tsub\t%s\t%s\t%s\n", HX(&a, hx1), HX(&b, hx2), HX(&t, hx3)); }
		if (!r_is_zero(&b)) {
			r_divmod(&q, &m, &a, &b);
			printf("R\tdiv\t%s\t%s\t%s\n", HX(&a, hx1), HX(&b, hx2), HX(&q, hx3));
			printf("R\tmod\t%s\t%s\t%s\n", HX(&a, hx1), HX(&b, hx2), HX(&m, hx3));
			r_powmod(&t, &a, &a, &b); printf("R\tpowmod\t%s\t%s\t%s\n", HX(&a, hx1), HX(&b, hx2), HX(&t, hx3));
		}
		r_gcd(&t, &a, &b); printf("R\tgcd\t%s\t%s\t%s\n", HX(&a, hx1), HX(&b, hx2), HX(&t, hx3));
		r_and(&t, &a, &b); printf("R\tand\t%s\t%s\t%s\n", HX(&a, hx1), HX(&b, hx2), HX(&t, hx3));
		r_xor(&t, &a, &b); printf("R\txor\t%s\t%s\t%s\n", HX(&a, hx1), HX(&b, hx2), HX(&t, hx3));
		r_mul(&t, &a, &b); r_isqrt(&q, &t); printf("R\tisqrt\t%s\t0\t%s\n", HX(&t, hx1), HX(&q, hx3));
		r_shl(&t, &a, (int)(j % 48)); r_set_u64(&q, j % 48); printf("R\tshl\t%s\t%s\t%s\n", HX(&a, hx1), HX(&q, hx2), HX(&t, hx3));
		r_shr(&t, &a, (int)(j % 48)); printf("R\tshr\t%s\t%s\t%s\n", HX(&a, hx1), HX(&q, hx2), HX(&t, hx3));
	}
	printf("R\tovf\t%x\t0\t0\n", r_ovf);
}

int
main(int argc, char **argv) {
	int i;
	reexec_without_fake_stack(argv);
	vh_init(argc, argv);
	vsets_init();
	for (i = 1; i < argc; i ++) {
		if (0 == strcmp(argv[i], "--refcheck")) { refcheck_dump(); return (0); }
	}
	if (NULL != getenv("C01_DEADLINE")) g_deadline = (time_t)strtoll(getenv("C01_DEADLINE"), NULL, 10);
	arena_init();
	scope_init();
	vh_set_describer(describe);

	run_arith();
	run_mod();
	run_io();
	TIMED("digit", run_digit());

	if (g_deadline_skipped) printf("NOTE\tdeadline_skipped=%llu\n", (unsigned long long)g_deadline_skipped);
	if (r_ovf) printf("NOTE\tref_overflow=1\n");	/* run.py turns this into a harness error */
	calls_print();
	return (vh_finish());
}
