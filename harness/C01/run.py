"""C01 - multi-precision integer arithmetic is exact or fails loudly.
Small-scope exhaustive enumeration of include/math/big_num.h over a configuration matrix."""
import math, os, subprocess, time
from concurrent.futures import ThreadPoolExecutor
from vlib import core

WIDTHS = (8, 16, 32, 64, 128)
SCOPE_TXT = {0: '8-bit exhaustive: all 1-digit x 2-digit operand pairs (both orders), all values < 2^16 for unary ops, '
                'all 1-digit moduli with all operands below them, all odd primes < 2^8 with all residues, alphabet to 4 digits',
             1: 'structural alphabet {0,1,2,MAX/2,MAX/2+1,MAX-1,MAX}, operands of <= 3 digits (343 values), capacities 1..4 digits',
             2: 'structural alphabet, operands of <= 2 digits (43 values), capacities 1..4 digits',
             3: 'FULL compile-time capacity: BN_BIT_LEN = 2 digits, structural alphabet of <= 2 digits (43 values), capacities 1..2: '
                'operands and moduli as wide as a bn_t can be, so that every temporary that needs a spare digit or bit has none'}


def variants():
    """The 9 digit-width x multiply/divide variants (128-bit digits have no compiler double digit)."""
    return [(w, cc) for w in WIDTHS for cc in (True, False) if not (w == 128 and cc)]


def cfg_name(w, cc, comp, opt, scope):
    return 'w%d_%s_%s%s_s%d' % (w, 'cc' if cc else 'port', comp, opt.replace('-', ''), scope)


def matrix(tier):
    """(width, cc, compiler, opt, scope) - explicit, finite, recorded in the evidence."""
    m = []
    if tier == 'quick':
        # every option value at least once; gcc -O2 as in the design
        for w, cc in variants():
            scope = 0 if w == 8 else (1 if (w, cc) in ((16, False), (32, True), (64, True)) else 2)
            m.append((w, cc, 'gcc', '-O2', scope))
        for w, cc in variants():
            m.append((w, cc, 'gcc', '-O2', 3))
        # cheap alphabets first, the 8-bit exhaustive scope last: a deadline on an overloaded machine then costs depth, not breadth
        m.sort(key=lambda c: -c[4])
        return m
    # thorough: 9 variants x {gcc, clang} x {-O0, -O2, -O3} = 54 builds.  Every build of 8-bit digits runs the exhaustive
    # scope; the wide variants run the 3-digit alphabet at -O2 (both compilers) and the 2-digit alphabet at -O0/-O3.
    # Order = priority (a deadline cuts the tail): -O2 first, then -O3, then -O0.
    for opt in ('-O2', '-O3', '-O0'):
        blk = []
        for comp in ('gcc', 'clang'):
            for w, cc in variants():
                scope = 0 if w == 8 else (1 if opt == '-O2' else 2)
                blk.append((w, cc, comp, opt, scope))
                if opt != '-O0' or comp == 'gcc':
                    blk.append((w, cc, comp, opt, 3))
        blk.sort(key=lambda c: -c[4])   # within a block: alphabets before the 8-bit exhaustive scope
        m += blk
    return m


def build(c):
    w, cc, comp, opt, scope = c
    flags = ['-DBN_DIGIT_BIT_CNT=%d' % w, '-DBN_BIT_LEN=%d' % (16 * w), '-DC01_SCOPE=%d' % scope]
    if scope == 3:
        flags = ['-DBN_DIGIT_BIT_CNT=%d' % w, '-DBN_BIT_LEN=%d' % (2 * w), '-DMAXCAP=2', '-DC01_SCOPE=2']
    if cc:
        flags.append('-DBN_CC_MULL_DIV')
    return core.compile_c('C01', 'h_' + cfg_name(*c), ['harness/C01/h_c01.c'], flags=flags, cc=comp, opt=opt, san='asan', quiet=True)


def refcheck(rep, binary):
    """The C reference integers (ref.h) are themselves checked against Python int."""
    p = subprocess.run([binary, '--refcheck'], capture_output=True, text=True, timeout=300)
    fn = {'add': lambda a, b: a + b, 'mul': lambda a, b: a * b, 'sub': lambda a, b: a - b, 'div': lambda a, b: a // b,
          'mod': lambda a, b: a % b, 'powmod': lambda a, b: pow(a, a, b), 'gcd': math.gcd, 'and': lambda a, b: a & b,
          'xor': lambda a, b: a ^ b, 'isqrt': lambda a, b: math.isqrt(a), 'shl': lambda a, b: a << b, 'shr': lambda a, b: a >> b}
    n = bad = 0
    for line in p.stdout.splitlines():
        f = line.split('\t')
        if len(f) != 5 or f[0] != 'R':
            continue
        a, b, r = int(f[2], 16), int(f[3], 16), int(f[4], 16)
        if f[1] == 'ovf':
            bad += a != 0
            continue
        n += 1
        bad += fn[f[1]](a, b) != r
    if n < 1000 or bad:
        rep.harness_errors.append('reference integers disagree with Python int: %d of %d records' % (bad, n))
    rep.extra['reference_records_checked_against_python_int'] = n


def run(tier):
    rep = core.Report('C01', tier, 'exploration',
        'per build configuration: every (operation, operand tuple, capacity, stale-fill) of the stated scope is executed on the real '
        'header and its (return code, value) compared with independent reference integers; a case is non-trivial when the '
        'library reported success and the value was verified exact')
    rep.assumptions = [
        'reference = base-2^32 schoolbook/shift-subtract integers written for the harness (ref.h), cross-checked at check time '
        'against Python int and (thorough) against native uint64_t on all 2^32 8-bit-digit operand pairs',
        'host is little endian (operands are laid out bytewise)',
        'prime moduli of the wide configurations are a fixed list verified prime while writing the harness',
        'BN_BIT_LEN = 16 digits so that the library\'s own temporaries (4 + digits, 2*digits + 1) fit; the scope-3 configurations use BN_BIT_LEN = 2 digits instead: there the temporaries do NOT fit and every operation must be exact or fail loudly',
    ]
    mx = matrix(tier)
    only = [x for x in os.environ.get('C01_CONFIGS', '').split(',') if x]   # development/triage aid: substring filter on configuration names
    if only:
        mx = [c for c in mx if any(o in cfg_name(*c) for o in only)]
        rep.exhaustive = False
        rep.notes.append('configuration filter C01_CONFIGS=%s in effect' % ','.join(only))
    t0 = time.time()
    bins, skipped = {}, []

    def b1(c):
        try:
            return c, build(c), None
        except core.BuildError as e:
            return c, None, str(e)
    jobs = list(mx)
    with ThreadPoolExecutor(max_workers=core.NCPU) as ex:
        res = list(ex.map(b1, jobs))
        x32 = []
        if tier == 'thorough' and (not only or 'x32' in only):
            def bx(cc):
                fl = ['-DBN_CC_MULL_DIV'] if cc else []
                return core.compile_c('C01', 'h_x32_' + ('cc' if cc else 'port'), ['harness/C01/h_x32.c'], flags=fl, cc='gcc', opt='-O2', san='none')
            x32 = list(ex.map(bx, (True, False)))
    for c, b, err in res:
        if b is None:
            skipped.append('%s: does not compile: %s' % (cfg_name(*c), err.strip().splitlines()[-1] if err.strip() else '?'))
        else:
            bins[cfg_name(*c)] = b
    rep.extra['build_s'] = round(time.time() - t0, 1)
    if not bins:
        rep.harness_errors.append('no configuration compiled')
    else:
        wide = [n for n in bins if n.startswith('w128') or n.startswith('w64')]
        refcheck(rep, bins[(wide or list(bins))[0]])

    # The tier must terminate by itself: the harnesses stop taking new cases at C01_DEADLINE (and still print their
    # statistics); run_sharded's kill deadline is only the backstop behind that.
    budget = int(os.environ.get('C01_BUDGET', 0)) or (80 if tier == 'quick' else 840)
    budget = max(budget, int(time.time() - rep.t0) + 45)   # builds on an overloaded machine must not eat the whole window
    env = {'C01_DEADLINE': str(int(rep.t0 + budget))}
    # run order: the -O2 configurations, then (thorough) the 2^32-pair harness, then the remaining optimisation levels
    order = []
    for c in mx:
        name = cfg_name(*c)
        if name in bins:
            order.append((name, bins[name], {'name': name, 'digit_bits': c[0], 'BN_CC_MULL_DIV': c[1], 'cc': c[2], 'opt': c[3],
                                             'scope': SCOPE_TXT[c[4]]}))
    xjobs = []
    for i, b in enumerate(x32):
        name = 'x32_' + ('cc' if i == 0 else 'port')
        bins[name] = b
        xjobs.append((name, b, {'name': name, 'digit_bits': 8, 'BN_CC_MULL_DIV': i == 0, 'cc': 'gcc', 'opt': '-O2 (no ASan)',
                                'scope': 'all 2^32 operand pairs below 2^16 for add/sub/mult/div/cmp, native uint64_t oracle'}))
    n_o2 = sum(1 for j in order if 'O2' in j[0])
    order = order[:n_o2] + xjobs + order[n_o2:]
    for name, b, desc in order:
        left = budget - (time.time() - rep.t0)
        if left < 1:
            rep.exhaustive = False
            rep.notes.append('time budget exhausted before configuration %s' % name)
            continue
        t1 = time.time()
        core.run_sharded(rep, b, tier, config=name, deadline_s=left + 25, env=env)
        desc['wall_s'] = round(time.time() - t1, 1)
        rep.configs.append(desc)

    # fold the NOTE lines of all shards: counters are summed, the per-operation CPU times become two evidence fields
    agg, other, cpu = {}, [], {}
    for n in rep.notes:
        k, _, v = n.rpartition('=')
        if k and v.isdigit():
            if k.startswith('time_ms_'):
                cpu[k[8:]] = cpu.get(k[8:], 0) + int(v)
            else:
                agg[k] = agg.get(k, 0) + int(v)
        else:
            other.append(n)
    if agg.get('ref_overflow') or agg.get('ref_mismatch'):
        rep.harness_errors.append('reference integers overflowed or disagreed with native arithmetic: %r' % agg)
    if agg.get('deadline_skipped'):
        rep.exhaustive = False
    rep.notes = other + skipped + ['%s=%d' % kv for kv in sorted(agg.items())]
    rep.extra['cpu_s_in_enumeration'] = round(sum(cpu.values()) / 1000.0, 1)
    rep.extra['cpu_s_top_operations'] = {k: round(v / 1000.0, 1) for k, v in sorted(cpu.items(), key=lambda kv: -kv[1])[:12]}
    calls = sum(v.get('calls', 0) for v in rep.stats.values())
    rep.extra['evaluations'] = int(calls)            # library calls whose outcome was compared with the oracle
    rep.extra['cases'] = int(rep.total('run'))
    rep.extra['configurations_skipped'] = skipped
    if calls == 0 or rep.total('nontrivial') < 2:
        import sys
        sys.stderr.write('HARNESS-ERROR: nothing was evaluated (machine too loaded for the time budget, or no configuration built): %r\n' % (rep.harness_errors + rep.notes[-5:],))
        sys.exit(2)
    rep.finish(core.make_replayer(lambda cfg: bins[cfg], tier))
