/* Plain (non modular) operations.  Included by h_c01.c. */

typedef struct {
	volatile int rc;
	int	crashed;
	R	v1, v2;		/* primary / secondary result value (read through `digits`) */
	uint64_t aux;		/* carry, borrow, sign+1, predicate ... */
	int	den;		/* a result is not in normal form */
} res_t;

static int
res_same(const res_t *x, const res_t *y) {
	if (x->crashed || y->crashed) return (x->crashed == y->crashed);
	if (RC_OK(x->rc) != RC_OK(y->rc)) return (0);
	if (!RC_OK(x->rc)) return (1);	/* contents after an error are unspecified */
	return (r_eq(&x->v1, &y->v1) && r_eq(&x->v2, &y->v2) && x->aux == y->aux);
}
static uint64_t
flag_of(bn_digit_t d) { return ((0 == d) ? 0 : ((1 == d) ? 1 : 2)); }

static size_t
cap_min(const R *v) { size_t n = r_ndigits(v); return (n ? n : 1); }
/* capacity of a second operand: alternately tight and maximal */
static size_t
cap_alt(const R *v, size_t idx) { return ((idx & 1) ? MAXCAP : cap_min(v)); }

/* ================================================================== binary operations */
enum {
	B_ADD, B_ADD_NC, B_SUB, B_SUB_NB, B_MULT, B_DIV_QR, B_DIV_Q, B_DIV_R,
	B_AND, B_OR, B_XOR, B_CMP, B_GCD, B_GCD_BIN, B_GCD_A, B_GCD_BIN_A, B__N
};
static const char *bin_name[B__N] = {
	"bn_add", "bn_add/carry=NULL", "bn_sub", "bn_sub/borrow=NULL", "bn_mult",
	"bn_div/rem", "bn_div/rem=NULL", "bn_div/rem=bn",
	"bn_and", "bn_or", "bn_xor", "bn_cmp", "bn_gcd", "bn_gcd_bin", "bn_gcd/bn=a", "bn_gcd_bin/bn=a"
};

static NOINLINE void
exec_bin(int op, const R *a, size_t ca, const R *b, size_t cb, size_t cr, uint8_t fill, res_t *o) {
	bn_p X = slot[0], Y = slot[1], Z = slot[2];
	bn_digit_t fl = 0;
	R zero; r_zero(&zero);

	memset(o, 0, sizeof(*o));
	g_cur_a = a; g_cur_b = b; g_cur_k = ca;
	bn_make(X, a, ca, fill);
	bn_make(Y, b, cb, fill);
	bn_make(Z, &zero, cr, fill);
	g_crashed = 0;
	switch (op) {
	case B_ADD:	GUARDED(o->rc = bn_add(X, Y, &fl)); o->aux = flag_of(fl); break;
	case B_ADD_NC:	GUARDED(o->rc = bn_add(X, Y, NULL)); break;
	case B_SUB:	GUARDED(o->rc = bn_sub(X, Y, &fl)); o->aux = flag_of(fl); break;
	case B_SUB_NB:	GUARDED(o->rc = bn_sub(X, Y, NULL)); break;
	case B_MULT:	GUARDED(o->rc = bn_mult(X, Y)); break;
	case B_DIV_QR:	GUARDED(o->rc = bn_div(X, Y, Z)); break;
	case B_DIV_Q:	GUARDED(o->rc = bn_div(X, Y, NULL)); break;
	case B_DIV_R:	GUARDED(o->rc = bn_div(X, Y, X)); break;
	case B_AND:	GUARDED(o->rc = bn_and(X, Y)); break;
	case B_OR:	GUARDED(o->rc = bn_or(X, Y)); break;
	case B_XOR:	GUARDED(o->rc = bn_xor(X, Y)); break;
	case B_CMP:	GUARDED(o->aux = (uint64_t)(1 + bn_cmp(X, Y))); o->rc = 0; break;
	case B_GCD:	GUARDED(o->rc = bn_gcd(Z, X, Y)); break;
	case B_GCD_BIN:	GUARDED(o->rc = bn_gcd_bin(Z, X, Y)); break;
	case B_GCD_A:	GUARDED(o->rc = bn_gcd(X, X, Y)); break;
	case B_GCD_BIN_A: GUARDED(o->rc = bn_gcd_bin(X, X, Y)); break;
	}
	o->crashed = g_crashed;
	if (o->crashed || !RC_OK(o->rc))
		return;
	if (B_GCD == op || B_GCD_BIN == op) {
		bn_read(Z, &o->v1); o->den = bn_denorm(Z);
	} else if (B_CMP != op) {
		bn_read(X, &o->v1); o->den = bn_denorm(X);
		if (B_DIV_QR == op) { bn_read(Z, &o->v2); o->den |= bn_denorm(Z); }
	}
}

#define FAILV(clause, what) vh_fail(clause, "%s: a=0x%s (cap %zu) b=0x%s (cap %zu) rc=0 got=0x%s want=0x%s flag=%d stale=0x%02x", \
	what, HX(a, hx1), ca, HX(b, hx2), cb, HX(got, hx3), HX(&want, hx4), (int)o->aux, g_fill)

static void
check_bin(int op, const R *a, size_t ca, const R *b, size_t cb, const res_t *o) {
	R capv, want, t; const R *got = &o->v1;
	int bad = 0;

	if (o->crashed) return;	/* already reported */
	r_capacity(&capv, ca);
	if ((B_DIV_QR == op || B_DIV_Q == op || B_DIV_R == op) && r_is_zero(b)) {
		if (RC_OK(o->rc))
			vh_fail("div-by-zero-accepted", "a=0x%s b=0 returned 0", HX(a, hx1));
		return;
	}
	if (!RC_OK(o->rc)) return;	/* loud failure: always allowed */
	r_zero(&want);
	switch (op) {
	case B_ADD:
		r_add(&t, a, b);
		if (r_cmp(&t, &capv) >= 0) { r_sub(&want, &t, &capv); if (1 != o->aux) { bad = 1; FAILV("carry", "sum needs more than the capacity but carry != 1"); } }
		else { want = t; if (0 != o->aux) { bad = 1; FAILV("carry", "sum fits but carry != 0"); } }
		if (!r_eq(got, &want)) { bad = 1; FAILV("value", "bn+n"); }
		break;
	case B_ADD_NC:
		r_add(&want, a, b);
		if (r_cmp(&want, &capv) >= 0) return;	/* caller discarded the only overflow indicator: not judged */
		if (!r_eq(got, &want)) { bad = 1; FAILV("value", "bn+n"); }
		break;
	case B_SUB:
		if (r_cmp(a, b) >= 0) { r_sub(&want, a, b); if (0 != o->aux) { bad = 1; FAILV("borrow", "a>=b but borrow != 0"); } }
		else { r_add(&t, a, &capv); if (r_cmp(&t, b) < 0) { r_zero(&want); } else r_sub(&want, &t, b); if (1 != o->aux) { bad = 1; FAILV("borrow", "a<b but borrow != 1"); } }
		if (!r_eq(got, &want)) { bad = 1; FAILV("value", "bn-n (mod B^capacity when borrow)"); }
		break;
	case B_SUB_NB:
		if (r_cmp(a, b) < 0) return;
		r_sub(&want, a, b);
		if (!r_eq(got, &want)) { bad = 1; FAILV("value", "bn-n"); }
		break;
	case B_MULT:
		r_mul(&want, a, b);
		if (!r_eq(got, &want)) { bad = 1; FAILV("value", "bn*n"); }
		break;
	case B_DIV_QR:
		r_divmod(&want, &t, a, b);
		if (!r_eq(got, &want)) { bad = 1; FAILV("value", "quotient"); }
		got = &o->v2; want = t;
		if (!r_eq(got, &want)) { bad = 1; FAILV("value-remainder", "remainder"); }
		break;
	case B_DIV_Q:
		r_divmod(&want, NULL, a, b);
		if (!r_eq(got, &want)) { bad = 1; FAILV("value", "quotient"); }
		break;
	case B_DIV_R:
		r_divmod(NULL, &want, a, b);
		if (!r_eq(got, &want)) { bad = 1; FAILV("value", "remainder (bn == remainder)"); }
		break;
	case B_AND: r_and(&want, a, b); if (!r_eq(got, &want)) { bad = 1; FAILV("value", "bn&n"); } break;
	case B_OR:  r_or(&want, a, b);  if (!r_eq(got, &want)) { bad = 1; FAILV("value", "bn|n"); } break;
	case B_XOR: r_xor(&want, a, b); if (!r_eq(got, &want)) { bad = 1; FAILV("value", "bn^n"); } break;
	case B_CMP:
		if (o->aux != (uint64_t)(1 + r_cmp(a, b))) { bad = 1; vh_fail("value", "bn_cmp(0x%s, 0x%s) = %d stale=0x%02x", HX(a, hx1), HX(b, hx2), (int)o->aux - 1, g_fill); }
		break;
	case B_GCD: case B_GCD_BIN: case B_GCD_A: case B_GCD_BIN_A:
		r_gcd(&want, a, b);
		if (!r_eq(got, &want)) { bad = 1; FAILV("value", "gcd(a,b)"); }
		break;
	}
	if (!bad && o->den) { bad = 1; vh_fail("denormalized", "a=0x%s b=0x%s: value right but digits field/top digit not normal", HX(a, hx1), HX(b, hx2)); }
	if (!bad) vh_nontrivial();
}

static int
bin_is_core(int op) { return (B_ADD == op || B_SUB == op || B_MULT == op || B_DIV_QR == op || B_DIV_R == op || B_CMP == op); }
static void
run_bin_pair(int op, const vpair_t *vp) {
	const vset_t *sa = vp->a, *sb = vp->b;
	size_t i, j, ca; R a, b; res_t r1, r2;

	if (vp->core_only && !bin_is_core(op)) return;
	for (i = 0; i < sa->n; i ++) {
		vs_get(sa, i, &a);
		for (ca = cap_min(&a); ca <= MAXCAP; ca ++) {
			if (vp->lite && ca != ((B_MULT == op) ? 3u : 2u)) continue;	/* exhaustive 1x2-digit sets: the capacity where both overflow and success occur */
			if (!begin_case(bin_name[op])) continue;
			d_op = bin_name[op]; d_a = a; d_cap = ca; d_set = vs_name(sb);
			vh_publish_desc();
			for (j = 0; j < sb->n; j ++) {
				size_t cb, cr;
				vs_get(sb, j, &b);
				cb = cap_alt(&b, j);
				cr = 1 + ((i + j) % MAXCAP);	/* capacity of a separate result/remainder */
				CALL_COUNT();
				if (vp->lite) {
					g_fill = (j & 2) ? 0x00 : 0xA5;
					paint_stack(g_fill);
					exec_bin(op, &a, ca, &b, cb, cr, g_fill, &r1);
					check_bin(op, &a, ca, &b, cb, &r1);
					continue;
				}
				g_fill = 0xA5;
				paint_stack(0xA5);
				exec_bin(op, &a, ca, &b, cb, cr, 0xA5, &r1);
				check_bin(op, &a, ca, &b, cb, &r1);
				g_fill = 0x00;
				paint_stack(0x00);
				exec_bin(op, &a, ca, &b, cb, cr, 0x00, &r2);
				if (!res_same(&r1, &r2))
					vh_fail("stale-storage", "a=0x%s (cap %zu) b=0x%s (cap %zu): fill 0xA5 -> rc=%d v=0x%s flag=%d; fill 0x00 -> rc=%d v=0x%s flag=%d",
					    HX(&a, hx1), ca, HX(&b, hx2), cb, r1.rc, HX(&r1.v1, hx3), (int)r1.aux, r2.rc, HX(&r2.v1, hx4), (int)r2.aux);
			}
		}
	}
}

/* ================================================================== unary operations (one bn, scalars) */
enum {
	U_ADD_DIGIT, U_SUB_DIGIT, U_MULT_DIGIT, U_EXP_DIGIT, U_SQUARE, U_SQRT,
	U_LSHIFT, U_RSHIFT, U_BIT_TEST, U_BIT_SET, U_BIT_CLR, U_QUERIES,
	U_ADD_AL, U_SUB_AL, U_MULT_AL, U_AND_AL, U_OR_AL, U_XOR_AL, U_DIV_AL, U_DIV_AL_R, U_CMP_AL, U__N
};
static const char *un_name[U__N] = {
	"bn_add_digit", "bn_sub_digit", "bn_mult_digit", "bn_exp_digit", "bn_square", "bn_sqrt",
	"bn_l_shift", "bn_r_shift", "bn_is_bit_set", "bn_bit_set/1", "bn_bit_set/0", "bn_ctz_clz_bits",
	"bn_add/bn=n", "bn_sub/bn=n", "bn_mult/bn=n", "bn_and/bn=n", "bn_or/bn=n", "bn_xor/bn=n",
	"bn_div/bn=d", "bn_div/bn=d,rem", "bn_cmp/a=b"
};

#define FAILU(clause, fmt, ...) vh_fail(clause, "a=0x%s cap=%zu stale=0x%02x " fmt, HX(a, hx1), ca, g_fill, __VA_ARGS__)

/* one unary call; k is the scalar (digit value index, exponent, bit number ...) */
static NOINLINE void
exec_un(int op, const R *a, size_t ca, const R *kd, size_t k, uint8_t fill, res_t *o) {
	bn_p X = slot[0], Z = slot[2];
	bn_digit_t fl = 0, d = r_to_digit(kd);
	R zero; r_zero(&zero);

	memset(o, 0, sizeof(*o));
	g_cur_a = a; g_cur_b = kd; g_cur_k = k;
	bn_make(X, a, ca, fill);
	bn_make(Z, &zero, 1 + (k % MAXCAP), fill);
	g_crashed = 0;
	switch (op) {
	case U_ADD_DIGIT: GUARDED(bn_add_digit(X, d, &fl)); o->aux = flag_of(fl); break;
	case U_SUB_DIGIT: GUARDED(bn_sub_digit(X, d, &fl)); o->aux = flag_of(fl); break;
	case U_MULT_DIGIT: GUARDED(o->rc = bn_mult_digit(X, d)); break;
	case U_EXP_DIGIT: GUARDED(o->rc = bn_exp_digit(X, d)); break;
	case U_SQUARE:	GUARDED(o->rc = bn_square(X)); break;
	case U_SQRT:	GUARDED(o->rc = bn_sqrt(X)); break;
	case U_LSHIFT:	GUARDED(bn_l_shift(X, k)); break;
	case U_RSHIFT:	GUARDED(bn_r_shift(X, k)); break;
	case U_BIT_TEST: GUARDED(o->aux = (uint64_t)(0 != bn_is_bit_set(X, k))); break;
	case U_BIT_SET:	GUARDED(o->rc = bn_bit_set(X, k, 1)); break;
	case U_BIT_CLR:	GUARDED(o->rc = bn_bit_set(X, k, 0)); break;
	case U_ADD_AL:	GUARDED(o->rc = bn_add(X, X, &fl)); o->aux = flag_of(fl); break;
	case U_SUB_AL:	fl = 7; GUARDED(o->rc = bn_sub(X, X, &fl)); o->aux = flag_of(fl); break;
	case U_MULT_AL:	GUARDED(o->rc = bn_mult(X, X)); break;
	case U_AND_AL:	GUARDED(o->rc = bn_and(X, X)); break;
	case U_OR_AL:	GUARDED(o->rc = bn_or(X, X)); break;
	case U_XOR_AL:	GUARDED(o->rc = bn_xor(X, X)); break;
	case U_DIV_AL:	GUARDED(o->rc = bn_div(X, X, NULL)); break;
	case U_DIV_AL_R: GUARDED(o->rc = bn_div(X, X, Z)); break;
	case U_CMP_AL:	GUARDED(o->aux = (uint64_t)(1 + bn_cmp(X, X))); break;
	}
	o->crashed = g_crashed;
	if (o->crashed || !RC_OK(o->rc))
		return;
	bn_read(X, &o->v1); o->den = bn_denorm(X);
	if (U_DIV_AL_R == op) { bn_read(Z, &o->v2); o->den |= bn_denorm(Z); }
}

static void
check_un(int op, const R *a, size_t ca, const R *kd, size_t k, const res_t *o) {
	R capv, want, t; const R *got = &o->v1;
	int bad = 0, capbits = (int)(ca * (size_t)W);

	if (o->crashed) return;
	r_capacity(&capv, ca);
	r_zero(&want);
	if ((U_DIV_AL == op || U_DIV_AL_R == op) && r_is_zero(a)) {
		if (RC_OK(o->rc)) vh_fail("div-by-zero-accepted", "0/0 returned 0");
		return;
	}
	if (!RC_OK(o->rc)) return;
	switch (op) {
	case U_ADD_DIGIT:
		r_add(&t, a, kd);
		if (r_cmp(&t, &capv) >= 0) { r_sub(&want, &t, &capv); if (1 != o->aux) { bad = 1; FAILU("carry", "d=0x%s: sum overflows, carry=%d", HX(kd, hx2), (int)o->aux); } }
		else { want = t; if (0 != o->aux) { bad = 1; FAILU("carry", "d=0x%s: sum fits, carry=%d", HX(kd, hx2), (int)o->aux); } }
		if (!r_eq(got, &want)) { bad = 1; FAILU("value", "+ d=0x%s got=0x%s want=0x%s", HX(kd, hx2), HX(got, hx3), HX(&want, hx4)); }
		break;
	case U_SUB_DIGIT:
		if (r_cmp(a, kd) >= 0) { r_sub(&want, a, kd); if (0 != o->aux) { bad = 1; FAILU("borrow", "d=0x%s: a>=d, borrow=%d", HX(kd, hx2), (int)o->aux); } }
		else { r_add(&t, a, &capv); r_sub(&want, &t, kd); if (1 != o->aux) { bad = 1; FAILU("borrow", "d=0x%s: a<d, borrow=%d", HX(kd, hx2), (int)o->aux); } }
		if (!r_eq(got, &want)) { bad = 1; FAILU("value", "- d=0x%s got=0x%s want=0x%s", HX(kd, hx2), HX(got, hx3), HX(&want, hx4)); }
		break;
	case U_MULT_DIGIT:
		r_mul(&want, a, kd);
		if (!r_eq(got, &want)) { bad = 1; FAILU("value", "* d=0x%s rc=0 got=0x%s want=0x%s", HX(kd, hx2), HX(got, hx3), HX(&want, hx4)); }
		break;
	case U_EXP_DIGIT: {
		uint64_t e = r_fits_u64(kd) ? r_low_u64(kd) : UINT64_MAX;
		int toobig = r_pow_lim(&want, a, e, capbits + W);	/* does not fit: any rc=0 value is wrong */
		if (toobig) r_capacity(&want, ca);
		if (toobig || !r_eq(got, &want)) { bad = 1; FAILU("value", "^ e=0x%s rc=0 got=0x%s want=0x%s (or larger)", HX(kd, hx2), HX(got, hx3), HX(&want, hx4)); }
		break; }
	case U_SQUARE: case U_MULT_AL:
		r_mul(&want, a, a);
		if (!r_eq(got, &want)) { bad = 1; FAILU("value", "a*a rc=0 got=0x%s want=0x%s", HX(got, hx3), HX(&want, hx4)); }
		break;
	case U_SQRT:
		r_isqrt(&want, a);
		if (!r_eq(got, &want)) { bad = 1; FAILU("value", "isqrt rc=0 got=0x%s want=0x%s", HX(got, hx3), HX(&want, hx4)); }
		break;
	case U_LSHIFT:	/* a register of `capacity` digits: bits shifted out are lost (no error channel) */
		r_shl(&t, a, (int)k); r_trunc(&want, &t, capbits);
		if (!r_eq(got, &want)) { bad = 1; FAILU("value", "<< %zu got=0x%s want=0x%s", k, HX(got, hx3), HX(&want, hx4)); }
		break;
	case U_RSHIFT:
		r_shr(&want, a, (int)k);
		if (!r_eq(got, &want)) { bad = 1; FAILU("value", ">> %zu got=0x%s want=0x%s", k, HX(got, hx3), HX(&want, hx4)); }
		break;
	case U_BIT_TEST:
		if (o->aux != (uint64_t)r_bit(a, (int)k)) { bad = 1; FAILU("value", "bit %zu reported %d", k, (int)o->aux); }
		break;
	case U_BIT_SET:
		want = *a; r_setbit(&want, (int)k, 1);	/* k >= capacity: does not fit, rc=0 is wrong whatever the value */
		if ((int)k >= capbits || !r_eq(got, &want)) { bad = 1; FAILU("value", "set bit %zu rc=0 got=0x%s want=0x%s", k, HX(got, hx3), HX(&want, hx4)); }
		break;
	case U_BIT_CLR:
		want = *a; r_setbit(&want, (int)k, 0);
		if (!r_eq(got, &want)) { bad = 1; FAILU("value", "clear bit %zu rc=0 got=0x%s want=0x%s", k, HX(got, hx3), HX(&want, hx4)); }
		break;
	case U_ADD_AL:
		r_add(&t, a, a);
		if (r_cmp(&t, &capv) >= 0) { r_sub(&want, &t, &capv); if (1 != o->aux) { bad = 1; FAILU("carry", "a+a overflows, carry=%d", (int)o->aux); } }
		else { want = t; if (0 != o->aux) { bad = 1; FAILU("carry", "a+a fits, carry=%d", (int)o->aux); } }
		if (!r_eq(got, &want)) { bad = 1; FAILU("value", "a+a got=0x%s want=0x%s", HX(got, hx3), HX(&want, hx4)); }
		break;
	case U_SUB_AL: case U_XOR_AL:
		if (U_SUB_AL == op && 0 != o->aux) { bad = 1; FAILU("borrow", "a-a borrow=%d", (int)o->aux); }
		if (!r_is_zero(got)) { bad = 1; FAILU("value", "a op a must be 0, got=0x%s", HX(got, hx3)); }
		break;
	case U_AND_AL: case U_OR_AL:
		if (!r_eq(got, a)) { bad = 1; FAILU("value", "a op a must be a, got=0x%s", HX(got, hx3)); }
		break;
	case U_DIV_AL: case U_DIV_AL_R:
		if (!r_is_one(got) || !r_is_zero(&o->v2)) { bad = 1; FAILU("value", "a/a got q=0x%s r=0x%s", HX(got, hx3), HX(&o->v2, hx4)); }
		break;
	case U_CMP_AL:
		if (1 != o->aux) { bad = 1; FAILU("value", "cmp(a,a)=%d", (int)o->aux - 1); }
		break;
	}
	if (!bad && o->den) { bad = 1; FAILU("denormalized", "k=%zu value right but digits field/top digit not normal", k); }
	if (!bad) vh_nontrivial();
}

/* scalar ranges of a unary op: number of k values and the digit operand for index k */
static const vset_t *g_digitset;	/* digit operands of *_digit */
static const uint64_t exp_list[] = { 0, 1, 2, 3, 4, 5, 7, 8, 9, 16, 17, 31, 33 };
static size_t
un_range(int op, size_t ca) {
	switch (op) {
	case U_ADD_DIGIT: case U_SUB_DIGIT: case U_MULT_DIGIT: return (g_digitset->n);
	case U_EXP_DIGIT: return (sizeof(exp_list) / sizeof(exp_list[0]) + 2);
	case U_LSHIFT: case U_RSHIFT: case U_BIT_TEST: case U_BIT_SET: case U_BIT_CLR:
		return (ca * (size_t)W + 2);	/* 0 .. capacity+1 bits */
	}
	return (1);
}
static void
un_scalar(int op, size_t k, R *kd) {
	size_t ne = sizeof(exp_list) / sizeof(exp_list[0]);
	r_zero(kd);
	switch (op) {
	case U_ADD_DIGIT: case U_SUB_DIGIT: case U_MULT_DIGIT: vs_get(g_digitset, k, kd); break;
	case U_EXP_DIGIT:
		if (k < ne) r_set_u64(kd, exp_list[k]);
		else alpha_digit((k == ne) ? 5 : 6, kd);	/* MAX-1, MAX */
		break;
	}
}

static void
run_un_set(int op, const vun_t *vu) {
	const vset_t *sa = vu->a;
	size_t i, k, ca, nk; R a, kd; res_t r1, r2;

	for (i = 0; i < sa->n; i ++) {
		vs_get(sa, i, &a);
		for (ca = cap_min(&a); ca <= MAXCAP; ca ++) {
			if (vu->lite && ca != cap_min(&a) && ca != MAXCAP) continue;
			if (!begin_case(un_name[op])) continue;
			d_op = un_name[op]; d_a = a; d_cap = ca; d_set = "its scalar range";
			vh_publish_desc();
			nk = un_range(op, ca);
			for (k = 0; k < nk; k ++) {
				un_scalar(op, k, &kd);
				CALL_COUNT();
				if (vu->lite) {
					g_fill = ((i ^ k) & 1) ? 0x00 : 0xA5;
					paint_stack(g_fill);
					exec_un(op, &a, ca, &kd, k, g_fill, &r1);
					check_un(op, &a, ca, &kd, k, &r1);
					continue;
				}
				g_fill = 0xA5;
				paint_stack(0xA5);
				exec_un(op, &a, ca, &kd, k, 0xA5, &r1);
				check_un(op, &a, ca, &kd, k, &r1);
				g_fill = 0x00;
				paint_stack(0x00);
				exec_un(op, &a, ca, &kd, k, 0x00, &r2);
				if (!res_same(&r1, &r2))
					vh_fail("stale-storage", "a=0x%s cap=%zu k=%zu d=0x%s: fill 0xA5 -> rc=%d v=0x%s flag=%d; fill 0x00 -> rc=%d v=0x%s flag=%d",
					    HX(&a, hx1), ca, k, HX(&kd, hx2), r1.rc, HX(&r1.v1, hx3), (int)r1.aux, r2.rc, HX(&r2.v1, hx4), (int)r2.aux);
			}
		}
	}
}

static NOINLINE size_t
call_query(int q, bn_p X) {
	volatile size_t v = 0;
	switch (q) {
	case 0: GUARDED(v = bn_calc_bits(X)); break;
	case 1: GUARDED(v = bn_ctz(X)); break;
	case 2: GUARDED(v = bn_clz(X)); break;
	case 3: GUARDED(v = (size_t)bn_is_even(X)); break;
	case 4: GUARDED(v = (size_t)bn_is_odd(X)); break;
	case 5: GUARDED(v = (size_t)bn_is_zero(X)); break;
	case 6: GUARDED(v = (size_t)bn_is_one(X)); break;
	case 7: GUARDED(v = bn_is_pow2(X)); break;
	case 8: GUARDED(v = bn_calc_digits(X)); break;
	}
	return (v);
}
/* queries: ctz / clz / calc_bits / calc_digits / is_zero / is_one / is_pow2 / is_even / is_odd */
static void
run_queries(const vset_t *sa) {
	size_t i, ca; R av; const R *a = &av; int f;
	bn_p X = slot[0];

	for (i = 0; i < sa->n; i ++) {
		vs_get(sa, i, &av);
		for (ca = cap_min(a); ca <= MAXCAP; ca ++) {
			if (!begin_case(un_name[U_QUERIES])) continue;
			d_op = un_name[U_QUERIES]; d_a = av; d_cap = ca; d_set = "-";
			for (f = 0; f < 2; f ++) {
				volatile size_t v = 0; int bl = r_bitlen(a), pop = 0, b;
				g_fill = f ? 0x00 : 0xA5;
				CALL_COUNT();
				for (b = 0; b < bl; b ++) pop += r_bit(a, b);
				bn_make(X, a, ca, g_fill);
				g_crashed = 0;
				paint_stack(g_fill); v = call_query(0, X);
				if (!g_crashed && v != (size_t)bl) FAILU("value", "bn_calc_bits=%zu want %d", (size_t)v, bl);
				if (!r_is_zero(a)) {	/* ctz/clz of zero index num[-1]: outside what is judged */
					paint_stack(g_fill); v = call_query(1, X);
					if (!g_crashed && v != (size_t)r_ctz(a)) FAILU("value", "bn_ctz=%zu want %d", (size_t)v, r_ctz(a));
					paint_stack(g_fill); v = call_query(2, X);
					if (!g_crashed && v != ca * (size_t)W - (size_t)bl) FAILU("value", "bn_clz=%zu want %zu", (size_t)v, ca * (size_t)W - (size_t)bl);
					paint_stack(g_fill); v = call_query(3, X);
					if (!g_crashed && (0 != v) != (0 == r_bit(a, 0))) FAILU("value", "bn_is_even=%zu", (size_t)v);
				}
				paint_stack(g_fill); v = call_query(4, X);
				if (!g_crashed && (0 != v) != (1 == r_bit(a, 0))) FAILU("value", "bn_is_odd=%zu", (size_t)v);
				paint_stack(g_fill); v = call_query(5, X);
				if (!g_crashed && (0 != v) != r_is_zero(a)) FAILU("value", "bn_is_zero=%zu", (size_t)v);
				paint_stack(g_fill); v = call_query(6, X);
				if (!g_crashed && (0 != v) != r_is_one(a)) FAILU("value", "bn_is_one=%zu", (size_t)v);
				paint_stack(g_fill); v = call_query(7, X);
				if (!g_crashed && (0 != v) != (1 == pop)) FAILU("value", "bn_is_pow2=%zu", (size_t)v);
				/* bn_calc_digits recomputes `digits` from storage below `count`: only defined when that storage is initialised */
				bn_make(X, a, ca, 0x00);
				X->digits = ca;
				paint_stack(g_fill); v = call_query(8, X);
				if (!g_crashed && v != r_ndigits(a)) FAILU("value", "bn_calc_digits=%zu want %zu", (size_t)v, r_ndigits(a));
				if (!vh_case_failed && 1 == f) vh_nontrivial();
			}
		}
	}
}

static void
run_arith(void) {
	int op, p;
	g_digitset = &VS_DX;
	for (op = 0; op < B__N; op ++)
		for (p = 0; p < g_npairs; p ++)
			TIMED(bin_name[op], run_bin_pair(op, &g_pairs[p]));
	for (op = 0; op < U__N; op ++) {
		if (U_QUERIES == op) continue;
		for (p = 0; p < g_nunary; p ++)
			TIMED(un_name[op], run_un_set(op, &g_unary[p]));
	}
#if C01_SCOPE == 0
	{ vun_t one = { &VS_EX1, 0 };	/* every 1-digit operand with every digit */
	  g_digitset = &VS_EX1;
	  TIMED(un_name[U_ADD_DIGIT], run_un_set(U_ADD_DIGIT, &one));
	  TIMED(un_name[U_SUB_DIGIT], run_un_set(U_SUB_DIGIT, &one));
	  TIMED(un_name[U_MULT_DIGIT], run_un_set(U_MULT_DIGIT, &one));
	  g_digitset = &VS_DX; }
#endif
	for (p = 0; p < g_nunary; p ++)
		TIMED("queries", run_queries(g_unary[p].a));
}
