/*
 * C01, thorough tier only: 8-bit digits, ALL 2^32 pairs of operands below 2^16 for
 * add / sub / mult / div / cmp, oracle = native uint64_t arithmetic.
 * A vh case is (operation, a); inside it b runs over 0..65535.
 * Built without ASan at -O2 (speed); the ASan builds of h_c01.c cover memory errors.
 * Every 251st b the reference integers of ref.h are cross-checked against the native
 * result as well (harness self check, reported as NOTE ref_mismatch).
 */
#include <sys/param.h>
#include <errno.h>
#include <inttypes.h>
#define BN_DIGIT_BIT_CNT 8
#ifndef BN_BIT_LEN
#define BN_BIT_LEN 128
#endif
#include "math/big_num.h"
#include "vh.h"
#include "ref.h"

#include <time.h>
static uint64_t calls[8], ref_mismatch = 0, deadline_skipped = 0;
static time_t deadline = 0;
static uint32_t cur_a; static const char *cur_op;
static void desc(char *b, size_t n) { snprintf(b, n, "%s W=8 a=0x%x, every b < 2^16", cur_op, cur_a); }

static inline void
mk(bn_p x, uint32_t v, size_t count, uint8_t fill) {
	memset(x, fill, sizeof(*x));
	x->count = count;
	x->num[0] = (uint8_t)v; x->num[1] = (uint8_t)(v >> 8); x->num[2] = (uint8_t)(v >> 16); x->num[3] = (uint8_t)(v >> 24);
	x->digits = (v >> 24) ? 4 : ((v >> 16) ? 3 : ((v >> 8) ? 2 : (v ? 1 : 0)));
	if (fill) { size_t i; for (i = x->digits; i < 4; i ++) x->num[i] = fill; }
}
static inline uint64_t
rd(const bn_p x) {
	uint64_t v = 0; size_t i, n = (x->digits > 8) ? 8 : x->digits;
	for (i = 0; i < n; i ++) v |= ((uint64_t)x->num[i]) << (8 * i);
	return (v);
}
static void
refcheck(int op, uint32_t a, uint32_t b, uint64_t want, uint64_t want2) {
	R ra, rb, t, q, m, w;
	r_set_u64(&ra, a); r_set_u64(&rb, b);
	switch (op) {
	case 0: r_add(&t, &ra, &rb); break;
	case 1: if (a < b) return; r_sub(&t, &ra, &rb); break;
	case 2: r_mul(&t, &ra, &rb); break;
	case 3: if (0 == b) return; r_divmod(&q, &m, &ra, &rb); r_set_u64(&w, want2); if (!r_eq(&m, &w)) ref_mismatch ++; t = q; break;
	default: return;
	}
	r_set_u64(&w, want);
	if (!r_eq(&t, &w)) ref_mismatch ++;
}

int
main(int argc, char **argv) {
	static bn_t X, Y, Z;
	uint32_t a, b; int op;
	static const char *names[] = { "bn_add/x32", "bn_sub/x32", "bn_mult/x32", "bn_div/x32", "bn_cmp/x32", "bn_mult/x32-cap3" };

	vh_init(argc, argv);
	vh_set_describer(desc);
	if (NULL != getenv("C01_DEADLINE")) deadline = (time_t)strtoll(getenv("C01_DEADLINE"), NULL, 10);
	for (op = 0; op < 6; op ++) for (a = 0; a < 65536; a ++) {
		uint64_t ok = 0;
		if (!vh_begin(names[op])) continue;
		if (deadline && NULL == vh_only_target && time(NULL) > deadline) { deadline_skipped ++; vh_targets[vh_cur].run --; continue; }
		cur_a = a; cur_op = names[op];
		for (b = 0; b < 65536; b ++) {
			uint8_t fill = (b & 1) ? 0xA5 : 0x00;
			bn_digit_t fl = 0; int rc; uint64_t got, want, want2 = 0;
			calls[op] ++;
			switch (op) {
			case 0:
				mk(&X, a, 2, fill); mk(&Y, b, (b & 2) ? 4 : 2, fill);
				rc = bn_add(&X, &Y, &fl); got = rd(&X); want = (uint64_t)a + b;
				if (0 == rc && (got != (want & 0xffff) || fl != (want >> 16)))
					vh_fail("value", "a=0x%x b=0x%x rc=0 got=0x%" PRIx64 " carry=%d want=0x%" PRIx64, a, b, got, (int)fl, want);
				else if (0 == rc) ok ++;
				break;
			case 1:
				mk(&X, a, 2, fill); mk(&Y, b, (b & 2) ? 4 : 2, fill);
				rc = bn_sub(&X, &Y, &fl); got = rd(&X); want = ((uint64_t)a - b) & 0xffff;
				if (0 == rc && (got != want || fl != (bn_digit_t)(a < b)))
					vh_fail("value", "a=0x%x b=0x%x rc=0 got=0x%" PRIx64 " borrow=%d want=0x%" PRIx64, a, b, got, (int)fl, want);
				else if (0 == rc) ok ++;
				want = (uint64_t)a - b;
				break;
			case 2: case 5:
				mk(&X, a, (2 == op) ? 4 : 3, fill); mk(&Y, b, 2, fill);
				rc = bn_mult(&X, &Y); got = rd(&X); want = (uint64_t)a * b;
				if (0 == rc && got != want)	/* cap 3: a product >= 2^24 with rc=0 is necessarily != want */
					vh_fail("value", "a=0x%x b=0x%x rc=0 got=0x%" PRIx64 " want=0x%" PRIx64, a, b, got, want);
				else if (0 == rc) ok ++;
				break;
			case 3:
				mk(&X, a, (b & 4) ? 3 : 2, fill); mk(&Y, b, 2, fill); mk(&Z, 0, 2, fill);
				rc = bn_div(&X, &Y, &Z);
				if (0 == b) { if (0 == rc) vh_fail("div-by-zero-accepted", "a=0x%x / 0 returned 0", a); want = 0; break; }
				got = rd(&X); want = a / b; want2 = a % b;
				if (0 == rc && (got != want || rd(&Z) != want2))
					vh_fail("value", "a=0x%x b=0x%x rc=0 q=0x%" PRIx64 " r=0x%" PRIx64, a, b, got, rd(&Z));
				else if (0 == rc) ok ++;
				break;
			default:
				mk(&X, a, 2, fill); mk(&Y, b, 4, fill);
				rc = bn_cmp(&X, &Y); want = 0;
				if (rc != ((a > b) - (a < b))) vh_fail("value", "bn_cmp(0x%x, 0x%x) = %d", a, b, rc);
				else ok ++;
				break;
			}
			if (0 == (b % 251)) refcheck(op, a, b, want, want2);
		}
		vh_targets[vh_cur].nontrivial += ok;
		if (ok) vh_sample();
	}
	for (op = 0; op < 6; op ++)
		printf("STAT\t%s\tcalls\t%llu\n", names[op], (unsigned long long)calls[op]);
	printf("NOTE\tref_mismatch=%llu\n", (unsigned long long)ref_mismatch);
	if (deadline_skipped) printf("NOTE\tdeadline_skipped=%llu\n", (unsigned long long)deadline_skipped);
	return (vh_finish());
}
