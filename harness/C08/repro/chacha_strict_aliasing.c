/* C08 reproducer 1: ChaCha key stream is wrong when chacha.h is compiled by gcc at -O2/-O3 with the
 * default -fstrict-aliasing (the header reads/writes the uint32_t arrays ctx->state / ctx->x / ctx->ks
 * through uint64_t lvalues: CHACHA_PTR_8TO64 in CHACHA_BLOCK_COPY_ALIGN8 / CHACHA_BLOCK_XOR_ALIGN8).
 *
 *   gcc -O2 -I/repo/include chacha_strict_aliasing.c -o r1 && ./r1      -> FAIL (exit 1)
 *   gcc -O2 -fno-strict-aliasing -I/repo/include chacha_strict_aliasing.c -o r1 && ./r1   -> ok
 *   gcc -O1 ... / clang -O0..-O3 ...                                    -> ok
 *
 * Vector: draft-strombergson-chacha-test-vectors TC1 (all-zero 256-bit key and IV, 20 rounds); the same
 * vector is in the header's own table, and `openssl enc -chacha20 -K 00..00 -iv 00..00` gives it too.
 */
#include <errno.h>
#include <stdio.h>
#include <stdint.h>
#include <string.h>
#include "crypto/cipher/chacha.h"

int
main(void) {
	static const uint8_t want[16] = { 0x76, 0xb8, 0xe0, 0xad, 0xa0, 0xf1, 0x3d, 0x90, 0x40, 0x5d, 0x6a, 0xe5, 0x53, 0x86, 0xbd, 0x28 };
	uint8_t key[32] = { 0 }, iv[8] = { 0 }, ctr[8] = { 0 };
	uint64_t out64[8]; /* 8-byte aligned destination: takes the chacha_block_aligned8 path */
	uint8_t *out = (uint8_t *)out64;
	int i;

	chacha(key, 32, ctr, iv, 20, NULL, 64, out);
	printf("key stream : ");
	for (i = 0; i < 16; i ++) printf("%02x", out[i]);
	printf("\npublished  : ");
	for (i = 0; i < 16; i ++) printf("%02x", want[i]);
	printf("\n%s\n", memcmp(out, want, 16) ? "FAIL" : "ok");
	return (0 != memcmp(out, want, 16));
}
