/* C08 reproducer 2: gost28147_blocks_decrypt() and gost28147_blocks_decrypt_be() return garbage when the
 * source or the destination pointer is not 4-byte aligned: the byte-wise (unaligned) branches of the two
 * functions carry each other's load expressions (the _be loads with ntohl and swapped halves sit in the
 * little-endian function and vice versa), so decrypt(encrypt(x)) != x and the published vector
 * (cryptomanager.com: key 75713134..., plain 1122334455667788, cipher 03251e14f9d28acb) is not reproduced.
 *
 *   gcc -O1 -I/repo/include gost_decrypt_unaligned.c -o r2 && ./r2     -> FAIL lines, exit 1
 */
#include <errno.h>
#include <stdio.h>
#include <stdint.h>
#include <string.h>
#include "crypto/cipher/gost28147.h"

static void
hex(const char *t, const uint8_t *p) {
	int i;
	printf("%-34s", t);
	for (i = 0; i < 8; i ++) printf("%02x", p[i]);
	printf("\n");
}

int
main(void) {
	static const uint8_t key[32] = {
		0x75, 0x71, 0x31, 0x34, 0xb6, 0x0f, 0xec, 0x45, 0xa6, 0x07, 0xbb, 0x83, 0xaa, 0x37, 0x46, 0xaf,
		0x4f, 0xf9, 0x9d, 0xa6, 0xd1, 0xb5, 0x3b, 0x5b, 0x1b, 0x40, 0x2a, 0x1b, 0xaa, 0x03, 0x0d, 0x1b };
	static const uint8_t plain[8] = { 0x11, 0x22, 0x33, 0x44, 0x55, 0x66, 0x77, 0x88 };
	static const uint8_t cipher[8] = { 0x03, 0x25, 0x1e, 0x14, 0xf9, 0xd2, 0x8a, 0xcb };
	uint32_t a32[4], b32[4];
	uint8_t *al_in = (uint8_t *)a32, *un_in = al_in + 1, *al_out = (uint8_t *)b32, *un_out = al_out + 1;
	gost28147_context_t ctx;
	int bad = 0;

	/* little-endian entry point */
	memcpy(al_in, cipher, 8);
	gost28147_init(key, 32, id_gostr3411_94_testparamset_sbox, &ctx);
	gost28147_blocks_decrypt(&ctx, al_in, 1, al_out);
	hex("decrypt, aligned src/dst:", al_out);
	bad += (0 != memcmp(al_out, plain, 8));
	memcpy(un_in, cipher, 8);
	gost28147_blocks_decrypt(&ctx, un_in, 1, al_out);
	hex("decrypt, src at offset 1:", al_out);
	if (0 != memcmp(al_out, plain, 8)) { printf("FAIL: unaligned source\n"); bad ++; }
	memcpy(al_in, cipher, 8);
	gost28147_blocks_decrypt(&ctx, al_in, 1, un_out);
	hex("decrypt, dst at offset 1:", un_out);
	if (0 != memcmp(un_out, plain, 8)) { printf("FAIL: unaligned destination\n"); bad ++; }
	hex("published plain text:", plain);

	/* big-endian entry point: decrypt_be(encrypt_be(x)) must be x */
	gost28147_init_be(key, 32, id_tc26_gost_28147_param_z_sbox, &ctx);
	memcpy(un_in, plain, 8);
	gost28147_blocks_encrypt_be(&ctx, un_in, 1, un_out);
	memcpy(un_in, un_out, 8);
	gost28147_blocks_decrypt_be(&ctx, un_in, 1, un_out);
	hex("decrypt_be(encrypt_be(x)), offset 1:", un_out);
	if (0 != memcmp(un_out, plain, 8)) { printf("FAIL: decrypt_be does not invert encrypt_be on unaligned buffers\n"); bad ++; }
	return (bad ? 1 : 0);
}
