/* C08, GOST 28147-89: the S-box VALUES of every built-in parameter set, anchored by an independent
 * implementation.  The published vectors in the header use three of the six sets only; here every set is
 * compared with libgcrypt (its own tables, selected by OID) on encryption, decryption and the MAC, for
 * keys and blocks that drive every row and every column of every S-box row. */
#include <errno.h>
#include <stdint.h>
#include <string.h>
#include <arpa/inet.h>
#include <gcrypt.h>
#include "vh.h"
#include "crypto/cipher/gost28147.h"

static const struct { const char *name, *oid; const uint8_t *sbox; } SETS[] = {
	{ "id-GostR3411-94-TestParamSet", "1.2.643.2.2.30.0", id_gostr3411_94_testparamset_sbox },
	{ "id-Gost28147-89-CryptoPro-A-ParamSet", "1.2.643.2.2.31.1", id_gost28147_89_cryptopro_a_paramset_sbox },
	{ "id-Gost28147-89-CryptoPro-B-ParamSet", "1.2.643.2.2.31.2", id_gost28147_89_cryptopro_b_paramset_sbox },
	{ "id-Gost28147-89-CryptoPro-C-ParamSet", "1.2.643.2.2.31.3", id_gost28147_89_cryptopro_c_paramset_sbox },
	{ "id-Gost28147-89-CryptoPro-D-ParamSet", "1.2.643.2.2.31.4", id_gost28147_89_cryptopro_d_paramset_sbox },
	{ "id-tc26-gost-28147-param-Z", "1.2.643.7.1.2.5.1.1", id_tc26_gost_28147_param_z_sbox } };
#define NSETS 6
#define NBLK 32

static void
fill(uint8_t *p, size_t n, uint32_t seed) {
	size_t i; uint32_t x = seed * 2654435761u + 12345u;
	for (i = 0; i < n; i ++) { x ^= x << 13; x ^= x >> 17; x ^= x << 5; p[i] = (uint8_t)(x >> 11); }
}

int
main(int argc, char **argv) {
	int s, k, i; uint8_t key[32], pt[NBLK * 8], c_ref[NBLK * 8], c_lib[NBLK * 8], d_lib[NBLK * 8], m_ref[8], m_lib[8];
	gcry_cipher_hd_t h; gcry_mac_hd_t mh; gost28147_context_t ctx; size_t ml;

	vh_init(argc, argv);
	gcry_check_version(NULL); gcry_control(GCRYCTL_DISABLE_SECMEM, 0); gcry_control(GCRYCTL_INITIALIZATION_FINISHED, 0);
	for (s = 0; s < NSETS; s ++) for (k = 0; k < (vh_thorough ? 4096 : 256); k ++) {
		if (!vh_begin("gost28147_sbox_sets_vs_libgcrypt")) continue;
		vh_desc("set=%s key#%d %d blocks", SETS[s].name, k, NBLK);
		fill(key, sizeof(key), (uint32_t)k * 2u + 1u); fill(pt, sizeof(pt), (uint32_t)k * 2u + 2u);
		if (0 == k) { memset(key, 0, sizeof(key)); for (i = 0; i < NBLK * 8; i ++) pt[i] = (uint8_t)(i * 0x11); } /* every nibble value in every position */
		if (0 != gcry_cipher_open(&h, GCRY_CIPHER_GOST28147, GCRY_CIPHER_MODE_ECB, 0) ||
		    0 != gcry_cipher_ctl(h, GCRYCTL_SET_SBOX, (void *)SETS[s].oid, 0) ||
		    0 != gcry_cipher_setkey(h, key, 32) || 0 != gcry_cipher_encrypt(h, c_ref, sizeof(c_ref), pt, sizeof(pt))) {
			vh_fail("harness", "libgcrypt refused the parameter set"); continue; }
		gcry_cipher_close(h);
		if (0 != gost28147_init(key, 32, SETS[s].sbox, &ctx)) { vh_fail("init-rc", "gost28147_init"); continue; }
		gost28147_blocks_encrypt(&ctx, pt, NBLK, c_lib);
		gost28147_blocks_decrypt(&ctx, c_ref, NBLK, d_lib);
		if (0 != memcmp(c_lib, c_ref, sizeof(c_ref))) { vh_fail("reference", "encryption differs from libgcrypt with this parameter set"); continue; }
		if (0 != memcmp(d_lib, pt, sizeof(pt))) { vh_fail("reference", "decryption of libgcrypt's cipher text differs from the plain text"); continue; }
		/* MAC (GOST 28147-89 imitovstavka), 4 leading bytes as libgcrypt emits them */
		if (0 == gcry_mac_open(&mh, GCRY_MAC_GOST28147_IMIT, 0, NULL) &&
		    0 == gcry_mac_ctl(mh, GCRYCTL_SET_SBOX, (void *)SETS[s].oid, 0) &&
		    0 == gcry_mac_setkey(mh, key, 32) && 0 == gcry_mac_write(mh, pt, sizeof(pt))) {
			ml = 4; memset(m_ref, 0, sizeof(m_ref));
			if (0 == gcry_mac_read(mh, m_ref, &ml)) {
				gost28147_init(key, 32, SETS[s].sbox, &ctx);
				gost28147_blocks_mac(&ctx, pt, NBLK);
				gost28147_final(&ctx, m_lib, 4);
				if (0 != memcmp(m_lib, m_ref, 4)) { gcry_mac_close(mh); vh_fail("reference", "MAC differs from libgcrypt with this parameter set"); continue; }
			}
			gcry_mac_close(mh);
		}
		vh_nontrivial();
	}
	return (vh_finish());
}
