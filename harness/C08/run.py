"""C08 - ChaCha / HChaCha / XChaCha and GOST 28147-89 against independent references.

ChaCha: partition-confluence model checking of chacha_str_data_crypt (states = (configuration,
stream position) contexts of the real object, transitions = crypt calls of every length at every
source/destination alignment, with src == NULL and in place) + exhaustive enumeration of the one-shot
entry points, in every build of a compiler x optimisation x aliasing matrix.
GOST 28147-89: the substitute-and-rotate step over all 2^32 inputs x all S-box sets (thorough), block
encrypt/decrypt/MAC over key/block alphabets and all alignments, expanded- and small-table builds.
"""
import os, re, shutil, subprocess, time
from concurrent.futures import ThreadPoolExecutor
from vlib import core

P = 'C08'


LIGHT = ['-DC08_LIGHT=1']   # slower builds (-O0, ASan) explore a smaller instance of the same space


def chacha_matrix(tier):
    """(name, cc, opt, extra flags, sanitizer)"""
    if tier == 'quick':   # covering subset: both compilers, every -O level, both aliasing settings, ASan on/off
        return [('gcc-O2', 'gcc', '-O2', [], None),
                ('clang-O3-fno-strict-aliasing', 'clang', '-O3', ['-fno-strict-aliasing'], None),
                ('gcc-O0-fno-strict-aliasing', 'gcc', '-O0', ['-fno-strict-aliasing'] + LIGHT, None),
                ('clang-O1-asan', 'clang', '-O1', LIGHT, 'asan')]
    m = []
    for cc in ('gcc', 'clang'):
        for opt in ('-O0', '-O1', '-O2', '-O3'):
            for al in ([], ['-fno-strict-aliasing']):
                m.append(('%s%s%s' % (cc, opt, '-fno-strict-aliasing' if al else ''), cc, opt,
                          al + (LIGHT if opt == '-O0' else []), None))
    m.append(('gcc-O1-asan', 'gcc', '-O1', LIGHT, 'asan'))
    m.append(('clang-O2-fno-strict-aliasing-asan', 'clang', '-O2', ['-fno-strict-aliasing'] + LIGHT, 'asan'))
    return m


def gost_matrix(tier):
    """(name, cc, opt, extra flags, sanitizer).  The *-fast builds carry the full 2^32 sweep in the thorough tier."""
    return [('expanded-gcc-O1-asan', 'gcc', '-O1', LIGHT, 'asan'),
            ('small-clang-O1-asan', 'clang', '-O1', ['-DGOST28147_USE_SMALL_TABLES=1'] + LIGHT, 'asan'),
            ('expanded-clang-O2-fast', 'clang', '-O2', ['-DC08_SWEEP_FULL=1'], None),
            ('small-gcc-O2-fast', 'gcc', '-O2', ['-DGOST28147_USE_SMALL_TABLES=1', '-DC08_SWEEP_FULL=1'], None)]


# every built-in S-box set against libgcrypt's own tables (both table builds)
GCRYPT_SPECS = [('gostref:expanded-gcc-O2', 'harness/C08/h_gost_gcrypt.c', ('gcrypt-expanded', 'gcc', '-O2', ['-lgcrypt'], 'asan')),
                ('gostref:small-gcc-O2', 'harness/C08/h_gost_gcrypt.c', ('gcrypt-small', 'gcc', '-O2', ['-DGOST28147_USE_SMALL_TABLES=1', '-lgcrypt'], 'asan'))]


def build_all(rep, specs):
    """specs: list of (config name, source, matrix row).  Returns {config: binary}; a configuration that does not
    compile is recorded as skipped with the compiler message."""
    out = {}

    def one(spec):
        cfg, src, (name, cc, opt, flags, san) = spec
        try:
            b = core.compile_c(P, re.sub(r'[^A-Za-z0-9_.-]', '_', cfg), [src],
                               flags=list(flags) + ['-DC08_BUILD_TAG="%s"' % name], cc=cc, opt=opt,
                               san=san or 'none', quiet=True)
            return cfg, b, None
        except core.BuildError as e:
            return cfg, None, str(e)
    with ThreadPoolExecutor(max_workers=core.NCPU) as ex:
        for cfg, b, err in ex.map(one, specs):
            if b is None:
                rep.notes.append('configuration %s skipped: does not compile: %s' % (cfg, err[-300:].replace('\n', ' | ')))
                rep.configs.append({'name': cfg, 'status': 'skipped (compile error)'})
            else:
                out[cfg] = b
    return out


def openssl_crosscheck(rep, binaries):
    """The ChaCha reference of every binary must reproduce `openssl enc -chacha20` on a grid (20 rounds, 256-bit key;
    16-byte IV = state words 12..15, i.e. 64-bit LE block counter || 64-bit nonce in liblcb's layout)."""
    exe = shutil.which('openssl')
    cache, checked = {}, 0
    for cfg, b in sorted(binaries.items()):
        p = subprocess.run([b, '--refgrid'], capture_output=True, text=True, timeout=120)
        lines = [l.split('\t') for l in p.stdout.splitlines() if l.startswith('GRID\t')]
        if p.returncode != 0 or not lines:
            rep.harness_errors.append('%s: reference failed its built-in anchors (RFC 7539 / header vectors): %s'
                                      % (cfg, p.stdout[-300:].replace('\n', ' | ')))
            continue
        if exe is None:
            continue
        for _, key, iv, ln, ks in lines:
            k = (key, iv, ln)
            if k not in cache:
                q = subprocess.run([exe, 'enc', '-chacha20', '-K', key, '-iv', iv], input=b'\0' * int(ln),
                                   capture_output=True, timeout=60)
                cache[k] = q.stdout.hex() if q.returncode == 0 else None
            if cache[k] is None:
                continue
            checked += 1
            if cache[k] != ks:
                rep.harness_errors.append('%s: ChaCha reference disagrees with openssl for key=%s iv=%s len=%s'
                                          % (cfg, key[:16], iv, ln))
    if exe is None:
        rep.notes.append('openssl not found: reference cross-check against `openssl enc -chacha20` SKIPPED')
    elif not any(v is not None for v in cache.values()):
        rep.notes.append('openssl has no chacha20 cipher: reference cross-check SKIPPED')
    rep.extra['openssl_grid_points'] = len([v for v in cache.values() if v is not None])
    rep.extra['openssl_comparisons'] = checked


def run(tier):
    rep = core.Report(P, tier, 'model_checking',
        'ChaCha: state = (rounds, key size, initial counter, nonce; n bytes already processed) context of the real '
        'chacha_context_str_t, transition = chacha_str_data_crypt of the next c in 0..L-n bytes with (src align 0..7 x dst '
        'align 0..7 | src NULL x dst align | in place x align); every transition is executed twice (scratch bytes 0x00 / '
        '0xA5) and must give reference_keystream[n..n+c) xor input, the canonical context of position n+c and the right '
        '64-bit counter; one-shot chacha/xchacha/hchacha/chacha_blocks_transform over all lengths 0..257; every build of '
        'the compiler matrix. GOST: f over 2^32 inputs x S-box sets, block functions over alphabets x alignments, two '
        'table builds. A case is non-trivial when bytes were produced and the whole oracle chain passed.')
    rep.assumptions = [
        'references ref_chacha.h / ref_gost.h (textbook C, no code shared with liblcb), validated at check time against '
        'openssl enc -chacha20, RFC 7539 2.3.2, draft-irtf-cfrg-xchacha 2.2.1 and every vector in the headers\' self-test tables',
        'GOST S-box values of all six built-in sets are anchored by libgcrypt (its own tables, selected by OID): encryption, decryption and MAC agree',
        'the big-endian MAC serialisation (gost28147_final_be) is defined by the header\'s own vector, no standard fixes it',
        'counter wrap at 2^64 is judged as arithmetic mod 2^64 (what openssl does too); such cases use clause names ending in @wrap64',
    ]
    specs = [('chacha:' + r[0], 'harness/C08/h_chacha.c', r) for r in chacha_matrix(tier)]
    specs += [('gost:' + r[0], 'harness/C08/h_gost.c', r) for r in gost_matrix(tier)]
    specs += GCRYPT_SPECS
    bins = build_all(rep, specs)
    if not bins:
        rep.harness_errors.append('no configuration compiled')
    cbin = {c: b for c, b in bins.items() if c.startswith('chacha:')}
    openssl_crosscheck(rep, cbin)

    states = trans = execs = 0
    per_build = {}
    for cfg in [s[0] for s in specs]:
        if cfg not in bins:
            continue
        t0, n0 = time.time(), len(rep.notes)
        core.run_sharded(rep, bins[cfg], tier, config=cfg)
        # NOTE bfs <configuration> <states> <transitions run by the printing process> <executions>: printed after every
        # BFS so that the bookkeeping survives a crash; distinct states = per configuration the largest state set seen
        maxl, tr, ex = {}, 0, 0
        for n in rep.notes[n0:]:
            f = n.split('\t')
            if f[0] == 'bfs' and len(f) == 5:
                try:    # a process that died in the middle of printing leaves a truncated line behind
                    a2, a3, a4 = int(f[2]), int(f[3]), int(f[4])
                except ValueError:
                    continue
                maxl[f[1]] = max(maxl.get(f[1], 0), a2)
                tr += a3
                ex += a4
        st = sum(maxl.values())
        if cfg.startswith('chacha:') and tr == 0:
            # every process of this build died in its first transition(s): the crashed calls are the executions
            crashes = sum(c for (t, cl), c in rep.clauses.items()
                          if t == 'chacha_str_data_crypt' and (cl.startswith('crash') or cl == 'hang'))
            st, tr, ex = 1, max(1, crashes), max(1, crashes)
            rep.exhaustive = False
            rep.notes.append('%s: the exploration crashed before the first BFS completed; counts are the crashed calls' % cfg)
        states += st
        trans += tr
        execs += ex
        per_build[cfg] = {'states': st, 'transitions': tr, 'executions': ex, 'wall_s': round(time.time() - t0, 1)}
        rep.configs.append({'name': cfg, 'status': 'run', 'wall_s': round(time.time() - t0, 1)})
    # the per-BFS NOTE lines are bookkeeping, not findings
    keep = [n for n in rep.notes if not n.startswith('bfs\t')]
    for n in keep:
        if 'REFBAD' in n and not any('REFBAD' in e for e in rep.harness_errors):
            rep.harness_errors.append('a reference failed its anchors: ' + n)
    rep.notes = sorted(set(keep))
    rep.extra['states'] = states
    rep.extra['transitions'] = trans
    rep.extra['traces_validated_against_impl'] = execs
    rep.extra['per_build'] = per_build
    rep.finish(core.make_replayer(lambda cfg: bins[cfg], tier))


def replay(r, tier):
    """./check C08 --tier <tier of the run that wrote the file> --replay replay/C08/<x>.replay
    Rebuilds the configuration named in the file from the current tree and runs the single case."""
    import sys
    rep = core.Report(P, tier, 'model_checking', 'replay')
    specs = [('chacha:' + m[0], 'harness/C08/h_chacha.c', m) for m in chacha_matrix('thorough') + chacha_matrix('quick')]
    specs += [('gost:' + m[0], 'harness/C08/h_gost.c', m) for m in gost_matrix(tier)]
    specs += GCRYPT_SPECS
    spec = [s for s in specs if s[0] == r.get('config')]
    if not spec:
        sys.stderr.write('unknown configuration %r\n' % r.get('config'))
        return 2
    bins = build_all(rep, spec[:1])
    if not bins:
        sys.stderr.write('\n'.join(rep.notes) + '\n')
        return 2
    p = subprocess.run([bins[spec[0][0]], '--tier', tier, '--only', '%s#%s' % (r['target'], r['index'])],
                       capture_output=True, text=True, timeout=900)
    hit = False
    for line in p.stdout.splitlines():
        if line.startswith('VIOL\t'):
            print(line)
            f = line.split('\t')
            hit = hit or (f[1] == r['target'] and f[2] == r['clause'])
    if r['clause'].startswith('crash') or r['clause'] == 'hang':
        hit = p.returncode != 0 or 'DONE' not in p.stdout
    print('reproduced' if hit else 'NOT reproduced')
    return 1 if hit else 0
