/* C08 / GOST 28147-89 - include/crypto/cipher/gost28147.h against ref_gost.h.
 *
 * Built twice: default (expanded 4x256 tables) and -DGOST28147_USE_SMALL_TABLES; both builds
 * enumerate the same space against the same reference, so "the two builds agree" is decided
 * on every enumerated element.
 *
 *  gost28147_block32        all 2^32 inputs x every built-in S-box set (thorough, -DC08_SWEEP_FULL
 *                           builds; one case = 2^20 consecutive inputs), else 2^24 strided inputs +
 *                           every input with one active byte over three backgrounds
 *  gost28147_blocks_*       single blocks over a byte alphabet ^ 8 x key alphabet x S-box sets
 *                           (encrypt == reference, decrypt == reference, decrypt(encrypt(x)) == x,
 *                           MAC == 16-round reference; little- and big-endian entry points);
 *                           0..3 blocks x source alignment 0..7 x destination alignment 0..7;
 *                           MAC of a message split over two calls; published vectors of the header
 */
#include <errno.h>
#include <stdio.h>
#include <inttypes.h>
#include "vh.h"
#ifndef C08_BUILD_TAG
#  define C08_BUILD_TAG "?"
#endif
#define GOST28147_SELF_TEST 1
#include "crypto/cipher/gost28147.h"
#include "ref_gost.h"

#ifdef VH_HAS_ASAN
#  define TAILPAD 0
#else
#  define TAILPAD 16
#endif
#define CANARY 0xC3

typedef struct sbox_ent_s { const char *name; const uint8_t *sbox; } sbox_ent_t;
static const sbox_ent_t SBOXES[] = {
	{ "id_gostr3411_94_testparamset", id_gostr3411_94_testparamset_sbox },
	{ "cryptopro_a", id_gost28147_89_cryptopro_a_paramset_sbox },
	{ "cryptopro_b", id_gost28147_89_cryptopro_b_paramset_sbox },
	{ "cryptopro_c", id_gost28147_89_cryptopro_c_paramset_sbox },
	{ "cryptopro_d", id_gost28147_89_cryptopro_d_paramset_sbox },
	{ "tc26_param_z", id_tc26_gost_28147_param_z_sbox },
};
#define NSBOX ((int)(sizeof(SBOXES) / sizeof(SBOXES[0])))

#define NKEYS 6
static const uint8_t GKEYS[NKEYS][32] = {
	{ 0 },
	{ 0xff, 0xff, 0xff, 0xff, 0xff, 0xff, 0xff, 0xff, 0xff, 0xff, 0xff, 0xff, 0xff, 0xff, 0xff, 0xff,
	  0xff, 0xff, 0xff, 0xff, 0xff, 0xff, 0xff, 0xff, 0xff, 0xff, 0xff, 0xff, 0xff, 0xff, 0xff, 0xff },
	{ 0x00, 0x01, 0x02, 0x03, 0x04, 0x05, 0x06, 0x07, 0x08, 0x09, 0x0a, 0x0b, 0x0c, 0x0d, 0x0e, 0x0f,
	  0x10, 0x11, 0x12, 0x13, 0x14, 0x15, 0x16, 0x17, 0x18, 0x19, 0x1a, 0x1b, 0x1c, 0x1d, 0x1e, 0x1f },
	{ 0x00, 0x00, 0x00, 0x80, 0xff, 0xff, 0xff, 0x7f, 0x01, 0x00, 0x00, 0x00, 0x00, 0x00, 0x00, 0x00,
	  0x80, 0x00, 0x00, 0x00, 0xff, 0xff, 0xff, 0xff, 0x00, 0x00, 0x00, 0x01, 0xfe, 0xff, 0xff, 0xff },
	{ 0xff, 0xee, 0xdd, 0xcc, 0xbb, 0xaa, 0x99, 0x88, 0x77, 0x66, 0x55, 0x44, 0x33, 0x22, 0x11, 0x00,
	  0xf0, 0xf1, 0xf2, 0xf3, 0xf4, 0xf5, 0xf6, 0xf7, 0xf8, 0xf9, 0xfa, 0xfb, 0xfc, 0xfd, 0xfe, 0xff },
	{ 0xa5, 0x5a, 0xc3, 0x3c, 0x0f, 0xf0, 0x69, 0x96, 0x01, 0x23, 0x45, 0x67, 0x89, 0xab, 0xcd, 0xef,
	  0x11, 0x11, 0x11, 0x11, 0x22, 0x22, 0x22, 0x22, 0x44, 0x44, 0x44, 0x44, 0x88, 0x88, 0x88, 0x88 }
};

static struct {
	const char *what;
	int	sbox, key;
	uint8_t	msg[24]; size_t blocks;
	int	sa, da, extra;
	uint32_t x;
} CUR;

static void
describe(char *b, size_t n) {
	char hx[64];
	vh_hex(hx, sizeof(hx), CUR.msg, CUR.blocks * 8);
	snprintf(b, n, "%s sbox=%s key#%d blocks=%zu msg=%s src@%d dst@%d x=%d in=0x%08" PRIx32 " build=" C08_BUILD_TAG,
	    CUR.what, (CUR.sbox >= 0) ? SBOXES[CUR.sbox].name : "-", CUR.key, CUR.blocks, hx, CUR.sa, CUR.da, CUR.extra, CUR.x);
}

typedef struct cbuf_s { uint8_t *base, *p; size_t off, len; } cbuf_t;
static uint8_t *
cb_alloc(cbuf_t *b, size_t off, size_t len) {
	size_t tot = off + len + TAILPAD;
	b->base = (uint8_t *)malloc(tot ? tot : 1);
	if (NULL == b->base || 0 != ((uintptr_t)b->base & 7))
		exit(3);
	memset(b->base, CANARY, tot);
	b->off = off; b->len = len; b->p = b->base + off;
	return (b->p);
}
static int
cb_outside_touched(const cbuf_t *b) {
	size_t i;
	for (i = 0; i < b->off; i ++) if (b->base[i] != CANARY) return (1);
	for (i = 0; i < TAILPAD; i ++) if (b->p[b->len + i] != CANARY) return (1);
	return (0);
}

/* A fresh heap context for (sbox, key, le/be).  The real init runs once per distinct triple; later requests
 * get a byte copy of that pristine context (init is deterministic; gost28147_final wipes the copy). */
static gost28147_context_t *
ctx_new(int sbox, const uint8_t *key, int be) {
	static gost28147_context_t pristine;
	static uint8_t pkey[32];
	static int psbox = -1, pbe = -1, prc = 0;
	gost28147_context_t *ctx = (gost28147_context_t *)malloc(sizeof(*ctx));
	uint8_t *k;

	if (psbox != sbox || pbe != be || 0 != memcmp(pkey, key, 32)) {
		k = (uint8_t *)vh_dup(key, 32);
		memset(ctx, 0x5a, sizeof(*ctx));
		prc = be ? gost28147_init_be(k, 32, SBOXES[sbox].sbox, ctx) : gost28147_init(k, 32, SBOXES[sbox].sbox, ctx);
		free(k);
		memcpy(&pristine, ctx, sizeof(pristine));
		memcpy(pkey, key, 32);
		psbox = sbox;
		pbe = be;
	} else {
		memcpy(ctx, &pristine, sizeof(*ctx));
	}
	if (0 != prc) {
		free(ctx);
		return (NULL);
	}
	return (ctx);
}

/* ------------------------------------------------------------------ the non-linear step */
/* Table form of the same definition, used only by the 2^32 sweep (the plain rg_f costs 3x the library call):
 * the substitution acts on nibbles independently and the rotation permutes bits, so
 * f(x) = FLO[x & 0xffff] | FHI[x >> 16] with both tables filled by the nibble loop below.  Inside the sweep every
 * 64th input is also put through the plain 6-line rg_f; a disagreement between the two references aborts the
 * run as a harness error (REFBAD), it is never reported as a violation. */
static uint32_t FLO[65536], FHI[65536];
static int f_tables_for = -1;
static void
f_tables_build(int s) {
	const uint8_t *sb = SBOXES[s].sbox;
	uint32_t v, lo, hi;
	int i;
	if (f_tables_for == s)
		return;
	for (v = 0; v < 65536; v ++) {
		lo = hi = 0;
		for (i = 0; i < 4; i ++) {
			lo |= (uint32_t)(sb[16 * i + ((v >> (4 * i)) & 15)] & 15) << (4 * i);
			hi |= (uint32_t)(sb[16 * (i + 4) + ((v >> (4 * i)) & 15)] & 15) << (4 * i + 16);
		}
		FLO[v] = (lo << 11) | (lo >> 21);
		FHI[v] = (hi << 11) | (hi >> 21);
	}
	f_tables_for = s;
}

/* mult == 1 selects the sweep form (table reference, cross-checked against rg_f on every 64th input). */
static void
block32_range(int s, uint64_t first, uint64_t count, uint32_t mult) {
	gost28147_context_t *ctx = ctx_new(s, GKEYS[2], 0);
	const uint8_t *sb = SBOXES[s].sbox;
	uint64_t i, bad = 0;
	uint32_t x, got, want, fx = 0, fg = 0, fw = 0;

	if (NULL == ctx) { vh_fail("init-rc", "gost28147_init refused a 32-byte key"); return; }
	if (1 == mult) {
		f_tables_build(s);
		for (i = 0; i < count; i ++) {
			x = (uint32_t)(first + i);
			got = gost28147_block32(ctx, x);
			want = FLO[x & 0xffff] | FHI[x >> 16];
			if (0 == (i & 63) && want != rg_f(sb, x)) {
				printf("NOTE\tREFBAD table form of the GOST reference disagrees with rg_f at 0x%08" PRIx32 "\n", x);
				fflush(stdout);
				exit(3);
			}
			if (got != want) {
				if (0 == bad) { fx = x; fg = got; fw = want; }
				bad ++;
			}
		}
	} else {
		for (i = 0; i < count; i ++) {
			x = (uint32_t)(first + i) * mult;
			got = gost28147_block32(ctx, x);
			want = rg_f(sb, x);
			if (got != want) {
				if (0 == bad) { fx = x; fg = got; fw = want; }
				bad ++;
			}
		}
	}
	if (bad) {
		CUR.x = fx;
		vh_fail("substitute-rotate", "%" PRIu64 " of %" PRIu64 " inputs differ; first: f(0x%08" PRIx32 ") = 0x%08" PRIx32 ", reference 0x%08" PRIx32,
		    bad, count, fx, fg, fw);
	} else {
		vh_nontrivial();
	}
	free(ctx);
}

static void
block32_all(void) {
	int s, pos, bgi;
	uint32_t chunk, v, x, got, want;
	static const uint32_t BG[3] = { 0x00000000u, 0xffffffffu, 0x5a5a5a5au };
	int full = 0;
#ifdef C08_SWEEP_FULL
	full = vh_thorough;
#endif
	for (s = 0; s < NSBOX; s ++) {
		if (full) {
			for (chunk = 0; chunk < 4096; chunk ++) {
				if (!vh_begin("gost28147_block32"))
					continue;
				memset(&CUR, 0, sizeof(CUR)); CUR.what = "sweep 2^20 consecutive inputs from in"; CUR.sbox = s; CUR.x = chunk << 20; CUR.extra = (int)chunk;
				block32_range(s, (uint64_t)chunk << 20, 1u << 20, 1u);
			}
			continue;
		}
		for (chunk = 0; chunk < 16; chunk ++) { /* 2^24 inputs i * 0x9E3779B1 (odd multiplier: all distinct) */
			if (!vh_begin("gost28147_block32"))
				continue;
			memset(&CUR, 0, sizeof(CUR)); CUR.what = "strided inputs i*0x9E3779B1, i from extra<<20"; CUR.sbox = s; CUR.extra = (int)chunk;
			block32_range(s, (uint64_t)chunk << 20, 1u << 20, 0x9E3779B1u);
		}
		if (vh_begin("gost28147_block32")) { /* one active byte (hence every nibble of every row) over 3 backgrounds */
			gost28147_context_t *ctx = ctx_new(s, GKEYS[2], 0);
			int ok = 1;
			memset(&CUR, 0, sizeof(CUR)); CUR.what = "one active byte"; CUR.sbox = s;
			for (bgi = 0; bgi < 3 && NULL != ctx; bgi ++) for (pos = 0; pos < 4; pos ++) for (v = 0; v < 256; v ++) {
				x = (BG[bgi] & ~(0xffu << (8 * pos))) | (v << (8 * pos));
				got = gost28147_block32(ctx, x);
				want = rg_f(SBOXES[s].sbox, x);
				if (got != want) {
					CUR.x = x;
					vh_fail("substitute-rotate", "f(0x%08" PRIx32 ") = 0x%08" PRIx32 ", reference 0x%08" PRIx32, x, got, want);
					ok = 0;
				}
			}
			if (ok && NULL != ctx) vh_nontrivial();
			free(ctx);
		}
	}
}

/* ------------------------------------------------------------------ block functions */
enum { F_ENC, F_DEC, F_ENC_BE, F_DEC_BE, F_MAC, F_MAC_BE, F_N };
static const char *FN[F_N] = {
	"gost28147_blocks_encrypt", "gost28147_blocks_decrypt", "gost28147_blocks_encrypt_be",
	"gost28147_blocks_decrypt_be", "gost28147_blocks_mac", "gost28147_blocks_mac_be"
};

static void
ref_apply(int f, int s, const uint8_t *key, const uint8_t *in, size_t blocks, uint8_t *out) {
	size_t b;
	uint32_t st[2] = { 0, 0 };
	const uint8_t *sb = SBOXES[s].sbox;
	switch (f) {
	case F_ENC: for (b = 0; b < blocks; b ++) rg_crypt_le(sb, key, in + 8 * b, out + 8 * b, 0); break;
	case F_DEC: for (b = 0; b < blocks; b ++) rg_crypt_le(sb, key, in + 8 * b, out + 8 * b, 1); break;
	case F_ENC_BE: for (b = 0; b < blocks; b ++) rg_crypt_be(sb, key, in + 8 * b, out + 8 * b, 0); break;
	case F_DEC_BE: for (b = 0; b < blocks; b ++) rg_crypt_be(sb, key, in + 8 * b, out + 8 * b, 1); break;
	case F_MAC:
		rg_mac_le(sb, key, in, blocks, st);
		rg_st_le32(out, st[0]); rg_st_le32(out + 4, st[1]);
		break;
	case F_MAC_BE:
		/* No standard fixes a big-endian serialisation of the 28147-89 MAC; the header's own vector
		 * (GOST R 34.12-2015 A.2.4 after 16 rounds: (a1, a0) = (2098cd86, 4f15b0bb), published by the
		 * header as 4f15b0bb2098cd86) defines it as BE32(a0) || BE32(a1). */
		rg_mac_be(sb, key, in, blocks, st);
		rg_st_be32(out, st[1]); rg_st_be32(out + 4, st[0]);
		break;
	}
}

/* Run library function f over `blocks` blocks at the given alignments; out receives blocks*8 bytes
 * (8 for a MAC).  split: for MACs, number of blocks given to the first of two calls (else one call).
 * Returns non-zero if something outside dst was written / src changed. */
static int
lib_apply(int f, int s, const uint8_t *key, const uint8_t *in, size_t blocks, int sa, int da, size_t split, size_t mac_size, uint8_t *out) {
	gost28147_context_t *ctx = ctx_new(s, key, (F_ENC_BE == f || F_DEC_BE == f || F_MAC_BE == f));
	cbuf_t sb, db;
	uint8_t *src, *dst;
	int bad = 0;
	size_t outlen = (F_MAC == f || F_MAC_BE == f) ? mac_size : blocks * 8;

	if (NULL == ctx)
		return (2);
	src = cb_alloc(&sb, (size_t)sa, blocks * 8);
	memcpy(src, in, blocks * 8);
	dst = cb_alloc(&db, (size_t)da, outlen);
	switch (f) {
	case F_ENC: gost28147_blocks_encrypt(ctx, src, blocks, dst); break;
	case F_DEC: gost28147_blocks_decrypt(ctx, src, blocks, dst); break;
	case F_ENC_BE: gost28147_blocks_encrypt_be(ctx, src, blocks, dst); break;
	case F_DEC_BE: gost28147_blocks_decrypt_be(ctx, src, blocks, dst); break;
	case F_MAC:
		gost28147_blocks_mac(ctx, src, split);
		gost28147_blocks_mac(ctx, src + 8 * split, blocks - split);
		gost28147_final(ctx, dst, mac_size);
		break;
	case F_MAC_BE:
		gost28147_blocks_mac_be(ctx, src, split);
		gost28147_blocks_mac_be(ctx, src + 8 * split, blocks - split);
		gost28147_final_be(ctx, dst, mac_size);
		break;
	}
	memcpy(out, dst, outlen);
	if (cb_outside_touched(&db)) bad |= 1;
	if (0 != memcmp(src, in, blocks * 8) || cb_outside_touched(&sb)) bad |= 4;
	free(ctx);
	free(sb.base); free(db.base);
	return (bad);
}

static void
check_one(int f, int s, int k, const uint8_t *msg, size_t blocks, int sa, int da, size_t split, size_t mac_size) {
	uint8_t got[32], want[32], ct[32], back[32];
	size_t cmp = (F_MAC == f || F_MAC_BE == f) ? ((mac_size < 8) ? mac_size : 8) : blocks * 8;
	int rc, ok = 1;
	char h1[80], h2[80];

	memset(&CUR, 0, sizeof(CUR));
	CUR.what = "blocks"; CUR.sbox = s; CUR.key = k; memcpy(CUR.msg, msg, blocks * 8); CUR.blocks = blocks;
	CUR.sa = sa; CUR.da = da; CUR.extra = (int)(split * 100 + mac_size);
	memset(want, 0, sizeof(want));
	ref_apply(f, s, GKEYS[k], msg, blocks, want);
	rc = lib_apply(f, s, GKEYS[k], msg, blocks, sa, da, split, mac_size, got);
	if (2 == rc) { vh_fail("init-rc", "init refused a 32-byte key"); return; }
	if (rc & 1) { vh_fail("write-outside-dst", "bytes outside the destination changed"); ok = 0; }
	if (rc & 4) { vh_fail("src-modified", "source buffer changed"); ok = 0; }
	if (0 != memcmp(got, want, cmp)) {
		vh_hex(h1, sizeof(h1), got, cmp); vh_hex(h2, sizeof(h2), want, cmp);
		vh_fail("reference", "got %s reference %s", h1, h2);
		ok = 0;
	}
	if (F_DEC == f || F_DEC_BE == f) { /* decryption inverts the library's own encryption */
		rc = lib_apply(f - 1, s, GKEYS[k], msg, blocks, sa, da, 0, 0, ct);
		rc |= lib_apply(f, s, GKEYS[k], ct, blocks, sa, da, 0, 0, back);
		if (0 != memcmp(back, msg, blocks * 8)) {
			vh_hex(h1, sizeof(h1), back, blocks * 8); vh_hex(h2, sizeof(h2), ct, blocks * 8);
			vh_fail("decrypt-inverts-encrypt", "decrypt(encrypt(msg)) = %s (cipher text %s)", h1, h2);
			ok = 0;
		}
	}
	if (ok && blocks > 0) {
		vh_nontrivial();
		if (blocks == 1 && (F_ENC == f || F_MAC == f)) vh_outcome(got, cmp);
	}
}

/* (iv) long inputs: 4..LONG_MAX_BLK blocks in one call (and, for the MACs, split over two calls) at every source alignment;
 * whatever the implementation does per chunk of blocks, the result is the block-by-block reference */
#define LONG_MAX_BLK 40
static void
check_long(int f, int s, int k, size_t blocks, int sa, int da, size_t split) {
	uint8_t msg[LONG_MAX_BLK * 8], got[LONG_MAX_BLK * 8], want[LONG_MAX_BLK * 8];
	size_t i, cmp = (F_MAC == f || F_MAC_BE == f) ? 8 : blocks * 8;
	int rc;
	char h1[40], h2[40];

	for (i = 0; i < blocks * 8; i ++) msg[i] = (uint8_t)(0x9d + i * 0x6b + (i >> 3) * 0x35);
	memset(&CUR, 0, sizeof(CUR));
	CUR.what = "long input, bytes 0x9d + i*0x6b + (i/8)*0x35"; CUR.sbox = s; CUR.key = k; memcpy(CUR.msg, msg, 24); CUR.blocks = 3;
	CUR.sa = sa; CUR.da = da; CUR.extra = (int)(blocks * 100 + split);
	memset(want, 0, sizeof(want));
	ref_apply(f, s, GKEYS[k], msg, blocks, want);
	rc = lib_apply(f, s, GKEYS[k], msg, blocks, sa, da, split, 8, got);
	if (2 == rc) { vh_fail("init-rc", "init refused a 32-byte key"); return; }
	if (rc & 1) vh_fail("write-outside-dst", "bytes outside the destination changed (%zu blocks)", blocks);
	if (rc & 4) vh_fail("src-modified", "source buffer changed (%zu blocks)", blocks);
	if (0 != memcmp(got, want, cmp)) {
		for (i = 0; i + 8 < cmp && 0 == memcmp(got + i, want + i, 8); i += 8) ;
		vh_hex(h1, sizeof(h1), got + i, 8); vh_hex(h2, sizeof(h2), want + i, 8);
		vh_fail("reference", "%zu blocks (first call %zu), source address %% 8 = %d: block %zu of the result is %s, reference %s", blocks, split, sa, i / 8, h1, h2);
	} else if (0 == rc)
		vh_nontrivial();
}

static void
blocks_all(void) {
	static const uint8_t A4[4] = { 0x00, 0x01, 0x80, 0xff };
	static const uint8_t A3[3] = { 0x00, 0x80, 0xff };
	static const uint8_t MSGS[4][24] = {
		{ 0x01, 0x02, 0x03, 0x04, 0x05, 0x06, 0x07, 0x08, 0xf1, 0xf2, 0xf3, 0xf4, 0xf5, 0xf6, 0xf7, 0xf8,
		  0x10, 0x32, 0x54, 0x76, 0x98, 0xba, 0xdc, 0xfe },
		{ 0 },
		{ 0xff, 0xff, 0xff, 0xff, 0xff, 0xff, 0xff, 0xff, 0xff, 0xff, 0xff, 0xff, 0xff, 0xff, 0xff, 0xff,
		  0xff, 0xff, 0xff, 0xff, 0xff, 0xff, 0xff, 0xff },
		{ 0x80, 0, 0, 0, 0, 0, 0, 0x01, 0x00, 0x00, 0x00, 0x80, 0x01, 0, 0, 0, 0x7f, 0xff, 0xff, 0xff, 0xfe, 0xff, 0xff, 0xff }
	};
#ifdef C08_LIGHT	/* ASan builds: the 3-letter alphabet in both tiers */
	const uint8_t *A = A3;
	uint32_t base = 3, tot = 1, v, t;
#else
	const uint8_t *A = vh_thorough ? A4 : A3;
	uint32_t base = vh_thorough ? 4 : 3, tot = 1, v, t;
#endif
	uint8_t blk[8];
	int s, k, f, i, sa, da, m;
	size_t blocks, split, ms;

	for (i = 0; i < 8; i ++) tot *= base;
	/* (i) single blocks, aligned */
	for (s = 0; s < NSBOX; s ++) for (k = 0; k < NKEYS; k ++) for (f = 0; f < F_N; f ++) for (v = 0; v < tot; v ++) {
		if (!vh_begin(FN[f]))
			continue;
		for (i = 0, t = v; i < 8; i ++, t /= base) blk[i] = A[t % base];
		check_one(f, s, k, blk, 1, 0, 0, 0, 8);
	}
	printf("NOTE\tgost single-block alphabet size=%u (^8 blocks) keys=%d\n", base, NKEYS);
	/* (ii) 0..3 blocks x source alignment x destination alignment */
	for (s = 0; s < NSBOX; s ++) for (k = 2; k < 4; k ++) for (m = 0; m < 4; m ++) for (blocks = 0; blocks <= 3; blocks ++)
	for (sa = 0; sa < 8; sa ++) for (da = 0; da < 8; da ++) for (f = 0; f < F_N; f ++) {
		if (!vh_begin(FN[f]))
			continue;
		check_one(f, s, k, MSGS[m], blocks, sa, da, 0, 8);
	}
	/* (iii) MAC: every split of 0..3 blocks over two calls, output sizes 1, 4, 8, 16 */
	for (s = 0; s < NSBOX; s ++) for (k = 2; k < 6; k ++) for (m = 0; m < 4; m ++) for (blocks = 0; blocks <= 3; blocks ++)
	for (split = 0; split <= blocks; split ++) for (ms = 0; ms < 4; ms ++) for (f = F_MAC; f <= F_MAC_BE; f ++) {
		static const size_t MS[4] = { 1, 4, 8, 16 };
		if (!vh_begin(FN[f]))
			continue;
		check_one(f, s, k, MSGS[m], blocks, (int)(split + ms) % 8, (int)(blocks + ms) % 8, split, MS[ms]);
	}
	/* (iv) long inputs */
	for (s = 0; s < NSBOX; s ++) for (blocks = 4; blocks <= LONG_MAX_BLK; blocks ++) for (sa = 0; sa < 8; sa ++) for (f = 0; f < F_N; f ++) {
		if (!vh_begin(FN[f]))
			continue;
		check_long(f, s, 2 + (int)(blocks % 4), blocks, sa, (sa * 3 + (int)blocks) % 8, (F_MAC == f || F_MAC_BE == f) ? (blocks * (size_t)sa) / 8 : 0);
	}
}

/* ------------------------------------------------------------------ published vectors of the header */
static int
hexval(int ch) {
	if (ch >= '0' && ch <= '9') return (ch - '0');
	if (ch >= 'a' && ch <= 'f') return (ch - 'a' + 10);
	if (ch >= 'A' && ch <= 'F') return (ch - 'A' + 10);
	return (0);
}
static size_t
unhex(const uint8_t *hex, size_t hexlen, uint8_t *out) {
	size_t i;
	for (i = 0; i + 1 < hexlen; i += 2)
		out[i / 2] = (uint8_t)((hexval(hex[i]) << 4) | hexval(hex[i + 1]));
	return (hexlen / 2);
}
static int
sbox_index(const uint8_t *p) {
	int s;
	for (s = 0; s < NSBOX; s ++) if (SBOXES[s].sbox == p) return (s);
	return (-1);
}

/* mode 0: check the reference (returns number of disagreements, prints NOTE REFBAD);
 * mode 1: run the library as cases. */
static int
vectors(int mode) {
	size_t i, len, b;
	uint8_t key[32], pl[64], en[64], out[64];
	int bad = 0, s, be, rc;
	uint32_t st[2], g;
	gost28147_context_t *ctx;
	char h1[140], h2[140];

	/* g / round vectors (GOST R 34.12-2015 A.2.2, A.2.4) */
	for (i = 0; NULL != gost28147_tstgv[i].sbox; i ++) {
		s = sbox_index(gost28147_tstgv[i].sbox);
		if (0 == mode) {
			if (s < 0 || rg_f(SBOXES[s].sbox, gost28147_tstgv[i].a + gost28147_tstgv[i].k) != gost28147_tstgv[i].g_res) {
				printf("NOTE\tREFBAD gost reference disagrees with gost28147_tstgv[%zu]\n", i); bad ++;
			}
		} else if (vh_begin("gost28147_block32")) {
			memset(&CUR, 0, sizeof(CUR)); CUR.what = "header-vector tstgv"; CUR.sbox = s; CUR.extra = (int)i;
			CUR.x = gost28147_tstgv[i].a + gost28147_tstgv[i].k;
			ctx = ctx_new(s, GKEYS[0], 0);
			g = gost28147_block32(ctx, CUR.x);
			if (g != gost28147_tstgv[i].g_res) vh_fail("published-vector", "g = 0x%08" PRIx32 ", published 0x%08" PRIx32, g, gost28147_tstgv[i].g_res);
			else vh_nontrivial();
			free(ctx);
		}
	}
	for (i = 0; NULL != gost28147_tstgkv[i].sbox; i ++) {
		s = sbox_index(gost28147_tstgkv[i].sbox);
		if (0 == mode) {
			if (s < 0 || (gost28147_tstgkv[i].a0 ^ rg_f(SBOXES[s].sbox, gost28147_tstgkv[i].a1 + gost28147_tstgkv[i].k)) != gost28147_tstgkv[i].a0_res) {
				printf("NOTE\tREFBAD gost reference disagrees with gost28147_tstgkv[%zu]\n", i); bad ++;
			}
		} else if (vh_begin("gost28147_block32")) {
			memset(&CUR, 0, sizeof(CUR)); CUR.what = "header-vector tstgkv"; CUR.sbox = s; CUR.extra = (int)i;
			CUR.x = gost28147_tstgkv[i].a1 + gost28147_tstgkv[i].k;
			ctx = ctx_new(s, GKEYS[0], 0);
			g = gost28147_tstgkv[i].a0 ^ gost28147_block32(ctx, CUR.x);
			if (g != gost28147_tstgkv[i].a0_res) vh_fail("published-vector", "round = 0x%08" PRIx32 ", published 0x%08" PRIx32, g, gost28147_tstgkv[i].a0_res);
			else vh_nontrivial();
			free(ctx);
		}
	}
	if (0 == mode)
		printf("NOTE\tgost_round_vectors=%zu\n", i);
	/* encrypt / decrypt vectors, LE then BE table */
	for (be = 0; be < 2; be ++) {
		gost28147_tst1v_t *tv = be ? gost28147_tst1v_be : gost28147_tst1v;
		for (i = 0; 0 != tv[i].key_size; i ++) {
			s = sbox_index(tv[i].sbox);
			if (s < 0) { if (0 == mode) { printf("NOTE\tREFBAD unknown S-box in tst1v[%zu]\n", i); bad ++; } continue; }
			unhex(tv[i].key, tv[i].key_size, key);
			len = unhex(tv[i].plain, tv[i].data_size, pl);
			unhex(tv[i].encrypted, tv[i].data_size, en);
			if (0 == mode) {
				for (b = 0; b < len / 8; b ++) {
					if (be) rg_crypt_be(SBOXES[s].sbox, key, pl + 8 * b, out + 8 * b, 0);
					else rg_crypt_le(SBOXES[s].sbox, key, pl + 8 * b, out + 8 * b, 0);
				}
				if (s < 0 || 0 != memcmp(out, en, len)) { printf("NOTE\tREFBAD gost reference (encrypt) disagrees with tst1v%s[%zu]\n", be ? "_be" : "", i); bad ++; }
				for (b = 0; b < len / 8; b ++) {
					if (be) rg_crypt_be(SBOXES[s].sbox, key, en + 8 * b, out + 8 * b, 1);
					else rg_crypt_le(SBOXES[s].sbox, key, en + 8 * b, out + 8 * b, 1);
				}
				if (s < 0 || 0 != memcmp(out, pl, len)) { printf("NOTE\tREFBAD gost reference (decrypt) disagrees with tst1v%s[%zu]\n", be ? "_be" : "", i); bad ++; }
				continue;
			}
			if (vh_begin(be ? FN[F_ENC_BE] : FN[F_ENC])) {
				memset(&CUR, 0, sizeof(CUR)); CUR.what = "header-vector tst1v"; CUR.sbox = s; CUR.key = -1; CUR.extra = (int)i;
				memcpy(CUR.msg, pl, (len < 24) ? len : 24); CUR.blocks = (len / 8 < 3) ? len / 8 : 3;
				rc = lib_apply(be ? F_ENC_BE : F_ENC, s, key, pl, len / 8, 0, 0, 0, 0, out);
				if (0 != memcmp(out, en, len)) { vh_hex(h1, sizeof(h1), out, len); vh_hex(h2, sizeof(h2), en, len); vh_fail("published-vector", "vector %zu: got %s published %s", i, h1, h2); }
				else vh_nontrivial();
			}
			if (vh_begin(be ? FN[F_DEC_BE] : FN[F_DEC])) {
				memset(&CUR, 0, sizeof(CUR)); CUR.what = "header-vector tst1v"; CUR.sbox = s; CUR.key = -1; CUR.extra = (int)i;
				memcpy(CUR.msg, en, (len < 24) ? len : 24); CUR.blocks = (len / 8 < 3) ? len / 8 : 3;
				rc = lib_apply(be ? F_DEC_BE : F_DEC, s, key, en, len / 8, 0, 0, 0, 0, out);
				if (0 != memcmp(out, pl, len)) { vh_hex(h1, sizeof(h1), out, len); vh_hex(h2, sizeof(h2), pl, len); vh_fail("published-vector", "vector %zu: got %s published %s", i, h1, h2); }
				else vh_nontrivial();
			}
		}
	}
	/* MAC vectors */
	for (be = 0; be < 2; be ++) {
		gost28147_tst2v_t *tv = be ? gost28147_tst2v_be : gost28147_tst2v;
		for (i = 0; 0 != tv[i].key_size; i ++) {
			s = sbox_index(tv[i].sbox);
			if (s < 0) { if (0 == mode) { printf("NOTE\tREFBAD unknown S-box in tst2v[%zu]\n", i); bad ++; } continue; }
			unhex(tv[i].key, tv[i].key_size, key);
			len = unhex(tv[i].plain, tv[i].data_size, pl);
			unhex(tv[i].mac, 16, en);
			if (0 == mode) {
				st[0] = st[1] = 0;
				if (be) { rg_mac_be(SBOXES[s].sbox, key, pl, len / 8, st); rg_st_be32(out, st[1]); rg_st_be32(out + 4, st[0]); }
				else { rg_mac_le(SBOXES[s].sbox, key, pl, len / 8, st); rg_st_le32(out, st[0]); rg_st_le32(out + 4, st[1]); }
				if (s < 0 || 0 != memcmp(out, en, 8)) { printf("NOTE\tREFBAD gost reference (mac) disagrees with tst2v%s[%zu]\n", be ? "_be" : "", i); bad ++; }
				continue;
			}
			if (vh_begin(be ? FN[F_MAC_BE] : FN[F_MAC])) {
				memset(&CUR, 0, sizeof(CUR)); CUR.what = "header-vector tst2v"; CUR.sbox = s; CUR.key = -1; CUR.extra = (int)i;
				memcpy(CUR.msg, pl, (len < 24) ? len : 24); CUR.blocks = (len / 8 < 3) ? len / 8 : 3;
				rc = lib_apply(be ? F_MAC_BE : F_MAC, s, key, pl, len / 8, 0, 0, 0, 8, out);
				if (0 != memcmp(out, en, 8)) { vh_hex(h1, sizeof(h1), out, 8); vh_hex(h2, sizeof(h2), en, 8); vh_fail("published-vector", "vector %zu: got %s published %s", i, h1, h2); }
				else vh_nontrivial();
			}
		}
	}
	(void)rc;
	return (bad);
}

int
main(int argc, char **argv) {
	vh_init(argc, argv);
	if (vectors(0)) {
		printf("NOTE\tREFBAD reference failed its anchors; nothing was judged\n");
		fflush(stdout);
		return (3);
	}
	vh_set_describer(describe);
	vectors(1);
	blocks_all();
	block32_all();
#ifdef GOST28147_USE_SMALL_TABLES
	printf("NOTE\ttables=small sboxes=%d\n", NSBOX);
#else
	printf("NOTE\ttables=expanded sboxes=%d\n", NSBOX);
#endif
	return (vh_finish());
}
