/* C08 / ChaCha - partition-confluence exploration of the streaming API and exhaustive
 * enumeration of the one-shot entry points of include/crypto/cipher/chacha.h.
 *
 * State space (model_checking level):
 *   state      = (config, n): the real chacha_context_str_t after n bytes of the stream
 *                have been processed; config = (rounds, key size, key, initial counter, nonce)
 *   transition = chacha_str_data_crypt(ctx, src, c, dst) with c in 0..L-n and a "variant":
 *                (src alignment 0..7) x (dst alignment 0..7), src == NULL x dst alignment,
 *                src == dst (in place) x alignment.
 *   oracle on every transition (n, c, v):
 *                dst == reference_keystream[n..n+c) XOR input,
 *                canonical(ctx') == canonical(SNAP[n+c])  (confluence: all paths into n+c agree),
 *                block counter == ctr0 + blocks consumed (64-bit arithmetic),
 *                nothing outside dst[0..c) written, src not modified.
 *   By induction over n this decides every split of every prefix of the stream.
 *   "canonical" leaves out the bytes the implementation treats as scratch (c.x, the used head
 *   of ks); the exclusion is itself checked: every transition runs twice with the scratch
 *   bytes of the pre-state filled with 0x00 and 0xA5 and both runs must meet the oracle.
 */
#include <errno.h>
#include <inttypes.h>
#include "vh.h"
#ifndef C08_BUILD_TAG
#  define C08_BUILD_TAG "?"
#endif
#define CHACHA_SELF_TEST 1
#include "crypto/cipher/chacha.h"
#include "ref_chacha.h"

#ifdef VH_HAS_ASAN
#  define TAILPAD 0	/* exact size: the ASan redzone starts at the first byte behind the buffer */
#else
#  define TAILPAD 16	/* no ASan in this build: canary bytes behind the buffer instead */
#endif
#define CANARY	0xC3

#define LMAX	(4 * 64 + 1)

/* ------------------------------------------------------------------ alphabets */
static const unsigned ROUNDS[3] = { 8, 12, 20 };
static const size_t KEYLEN[2] = { 16, 32 };
static const uint64_t CTRS[7] = {
	0ull, 1ull, 0xfffffffeull, 0xffffffffull, 0x100000000ull,
	0xfffffffffffffffeull, 0xffffffffffffffffull
};
static const uint8_t NONCES[4][8] = {
	{ 0, 0, 0, 0, 0, 0, 0, 0 },
	{ 0x00, 0x01, 0x02, 0x03, 0x04, 0x05, 0x06, 0x07 },
	{ 0xff, 0xff, 0xff, 0xff, 0xff, 0xff, 0xff, 0xff },
	{ 0x80, 0, 0, 0, 0, 0, 0, 0x01 }
};
static const uint8_t KEYS[3][32] = {
	{ 0x00, 0x01, 0x02, 0x03, 0x04, 0x05, 0x06, 0x07, 0x08, 0x09, 0x0a, 0x0b, 0x0c, 0x0d, 0x0e, 0x0f,
	  0x10, 0x11, 0x12, 0x13, 0x14, 0x15, 0x16, 0x17, 0x18, 0x19, 0x1a, 0x1b, 0x1c, 0x1d, 0x1e, 0x1f },
	{ 0xff, 0xff, 0xff, 0xff, 0xff, 0xff, 0xff, 0xff, 0xff, 0xff, 0xff, 0xff, 0xff, 0xff, 0xff, 0xff,
	  0xff, 0xff, 0xff, 0xff, 0xff, 0xff, 0xff, 0xff, 0xff, 0xff, 0xff, 0xff, 0xff, 0xff, 0xff, 0xff },
	{ 0x80, 0x00, 0x00, 0x00, 0x00, 0x00, 0x00, 0x01, 0x7f, 0xff, 0xff, 0xfe, 0x00, 0x00, 0x00, 0x00,
	  0x00, 0x00, 0x00, 0x80, 0x01, 0x00, 0x00, 0x00, 0xa5, 0x5a, 0xc3, 0x3c, 0x00, 0xff, 0x00, 0xff }
};

typedef struct cfg_s {
	unsigned rounds;
	size_t	keylen;
	int	key_id;
	uint64_t ctr0;
	int	nonce_id;
} cfg_t;

static uint8_t MSG[LMAX + 64];

/* ------------------------------------------------------------------ current case (lazy description) */
static struct {
	const char *what;
	cfg_t	cfg;
	size_t	n, c;
	int	sa, da, mode;	/* mode 0 separate, 1 src == NULL, 2 in place */
	int	poison;
	int	extra;
} CUR;

static void
describe(char *b, size_t n) {
	snprintf(b, n, "%s rounds=%u keybytes=%zu key#%d ctr0=0x%" PRIx64 " nonce#%d pos=%zu len=%zu "
	    "src=%s@%d dst@%d scratch=0x%02x x=%d build=" C08_BUILD_TAG, CUR.what, CUR.cfg.rounds, CUR.cfg.keylen, CUR.cfg.key_id,
	    CUR.cfg.ctr0, CUR.cfg.nonce_id, CUR.n, CUR.c,
	    (CUR.mode == 1) ? "NULL" : ((CUR.mode == 2) ? "dst" : "buf"), CUR.sa, CUR.da, CUR.poison, CUR.extra);
}

/* ------------------------------------------------------------------ buffers at a chosen alignment */
typedef struct cbuf_s {
	uint8_t *base, *p;
	size_t	off, len;
} cbuf_t;

static uint8_t *
cb_alloc(cbuf_t *b, size_t off, size_t len) {
	size_t tot = off + len + TAILPAD;
	b->base = (uint8_t *)malloc(tot ? tot : 1);
	if (NULL == b->base || 0 != ((uintptr_t)b->base & 7)) {
		fprintf(stderr, "cb_alloc: malloc gave %p\n", (void *)b->base);
		exit(3);
	}
	memset(b->base, CANARY, tot);
	b->off = off;
	b->len = len;
	b->p = b->base + off;
	return (b->p);
}
/* non-zero if a byte outside [p, p+len) was changed */
static int
cb_outside_touched(const cbuf_t *b) {
	size_t i;
	for (i = 0; i < b->off; i ++)
		if (b->base[i] != CANARY)
			return (1);
	for (i = 0; i < TAILPAD; i ++)
		if (b->p[b->len + i] != CANARY)
			return (1);
	return (0);
}
static void
cb_free(cbuf_t *b) {
	free(b->base);
	b->base = NULL;
}

/* variant v -> (mode, sa, da).  80 variants: 64 (sa, da) pairs, 8 NULL-src, 8 in-place. */
#define NVARIANTS_FULL 80
static void
variant_decode(int v, int *mode, int *sa, int *da) {
	if (v < 64) { *mode = 0; *sa = v / 8; *da = v % 8; }
	else if (v < 72) { *mode = 1; *sa = 0; *da = v - 64; }
	else { *mode = 2; *sa = v - 72; *da = v - 72; }
}
/* The five representative variants used on the configurations that do not get the full cross:
 * aligned-8 path, unaligned path, aligned-4 path, NULL source, in place. */
static const int VARIANTS_5[5] = { 0 * 8 + 0, 1 * 8 + 3, 4 * 8 + 4, 64 + 0, 72 + 0 };
/* One-shot entry points: 32 variants. */
static void
variant32_decode(int v, int *mode, int *sa, int *da) {
	if (v < 8) { *mode = 0; *sa = v; *da = v; }
	else if (v < 16) { *mode = 0; *sa = v - 8; *da = (v - 8 + 3) % 8; }
	else if (v < 24) { *mode = 1; *sa = 0; *da = v - 16; }
	else { *mode = 2; *sa = v - 24; *da = v - 24; }
}

/* ------------------------------------------------------------------ context abstraction */
#define CANON_MAX (64 + 8 + 8 + 64)
static size_t
canon(const chacha_context_str_t *c, uint8_t *out) {
	size_t o = 0;
	uint64_t t;
	memcpy(out + o, c->c.state, 64); o += 64;
	t = (uint64_t)c->c.rounds; memcpy(out + o, &t, 8); o += 8;
	t = (uint64_t)c->ks_len; memcpy(out + o, &t, 8); o += 8;
	if (c->ks_len <= 64) { /* the unused tail of the key-stream block is live */
		memcpy(out + o, ((const uint8_t *)c->ks) + (64 - c->ks_len), c->ks_len);
		o += c->ks_len;
	}
	return (o);
}
static void
scratch_fill(chacha_context_str_t *c, int poison) {
	memset(c->c.x, poison, sizeof(c->c.x));
	if (c->ks_len <= 64)
		memset(c->ks, poison, 64 - c->ks_len);
}
static uint64_t
ctx_counter(const chacha_context_t *c) {
	return ((uint64_t)c->state[12] | ((uint64_t)c->state[13] << 32));
}

/* blocks [0, nblk) of the stream started at ctr0: does the counter pass 2^64? */
static int
wraps64(uint64_t ctr0, uint64_t nblk) {
	return (nblk > 0 && (uint64_t)(ctr0 + nblk) < ctr0);	/* includes "counter is 0 after the last block" */
}

#define FAIL(base, ...) vh_fail(wrapped ? base "@wrap64" : base, __VA_ARGS__)

/* ------------------------------------------------------------------ BFS over one configuration */
static uint64_t g_execs = 0;
static uint8_t KS[LMAX + 128];
static chacha_context_str_t SNAP[LMAX + 1];
static uint8_t SNAP_CANON[LMAX + 1][CANON_MAX];
static size_t SNAP_CANON_LEN[LMAX + 1];

static void
cfg_seed(const cfg_t *cfg, size_t L) {
	size_t n;
	uint8_t ctr[8], *tmp;
	int i;

	rc_stream(KS, L + 64, KEYS[cfg->key_id], cfg->keylen, cfg->rounds, cfg->ctr0, NONCES[cfg->nonce_id]);
	for (i = 0; i < 8; i ++)
		ctr[i] = (uint8_t)(cfg->ctr0 >> (8 * i));
	tmp = (uint8_t *)malloc(L + 8);
	for (n = 0; n <= L; n ++) { /* the state "n bytes processed", produced by one call from the start */
		memset(&SNAP[n], 0x5a, sizeof(SNAP[n]));	/* an init that forgets a field must show */
		chacha_str_init(&SNAP[n], KEYS[cfg->key_id], cfg->keylen, ctr, NONCES[cfg->nonce_id], cfg->rounds);
		chacha_str_data_crypt(&SNAP[n], MSG, n, tmp);
		SNAP_CANON_LEN[n] = canon(&SNAP[n], SNAP_CANON[n]);
	}
	free(tmp);
}

static void
transition(const cfg_t *cfg, size_t n, size_t c, int v) {
	int mode, sa, da, poison, ok = 1, wrapped;
	size_t i, m = n + c, cl;
	uint64_t nblk_lo, nblk_hi, got;
	cbuf_t sb, db;
	uint8_t *src, *dst, cn[CANON_MAX], want;
	chacha_context_str_t *ctx;

	variant_decode(v, &mode, &sa, &da);
	CUR.what = "stream"; CUR.cfg = *cfg; CUR.n = n; CUR.c = c; CUR.mode = mode; CUR.sa = sa; CUR.da = da; CUR.extra = 0;
	nblk_lo = m / 64;		/* blocks certainly consumed */
	nblk_hi = (m + 63) / 64;	/* ... including the partly used one */
	wrapped = wraps64(cfg->ctr0, nblk_hi);
	for (poison = 0x00; poison <= 0xA5; poison += 0xA5) {
		CUR.poison = poison;
		ctx = (chacha_context_str_t *)malloc(sizeof(*ctx));
		memcpy(ctx, &SNAP[n], sizeof(*ctx));
		scratch_fill(ctx, poison);
		sb.base = NULL;
		if (2 == mode) {
			dst = cb_alloc(&db, (size_t)da, c);
			memcpy(dst, MSG + n, c);
			src = dst;
		} else {
			dst = cb_alloc(&db, (size_t)da, c);
			src = NULL;
			if (0 == mode) {
				src = cb_alloc(&sb, (size_t)sa, c);
				memcpy(src, MSG + n, c);
			}
		}
		chacha_str_data_crypt(ctx, src, c, dst);
		g_execs ++;
		for (i = 0; i < c; i ++) {
			want = (1 == mode) ? KS[n + i] : (uint8_t)(KS[n + i] ^ MSG[n + i]);
			if (dst[i] != want) {
				FAIL("keystream", "output byte %zu (stream offset %zu) is %02x, reference %02x", i, n + i, dst[i], want);
				ok = 0;
				break;
			}
		}
		if (cb_outside_touched(&db)) { FAIL("write-outside-dst", "bytes outside dst[0..%zu) changed", c); ok = 0; }
		if (0 == mode) {
			if (0 != memcmp(src, MSG + n, c) || cb_outside_touched(&sb)) { FAIL("src-modified", "source buffer changed"); ok = 0; }
		}
		cl = canon(ctx, cn);
		if (cl != SNAP_CANON_LEN[m] || 0 != memcmp(cn, SNAP_CANON[m], cl)) {
			FAIL("context-confluence", "context after %zu+%zu bytes differs from the context after one call of %zu bytes "
			    "(ks_len %zu vs %zu, counter 0x%" PRIx64 " vs 0x%" PRIx64 ")", n, c, m, (size_t)ctx->ks_len, (size_t)SNAP[m].ks_len,
			    ctx_counter(&ctx->c), ctx_counter(&SNAP[m].c));
			ok = 0;
		}
		got = ctx_counter(&ctx->c);
		if (got != cfg->ctr0 + nblk_hi && got != cfg->ctr0 + nblk_lo) {
			FAIL("counter", "block counter 0x%" PRIx64 " after %zu bytes from 0x%" PRIx64 ", expected 0x%" PRIx64,
			    got, m, cfg->ctr0, cfg->ctr0 + nblk_hi);
			ok = 0;
		}
		free(ctx);
		cb_free(&db);
		if (NULL != sb.base)
			cb_free(&sb);
	}
	if (ok && c > 0)
		vh_nontrivial();
}

/* nvar < 0: all 80 variants, else the VARIANTS_5 list */
static void
bfs(const cfg_t *cfg, size_t L, int full) {
	size_t n, c;
	int vi, nv = full ? NVARIANTS_FULL : 5, v;
	int seeded = 0, r, kl, ci;
	uint64_t owned = 0, execs0 = g_execs;

	for (r = 0; ROUNDS[r] != cfg->rounds; r ++) ;
	for (kl = 0; KEYLEN[kl] != cfg->keylen; kl ++) ;
	for (ci = 0; CTRS[ci] != cfg->ctr0; ci ++) ;
	for (vi = 0; vi < nv; vi ++) {
		v = full ? vi : VARIANTS_5[vi];
		for (n = 0; n <= L; n ++) {
			for (c = 0; c <= L - n; c ++) {
				if (!vh_begin("chacha_str_data_crypt"))
					continue;
				if (!seeded) { /* lazily: a shard that owns nothing here pays nothing */
					cfg_seed(cfg, L);
					seeded = 1;
				}
				transition(cfg, n, c, v);
				owned ++;
			}
		}
	}
	/* progressive bookkeeping (survives a later crash of this process): configuration, states, transitions
	 * run by this process, executions of the real function */
	printf("NOTE\tbfs\t%d.%d.%d.%d\t%zu\t%llu\t%llu\n", r, kl, ci, cfg->nonce_id, L + 1,
	    (unsigned long long)owned, (unsigned long long)(g_execs - execs0));
}

/* ------------------------------------------------------------------ one-shot entry points */
static void
ctr_bytes(uint64_t v, uint8_t *o) {
	int i;
	for (i = 0; i < 8; i ++)
		o[i] = (uint8_t)(v >> (8 * i));
}

/* spell: 0 = plain arguments; 1 = the optional spellings: key size given in bits (256) for a 32-byte key,
 * counter == NULL for counter 0, iv == NULL for the all-zero nonce.  Returns 0 if spell 1 changes nothing. */
static void
oneshot(const char *target, int is_x, const cfg_t *cfg, const uint8_t *iv24, size_t len, int v, int spell) {
	int mode, sa, da, wrapped, ok = 1;
	size_t i, ivlen = is_x ? 24 : 8, key_size_arg = cfg->keylen;
	cbuf_t sb, db;
	uint8_t *src = NULL, *dst, *key, *iv, *ctr, cb[8], ks[LMAX + 64], want;
	const uint8_t *ivsrc = is_x ? iv24 : NONCES[cfg->nonce_id];

	variant32_decode(v, &mode, &sa, &da);
	CUR.what = target; CUR.cfg = *cfg; CUR.n = 0; CUR.c = len; CUR.mode = mode; CUR.sa = sa; CUR.da = da; CUR.poison = 0; CUR.extra = spell;
	wrapped = wraps64(cfg->ctr0, (len + 63) / 64);
	if (is_x)
		rc_xstream(ks, len, KEYS[cfg->key_id], cfg->keylen, cfg->rounds, cfg->ctr0, iv24);
	else
		rc_stream(ks, len, KEYS[cfg->key_id], cfg->keylen, cfg->rounds, cfg->ctr0, ivsrc);
	/* exact-size heap copies of every input */
	key = (uint8_t *)vh_dup(KEYS[cfg->key_id], cfg->keylen);
	iv = (uint8_t *)vh_dup(ivsrc, ivlen);
	ctr_bytes(cfg->ctr0, cb);
	ctr = (uint8_t *)vh_dup(cb, 8);
	sb.base = NULL;
	dst = cb_alloc(&db, (size_t)da, len);
	if (2 == mode) {
		memcpy(dst, MSG, len);
		src = dst;
	} else if (0 == mode) {
		src = cb_alloc(&sb, (size_t)sa, len);
		memcpy(src, MSG, len);
	}
	{
		const uint8_t *a_ctr = ctr, *a_iv = iv;
		if (spell) {
			size_t z;
			int allz = 1;
			if (32 == cfg->keylen)
				key_size_arg = 256;
			if (0 == cfg->ctr0)
				a_ctr = NULL;
			for (z = 0; z < ivlen; z ++)
				if (ivsrc[z]) allz = 0;
			if (allz)
				a_iv = NULL;
		}
		if (is_x)
			xchacha(key, key_size_arg, a_ctr, a_iv, cfg->rounds, src, len, dst);
		else
			chacha(key, key_size_arg, a_ctr, a_iv, cfg->rounds, src, len, dst);
	}
	for (i = 0; i < len; i ++) {
		want = (1 == mode) ? ks[i] : (uint8_t)(ks[i] ^ MSG[i]);
		if (dst[i] != want) {
			FAIL("keystream", "output byte %zu is %02x, reference %02x", i, dst[i], want);
			ok = 0;
			break;
		}
	}
	if (cb_outside_touched(&db)) { FAIL("write-outside-dst", "bytes outside dst[0..%zu) changed", len); ok = 0; }
	if (0 == mode && (0 != memcmp(src, MSG, len) || cb_outside_touched(&sb))) { FAIL("src-modified", "source buffer changed"); ok = 0; }
	if (0 != memcmp(key, KEYS[cfg->key_id], cfg->keylen) || 0 != memcmp(iv, ivsrc, ivlen) || 0 != memcmp(ctr, cb, 8)) {
		FAIL("src-modified", "key/iv/counter argument changed"); ok = 0;
	}
	if (ok && len > 0)
		vh_nontrivial();
	if (ok && len > 0 && len <= 80)
		vh_outcome(dst, len);
	free(key); free(iv); free(ctr);
	cb_free(&db);
	if (NULL != sb.base)
		cb_free(&sb);
}

static int
spell_changes(const cfg_t *cfg, const uint8_t *iv, size_t ivlen) {
	size_t z;
	if (32 == cfg->keylen || 0 == cfg->ctr0)
		return (1);
	for (z = 0; z < ivlen; z ++)
		if (iv[z]) return (0);
	return (1);
}

/* chacha_init + chacha_blocks_transform: whole blocks, counter after the call is exact. */
static void
blocks_transform(const cfg_t *cfg, size_t nblk, int v, int via_u64) {
	int mode, sa, da, wrapped, ok = 1;
	size_t i, len = nblk * 64;
	cbuf_t sb, db;
	uint8_t *src = NULL, *dst, cb[8], ks[6 * 64], want;
	chacha_context_t *ctx;
	uint64_t got;

	variant_decode(v, &mode, &sa, &da);
	CUR.what = "blocks"; CUR.cfg = *cfg; CUR.n = 0; CUR.c = len; CUR.mode = mode; CUR.sa = sa; CUR.da = da; CUR.poison = 0; CUR.extra = via_u64;
	wrapped = wraps64(cfg->ctr0, nblk);
	rc_stream(ks, len, KEYS[cfg->key_id], cfg->keylen, cfg->rounds, cfg->ctr0, NONCES[cfg->nonce_id]);
	ctr_bytes(cfg->ctr0, cb);
	ctx = (chacha_context_t *)malloc(sizeof(*ctx));
	memset(ctx, 0x5a, sizeof(*ctx));
	if (via_u64) {
		chacha_init(ctx, KEYS[cfg->key_id], cfg->keylen, NULL, NONCES[cfg->nonce_id], cfg->rounds);
		chacha_counter_set_u64(ctx, cfg->ctr0);
		if (chacha_counter_get_u64(ctx) != cfg->ctr0) { FAIL("counter", "chacha_counter_get_u64 after set_u64"); ok = 0; }
	} else {
		chacha_init(ctx, KEYS[cfg->key_id], cfg->keylen, cb, NONCES[cfg->nonce_id], cfg->rounds);
	}
	sb.base = NULL;
	dst = cb_alloc(&db, (size_t)da, len);
	if (2 == mode) {
		memcpy(dst, MSG, len);
		src = dst;
	} else if (0 == mode) {
		src = cb_alloc(&sb, (size_t)sa, len);
		memcpy(src, MSG, len);
	}
	chacha_blocks_transform(ctx, src, nblk, dst);
	for (i = 0; i < len; i ++) {
		want = (1 == mode) ? ks[i] : (uint8_t)(ks[i] ^ MSG[i]);
		if (dst[i] != want) {
			FAIL("keystream", "output byte %zu is %02x, reference %02x", i, dst[i], want);
			ok = 0;
			break;
		}
	}
	if (cb_outside_touched(&db)) { FAIL("write-outside-dst", "bytes outside dst[0..%zu) changed", len); ok = 0; }
	if (0 == mode && (0 != memcmp(src, MSG, len) || cb_outside_touched(&sb))) { FAIL("src-modified", "source buffer changed"); ok = 0; }
	got = ctx_counter(ctx);
	if (got != cfg->ctr0 + nblk) {
		FAIL("counter", "block counter 0x%" PRIx64 " after %zu blocks from 0x%" PRIx64, got, nblk, cfg->ctr0);
		ok = 0;
	}
	if (chacha_counter_get_u64(ctx) != got) { FAIL("counter", "chacha_counter_get_u64 disagrees with state[12..13]"); ok = 0; }
	if (ok && nblk > 0)
		vh_nontrivial();
	free(ctx);
	cb_free(&db);
	if (NULL != sb.base)
		cb_free(&sb);
}

static void
hchacha_case(unsigned rounds, size_t keylen, int key_id, const uint8_t *iv16, int da, int spell) {
	uint8_t ref[32], *key, *iv, *dst;
	cbuf_t db;
	size_t key_size_arg = keylen;
	const uint8_t *a_iv;
	int wrapped = 0, ok = 1, i, allz = 1;

	CUR.what = "hchacha"; CUR.cfg.rounds = rounds; CUR.cfg.keylen = keylen; CUR.cfg.key_id = key_id; CUR.cfg.ctr0 = 0;
	CUR.cfg.nonce_id = -1; CUR.n = 0; CUR.c = 32; CUR.mode = 1; CUR.sa = 0; CUR.da = da; CUR.poison = 0; CUR.extra = spell;
	memcpy(&CUR.cfg.ctr0, iv16, 8); /* shows the first half of the iv in the description */
	rc_hchacha(ref, KEYS[key_id], keylen, iv16, rounds);
	key = (uint8_t *)vh_dup(KEYS[key_id], keylen);
	iv = (uint8_t *)vh_dup(iv16, 16);
	dst = cb_alloc(&db, (size_t)da, 32);
	a_iv = iv;
	if (spell) {
		if (32 == keylen)
			key_size_arg = 256;
		for (i = 0; i < 16; i ++)
			if (iv16[i]) allz = 0;
		if (allz)
			a_iv = NULL;
	}
	hchacha(key, key_size_arg, a_iv, rounds, dst);
	if (0 != memcmp(dst, ref, 32)) {
		char hx[80], hr[80];
		vh_hex(hx, sizeof(hx), dst, 32); vh_hex(hr, sizeof(hr), ref, 32);
		FAIL("subkey", "got %s reference %s", hx, hr);
		ok = 0;
	}
	if (cb_outside_touched(&db)) { FAIL("write-outside-dst", "bytes outside dst[0..32) changed"); ok = 0; }
	if (0 != memcmp(key, KEYS[key_id], keylen) || 0 != memcmp(iv, iv16, 16)) { FAIL("src-modified", "key/iv changed"); ok = 0; }
	if (ok) {
		vh_nontrivial();
		vh_outcome(dst, 32);
	}
	free(key); free(iv);
	cb_free(&db);
}

/* ------------------------------------------------------------------ the header's own vectors */
static int
hexval(int ch) {
	if (ch >= '0' && ch <= '9') return (ch - '0');
	if (ch >= 'a' && ch <= 'f') return (ch - 'a' + 10);
	if (ch >= 'A' && ch <= 'F') return (ch - 'A' + 10);
	return (-1);
}
static size_t
unhex(const uint8_t *hex, size_t hexlen, uint8_t *out) {
	size_t i;
	for (i = 0; i + 1 < hexlen; i += 2)
		out[i / 2] = (uint8_t)((hexval(hex[i]) << 4) | hexval(hex[i + 1]));
	return (hexlen / 2);
}

typedef struct vec_s {
	unsigned rounds;
	uint8_t	key[32]; size_t keylen;
	uint64_t ctr;
	uint8_t	iv[8];
	size_t	len;
	uint8_t	plain[1024], enc[1024];
	int	has_plain;
} vec_t;

static int
vec_load(size_t i, vec_t *v) {
	const chacha_tst1v_t *t = &chacha_tst1v[i];
	uint8_t cb[8];
	int k;
	if (0 == t->rounds)
		return (0);
	memset(v, 0, sizeof(*v));
	v->rounds = (unsigned)t->rounds;
	v->keylen = unhex(t->key, t->key_size, v->key);
	v->ctr = 0;
	if (NULL != t->count) { /* the table writes the counter as a big-endian number */
		unhex(t->count, 16, cb);
		for (k = 0; k < 8; k ++)
			v->ctr = (v->ctr << 8) | cb[k];
	}
	if (NULL != t->iv)
		unhex(t->iv, 16, v->iv);
	v->len = unhex(t->encrypted, t->data_size, v->enc);
	v->has_plain = (NULL != t->plain);
	if (v->has_plain)
		unhex(t->plain, t->data_size, v->plain);
	return (1);
}

static const uint8_t RFC7539_KS0[16] = { /* RFC 7539 2.3.2, first 16 bytes of the block */
	0x10, 0xf1, 0xe7, 0xe4, 0xd1, 0x3b, 0x59, 0x15, 0x50, 0x0f, 0xdd, 0x1f, 0xa3, 0x20, 0x71, 0xc4
};
static const uint8_t XDRAFT_HCHACHA20[32] = { /* draft-irtf-cfrg-xchacha 2.2.1 */
	0x82, 0x41, 0x3b, 0x42, 0x27, 0xb2, 0x7b, 0xfe, 0xd3, 0x0e, 0x42, 0x50, 0x8a, 0x87, 0x7d, 0x73,
	0xa0, 0xf9, 0xe4, 0xd5, 0x8a, 0x74, 0xa8, 0x53, 0xc1, 0x2e, 0xc4, 0x13, 0x26, 0xd3, 0xec, 0xdc
};

/* The reference must reproduce every published vector before it is allowed to judge. */
static int
ref_selfcheck(void) {
	size_t i, k, h;
	vec_t v;
	uint8_t ks[2048], key[32], iv[24], plain[2048], acc[64], out32[32];
	int bad = 0;
	static const uint8_t n7539[16] = { 1, 0, 0, 0, 0, 0, 0, 9, 0, 0, 0, 0x4a, 0, 0, 0, 0 };
	static const uint8_t nx[16] = { 0, 0, 0, 9, 0, 0, 0, 0x4a, 0, 0, 0, 0, 0x31, 0x41, 0x59, 0x27 };

	for (i = 0; vec_load(i, &v); i ++) {
		rc_stream(ks, v.len, v.key, v.keylen, v.rounds, v.ctr, v.iv);
		for (k = 0; k < v.len; k ++)
			if ((uint8_t)(ks[k] ^ (v.has_plain ? v.plain[k] : 0)) != v.enc[k]) {
				printf("NOTE\tREFBAD chacha reference disagrees with header vector %zu at byte %zu\n", i, k);
				bad ++;
				break;
			}
	}
	if (i < 20) { printf("NOTE\tREFBAD only %zu vectors in chacha_tst1v\n", i); bad ++; }
	printf("NOTE\theader_vectors=%zu\n", i);
	/* RFC 7539 2.3.2 in the 64/64 layout: counter = 1 | 0x09000000 << 32, nonce = 00 00 00 4a 00 00 00 00 */
	rc_stream(ks, 64, KEYS[0], 32, 20, 1ull | (0x09000000ull << 32), n7539 + 8);
	if (0 != memcmp(ks, RFC7539_KS0, 16)) { printf("NOTE\tREFBAD RFC 7539 2.3.2 block\n"); bad ++; }
	rc_hchacha(out32, KEYS[0], 32, nx, 20);
	if (0 != memcmp(out32, XDRAFT_HCHACHA20, 32)) { printf("NOTE\tREFBAD draft-irtf-cfrg-xchacha 2.2.1 HChaCha20\n"); bad ++; }
	/* floodyberry anchors carried in the header: key 192.., iv 16.., rounds 8 */
	for (k = 0; k < 32; k ++) key[k] = (uint8_t)(k + 192);
	for (k = 0; k < 24; k ++) iv[k] = (uint8_t)(k + 16);
	for (k = 0, h = 0; k < 2048; k ++) { h += (h + k + 0x55); h ^= (h >> 3); plain[k] = (uint8_t)h; }
	rc_hchacha(out32, key, 32, iv, 8);
	if (0 != memcmp(out32, expected_hchacha, 32)) { printf("NOTE\tREFBAD expected_hchacha\n"); bad ++; }
	rc_xstream(ks, 2048, key, 32, 8, 0, iv);
	memset(acc, 0, 64);
	for (k = 0; k < 2048; k ++) acc[k % 64] ^= ks[k];
	/* chacha_res_compact leaves block 0 of the *cipher text* in, i.e. acc ^ plain-block-0 ^ plain-block-0: see header */
	if (0 != memcmp(acc, expected_xchacha_oneshot, 64)) { printf("NOTE\tREFBAD expected_xchacha_oneshot\n"); bad ++; }
	rc_stream(ks, 2048, key, 32, 8, 0, iv);
	memset(acc, 0, 64);
	for (k = 0; k < 2048; k ++) acc[k % 64] ^= ks[k];
	if (0 != memcmp(acc, expected_chacha_oneshot, 64)) { printf("NOTE\tREFBAD expected_chacha_oneshot\n"); bad ++; }
	(void)plain;
	return (bad);
}

static void
published_vectors(void) {
	size_t i, k, h;
	vec_t v;
	uint8_t cb[8], *dst, *src, key[32], iv[24], *plain, *res, acc[64], o32[32];
	int wrapped = 0;

	for (i = 0; vec_load(i, &v); i ++) {
		if (!vh_begin("chacha"))
			continue;
		memset(&CUR, 0, sizeof(CUR));
		CUR.what = "header-vector"; CUR.cfg.rounds = v.rounds; CUR.cfg.keylen = v.keylen; CUR.cfg.key_id = -1;
		CUR.cfg.ctr0 = v.ctr; CUR.cfg.nonce_id = -1; CUR.c = v.len; CUR.extra = (int)i;
		ctr_bytes(v.ctr, cb);
		dst = (uint8_t *)malloc(v.len);
		src = v.has_plain ? (uint8_t *)vh_dup(v.plain, v.len) : NULL;
		chacha(v.key, v.keylen, cb, v.iv, v.rounds, src, v.len, dst);
		for (k = 0; k < v.len; k ++)
			if (dst[k] != v.enc[k]) {
				FAIL("published-vector", "vector %zu of chacha_tst1v: byte %zu is %02x, published %02x", i, k, dst[k], v.enc[k]);
				break;
			}
		if (k == v.len)
			vh_nontrivial();
		free(dst); free(src);
	}
	/* hchacha / xchacha / chacha anchors of the header (rounds 8) */
	for (k = 0; k < 32; k ++) key[k] = (uint8_t)(k + 192);
	for (k = 0; k < 24; k ++) iv[k] = (uint8_t)(k + 16);
	plain = (uint8_t *)malloc(2048);
	res = (uint8_t *)malloc(2048);
	for (k = 0, h = 0; k < 2048; k ++) { h += (h + k + 0x55); h ^= (h >> 3); plain[k] = (uint8_t)h; }
	if (vh_begin("hchacha")) {
		memset(&CUR, 0, sizeof(CUR)); CUR.what = "header-anchor expected_hchacha"; CUR.cfg.rounds = 8; CUR.cfg.keylen = 32;
		hchacha(key, 256, iv, 8, o32);
		if (0 != memcmp(o32, expected_hchacha, 32)) FAIL("published-vector", "expected_hchacha");
		else vh_nontrivial();
	}
	if (vh_begin("xchacha")) {
		memset(&CUR, 0, sizeof(CUR)); CUR.what = "header-anchor expected_xchacha_oneshot"; CUR.cfg.rounds = 8; CUR.cfg.keylen = 32; CUR.c = 2048;
		xchacha(key, 256, NULL, iv, 8, plain, 2048, res);
		memset(acc, 0, 64);
		for (k = 0; k < 2048; k ++) acc[k % 64] ^= (uint8_t)(res[k] ^ plain[k]);
		if (0 != memcmp(acc, expected_xchacha_oneshot, 64)) FAIL("published-vector", "expected_xchacha_oneshot");
		else vh_nontrivial();
	}
	if (vh_begin("chacha")) {
		memset(&CUR, 0, sizeof(CUR)); CUR.what = "header-anchor expected_chacha_oneshot"; CUR.cfg.rounds = 8; CUR.cfg.keylen = 32; CUR.c = 2048;
		chacha(key, 256, NULL, iv, 8, plain, 2048, res);
		memset(acc, 0, 64);
		for (k = 0; k < 2048; k ++) acc[k % 64] ^= (uint8_t)(res[k] ^ plain[k]);
		if (0 != memcmp(acc, expected_chacha_oneshot, 64)) FAIL("published-vector", "expected_chacha_oneshot");
		else vh_nontrivial();
	}
	free(plain); free(res);
}

/* ------------------------------------------------------------------ grid for the openssl cross-check */
static void
refgrid(void) {
	static const char *ivs[] = {
		"00000000000000000000000000000000",
		"01000000000000090000004a00000000",
		"000102030405060708090a0b0c0d0e0f",
		"ffffffff000000000001020304050607",	/* low counter word about to carry */
		"feffffff010000008000000000000001",
		"ffffffffffffffffffffffffffffffff",
		"ffffffffffffffff0001020304050607",	/* 64-bit counter about to wrap */
		NULL
	};
	static const size_t lens[] = { 1, 64, 65, 200, 0 };
	int k, i, l;
	uint8_t iv[16], ks[256];
	char hk[80], hs[600];
	uint64_t ctr;

	for (k = 0; k < 3; k ++) {
		for (i = 0; NULL != ivs[i]; i ++) {
			unhex((const uint8_t *)ivs[i], 32, iv);
			for (l = 0; 0 != lens[l]; l ++) {
				int b;
				ctr = 0;
				for (b = 7; b >= 0; b --) ctr = (ctr << 8) | iv[b];
				rc_stream(ks, lens[l], KEYS[k], 32, 20, ctr, iv + 8);
				vh_hex(hk, sizeof(hk), KEYS[k], 32);
				vh_hex(hs, sizeof(hs), ks, lens[l]);
				printf("GRID\t%s\t%s\t%zu\t%s\n", hk, ivs[i], lens[l], hs);
			}
		}
	}
}

/* ------------------------------------------------------------------ enumeration */
static cfg_t
mkcfg(int r, int kl, int key, int c, int nn) {
	cfg_t x;
	x.rounds = ROUNDS[r]; x.keylen = KEYLEN[kl]; x.key_id = key; x.ctr0 = CTRS[c]; x.nonce_id = nn;
	return (x);
}

int
main(int argc, char **argv) {
	int r, kl, c, nn, k, v, i, sp, a;
	size_t len, nblk, L;
	cfg_t cfg;

	for (i = 1; i < argc; i ++) {
		if (0 == strcmp(argv[i], "--refgrid")) {
			if (ref_selfcheck())
				return (3);
			refgrid();
			return (0);
		}
	}
	vh_init(argc, argv);
	for (i = 0; i < (int)sizeof(MSG); i ++)
		MSG[i] = (uint8_t)((i * 131 + 17) ^ (i >> 3) ^ ((i % 7 == 0) ? 0xff : 0));
	if (ref_selfcheck()) {
		printf("NOTE\tREFBAD reference failed its anchors; nothing was judged\n");
		fflush(stdout);
		return (3);
	}
	vh_set_describer(describe);

	/* 0. published vectors through the library */
	published_vectors();

	/* 1. partition confluence on the streaming API.
	 *    (a) full variant cross (80) on selected configurations whose counter carries inside the stream;
	 *    (b) every configuration with the 5 representative variants.
	 *    Builds compiled with -DC08_LIGHT (the -O0 and the ASan builds, 3-5 times slower per call) explore
	 *    a smaller instance of the same space; the sizes are printed as NOTE lines. */
	{
		size_t La, Lb;	/* stream length of part (a) / (b) */
		int light = 0, in_a;
#ifdef C08_LIGHT
		light = 1;
#endif
		if (vh_thorough) { La = LMAX; Lb = light ? (2 * 64 + 1) : LMAX; }
		else { La = light ? (2 * 64 + 1) : LMAX; Lb = light ? (64 + 1) : (2 * 64 + 1); }
		L = Lb;
		for (r = 0; r < 3; r ++) for (kl = 0; kl < 2; kl ++) for (c = 0; c < 7; c ++) {
			/* c == 2: 2^32-2 (carry into the high word after two blocks), c == 5: 2^64-2 */
			if (vh_thorough && !light)
				in_a = (2 == c) || (5 == c && ((2 == r && 1 == kl) || (0 == r && 0 == kl)));
			else if (vh_thorough || !light)
				in_a = (2 == c && 2 == r && 1 == kl) || (5 == c && 0 == r && 0 == kl);
			else
				in_a = (2 == c && 2 == r && 1 == kl);
			if (!in_a)
				continue;
			cfg = mkcfg(r, kl, 0, c, 1);
			bfs(&cfg, (!vh_thorough && !light && 5 == c) ? Lb : La, 1);
		}
		for (r = 0; r < 3; r ++) for (kl = 0; kl < 2; kl ++) for (c = 0; c < 7; c ++) for (nn = 0; nn < 4; nn ++) {
			cfg = mkcfg(r, kl, 0, c, nn);
			bfs(&cfg, Lb, 0);
		}
		printf("NOTE\tchacha-bfs tier=%s light=%d L(full cross)=%zu L(all configurations)=%zu\n",
		    vh_thorough ? "thorough" : "quick", light, La, Lb);
	}

	/* 2. whole-block interface, counter exact */
	for (r = 0; r < 3; r ++) for (kl = 0; kl < 2; kl ++) for (c = 0; c < 7; c ++) for (nn = 0; nn < 4; nn ++) {
		cfg = mkcfg(r, kl, (c + nn) % 3, c, nn);
		for (nblk = 0; nblk <= 5; nblk ++) for (v = 0; v < NVARIANTS_FULL; v ++) {
			if (!vh_begin("chacha_blocks_transform"))
				continue;
			blocks_transform(&cfg, nblk, v, (int)((nblk + (size_t)v) & 1));
		}
	}

	/* 3. one-shot chacha(): every configuration x 3 keys x every length x 32 variants (+ optional spellings) */
	for (r = 0; r < 3; r ++) for (kl = 0; kl < 2; kl ++) for (c = 0; c < 7; c ++) for (nn = 0; nn < 4; nn ++)
	for (k = 0; k < (vh_thorough ? 3 : 1); k ++) {
		cfg = mkcfg(r, kl, vh_thorough ? k : (r + c + nn) % 3, c, nn);
		for (sp = 0; sp < 2; sp ++) {
			if (sp && !spell_changes(&cfg, NONCES[nn], 8))
				continue;
			for (len = 0; len <= LMAX; len ++) for (v = 0; v < 32; v ++) {
				if (!vh_thorough && !(len <= 2 || (len % 64) <= 1 || (len % 64) >= 62 || (len % 64) == 31)
				    && (v % 8) != (int)(len % 8))
					continue; /* quick: all lengths, but the full 32 variants only around block edges */
				if (!vh_begin("chacha"))
					continue;
				oneshot("chacha", 0, &cfg, NULL, len, v, sp);
			}
		}
	}

	/* 4. xchacha(): iv = (first half from a 3-alphabet) || (second half = nonce alphabet) */
	{
		static const uint8_t IVH[3][16] = {
			{ 0 },
			{ 0x00, 0x01, 0x02, 0x03, 0x04, 0x05, 0x06, 0x07, 0x08, 0x09, 0x0a, 0x0b, 0x0c, 0x0d, 0x0e, 0x0f },
			{ 0xff, 0xff, 0xff, 0xff, 0xff, 0xff, 0xff, 0xff, 0x80, 0, 0, 0, 0, 0, 0, 0x01 }
		};
		static const int xv[4] = { 0, 8 + 1, 16 + 0, 24 + 5 };	/* aligned, unaligned, NULL src, in place@5 */
		uint8_t iv24[24];
		int ih;
		for (r = 0; r < 3; r ++) for (kl = 0; kl < 2; kl ++) for (c = 0; c < 7; c ++) for (ih = 0; ih < 3; ih ++) for (nn = 0; nn < 4; nn ++)
		for (k = 0; k < (vh_thorough ? 2 : 1); k ++) {
			cfg = mkcfg(r, kl, vh_thorough ? k * 2 : (r + c + ih) % 3, c, nn);
			memcpy(iv24, IVH[ih], 16);
			memcpy(iv24 + 16, NONCES[nn], 8);
			for (sp = 0; sp < 2; sp ++) {
				if (sp && !spell_changes(&cfg, iv24, 24))
					continue;
				for (len = 0; len <= LMAX; len ++) {
					if (!vh_thorough && !(len <= 2 || (len % 64) <= 1 || (len % 64) >= 63 || (len % 16) == 7))
						continue;
					for (v = 0; v < 4; v ++) {
						if (!vh_begin("xchacha"))
							continue;
						oneshot("xchacha", 1, &cfg, iv24, len, xv[v], sp);
					}
				}
			}
		}
	}

	/* 5. hchacha(): rounds x key size x key x 3^4 word patterns of the 16-byte iv x dst alignment */
	{
		static const uint8_t W[3][4] = { { 0, 0, 0, 0 }, { 0xff, 0xff, 0xff, 0xff }, { 0x01, 0x02, 0x03, 0x84 } };
		uint8_t iv16[16];
		int p, t;
		for (r = 0; r < 3; r ++) for (kl = 0; kl < 2; kl ++) for (k = 0; k < 3; k ++) for (p = 0; p < 81; p ++) {
			for (i = 0, t = p; i < 4; i ++, t /= 3)
				memcpy(iv16 + 4 * i, W[t % 3], 4);
			for (a = 0; a < 8; a ++) for (sp = 0; sp < 2; sp ++) {
				if (sp && !(1 == kl || 0 == p))
					continue;
				if (!vh_begin("hchacha"))
					continue;
				hchacha_case(ROUNDS[r], KEYLEN[kl], k, iv16, a, sp);
			}
		}
	}

	return (vh_finish());
}
