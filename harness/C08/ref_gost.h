/* GOST 28147-89 reference (C08 oracle), written from RFC 5830 / GOST R 34.12-2015 (Magma).
 *
 * rg_f    : the non-linear step: eight 4-bit substitutions + rotate left by 11.
 * rg_*_le : RFC 5830 form.  N1 = LE32(block[0..4)), N2 = LE32(block[4..8)), key words
 *           X0..X7 = LE32 of the key; 32 rounds (N1,N2) <- (N2 ^ f(N1+X), N1), the last one
 *           without the swap; encryption order X0..X7 x3 then X7..X0, decryption X0..X7
 *           then X7..X0 x3; MAC = first 16 encryption rounds (all with swap) of state^block.
 * rg_*_be : GOST R 34.12-2015 form, written separately from the text of the standard:
 *           a1 = BE32(block[0..4)), a0 = BE32(block[4..8)), K1..K8 = BE32 of the key,
 *           G[k](a1,a0) = (a0, g[k](a0) ^ a1), last round G*[k] = (g[k](a0) ^ a1) || a0.
 *
 * The S-box *layout* (row i substitutes nibble i, row 0 = least significant nibble) is the
 * layout of the header's tables; the S-box VALUES are data read from the header.  Neither is
 * checked by anything here except through the published vectors (A.2 of GOST R 34.12-2015,
 * Crypto++/BouncyCastle/TC26 vectors carried in the header).
 */
#ifndef C08_REF_GOST_H
#define C08_REF_GOST_H
#include <stdint.h>
#include <stddef.h>

static uint32_t
rg_f(const uint8_t *sbox, uint32_t x) {
	uint32_t r = 0;
	int i;
	for (i = 0; i < 8; i ++)
		r |= (uint32_t)(sbox[16 * i + ((x >> (4 * i)) & 15)] & 15) << (4 * i);
	return ((r << 11) | (r >> 21));
}

static uint32_t
rg_le32(const uint8_t *p) {
	return ((uint32_t)p[0] | ((uint32_t)p[1] << 8) | ((uint32_t)p[2] << 16) | ((uint32_t)p[3] << 24));
}
static uint32_t
rg_be32(const uint8_t *p) {
	return ((uint32_t)p[3] | ((uint32_t)p[2] << 8) | ((uint32_t)p[1] << 16) | ((uint32_t)p[0] << 24));
}
static void
rg_st_le32(uint8_t *p, uint32_t v) {
	p[0] = (uint8_t)v; p[1] = (uint8_t)(v >> 8); p[2] = (uint8_t)(v >> 16); p[3] = (uint8_t)(v >> 24);
}
static void
rg_st_be32(uint8_t *p, uint32_t v) {
	p[3] = (uint8_t)v; p[2] = (uint8_t)(v >> 8); p[1] = (uint8_t)(v >> 16); p[0] = (uint8_t)(v >> 24);
}

/* Index of the key word used in round r (0..31). */
static int
rg_kidx(int r, int decrypt) {
	if (decrypt)
		return ((r < 8) ? r : (7 - (r % 8)));
	return ((r < 24) ? (r % 8) : (7 - (r % 8)));
}

/* ---- RFC 5830 (little-endian) form */
static void
rg_crypt_le(const uint8_t *sbox, const uint8_t *key, const uint8_t *in, uint8_t *out, int decrypt) {
	uint32_t X[8], n1 = rg_le32(in), n2 = rg_le32(in + 4), t;
	int r;
	for (r = 0; r < 8; r ++)
		X[r] = rg_le32(key + 4 * r);
	for (r = 0; r < 32; r ++) {
		t = n2 ^ rg_f(sbox, n1 + X[rg_kidx(r, decrypt)]);
		if (r < 31) {
			n2 = n1;
			n1 = t;
		} else {
			n2 = t;
		}
	}
	rg_st_le32(out, n1);
	rg_st_le32(out + 4, n2);
}
/* MAC state update over `blocks` blocks; state s[2] = (N1, N2), zero initially. */
static void
rg_mac_le(const uint8_t *sbox, const uint8_t *key, const uint8_t *in, size_t blocks, uint32_t *s) {
	uint32_t X[8], t;
	size_t b;
	int r;
	for (r = 0; r < 8; r ++)
		X[r] = rg_le32(key + 4 * r);
	for (b = 0; b < blocks; b ++, in += 8) {
		s[0] ^= rg_le32(in);
		s[1] ^= rg_le32(in + 4);
		for (r = 0; r < 16; r ++) {
			t = s[1] ^ rg_f(sbox, s[0] + X[r % 8]);
			s[1] = s[0];
			s[0] = t;
		}
	}
}

/* ---- GOST R 34.12-2015 (big-endian, "Magma") form */
static void
rg_crypt_be(const uint8_t *sbox, const uint8_t *key, const uint8_t *in, uint8_t *out, int decrypt) {
	uint32_t K[8], a1 = rg_be32(in), a0 = rg_be32(in + 4), g;
	int r;
	for (r = 0; r < 8; r ++)
		K[r] = rg_be32(key + 4 * r);
	for (r = 0; r < 31; r ++) { /* G[k] */
		g = rg_f(sbox, a0 + K[rg_kidx(r, decrypt)]) ^ a1;
		a1 = a0;
		a0 = g;
	}
	a1 = rg_f(sbox, a0 + K[rg_kidx(31, decrypt)]) ^ a1; /* G*[k] */
	rg_st_be32(out, a1);
	rg_st_be32(out + 4, a0);
}
/* state s[2] = (a1, a0) */
static void
rg_mac_be(const uint8_t *sbox, const uint8_t *key, const uint8_t *in, size_t blocks, uint32_t *s) {
	uint32_t K[8], g;
	size_t b;
	int r;
	for (r = 0; r < 8; r ++)
		K[r] = rg_be32(key + 4 * r);
	for (b = 0; b < blocks; b ++, in += 8) {
		s[0] ^= rg_be32(in);
		s[1] ^= rg_be32(in + 4);
		for (r = 0; r < 16; r ++) {
			g = rg_f(sbox, s[1] + K[r % 8]) ^ s[0];
			s[0] = s[1];
			s[1] = g;
		}
	}
}
#endif
