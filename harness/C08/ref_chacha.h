/* Textbook ChaCha / HChaCha / XChaCha reference (C08 oracle).
 *
 * Written from the ChaCha paper (Bernstein 2008) and RFC 7539 section 2.1-2.3:
 * quarter round, column rounds then diagonal rounds, constants taken from the
 * ASCII strings, feed-forward addition, little-endian serialisation.
 * Layout of the 16-word state as liblcb documents it (original djb layout):
 *   words 0-3 constants, 4-11 key, 12-13 64-bit block counter (low word first),
 *   14-15 64-bit nonce.
 * HChaCha = the rounds without the feed-forward, output words 0-3 and 12-15.
 * XChaCha(key, ctr, iv24) = ChaCha(HChaCha(key, iv24[0..16)), ctr, iv24[16..24)).
 *
 * Shares no code, macro or constant with include/crypto/cipher/chacha.h; works on
 * plain local arrays of uint32_t, byte access only through shifts (no casts).
 * It is validated at check time against `openssl enc -chacha20` and against every
 * vector of the header's own table before its verdicts are used.
 */
#ifndef C08_REF_CHACHA_H
#define C08_REF_CHACHA_H
#include <stdint.h>
#include <stddef.h>
#include <string.h>

static uint32_t
rc_ld32(const uint8_t *p) {
	return ((uint32_t)p[0] | ((uint32_t)p[1] << 8) | ((uint32_t)p[2] << 16) | ((uint32_t)p[3] << 24));
}
static void
rc_st32(uint8_t *p, uint32_t v) {
	p[0] = (uint8_t)v; p[1] = (uint8_t)(v >> 8); p[2] = (uint8_t)(v >> 16); p[3] = (uint8_t)(v >> 24);
}
static uint32_t
rc_rol(uint32_t v, unsigned n) {
	return ((v << n) | (v >> (32u - n)));
}
static void
rc_qr(uint32_t *s, int a, int b, int c, int d) {
	s[a] += s[b]; s[d] ^= s[a]; s[d] = rc_rol(s[d], 16);
	s[c] += s[d]; s[b] ^= s[c]; s[b] = rc_rol(s[b], 12);
	s[a] += s[b]; s[d] ^= s[a]; s[d] = rc_rol(s[d], 8);
	s[c] += s[d]; s[b] ^= s[c]; s[b] = rc_rol(s[b], 7);
}
/* `rounds` rounds = rounds/2 (column round, diagonal round) pairs, in place. */
static void
rc_rounds(uint32_t *s, unsigned rounds) {
	unsigned r;
	for (r = 0; r < rounds; r += 2) {
		rc_qr(s, 0, 4, 8, 12); rc_qr(s, 1, 5, 9, 13); rc_qr(s, 2, 6, 10, 14); rc_qr(s, 3, 7, 11, 15);
		rc_qr(s, 0, 5, 10, 15); rc_qr(s, 1, 6, 11, 12); rc_qr(s, 2, 7, 8, 13); rc_qr(s, 3, 4, 9, 14);
	}
}
/* keylen: 16 or 32 bytes.  c16: 16 bytes that go into words 12..15. */
static void
rc_setup(uint32_t *s, const uint8_t *key, size_t keylen, const uint8_t *c16) {
	const char *cst = (32 == keylen) ? "expand 32-byte k" : "expand 16-byte k";
	int i;
	for (i = 0; i < 4; i ++)
		s[i] = rc_ld32((const uint8_t *)cst + 4 * i);
	for (i = 0; i < 4; i ++)
		s[4 + i] = rc_ld32(key + 4 * i);
	for (i = 0; i < 4; i ++) /* a 128-bit key is used twice */
		s[8 + i] = rc_ld32(key + ((32 == keylen) ? 16 : 0) + 4 * i);
	for (i = 0; i < 4; i ++)
		s[12 + i] = rc_ld32(c16 + 4 * i);
}
/* One 64-byte key-stream block for block counter `ctr` (64 bit) and 8-byte nonce. */
static void
rc_block(uint8_t *out, const uint8_t *key, size_t keylen, unsigned rounds, uint64_t ctr, const uint8_t *nonce) {
	uint32_t in[16], w[16];
	uint8_t c16[16];
	int i;
	for (i = 0; i < 8; i ++)
		c16[i] = (uint8_t)(ctr >> (8 * i));
	memcpy(c16 + 8, nonce, 8);
	rc_setup(in, key, keylen, c16);
	memcpy(w, in, sizeof(w));
	rc_rounds(w, rounds);
	for (i = 0; i < 16; i ++)
		rc_st32(out + 4 * i, w[i] + in[i]);
}
/* Key stream bytes [0, len) starting with block counter ctr0 (counter is 64 bit, wraps mod 2^64). */
static void
rc_stream(uint8_t *out, size_t len, const uint8_t *key, size_t keylen, unsigned rounds, uint64_t ctr0, const uint8_t *nonce) {
	uint8_t blk[64];
	size_t off, n;
	for (off = 0; off < len; off += 64, ctr0 ++) {
		rc_block(blk, key, keylen, rounds, ctr0, nonce);
		n = (len - off < 64) ? (len - off) : 64;
		memcpy(out + off, blk, n);
	}
}
static void
rc_hchacha(uint8_t *out32, const uint8_t *key, size_t keylen, const uint8_t *iv16, unsigned rounds) {
	uint32_t w[16];
	int i;
	rc_setup(w, key, keylen, iv16);
	rc_rounds(w, rounds);
	for (i = 0; i < 4; i ++) {
		rc_st32(out32 + 4 * i, w[i]);
		rc_st32(out32 + 16 + 4 * i, w[12 + i]);
	}
}
static void
rc_xstream(uint8_t *out, size_t len, const uint8_t *key, size_t keylen, unsigned rounds, uint64_t ctr0, const uint8_t *iv24) {
	uint8_t sub[32];
	rc_hchacha(sub, key, keylen, iv24, rounds);
	rc_stream(out, len, sub, 32, rounds, ctr0, iv24 + 16);
}
#endif
