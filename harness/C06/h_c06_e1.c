/* C06, schedule dimension: registrations driven from OUTSIDE the owning thread while its loop runs.
 * E1 (engines/sched) explores the interleavings of the outside caller with the real tpt_loop. */
#include <fcntl.h>
#include <unistd.h>
#include "tp/tp_common.h"

static int pfd[2];
static tp_udata_t ud;
static int fired, drain_in_cb;
static int fired_tid = -1;

static void
ev_cb(tp_event_p ev, tp_udata_p u) {
	char c;
	fired ++;
	fired_tid = sc_self();
	tpc_add(E_EVENT, (int)tpt_get_num(u->tpt), (long)ev->event, (long)ev->flags, (long)fired);
	if (drain_in_cb) {
		ssize_t r = read(pfd[0], &c, 1);
		(void)r;
	}
}

static void
expect(int want, const char *when) {
	sc_wait_quiescent();
	if (fired != want)
		sc_fail((fired < want) ? "event-lost" : "event-fired-extra", "%s: callback ran %d time(s) in total, the registration promises %d", when, fired, want);
	if (fired > 0 && fired_tid != tpc_tid_of[0])
		sc_fail("wrong-thread", "%s: callback ran on scheduler thread T%d, the owning pool thread is T%d", when, fired_tid, tpc_tid_of[0]);
}

static void
outside_scenario(int mode) {
	tpt_p t0;
	uint16_t fl = (0 == mode) ? TP_F_DISPATCH : (1 == mode) ? TP_F_ONESHOT : 0;
	int rc;

	tpc_up(1, 0);
	t0 = tp_thread_get(tpc_tp, 0);
	if (0 != pipe2(pfd, O_NONBLOCK))
		sc_fail("harness", "pipe2");
	memset(&ud, 0, sizeof(ud));
	ud.cb_func = ev_cb;
	ud.ident = (uintptr_t)pfd[0];
	drain_in_cb = (2 == mode);
	fired = 0;
	if (1 != write(pfd[1], "a", 1)) sc_fail("harness", "write");
	rc = tpt_ev_add_args2(t0, TP_EV_READ, fl, &ud);
	if (0 != rc) sc_fail("add-refused", "rc=%d", rc);
	expect(1, "after add (condition holds)");
	switch (mode) {
	case 0: /* dispatch: one callback per enable while the condition holds */
		rc = tpt_ev_enable_args1(1, TP_EV_READ, &ud);
		if (0 != rc) sc_fail("enable-refused", "rc=%d", rc);
		expect(2, "after re-enable from outside");
		rc = tpt_ev_enable_args(1, TP_EV_READ, TP_F_DISPATCH, 0, 0, &ud);
		if (0 != rc) sc_fail("enable-refused", "rc=%d", rc);
		expect(3, "after second re-enable from outside");
		rc = tpt_ev_enable_args1(0, TP_EV_READ, &ud);
		if (0 != rc) sc_fail("disable-refused", "rc=%d", rc);
		sc_wait_quiescent();
		if (1 != write(pfd[1], "b", 1)) sc_fail("harness", "write");
		expect(3, "disabled from outside and quiescent, more data arrived");
		rc = tpt_ev_del_args1(TP_EV_READ, &ud);
		if (0 != rc) sc_fail("del-refused", "rc=%d", rc);
		expect(3, "after delete");
		break;
	case 1: /* one-shot: at most once, then gone */
		if (1 != write(pfd[1], "b", 1)) sc_fail("harness", "write");
		expect(1, "one-shot, more data arrived");
		break;
	case 2: /* persistent, callback consumes the byte: one callback per byte */
		if (1 != write(pfd[1], "b", 1)) sc_fail("harness", "write");
		expect(2, "second byte");
		rc = tpt_ev_enable_args1(0, TP_EV_READ, &ud);
		if (0 != rc) sc_fail("disable-refused", "rc=%d", rc);
		sc_wait_quiescent();
		if (1 != write(pfd[1], "c", 1)) sc_fail("harness", "write");
		expect(2, "disabled from outside, third byte arrived");
		rc = tpt_ev_enable_args1(1, TP_EV_READ, &ud);
		if (0 != rc) sc_fail("enable-refused", "rc=%d", rc);
		expect(3, "re-enabled from outside with data pending");
		break;
	}
}

/* one user data record is registered on pool thread 0, its registration ends (one-shot fired / deleted), and it is registered again on pool thread 1: "an event registered on a pool thread invokes its callback on that
 * thread" - the thread of the LAST registration */
static void
expect_on(int want, int thr, const char *when) {
	sc_wait_quiescent();
	if (fired != want)
		sc_fail((fired < want) ? "event-lost" : "event-fired-extra", "%s: callback ran %d time(s) in total, the registration promises %d", when, fired, want);
	if (fired > 0 && fired_tid != tpc_tid_of[thr])
		sc_fail("wrong-thread", "%s: callback ran on scheduler thread T%d, the event was registered on pool thread %d = T%d", when, fired_tid, thr, tpc_tid_of[thr]);
}

static void
rebind_scenario(int mode) {
	tpt_p t0, t1;
	int rc;

	tpc_up(2, 0);
	t0 = tp_thread_get(tpc_tp, 0);
	t1 = tp_thread_get(tpc_tp, 1);
	if (0 != pipe2(pfd, O_NONBLOCK))
		sc_fail("harness", "pipe2");
	memset(&ud, 0, sizeof(ud));
	ud.cb_func = ev_cb;
	drain_in_cb = 1;
	fired = 0;
	switch (mode) {
	case 0: /* one-shot read on thread 0 fires and is gone; dispatch read on thread 1 */
	case 1: /* persistent read on thread 0, deleted; then thread 1 */
		ud.ident = (uintptr_t)pfd[0];
		if (1 != write(pfd[1], "a", 1)) sc_fail("harness", "write");
		rc = tpt_ev_add_args2(t0, TP_EV_READ, (0 == mode) ? TP_F_ONESHOT : 0, &ud);
		if (0 != rc) sc_fail("add-refused", "rc=%d", rc);
		expect_on(1, 0, "after add on thread 0");
		if (1 == mode) {
			rc = tpt_ev_del_args1(TP_EV_READ, &ud);
			if (0 != rc) sc_fail("del-refused", "rc=%d", rc);
			sc_wait_quiescent();
		}
		if (1 != write(pfd[1], "b", 1)) sc_fail("harness", "write");
		rc = tpt_ev_add_args2(t1, TP_EV_READ, TP_F_DISPATCH, &ud);
		if (0 != rc) sc_fail("add-refused", "second add (thread 1) rc=%d", rc);
		expect_on(2, 1, "after the registration ended on thread 0 and the record was added on thread 1");
		break;
	}
}

const sc_scenario_t sc_scenarios[] = {
	{ "outside/dispatch", outside_scenario, 0 },
	{ "outside/oneshot", outside_scenario, 1 },
	{ "outside/persistent-drain", outside_scenario, 2 },
	{ "rebind/oneshot-read", rebind_scenario, 0 },
	{ "rebind/deleted-read", rebind_scenario, 1 },
};
const int sc_nscenarios = 5;

int
main(int argc, char **argv) {
	return (sc_main(argc, argv));
}
