/* C06 - event and timer registrations fire exactly as their flags and units say.
 * Engine E2: the real tpt_loop runs on this thread (tp_thread_attach_first); the wrapped
 * epoll_wait is the environment: before every wait it plays the next event of the history
 * that is being enumerated.  The kernel's epoll/timerfd are the real ones. */
#define _GNU_SOURCE
#include <errno.h>
#include <fcntl.h>
#include <poll.h>
#include <signal.h>
#include <sys/epoll.h>
#include <netinet/in.h>
#include <arpa/inet.h>
#include <sys/socket.h>
#include <sys/timerfd.h>
#include <sys/wait.h>
#include <time.h>
#include <unistd.h>
#include "vh.h"
#include "threadpool/threadpool.h"
#include "threadpool/threadpool_msg_sys.h"

int	__real_epoll_wait(int, struct epoll_event *, int, int);
int	__real_epoll_ctl(int, int, int, struct epoll_event *);
int	__real_timerfd_create(int, int);
int	__real_timerfd_settime(int, int, const struct itimerspec *, struct itimerspec *);
void	__wrap_syslog(int p, const char *f, ...) { (void)p; (void)f; }
void	lcb_verif_point(const char *tag) { (void)tag; }	/* E2 is single-threaded: source hooks are no-ops */
void	__wrap_openlog(const char *a, int b, int c) { (void)a; (void)b; (void)c; }

/* ------------------------------------------------------------------ recorders */
static int rec_epoll_ctl_calls, rec_tfd_create_calls, rec_tfd_settime_calls;
static int rec_tfd_clock, rec_tfd_last = -1, rec_settime_flags, rec_settime_rc, rec_settime_errno;
static struct itimerspec rec_spec;

int
__wrap_epoll_ctl(int epfd, int op, int fd, struct epoll_event *ev) {
	rec_epoll_ctl_calls ++;
	return (__real_epoll_ctl(epfd, op, fd, ev));
}

int
__wrap_timerfd_create(int clk, int flags) {
	rec_tfd_create_calls ++;
	rec_tfd_clock = clk;
	rec_tfd_last = __real_timerfd_create(clk, flags);
	return (rec_tfd_last);
}

int
__wrap_timerfd_settime(int fd, int flags, const struct itimerspec *n, struct itimerspec *o) {
	rec_tfd_settime_calls ++;
	rec_settime_flags = flags;
	rec_spec = *n;
	rec_settime_rc = __real_timerfd_settime(fd, flags, n, o);
	rec_settime_errno = errno;
	return (rec_settime_rc);
}

/* ------------------------------------------------------------------ history machinery */
#define ID_A	0	/* pipe read end: READ */
#define ID_B	1	/* socketpair end: READ or WRITE */
#define ID_T	2	/* timer */
#define ID_P	3	/* child process (TP_EV_PROC); only the proc_history enumeration uses it */
#define NID	4

enum { S_ADD = 1, S_ENABLE1, S_ENABLEF, S_DISABLE, S_DEL, S_READY, S_DRAIN, S_PEERCLOSE, S_FIRE, S_SETACT, S_PEXIT, S_PEERSHUT, S_UDPERR };
enum { ACT_NONE = 0, ACT_DISABLE_SELF, ACT_DEL_SELF, ACT_ENABLE_OTHER, ACT_DRAIN_SELF, ACT_DEL_OTHERS, ACT_DISABLE_OTHERS, ACT_LAST = ACT_DISABLE_OTHERS };
static const char *stepname[] = { "?", "add", "enable1", "enableF", "disable", "del", "ready", "drain", "peerclose", "fire", "setact", "child-exits", "peer-half-close", "icmp-error-arrives" };
static const char *actname[] = { "none", "disable-self", "del-self", "enable-other", "drain-self", "del-others", "disable-others" };
static const char *idname[] = { "A(pipe)", "B(sock)", "T(timer)", "P(process)" };

typedef struct step_s { uint8_t op, id, a, b; } step_t;	/* add: a = event, b = flags; setact: a = action */
#define MAXSTEPS 10
static step_t hist[MAXSTEPS];
static int nsteps;

typedef struct reg_s {
	tp_udata_t ud;
	int	fd, peer;	/* fd registered; peer = other end (or -1 when closed) */
	/* model */
	int	m_reg, m_en, m_event, m_flags, m_ready, m_peer_closed, m_abst, m_err;
	int	act;
	int	cb_total, cb_window;
} reg_t;
static reg_t R[NID];
static tp_p tp;
static tpt_p t0;
static int cur_step, settle_left, shutdown_sent, in_iteration, iter_cb;
static int last_n = 1;	/* events returned by the last epoll_wait */
static int window_need[NID];	/* member of the fireable set during the whole current settle window */
static int grid_mode = 0;	/* timer/validation grids: callbacks are not checked */
static int hist_failed;
static uint32_t last_mask[NID];	/* what epoll reported for the registration in the batch the loop is working on */
static int udp_mode = 0;	/* error histories: slot B is a connected UDP socket with IP_RECVERR (a queued ICMP error keeps EPOLLERR up) */
static unsigned long udp_no_icmp = 0;
static pid_t child_pid = -1;
static int child_pipe = -1, child_alive = 0;
#define CHILD_EXIT_CODE 7

#define SETTLE_N (2 * NID + 3)

static void
hist_desc(char *b, size_t n) {
	int i; size_t o = 0;
	for (i = 0; i < nsteps && o + 40 < n; i ++) {
		if (S_ADD == hist[i].op)
			o += (size_t)snprintf(b + o, n - o, "%sadd(%s,ev%d,fl%d%s)", i ? " " : "", idname[hist[i].id], hist[i].a, hist[i].b & 0x7f, (hist[i].b & 0x80) ? ",abstime" : "");
		else if (S_SETACT == hist[i].op)
			o += (size_t)snprintf(b + o, n - o, "%ssetact(%s,%s)", i ? " " : "", idname[hist[i].id], actname[hist[i].a]);
		else
			o += (size_t)snprintf(b + o, n - o, "%s%s(%s)", i ? " " : "", stepname[hist[i].op], idname[hist[i].id]);
	}
}

static void
hfail(const char *clause, const char *fmt, ...) {
	char m[300]; va_list ap;
	va_start(ap, fmt); vsnprintf(m, sizeof(m), fmt, ap); va_end(ap);
	hist_failed = 1;
	vh_fail(clause, "at step %d: %s", cur_step, m);
}

static int
fireable(int id) {
	reg_t *r = &R[id];
	if (!r->m_reg || !r->m_en)
		return (0);
	if (TP_EV_WRITE == r->m_event)
		return (1);	/* a socket with an empty send queue is always writable; after peer close: HUP/ERR, also reported */
	return (r->m_ready || r->m_peer_closed || r->m_err);
}

static void do_drain(int id);

static void
user_cb(tp_event_p ev, tp_udata_p ud) {
	int id;
	reg_t *r;
	int other, rc;

	/* ud is the first member of reg_t */
	id = (int)(((char *)ud - (char *)&R[0]) / (long)sizeof(reg_t));
	r = &R[id];
	r->cb_total ++;
	r->cb_window ++;
	iter_cb ++;
	if (grid_mode)
		return;
	if (!r->m_reg)
		hfail("fired-while-not-registered", "%s fired but it is not registered (deleted, one-shot already fired, or never added)", idname[id]);
	else if (!r->m_en)
		hfail("fired-while-disabled", "%s fired but it is disabled (dispatch already fired or disable returned)", idname[id]);
	else if (!fireable(id))
		hfail("fired-without-condition", "%s fired but its condition does not hold", idname[id]);
	if (ev->event != (uint16_t)r->m_event)
		hfail("wrong-event-kind", "%s fired as event %d, registered as %d", idname[id], ev->event, r->m_event);
	if (ud->tpt != t0)
		hfail("wrong-thread", "%s callback carries another thread", idname[id]);
	if (TP_EV_READ == r->m_event || TP_EV_WRITE == r->m_event) {	/* "error conditions carry the corresponding flags" */
		int kerr = (0 != (last_mask[id] & EPOLLERR)), ferr = (0 != (ev->flags & TP_F_ERROR));
		if (kerr != ferr)
			hfail("error-flag", "%s: epoll reported events %#x for it, the callback got TP_F_ERROR=%d (fflags %u)", idname[id], last_mask[id], ferr, ev->fflags);
	}
	if (TP_EV_READ == r->m_event && r->m_reg) {
		int eof = (0 != (ev->flags & TP_F_EOF));
		if (eof != r->m_peer_closed)
			hfail("eof-flag", "%s: EOF flag %d but peer closed = %d", idname[id], eof, r->m_peer_closed);
	}
	if (TP_EV_TIMER == r->m_event)
		r->m_ready = 0;	/* expiry consumed */
	if (TP_EV_PROC == r->m_event) {
		if (TP_FF_P_EXIT != ev->fflags)
			hfail("proc-fflags", "process event carries fflags %#x, want TP_FF_P_EXIT", ev->fflags);
		if (!WIFEXITED((int)ev->data) || CHILD_EXIT_CODE != WEXITSTATUS((int)ev->data))
			hfail("proc-exit-status", "process event carries status %#llx, the child exited with code %d", (unsigned long long)ev->data, CHILD_EXIT_CODE);
		r->m_reg = 0;	/* a process exits once: the registration is gone whatever the flags */
		r->m_ready = 0;
	}
	/* what the library promised to do before calling us */
	if (0 != (r->m_flags & TP_F_ONESHOT))
		r->m_reg = 0;
	else if (0 != (r->m_flags & TP_F_DISPATCH))
		r->m_en = 0;
	window_need[id] = 0;
	/* callback-side action */
	switch (r->act) {
	case ACT_DISABLE_SELF:
		if (r->m_reg) {
			rc = tpt_ev_enable_args1(0, (uint16_t)r->m_event, &r->ud);
			if (0 == rc) r->m_en = 0;
		}
		break;
	case ACT_DEL_SELF:
		if (r->m_reg) {
			rc = tpt_ev_del_args1((uint16_t)r->m_event, &r->ud);
			if (0 == rc) r->m_reg = 0;
		}
		break;
	case ACT_ENABLE_OTHER:
		other = (id + 1) % 3;	/* among A, B, T */
		if (ID_P == id) break;
		if (R[other].m_reg) {
			rc = tpt_ev_enable_args1(1, (uint16_t)R[other].m_event, &R[other].ud);
			if (0 == rc) {
				R[other].m_en = 1;
				window_need[other] = 0;
				if (ID_T == other)
					R[other].m_ready = 0; /* timerfd_settime re-arms: a pending expiry is discarded */
			}
		}
		break;
	case ACT_DRAIN_SELF:
		do_drain(id);
		break;
	case ACT_DEL_OTHERS:	/* every other registration of this thread, ready or not: after the call returned (here, on
				 * the owning thread) none of them may fire, also not from events the loop fetched earlier */
	case ACT_DISABLE_OTHERS:
		if (ID_P == id) break;
		for (other = 0; other < 3; other ++) {
			if (other == id || !R[other].m_reg) continue;
			if (ACT_DEL_OTHERS == r->act) {
				rc = tpt_ev_del_args1((uint16_t)R[other].m_event, &R[other].ud);
				if (0 == rc) R[other].m_reg = 0;
			} else {
				rc = tpt_ev_enable_args1(0, (uint16_t)R[other].m_event, &R[other].ud);
				if (0 == rc) { R[other].m_en = 0; if (ID_T == other) R[other].m_ready = 0; }
			}
			window_need[other] = 0;
		}
		break;
	}
}

static void
do_drain(int id) {
	char buf[64];
	reg_t *r = &R[id];
	if (ID_T == id || r->fd < 0)
		return;
	while (0 < read(r->fd, buf, sizeof(buf)))
		;
	r->m_ready = 0;
}

/* "programs exactly the equivalent interval ... (relative or absolute, one-shot or periodic)": what the library handed to
 * timerfd_settime() for the arguments of THIS call: 3600 s relative (repeating iff neither ONESHOT nor DISPATCH), or the
 * absolute second abs_val - which only means that point in time on a CLOCK_REALTIME timer with TFD_TIMER_ABSTIME */
static uint64_t abs_val;
static void
check_timer_program(int flags, int abst, const char *what) {
	long want_iv = (0 != (flags & (TP_F_ONESHOT | TP_F_DISPATCH))) ? 0 : 3600;
	long want_v = abst ? (long)abs_val : 3600;
	if (want_v != rec_spec.it_value.tv_sec || 0 != rec_spec.it_value.tv_nsec)
		hfail("timer-value", "%s of a %s timer programmed it_value = %ld s %ld ns", what, abst ? "absolute" : "3600 s", (long)rec_spec.it_value.tv_sec, (long)rec_spec.it_value.tv_nsec);
	else if (!abst && (want_iv != rec_spec.it_interval.tv_sec || 0 != rec_spec.it_interval.tv_nsec))
		hfail("timer-interval", "%s with flags %#x programmed it_interval = %ld s, want %ld s", what, flags, (long)rec_spec.it_interval.tv_sec, want_iv);
	else if ((0 != (rec_settime_flags & TFD_TIMER_ABSTIME)) != abst)
		hfail("timer-abstime-flag", "%s of %s timer: timerfd_settime got TFD_TIMER_ABSTIME=%d", what, abst ? "an absolute" : "a relative", 0 != (rec_settime_flags & TFD_TIMER_ABSTIME));
	else if (abst && CLOCK_REALTIME != rec_tfd_clock)
		hfail("timer-clock", "%s of an absolute timer (wall-clock second %ld) programmed a timerfd that runs on clock %d, not CLOCK_REALTIME", what, want_v, rec_tfd_clock);
}

static void
apply_step(const step_t *s) {
	reg_t *r = &R[s->id];
	int rc, i;
	struct itimerspec its;
	struct pollfd pfd;

	switch (s->op) {
	case S_ADD:
		if (ID_P == s->id && child_pid > 0) {
			/* the record already tracks its process: a second add is refused (EEXIST) or, were it accepted, replaces the
			 * flags; a refused call leaves the registration as it was - the exit must still be reported */
			rc = tpt_ev_add_args(t0, TP_EV_PROC, s->b, 0, 0, &r->ud);
			if (0 == rc) { r->m_reg = 1; r->m_en = 1; r->m_event = TP_EV_PROC; r->m_flags = s->b; r->m_ready = !child_alive; }
			break;
		}
		if (ID_P == s->id) {
			int pp[2];
			if (child_alive || 0 != pipe(pp)) break;
			child_pid = fork();
			if (0 == child_pid) { /* child: wait until the harness closes the pipe, then exit */
				char c;
				close(pp[1]);
				while (0 < read(pp[0], &c, 1)) ;
				_exit(CHILD_EXIT_CODE);
			}
			close(pp[0]);
			child_pipe = pp[1];
			child_alive = 1;
			r->ud.ident = (uintptr_t)child_pid;
			rc = tpt_ev_add_args(t0, TP_EV_PROC, s->b, 0, 0, &r->ud);
			if (0 != rc) { hfail("add-refused", "well-formed process registration refused rc=%d", rc); break; }
			r->m_reg = 1; r->m_en = 1; r->m_event = TP_EV_PROC; r->m_flags = s->b; r->m_ready = 0;
			break;
		}
		if (ID_T == s->id)
			rc = tpt_ev_add_args(t0, TP_EV_TIMER, (uint16_t)(s->b & 0x7f), TP_FF_T_SEC | ((s->b & 0x80) ? TP_FF_T_ABSTIME : 0), (s->b & 0x80) ? abs_val : 3600, &r->ud);
		else
			rc = tpt_ev_add_args2(t0, s->a, s->b, &r->ud);
		if (0 != rc) {
			hfail("add-refused", "well-formed registration refused rc=%d", rc);
			break;
		}
		r->m_reg = 1; r->m_en = 1; r->m_event = s->a; r->m_flags = s->b & 0x7f; r->m_abst = (0 != (s->b & 0x80));
		if (ID_T == s->id) { r->m_ready = 0; check_timer_program(r->m_flags, r->m_abst, "add"); }
		break;
	case S_ENABLE1:
	case S_ENABLEF:
		if (!r->m_reg)
			break;	/* one-shot already consumed / deleted in a callback: enabling what does not exist is outside the property */
		if (S_ENABLE1 == s->op)
			rc = tpt_ev_enable_args1(1, (uint16_t)r->m_event, &r->ud);
		else
			rc = tpt_ev_enable_args(1, (uint16_t)r->m_event, (uint16_t)r->m_flags,
			    (ID_T == s->id) ? (TP_FF_T_SEC | (r->m_abst ? TP_FF_T_ABSTIME : 0)) : 0, (ID_T == s->id) ? (r->m_abst ? abs_val : 3600) : 0, &r->ud);
		if (0 != rc)
			hfail("enable-refused", "enable of a registered event refused rc=%d", rc);
		else {
			r->m_en = 1;
			if (ID_T == s->id) {
				r->m_ready = 0; /* re-armed */
				if (S_ENABLEF == s->op) check_timer_program(r->m_flags, r->m_abst, "enable (with arguments)");
			}
		}
		break;
	case S_DISABLE:
		if (!r->m_reg)
			break;
		rc = tpt_ev_enable_args1(0, (uint16_t)r->m_event, &r->ud);
		if (0 != rc)
			hfail("disable-refused", "disable of a registered event refused rc=%d", rc);
		else if (ID_P == s->id) {
			r->m_en = 0; /* (the library closes the pidfd; enabling opens a new one) */
		} else {
			r->m_en = 0;
			if (ID_T == s->id) r->m_ready = 0; /* disarmed */
		}
		break;
	case S_DEL:
		if (!r->m_reg)
			break;
		rc = tpt_ev_del_args1((uint16_t)r->m_event, &r->ud);
		if (0 != rc)
			hfail("del-refused", "delete of a registered event refused rc=%d", rc);
		r->m_reg = 0;
		break;
	case S_READY:
		if (r->peer >= 0 && 1 == write(r->peer, "x", 1))
			r->m_ready = 1;
		break;
	case S_DRAIN:
		do_drain(s->id);
		break;
	case S_PEERCLOSE:
		if (r->peer >= 0) {
			close(r->peer);
			r->peer = -1;
			r->m_peer_closed = 1;
		}
		break;
	case S_PEERSHUT: /* the peer finished sending: shutdown(SHUT_WR) / TCP FIN; it can still receive */
		if (r->peer >= 0 && !r->m_peer_closed && 0 == shutdown(r->peer, SHUT_WR))
			r->m_peer_closed = 1;
		break;
	case S_FIRE: /* the armed timer expires now */
		if (!(r->m_reg && r->m_en) || rec_tfd_last < 0)
			break;
		memset(&its, 0, sizeof(its));
		its.it_value.tv_nsec = 1;
		__real_timerfd_settime(rec_tfd_last, 0, &its, NULL);
		pfd.fd = rec_tfd_last; pfd.events = POLLIN;
		for (i = 0; i < 1000 && 1 != poll(&pfd, 1, 10); i ++)
			;
		r->m_ready = 1;
		break;
	case S_SETACT:
		r->act = s->a;
		break;
	case S_UDPERR: /* a datagram to a port nobody listens on: the ICMP answer is queued on the socket (IP_RECVERR) */
		if (!udp_mode || r->fd < 0)
			break;
		(void)!send(r->fd, "x", 1, 0);
		pfd.fd = r->fd; pfd.events = 0; pfd.revents = 0;
		if (1 == poll(&pfd, 1, 1000) && 0 != (pfd.revents & POLLERR))
			r->m_err = 1;
		else
			udp_no_icmp ++;	/* the environment did not produce the error: nothing is expected, nothing is judged */
		break;
	case S_PEXIT: /* the child process exits now */
		if (child_alive) {
			siginfo_t si;
			close(child_pipe); child_pipe = -1;
			memset(&si, 0, sizeof(si));
			waitid(P_PID, (id_t)child_pid, &si, WEXITED | WNOWAIT);	/* wait for the exit, do not reap: the library does */
			child_alive = 0;
			if (r->m_reg) r->m_ready = 1;
		}
		break;
	}
}

static void
end_window(void) {
	int id;
	for (id = 0; id < NID; id ++) {
		if (window_need[id] && fireable(id) && !hist_failed)
			hfail("event-lost", "%s stayed registered, enabled and ready for %d loop iterations but never fired", idname[id], SETTLE_N);
		window_need[id] = 0;
	}
}

static void
begin_window(void) {
	int id;
	settle_left = SETTLE_N;
	for (id = 0; id < NID; id ++) {
		window_need[id] = fireable(id);
		R[id].cb_window = 0;
	}
}

static void
note_masks(const struct epoll_event *ev, int n) {
	int i, id;
	for (i = 0; i < n; i ++) for (id = 0; id < NID; id ++)
		if (ev[i].data.ptr == (void *)&R[id].ud) last_mask[id] = ev[i].events;
}

int
__wrap_epoll_wait(int epfd, struct epoll_event *ev, int maxev, int timeout) {
	int n;

	if (timeout >= 0 || NULL == tp || grid_mode)
		return (__real_epoll_wait(epfd, ev, maxev, timeout));
	if (in_iteration) {
		in_iteration = 0;
		if (iter_cb > last_n)
			hfail("two-callbacks-one-iteration", "%d callbacks for %d event(s) fetched", iter_cb, last_n);
	}
	for (;;) {
		if (settle_left > 0) {
			n = __real_epoll_wait(epfd, ev, maxev, 0);	/* as many as the loop asks for: a loop that fetches batches gets batches */
			note_masks(ev, n);
			if (n > 0) {
				settle_left = (settle_left > n) ? settle_left - n : 0;
				in_iteration = 1;
				iter_cb = 0; last_n = n;
				if (0 == settle_left)
					end_window();
				return (n);
			}
			/* quiet: nothing is ready although something should be? */
			settle_left = 0;
			end_window();
		}
		if (shutdown_sent) {
			/* the shutdown message is in the queue: the loop must get it */
			n = __real_epoll_wait(epfd, ev, maxev, 1000);
			note_masks(ev, n);
			if (n > 0) { in_iteration = 1; iter_cb = 0; last_n = n; return (n); }
			hfail("harness", "shutdown message never became ready");
			return (n);
		}
		if (cur_step >= nsteps) {
			tp_shutdown(tp);
			shutdown_sent = 1;
			continue;
		}
		apply_step(&hist[cur_step]);
		cur_step ++;
		begin_window();
	}
}

/* a UDP socket connected to a loop-back port nobody is bound to (9, "discard": below the ephemeral range, so no other
 * process of the run can take it), with IP_RECVERR: the ICMP port-unreachable answer is queued and EPOLLERR stays up */
static int
udp_dead_socket(void) {
	struct sockaddr_in a; int u, one = 1;
	u = socket(AF_INET, SOCK_DGRAM | SOCK_NONBLOCK, 0);
	if (u < 0) return (-1);
	setsockopt(u, IPPROTO_IP, IP_RECVERR, &one, sizeof(one));
	memset(&a, 0, sizeof(a)); a.sin_family = AF_INET; a.sin_port = htons(9); a.sin_addr.s_addr = htonl(INADDR_LOOPBACK);
	if (0 != connect(u, (struct sockaddr *)&a, sizeof(a))) { close(u); return (-1); }
	return (u);
}

static void
run_history(void) {
	tp_settings_t s;
	int p[2], sp[2], i, rc;

	hist_failed = 0;
	abs_val = (uint64_t)time(NULL) + 3600;
	memset(R, 0, sizeof(R));
	rec_tfd_last = -1;
	tp_settings_def(&s);
	s.flags = 0;
	s.threads_max = 1;
	tp = NULL;
	if (0 != tp_create(&s, &tp)) { vh_fail("harness", "tp_create"); return; }
	t0 = tp_thread_get(tp, 0);
	memset(last_mask, 0, sizeof(last_mask));
	if (0 != pipe2(p, O_NONBLOCK)) { vh_fail("harness", "fds"); return; }
	if (udp_mode) {
		sp[0] = udp_dead_socket(); sp[1] = -1;
		if (sp[0] < 0) { vh_fail("harness", "udp socket"); return; }
	} else if (0 != socketpair(AF_UNIX, SOCK_STREAM | SOCK_NONBLOCK, 0, sp)) { vh_fail("harness", "fds"); return; }
	R[ID_A].fd = p[0]; R[ID_A].peer = p[1]; R[ID_A].ud.ident = (uintptr_t)p[0];
	R[ID_B].fd = sp[0]; R[ID_B].peer = sp[1]; R[ID_B].ud.ident = (uintptr_t)sp[0];
	R[ID_T].fd = -1; R[ID_T].peer = -1; R[ID_T].ud.ident = 1;
	R[ID_P].fd = -1; R[ID_P].peer = -1; R[ID_P].ud.ident = 0;
	child_pid = -1; child_pipe = -1; child_alive = 0;
	for (i = 0; i < NID; i ++)
		R[i].ud.cb_func = user_cb;
	cur_step = 0; settle_left = 0; shutdown_sent = 0; in_iteration = 0;
	rc = tp_thread_attach_first(tp);
	if (0 != rc)
		vh_fail("harness", "attach_first rc=%d", rc);
	/* user-owned timer: remove before destroying, as an application would */
	if (NULL != R[ID_T].ud.tpt)	/* whatever the model thinks: a timerfd the library still holds is closed only by a delete */
		tpt_ev_del_args1(TP_EV_TIMER, &R[ID_T].ud);
	if (R[ID_P].m_reg)
		tpt_ev_del_args1(TP_EV_PROC, &R[ID_P].ud);
	if (child_pid > 0) {
		if (child_alive) { kill(child_pid, SIGKILL); if (child_pipe >= 0) close(child_pipe); }
		waitpid(child_pid, NULL, 0);	/* ECHILD when the library already reaped it */
		child_pid = -1; child_alive = 0; child_pipe = -1;
	}
	tp_destroy(tp);
	tp = NULL;
	for (i = 0; i < 2; i ++) {
		if (R[i].fd >= 0) close(R[i].fd);
		if (R[i].peer >= 0) close(R[i].peer);
	}
}

/* ------------------------------------------------------------------ enumeration of histories */
static int max_depth = 4;
/* abstract state used only to prune steps that cannot have an effect (never to judge anything) */
typedef struct abs_s { int reg[NID], ev[NID], closed[2]; } abs_t;

static void
enumerate(int depth, abs_t a) {
	int id, e, f, act, total;
	static const int flagset[3] = { 0, TP_F_ONESHOT, TP_F_DISPATCH };
	abs_t b;

	if (depth > 0) {
		nsteps = depth;
		if (vh_begin("history")) {
			vh_set_describer(hist_desc);
			run_history();
			total = R[0].cb_total + R[1].cb_total + R[2].cb_total + R[3].cb_total;
			if (total > 0 && !hist_failed)
				vh_nontrivial();
			vh_outcome(&total, sizeof(total));
		}
	}
	if (depth == max_depth)
		return;
#define PUSH(_op, _id, _a, _b) do { hist[depth].op = (_op); hist[depth].id = (uint8_t)(_id); hist[depth].a = (uint8_t)(_a); hist[depth].b = (uint8_t)(_b); } while (0)
	for (id = 0; id < 3; id ++) {
		/* add (also over an existing registration: re-add modifies it) */
		for (f = 0; f < 3; f ++) {
			for (e = 0; e < 2; e ++) {
				if (ID_A == id && TP_EV_READ != e) continue;
				if (ID_T == id && 0 != e) continue;
				if (ID_A == id && a.reg[id]) continue;	/* re-add explored on the socket slot and on the timer (other flag set = re-programmed) */
				if (id < 2 && a.closed[id] && 0) continue;
				b = a; b.reg[id] = 1; b.ev[id] = (ID_T == id) ? TP_EV_TIMER : e;
				PUSH(S_ADD, id, b.ev[id], flagset[f]);
				enumerate(depth + 1, b);
			}
		}
		if (a.reg[id]) {
			PUSH(S_ENABLE1, id, 0, 0); enumerate(depth + 1, a);
			PUSH(S_ENABLEF, id, 0, 0); enumerate(depth + 1, a);
			PUSH(S_DISABLE, id, 0, 0); enumerate(depth + 1, a);
			b = a; b.reg[id] = 0;
			PUSH(S_DEL, id, 0, 0); enumerate(depth + 1, b);
			for (act = 1; act <= ACT_LAST; act ++) {
				if (ID_T == id && ACT_DRAIN_SELF == act) continue;
				PUSH(S_SETACT, id, act, 0); enumerate(depth + 1, a);
			}
		}
		if (id < 2 && !a.closed[id]) {
			PUSH(S_READY, id, 0, 0); enumerate(depth + 1, a);
			if (a.reg[id]) { PUSH(S_DRAIN, id, 0, 0); enumerate(depth + 1, a); }
			b = a; b.closed[id] = 1;
			PUSH(S_PEERCLOSE, id, 0, 0); enumerate(depth + 1, b);
			if (ID_B == id) { PUSH(S_PEERSHUT, id, 0, 0); enumerate(depth + 1, b); }
		}
		if (ID_T == id && a.reg[id]) {
			PUSH(S_FIRE, id, 0, 0); enumerate(depth + 1, a);
		}
	}
}

/* ------------------------------------------------------------------ (b) timer unit conversion grid */
static void
dummy_cb(tp_event_p ev, tp_udata_p ud) { (void)ev; (void)ud; }

static void
timer_grid(void) {
	static const uint64_t datas[] = { 0, 1, 999, 1000, 1001, 999999, 1000000, 1000001, 999999999ull, 1000000000ull, 1000000001ull,
	    2147483648ull, 4294967295ull, 4294967296ull, 4294967297ull, (1ull << 40) + 123456789ull };
	static const uint64_t per[4] = { 1, 1000, 1000000, 1000000000ull };
	static const int flagset[3] = { 0, TP_F_ONESHOT, TP_F_DISPATCH };
	int unit, abst, f, rc;
	size_t d;
	tp_settings_t s;
	tp_udata_t ud;
	uint64_t sec, nsec;

	grid_mode = 1;
	tp_settings_def(&s); s.flags = 0; s.threads_max = 1;
	if (0 != tp_create(&s, &tp)) { grid_mode = 0; return; }
	t0 = tp_thread_get(tp, 0);
	for (unit = 0; unit < 4; unit ++) for (abst = 0; abst < 2; abst ++) for (f = 0; f < 3; f ++) for (d = 0; d < sizeof(datas) / sizeof(datas[0]); d ++) {
		if (!vh_begin("timer_units")) continue;
		vh_desc("unit=%s abstime=%d flags=%d data=%llu", tp_ff_time_units[unit], abst, flagset[f], (unsigned long long)datas[d]);
		memset(&ud, 0, sizeof(ud));
		ud.cb_func = dummy_cb; ud.ident = 7;
		rec_tfd_settime_calls = 0; rec_tfd_create_calls = 0;
		rc = tpt_ev_add_args(t0, TP_EV_TIMER, (uint16_t)flagset[f], (uint32_t)unit | (abst ? TP_FF_T_ABSTIME : 0), datas[d], &ud);
		sec = datas[d] / per[unit];
		nsec = (datas[d] % per[unit]) * (1000000000ull / per[unit]);
		if (0 != rc) {
			vh_fail("timer-refused", "a well-formed timer was refused rc=%d (settime calls %d, spec %lld.%09ld, errno %d)", rc,
			    rec_tfd_settime_calls, (long long)rec_spec.it_value.tv_sec, rec_spec.it_value.tv_nsec, rec_settime_errno);
		} else {
			if (1 != rec_tfd_settime_calls)
				vh_fail("timer-not-programmed", "timerfd_settime called %d times", rec_tfd_settime_calls);
			else {
				if ((uint64_t)rec_spec.it_value.tv_sec != sec || (uint64_t)rec_spec.it_value.tv_nsec != nsec)
					vh_fail("timer-value", "programmed %lld.%09ld, equivalent interval is %llu.%09llu", (long long)rec_spec.it_value.tv_sec,
					    rec_spec.it_value.tv_nsec, (unsigned long long)sec, (unsigned long long)nsec);
				if ((0 != (rec_settime_flags & TFD_TIMER_ABSTIME)) != abst)
					vh_fail("timer-abstime-flag", "TFD_TIMER_ABSTIME=%d requested abstime=%d", 0 != (rec_settime_flags & TFD_TIMER_ABSTIME), abst);
				if (!abst) { /* periodic unless one-shot/dispatch (an absolute periodic timer has no meaning: not checked) */
					if (0 == flagset[f]) {
						if ((uint64_t)rec_spec.it_interval.tv_sec != sec || (uint64_t)rec_spec.it_interval.tv_nsec != nsec)
							vh_fail("timer-interval", "periodic interval %lld.%09ld, want %llu.%09llu", (long long)rec_spec.it_interval.tv_sec,
							    rec_spec.it_interval.tv_nsec, (unsigned long long)sec, (unsigned long long)nsec);
					} else if (0 != rec_spec.it_interval.tv_sec || 0 != rec_spec.it_interval.tv_nsec)
						vh_fail("timer-interval", "one-time timer programmed with a repeat interval");
				}
				if (1 == rec_tfd_create_calls && rec_tfd_clock != (abst ? CLOCK_REALTIME : CLOCK_MONOTONIC))
					vh_fail("timer-clock", "clock %d for abstime=%d", rec_tfd_clock, abst);
				vh_nontrivial();
			}
			tpt_ev_del_args1(TP_EV_TIMER, &ud);
		}
	}
	tp_destroy(tp); tp = NULL;
	grid_mode = 0;
}

/* ------------------------------------------------------------------ (c) validation grid */
static void
validation_grid(void) {
	int event, fl, ff, variant, rc, malformed, p[2];
	uint16_t flags; uint32_t fflags;
	tp_settings_t s;
	tp_udata_t ud;
	static const uint32_t ffs[] = { 0, 1, 2, 3, 4, 5, 6, 7, 8, 15, 16, 0x80000000u };

	grid_mode = 1;
	tp_settings_def(&s); s.flags = 0; s.threads_max = 1;
	if (0 != tp_create(&s, &tp)) { grid_mode = 0; return; }
	t0 = tp_thread_get(tp, 0);
	if (0 != pipe2(p, O_NONBLOCK)) return;
	for (event = 0; event < 8; event ++) for (fl = 0; fl < 18; fl ++) for (ff = 0; ff < 12; ff ++) for (variant = 0; variant < 5; variant ++) {
		if (!vh_begin("registration_validation")) continue;
		flags = (fl < 16) ? (uint16_t)fl : (uint16_t)(1u << (8 + fl - 16));
		fflags = ffs[ff];
		vh_desc("event=%d flags=%#x fflags=%#x variant=%d", event, flags, fflags, variant);
		memset(&ud, 0, sizeof(ud));
		ud.cb_func = dummy_cb;
		ud.ident = (TP_EV_TIMER == event) ? 9 : (TP_EV_PROC == event) ? (uintptr_t)getpid() : (uintptr_t)p[0];
		malformed = 0;
		switch (variant) {
		case 1: ud.cb_func = NULL; malformed = 1; break;
		case 2: ud.ident = (uintptr_t)-1; malformed = 1; break;
		case 3: if (event <= TP_EV_WRITE) { ud.ident = (uintptr_t)getdtablesize() + 5; malformed = 1; } break;
		case 4: break; /* tpt NULL below */
		}
		if (event > TP_EV_LAST) malformed = 1;
		if ((TP_F_ONESHOT | TP_F_DISPATCH) == (flags & (TP_F_ONESHOT | TP_F_DISPATCH))) malformed = 1;
		if (0 != (flags & ~(uint16_t)0x000f)) malformed = 1; /* return-only / unknown flag bits (documented mask TP_F_S_MASK) */
		if (event <= TP_EV_WRITE && 0 != (fflags & ~TP_FF_RW_MASK)) malformed = 1;
		if (TP_EV_TIMER == event && 0 != (fflags & ~TP_FF_T_MASK)) malformed = 1;
		if (TP_EV_PROC == event && 0 != (fflags & ~TP_FF_P_MASK)) malformed = 1;
		if (4 == variant) malformed = 1;
		rec_epoll_ctl_calls = 0; rec_tfd_create_calls = 0;
		rc = tpt_ev_add_args((4 == variant) ? NULL : t0, (uint16_t)event, flags, fflags, 3600, &ud);
		if (malformed) {
			if (0 == rc)
				vh_fail("malformed-accepted", "malformed registration accepted");
			else if (0 != rec_epoll_ctl_calls || 0 != rec_tfd_create_calls)
				vh_fail("malformed-reached-kernel", "refused (rc=%d) but %d epoll_ctl / %d timerfd_create calls were made", rc, rec_epoll_ctl_calls, rec_tfd_create_calls);
			else
				vh_nontrivial();
		} else if (0 == (flags & 0x000c)) { /* reserved bits 2-3: not judged either way */
			if (0 != rc)
				vh_fail("wellformed-refused", "well-formed registration refused rc=%d", rc);
			else
				vh_nontrivial();
		}
		if (0 == rc)
			tpt_ev_del_args1((uint16_t)event, &ud);
	}
	close(p[0]); close(p[1]);
	tp_destroy(tp); tp = NULL;
	grid_mode = 0;
}

/* histories around a process event: add(P, flags) / delete / disable / the child exits, interleaved with a
 * persistent read event on the pipe (add, make ready, drain) */
static void
enumerate_proc(int depth, int preg, int forked, int alive, int areg) {
	static const int flagset[3] = { 0, TP_F_ONESHOT, TP_F_DISPATCH };
	static int readds = 0;	/* second adds on the current path: one per history keeps the space affordable (every history forks) */
	int f, total;

	if (depth > 0) {
		nsteps = depth;
		if (vh_begin("proc_history")) {
			vh_set_describer(hist_desc);
			run_history();
			total = R[0].cb_total + R[3].cb_total;
			if (R[3].cb_total > 0 && !hist_failed)
				vh_nontrivial();
			vh_outcome(&total, sizeof(total));
		}
	}
	if (depth == max_depth + 2)	/* the alphabet is small: two steps deeper than the main enumeration */
		return;
	if (!forked) {
		for (f = 0; f < 3; f ++) { PUSH(S_ADD, ID_P, TP_EV_PROC, flagset[f]); enumerate_proc(depth + 1, 1, 1, 1, areg); }
	}
	if (1 == preg) {
		if (0 == readds) for (f = 0; f < 3; f ++) { readds ++; PUSH(S_ADD, ID_P, TP_EV_PROC, flagset[f]); enumerate_proc(depth + 1, 1, forked, alive, areg); readds --; }	/* add again */
		PUSH(S_DEL, ID_P, 0, 0); enumerate_proc(depth + 1, 0, forked, alive, areg);
		PUSH(S_DISABLE, ID_P, 0, 0); enumerate_proc(depth + 1, 2, forked, alive, areg);
	}
	if (2 == preg) {	/* disabled: enabling it again must bring the event back, also when the child exited meanwhile */
		PUSH(S_ENABLE1, ID_P, 0, 0); enumerate_proc(depth + 1, 1, forked, alive, areg);
	}
	if (alive) {
		PUSH(S_PEXIT, ID_P, 0, 0); enumerate_proc(depth + 1, preg, forked, 0, areg);	/* preg stays: the model decides whether it fires */
	}
	if (!areg) {
		PUSH(S_ADD, ID_A, TP_EV_READ, 0); enumerate_proc(depth + 1, preg, forked, alive, 1);
	} else {
		PUSH(S_READY, ID_A, 0, 0); enumerate_proc(depth + 1, preg, forked, alive, areg);
		PUSH(S_SETACT, ID_A, ACT_DRAIN_SELF, 0); enumerate_proc(depth + 1, preg, forked, alive, areg);
	}
}

/* histories of the timer alone, with the absolute form in the alphabet: add (three flag sets x relative/absolute, also
 * over an existing timer), enable with arguments / without, disable, delete, the timer expires, two callback actions */
static void
enumerate_timer(int depth, int reg) {
	static const int flagset[3] = { 0, TP_F_ONESHOT, TP_F_DISPATCH };
	int f, ab, total;

	if (depth > 0) {
		nsteps = depth;
		if (vh_begin("timer_history")) {
			vh_set_describer(hist_desc);
			run_history();
			total = R[ID_T].cb_total;
			if (total > 0 && !hist_failed)
				vh_nontrivial();
			vh_outcome(&total, sizeof(total));
		}
	}
	if (depth == max_depth + 1)
		return;
	for (f = 0; f < 3; f ++) for (ab = 0; ab < 2; ab ++) {
		PUSH(S_ADD, ID_T, TP_EV_TIMER, flagset[f] | (ab ? 0x80 : 0)); enumerate_timer(depth + 1, 1);
	}
	if (!reg)
		return;
	PUSH(S_ENABLEF, ID_T, 0, 0); enumerate_timer(depth + 1, 1);
	PUSH(S_ENABLE1, ID_T, 0, 0); enumerate_timer(depth + 1, 1);
	PUSH(S_DISABLE, ID_T, 0, 0); enumerate_timer(depth + 1, 1);
	PUSH(S_DEL, ID_T, 0, 0); enumerate_timer(depth + 1, 0);
	PUSH(S_FIRE, ID_T, 0, 0); enumerate_timer(depth + 1, 1);
	PUSH(S_SETACT, ID_T, ACT_DISABLE_SELF, 0); enumerate_timer(depth + 1, 1);
	PUSH(S_SETACT, ID_T, ACT_DEL_SELF, 0); enumerate_timer(depth + 1, 1);
}

/* histories of a read registration on a socket whose error stays pending (queued ICMP error): add (three flag sets, also
 * again), enable both ways, disable, delete, the error arrives, two callback actions */
static void
enumerate_err(int depth, int reg, int err) {
	static const int flagset[3] = { 0, TP_F_ONESHOT, TP_F_DISPATCH };
	int f, total;

	if (depth > 0) {
		nsteps = depth;
		if (vh_begin("error_history")) {
			vh_set_describer(hist_desc);
			udp_mode = 1;
			run_history();
			udp_mode = 0;
			total = R[ID_B].cb_total;
			if (total > 0 && !hist_failed)
				vh_nontrivial();
			vh_outcome(&total, sizeof(total));
		}
	}
	if (depth == max_depth)
		return;
	for (f = 0; f < 3; f ++) { PUSH(S_ADD, ID_B, TP_EV_READ, flagset[f]); enumerate_err(depth + 1, 1, err); }
	if (!err) { PUSH(S_UDPERR, ID_B, 0, 0); enumerate_err(depth + 1, reg, 1); }
	if (!reg)
		return;
	PUSH(S_ENABLEF, ID_B, 0, 0); enumerate_err(depth + 1, 1, err);
	PUSH(S_ENABLE1, ID_B, 0, 0); enumerate_err(depth + 1, 1, err);
	PUSH(S_DISABLE, ID_B, 0, 0); enumerate_err(depth + 1, 1, err);
	PUSH(S_DEL, ID_B, 0, 0); enumerate_err(depth + 1, 0, err);
	PUSH(S_SETACT, ID_B, ACT_DISABLE_SELF, 0); enumerate_err(depth + 1, 1, err);
	PUSH(S_SETACT, ID_B, ACT_DEL_SELF, 0); enumerate_err(depth + 1, 1, err);
}

static int
udp_icmp_available(void) {
	struct pollfd pfd; int u = udp_dead_socket(), ok;
	if (u < 0) return (0);
	(void)!send(u, "x", 1, 0);
	pfd.fd = u; pfd.events = 0; pfd.revents = 0;
	ok = (1 == poll(&pfd, 1, 2000) && 0 != (pfd.revents & POLLERR));
	close(u);
	return (ok);
}

int
main(int argc, char **argv) {
	abs_t a;
	int i;

	vh_init(argc, argv);
	signal(SIGPIPE, SIG_IGN);
	for (i = 1; i < argc; i ++) {
		if (0 == strcmp(argv[i], "--depth") && i + 1 < argc)
			max_depth = atoi(argv[i + 1]);
	}
	timer_grid();
	validation_grid();
	memset(&a, 0, sizeof(a));
	enumerate(0, a);
	enumerate_proc(0, 0, 0, 0, 0);
	enumerate_timer(0, 0);
	if (udp_icmp_available())
		enumerate_err(0, 0, 0);
	else
		printf("NOTE\tno ICMP port-unreachable on loop-back in this environment: error_history not run\n");
	printf("NOTE\terror_history steps without ICMP answer=%lu\n", udp_no_icmp);
	return (vh_finish());
}
