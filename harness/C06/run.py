import os
from vlib import core, e1

WRAPS = ['epoll_wait', 'epoll_ctl', 'timerfd_create', 'timerfd_settime', 'syslog', 'openlog']


def _build():
    return core.compile_c('C06', 'h_c06', ['harness/C06/h_c06.c', core.repo_src('threadpool', 'threadpool.c'),
                                           core.repo_src('threadpool', 'threadpool_msg_sys.c')],
                          flags=['-pthread', '-Wl,' + ','.join('--wrap=' + w for w in WRAPS)])


def run(tier):
    depth = 4 if tier == 'quick' else 5
    rep = core.Report('C06', tier, 'model_checking',
        'every history of add/enable/disable/delete/make-ready/drain/peer-close/timer-expiry/callback-action steps up to the depth bound '
        'over three identifiers is played into the real event loop through the wrapped epoll_wait and compared with a model of the promise '
        'after every loop iteration; plus the exhaustive timer-unit grid and the registration-validation grid; '
        'non-trivial = histories in which at least one user callback fired (grids: cases whose oracle was fully evaluated)')
    rep.assumptions = ['Linux epoll reports level-triggered ready items round-robin (a ready, enabled registration fires within 2*ids+3 iterations)',
                       'one event-loop thread; registrations made on the owning thread']
    b = _build()
    core.run_sharded(rep, b, tier, extra_args=['--depth', str(depth)], hang_s=120)
    # schedule dimension: registrations driven from outside the owning thread (engine E1)
    b1 = e1.build('C06', 'h_c06_e1', ['harness/C06/h_c06_e1.c'])
    bp = 2 if tier == 'quick' else 3
    e1.run_jobs(rep, b1, [('outside/dispatch', bp, 2), ('outside/oneshot', bp, 2), ('outside/persistent-drain', bp, 2),
                          ('rebind/oneshot-read', bp, 2), ('rebind/deleted-read', bp, 2)], tier,
                job_deadline_s=(300 if tier == 'quick' else 1500))
    h = rep.stats.get('history', {})
    rep.extra['states'] = int(h.get('run', 0))
    rep.extra['transitions'] = int(rep.total('run'))
    rep.extra['traces_validated_against_impl'] = int(h.get('run', 0))
    rep.extra['history_depth_bound'] = depth
    rep.extra['explanation'] = 'states = distinct histories executed on the real loop (each is a trace of the implementation); transitions = cases executed incl. grids'
    r_e2 = core.make_replayer(lambda cfg: b, tier, extra_args=['--depth', str(depth)])

    def replayer(target, clause, idx, config):
        if target.startswith('outside/') or target.startswith('rebind/'):
            import subprocess
            hits = 0
            for _ in range(2):
                p = subprocess.run([b1, '--scenario', target, '--replay', idx], capture_output=True, timeout=300)
                hits += any(l.split('\t')[:3] == ['VIOL', target, clause] for l in p.stdout.decode('utf-8', 'replace').splitlines())
            return hits == 2
        return r_e2(target, clause, idx, config)
    rep.extra['e1_executions'] = int(sum(rep.stats.get(t, {}).get('run', 0) for t in ('outside/dispatch', 'outside/oneshot', 'outside/persistent-drain', 'rebind/oneshot-read', 'rebind/deleted-read')))
    rep.finish(replayer)


def replay(r, tier):
    import subprocess, sys
    b = _build()
    depth = 4 if tier == 'quick' else 5
    p = subprocess.run([b, '--tier', tier, '--depth', str(depth), '--only', '%s#%s' % (r['target'], r['index'])], capture_output=True)
    sys.stdout.write(p.stdout.decode('utf-8', 'replace'))
    return 1 if b'VIOL\t' in p.stdout else 0
