/* C13 / DHCPv4 header, SDP, SAP, RTP, MPEG-TS headers on hostile packets. */
#include "c13.h"
#include <arpa/inet.h>
#include "utils/macro.h"
#include "proto/dhcpv4.h"
#include "proto/sdp.h"
#include "proto/sap.h"
#include "proto/rtp.h"
#include "proto/mpeg2ts.h"

/* ================================================================ dhcp4_hdr_check */
/* include/proto/dhcpv4.h has exactly one function that looks at received bytes (there is no
 * option walker in this tree): sizes 0 .. 240+8, op/htype/hlen/cookie over their own alphabets,
 * option bytes 0/53/255 behind the cookie. */
static void
case_dhcp(void) {
	uint8_t *b = xdup(g_msg, g_len);
	int rc = dhcp4_hdr_check(b, g_len);

	if (0 == rc) {
		if (g_len < 240)
			vh_fail("accepted-short-header", "rc=0 for %zu bytes", g_len);
		else
			vh_nontrivial();
	}
	vh_outcome(&rc, sizeof(rc));
	xfree(b, g_len);
}
static void
grp_dhcp(void) {
	static const uint8_t OP[] = { 0, 1, 2, 3 }, HT[] = { 0, 1, 38, 39, 255 }, HL[] = { 0, 6, 16, 17, 255 };
	static const uint8_t CK[3][4] = { { 0x63, 0x82, 0x53, 0x63 }, { 0x63, 0x82, 0x53, 0x62 }, { 0, 0, 0, 0 } };
	static const uint8_t OPT[] = { 0, 53, 255 };
	int op, ht, hl, ck, o;
	size_t s;

	memset(g_msg, 0, 256);
	for (op = 0; op < 4; op ++) for (ht = 0; ht < 5; ht ++) for (hl = 0; hl < 5; hl ++) for (ck = 0; ck < 3; ck ++)
	for (o = 0; o < 3; o ++) for (s = 0; s <= 248; s ++) {
		if (!BEGIN("dhcp4_hdr_check"))
			continue;
		g_msg[0] = OP[op]; g_msg[1] = HT[ht]; g_msg[2] = HL[hl];
		memcpy(g_msg + 236, CK[ck], 4);
		g_msg[240] = OPT[o]; g_msg[241] = (uint8_t)(o ? 1 : 0); g_msg[242] = 1;
		g_len = s; p_a = op; p_b = ht; p_c = hl * 10 + ck;
		c13_case(case_dhcp);
	}
}

/* ================================================================ SDP */
static void
gen_text(const char *prefix, size_t plen, const uint8_t *sym, int nsym, int nmin, int nmax, void (*cb)(void)) {
	int idx[16], n, i;

	memcpy(g_msg, prefix, plen);
	for (n = nmin; n <= nmax; n ++) {
		memset(idx, 0, sizeof(idx));
		do {
			for (i = 0; i < n; i ++)
				g_msg[plen + i] = sym[idx[i]];
			g_len = plen + (size_t)n;
			cb();
		} while (odo_next(idx, n, nsym));
	}
}

static const uint8_t SYM_SDP[] = { 'v', '=', '\r', '\n', 'a', '0' };
static const long SDP_LINES[] = { -1, 0, 1, 2, 9 };	/* -1: line == NULL */

static void
case_sdp_type_get(void) {
	uint8_t *b = xdup(g_msg, g_len), *v = NULL;
	size_t line = (size_t)p_b, vs = 0;
	int rc;
	struct { int rc; long vo; size_t vs, line; } o;

	rc = sdp_msg_type_get(b, g_len, (uint8_t)p_a, (p_b < 0) ? NULL : &line, &v, &vs);
	memset(&o, 0, sizeof(o)); o.rc = rc;
	if (0 == rc) {
		if (!span_ok(v, vs, b, g_len))
			vh_fail("value-outside-message", "rc=0 value at %+ld size %zu, message size %zu", (long)(v - b), vs, g_len);
		else
			vh_nontrivial();
		o.vo = (long)(v - b); o.vs = vs; o.line = line;
	}
	vh_outcome(&o, sizeof(o));
	xfree(b, g_len);
}
static void
cb_sdp_type_get(void) {
	static const uint8_t types[] = { 'v', 'a' };
	int t, l;

	for (t = 0; t < 2; t ++) for (l = 0; l < 5; l ++) {
		if (!BEGIN("sdp_msg_type_get"))
			continue;
		p_a = types[t]; p_b = SDP_LINES[l];
		c13_case(case_sdp_type_get);
	}
}
static void
grp_sdp_type_get(void) {
	gen_text("", 0, SYM_SDP, 6, 0, vh_thorough ? 8 : 7, cb_sdp_type_get);
}

static void
case_sdp_sec_chk(void) {
	uint8_t *b = xdup(g_msg, g_len);
	int rc = sdp_msg_sec_chk(b, g_len);

	if (0 == rc)
		vh_nontrivial();
	vh_outcome(&rc, sizeof(rc));
	xfree(b, g_len);
}
static void
cb_sdp_sec_chk(void) {
	if (!BEGIN("sdp_msg_sec_chk"))
		return;
	c13_case(case_sdp_sec_chk);
}
static void
grp_sdp_sec_chk(void) {
	static const char *L[] = { "o=a", "s=a", "t=0", "c=a", "m=a", "v=0", "a= ", "x", "=", "", "\x01=a" };
	static const char *T[] = { "\r\n", "\r", "\n", "" };
	static const uint8_t SYM[] = { 'a', '=', '\r', '\n', 'm', 0x01, ' ' };
	int k, i, j, fi, fj, idx[8], cur[5];
	size_t total, s;
	char msg[160];

	/* A: "v=0" CRLF + up to 3 lines, each out of 11 bodies x 4 terminators; every truncation */
	for (k = 0; k <= 3; k ++) {
		memset(idx, 0, sizeof(idx));
		do {
			total = (size_t)snprintf(msg, sizeof(msg), "v=0\r\n");
			for (i = 0; i < k; i ++)
				total += (size_t)snprintf(msg + total, sizeof(msg) - total, "%s%s", L[idx[i] % 11], T[idx[i] / 11]);
			memcpy(g_msg, msg, total);
			for (s = 0; s <= total; s ++) { g_len = s; cb_sdp_sec_chk(); }
		} while (odo_next(idx, k, 44));
	}
	/* B: the minimal valid announcement (v o s t c m) with one or two lines replaced by every form;
	 * -1 = untouched.  Every truncation for single replacements, the last 8 sizes for double ones. */
	for (i = -1; i < 5; i ++) for (fi = 0; fi < ((i < 0) ? 1 : 44); fi ++)
	for (j = i; j < 5; j ++) for (fj = 0; fj < ((j == i) ? 1 : 44); fj ++) {
		if (j == i && i >= 0 && 0) continue;
		for (k = 0; k < 5; k ++) cur[k] = k; /* form index: body k, terminator CRLF */
		if (i >= 0) cur[i] = fi;
		if (j > i) cur[j] = fj;
		total = (size_t)snprintf(msg, sizeof(msg), "v=0\r\n");
		for (k = 0; k < 5; k ++)
			total += (size_t)snprintf(msg + total, sizeof(msg) - total, "%s%s", L[cur[k] % 11], T[cur[k] / 11]);
		memcpy(g_msg, msg, total);
		for (s = (j > i && i >= 0 && total > 8) ? total - 8 : 0; s <= total; s ++) { g_len = s; cb_sdp_sec_chk(); }
	}
	/* C: valid prefixes followed by a raw tail */
	gen_text("v=0\r\no=a\r\ns=a\r\nt=0\r\nc=a\r\nm=a", 28, SYM, 7, 0, vh_thorough ? 6 : 5, cb_sdp_sec_chk);
	gen_text("v=0\r\no=a\r\ns=a\r\n", 15, SYM, 7, 0, vh_thorough ? 6 : 5, cb_sdp_sec_chk);
}

static void
case_sdp_feilds(void) {
	uint8_t *b = xdup(g_msg, g_len), *f[8];
	size_t fs[8], n, i;

	memset(f, 0, sizeof(f)); memset(fs, 0, sizeof(fs));
	n = sdp_msg_feilds_get(b, g_len, (size_t)p_a, f, fs);
	if (n > (size_t)p_a)
		vh_fail("too-many-fields", "returned %zu, max_feilds %ld", n, p_a);
	else {
		for (i = 0; i < n; i ++) {
			if (!span_ok(f[i], fs[i], b, g_len)) {
				vh_fail("field-outside-buffer", "field %zu at %+ld size %zu, buffer size %zu", i, (long)(f[i] - b), fs[i], g_len);
				break;
			}
		}
		if (i == n && n > 0)
			vh_nontrivial();
	}
	vh_outcome(fs, sizeof(fs));
	xfree(b, g_len);
}
static void
cb_sdp_feilds(void) {
	static const long mx[] = { 1, 2, 8 };
	int i;

	for (i = 0; i < 3; i ++) {
		if (!BEGIN("sdp_msg_feilds_get"))
			continue;
		p_a = mx[i];
		c13_case(case_sdp_feilds);
	}
}
static void
grp_sdp_feilds(void) {
	static const uint8_t SYM[] = { ' ', 'a', '\r' };

	gen_text("", 0, SYM, 3, 0, vh_thorough ? 10 : 9, cb_sdp_feilds);
}

/* ================================================================ SAP */
/* sap_packet_is_valid() takes the received size: called on everything.  The accessors
 * (get_orig_src, get_orig_src_type, get_auth_data, get_payload) read the header without a size
 * check and are used by the library only behind sap_packet_is_valid(): called only on packets
 * it accepted. */
static void
case_sap(void) {
	uint8_t *b = xdup(g_msg, g_len), *p;
	int ok = sap_packet_is_valid(b, g_len);

	if (0 != ok) {
		size_t alen = (b[0] & 0x10) ? 16 : 4;
		if (g_len < 4 + alen + b[1])
			vh_fail("accepted-short-packet", "valid=1 but %zu bytes < 4 + %zu + %u", g_len, alen, b[1]);
		else if (!span_ok((p = sap_packet_get_orig_src(b)), alen, b, g_len))
			vh_fail("orig-src-outside-packet", "at %+ld", (long)(p - b));
		else if (!span_ok((p = sap_packet_get_auth_data(b)), b[1], b, g_len))
			vh_fail("auth-data-outside-packet", "at %+ld len %u", (long)(p - b), b[1]);
		else if (!span_ok((p = sap_packet_get_payload(b, g_len)), 0, b, g_len))
			vh_fail("payload-outside-packet", "at %+ld, size %zu", (long)(p - b), g_len);
		else {
			(void)sap_packet_get_orig_src_type(b);
			vh_nontrivial();
		}
	}
	vh_outcome(&ok, sizeof(ok));
	xfree(b, g_len);
}
static void
grp_sap(void) {
	static const uint8_t FL[] = { 0x20, 0x30, 0x00, 0x40, 0x21, 0x3f, 0xe0 };
	static const uint8_t AL[] = { 0, 1, 2, 40, 255 };
	int f, a, h, z;
	size_t s, zpos;

	for (f = 0; f < 7; f ++) for (a = 0; a < 5; a ++) for (h = 0; h < 2; h ++) for (z = 0; z < 4; z ++) for (s = 0; s <= 80; s ++) {
		if (!BEGIN("sap_packet_is_valid"))
			continue;
		memset(g_msg, 'a', 96);
		g_msg[0] = FL[f]; g_msg[1] = AL[a]; g_msg[2] = 0; g_msg[3] = (uint8_t)h;
		/* position of a NUL (end of the MIME type): none, right behind the header, last byte, byte 30 */
		zpos = (1 == z) ? (size_t)(4 + ((FL[f] & 0x10) ? 16 : 4) + AL[a]) : ((2 == z) ? (s ? s - 1 : 0) : 30);
		if (0 != z && zpos >= 4 && zpos < 96)
			g_msg[zpos] = 0;
		g_len = s; p_a = FL[f]; p_b = AL[a]; p_c = z;
		c13_case(case_sap);
	}
}

/* ================================================================ RTP */
static void
case_rtp(void) {
	uint8_t *b = xdup(g_msg, g_len);
	size_t so = (size_t)-1, eo = (size_t)-1;
	int rc;
	struct { int rc; size_t so, eo; } o;

	rc = rtp_payload_get(b, g_len, &so, &eo);
	memset(&o, 0, sizeof(o)); o.rc = rc;
	if (0 == rc) {
		if (so > g_len || eo > g_len || so + eo > g_len)
			vh_fail("payload-outside-packet", "rc=0 start_off=%zu end_off=%zu size=%zu", so, eo, g_len);
		else
			vh_nontrivial();
		o.so = so; o.eo = eo;
	}
	vh_outcome(&o, sizeof(o));
	xfree(b, g_len);
}
static void
grp_rtp(void) {
	static const uint8_t XL[] = { 0, 1, 2, 255 };
	static const long PD[] = { 0, 1, 2, 4, -12, -1000, 255 }; /* -12: size - 12, -1000: size */
	int b0, hi, lo, pd, smax = vh_thorough ? 84 : 40;
	size_t s, xo;

	for (b0 = 0; b0 < 256; b0 ++) for (hi = 0; hi < 4; hi ++) for (lo = 0; lo < 4; lo ++) for (pd = 0; pd < 7; pd ++)
	for (s = 0; s <= (size_t)smax; s ++) {
		if (!BEGIN("rtp_payload_get"))
			continue;
		memset(g_msg, 0x11, 128);
		g_msg[0] = (uint8_t)b0; g_msg[1] = 96;
		xo = 12 + 4 * (size_t)(b0 & 0x0f); /* extension header position */
		g_msg[xo + 2] = XL[hi]; g_msg[xo + 3] = XL[lo];
		if (s > 0)
			g_msg[s - 1] = (uint8_t)((-12 == PD[pd]) ? (s >= 12 ? s - 12 : 0) : ((-1000 == PD[pd]) ? s : PD[pd]));
		g_len = s; p_a = b0; p_b = (XL[hi] << 8) | XL[lo]; p_c = PD[pd];
		c13_case(case_rtp);
	}
}

/* ================================================================ MPEG-TS */
/* mpeg2_ts_pkt_is_valid(hdr, pkt_size): the caller guarantees pkt_size bytes behind hdr (that is
 * what the size argument means); the buffer is exactly pkt_size bytes. */
static void
c13_describe_ts(char *b, size_t n) {
	char hx[40];

	vh_hex(hx, sizeof(hx), g_msg + p_off, 12);
	snprintf(b, n, "first12=%s size=%zu off=%zu pkt_size=%zu a=%ld b=%ld c=%ld %s", hx, g_len, p_off, p_cap, p_a, p_b, p_c, p_tag);
}

static void
case_ts_valid(void) {
	uint8_t *b = xdup(g_msg, g_len);
	int ok = mpeg2_ts_pkt_is_valid((const mpeg2_ts_hdr_t *)b, g_len);

	if (0 != ok) {
		vh_nontrivial();
	}
	vh_outcome(&ok, sizeof(ok));
	xfree(b, g_len);
}
static void
grp_ts_valid(void) {
	static const size_t SZ[] = { 0, 3, 187, 188, 192, 204, 208, 209 };
	static const uint16_t PID[] = { 0, 1, 2, 0x11, 0x12, 0x13, 0x1fff };
	static const long AF[] = { 0, 1, -7, -6, -5, -4, -1, 255 }; /* negative: pkt_size + value */
	static const uint8_t TID[] = { 0x00, 0x01, 0x03, 0x42, 0x4e, 0xff };
	static const uint8_t FLG[] = { 0x80, 0x40, 0xc0, 0x00 };
	static const uint8_t HB[] = { 0x00, 0x40, 0xc0, 0x20 };	/* byte 1 above the PID: payload unit start / transport error / priority */
	int sz, sb, pid, ac, af, tid, fl, hb;
	size_t afl, pos;

	vh_set_describer(c13_describe_ts);
	p_off = 0;
	for (sz = 0; sz < 8; sz ++) for (sb = 0; sb < 2; sb ++) for (pid = 0; pid < 7; pid ++) for (ac = 0; ac < 4; ac ++)
	for (af = 0; af < 8; af ++) for (tid = 0; tid < 6; tid ++) for (fl = 0; fl < 4; fl ++) for (hb = 0; hb < 4; hb ++) {
		if (!BEGIN("mpeg2_ts_pkt_is_valid"))
			continue;
		memset(g_msg, 0xff, 256);
		g_msg[0] = (uint8_t)(sb ? 0x46 : 0x47);
		g_msg[1] = (uint8_t)((PID[pid] >> 8) | HB[hb]); g_msg[2] = (uint8_t)PID[pid];	/* with the start indicator set the first payload byte is the pointer field */
		g_msg[3] = (uint8_t)(ac << 4);	/* afe = bit 5, cp = bit 4 */
		afl = (size_t)((AF[af] < 0) ? (long)SZ[sz] + AF[af] : AF[af]) & 0xff;
		g_msg[4] = (uint8_t)afl;
		pos = (ac & 2) ? 5 + afl : 4;
		if (pos + 1 < 256) { g_msg[pos] = TID[tid]; g_msg[pos + 1] = FLG[fl]; }
		g_len = SZ[sz]; p_cap = SZ[sz]; p_a = PID[pid]; p_b = ac; p_c = (long)afl;
		c13_case(case_ts_valid);
	}
}

/* mpeg2_ts_pkt_get_next(buf, buf_size, off, pkt_size, &pkt): off is the caller's cursor inside the
 * buffer (0 .. buf_size), pkt_size one of the four legal sizes. */
static void
case_ts_next(void) {
	uint8_t *b = xdup(g_msg, g_len), *pkt = NULL;
	int ok = mpeg2_ts_pkt_get_next(b, g_len, p_off, p_cap, &pkt);

	if (0 != ok) {
		if (!span_ok(pkt, p_cap, b, g_len))
			vh_fail("packet-outside-buffer", "ret=1 pkt at %+ld, pkt_size %zu, buffer %zu", (long)(pkt - b), p_cap, g_len);
		else
			vh_nontrivial();
	}
	vh_outcome(&ok, sizeof(ok));
	xfree(b, g_len);
}
static void
grp_ts_next(void) {
	static const size_t PS[] = { 188, 192, 204, 208 };
	static const long BS[] = { 0, 1, -1, 0x1000, 0x1001, 0x2000, 0x2001 }; /* 0x1000+k: pkt_size+k, 0x2000+k: 2*pkt_size+k; -1: pkt_size-1 */
	static const long SP[] = { -1, 0, 1, 0x1000, 0x1001, 0x1002, 0x2000 }; /* sync at: none, 0, 1, size-pkt_size-1, size-pkt_size, size-pkt_size+1, last byte */
	static const long OF[] = { 0, 1, 0x1000, 0x1001, 0x2000 }; /* 0, 1, size-pkt_size, size-pkt_size+1, size */
	int ps, bs, s1, s2, of;
	size_t size, pk;
	long v;

	vh_set_describer(c13_describe_ts);
	for (ps = 0; ps < 4; ps ++) for (bs = 0; bs < 7; bs ++) for (s1 = 0; s1 < 7; s1 ++) for (s2 = 0; s2 < 7; s2 ++) for (of = 0; of < 5; of ++) {
		if (!BEGIN("mpeg2_ts_pkt_get_next"))
			continue;
		pk = PS[ps];
		v = BS[bs];
		size = (v == -1) ? pk - 1 : ((v >= 0x2000) ? 2 * pk + (size_t)(v - 0x2000) : ((v >= 0x1000) ? pk + (size_t)(v - 0x1000) : (size_t)v));
		memset(g_msg, 0x11, sizeof(g_msg));
		{
			long sp[2]; int i;
			sp[0] = SP[s1]; sp[1] = SP[s2];
			for (i = 0; i < 2; i ++) {
				long q = sp[i], at;
				if (q < 0) continue;
				at = (q == 0x2000) ? (long)size - 1 : ((q >= 0x1000) ? (long)size - (long)pk - 1 + (q - 0x1000) : q);
				if (at >= 0 && (size_t)at < size)
					g_msg[at] = 0x47;
			}
		}
		v = OF[of];
		p_off = (v == 0x2000) ? size : ((v >= 0x1000) ? ((size >= pk) ? size - pk + (size_t)(v - 0x1000) : size) : (size_t)v);
		if (p_off > size)
			p_off = size;	/* the cursor never leaves the buffer: caller's contract */
		g_len = size; p_cap = pk; p_a = SP[s1]; p_b = SP[s2]; p_c = (long)size;
		c13_case(case_ts_next);
	}
}

/* mpeg2_ts_pkt_size_detect(buf, buf_size, &pkt_size) */
static void
case_ts_detect(void) {
	uint8_t *b = xdup(g_msg, g_len);
	size_t ps = 0;
	int rc = mpeg2_ts_pkt_size_detect(b, g_len, &ps);

	if (0 == rc)
		vh_nontrivial();
	vh_outcome(&ps, sizeof(ps));
	xfree(b, g_len);
}
static void
grp_ts_detect(void) {
	static const size_t PS[] = { 188, 192, 204, 208, 100 };
	static const uint16_t PID[] = { 0x100, 0, 0x1fff, 0x11, 0x12, 1, 2 };
	static const long EX[] = { -21, -20, -19, -12, -5, -1, 0, 1, 20, 207, 208, 209 };
	static const uint8_t AC[] = { 0x10, 0x20, 0x30 };
	/* adaptation field length of the LAST packet: around "fills the packet" for every accepted packet size */
	static const uint8_t AFL[] = { 183, 0, 1, 170, 179, 180, 181, 182, 184, 185, 187, 190, 195, 199, 200, 201, 203, 255 };
	int ps, np, pid, ex, ac, ph, i, afl;
	size_t size, at;

	vh_set_describer(c13_describe_ts);
	p_off = 0;
	/* np sync bytes spaced ps apart starting at phase ph, buffer = (np-1)*ps + 208 + extra bytes */
	for (ps = 0; ps < 5; ps ++) for (np = 0; np <= 3; np ++) for (pid = 0; pid < 7; pid ++) for (ac = 0; ac < 3; ac ++)
	for (ex = 0; ex < 12; ex ++) for (ph = 0; ph < 2; ph ++) for (afl = 0; afl < 18; afl ++) {
		if (afl > 0 && (0 == np || 0x30 != AC[ac]))
			continue;	/* the length byte only matters with an adaptation field in front of a payload */
		if (!BEGIN("mpeg2_ts_pkt_size_detect"))
			continue;
		size = (size_t)((long)((np ? np - 1 : 0) * PS[ps] + 208 + (size_t)ph) + EX[ex]);
		if (size >= sizeof(g_msg))
			size = sizeof(g_msg) - 1;
		memset(g_msg, (0 == pid) ? 0x00 : 0x11, sizeof(g_msg));
		for (i = 0; i < np; i ++) {
			at = (size_t)ph + (size_t)i * PS[ps];
			if (at + 5 < sizeof(g_msg)) {
				g_msg[at] = 0x47; g_msg[at + 1] = (uint8_t)(PID[pid] >> 8); g_msg[at + 2] = (uint8_t)PID[pid];
				g_msg[at + 3] = AC[ac]; g_msg[at + 4] = (uint8_t)((i == np - 1) ? AFL[afl] : ((i & 1) ? 203 : 183));
			}
		}
		g_len = size; p_cap = PS[ps]; p_a = np; p_b = PID[pid]; p_c = EX[ex];
		c13_case(case_ts_detect);
	}
}

int
main(int argc, char **argv) {
	c13_init(argc, argv);
	c13_group("dhcp4_hdr_check", grp_dhcp, "dhcp4_hdr_check");
	c13_group("sdp_type_get", grp_sdp_type_get, "sdp_msg_type_get");
	c13_group("sdp_sec_chk", grp_sdp_sec_chk, "sdp_msg_sec_chk");
	c13_group("sdp_feilds_get", grp_sdp_feilds, "sdp_msg_feilds_get");
	c13_group("sap", grp_sap, "sap_packet_is_valid");
	c13_group("rtp", grp_rtp, "rtp_payload_get");
	c13_group("ts_valid", grp_ts_valid, "mpeg2_ts_pkt_is_valid");
	c13_group("ts_next", grp_ts_next, "mpeg2_ts_pkt_get_next");
	c13_group("ts_detect", grp_ts_detect, "mpeg2_ts_pkt_size_detect");
	return (vh_finish());
}
