"""C13 - network message parsers are memory-safe and bounded on hostile packets.

Four enumerating harnesses (DNS, RADIUS, HTTP, DHCP/SDP/SAP/RTP/MPEG-TS), each built with ASan from the
repository's working tree and run as 16 shards.  Inside a shard every target group runs in its own forked
child (see c13.h)."""
from concurrent.futures import ThreadPoolExecutor
from vlib import core

HARNESSES = [
    ('dns', 'h_dns', ['harness/C13/h_dns.c']),
    ('radius', 'h_radius', ['harness/C13/h_radius.c']),
    ('http', 'h_http', ['harness/C13/h_http.c', core.repo_src('proto', 'http.c')]),
    ('misc', 'h_misc', ['harness/C13/h_misc.c']),
]


def _build():
    def one(h):
        return h[0], core.compile_c('C13', h[1], h[2], flags=['-I' + core.VERIF + '/harness/C13'])
    with ThreadPoolExecutor(max_workers=4) as ex:
        return dict(ex.map(one, HARNESSES))


def run(tier):
    rep = core.Report('C13', tier, 'exploration',
        'per parser: every message of a stated small scope - fixed header fields over their own alphabets, tail = '
        'every string over a per-target alphabet up to length n (DNS 13 symbols n<=5/6, RADIUS attribute forms k<=2/3 '
        'and raw n<=4/5, HTTP 5-12 symbols n<=5..9, SDP 6 symbols n<=7/8, RTP all first bytes x sizes 0..40/84, '
        'MPEG-TS/SAP/DHCP field alphabets x sizes) and every truncation of structured messages - handed to the real '
        'function as an exact-size heap copy (ASan redzone right behind the last received byte), with every offset '
        'argument the function itself range-checks and every output capacity 0..n+1; a case is non-trivial when the '
        'library accepted the input (rc == 0 / valid) and the span oracle was evaluated on what it returned')
    rep.assumptions = [
        'AddressSanitizer (gcc, -O1, recover mode) sees every access outside the exact-size copy of the message and '
        'outside the exact-capacity output buffer',
        'accessors that take no size and are documented as "call after radius_pkt_chk()" / used only behind '
        'sap_packet_is_valid() are exercised only on packets the library\'s own validator accepted, with offsets the '
        'library itself produces (0, attribute starts, pkt->len)',
        'caller-owned cursor arguments stay inside the buffer where the function does not range-check them itself '
        '(mpeg2_ts_pkt_get_next off <= buf_size); mpeg2_ts_pkt_is_valid gets a buffer of exactly the stated packet size',
        'non-termination = no return within 1 s of CPU time in a single call',
    ]
    bins = _build()
    rep.configs = [h[0] for h in HARNESSES]
    for name, _, _ in HARNESSES:
        core.run_sharded(rep, bins[name], tier, config=name)
    rep.extra['targets'] = len(rep.stats)
    rep.finish(core.make_replayer(lambda cfg: bins[cfg], tier))
