/* C13 / DNS - include/proto/dns.h on hostile messages.
 * Every function here takes the received size, so every function is called on everything. */
#include "c13.h"
#include "proto/dns.h"

static const uint8_t dns_hdr0[12] = { 0x12, 0x34, 0x81, 0x80, 0, 0, 0, 0, 0, 0, 0, 0 };

/* ================================================================ raw tails */
/* Tail alphabet: label lengths 0/1/2/63, EDNS (40) and reserved (80) label types, compression
 * marker C0, pointer low bytes 0C (first name), 0D, LAST (= last byte of the message),
 * END (= msg_size), FF (far outside), one ordinary byte. */
#define SYM_LAST (-1)
#define SYM_END  (-2)
static const int DNS_SYM[] = { 0x00, 0x01, 0x02, 0x3F, 0x40, 0x80, 0xC0, 0x0C, 0x0D, SYM_LAST, SYM_END, 0xFF, 'a' };
#define DNS_NSYM ((int)(sizeof(DNS_SYM) / sizeof(DNS_SYM[0])))

static void
gen_dns_raw(int nmax, void (*cb)(void)) {
	int idx[16], n, i;

	memcpy(g_msg, dns_hdr0, 12);
	for (n = 0; n <= nmax; n ++) {
		memset(idx, 0, sizeof(idx));
		do {
			for (i = 0; i < n; i ++) {
				int s = DNS_SYM[idx[i]];
				g_msg[12 + i] = (uint8_t)(s == SYM_LAST ? 12 + n - 1 : (s == SYM_END ? 12 + n : s));
			}
			g_len = 12 + (size_t)n;
			cb();
		} while (odo_next(idx, n, DNS_NSYM));
	}
}

/* ---- dns_msg_sequence_of_labels_get_name_len */
static void
case_get_name_len(void) {
	uint8_t *m = xdup(g_msg, g_len);
	size_t nl = 0;
	int rc;
	struct { int rc; size_t nl; } o;

	rc = dns_msg_sequence_of_labels_get_name_len((dns_hdr_p)m, g_len, p_off, &nl);
	if (0 == rc)
		vh_nontrivial();
	memset(&o, 0, sizeof(o)); o.rc = rc; o.nl = (0 == rc) ? nl : 0;
	vh_outcome(&o, sizeof(o));
	xfree(m, g_len);
}
static void
cb_get_name_len(void) {
	for (p_off = 10; p_off <= g_len + 1; p_off ++) { /* 10, 11: inside the header; g_len + 1: outside */
		if (!BEGIN("dns_msg_sequence_of_labels_get_name_len"))
			continue;
		c13_case(case_get_name_len);
	}
}

/* ---- dns_msg_sequence_of_labels2name */
static void
case_labels2name(void) {
	uint8_t *m = xdup(g_msg, g_len), *name = xalloc(p_cap);
	size_t nl = (size_t)-1;
	int rc;
	struct { int rc; size_t nl; } o;

	rc = dns_msg_sequence_of_labels2name((dns_hdr_p)m, g_len, p_off, name, p_cap, &nl);
	if (0 == rc) {
		if (nl >= p_cap)
			vh_fail("name-outside-buffer", "rc=0 name_len=%zu name_buf_size=%zu", nl, p_cap);
		else
			vh_nontrivial();
	}
	memset(&o, 0, sizeof(o)); o.rc = rc; o.nl = (0 == rc || EOVERFLOW == rc) ? nl : 0;
	vh_outcome(&o, sizeof(o));
	xfree(name, p_cap);
	xfree(m, g_len);
}
static void
cb_labels2name(void) {
	size_t ncap = (g_len - 12) + 3;

	for (p_off = 11; p_off <= g_len + 1; p_off ++) {
		for (p_cap = 0; p_cap <= ncap + 1; p_cap ++) {
			if (!BEGIN("dns_msg_sequence_of_labels2name"))
				continue;
			if (p_cap == ncap + 1)
				p_cap = 300; /* room for everything a pointer loop can produce before ELOOP */
			c13_case(case_labels2name);
			if (300 == p_cap)
				p_cap = ncap + 1;
		}
	}
}

/* ---- SequenceOfLabelsGetSize: the buffer is the tail alone */
static void
case_sol_get_size(void) {
	size_t n = g_len - 12;
	uint8_t *b = xdup(g_msg + 12, n);
	size_t sz = 0;
	int rc;
	struct { int rc; size_t sz; } o;

	rc = SequenceOfLabelsGetSize(b, n, &sz);
	if (0 == rc) {
		if (sz > n)
			vh_fail("size-outside-buffer", "rc=0 returned size %zu > buf_size %zu", sz, n);
		else
			vh_nontrivial();
	}
	memset(&o, 0, sizeof(o)); o.rc = rc; o.sz = (0 == rc) ? sz : 0;
	vh_outcome(&o, sizeof(o));
	xfree(b, n);
}
static void
cb_sol_get_size(void) {
	p_off = 12;
	if (!BEGIN("SequenceOfLabelsGetSize"))
		return;
	c13_case(case_sol_get_size);
}

/* ---- SequenceOfLabelsToDomainName */
static void
case_sol_to_name(void) {
	size_t n = g_len - 12;
	uint8_t *b = xdup(g_msg + 12, n), *name = xalloc(p_cap);
	size_t nl = 0;
	int rc;

	rc = SequenceOfLabelsToDomainName(b, n, name, p_cap, &nl);
	if (0 == rc) {
		if (nl > n)
			vh_fail("size-outside-buffer", "rc=0 returned size %zu > buf_size %zu", nl, n);
		else
			vh_nontrivial();
	}
	xfree(name, p_cap);
	xfree(b, n);
}
static void
cb_sol_to_name(void) {
	size_t n = g_len - 12;

	p_off = 12;
	for (p_cap = 0; p_cap <= n + 1; p_cap ++) {
		if (!BEGIN("SequenceOfLabelsToDomainName"))
			continue;
		c13_case(case_sol_to_name);
	}
}

static int raw_n;
static void grp_get_name_len(void) { gen_dns_raw(raw_n, cb_get_name_len); }
static void grp_labels2name(void) { gen_dns_raw(raw_n, cb_labels2name); }
static void grp_sol_get_size(void) { gen_dns_raw(raw_n + 1, cb_sol_get_size); }
static void grp_sol_to_name(void) { gen_dns_raw(raw_n, cb_sol_to_name); }

/* ================================================================ section walkers */
static const uint16_t CNT4[] = { 0, 1, 2, 0xFFFF };
static const uint16_t CNT2[] = { 0, 1 };

static void
set_counts(int qd, int an, int ns, int ar) {
	g_msg[4] = (uint8_t)(CNT4[qd] >> 8); g_msg[5] = (uint8_t)CNT4[qd];
	g_msg[6] = (uint8_t)(CNT4[an] >> 8); g_msg[7] = (uint8_t)CNT4[an];
	g_msg[8] = (uint8_t)(CNT2[ns] >> 8); g_msg[9] = (uint8_t)CNT2[ns];
	g_msg[10] = (uint8_t)(CNT2[ar] >> 8); g_msg[11] = (uint8_t)CNT2[ar];
}

static void
case_info_get(void) {
	uint8_t *m = xdup(g_msg, g_len);
	size_t qd = 0, an = 0, ns = 0, ar = 0, rrc = 0, sz = 0;
	int rc;
	struct { int rc; size_t v[6]; } o;

	rc = dns_msg_info_get((dns_hdr_p)m, g_len, &qd, &an, &ns, &ar, &rrc, &sz);
	memset(&o, 0, sizeof(o)); o.rc = rc;
	if (0 == rc) {
		if (!(12 <= qd && qd <= an && an <= ns && ns <= ar && ar <= sz && sz <= g_len))
			vh_fail("offsets-outside-message", "rc=0 qd=%zu an=%zu ns=%zu ar=%zu msg_size_ret=%zu received=%zu",
			    qd, an, ns, ar, sz, g_len);
		else if (sz > 12)
			vh_nontrivial();
		o.v[0] = qd; o.v[1] = an; o.v[2] = ns; o.v[3] = ar; o.v[4] = rrc; o.v[5] = sz;
	}
	vh_outcome(&o, sizeof(o));
	xfree(m, g_len);
}

static void
case_validate(void) {
	uint8_t *m = xdup(g_msg, g_len);
	int rc;

	rc = dns_msg_validate((dns_hdr_p)m, g_len);
	if (0 == rc && g_len > 12)
		vh_nontrivial();
	vh_outcome(&rc, sizeof(rc));
	xfree(m, g_len);
}

static const char *walk_target;
static void (*walk_case)(void);

static void
cb_walk_counts(void) { /* g_msg/g_len hold body; iterate count combinations */
	int qd, an, ns, ar;

	for (qd = 0; qd < 4; qd ++) for (an = 0; an < 4; an ++) for (ns = 0; ns < 2; ns ++) for (ar = 0; ar < 2; ar ++) {
		if (!BEGIN(walk_target))
			continue;
		set_counts(qd, an, ns, ar);
		p_a = (long)CNT4[qd]; p_b = (long)CNT4[an]; p_c = ns * 2 + ar;
		c13_case(walk_case);
	}
	set_counts(0, 0, 0, 0);
}

/* ---- structured bodies: up to K records, each = name form x fixed-part form */
#define NNAME 9
#define NKIND 7
static int rec_off[8];	/* start offsets of the records of the current body (+ end) */
static int rec_cnt;

static size_t
name_len_of(int f) { static const size_t l[NNAME] = { 1, 3, 2, 2, 2, 2, 1, 4, 2 }; return (l[f]); }
static size_t
kind_len_of(int k) { static const size_t l[NKIND] = { 4, 10, 11, 14, 10, 11, 10 }; return (l[k]); }

static size_t
put_name(uint8_t *p, int f, size_t self, size_t end) {
	switch (f) {
	case 0: p[0] = 0; return (1);
	case 1: p[0] = 1; p[1] = 'a'; p[2] = 0; return (3);
	case 2: p[0] = 0xC0; p[1] = 0x0C; return (2);
	case 3: p[0] = 0xC0; p[1] = (uint8_t)self; return (2);		/* pointer to itself */
	case 4: p[0] = 0xC0; p[1] = (uint8_t)end; return (2);		/* pointer to offset == size of the whole message */
	case 5: p[0] = 0x3F; p[1] = 'a'; return (2);			/* 63 byte label that is not there */
	case 6: p[0] = 0x40; return (1);				/* EDNS label type */
	case 7: p[0] = 1; p[1] = 'a'; p[2] = 0xC0; p[3] = 0x0C; return (4);
	default: p[0] = 0xC0; p[1] = (uint8_t)(self + 2); return (2);	/* pointer to the byte behind the pointer */
	}
}

static size_t
put_kind(uint8_t *p, int k) {
	static const uint8_t rr[10] = { 0, 1, 0, 1, 0, 0, 0, 0x3c, 0, 0 };
	static const uint8_t opt[10] = { 0, 41, 0x10, 0, 0, 0, 0x80, 0, 0, 0 };

	switch (k) {
	case 0: p[0] = 0; p[1] = 1; p[2] = 0; p[3] = 1; return (4);		/* question */
	case 1: memcpy(p, rr, 10); return (10);					/* rdlength 0 */
	case 2: memcpy(p, rr, 10); p[9] = 1; p[10] = 'x'; return (11);		/* rdlength 1 */
	case 3: memcpy(p, rr, 10); p[9] = 4; p[10] = 127; p[11] = 0; p[12] = 0; p[13] = 1; return (14);
	case 4: memcpy(p, rr, 10); p[8] = 0xff; p[9] = 0xff; return (10);	/* rdlength 65535, no data */
	case 5: memcpy(p, rr, 10); p[9] = 2; p[10] = 'x'; return (11);		/* rdlength 2, one byte present */
	default: memcpy(p, opt, 10); return (10);				/* OPT pseudo RR */
	}
}

/* nname/nkind: how many of the forms to use (reduced sets for deeper K) */
static void
gen_dns_struct(int kmax, int nname, int nkind, void (*cb)(void)) {
	int k, i, idx[4], nf = nname * nkind;
	size_t total, pos, s;

	memcpy(g_msg, dns_hdr0, 12);
	for (k = 0; k <= kmax; k ++) {
		memset(idx, 0, sizeof(idx));
		do {
			total = 12;
			for (i = 0; i < k; i ++)
				total += name_len_of(idx[i] % nname) + kind_len_of(idx[i] / nname);
			for (s = 12; s <= total; s ++) { /* every truncation of the body (header truncations: separate group) */
				pos = 12;
				for (i = 0; i < k; i ++) { /* rebuild: callbacks may have edited the counts only */
					rec_off[i] = (int)pos;
					pos += put_name(g_msg + pos, idx[i] % nname, pos, total);
					pos += put_kind(g_msg + pos, idx[i] / nname);
				}
				rec_off[k] = (int)pos;
				rec_cnt = k;
				g_len = s;
				cb();
			}
		} while (odo_next(idx, k, nf));
	}
}

/* ---- dns_msg_question_get_data / dns_msg_rr_get_data at record starts and boundary offsets */
static size_t q_namecap;	/* (size_t)-1: name == NULL */

static void
case_question_get(void) {
	uint8_t *m = xdup(g_msg, g_len), *name = NULL;
	size_t nl = q_namecap, qs = 0;
	uint16_t t = 0, c = 0;
	int rc;
	struct { int rc; size_t qs; } o;

	if ((size_t)-1 != q_namecap)
		name = xalloc(q_namecap);
	rc = dns_msg_question_get_data((dns_hdr_p)m, g_len, p_off, name, (NULL != name) ? &nl : NULL, &t, &c, &qs);
	if (0 == rc) {
		if (p_off + qs > g_len)
			vh_fail("question-outside-message", "rc=0 offset=%zu question_size=%zu received=%zu", p_off, qs, g_len);
		else if (NULL != name && 0 != q_namecap && nl >= q_namecap)
			vh_fail("name-outside-buffer", "rc=0 name_len=%zu name_buf_size=%zu", nl, q_namecap);
		else
			vh_nontrivial();
	}
	memset(&o, 0, sizeof(o)); o.rc = rc; o.qs = (0 == rc) ? qs : 0;
	vh_outcome(&o, sizeof(o));
	if (NULL != name)
		xfree(name, q_namecap);
	xfree(m, g_len);
}

static void
case_rr_get(void) {
	uint8_t *m = xdup(g_msg, g_len), *name = NULL;
	size_t nl = q_namecap, rs = 0;
	uint16_t t = 0, c = 0, ds = 0;
	uint32_t ttl = 0;
	void *data = NULL;
	int rc;
	struct { int rc; size_t rs; uint16_t ds; } o;

	if ((size_t)-1 != q_namecap)
		name = xalloc(q_namecap);
	rc = dns_msg_rr_get_data((dns_hdr_p)m, g_len, p_off, name, (NULL != name) ? &nl : NULL, &t, &c, &ttl, &ds, &data, &rs);
	if (0 == rc) {
		if (p_off + rs > g_len)
			vh_fail("rr-outside-message", "rc=0 offset=%zu rr_size=%zu received=%zu", p_off, rs, g_len);
		else if (!span_ok(data, ds, m + p_off, rs))
			vh_fail("rdata-outside-rr", "rc=0 data at +%ld len %u, rr at %zu size %zu",
			    (long)((uint8_t *)data - m), (unsigned)ds, p_off, rs);
		else if (NULL != name && 0 != q_namecap && nl >= q_namecap)
			vh_fail("name-outside-buffer", "rc=0 name_len=%zu name_buf_size=%zu", nl, q_namecap);
		else
			vh_nontrivial();
	}
	memset(&o, 0, sizeof(o)); o.rc = rc; o.rs = (0 == rc) ? rs : 0; o.ds = (0 == rc) ? ds : 0;
	vh_outcome(&o, sizeof(o));
	if (NULL != name)
		xfree(name, q_namecap);
	xfree(m, g_len);
}

static void
cb_get_data(void) {
	static const size_t caps[] = { (size_t)-1, 1, 2, 256 };
	size_t offs[16];
	int no = 0, i, j, c;

	offs[no ++] = 0; offs[no ++] = 11;
	for (i = 0; i <= rec_cnt; i ++)
		if ((size_t)rec_off[i] < g_len)
			offs[no ++] = (size_t)rec_off[i];
	if (g_len > 12)
		offs[no ++] = g_len - 1;
	offs[no ++] = g_len; offs[no ++] = g_len + 1;
	for (i = 0; i < no; i ++) {
		for (j = 0; j < i; j ++)
			if (offs[j] == offs[i])
				break;
		if (j < i)
			continue;
		for (c = 0; c < 4; c ++) {
			if (!BEGIN(walk_target))
				continue;
			p_off = offs[i]; q_namecap = caps[c]; p_cap = caps[c];
			c13_case(walk_case);
		}
	}
}

/* ---- dns_msg_rr_find */
static size_t f_count;
static int f_name;

static void
case_rr_find(void) {
	uint8_t *m = xdup(g_msg, g_len);
	size_t off = p_off, cnt = f_count, rs = 0;
	uint16_t t = 0, c = 0, ds = 0;
	uint32_t ttl = 0;
	void *data = NULL;
	int rc;
	struct { int rc; size_t off, cnt, rs; } o;

	rc = dns_msg_rr_find((dns_hdr_p)m, g_len, &off, &cnt, (const uint8_t *)"a", f_name ? 1 : 0, &t, &c, &ttl, &ds, &data, &rs);
	if (0 == rc) {
		if (off + rs > g_len)
			vh_fail("rr-outside-message", "rc=0 offset_ret=%zu rr_size=%zu received=%zu", off, rs, g_len);
		else if (!span_ok(data, ds, m + off, rs))
			vh_fail("rdata-outside-rr", "rc=0 data at +%ld len %u, rr at %zu size %zu",
			    (long)((uint8_t *)data - m), (unsigned)ds, off, rs);
		else
			vh_nontrivial();
	}
	memset(&o, 0, sizeof(o)); o.rc = rc; o.off = off; o.cnt = cnt; o.rs = (0 == rc) ? rs : 0;
	vh_outcome(&o, sizeof(o));
	xfree(m, g_len);
}

static void
cb_rr_find(void) {
	static const size_t cnts[] = { 0, 1, 2, 3, 70000 };
	size_t offs[4];
	int no = 0, i, c, nm;

	offs[no ++] = 12;
	if (rec_cnt >= 2 && (size_t)rec_off[1] <= g_len)
		offs[no ++] = (size_t)rec_off[1];
	if (g_len != 12)
		offs[no ++] = g_len;
	offs[no ++] = g_len + 1;
	for (i = 0; i < no; i ++) for (c = 0; c < 5; c ++) for (nm = 0; nm < 2; nm ++) {
		if (!BEGIN("dns_msg_rr_find"))
			continue;
		p_off = offs[i]; f_count = cnts[c]; f_name = nm; p_a = (long)cnts[c]; p_b = nm;
		c13_case(case_rr_find);
	}
}

static void
grp_info_get(void) {
	walk_target = "dns_msg_info_get"; walk_case = case_info_get;
	gen_dns_struct(2, NNAME, NKIND, cb_walk_counts);
	if (vh_thorough)
		gen_dns_struct(3, 4, 4, cb_walk_counts);
	gen_dns_raw(vh_thorough ? 4 : 3, cb_walk_counts);
}
static void
grp_validate(void) {
	walk_target = "dns_msg_validate"; walk_case = case_validate;
	gen_dns_struct(2, NNAME, NKIND, cb_walk_counts);
	if (vh_thorough)
		gen_dns_struct(3, 4, 4, cb_walk_counts);
	gen_dns_raw(vh_thorough ? 4 : 3, cb_walk_counts);
}
static void
cb_get_data_raw(void) { rec_cnt = 0; rec_off[0] = 12; cb_get_data(); }
static void
grp_question_get(void) {
	walk_target = "dns_msg_question_get_data"; walk_case = case_question_get;
	gen_dns_struct(2, NNAME, NKIND, cb_get_data);
	gen_dns_raw(vh_thorough ? 5 : 4, cb_get_data_raw);
}
static void
grp_rr_get(void) {
	walk_target = "dns_msg_rr_get_data"; walk_case = case_rr_get;
	gen_dns_struct(2, NNAME, NKIND, cb_get_data);
	gen_dns_raw(vh_thorough ? 5 : 4, cb_get_data_raw);
}
static void
grp_rr_find(void) {
	gen_dns_struct(2, NNAME, NKIND, cb_rr_find);
	if (vh_thorough)
		gen_dns_struct(3, 4, 4, cb_rr_find);
}

/* ================================================================ truncated headers (sizes 0..11) */
static int th_fn;
static void
case_trunc_hdr(void) {
	uint8_t *m = xdup(g_msg, g_len), name[8];
	size_t a = 0, b = 0, nl = sizeof(name);
	uint16_t t, c, ds; uint32_t ttl; void *d;

	switch (th_fn) {
	case 0: dns_msg_info_get((dns_hdr_p)m, g_len, &a, &a, &a, &a, &a, &a); break;
	case 1: dns_msg_validate((dns_hdr_p)m, g_len); break;
	case 2: dns_msg_sequence_of_labels_get_name_len((dns_hdr_p)m, g_len, p_off, &a); break;
	case 3: dns_msg_sequence_of_labels2name((dns_hdr_p)m, g_len, p_off, name, sizeof(name), &a); break;
	case 4: dns_msg_question_get_data((dns_hdr_p)m, g_len, p_off, name, &nl, &t, &c, &a); break;
	case 5: dns_msg_rr_get_data((dns_hdr_p)m, g_len, p_off, name, &nl, &t, &c, &ttl, &ds, &d, &a); break;
	default: a = p_off; b = 1; dns_msg_rr_find((dns_hdr_p)m, g_len, &a, &b, (const uint8_t *)"a", 1, &t, &c, &ttl, &ds, &d, &nl); break;
	}
	vh_nontrivial(); /* the call returned and ASan stayed quiet: that is all there is to see here */
	xfree(m, g_len);
}
static void
grp_trunc_hdr(void) {
	/* own target names: a target must live in exactly one group (its case index is per process) */
	static const char *tn[] = { "dns_msg_info_get/truncated-header", "dns_msg_validate/truncated-header",
	    "dns_msg_sequence_of_labels_get_name_len/truncated-header", "dns_msg_sequence_of_labels2name/truncated-header",
	    "dns_msg_question_get_data/truncated-header", "dns_msg_rr_get_data/truncated-header",
	    "dns_msg_rr_find/truncated-header" };
	static const size_t offs[] = { 0, 1, 12 };
	size_t s;
	int qd, i;

	memcpy(g_msg, dns_hdr0, 12);
	for (th_fn = 0; th_fn < 7; th_fn ++) for (s = 0; s < 12; s ++) for (qd = 0; qd < 4; qd ++) for (i = 0; i < 4; i ++) {
		if (!BEGIN(tn[th_fn]))
			continue;
		set_counts(qd, qd, qd & 1, qd & 1);
		g_len = s;
		p_off = (3 == i) ? s : offs[i];
		p_tag = "truncated-header";
		c13_case(case_trunc_hdr);
		p_tag = "";
	}
}

int
main(int argc, char **argv) {
	c13_init(argc, argv);
	raw_n = vh_thorough ? 6 : 5;
	c13_group("dns_trunc_hdr", grp_trunc_hdr, "dns_msg_info_get/truncated-header,dns_msg_validate/truncated-header,dns_msg_sequence_of_labels_get_name_len/truncated-header,dns_msg_sequence_of_labels2name/truncated-header,dns_msg_question_get_data/truncated-header,dns_msg_rr_get_data/truncated-header,dns_msg_rr_find/truncated-header");
	c13_group("dns_get_name_len", grp_get_name_len, "dns_msg_sequence_of_labels_get_name_len");
	c13_group("dns_labels2name", grp_labels2name, "dns_msg_sequence_of_labels2name");
	c13_group("dns_sol_get_size", grp_sol_get_size, "SequenceOfLabelsGetSize");
	c13_group("dns_sol_to_name", grp_sol_to_name, "SequenceOfLabelsToDomainName");
	c13_group("dns_info_get", grp_info_get, "dns_msg_info_get");
	c13_group("dns_validate", grp_validate, "dns_msg_validate");
	c13_group("dns_question_get", grp_question_get, "dns_msg_question_get_data");
	c13_group("dns_rr_get", grp_rr_get, "dns_msg_rr_get_data");
	c13_group("dns_rr_find", grp_rr_find, "dns_msg_rr_find");
	return (vh_finish());
}
