/* Stand-alone reproducer (no harness).  Build and run:
 *   gcc -g -w -fsanitize=address -D_GNU_SOURCE -DLINUX -D__USE_GNU=1 -DHAVE_ACCEPT4 -DHAVE_EXPLICIT_BZERO -DHAVE_MEMMEM -DHAVE_MEMRCHR -DHAVE_PIPE2 -DHAVE_REALLOCARRAY -DHAVE_SOCK_CLOEXEC -DHAVE_SOCK_NONBLOCK -DHAVE_STRNCASECMP \
 *       -I/repo/include -I/repo/src http_hdr_val_remove.c /repo/src/proto/http.c -o /tmp/http_hdr_val_remove && /tmp/http_hdr_val_remove
 * Expected on the defective tree: AddressSanitizer report / "BUG" line, non-zero exit.  On a fixed tree: prints OK, exit 0. */
#include <errno.h>
#include <stdio.h>
#include <stdlib.h>
#include <string.h>
#include <stdint.h>
#include "proto/http.h"

/* http_hdr_val_remove looks at the byte behind every occurrence of the name (':' == val[name_size])
 * without checking that this byte is inside the header: a header block that ends with the name
 * makes it read one byte past the buffer. */
int
main(void) {
	uint8_t *h = malloc(3), *lc = malloc(3);
	size_t ns = 0, n;

	setvbuf(stdout, NULL, _IONBF, 0);
	memcpy(h, "b:a", 3); memcpy(lc, "b:a", 3);
	n = http_hdr_val_remove(h, lc, 3, &ns, (const uint8_t *)"a", 1);
	printf("removed %zu, new size %zu\n", n, ns);
	free(h); free(lc);
	printf("OK\n");
	return (0);
}
