/* Stand-alone reproducer (no harness).  Build and run:
 *   gcc -g -w -fsanitize=address -D_GNU_SOURCE -DLINUX -D__USE_GNU=1 -DHAVE_ACCEPT4 -DHAVE_EXPLICIT_BZERO -DHAVE_MEMMEM -DHAVE_MEMRCHR -DHAVE_PIPE2 -DHAVE_REALLOCARRAY -DHAVE_SOCK_CLOEXEC -DHAVE_SOCK_NONBLOCK -DHAVE_STRNCASECMP \
 *       -I/repo/include -I/repo/src mpeg2ts_is_valid.c -o /tmp/mpeg2ts_is_valid && /tmp/mpeg2ts_is_valid
 * Expected on the defective tree: AddressSanitizer report / "BUG" line, non-zero exit.  On a fixed tree: prints OK, exit 0. */
#include <errno.h>
#include <stdio.h>
#include <stdlib.h>
#include <string.h>
#include <stdint.h>
#include <arpa/inet.h>
#include "utils/macro.h"
#include "utils/mem_utils.h"
#include "proto/mpeg2ts.h"

/* mpeg2_ts_pkt_is_valid allows an adaptation field that fills the packet (len <= pkt_size - 5 without
 * payload, <= pkt_size - 6 with payload) and then, for the PSI PIDs (0, 1, 2, 0x11, 0x12), reads the
 * 2 byte table header behind it - i.e. behind the packet.  PID 0, adaptation field only, length 183
 * in a 188 byte packet. */
int
main(void) {
	uint8_t *p = malloc(188);
	int ok;

	setvbuf(stdout, NULL, _IONBF, 0);
	memset(p, 0xff, 188);
	p[0] = 0x47; p[1] = 0x00; p[2] = 0x00; p[3] = 0x20; p[4] = 183;
	ok = mpeg2_ts_pkt_is_valid((const mpeg2_ts_hdr_t *)p, 188);
	printf("valid=%d\n", ok);
	free(p);
	printf("OK\n");
	return (0);
}
