/* Stand-alone reproducer (no harness).  Build and run:
 *   gcc -g -w -fsanitize=address -D_GNU_SOURCE -DLINUX -D__USE_GNU=1 -DHAVE_ACCEPT4 -DHAVE_EXPLICIT_BZERO -DHAVE_MEMMEM -DHAVE_MEMRCHR -DHAVE_PIPE2 -DHAVE_REALLOCARRAY -DHAVE_SOCK_CLOEXEC -DHAVE_SOCK_NONBLOCK -DHAVE_STRNCASECMP \
 *       -I/repo/include -I/repo/src radius_pkt_chk_short.c -o /tmp/radius_pkt_chk_short && /tmp/radius_pkt_chk_short
 * Expected on the defective tree: AddressSanitizer report / "BUG" line, non-zero exit.  On a fixed tree: prints OK, exit 0. */
#include <errno.h>
#include <stdio.h>
#include <stdlib.h>
#include <string.h>
#include <stdint.h>
#include "proto/radius.h"

/* radius_pkt_chk(pkt, pkt_size) reads pkt->len (bytes 2..3) before it has looked at pkt_size:
 * a 2 byte datagram makes it read 2 bytes behind the received data (radius_client.c calls it with
 * buf->used without a minimum size test). */
int
main(void) {
	uint8_t *p = malloc(2);
	int rc;

	setvbuf(stdout, NULL, _IONBF, 0);
	p[0] = 2; p[1] = 7;
	rc = radius_pkt_chk((rad_pkt_hdr_p)p, 2);
	printf("radius_pkt_chk(2 bytes): rc=%d\n", rc);
	free(p);
	printf("OK\n");
	return (0);
}
