/* Stand-alone reproducer (no harness).  Build and run:
 *   gcc -g -w -fsanitize=address -D_GNU_SOURCE -DLINUX -D__USE_GNU=1 -DHAVE_ACCEPT4 -DHAVE_EXPLICIT_BZERO -DHAVE_MEMMEM -DHAVE_MEMRCHR -DHAVE_PIPE2 -DHAVE_REALLOCARRAY -DHAVE_SOCK_CLOEXEC -DHAVE_SOCK_NONBLOCK -DHAVE_STRNCASECMP \
 *       -I/repo/include -I/repo/src dns_sol_to_name.c -o /tmp/dns_sol_to_name && /tmp/dns_sol_to_name
 * Expected on the defective tree: AddressSanitizer report / "BUG" line, non-zero exit.  On a fixed tree: prints OK, exit 0. */
#include <errno.h>
#include <stdio.h>
#include <stdlib.h>
#include <string.h>
#include <stdint.h>
#include "proto/dns.h"

/* SequenceOfLabelsToDomainName: "if (0 != (cur_pos - buf)) name --;" is always true because cur_pos
 * has already been advanced, so for the root name (a single 00 byte) the terminating NUL is written
 * at name[-1]: one byte BEFORE the caller's buffer. */
int
main(void) {
	uint8_t *b = malloc(1), *name = malloc(4);
	size_t nl = 0;
	int rc;

	setvbuf(stdout, NULL, _IONBF, 0);
	b[0] = 0;
	rc = SequenceOfLabelsToDomainName(b, 1, name, 4, &nl);
	printf("root name: rc=%d\n", rc);
	free(b); free(name);

	/* no terminator: {01 'a' 01 'b'} into the smallest accepted name buffer (buf_size - 1 = 3 bytes):
	 * "a.b." = 4 bytes are written, then the label byte behind the buffer is read. */
	b = malloc(4); b[0] = 1; b[1] = 'a'; b[2] = 1; b[3] = 'b';
	name = malloc(3);
	rc = SequenceOfLabelsToDomainName(b, 4, name, 3, &nl);
	printf("unterminated: rc=%d\n", rc);
	free(b); free(name);
	printf("OK\n");
	return (0);
}
