/* Stand-alone reproducer (no harness).  Build and run:
 *   gcc -g -w -fsanitize=address -D_GNU_SOURCE -DLINUX -D__USE_GNU=1 -DHAVE_ACCEPT4 -DHAVE_EXPLICIT_BZERO -DHAVE_MEMMEM -DHAVE_MEMRCHR -DHAVE_PIPE2 -DHAVE_REALLOCARRAY -DHAVE_SOCK_CLOEXEC -DHAVE_SOCK_NONBLOCK -DHAVE_STRNCASECMP \
 *       -I/repo/include -I/repo/src sdp_type_get.c -o /tmp/sdp_type_get && /tmp/sdp_type_get
 * Expected on the defective tree: AddressSanitizer report / "BUG" line, non-zero exit.  On a fixed tree: prints OK, exit 0. */
#include <errno.h>
#include <stdio.h>
#include <stdlib.h>
#include <string.h>
#include <stdint.h>
#include "proto/sdp.h"

/* sdp_msg_type_get: after every CRLF it reads val[0] and val[1] without checking the end of the
 * message.  Every SDP body that ends with CRLF (all of them) triggers it as soon as a type is looked
 * up that is not there - which sdp_msg_type_get_count / sdp_msg_sec_chk always do at the end of their
 * loop.  sap_rcvr.c runs this on every received SAP datagram. */
int
main(void) {
	static const char sdp[] = "v=0\r\no=a\r\ns=a\r\nt=0\r\nc=a\r\nm=a\r\n";
	size_t n = sizeof(sdp) - 1;
	uint8_t *p = malloc(n);
	int rc;

	setvbuf(stdout, NULL, _IONBF, 0);
	memcpy(p, sdp, n);
	rc = sdp_msg_sec_chk(p, n);
	printf("sdp_msg_sec_chk: rc=%d\n", rc);
	free(p);
	printf("OK\n");
	return (0);
}
