/* Stand-alone reproducer (no harness).  Build and run:
 *   gcc -g -w -fsanitize=address -D_GNU_SOURCE -DLINUX -D__USE_GNU=1 -DHAVE_ACCEPT4 -DHAVE_EXPLICIT_BZERO -DHAVE_MEMMEM -DHAVE_MEMRCHR -DHAVE_PIPE2 -DHAVE_REALLOCARRAY -DHAVE_SOCK_CLOEXEC -DHAVE_SOCK_NONBLOCK -DHAVE_STRNCASECMP \
 *       -I/repo/include -I/repo/src http_chunked_wrap.c /repo/src/proto/http.c -o /tmp/http_chunked_wrap && /tmp/http_chunked_wrap
 * Expected on the defective tree: AddressSanitizer report / "BUG" line, non-zero exit.  On a fixed tree: prints OK, exit 0. */
#include <errno.h>
#include <stdio.h>
#include <stdlib.h>
#include <string.h>
#include <stdint.h>
#include "proto/http.h"

/* http_data_decode_chunked adds the chunk size to the cursor without a bound test:
 * cur_pos = end_line + 2 + tm wraps around for tm close to 2^64, passes "cur_pos > max_pos", and the
 * decoder returns SUCCESS with data_ret_size = 0xfffffffffffffffe for an 18 byte body.  (With a
 * second chunk the same wrap ends in memmove() with a huge size.) */
int
main(void) {
	static const char body[] = "fffffffffffffffe\r\n";
	uint8_t *p = malloc(18), *d = NULL;
	size_t ds = 0;
	int rc;

	setvbuf(stdout, NULL, _IONBF, 0);
	memcpy(p, body, 18);
	rc = http_data_decode_chunked(p, 18, &d, &ds);
	printf("rc=%d data_ret_size=%zu (buffer has 18 bytes)\n", rc, ds);
	if (0 == rc && ds > 18) {
		printf("BUG: success with a data size larger than the buffer\n");
		free(p);
		return (1);
	}
	free(p);
	printf("OK\n");
	return (0);
}
