/* Stand-alone reproducer (no harness).  Build and run:
 *   gcc -g -w -fsanitize=address -D_GNU_SOURCE -DLINUX -D__USE_GNU=1 -DHAVE_ACCEPT4 -DHAVE_EXPLICIT_BZERO -DHAVE_MEMMEM -DHAVE_MEMRCHR -DHAVE_PIPE2 -DHAVE_REALLOCARRAY -DHAVE_SOCK_CLOEXEC -DHAVE_SOCK_NONBLOCK -DHAVE_STRNCASECMP \
 *       -I/repo/include -I/repo/src dns_rr_get_data.c -o /tmp/dns_rr_get_data && /tmp/dns_rr_get_data
 * Expected on the defective tree: AddressSanitizer report / "BUG" line, non-zero exit.  On a fixed tree: prints OK, exit 0. */
#include <errno.h>
#include <stdio.h>
#include <stdlib.h>
#include <string.h>
#include <stdint.h>
#include "proto/dns.h"

/* dns_msg_rr_get_data reads dns_rr->rdlength (bytes name+8, name+9 of the record) BEFORE it checks
 * that the fixed part of the record is inside the message.  Reached from dns_msg_info_get /
 * dns_msg_validate (the first thing dns_resolv.c does with a received datagram): a 13 byte reply
 * with ANCOUNT=1 and a root name makes it read message bytes 21 and 22. */
int
main(void) {
	static const uint8_t msg[13] = { 0x12, 0x34, 0x81, 0x80, 0, 0, 0, 1, 0, 0, 0, 0, 0x00 };
	uint8_t *p = malloc(sizeof(msg));
	int rc;

	setvbuf(stdout, NULL, _IONBF, 0);
	memcpy(p, msg, sizeof(msg));
	rc = dns_msg_validate((dns_hdr_p)p, sizeof(msg));
	printf("dns_msg_validate: rc=%d\n", rc);
	free(p);
	printf("OK\n");
	return (0);
}
