/* Stand-alone reproducer (no harness).  Build and run:
 *   gcc -g -w -fsanitize=address -D_GNU_SOURCE -DLINUX -D__USE_GNU=1 -DHAVE_ACCEPT4 -DHAVE_EXPLICIT_BZERO -DHAVE_MEMMEM -DHAVE_MEMRCHR -DHAVE_PIPE2 -DHAVE_REALLOCARRAY -DHAVE_SOCK_CLOEXEC -DHAVE_SOCK_NONBLOCK -DHAVE_STRNCASECMP \
 *       -I/repo/include -I/repo/src http_skip_spwsp.c /repo/src/proto/http.c -o /tmp/http_skip_spwsp && /tmp/http_skip_spwsp
 * Expected on the defective tree: AddressSanitizer report / "BUG" line, non-zero exit.  On a fixed tree: prints OK, exit 0. */
#include <errno.h>
#include <stdio.h>
#include <stdlib.h>
#include <string.h>
#include <stdint.h>
#include "proto/http.h"

/* skip_spwsp / skip_spwsp2 test "33 > (*buf)" BEFORE "buf < buf_max": when the text ends in white
 * space (or is empty) the byte behind it is read.  Reached with received bytes through
 * http_parse_req_line ("GET <spaces>" at the end of the buffer) and http_hdr_val_get_ex
 * (a header "name:" that ends the buffer). */
int
main(void) {
	const uint8_t *r = NULL, *v = NULL;
	size_t s = 0, vs = 0, on = 0;
	http_req_line_data_t d;
	uint8_t *p;
	int rc;

	setvbuf(stdout, NULL, _IONBF, 0);
	p = malloc(2); memcpy(p, "  ", 2);
	rc = skip_spwsp(p, 2, &r, &s);
	printf("skip_spwsp(\"  \"): rc=%d\n", rc);
	rc = skip_spwsp2(p, 2, &r, &s);
	printf("skip_spwsp2(\"  \"): rc=%d\n", rc);
	free(p);

	p = malloc(11); memcpy(p, "GET /a?b \t ", 11);
	rc = http_parse_req_line(p, 11, &d);
	printf("http_parse_req_line(\"GET /a?b \\t \"): rc=%d\n", rc);
	free(p);

	p = malloc(4); memcpy(p, "\r\na:", 4);
	rc = http_hdr_val_get_ex(p, 4, (const uint8_t *)"a", 1, 0, &v, &vs, &on);
	printf("http_hdr_val_get_ex(\"\\r\\na:\"): rc=%d\n", rc);
	free(p);
	printf("OK\n");
	return (0);
}
