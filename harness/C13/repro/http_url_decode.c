/* Stand-alone reproducer (no harness).  Build and run:
 *   gcc -g -w -fsanitize=address -D_GNU_SOURCE -DLINUX -D__USE_GNU=1 -DHAVE_ACCEPT4 -DHAVE_EXPLICIT_BZERO -DHAVE_MEMMEM -DHAVE_MEMRCHR -DHAVE_PIPE2 -DHAVE_REALLOCARRAY -DHAVE_SOCK_CLOEXEC -DHAVE_SOCK_NONBLOCK -DHAVE_STRNCASECMP \
 *       -I/repo/include -I/repo/src http_url_decode.c /repo/src/proto/http.c -o /tmp/http_url_decode && /tmp/http_url_decode
 * Expected on the defective tree: AddressSanitizer report / "BUG" line, non-zero exit.  On a fixed tree: prints OK, exit 0. */
#include <errno.h>
#include <stdio.h>
#include <stdlib.h>
#include <string.h>
#include <stdint.h>
#include "proto/http.h"

/* http_url_decode converts the two bytes behind every '%' without checking that they are inside the
 * url: "%" at the end (or "%4") reads 2 (1) bytes past the received text. */
int
main(void) {
	uint8_t *u = malloc(2), out[8];
	size_t n;

	setvbuf(stdout, NULL, _IONBF, 0);
	memcpy(u, "a%", 2);
	n = http_url_decode(u, 2, out, sizeof(out));
	printf("decoded %zu bytes\n", n);
	free(u);
	printf("OK\n");
	return (0);
}
