/* Stand-alone reproducer (no harness).  Build and run:
 *   gcc -g -w -fsanitize=address -D_GNU_SOURCE -DLINUX -D__USE_GNU=1 -DHAVE_ACCEPT4 -DHAVE_EXPLICIT_BZERO -DHAVE_MEMMEM -DHAVE_MEMRCHR -DHAVE_PIPE2 -DHAVE_REALLOCARRAY -DHAVE_SOCK_CLOEXEC -DHAVE_SOCK_NONBLOCK -DHAVE_STRNCASECMP \
 *       -I/repo/include -I/repo/src dns_sol_get_size.c -o /tmp/dns_sol_get_size && /tmp/dns_sol_get_size
 * Expected on the defective tree: AddressSanitizer report / "BUG" line, non-zero exit.  On a fixed tree: prints OK, exit 0. */
#include <errno.h>
#include <stdio.h>
#include <stdlib.h>
#include <string.h>
#include <stdint.h>
#include "proto/dns.h"

/* SequenceOfLabelsGetSize: (1) reads the next label byte without checking it is inside the buffer,
 * (2) for a compression pointer returns a size that includes the 2nd pointer byte although that byte
 * is not in the buffer: size > buf_size with rc == 0.  dns_resolv.c (SOA parsing) subtracts the result
 * from a uint16_t rr_data_size, which then wraps to 65535. */
int
main(void) {
	uint8_t *b;
	size_t sz = 0;
	int rc, bad = 0;

	setvbuf(stdout, NULL, _IONBF, 0);
	b = malloc(1); b[0] = 0xC0;				/* pointer cut in half */
	rc = SequenceOfLabelsGetSize(b, 1, &sz);
	printf("{C0} buf_size=1: rc=%d size=%zu\n", rc, sz);
	if (0 == rc && sz > 1) { printf("BUG: returned size %zu > buf_size 1\n", sz); bad = 1; }
	free(b);

	b = malloc(2); b[0] = 1; b[1] = 'a';			/* label fills the buffer, no terminator */
	rc = SequenceOfLabelsGetSize(b, 2, &sz);		/* reads b[2] */
	printf("{01 'a'} buf_size=2: rc=%d\n", rc);
	free(b);
	if (!bad) printf("OK\n");
	return (bad);
}
