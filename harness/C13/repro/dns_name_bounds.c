/* Stand-alone reproducer (no harness).  Build and run:
 *   gcc -g -w -fsanitize=address -D_GNU_SOURCE -DLINUX -D__USE_GNU=1 -DHAVE_ACCEPT4 -DHAVE_EXPLICIT_BZERO -DHAVE_MEMMEM -DHAVE_MEMRCHR -DHAVE_PIPE2 -DHAVE_REALLOCARRAY -DHAVE_SOCK_CLOEXEC -DHAVE_SOCK_NONBLOCK -DHAVE_STRNCASECMP \
 *       -I/repo/include -I/repo/src dns_name_bounds.c -o /tmp/dns_name_bounds && /tmp/dns_name_bounds
 * Expected on the defective tree: AddressSanitizer report / "BUG" line, non-zero exit.  On a fixed tree: prints OK, exit 0. */
#include <errno.h>
#include <stdio.h>
#include <stdlib.h>
#include <string.h>
#include <stdint.h>
#include "proto/dns.h"

/* DESIGN section 11 #15: dns_msg_sequence_of_labels_get_name_len / dns_msg_sequence_of_labels2name
 * bound the walk with max_pos = cur_pos + msg_size (start of the NAME + size of the MESSAGE) instead
 * of hdr + msg_size, accept offset == msg_size and a compression pointer whose 2nd byte / whose
 * target is not inside the message.  Every buffer is an exact-size heap copy. */
static uint8_t *xdup(const uint8_t *s, size_t n) { uint8_t *p = malloc(n); memcpy(p, s, n); return (p); }

int
main(void) {
	static const uint8_t hdr[12] = { 0x12, 0x34, 0x81, 0x80 };
	uint8_t m[32], name[64], *p;
	size_t nl = 0;
	int rc;

	setvbuf(stdout, NULL, _IONBF, 0);
	/* (a) offset == msg_size (what dns_resolv.c passes for a CNAME RR with rdlength 0 at the end of
	 *     the message): reads hdr[12] of a 12 byte message. */
	memcpy(m, hdr, 12);
	p = xdup(m, 12);
	rc = dns_msg_sequence_of_labels_get_name_len((dns_hdr_p)p, 12, 12, &nl);
	printf("(a) offset == msg_size: rc=%d\n", rc);
	free(p);

	/* (b) the message ends in the first byte of a compression pointer: memcpy of 2 bytes reads 1 past. */
	m[12] = 0xC0;
	p = xdup(m, 13);
	rc = dns_msg_sequence_of_labels2name((dns_hdr_p)p, 13, 12, name, sizeof(name), &nl);
	printf("(b) pointer cut in half: rc=%d\n", rc);
	free(p);

	/* (c) wrong base: a label of length 13 at offset 14 in a 16 byte message.  cur_pos + 13 = hdr + 28
	 *     is compared with max_pos = hdr + 14 + 16 = hdr + 30, passes, and 13 bytes from hdr+15 (12 of
	 *     them outside the message) are copied into the name. */
	m[12] = 0x00; m[13] = 0x00; m[14] = 13; m[15] = 'x';
	p = xdup(m, 16);
	rc = dns_msg_sequence_of_labels2name((dns_hdr_p)p, 16, 14, name, sizeof(name), &nl);
	printf("(c) label past the end accepted because of the wrong base: rc=%d\n", rc);
	free(p);
	printf("OK\n");
	return (0);
}
