/* Stand-alone reproducer (no harness).  Build and run:
 *   gcc -g -w -fsanitize=address -D_GNU_SOURCE -DLINUX -D__USE_GNU=1 -DHAVE_ACCEPT4 -DHAVE_EXPLICIT_BZERO -DHAVE_MEMMEM -DHAVE_MEMRCHR -DHAVE_PIPE2 -DHAVE_REALLOCARRAY -DHAVE_SOCK_CLOEXEC -DHAVE_SOCK_NONBLOCK -DHAVE_STRNCASECMP \
 *       -I/repo/include -I/repo/src radius_attr_at_end.c -o /tmp/radius_attr_at_end && /tmp/radius_attr_at_end
 * Expected on the defective tree: AddressSanitizer report / "BUG" line, non-zero exit.  On a fixed tree: prints OK, exit 0. */
#include <errno.h>
#include <stdio.h>
#include <stdlib.h>
#include <string.h>
#include <stdint.h>
#include "proto/radius.h"

/* radius_pkt_attr_get_from_offset accepts offset == pkt->len and then reads attr->len there, i.e. the
 * byte behind the packet.  radius_pkt_attr_get_data_to_buf (count = 0: "all", as http_server_auth.c
 * calls it) continues with offset = last attribute + its length = pkt->len whenever the last attribute
 * of the packet has the wanted type.  The packet below is accepted by radius_pkt_chk(). */
int
main(void) {
	static const uint8_t pkt[23] = { 2, 7, 0, 23,  1,2,3,4,5,6,7,8,9,10,11,12,13,14,15,16,  1, 3, 'a' };
	uint8_t *p = malloc(sizeof(pkt)), out[16], *data = NULL;
	size_t n = 0, len = 0;
	int rc, bad = 0;

	setvbuf(stdout, NULL, _IONBF, 0);
	memcpy(p, pkt, sizeof(pkt));
	rc = radius_pkt_chk((rad_pkt_hdr_p)p, sizeof(pkt));
	printf("radius_pkt_chk: rc=%d (0 = accepted)\n", rc);
	rc = radius_pkt_attr_get_data_to_buf((rad_pkt_hdr_p)p, 0, 0, 1 /* User-Name */, out, sizeof(out), &n);
	printf("get_data_to_buf: rc=%d bytes=%zu\n", rc, n);
	/* the same through the public getter: whatever byte sits behind the packet is taken as attr->len;
	 * if it is 0 the call "succeeds" with len = (size_t)-2 */
	rc = radius_pkt_attr_get_data_ptr((rad_pkt_hdr_p)p, sizeof(pkt), NULL, &data, &len);
	printf("get_data_ptr(offset == pkt->len): rc=%d len=%zu\n", rc, len);
	if (0 == rc) { printf("BUG: an attribute was returned at the end of the packet\n"); bad = 1; }
	free(p);
	if (!bad) printf("OK\n");
	return (bad);
}
