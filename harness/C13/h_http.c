/* C13 / HTTP - src/proto/http.c scanners and in-place decoders on hostile text.
 * All of them take the size of the received text, so all of them are called on everything
 * (including size 0 where the function does not itself refuse it). */
#include "c13.h"
#include "proto/http.h"

/* prefix + every string over sym[0..nsym) of length nmin..nmax */
static void
gen_text(const char *prefix, size_t plen, const uint8_t *sym, int nsym, int nmin, int nmax, void (*cb)(void)) {
	int idx[16], n, i;

	memcpy(g_msg, prefix, plen);
	for (n = nmin; n <= nmax; n ++) {
		memset(idx, 0, sizeof(idx));
		do {
			for (i = 0; i < n; i ++)
				g_msg[plen + i] = sym[idx[i]];
			g_len = plen + (size_t)n;
			cb();
		} while (odo_next(idx, n, nsym));
	}
}

/* ================================================================ skip_spwsp / skip_spwsp2 */
static const uint8_t SYM_SP[] = { ' ', '\t', '\r', '\n', 0x00, '!', 'a' };
static int sk_which;

static void
case_skip(void) {
	uint8_t *b = xdup(g_msg, g_len);
	const uint8_t *r = NULL;
	size_t s = 0;
	int rc, want_r = (int)(p_a & 1), want_s = (int)(p_a & 2);
	struct { int rc; long ro; size_t s; } o;

	if (sk_which)
		rc = skip_spwsp2(b, g_len, want_r ? &r : NULL, want_s ? &s : NULL);
	else
		rc = skip_spwsp(b, g_len, want_r ? &r : NULL, want_s ? &s : NULL);
	memset(&o, 0, sizeof(o)); o.rc = rc;
	if (0 == rc) {
		if (want_r && !span_ok(r, want_s ? s : 0, b, g_len))
			vh_fail("result-outside-text", "rc=0 ret at %+ld size_ret=%zu, text size %zu", (long)(r - b), s, g_len);
		else if (!want_r && want_s && s > g_len)
			vh_fail("result-outside-text", "rc=0 size_ret=%zu > text size %zu", s, g_len);
		else
			vh_nontrivial();
		o.ro = want_r ? (long)(r - b) : -1; o.s = s;
	}
	vh_outcome(&o, sizeof(o));
	xfree(b, g_len);
}
static void
cb_skip(void) {
	for (p_a = 0; p_a < 4; p_a ++) {
		if (!BEGIN(sk_which ? "skip_spwsp2" : "skip_spwsp"))
			continue;
		c13_case(case_skip);
	}
}
static void grp_skip1(void) { sk_which = 0; gen_text("", 0, SYM_SP, 7, 0, vh_thorough ? 7 : 6, cb_skip); }
static void grp_skip2(void) { sk_which = 1; gen_text("", 0, SYM_SP, 7, 0, vh_thorough ? 7 : 6, cb_skip); }

/* ================================================================ wsp2sp */
static const uint8_t SYM_WSP[] = { '\r', '\n', ' ', '\t', 'a' };

static void
case_wsp2sp(void) {
	uint8_t *b = xdup(g_msg, g_len), *out;
	size_t rs = (size_t)-1;
	int rc;

	out = p_a ? xalloc(g_len) : b;
	rc = wsp2sp(b, g_len, out, &rs);
	if (0 == rc) {
		if (rs > g_len)
			vh_fail("result-outside-buffer", "rc=0 size_ret=%zu > size %zu", rs, g_len);
		else
			vh_nontrivial();
		vh_outcome(out, rs <= g_len ? rs : 0);
	}
	if (p_a)
		xfree(out, g_len);
	xfree(b, g_len);
}
static void
cb_wsp2sp(void) {
	for (p_a = 0; p_a < 2; p_a ++) { /* 0: in place, 1: separate output of the same size */
		if (!BEGIN("wsp2sp"))
			continue;
		c13_case(case_wsp2sp);
	}
}
static void grp_wsp2sp(void) { gen_text("", 0, SYM_WSP, 5, 0, vh_thorough ? 8 : 7, cb_wsp2sp); }

/* ================================================================ http_parse_req_line */
static void
case_req_line(void) {
	uint8_t *b = xdup(g_msg, g_len);
	http_req_line_data_t d;
	int rc;
	struct { int rc; size_t v[12]; } o;

	memset(&d, 0x5a, sizeof(d));
	rc = http_parse_req_line(b, g_len, &d);
	memset(&o, 0, sizeof(o)); o.rc = rc;
	if (0 == rc) {
		if (d.line_size > g_len)
			vh_fail("line-outside-text", "rc=0 line_size=%zu > size %zu", d.line_size, g_len);
		else if (d.method != b || d.method_size > d.line_size)
			vh_fail("method-outside-line", "rc=0 method at %+ld size %zu", (long)(d.method - b), d.method_size);
		else if (!span_ok(d.uri, d.uri_size, b, d.line_size))
			vh_fail("uri-outside-line", "rc=0 uri at %+ld size %zu line_size %zu", (long)(d.uri - b), d.uri_size, d.line_size);
		else if (NULL != d.scheme && !span_ok(d.scheme, d.scheme_size, d.uri, d.uri_size))
			vh_fail("scheme-outside-uri", "rc=0 scheme at %+ld size %zu", (long)(d.scheme - b), d.scheme_size);
		else if (NULL != d.host && !span_ok(d.host, d.host_size, d.uri, d.uri_size))
			vh_fail("host-outside-uri", "rc=0 host at %+ld size %zu uri at %+ld size %zu",
			    (long)(d.host - b), d.host_size, (long)(d.uri - b), d.uri_size);
		else if (NULL != d.abs_path && !span_ok(d.abs_path, d.abs_path_size, d.uri, d.uri_size))
			vh_fail("path-outside-uri", "rc=0 abs_path at %+ld size %zu uri at %+ld size %zu",
			    (long)(d.abs_path - b), d.abs_path_size, (long)(d.uri - b), d.uri_size);
		else if (NULL != d.query && !span_ok(d.query, d.query_size, d.uri, d.uri_size))
			vh_fail("query-outside-uri", "rc=0 query at %+ld size %zu uri at %+ld size %zu",
			    (long)(d.query - b), d.query_size, (long)(d.uri - b), d.uri_size);
		else
			vh_nontrivial();
		o.v[0] = d.line_size; o.v[1] = d.method_size; o.v[2] = (size_t)(d.uri - b); o.v[3] = d.uri_size;
		o.v[4] = d.host ? (size_t)(d.host - b) : 0; o.v[5] = d.host_size;
		o.v[6] = d.abs_path ? (size_t)(d.abs_path - b) : 0; o.v[7] = d.abs_path_size;
		o.v[8] = d.query ? (size_t)(d.query - b) : 0; o.v[9] = d.query_size; o.v[10] = d.proto_ver; o.v[11] = d.method_code;
	}
	vh_outcome(&o, sizeof(o));
	xfree(b, g_len);
}
static void
cb_req_line(void) {
	if (!BEGIN("http_parse_req_line"))
		return;
	c13_case(case_req_line);
}

static void
gen_req_struct(void (*cb)(void)) {
	static const char *M[] = { "GET", "CONNECT", "X", "get", "M-SEARCH", "" };
	static const char *S[] = { " ", "  ", "\t", " \t " };
	static const char *U[] = { "/", "*", "//", "/a/", "/a?b", "?", "http://h", "http://h/", "http://h/a?b=c",
	    "://", "a://", "http://h//", "/////", "/a//", "h:80", "http:///?" };
	static const char *V[] = { "HTTP/1.1", "HTTP/1.", "HTTP/1.1x", "HTTX/1.1", "HTTP/a.1", "" };
	static const char *E[] = { "", "\r\n", "\r", "\r\nHost: x\r\n\r\n", " " };
	int m, s1, u, s2, v, e;
	size_t total, s;
	char line[128];

	for (m = 0; m < 6; m ++) for (s1 = 0; s1 < 4; s1 ++) for (u = 0; u < 16; u ++)
	for (s2 = 0; s2 < 4; s2 ++) for (v = 0; v < 6; v ++) for (e = 0; e < 5; e ++) {
		total = (size_t)snprintf(line, sizeof(line), "%s%s%s%s%s%s", M[m], S[s1], U[u], S[s2], V[v], E[e]);
		memcpy(g_msg, line, total);
		for (s = 0; s <= total; s ++) {
			g_len = s;
			cb();
		}
	}
}
static const uint8_t SYM_REQ[] = { 'G', ' ', '/', '?', ':', 'H', '1', '.', '\r', '\n', '\t', 'a' };
static void
grp_req_line(void) {
	static const char *P[] = { "GET ", "GET /", "GET / ", "GET / HTTP/1.", "GET http://", "CONNECT ", "GET / HTTP/" };
	int i, n = vh_thorough ? 6 : 5;

	gen_req_struct(cb_req_line);
	for (i = 0; i < 7; i ++)
		gen_text(P[i], strlen(P[i]), SYM_REQ, 12, 0, n, cb_req_line);
}

/* ================================================================ http_parse_resp_line */
static void
case_resp_line(void) {
	uint8_t *b = xdup(g_msg, g_len);
	http_resp_line_data_t d;
	int rc;
	struct { int rc; size_t a, b, c; uint32_t s, v; } o;

	memset(&d, 0x5a, sizeof(d));
	rc = http_parse_resp_line(b, g_len, &d);
	memset(&o, 0, sizeof(o)); o.rc = rc;
	if (0 == rc) {
		if (d.line_size > g_len)
			vh_fail("line-outside-text", "rc=0 line_size=%zu > size %zu", d.line_size, g_len);
		else if (!span_ok(d.reason_phrase, d.reason_phrase_size, b, d.line_size))
			vh_fail("reason-outside-line", "rc=0 reason at %+ld size %zu line_size %zu",
			    (long)(d.reason_phrase - b), d.reason_phrase_size, d.line_size);
		else
			vh_nontrivial();
		o.a = d.line_size; o.b = (size_t)(d.reason_phrase - b); o.c = d.reason_phrase_size; o.s = d.status_code; o.v = d.proto_ver;
	}
	vh_outcome(&o, sizeof(o));
	xfree(b, g_len);
}
static void
cb_resp_line(void) {
	if (!BEGIN("http_parse_resp_line"))
		return;
	c13_case(case_resp_line);
}
static const uint8_t SYM_RESP[] = { 'O', 'K', ' ', '\r', '\n', 'a', '2' };
static void
grp_resp_line(void) {
	static const char base[] = "HTTP/1.1 200 ";
	static const char repl[] = { 'x', ' ', '9', '\r' };
	static const char *R[] = { "", "OK", "Not Found", "O\rK" };
	static const char *E[] = { "", "\r\n", "\r", "\r\nA: b\r\n\r\n" };
	int pos, r, rs, e;
	size_t total, s;
	char line[96];

	for (pos = -1; pos < 13; pos ++) for (r = 0; r < (pos < 0 ? 1 : 4); r ++) for (rs = 0; rs < 4; rs ++) for (e = 0; e < 4; e ++) {
		total = (size_t)snprintf(line, sizeof(line), "%s%s%s", base, R[rs], E[e]);
		if (pos >= 0)
			line[pos] = repl[r];
		memcpy(g_msg, line, total);
		for (s = 0; s <= total; s ++) {
			g_len = s;
			cb_resp_line();
		}
	}
	gen_text(base, 13, SYM_RESP, 7, 0, vh_thorough ? 7 : 6, cb_resp_line);
	gen_text("HTTP/1.1 20", 11, SYM_RESP, 7, 0, vh_thorough ? 6 : 5, cb_resp_line);
}

/* ================================================================ header block scanners */
static const uint8_t SYM_HDR[] = { '\r', '\n', ':', ' ', '\t', 'a', 'b' };
static const char *HNAMES[] = { "a", "ab", "" };

static void
case_hdr_get_ex(void) {
	uint8_t *b = xdup(g_msg, g_len);
	const uint8_t *v = NULL;
	size_t vs = 0, on = (size_t)-1;
	const char *nm = HNAMES[p_a];
	int rc;
	struct { int rc; long vo; size_t vs, on; } o;

	rc = http_hdr_val_get_ex(b, g_len, (const uint8_t *)nm, strlen(nm), p_off, &v, &vs, &on);
	memset(&o, 0, sizeof(o)); o.rc = rc;
	if (0 == rc) {
		if (!span_ok(v, vs, b, g_len))
			vh_fail("value-outside-text", "rc=0 value at %+ld size %zu, text size %zu", (long)(v - b), vs, g_len);
		else if (on > g_len)
			vh_fail("offset-outside-text", "rc=0 offset_next=%zu > size %zu", on, g_len);
		else
			vh_nontrivial();
		o.vo = (long)(v - b); o.vs = vs; o.on = on;
	}
	vh_outcome(&o, sizeof(o));
	xfree(b, g_len);
}
static void
cb_hdr_get_ex(void) {
	size_t offs[5];
	int no = 0, i, j;

	offs[no ++] = 0; offs[no ++] = 1;
	if (g_len > 0)
		offs[no ++] = g_len - 1;
	offs[no ++] = g_len; offs[no ++] = g_len + 1;
	for (p_a = 0; p_a < 3; p_a ++) for (i = 0; i < no; i ++) {
		for (j = 0; j < i; j ++)
			if (offs[j] == offs[i])
				break;
		if (j < i)
			continue;
		if (!BEGIN("http_hdr_val_get_ex"))
			continue;
		p_off = offs[i];
		c13_case(case_hdr_get_ex);
	}
}

static void
case_hdr_get_count(void) {
	uint8_t *b = xdup(g_msg, g_len);
	const char *nm = HNAMES[p_a];
	size_t cnt;

	cnt = http_hdr_val_get_count(b, g_len, (const uint8_t *)nm, strlen(nm));
	if (cnt > 0)
		vh_nontrivial();
	vh_outcome(&cnt, sizeof(cnt));
	xfree(b, g_len);
}
static void
cb_hdr_get_count(void) {
	for (p_a = 0; p_a < 3; p_a ++) {
		if (!BEGIN("http_hdr_val_get_count"))
			continue;
		p_off = 0;
		c13_case(case_hdr_get_count);
	}
}

static void
case_hdr_remove(void) {
	uint8_t *h = xdup(g_msg, g_len), *lc = xdup(g_msg, g_len); /* the alphabet is lower case already */
	const char *nm = HNAMES[p_a];
	size_t ns = (size_t)-1, cnt;

	cnt = http_hdr_val_remove(h, lc, g_len, &ns, (const uint8_t *)nm, strlen(nm));
	if (g_len > 0 && ns > g_len)
		vh_fail("size-grew", "new size %zu > old size %zu", ns, g_len);
	else if (cnt > 0)
		vh_nontrivial();
	vh_outcome(h, (ns <= g_len) ? ns : 0);
	xfree(lc, g_len);
	xfree(h, g_len);
}
static void
cb_hdr_remove(void) {
	for (p_a = 0; p_a < 2; p_a ++) {
		if (!BEGIN("http_hdr_val_remove"))
			continue;
		p_off = 0;
		c13_case(case_hdr_remove);
	}
}

static void
hdr_inputs(void (*cb)(void)) {
	int n = vh_thorough ? 7 : 6;

	gen_text("", 0, SYM_HDR, 7, 0, n, cb);
	gen_text("G\r\n", 3, SYM_HDR, 7, 0, n - 1, cb);
	gen_text("G\r\na: b\r\nab:", 12, SYM_HDR, 7, 0, n - 2, cb);
}
static void grp_hdr_get_ex(void) { hdr_inputs(cb_hdr_get_ex); }
static void grp_hdr_get_count(void) { hdr_inputs(cb_hdr_get_count); }
static void grp_hdr_remove(void) { hdr_inputs(cb_hdr_remove); }

/* ================================================================ query string */
static const uint8_t SYM_Q[] = { '&', '=', 'a', 'b', 'A' };

static void
case_query_get(void) {
	uint8_t *b = xdup(g_msg, g_len);
	const uint8_t *nr = NULL, *v = NULL;
	size_t vs = 0;
	const char *nm = HNAMES[p_a];
	int rc;
	struct { int rc; long no, vo; size_t vs; } o;

	rc = http_query_val_get_ex(b, g_len, (const uint8_t *)nm, strlen(nm), &nr, &v, &vs);
	memset(&o, 0, sizeof(o)); o.rc = rc;
	if (0 == rc) {
		if (!span_ok(nr, strlen(nm), b, g_len))
			vh_fail("name-outside-text", "rc=0 name at %+ld, text size %zu", (long)(nr - b), g_len);
		else if (!span_ok(v, vs, b, g_len))
			vh_fail("value-outside-text", "rc=0 value at %+ld size %zu, text size %zu", (long)(v - b), vs, g_len);
		else
			vh_nontrivial();
		o.no = (long)(nr - b); o.vo = (long)(v - b); o.vs = vs;
	}
	vh_outcome(&o, sizeof(o));
	xfree(b, g_len);
}
static void
cb_query_get(void) {
	for (p_a = 0; p_a < 3; p_a ++) {
		if (!BEGIN("http_query_val_get_ex"))
			continue;
		c13_case(case_query_get);
	}
}
static void
case_query_del(void) {
	uint8_t *b = xdup(g_msg, g_len);
	const char *nm = HNAMES[p_a];
	size_t ns = (size_t)-1, cnt;

	cnt = http_query_val_del(b, g_len, (const uint8_t *)nm, strlen(nm), &ns);
	if (ns > g_len)
		vh_fail("size-grew", "new size %zu > old size %zu", ns, g_len);
	else if (cnt > 0)
		vh_nontrivial();
	vh_outcome(b, (ns <= g_len) ? ns : 0);
	xfree(b, g_len);
}
static void
cb_query_del(void) {
	for (p_a = 0; p_a < 3; p_a ++) {
		if (!BEGIN("http_query_val_del"))
			continue;
		c13_case(case_query_del);
	}
}
static void grp_query_get(void) { gen_text("", 0, SYM_Q, 5, 0, vh_thorough ? 9 : 7, cb_query_get); }
static void grp_query_del(void) { gen_text("", 0, SYM_Q, 5, 0, vh_thorough ? 9 : 7, cb_query_del); }

/* ================================================================ http_data_decode_chunked */
static const uint8_t SYM_CH[] = { '0', '1', '2', 'a', 'f', '\r', '\n', 'x', ' ' };
static const uint8_t SYM_CH2[] = { 'f', 'e', '0', '\r', '\n', 'x' };

static void
case_chunked(void) {
	uint8_t *b = xdup(g_msg, g_len), *d = NULL;
	size_t ds = (size_t)-7;
	int rc;
	struct { int rc; long dof; size_t ds; } o;

	rc = http_data_decode_chunked(b, g_len, &d, &ds);
	memset(&o, 0, sizeof(o)); o.rc = rc;
	if (0 == rc) {
		if (ds > g_len)
			vh_fail("data-outside-buffer", "rc=0 data_ret_size=%zu > size %zu", ds, g_len);
		else if (ds > 0 && !span_ok(d, ds, b, g_len))
			vh_fail("data-outside-buffer", "rc=0 data at %+ld size %zu, buffer size %zu", (long)(d - b), ds, g_len);
		else if (ds > 0)
			vh_nontrivial();
		o.dof = (ds > 0) ? (long)(d - b) : 0; o.ds = ds;
	}
	vh_outcome(&o, sizeof(o));
	xfree(b, g_len);
}
static void
cb_chunked(void) {
	if (!BEGIN("http_data_decode_chunked"))
		return;
	c13_case(case_chunked);
}
static void
grp_chunked(void) {
	gen_text("", 0, SYM_CH, 9, 0, vh_thorough ? 7 : 6, cb_chunked);
	gen_text("1\r\nx\r\n", 6, SYM_CH, 9, 0, vh_thorough ? 6 : 5, cb_chunked);
	gen_text("2\r\nxx", 5, SYM_CH, 9, 0, vh_thorough ? 6 : 5, cb_chunked);
	/* chunk sizes near 2^64: the 16 digit numbers whose sum with the cursor wraps */
	gen_text("ffffffffffffff", 14, SYM_CH2, 6, 0, vh_thorough ? 7 : 6, cb_chunked);
	gen_text("1\r\nx\r\nffffffffffffff", 20, SYM_CH2, 6, 0, vh_thorough ? 6 : 5, cb_chunked);
}

/* ================================================================ http_url_decode */
static const uint8_t SYM_URL[] = { '%', '+', 'a', '4', '1', 'g', 0x00 };

static void
case_url_decode(void) {
	uint8_t *b = xdup(g_msg, g_len), *out = xalloc(p_cap);
	size_t r;

	r = http_url_decode(b, g_len, out, p_cap);
	if (r > 0 || (g_len > 0 && p_cap > 0)) {
		if (r >= p_cap && p_cap > 0)
			vh_fail("output-outside-buffer", "returned %zu, buf_size %zu", r, p_cap);
		else if (r > 0)
			vh_nontrivial();
	}
	vh_outcome(out, (r < p_cap) ? r : 0);
	xfree(out, p_cap);
	xfree(b, g_len);
}
static void
cb_url_decode(void) {
	for (p_cap = 0; p_cap <= g_len + 1; p_cap ++) {
		if (!BEGIN("http_url_decode"))
			continue;
		c13_case(case_url_decode);
	}
}
static void grp_url_decode(void) { gen_text("", 0, SYM_URL, 7, 0, vh_thorough ? 7 : 6, cb_url_decode); }

int
main(int argc, char **argv) {
	c13_init(argc, argv);
	c13_group("http_skip_spwsp", grp_skip1, "skip_spwsp");
	c13_group("http_skip_spwsp2", grp_skip2, "skip_spwsp2");
	c13_group("http_wsp2sp", grp_wsp2sp, "wsp2sp");
	c13_group("http_req_line", grp_req_line, "http_parse_req_line");
	c13_group("http_resp_line", grp_resp_line, "http_parse_resp_line");
	c13_group("http_hdr_get_ex", grp_hdr_get_ex, "http_hdr_val_get_ex");
	c13_group("http_hdr_get_count", grp_hdr_get_count, "http_hdr_val_get_count");
	c13_group("http_hdr_remove", grp_hdr_remove, "http_hdr_val_remove");
	c13_group("http_query_get", grp_query_get, "http_query_val_get_ex");
	c13_group("http_query_del", grp_query_del, "http_query_val_del");
	c13_group("http_chunked", grp_chunked, "http_data_decode_chunked");
	c13_group("http_url_decode", grp_url_decode, "http_url_decode");
	return (vh_finish());
}
