/* C13 / RADIUS - include/proto/radius.h on hostile packets.
 *
 * radius_pkt_chk() takes the received size: it is called on everything.
 * radius_pkt_attr_chk() takes no size and is documented (by its only caller) to see an attribute
 * header that is present: it is called on every 2-byte (type, len) pair.
 * Everything else (get_from_offset, find_raw, get_data_ptr, get_data_to_buf, verify) trusts
 * pkt->len ("This cheks allready done in radius_pkt_chk()", "Call after radius_pkt_chk() !!!"):
 * it is called only on packets that radius_pkt_chk() accepted for the received size, with offset
 * 0, the attribute starts, and pkt->len (= last attribute start + its length, the value the
 * library's own get_data_to_buf loop continues with). */
#include "c13.h"
#include "proto/radius.h"

static const uint8_t CODES[] = { 1, 2, 4, 11, 12, 255 };
#define NCODES 6
static const uint8_t ATYPES[] = { 1, 2, 4, 26, 79, 80, 0, 255 };
static const uint8_t ALENS[] = { 0, 1, 2, 3, 6, 18, 34, 255 };
#define NAT 8
#define NAL 8

static int att_off[8];	/* attribute starts of the current packet as generated */
static int att_cnt;
static size_t full_len;	/* length of the generated packet before truncation */

static size_t
put_attr(uint8_t *p, int t, int l) {
	size_t d = ALENS[l], n, i;

	p[0] = ATYPES[t];
	p[1] = (uint8_t)d;
	n = (d >= 2) ? d - 2 : 0;
	if (n > 32)
		n = 16; /* declared 255: only 16 bytes are really there */
	for (i = 0; i < n; i ++)
		p[2 + i] = (uint8_t)((i % 4 == 2) ? 0 : ('a' + (i % 3)));
	return (2 + n);
}

/* bodies: up to kmax attributes out of nt types x nl lengths; cb is called with the full packet
 * in g_msg (code/len fields still to be set by cb) */
static void
gen_radius(int kmax, int nt, int nl, void (*cb)(void)) {
	int k, i, idx[4], nf = nt * nl;
	size_t pos;

	memset(g_msg, 0, 20);
	for (i = 0; i < 16; i ++)
		g_msg[4 + i] = (uint8_t)(0x10 + i);
	for (k = 0; k <= kmax; k ++) {
		memset(idx, 0, sizeof(idx));
		do {
			pos = 20;
			for (i = 0; i < k; i ++) {
				att_off[i] = (int)pos;
				pos += put_attr(g_msg + pos, idx[i] % nt, idx[i] / nt);
			}
			att_off[k] = (int)pos;
			att_cnt = k;
			full_len = pos;
			cb();
		} while (odo_next(idx, k, nf));
	}
}

/* raw attribute area over a small alphabet */
static const uint8_t RSYM[] = { 0x00, 0x01, 0x02, 0x03, 0x12, 0x50, 0x4F, 0xFF, 'a' };
#define NRSYM 9
static void
gen_radius_raw(int nmax, void (*cb)(void)) {
	int idx[8], n, i;

	memset(g_msg, 0, 20);
	for (i = 0; i < 16; i ++)
		g_msg[4 + i] = (uint8_t)(0x10 + i);
	for (n = 1; n <= nmax; n ++) {
		memset(idx, 0, sizeof(idx));
		do {
			for (i = 0; i < n; i ++)
				g_msg[20 + i] = RSYM[idx[i]];
			att_cnt = 0; att_off[0] = 20;
			full_len = 20 + (size_t)n;
			cb();
		} while (odo_next(idx, n, NRSYM));
	}
}

static size_t
lenfield(int i, size_t len) {
	switch (i) {
	case 0: return (0);
	case 1: return (19);
	case 2: return (20);
	case 3: return (21);
	case 4: return (len - 1);
	case 5: return (len);
	case 6: return (len + 1);
	case 7: return (4096);
	case 8: return (4097);
	default: return (65535);
	}
}
#define NLENF 10

static void
set_hdr(int code, size_t lf) {
	g_msg[0] = CODES[code];
	g_msg[1] = 7;
	g_msg[2] = (uint8_t)(lf >> 8);
	g_msg[3] = (uint8_t)lf;
}

/* ================================================================ radius_pkt_chk on everything */
static void
case_pkt_chk(void) {
	uint8_t *m = xdup(g_msg, g_len);
	int rc;

	rc = radius_pkt_chk((rad_pkt_hdr_p)m, g_len);
	if (0 == rc) {
		size_t l = ((size_t)m[2] << 8) | m[3];
		if (l > g_len || l < 20)
			vh_fail("accepted-length-outside-packet", "rc=0 pkt->len=%zu received=%zu", l, g_len);
		else
			vh_nontrivial();
	}
	vh_outcome(&rc, sizeof(rc));
	xfree(m, g_len);
}

static void
cb_pkt_chk(void) {
	int c, lf;
	size_t s;

	for (c = 0; c < NCODES; c ++) for (lf = 0; lf < NLENF; lf ++) for (s = 0; s <= full_len; s ++) {
		if (!BEGIN("radius_pkt_chk"))
			continue;
		set_hdr(c, lenfield(lf, full_len));
		g_len = s; p_a = CODES[c]; p_b = (long)lenfield(lf, full_len);
		c13_case(case_pkt_chk);
	}
}

static void
grp_pkt_chk(void) {
	gen_radius(2, NAT, NAL, cb_pkt_chk);
	if (vh_thorough)
		gen_radius(3, 4, 5, cb_pkt_chk); /* types 1,2,4,26 x lens 0,1,2,3,6 */
	gen_radius_raw(vh_thorough ? 5 : 4, cb_pkt_chk);
}

/* ================================================================ radius_pkt_attr_chk on every header */
static void
case_attr_chk(void) {
	uint8_t *m = xdup(g_msg, 2);
	int rc = radius_pkt_attr_chk((rad_pkt_attr_p)m);

	if (0 == rc) {
		if (m[1] < 2) /* shorter than its own header: a walker could not advance */
			vh_fail("accepted-bad-attr-header", "rc=0 type=%u len=%u", m[0], m[1]);
		else
			vh_nontrivial();
	}
	xfree(m, 2);
}
static void
grp_attr_chk(void) {
	int t, l;

	for (t = 0; t < 256; t ++) for (l = 0; l < 256; l ++) {
		if (!BEGIN("radius_pkt_attr_chk"))
			continue;
		g_msg[0] = (uint8_t)t; g_msg[1] = (uint8_t)l; g_len = 2;
		c13_case(case_attr_chk);
	}
}

/* ================================================================ accessors on accepted packets */
static int probe_rc;
static void probe_chk(void) { probe_rc = radius_pkt_chk((rad_pkt_hdr_p)g_msg, g_len); }

static size_t acc_offs[12];
static int acc_noffs;
static void (*acc_cb)(void);

/* For every (body, code, length field, truncation) that the library's validator accepts: collect
 * the offsets the library itself would produce and hand over to the accessor enumerator. */
static void
cb_accepted(void) {
	static const int lfs[] = { 2, 4, 5 };	/* 20, len-1, len: the others are never accepted or equal */
	int c, l, i;
	size_t s, plen;

	for (c = 0; c < NCODES - 1; c ++) for (l = 0; l < 3; l ++) for (s = full_len - 1; s <= full_len; s ++) {
		set_hdr(c, lenfield(lfs[l], full_len));
		g_len = s; p_a = CODES[c]; p_b = (long)lenfield(lfs[l], full_len);
		probe_rc = -1;
		if (0 == c13_probe(probe_chk, "radius_pkt_chk") || 0 != probe_rc)
			continue;
		plen = lenfield(lfs[l], full_len);
		acc_noffs = 0;
		acc_offs[acc_noffs ++] = 0;
		/* attribute starts: the walk the validator has just done (every len >= 2, sum == plen) */
		for (i = 20; (size_t)i < plen && acc_noffs < 10; i += g_msg[i + 1])
			acc_offs[acc_noffs ++] = (size_t)i;
		acc_offs[acc_noffs ++] = plen;
		acc_cb();
	}
}

/* ---- radius_pkt_attr_get_from_offset */
static void
case_get_from_offset(void) {
	uint8_t *m = xdup(g_msg, g_len);
	size_t plen = ((size_t)m[2] << 8) | m[3];
	rad_pkt_attr_p attr = NULL;
	int rc;

	rc = radius_pkt_attr_get_from_offset((rad_pkt_hdr_p)m, p_off, &attr);
	if (0 == rc) {
		if (!span_ok(attr, 0, m + 20, plen - 20))
			vh_fail("attr-outside-packet", "rc=0 attr at +%ld, pkt->len=%zu", (long)((uint8_t *)attr - m), plen);
		else
			vh_nontrivial();
	}
	vh_outcome(&rc, sizeof(rc));
	xfree(m, g_len);
}
static void
enum_get_from_offset(void) {
	int i;

	for (i = 1; i < acc_noffs; i ++) {
		if (!BEGIN("radius_pkt_attr_get_from_offset"))
			continue;
		p_off = acc_offs[i];
		c13_case(case_get_from_offset);
	}
}

/* ---- radius_pkt_attr_find_raw */
static void
case_find_raw(void) {
	uint8_t *m = xdup(g_msg, g_len);
	size_t plen = ((size_t)m[2] << 8) | m[3], off = 0;
	rad_pkt_attr_p attr = NULL;
	int rc;
	struct { int rc; size_t off; } o;

	rc = radius_pkt_attr_find_raw((rad_pkt_hdr_p)m, p_off, (uint8_t)p_c, &attr, &off);
	if (0 == rc) {
		if (!span_ok(attr, 2, m + 20, plen - 20) || !span_ok(attr, attr->len, m + 20, plen - 20))
			vh_fail("attr-outside-packet", "rc=0 attr at +%ld, pkt->len=%zu", (long)((uint8_t *)attr - m), plen);
		else if (off < 20 || off + 2 > plen)
			vh_fail("offset-outside-packet", "rc=0 offset_ret=%zu pkt->len=%zu", off, plen);
		else
			vh_nontrivial();
	}
	memset(&o, 0, sizeof(o)); o.rc = rc; o.off = (0 == rc) ? off : 0;
	vh_outcome(&o, sizeof(o));
	xfree(m, g_len);
}
static void
enum_find_raw(void) {
	static const uint8_t types[] = { 1, 2, 80, 99 };
	int i, t;

	for (i = 0; i < acc_noffs; i ++) for (t = 0; t < 4; t ++) {
		if (!BEGIN("radius_pkt_attr_find_raw"))
			continue;
		p_off = acc_offs[i]; p_c = types[t];
		c13_case(case_find_raw);
	}
}

/* ---- radius_pkt_attr_get_data_ptr */
static void
case_get_data_ptr(void) {
	uint8_t *m = xdup(g_msg, g_len), type = 0, *data = NULL;
	size_t plen = ((size_t)m[2] << 8) | m[3], len = 0;
	int rc;
	struct { int rc; size_t len; } o;

	rc = radius_pkt_attr_get_data_ptr((rad_pkt_hdr_p)m, p_off, &type, &data, &len);
	if (0 == rc) {
		if (!span_ok(data, len, m + 20, plen - 20))
			vh_fail("data-outside-packet", "rc=0 data at +%ld len=%zu, pkt->len=%zu", (long)(data - m), len, plen);
		else
			vh_nontrivial();
	}
	memset(&o, 0, sizeof(o)); o.rc = rc; o.len = (0 == rc) ? len : 0;
	vh_outcome(&o, sizeof(o));
	xfree(m, g_len);
}
static void
enum_get_data_ptr(void) {
	int i;

	for (i = 1; i < acc_noffs; i ++) {
		if (!BEGIN("radius_pkt_attr_get_data_ptr"))
			continue;
		p_off = acc_offs[i];
		c13_case(case_get_data_ptr);
	}
}

/* ---- radius_pkt_attr_get_data_to_buf: every capacity 0 .. need + 1 */
static size_t tb_need;
static void
probe_to_buf(void) {
	uint8_t tmp[1024];

	tb_need = 0;
	radius_pkt_attr_get_data_to_buf((rad_pkt_hdr_p)g_msg, p_off, (size_t)p_b, (uint8_t)p_c, tmp, sizeof(tmp), &tb_need);
}
static void
case_to_buf(void) {
	uint8_t *m = xdup(g_msg, g_len), *out = xalloc(p_cap);
	size_t ret = 0;
	int rc;
	struct { int rc; size_t ret; } o;

	rc = radius_pkt_attr_get_data_to_buf((rad_pkt_hdr_p)m, p_off, (size_t)p_b, (uint8_t)p_c, out, p_cap, &ret);
	if (ret > p_cap)
		vh_fail("output-outside-buffer", "rc=%d buf_size_ret=%zu buf_size=%zu", rc, ret, p_cap);
	else if (0 == rc && ret > 0)
		vh_nontrivial();
	memset(&o, 0, sizeof(o)); o.rc = rc; o.ret = ret;
	vh_outcome(&o, sizeof(o));
	xfree(out, p_cap);
	xfree(m, g_len);
}
static void
enum_to_buf(void) {
	static const uint8_t types[] = { 1, 2, 80 };
	int i, t, cnt;
	size_t cap, need;
	long sa = p_a, sb = p_b;

	for (i = 0; i < acc_noffs - 1; i ++) for (t = 0; t < 3; t ++) for (cnt = 0; cnt < 3; cnt ++) {
		p_off = acc_offs[i]; p_b = cnt; p_c = types[t];
		if (0 == c13_probe(probe_to_buf, "radius_pkt_attr_get_data_to_buf"))
			tb_need = 0;
		need = tb_need;
		for (cap = 0; cap <= need + 1; cap ++) {
			if (!BEGIN("radius_pkt_attr_get_data_to_buf"))
				continue;
			p_off = acc_offs[i]; p_b = cnt; p_c = types[t]; p_cap = cap;
			c13_case(case_to_buf);
		}
	}
	p_a = sa; p_b = sb;
}

/* ---- radius_pkt_verify (Message-Authenticator check, authenticator check, password decode in place) */
static void
case_verify(void) {
	uint8_t *m = xdup(g_msg, g_len), *req, key[6] = { 's', 'e', 'c', 'r', 'e', 't' };
	uint8_t reqb[20] = { 1, 7, 0, 20, 1, 2, 3, 4, 5, 6, 7, 8, 9, 10, 11, 12, 13, 14, 15, 16 };
	int rc;

	req = xdup(reqb, 20);
	rc = radius_pkt_verify((rad_pkt_hdr_p)m, key, p_c ? sizeof(key) : 0, p_off ? (rad_pkt_hdr_p)req : NULL);
	vh_nontrivial(); /* reached only for packets the validator accepted */
	vh_outcome(&rc, sizeof(rc));
	xfree(req, 20);
	xfree(m, g_len);
}
static void
enum_verify(void) {
	int k, r;

	for (k = 0; k < 2; k ++) for (r = 0; r < 2; r ++) {
		if (!BEGIN("radius_pkt_verify"))
			continue;
		p_c = k; p_off = (size_t)r; /* c: key present, off: request packet present */
		c13_case(case_verify);
	}
}

static void
accepted_all(void (*e)(void)) {
	acc_cb = e;
	gen_radius(2, NAT, NAL, cb_accepted);
	if (vh_thorough)
		gen_radius(3, 6, 5, cb_accepted); /* types 1,2,4,26,79,80 x lens {0,1,2,3,6}: 3 short attributes */
	gen_radius_raw(vh_thorough ? 5 : 4, cb_accepted);
}
static void grp_get_from_offset(void) { accepted_all(enum_get_from_offset); }
static void grp_find_raw(void) { accepted_all(enum_find_raw); }
static void grp_get_data_ptr(void) { accepted_all(enum_get_data_ptr); }
static void grp_to_buf(void) { accepted_all(enum_to_buf); }
static void grp_verify(void) { accepted_all(enum_verify); }

int
main(int argc, char **argv) {
	c13_init(argc, argv);
	c13_group("radius_pkt_chk", grp_pkt_chk, "radius_pkt_chk");
	c13_group("radius_attr_chk", grp_attr_chk, "radius_pkt_attr_chk");
	c13_group("radius_get_from_offset", grp_get_from_offset, "radius_pkt_attr_get_from_offset");
	c13_group("radius_find_raw", grp_find_raw, "radius_pkt_attr_find_raw");
	c13_group("radius_get_data_ptr", grp_get_data_ptr, "radius_pkt_attr_get_data_ptr");
	c13_group("radius_to_buf", grp_to_buf, "radius_pkt_attr_get_data_to_buf");
	c13_group("radius_verify", grp_verify, "radius_pkt_verify");
	return (vh_finish());
}
