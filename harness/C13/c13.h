/*
 * c13.h - helpers shared by the C13 harnesses (network parsers on hostile packets).
 *
 *  - exact-size heap copies, also for size 0 (one poisoned byte), so that the ASan
 *    redzone starts right behind the last received byte;
 *  - span oracle (returned pointer/length inside the message);
 *  - per-call CPU-time watchdog: a call that does not return within > 1 s of CPU time
 *    is abandoned with siglongjmp and reported as clause "no-termination";
 *  - one forked child per target group: a crash (an out-of-bounds read that runs into an
 *    unmapped page kills the process even in recover mode) or a flood of ASan reports in one
 *    target costs only that group; the other groups of the shard still run.  The global case
 *    counter of vh.h is carried from child to parent so that sharding / --skip-until stay
 *    consistent.  (Written when vh.h still ran with suppress_equal_pcs=1, where a fresh
 *    process per target was also needed to keep one target's report from hiding another's.)
 */
#ifndef C13_H
#define C13_H

#include <errno.h>
#include <setjmp.h>
#include <signal.h>
#include <sys/time.h>
#include <sys/wait.h>
#include <sys/prctl.h>
#include "vh.h"

/* ------------------------------------------------------------------ memory */
static inline uint8_t *
xdup(const void *src, size_t len) {
	uint8_t *p;

	if (0 == len) {
		p = (uint8_t *)malloc(1);
		p[0] = 0xA5;
		VH_POISON(p, 1);
		return (p);
	}
	p = (uint8_t *)malloc(len);
	memcpy(p, src, len);
	return (p);
}

static inline uint8_t *
xalloc(size_t cap) { /* output buffer of exactly cap bytes */
	uint8_t *p;

	if (0 == cap) {
		p = (uint8_t *)malloc(1);
		p[0] = 0xA5;
		VH_POISON(p, 1);
		return (p);
	}
	p = (uint8_t *)malloc(cap);
	memset(p, 0x7e, cap);
	return (p);
}

static inline void
xfree(void *p, size_t len) {
	if (0 == len)
		VH_UNPOISON(p, 1);
	free(p);
}

/* [p, p+len) inside [buf, buf+size] ? */
static inline int
span_ok(const void *p, size_t len, const void *buf, size_t size) {
	uintptr_t a = (uintptr_t)p, b = (uintptr_t)buf;

	return (a >= b && a <= b + size && len <= (b + size) - a);
}

/* ------------------------------------------------------------------ case description */
#define C13_MSG_MAX 1024
static uint8_t	g_msg[C13_MSG_MAX];	/* master copy of the current message */
static size_t	g_len;			/* its (possibly truncated) size */
static const char *p_tag = "";		/* extra text */
static size_t	p_off, p_cap;
static long	p_a, p_b, p_c;

static void
c13_describe(char *b, size_t n) {
	char hx[420];

	vh_hex(hx, sizeof(hx), g_msg, g_len > 200 ? 200 : g_len);
	snprintf(b, n, "in=%s%s size=%zu off=%zu cap=%zu a=%ld b=%ld c=%ld %s",
	    hx, g_len > 200 ? "..." : "", g_len, p_off, p_cap, p_a, p_b, p_c, p_tag);
}

/* ------------------------------------------------------------------ watchdog */
static sigjmp_buf c13_jb;
static volatile sig_atomic_t c13_in_case = 0;
static volatile uint64_t c13_tick_seen = 0;
static volatile int c13_ticks_same = 0;
static int c13_hangs = 0;
static int c13_abandon = 0;	/* after 3 hangs: keep counting cases, stop running them */

static void
c13_alarm(int sig) {
	(void)sig;
	if (0 == c13_in_case) {
		c13_ticks_same = 0;
		c13_tick_seen = 0;
		return;
	}
	if (c13_tick_seen == vh_global) {
		if (++ c13_ticks_same >= 2) {
			c13_ticks_same = 0;
			siglongjmp(c13_jb, 1);
		}
	} else {
		c13_tick_seen = vh_global;
		c13_ticks_same = 0;
	}
}

/* An out-of-bounds read that runs into an unmapped page (the chunk was the last one the
 * allocator had mapped) is a real SIGSEGV even in ASan's recover mode.  It is recorded as a
 * violation of the current case and the enumeration goes on. */
static void
c13_segv(int sig) {
	if (0 != c13_in_case)
		siglongjmp(c13_jb, 2);
	signal(sig, SIG_DFL);
	raise(sig);
}

static void
c13_watchdog_start(void) {
	struct sigaction sa;
	struct itimerval it;

	memset(&sa, 0, sizeof(sa));
	sa.sa_handler = c13_segv;
	sa.sa_flags = SA_NODEFER | SA_ONSTACK;
	sigaction(SIGSEGV, &sa, NULL);
	sigaction(SIGBUS, &sa, NULL);
	memset(&sa, 0, sizeof(sa));
	sa.sa_handler = c13_alarm;
	sa.sa_flags = SA_NODEFER;
	sigaction(SIGVTALRM, &sa, NULL);
	it.it_interval.tv_sec = 0;
	it.it_interval.tv_usec = 500000;
	it.it_value = it.it_interval;
	setitimer(ITIMER_VIRTUAL, &it, NULL);
}

static void
c13_hang_seen(void) {
	vh_fail("no-termination", "the call did not return within 1 s of CPU time");
	if (++ c13_hangs >= 3 && 0 == c13_abandon) {
		c13_abandon = 1;
		printf("NOTE\tcut\tgroup abandoned after 3 non-terminating calls (cases still counted, not run)\n");
	}
}

/* Run one case body under the watchdog. */
static inline void
c13_case(void (*fn)(void)) {
	int r = sigsetjmp(c13_jb, 0);

	if (0 == r) {
		c13_tick_seen = 0;
		c13_in_case = 1;
		fn();
		c13_in_case = 0;
	} else if (2 == r) {
		c13_in_case = 0;
		vh_fail("crash:SIGSEGV", "the call died with SIGSEGV/SIGBUS (access to an unmapped page)");
	} else {
		c13_in_case = 0;
		c13_hang_seen();
	}
}

/* Run the library's own validator outside of a counted case (to decide, identically in every
 * shard, whether a packet is "accepted").  Returns 0 when the call hung or crashed: that is the
 * validator's defect and is reported with a proper case index by the validator's own group;
 * here the rest of this group is only counted (NOTE cut). */
static inline int
c13_probe(void (*fn)(void), const char *target) {
	int r;

	if (c13_abandon)
		return (0);
	r = sigsetjmp(c13_jb, 0);
	if (0 == r) {
		c13_tick_seen = 0;
		c13_in_case = 1;
		fn();
		c13_in_case = 0;
		return (1);
	}
	c13_in_case = 0;
	c13_abandon = 1;
	printf("NOTE\tcut\tprobe call of %s %s: rest of the group counted, not run\n", target,
	    (2 == r) ? "crashed" : "did not terminate");
	return (0);
}

#define BEGIN(t)	(vh_begin(t) && 0 == c13_abandon)

/* ------------------------------------------------------------------ ASan reports */
/* Same clause naming as vh_asan_report_cb(), but the cap is per group (child process) and does
 * not end the process: after C13_REPORT_CAP reports the remaining cases of this group are only
 * counted (numbering stays identical in all shards), the run is marked not exhaustive ("cut"),
 * and the other groups of the shard still run. */
#define C13_REPORT_CAP 400
static uint64_t c13_reports = 0;

static void
c13_asan_cb(const char *report) {
	char kind[64] = "unknown", rw[8] = "", clause[96];
	const char *p;
	size_t i;

	p = strstr(report, "AddressSanitizer: ");
	if (NULL != p) {
		p += 18;
		for (i = 0; i + 1 < sizeof(kind) && p[i] != 0 && p[i] != ' ' &&
		    p[i] != '\n' && p[i] != ':'; i ++) {
			kind[i] = p[i];
		}
		kind[i] = 0;
	}
	if (NULL != strstr(report, "\nWRITE of size") || NULL != strstr(report, " WRITE of size"))
		strcpy(rw, "WRITE");
	else if (NULL != strstr(report, "READ of size"))
		strcpy(rw, "READ");
	/* What ASan calls an access behind an exact-size heap copy depends on what happens to lie
	 * there (redzone: heap-buffer-overflow, a quarantined chunk: heap-use-after-free, the rest of a
	 * partially addressable granule: unknown-crash, our poisoned byte of a 0-size message:
	 * use-after-poison).  It is the same event - an access outside the message - and must carry the
	 * same clause in the sharded run and in the single-case replay, so these four are folded. */
	if (0 == strcmp(kind, "heap-use-after-free") || 0 == strcmp(kind, "unknown-crash") ||
	    0 == strcmp(kind, "use-after-poison"))
		strcpy(kind, "heap-buffer-overflow");
	snprintf(clause, sizeof(clause), "asan:%s:%s", kind, rw);
	vh_fail(clause, "AddressSanitizer report");
	if (++ c13_reports > C13_REPORT_CAP && 0 == c13_abandon) {
		c13_abandon = 1;
		printf("NOTE\tcut\tmore than %d AddressSanitizer reports in one group of one shard: rest of the group counted, not run\n",
		    C13_REPORT_CAP);
	}
}

/* ------------------------------------------------------------------ groups */
static const char *c13_group_filter = NULL;

static void
c13_finish_child(void) { /* vh_finish() without DONE */
	int i;

	for (i = 0; i < vh_ntargets; i ++) {
		printf("STAT\t%s\tcases\t%llu\n", vh_targets[i].name, (unsigned long long)vh_targets[i].cases);
		printf("STAT\t%s\trun\t%llu\n", vh_targets[i].name, (unsigned long long)vh_targets[i].run);
		printf("STAT\t%s\tnontrivial\t%llu\n", vh_targets[i].name, (unsigned long long)vh_targets[i].nontrivial);
		printf("STAT\t%s\tfails\t%llu\n", vh_targets[i].name, (unsigned long long)vh_targets[i].fails);
		printf("STAT\t%s\toutcomes\t%llu\n", vh_targets[i].name, (unsigned long long)vh_targets[i].outcomes);
	}
	for (i = 0; i < vh_nclauses; i ++) {
		printf("CLAUSE\t%s\t%s\t%llu\n", vh_targets[vh_clauses[i].target].name,
		    vh_clauses[i].clause, (unsigned long long)vh_clauses[i].count);
	}
	fflush(stdout);
}

/* targets: comma separated list of the target names this group produces (used only to skip the
 * group when a single case is replayed with --only target#index). */
static void
c13_group(const char *name, void (*fn)(void), const char *targets) {
	int pfd[2], st = 0;
	pid_t pid;
	uint64_t g = 0;
	ssize_t n;

	if (NULL != c13_group_filter && 0 != strcmp(c13_group_filter, name))
		return;
	if (NULL != vh_only_target && NULL != targets) {
		const char *q = targets;
		size_t l = strlen(vh_only_target);
		int found = 0;
		while (NULL != (q = strstr(q, vh_only_target))) {
			if ((q == targets || ',' == q[-1]) && (0 == q[l] || ',' == q[l])) {
				found = 1;
				break;
			}
			q ++;
		}
		if (0 == found)
			return;
	}
	fflush(stdout);
	if (0 != pipe(pfd))
		_exit(72);
	pid = fork();
	if (pid < 0)
		_exit(72);
	if (0 == pid) {
		close(pfd[0]);
		prctl(PR_SET_PDEATHSIG, SIGKILL);
		vh_set_describer(c13_describe);
#ifdef VH_HAS_ASAN
		__asan_set_error_report_callback(c13_asan_cb);
#endif
		c13_watchdog_start();
		fn();
		c13_in_case = 0;
		c13_finish_child();
		g = vh_global;
		if (8 != write(pfd[1], &g, 8))
			_exit(73);
		_exit(0);
	}
	close(pfd[1]);
	n = read(pfd[0], &g, 8);
	close(pfd[0]);
	while (waitpid(pid, &st, 0) < 0 && EINTR == errno)
		;
	if (8 != n || !WIFEXITED(st) || 0 != WEXITSTATUS(st)) {
		/* The child died inside a case: die too (no DONE) so that the driver attributes the
		 * crash through the progress page and resumes behind that case. */
		fflush(stdout);
		_exit(71);
	}
	vh_global = g;
}

static void
c13_init(int argc, char **argv) {
	int i;

	for (i = 1; i + 1 < argc; i ++) {
		if (0 == strcmp(argv[i], "--group"))
			c13_group_filter = argv[i + 1];
	}
	vh_init(argc, argv);
}

/* odometer over an alphabet: idx[0..n) in [0, nsym) */
static inline int
odo_next(int *idx, int n, int nsym) {
	int i;

	for (i = 0; i < n; i ++) {
		if (++ idx[i] < nsym)
			return (1);
		idx[i] = 0;
	}
	return (0);
}

#endif /* C13_H */
