/* C16, second harness: (1) send tasks with forced short writes (large window, small socket buffer,
 * the peer drains in enumerated chunk sequences); (2) the datagram packet receiver.
 * Same E2 driver as h_c16.c: real tpt_loop on this thread, wrapped epoll_wait plays the history. */
#define _GNU_SOURCE
#include <errno.h>
#include <fcntl.h>
#include <poll.h>
#include <signal.h>
#include <sys/epoll.h>
#include <sys/socket.h>
#include <sys/timerfd.h>
#include <unistd.h>
#include "vh.h"
#include "threadpool/threadpool.h"
#include "threadpool/threadpool_msg_sys.h"
#include "threadpool/threadpool_task.h"

int	__real_epoll_wait(int, struct epoll_event *, int, int);
int	__real_timerfd_create(int, int);
int	__real_timerfd_settime(int, int, const struct itimerspec *, struct itimerspec *);
void	__wrap_syslog(int p, const char *f, ...) { (void)p; (void)f; }
void	__wrap_openlog(const char *a, int b, int c) { (void)a; (void)b; (void)c; }
void	lcb_verif_point(const char *tag) { (void)tag; }
static int rec_tfd_last = -1;
int	__wrap_timerfd_create(int clk, int flags) { rec_tfd_last = __real_timerfd_create(clk, flags); return (rec_tfd_last); }
int	__wrap_timerfd_settime(int fd, int flags, const struct itimerspec *n, struct itimerspec *o) { return (__real_timerfd_settime(fd, flags, n, o)); }
int	__real_close(int);
int	__wrap_close(int fd) { if (fd == rec_tfd_last && fd >= 0) rec_tfd_last = -1; return (__real_close(fd)); }

#define TIMEOUT_MS 3600000ull
#define BIG 24576
enum { H_DRAIN = 1, H_FIRE, H_DGRAM, H_CLOSE, H_BURST };
typedef struct hstep_s { uint8_t op; uint16_t k; } hstep_t;
#define MAXH 24
static struct {
	int	mode;		/* 0 = short-write send, 1 = datagram receiver */
	int	via_connect_send;	/* mode 0: the task is made by tp_task_connect_send_create() */
	uint16_t evflags;
	int	timeout;
	int	consume;	/* datagram mode: callback empties the buffer after each packet */
	int	win;		/* datagram mode: buffer size */
	int	nh;
	hstep_t	h[MAXH];
} C;

static tp_p tp;
static tpt_p t0;
static tp_task_p task;
static io_buf_t buf;
static uint8_t *bigmem;		/* exact-size heap block: ASan redzone right behind the window */
static uint8_t *peer_got;
static int sk[2], peer_open;
static int drained, reported, ncb, n_timeout_cb, fires_armed, task_dead, done_cb_seen;
static int cur_step, settle_left, shutdown_sent, case_failed;
/* datagram model */
static int dg_sent, dg_seen;
static int dg_size[8];

static uint8_t pay(int i) { return ((uint8_t)(i * 7 + (i >> 8) * 13 + 3)); }

static void
cfail(const char *clause, const char *fmt, ...) {
	char m[300]; va_list ap;
	va_start(ap, fmt); vsnprintf(m, sizeof(m), fmt, ap); va_end(ap);
	case_failed = 1;
	vh_fail(clause, "step %d cb#%d: %s", cur_step, ncb, m);
}

static void
case_desc(char *b, size_t n) {
	int i; size_t o;
	o = (size_t)snprintf(b, n, "%s%s evfl=%d tmo=%d consume=%d win=%d hist:", C.mode ? "dgram" : "shortwrite", C.via_connect_send ? "(connect_send_create)" : "", C.evflags, C.timeout, C.consume, C.win);
	for (i = 0; i < C.nh && o + 12 < n; i ++)
		o += (size_t)snprintf(b + o, n - o, " %s%d", (H_DRAIN == C.h[i].op) ? "drain" : (H_FIRE == C.h[i].op) ? "fire" : (H_DGRAM == C.h[i].op) ? "dg" : (H_BURST == C.h[i].op) ? "burst" : "close", C.h[i].k);
}

static int
send_cb(tp_task_p tptask, int error, io_buf_p b, uint32_t eof, size_t transfered_size, void *udata) {
	(void)udata; (void)tptask;
	ncb ++;
	if (task_dead) { cfail("callback-after-stop", "callback after tp_task_stop()"); return (TP_TASK_CB_NONE); }
	reported += (int)transfered_size;
	if (b != &buf) cfail("wrong-task-args", "another buffer");
	if (buf.offset + buf.transfer_size > buf.size)
		cfail("window-exceeds-buffer", "offset %zu + transfer_size %zu > size %zu", buf.offset, buf.transfer_size, buf.size);
	if ((int)buf.offset + (int)buf.transfer_size != BIG)
		cfail("cursor-inconsistent", "offset %zu + transfer_size %zu != window %d", buf.offset, buf.transfer_size, BIG);
	if (reported != (int)buf.offset)
		cfail("transferred-count", "sum of transferred sizes %d, cursor advanced by %zu", reported, buf.offset);
	if (ETIMEDOUT == error) {
		n_timeout_cb ++;
		if (n_timeout_cb > fires_armed) cfail("spurious-timeout", "ETIMEDOUT %d times, timer expired %d times while armed", n_timeout_cb, fires_armed);
		return (TP_TASK_CB_CONTINUE);
	}
	if (0 != error || 0 != eof) { cfail("unexpected-error", "error %d eof %#x while the peer is open", error, eof); }
	if (0 == buf.transfer_size) {
		done_cb_seen ++;
		tp_task_stop(task);
		task_dead = 1;
		return (TP_TASK_CB_NONE);
	}
	return (TP_TASK_CB_CONTINUE);
}

static int
dgram_cb(tp_task_p tptask, int error, struct sockaddr_storage *addr, io_buf_p b, size_t transfered_size, void *udata) {
	int want, i, start;
	(void)udata; (void)tptask; (void)addr;
	ncb ++;
	if (task_dead) { cfail("callback-after-stop", "callback after tp_task_stop()"); return (TP_TASK_CB_NONE); }
	if (ETIMEDOUT == error) {
		n_timeout_cb ++;
		if (n_timeout_cb > fires_armed) cfail("spurious-timeout", "ETIMEDOUT %d times, timer expired %d times while armed", n_timeout_cb, fires_armed);
		return (TP_TASK_CB_CONTINUE);
	}
	if (0 != error) { cfail("unexpected-error", "error %d", error); return (TP_TASK_CB_NONE); }
	if (dg_seen >= dg_sent) { cfail("packet-invented", "a packet was delivered that nobody sent"); return (TP_TASK_CB_NONE); }
	if (buf.offset + buf.transfer_size > buf.size || buf.used > buf.size)
		cfail("window-exceeds-buffer", "offset %zu + transfer_size %zu / used %zu vs size %zu", buf.offset, buf.transfer_size, buf.used, buf.size);
	start = (int)buf.offset - (int)transfered_size;
	want = dg_size[dg_seen];
	if (want > (int)transfered_size + (int)buf.transfer_size)	/* only what fitted (datagram truncation by the kernel) */
		want = (int)transfered_size + (int)buf.transfer_size;
	if (start < 0 || (int)transfered_size != want)
		cfail("packet-size", "packet %d of %d bytes delivered as %zu bytes (room was %d)", dg_seen, dg_size[dg_seen], transfered_size, (int)transfered_size + (int)buf.transfer_size);
	else {
		for (i = 0; i < (int)transfered_size; i ++) {
			if (bigmem[start + i] != pay(dg_seen * 16 + i)) { cfail("bytes-wrong", "packet %d byte %d", dg_seen, i); break; }
		}
	}
	dg_seen ++;
	reported += (int)transfered_size;
	if (C.consume) { /* typical use: process the packet, hand the whole buffer back */
		IO_BUF_MARK_AS_EMPTY(b);
		IO_BUF_MARK_TRANSFER_ALL_FREE(b);
	} else if (0 == buf.transfer_size) { /* accumulate until full, then stop */
		tp_task_stop(task);
		task_dead = 1;
		return (TP_TASK_CB_NONE);
	}
	return (TP_TASK_CB_CONTINUE);
}

static void
apply(const hstep_t *s) {
	struct itimerspec its;
	struct pollfd pfd;
	int i, n, left;
	uint8_t tmp[64];
	static uint8_t chunk[16384];

	switch (s->op) {
	case H_DRAIN:
		left = s->k;
		while (left > 0 && 0 < (n = (int)read(sk[1], chunk, (size_t)((left > (int)sizeof(chunk)) ? (int)sizeof(chunk) : left)))) {
			if (drained + n <= BIG) memcpy(peer_got + drained, chunk, (size_t)n);
			drained += n; left -= n;
		}
		break;
	case H_DGRAM:
		if (peer_open && dg_sent < 8) {
			for (i = 0; i < s->k; i ++) tmp[i] = pay(dg_sent * 16 + i);
			if ((ssize_t)s->k == send(sk[1], tmp, s->k, 0)) { dg_size[dg_sent] = s->k; dg_sent ++; }
		}
		break;
	case H_BURST: /* two datagrams (sizes k/16 and k%16) queued before the loop gets to run */
		for (n = 0; n < 2; n ++) {
			int sz = n ? (s->k % 16) : (s->k / 16);
			if (peer_open && dg_sent < 8) {
				for (i = 0; i < sz; i ++) tmp[i] = pay(dg_sent * 16 + i);
				if ((ssize_t)sz == send(sk[1], tmp, (size_t)sz, 0)) { dg_size[dg_sent] = sz; dg_sent ++; }
			}
		}
		break;
	case H_CLOSE:
		if (peer_open) { close(sk[1]); sk[1] = -1; peer_open = 0; }
		break;
	case H_FIRE:
		if (!C.timeout || rec_tfd_last < 0) break;	/* also after stop: the timerfd is closed by then on the correct tree */
		memset(&its, 0, sizeof(its)); its.it_value.tv_nsec = 1;
		__real_timerfd_settime(rec_tfd_last, 0, &its, NULL);
		pfd.fd = rec_tfd_last; pfd.events = POLLIN;
		for (i = 0; i < 1000 && 1 != poll(&pfd, 1, 10); i ++) ;
		if (!task_dead) fires_armed ++;
		break;
	}
}

int
__wrap_epoll_wait(int epfd, struct epoll_event *ev, int maxev, int timeout) {
	int n;
	if (timeout >= 0 || NULL == tp)
		return (__real_epoll_wait(epfd, ev, maxev, timeout));
	for (;;) {
		if (settle_left > 0) {
			n = __real_epoll_wait(epfd, ev, 1, 0);
			if (n > 0) { settle_left --; return (n); }
			settle_left = 0;
		}
		if (shutdown_sent) {
			n = __real_epoll_wait(epfd, ev, 1, 1000);
			if (n <= 0) cfail("harness", "shutdown message never became ready");
			return (n);
		}
		if (cur_step >= C.nh) { tp_shutdown(tp); shutdown_sent = 1; continue; }
		apply(&C.h[cur_step]);
		cur_step ++;
		settle_left = 12;
	}
}

static void
run_case(void) {
	tp_settings_t s;
	int rc, i, v;

	case_failed = 0;
	tp_settings_def(&s); s.flags = 0; s.threads_max = 1; tp = NULL;
	if (0 != tp_create(&s, &tp)) { vh_fail("harness", "tp_create"); return; }
	t0 = tp_thread_get(tp, 0);
	if (0 != socketpair(AF_UNIX, (C.mode ? SOCK_DGRAM : SOCK_STREAM) | SOCK_NONBLOCK, 0, sk)) { vh_fail("harness", "socketpair"); return; }
	peer_open = 1; drained = reported = ncb = n_timeout_cb = fires_armed = task_dead = done_cb_seen = 0;
	dg_sent = dg_seen = 0; cur_step = 0; settle_left = 0; shutdown_sent = 0; rec_tfd_last = -1; task = NULL;
	memset(&buf, 0, sizeof(buf));
	if (0 == C.mode) {
		v = 1024; setsockopt(sk[0], SOL_SOCKET, SO_SNDBUF, &v, sizeof(v));	/* kernel minimum: forces short writes */
		bigmem = (uint8_t *)malloc(BIG);
		peer_got = (uint8_t *)malloc(BIG);
		for (i = 0; i < BIG; i ++) bigmem[i] = pay(i);
		buf.data = bigmem; buf.size = BIG; buf.used = BIG; buf.offset = 0; buf.transfer_size = BIG;
		if (C.via_connect_send)
			rc = tp_task_connect_send_create(t0, (uintptr_t)sk[0], 0, C.timeout ? TIMEOUT_MS : 0, &buf, send_cb, NULL, &task);
		else {
			rc = tp_task_create(t0, (uintptr_t)sk[0], tp_task_sr_handler, 0, NULL, &task);
			if (0 == rc) rc = tp_task_start(task, TP_EV_WRITE, C.evflags, C.timeout ? TIMEOUT_MS : 0, 0, &buf, send_cb);
		}
	} else {
		bigmem = (uint8_t *)malloc((size_t)C.win);
		peer_got = NULL;
		memset(bigmem, 0xEE, (size_t)C.win);
		buf.data = bigmem; buf.size = (size_t)C.win; buf.used = 0; buf.offset = 0; buf.transfer_size = (size_t)C.win;
		rc = tp_task_pkt_rcvr_create(t0, (uintptr_t)sk[0], 0, C.timeout ? TIMEOUT_MS : 0, &buf, dgram_cb, NULL, &task);
	}
	if (0 != rc) { cfail("start-refused", "rc=%d", rc); }
	else {
		settle_left = 12;
		rc = tp_thread_attach_first(tp);
		if (0 != rc) vh_fail("harness", "attach rc=%d", rc);
	}
	if (!case_failed && 0 == C.mode && !task_dead && buf.transfer_size > 0) {
		/* the loop went quiet: an armed task with data left must be waiting for room, not sitting on a writable socket */
		struct pollfd wp; wp.fd = sk[0]; wp.events = POLLOUT; wp.revents = 0;
		if (1 == poll(&wp, 1, 0) && 0 != (wp.revents & POLLOUT))
			cfail("send-stalled", "the socket is writable, the task is armed and has %zu of %d bytes left, but it does not send", buf.transfer_size, BIG);
	}
	if (!case_failed && 0 == C.mode) {
		/* final: drain everything, the emitted stream must be the window */
		int n; static uint8_t chunk[16384];
		while (0 < (n = (int)read(sk[1], chunk, sizeof(chunk)))) {
			if (drained + n <= BIG) memcpy(peer_got + drained, chunk, (size_t)n);
			drained += n;
		}
		if (drained != (int)buf.offset)
			cfail("bytes-emitted-mismatch", "cursor says %zu bytes sent, the peer received %d", buf.offset, drained);
		for (i = 0; i < drained && i < BIG; i ++) {
			if (peer_got[i] != pay(i)) { cfail("bytes-wrong", "emitted byte %d is %02x want %02x", i, peer_got[i], pay(i)); break; }
		}
		if (task_dead && (int)buf.offset != BIG)
			cfail("done-before-all-sent", "completion callback at offset %zu of %d", buf.offset, BIG);
		if (done_cb_seen > 1) cfail("done-twice", "completion reported %d times", done_cb_seen);
		if (fires_armed > 0 && n_timeout_cb != fires_armed)
			cfail("timeout-count", "timer expired %d time(s) while armed, ETIMEDOUT reported %d time(s)", fires_armed, n_timeout_cb);
	}
	if (!case_failed && 1 == C.mode) {
		/* every packet sent while the task was armed must have been delivered, in order (checked in the callback) */
		if (!task_dead && dg_seen != dg_sent)
			cfail("packet-lost", "%d packets sent, %d delivered, task still armed", dg_sent, dg_seen);
		if (fires_armed > 0 && n_timeout_cb != fires_armed)
			cfail("timeout-count", "timer expired %d time(s) while armed, ETIMEDOUT reported %d time(s)", fires_armed, n_timeout_cb);
	}
	if (NULL != task) tp_task_destroy(task);
	tp_destroy(tp); tp = NULL;
	close(sk[0]); if (sk[1] >= 0) close(sk[1]);
	free(bigmem); free(peer_got); bigmem = peer_got = NULL;
	if (ncb > 0 && !case_failed) vh_nontrivial();
	vh_outcome(&ncb, sizeof(ncb)); vh_outcome(&reported, sizeof(reported));
}

static void
emit(void) {
	if (!vh_begin(C.mode ? "pkt_rcvr_task" : "send_task_shortwrite")) return;
	vh_set_describer(case_desc);
	run_case();
}

static void
gen_drains(int left, int used_fire) {
	static const int chunks[3] = { 1500, 4096, 9000 };
	int i;
	if (left <= 0 || C.nh >= MAXH - 1) { emit(); return; }
	if (C.timeout && !used_fire) {
		C.h[C.nh].op = H_FIRE; C.h[C.nh].k = 0; C.nh ++;
		gen_drains(left, 1);
		C.nh --;
	}
	for (i = 0; i < 3; i ++) {
		if (!vh_thorough && 1 == i && left < BIG - 9000) continue; /* quick: thin out */
		C.h[C.nh].op = H_DRAIN; C.h[C.nh].k = (uint16_t)chunks[i]; C.nh ++;
		gen_drains(left - chunks[i], used_fire);
		C.nh --;
	}
}

static void
gen_dgrams(int depth, int used_fire) {
	static const int sizes[4] = { 1, 3, 8, 9 };
	int i;
	emit();
	if (depth >= (vh_thorough ? 4 : 3)) return;
	if (C.timeout && !used_fire) {
		C.h[C.nh].op = H_FIRE; C.h[C.nh].k = 0; C.nh ++;
		gen_dgrams(depth + 1, 1);
		C.nh --;
	}
	for (i = 0; i < 4; i ++) {
		C.h[C.nh].op = H_DGRAM; C.h[C.nh].k = (uint16_t)sizes[i]; C.nh ++;
		gen_dgrams(depth + 1, used_fire);
		C.nh --;
	}
	{	/* bursts: two datagrams arrive before the task is called */
		static const int b2[5] = { 1 * 16 + 3, 3 * 16 + 1, 3 * 16 + 3, 8 * 16 + 1, 1 * 16 + 8 };
		for (i = 0; i < 5; i ++) {
			C.h[C.nh].op = H_BURST; C.h[C.nh].k = (uint16_t)b2[i]; C.nh ++;
			gen_dgrams(depth + 1, used_fire);
			C.nh --;
		}
	}
}

int
main(int argc, char **argv) {
	static const uint16_t evf[2] = { 0, TP_F_DISPATCH };
	int f;
	vh_init(argc, argv);
	signal(SIGPIPE, SIG_IGN);
	C.mode = 0;
	for (f = 0; f < 2; f ++) for (C.timeout = 0; C.timeout < 2; C.timeout ++) {
		C.evflags = evf[f]; C.nh = 0;
		gen_drains(BIG, 0);
	}
	C.via_connect_send = 1; C.evflags = 0;
	for (C.timeout = 0; C.timeout < 2; C.timeout ++) { C.nh = 0; gen_drains(BIG, 0); }
	C.via_connect_send = 0;
	C.mode = 1; C.evflags = 0;
	for (C.consume = 0; C.consume < 2; C.consume ++) for (C.timeout = 0; C.timeout < 2; C.timeout ++) for (C.win = 8; C.win <= 12; C.win += 4) {
		C.nh = 0;
		gen_dgrams(0, 0);
	}
	return (vh_finish());
}
