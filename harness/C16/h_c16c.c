/* C16, third harness: the accept, connect, connect_ex and notify task variants.
 * Same E2 driver as h_c16.c / h_c16b.c: the real tpt_loop runs on this thread, the wrapped
 * epoll_wait plays the history.  The network is the real loop-back TCP stack: an address is
 *   U  a listener with room in its queue          (the connection is established),
 *   D  a bound socket that does not listen        (the connection is refused, ECONNREFUSED),
 *   P  a listener whose queue is full, backlog 0   (the connection stays in progress; only a timeout ends it).
 * Time is owned: every timerfd the library creates is recorded; a "fire" step arms the live one with
 * 1 ns through the real call, so "the timeout/retry delay elapsed" is an event of the history. */
#define _GNU_SOURCE
#include <errno.h>
#include <fcntl.h>
#include <poll.h>
#include <signal.h>
#include <arpa/inet.h>
#include <netinet/in.h>
#include <sys/epoll.h>
#include <sys/socket.h>
#include <sys/timerfd.h>
#include <unistd.h>
#include "vh.h"
#include "threadpool/threadpool.h"
#include "threadpool/threadpool_msg_sys.h"
#include "threadpool/threadpool_task.h"

int	__real_epoll_wait(int, struct epoll_event *, int, int);
int	__real_timerfd_create(int, int);
int	__real_timerfd_settime(int, int, const struct itimerspec *, struct itimerspec *);
int	__real_close(int);
int	__real_connect(int, const struct sockaddr *, socklen_t);
void	__wrap_syslog(int p, const char *f, ...) { (void)p; (void)f; }
void	__wrap_openlog(const char *a, int b, int c) { (void)a; (void)b; (void)c; }
void	lcb_verif_point(const char *tag) { (void)tag; }

/* ---- owned timers ---- */
static int cur_tfd = -1, cur_armed = 0;
static int att_fd;
int
__wrap_timerfd_create(int clk, int flags) {
	int fd = __real_timerfd_create(clk, flags);
	if (fd >= 0) { cur_tfd = fd; cur_armed = 0; }
	return (fd);
}
int
__wrap_timerfd_settime(int fd, int flags, const struct itimerspec *n, struct itimerspec *o) {
	if (fd == cur_tfd) cur_armed = (0 != n->it_value.tv_sec || 0 != n->it_value.tv_nsec);
	return (__real_timerfd_settime(fd, flags, n, o));
}
int
__wrap_close(int fd) {
	if (fd == cur_tfd && fd >= 0) { cur_tfd = -1; cur_armed = 0; }
	if (fd == att_fd) att_fd = -1;
	return (__real_close(fd));
}

/* ---- owned clock (connect_ex time limit) ---- */
#include <time.h>
int	__real_clock_gettime(clockid_t, struct timespec *);
static time_t clock_off_s;
int
__wrap_clock_gettime(clockid_t id, struct timespec *ts) {
	int rc = __real_clock_gettime(id, ts);
	if (0 == rc) ts->tv_sec += clock_off_s;
	return (rc);
}

/* ---- the addresses ---- */
enum { K_U = 0, K_D, K_P };
#define MAXA 3
static struct sockaddr_storage addr_of[3];	/* one address per kind */
static int lsn[3] = { -1, -1, -1 }, filler = -1, p_available = 1;
static const char kind_ch[3] = { 'U', 'D', 'P' };

/* ---- attempts seen on the wire (wrapped connect) ---- */
#define MAXATT 1024
static int att_kind[MAXATT], natt, att_polled;
static int harness_connect;	/* the harness' own connect() calls are not attempts of the task */
static int report_fail_on, n_fail_reports;
static void cfail(const char *clause, const char *fmt, ...);
int
__wrap_connect(int fd, const struct sockaddr *sa, socklen_t sl) {
	int k;
	if (!harness_connect && AF_INET == sa->sa_family) {
		for (k = 0; k < 3; k ++) {
			if (((const struct sockaddr_in *)sa)->sin_port == ((struct sockaddr_in *)&addr_of[k])->sin_port) {
				if (report_fail_on && n_fail_reports != natt)
					cfail("failure-not-reported", "attempt %d starts, %d earlier attempts failed, %d failure reports", natt + 1, natt, n_fail_reports);
				att_kind[natt % MAXATT] = k;
				natt ++;
				att_fd = fd; att_polled = 0;
			}
		}
	}
	return (__real_connect(fd, sa, sl));
}

static void
net_setup(void) {
	int k, one = 1;
	socklen_t l;
	struct sockaddr_in *a;
	struct pollfd p;

	for (k = 0; k < 3; k ++) {
		lsn[k] = socket(AF_INET, SOCK_STREAM | SOCK_NONBLOCK, 0);
		a = (struct sockaddr_in *)&addr_of[k];
		memset(&addr_of[k], 0, sizeof(addr_of[k]));
		a->sin_family = AF_INET; a->sin_addr.s_addr = htonl(INADDR_LOOPBACK);
		setsockopt(lsn[k], SOL_SOCKET, SO_REUSEADDR, &one, sizeof(one));
		if (0 != bind(lsn[k], (struct sockaddr *)a, sizeof(*a))) { perror("bind"); exit(3); }
		l = sizeof(*a); getsockname(lsn[k], (struct sockaddr *)a, &l);
	}
	listen(lsn[K_U], 64);
	listen(lsn[K_P], 0);
	/* fill the queue of P: one established connection nobody accepts */
	harness_connect = 1;
	filler = socket(AF_INET, SOCK_STREAM | SOCK_NONBLOCK, 0);
	connect(filler, (struct sockaddr *)&addr_of[K_P], sizeof(struct sockaddr_in));
	p.fd = filler; p.events = POLLOUT; poll(&p, 1, 10000);
	/* self check of the environment: a further connection to P must stay in progress, one to D must be refused */
	{
		int c = socket(AF_INET, SOCK_STREAM | SOCK_NONBLOCK, 0), e = 0; socklen_t el = sizeof(e);
		connect(c, (struct sockaddr *)&addr_of[K_P], sizeof(struct sockaddr_in));
		p.fd = c; p.events = POLLOUT;
		if (0 != poll(&p, 1, 300)) { p_available = 0; printf("NOTE\tthis kernel completes or refuses a connection to a listener with a full queue: never-answering addresses are left out\n"); }
		__real_close(c);
		c = socket(AF_INET, SOCK_STREAM | SOCK_NONBLOCK, 0);
		connect(c, (struct sockaddr *)&addr_of[K_D], sizeof(struct sockaddr_in));
		p.fd = c; p.events = POLLOUT;
		if (1 != poll(&p, 1, 10000) || 0 != getsockopt(c, SOL_SOCKET, SO_ERROR, &e, &el) || ECONNREFUSED != e) {
			printf("NOTE\tloop-back connection to a bound, not listening socket was not refused (SO_ERROR %d): the accept/connect harness cannot run here\n", e);
			vh_fail("harness", "loop-back TCP does not behave as assumed");
		}
		__real_close(c);
	}
	harness_connect = 0;
}

static void
drain_listener(int k) { /* accept and close what the task connected, so the queue of U never fills */
	int s;
	while (0 <= (s = accept4(lsn[k], NULL, NULL, SOCK_NONBLOCK))) __real_close(s);
}

/* ---- case description ---- */
#define TIMEOUT_MS 3600000ull
enum { H_FIRE = 1, H_CONN, H_BURST, H_SRVCLOSE, H_DATA, H_CLOSE, H_HALF, H_SRVDATA, H_PANSWER };
typedef struct hstep_s { uint8_t op; uint8_t k; } hstep_t;
#define MAXH 16
enum { M_ACCEPT = 0, M_CONNECT, M_CONNECT_EX, M_NOTIFY, M_CONNRECV, M_N };
static const char *mode_name[M_N] = { "accept_task", "connect_task", "connect_ex_task", "notify_task", "connect_then_recv_task" };
static struct {
	int	mode;
	int	timeout;
	int	evfl;		/* accept/notify: 0 = as the *_create() call registers it, 1 = the same handler registered with TP_F_DISPATCH */
	int	policy;		/* accept/notify: 0 continue, k>0 stop after the k-th delivery; connect_ex: 0 continue, 1 stop at first failure report */
	int	nosettle;	/* connect: first step is played before the loop ran once */
	int	kind;		/* connect: kind of the address */
	/* connect_ex */
	int	na, kinds[MAXA];
	int	max_tries, rr, initial_delay, retry_delay, report_fail;
	int	destroy_at;	/* -1, or: destroy the task after this many history steps */
	int	time_limit;	/* connect_ex: 0, or the limit for all tries is set (2 h, per-try timeout 1 h) */
	int	advance_at;	/* -1, or: the clock jumps past the time limit before this history step */
	int	nh;
	hstep_t	h[MAXH];
} C;

static tp_p tp;
static tpt_p t0;
static tp_task_p task;
static int case_failed, cur_step, settle_left, shutdown_sent, task_dead;
static int ncb, n_timeout_cb, fires_armed, fires_total;
/* accept */
#define MAXCLI 16
static int cli[MAXCLI], ncli, n_accepted;
static int p_answered;	/* this case let the silent listener answer: its queue is filled again afterwards */
/* connect */
static int conn_fd = -1, conn_cb_error, fired_before_cb;
/* connect_ex */
static tp_task_conn_prms_t prms;
static struct sockaddr_storage prm_addrs[MAXA];
static int final_seen, final_error, stopped_by_cb, att_at_final;
/* connect, then the same task receives (handler switched from inside the connect callback) */
static io_buf_t rbuf; static uint8_t rmem[32]; static int srv_fd = -1, srv_sent, r_reported, r_eof_cb, r_done;
/* notify */
static int sk[2] = { -1, -1 }, peer_open, bytes_sent, bytes_read, n_eof_cb, eof_armed;

static void
cfail(const char *clause, const char *fmt, ...) {
	char m[300]; va_list ap;
	va_start(ap, fmt); vsnprintf(m, sizeof(m), fmt, ap); va_end(ap);
	case_failed = 1;
	vh_fail(clause, "step %d cb#%d: %s", cur_step, ncb, m);
}

static void
case_desc(char *b, size_t n) {
	int i; size_t o;
	static const char *opn[] = { "?", "fire", "conn", "burst", "srvclose", "data", "close", "halfclose", "srvdata", "silent-address-answers" };
	o = (size_t)snprintf(b, n, "%s tmo=%d policy=%d%s", mode_name[C.mode], C.timeout, C.policy, C.evfl ? " dispatch" : "");
	if (M_CONNECT == C.mode) o += (size_t)snprintf(b + o, n - o, " addr=%c nosettle=%d", kind_ch[C.kind], C.nosettle);
	if (M_CONNECT_EX == C.mode) {
		o += (size_t)snprintf(b + o, n - o, " addrs=");
		for (i = 0; i < C.na; i ++) o += (size_t)snprintf(b + o, n - o, "%c", kind_ch[C.kinds[i]]);
		o += (size_t)snprintf(b + o, n - o, " max_tries=%d rr=%d initial_delay=%d retry_delay=%d report_fail=%d destroy_at=%d time_limit=%d advance_at=%d",
		    C.max_tries, C.rr, C.initial_delay, C.retry_delay, C.report_fail, C.destroy_at, C.time_limit, C.advance_at);
	}
	o += (size_t)snprintf(b + o, n - o, " hist:");
	for (i = 0; i < C.nh && o + 14 < n; i ++)
		o += (size_t)snprintf(b + o, n - o, " %s%d", opn[C.h[i].op], C.h[i].k);
}

/* ---- callbacks ---- */
static int
accept_cb(tp_task_p tptask, int error, uintptr_t skt, struct sockaddr_storage *addr, void *udata) {
	struct pollfd p; uint8_t idx = 0xff;
	(void)udata;
	ncb ++;
	if (task_dead) { cfail("callback-after-stop", "accept callback after tp_task_stop()"); return (TP_TASK_CB_NONE); }
	if (tptask != task) cfail("wrong-task-args", "another task");
	if (ETIMEDOUT == error) {
		n_timeout_cb ++;
		if (n_timeout_cb > fires_armed) cfail("spurious-timeout", "ETIMEDOUT %d times, timer expired %d times while armed", n_timeout_cb, fires_armed);
		if ((uintptr_t)-1 != skt) cfail("wrong-task-args", "a socket is passed with ETIMEDOUT");
		return (TP_TASK_CB_CONTINUE);
	}
	if (0 != error) { cfail("unexpected-error", "error %d", error); return (TP_TASK_CB_CONTINUE); }
	if (n_accepted >= ncli) { cfail("connection-invented", "a connection was delivered that nobody made"); return (TP_TASK_CB_CONTINUE); }
	if (NULL == addr || AF_INET != addr->ss_family) cfail("wrong-task-args", "no peer address");
	p.fd = (int)skt; p.events = POLLIN;
	if (1 != poll(&p, 1, 10000) || 1 != read((int)skt, &idx, 1))
		cfail("connection-wrong", "the accepted descriptor %d is not a connection of a client", (int)skt);
	else if (idx != (uint8_t)n_accepted)
		cfail("connection-order", "connection %d delivered as number %d", idx, n_accepted);
	__real_close((int)skt);
	n_accepted ++;
	if (C.policy > 0 && n_accepted == C.policy) {
		tp_task_stop(task); task_dead = 1;
		return (TP_TASK_CB_NONE);
	}
	return (TP_TASK_CB_CONTINUE);
}

static int
connect_cb(tp_task_p tptask, int error, void *udata) {
	(void)udata;
	ncb ++;
	if (tptask != task) cfail("wrong-task-args", "another task");
	if (ncb > 1) { cfail("reported-twice", "the connect result is reported a second time (error %d, first %d)", error, conn_cb_error); return (0); }
	conn_cb_error = error;
	fired_before_cb = fires_armed;
	return (0);
}

static int
connrecv_recv_cb(tp_task_p tptask, int error, io_buf_p b, uint32_t eof, size_t transfered_size, void *udata) {
	(void)udata;
	ncb ++;
	if (task_dead) { cfail("callback-after-stop", "receive callback after tp_task_stop()"); return (TP_TASK_CB_NONE); }
	if (tptask != task || b != &rbuf) { cfail("wrong-task-args", "the receive callback of the switched task got task %p buffer %p (error %d)", (void *)tptask, (void *)b, error); tp_task_stop(task); task_dead = 1; return (TP_TASK_CB_NONE); }
	r_reported += (int)transfered_size;
	if (r_reported != (int)rbuf.used) cfail("transferred-count", "sum of transferred sizes %d, buffer holds %zu", r_reported, rbuf.used);
	if (r_reported > srv_sent) cfail("bytes-invented", "%d bytes reported, the server sent %d", r_reported, srv_sent);
	if (ETIMEDOUT == error) {
		n_timeout_cb ++;
		if (n_timeout_cb > fires_armed) cfail("spurious-timeout", "ETIMEDOUT %d times, timer expired %d times while armed", n_timeout_cb, fires_armed);
		return (TP_TASK_CB_CONTINUE);
	}
	if (0 != error) { cfail("unexpected-error", "error %d", error); }
	if (0 != eof) r_eof_cb ++;
	if (0 != eof || 0 != error || 0 == rbuf.transfer_size) { tp_task_stop(task); task_dead = 1; r_done = 1; return (TP_TASK_CB_NONE); }
	return (TP_TASK_CB_CONTINUE);
}

static int
connrecv_connect_cb(tp_task_p tptask, int error, void *udata) {
	(void)udata;
	ncb ++;
	if (tptask != task) cfail("wrong-task-args", "another task");
	if (0 != error) { cfail("unexpected-error", "connect to a listening address reported %d", error); return (0); }
	/* the documented "connect and receive" use: same task, other handler */
	memset(rmem, 0xEE, sizeof(rmem)); memset(&rbuf, 0, sizeof(rbuf));
	rbuf.data = rmem; rbuf.size = 16; rbuf.used = 0; rbuf.offset = 0; rbuf.transfer_size = 16;
	tp_task_tp_cb_func_set(task, tp_task_sr_handler);
	if (0 != tp_task_start(task, TP_EV_READ, 0, C.timeout ? TIMEOUT_MS : 0, 0, &rbuf, connrecv_recv_cb))
		cfail("start-refused", "tp_task_start of the switched task failed");
	return (0);
}

static int
connect_ex_cb(tp_task_p tptask, int error, tp_task_conn_prms_p cp, size_t addr_index, void *udata) {
	int k;
	(void)udata;
	ncb ++;
	if (task_dead) { cfail("callback-after-stop", "connect_ex callback after tp_task_destroy()"); return (TP_TASK_CB_NONE); }
	if (tptask != task && NULL != task) cfail("wrong-task-args", "another task");
	if (cp != &prms) cfail("wrong-task-args", "another parameter block");
	if (final_seen) { cfail("callback-after-final", "callback (error %d) after the final report (error %d)", error, final_error); return (TP_TASK_CB_NONE); }
	if (stopped_by_cb) { cfail("callback-after-stop", "callback (error %d) after the callback refused to continue", error); return (TP_TASK_CB_NONE); }
	if (0 == error) {
		final_seen = 1; final_error = 0; att_at_final = natt;
		if (n_fail_reports != (C.report_fail ? natt - 1 : 0))
			cfail("failure-report-count", "success at attempt %d, %d failure reports", natt, n_fail_reports);
		if (natt < 1 || att_kind[(natt - 1) % MAXATT] != K_U)
			cfail("success-for-dead-address", "success reported but the last attempt on the wire did not go to a listening address");
		if (addr_index >= (size_t)C.na) cfail("wrong-task-args", "address index %zu of %d", addr_index, C.na);
		return (TP_TASK_CB_NONE);
	}
	if (-1 == error) {
		final_seen = 1; final_error = -1; att_at_final = natt;
		if (n_fail_reports != (C.report_fail ? natt : 0))
			cfail("failure-report-count", "gave up after %d attempts, %d failure reports", natt, n_fail_reports);
		return (TP_TASK_CB_NONE);
	}
	/* a failed attempt is reported */
	n_fail_reports ++;
	if (!C.report_fail) cfail("unrequested-report", "failure %d reported without TP_TASK_F_CB_AFTER_EVERY_READ", error);
	if (addr_index >= (size_t)C.na) { cfail("wrong-task-args", "address index %zu of %d", addr_index, C.na); return (TP_TASK_CB_NONE); }
	if (natt < 1) { cfail("failure-invented", "failure %d reported, no attempt was made", error); return (TP_TASK_CB_NONE); }
	/* judged against what happened on the wire (the address index passed to the callback is not part of the property) */
	k = att_kind[(natt - 1) % MAXATT];
	if (K_U == k) cfail("failure-for-live-address", "error %d reported, the attempt went to a listening address", error);
	if (K_D == k && ECONNREFUSED != error) cfail("wrong-error", "refused connection reported as %d", error);
	if (K_P == k && ETIMEDOUT != error) cfail("wrong-error", "timed-out connection reported as %d", error);
	if (K_P == k) {
		n_timeout_cb ++;
		if (n_timeout_cb > fires_armed) cfail("spurious-timeout", "ETIMEDOUT %d times, timer expired %d times while armed", n_timeout_cb, fires_armed);
	}
	if (n_fail_reports > natt) cfail("failure-reported-twice", "%d failure reports for %d attempts", n_fail_reports, natt);
	if (1 == C.policy) { stopped_by_cb = 1; att_at_final = natt; return (TP_TASK_CB_NONE); }
	return (TP_TASK_CB_CONTINUE);
}

static int
notify_cb(tp_task_p tptask, int error, uint32_t eof, size_t data2transfer_size, void *udata) {
	uint8_t tmp[64]; ssize_t n; int got = 0;
	(void)udata; (void)data2transfer_size;
	ncb ++;
	if (task_dead) { cfail("callback-after-stop", "notify callback after tp_task_stop()"); return (TP_TASK_CB_NONE); }
	if (tptask != task) cfail("wrong-task-args", "another task");
	if (ETIMEDOUT == error) {
		n_timeout_cb ++;
		if (n_timeout_cb > fires_armed) cfail("spurious-timeout", "ETIMEDOUT %d times, timer expired %d times while armed", n_timeout_cb, fires_armed);
		return (TP_TASK_CB_CONTINUE);
	}
	if (0 != error) { cfail("unexpected-error", "error %d", error); return (TP_TASK_CB_CONTINUE); }
	while (0 < (n = recv(sk[0], tmp, sizeof(tmp), MSG_DONTWAIT))) got += (int)n;
	bytes_read += got;
	if (0 == got && 0 == eof) cfail("spurious-notify", "notified with nothing to read and no end of stream");
	if (0 != eof) {
		n_eof_cb ++;
		if (!eof_armed) cfail("spurious-eof", "end of stream reported while the peer is open");
		if (n_eof_cb > 1) cfail("eof-twice", "end of stream reported %d times", n_eof_cb);
		tp_task_stop(task); task_dead = 1;
		return (TP_TASK_CB_NONE);
	}
	if (C.policy > 0 && ncb - n_timeout_cb == C.policy) {
		tp_task_stop(task); task_dead = 1;
		return (TP_TASK_CB_NONE);
	}
	return (TP_TASK_CB_CONTINUE);
}

/* ---- environment steps ---- */
static void
one_client(void) {
	struct pollfd p; uint8_t idx;
	if (ncli >= MAXCLI) return;
	harness_connect = 1;
	cli[ncli] = socket(AF_INET, SOCK_STREAM | SOCK_NONBLOCK, 0);
	connect(cli[ncli], (struct sockaddr *)&addr_of[K_U], sizeof(struct sockaddr_in));
	harness_connect = 0;
	p.fd = cli[ncli]; p.events = POLLOUT;
	if (1 != poll(&p, 1, 10000)) { vh_fail("harness", "client connect did not complete"); case_failed = 1; return; }
	idx = (uint8_t)ncli;
	if (1 != write(cli[ncli], &idx, 1)) { vh_fail("harness", "client write"); case_failed = 1; }
	ncli ++;
}

static void
apply(const hstep_t *s) {
	struct itimerspec its; struct pollfd pfd; int i, c; uint8_t tmp[8];

	switch (s->op) {
	case H_FIRE:
		fires_total ++;
		/* "inactivity longer than the configured timeout is reported": an accept / notify task that was told to continue
		 * waits with its timeout configured, so the library's last timerfd_settime() must have armed the timer */
		if ((M_ACCEPT == C.mode || M_NOTIFY == C.mode) && C.timeout && NULL != task && !task_dead && !case_failed &&
		    !cur_armed)
			cfail("timeout-not-armed", "the task waits with a timeout configured but its timer is %s", (cur_tfd < 0) ? "gone" : "disarmed");
		if (cur_tfd < 0 || !cur_armed) break;	/* also after stop: a timer the library left armed is part of the environment */
		memset(&its, 0, sizeof(its)); its.it_value.tv_nsec = 1;
		__real_timerfd_settime(cur_tfd, 0, &its, NULL);
		pfd.fd = cur_tfd; pfd.events = POLLIN;
		for (i = 0; i < 1000 && 1 != poll(&pfd, 1, 10); i ++) ;
		cur_armed = 0;
		fires_armed ++;
		break;
	case H_CONN: one_client(); break;
	case H_BURST: one_client(); one_client(); break;
	case H_SRVCLOSE: /* the server side accepts what is queued and closes it */
		if (M_CONNRECV == C.mode) {
			if (srv_fd < 0) srv_fd = accept4(lsn[K_U], NULL, NULL, SOCK_NONBLOCK);
			if (srv_fd >= 0) { __real_close(srv_fd); srv_fd = -2; }
			break;
		}
		drain_listener(K_U);
		break;
	case H_PANSWER: /* the address that never answered starts to: its listener gets room, the retransmitted SYN (about a
			 * second later) completes the connection that has been in progress all the time */
		if (M_CONNECT != C.mode || K_P != C.kind || conn_fd < 0) break;
		drain_listener(K_P);
		pfd.fd = conn_fd; pfd.events = POLLOUT;
		if (1 != poll(&pfd, 1, 8000)) { vh_fail("harness", "the pending connection did not complete after the listener got room"); case_failed = 1; }
		p_answered = 1;
		break;
	case H_SRVDATA: /* the server side accepts the connection (once) and sends k bytes */
		if (-1 == srv_fd) srv_fd = accept4(lsn[K_U], NULL, NULL, SOCK_NONBLOCK);
		if (srv_fd >= 0) {
			memset(tmp, 0x5a, sizeof(tmp));
			c = (int)send(srv_fd, tmp, s->k, MSG_DONTWAIT | MSG_NOSIGNAL);
			if (c > 0) srv_sent += c;
		}
		break;
	case H_DATA:
		if (!peer_open) break;
		memset(tmp, 0x5a, sizeof(tmp));
		c = (int)send(sk[1], tmp, s->k, MSG_DONTWAIT);
		if (c > 0) bytes_sent += c;
		break;
	case H_CLOSE:
		if (peer_open) { __real_close(sk[1]); sk[1] = -1; peer_open = 0; if (!task_dead) eof_armed = 1; }
		break;
	case H_HALF:
		if (peer_open) { shutdown(sk[1], SHUT_WR); if (!task_dead) eof_armed = 1; }
		break;
	}
}

int
__wrap_epoll_wait(int epfd, struct epoll_event *ev, int maxev, int timeout) {
	int n;
	if (timeout >= 0 || NULL == tp)
		return (__real_epoll_wait(epfd, ev, maxev, timeout));
	for (;;) {
		if (settle_left > 0) {
			n = __real_epoll_wait(epfd, ev, 1, 0);
			if (n > 0) { settle_left --; return (n); }
			if (att_fd >= 0 && !att_polled && natt > 0 && K_P != att_kind[(natt - 1) % MAXATT]) {
				/* an attempt towards U or D is on the wire: its outcome belongs to this step */
				struct pollfd p; p.fd = att_fd; p.events = POLLOUT;
				poll(&p, 1, 10000); att_polled = 1;
				continue;
			}
			settle_left = 0;
		}
		if (shutdown_sent) {
			n = __real_epoll_wait(epfd, ev, 1, 1000);
			if (n <= 0) { cfail("harness", "shutdown message never became ready"); exit(3); }
			return (n);
		}
		if (M_CONNECT_EX == C.mode && C.destroy_at == cur_step && NULL != task && !task_dead) {
			tp_task_destroy(task); task = NULL; task_dead = 1;	/* on the task's own pool thread */
			att_at_final = natt;
		}
		if (cur_step >= C.nh) { tp_shutdown(tp); shutdown_sent = 1; continue; }
		if (C.advance_at == cur_step) clock_off_s += 3 * 3600;
		apply(&C.h[cur_step]);
		cur_step ++;
		settle_left = 16;
	}
}

static void
run_case(void) {
	tp_settings_t s;
	int rc = 0, i;
	struct pollfd p;

	case_failed = 0;
	tp_settings_def(&s); s.flags = 0; s.threads_max = 1; tp = NULL;
	cur_tfd = -1; cur_armed = 0; clock_off_s = 0;
	if (0 != tp_create(&s, &tp)) { vh_fail("harness", "tp_create"); return; }
	t0 = tp_thread_get(tp, 0);
	cur_step = 0; settle_left = 0; shutdown_sent = 0; task_dead = 0; task = NULL;
	ncb = n_timeout_cb = fires_armed = fires_total = 0;
	ncli = n_accepted = 0; natt = 0; att_fd = -1; att_polled = 0; report_fail_on = 0; conn_fd = -1; conn_cb_error = -12345; fired_before_cb = 0;
	final_seen = final_error = n_fail_reports = stopped_by_cb = att_at_final = 0;
	bytes_sent = bytes_read = n_eof_cb = eof_armed = 0; peer_open = 0; sk[0] = sk[1] = -1;
	srv_fd = -1; srv_sent = r_reported = r_eof_cb = r_done = 0;
	drain_listener(K_U);

	switch (C.mode) {
	case M_ACCEPT:
		if (C.evfl)
			rc = tp_task_create_start(t0, (uintptr_t)lsn[K_U], tp_task_accept_handler, 0, TP_EV_READ, TP_F_DISPATCH, C.timeout ? TIMEOUT_MS : 0, 0, NULL, (tp_task_cb)accept_cb, NULL, &task);
		else
			rc = tp_task_accept_create(t0, (uintptr_t)lsn[K_U], 0, C.timeout ? TIMEOUT_MS : 0, accept_cb, NULL, &task);
		break;
	case M_CONNECT:
		conn_fd = socket(AF_INET, SOCK_STREAM | SOCK_NONBLOCK, 0);
		harness_connect = 1;
		connect(conn_fd, (struct sockaddr *)&addr_of[C.kind], sizeof(struct sockaddr_in));
		harness_connect = 0;
		if (K_P != C.kind) { p.fd = conn_fd; p.events = POLLOUT; poll(&p, 1, 10000); }	/* the outcome is there before the task starts */
		rc = tp_task_connect_create(t0, (uintptr_t)conn_fd, 0, C.timeout ? TIMEOUT_MS : 0, connect_cb, NULL, &task);
		break;
	case M_CONNECT_EX:
		memset(&prms, 0, sizeof(prms));
		for (i = 0; i < C.na; i ++) prm_addrs[i] = addr_of[C.kinds[i]];
		prms.addrs = prm_addrs; prms.addrs_count = (size_t)C.na;
		prms.max_tries = (uint64_t)C.max_tries;
		prms.retry_delay = (uint64_t)C.retry_delay;
		prms.time_limit = C.time_limit ? 2 * TIMEOUT_MS : 0;
		prms.flags = (C.rr ? TP_TASK_CONNECT_F_ROUND_ROBIN : 0) | (C.initial_delay ? TP_TASK_CONNECT_F_INITIAL_DELAY : 0);
		report_fail_on = C.report_fail;
		rc = tp_task_connect_ex_create(t0, (C.report_fail ? TP_TASK_F_CB_AFTER_EVERY_READ : 0) | TP_TASK_F_CLOSE_ON_DESTROY,
		    C.timeout ? TIMEOUT_MS : 0, &prms, connect_ex_cb, NULL, &task);
		if (-1 == rc) { rc = 0; task = NULL; final_seen = 1; final_error = -1; }	/* nothing could be scheduled: reported by the return value */
		break;
	case M_CONNRECV:
		conn_fd = socket(AF_INET, SOCK_STREAM | SOCK_NONBLOCK, 0);
		harness_connect = 1;
		connect(conn_fd, (struct sockaddr *)&addr_of[K_U], sizeof(struct sockaddr_in));
		harness_connect = 0;
		p.fd = conn_fd; p.events = POLLOUT; poll(&p, 1, 10000);
		rc = tp_task_connect_create(t0, (uintptr_t)conn_fd, 0, C.timeout ? TIMEOUT_MS : 0, connrecv_connect_cb, NULL, &task);
		break;
	case M_NOTIFY:
		if (0 != socketpair(AF_UNIX, SOCK_STREAM | SOCK_NONBLOCK, 0, sk)) { vh_fail("harness", "socketpair"); return; }
		peer_open = 1;
		if (C.evfl)
			rc = tp_task_create_start(t0, (uintptr_t)sk[0], tp_task_notify_handler, 0, TP_EV_READ, TP_F_DISPATCH, C.timeout ? TIMEOUT_MS : 0, 0, NULL, (tp_task_cb)notify_cb, NULL, &task);
		else
			rc = tp_task_notify_create(t0, (uintptr_t)sk[0], 0, TP_EV_READ, C.timeout ? TIMEOUT_MS : 0, notify_cb, NULL, &task);
		break;
	}
	if (0 != rc) { cfail("start-refused", "rc=%d", rc); }
	else {
		settle_left = (M_CONNECT == C.mode && C.nosettle) ? 0 : 16;
		rc = tp_thread_attach_first(tp);
		if (0 != rc) vh_fail("harness", "attach rc=%d", rc);
	}

	if (!case_failed) switch (C.mode) {
	case M_ACCEPT:
		if (!task_dead && n_accepted != ncli)
			cfail("connection-lost", "%d clients connected, %d delivered, task still armed", ncli, n_accepted);
		if (task_dead && n_accepted != C.policy)
			cfail("callback-after-stop", "%d connections delivered, the task was stopped after %d", n_accepted, C.policy);
		if (n_timeout_cb != fires_armed)
			cfail("timeout-count", "timer expired %d time(s) while armed, ETIMEDOUT reported %d time(s)", fires_armed, n_timeout_cb);
		break;
	case M_CONNECT:
		if (K_P == C.kind && p_answered) {	/* the connection was completed by the environment, before or after the timeout */
			if (1 != ncb) cfail((ncb > 1) ? "reported-twice" : "result-not-reported", "%d callbacks for one connect task (timeout elapsed first: %d, then the connection completed)", ncb, fires_armed);
			else if (conn_cb_error != ((fired_before_cb > 0) ? ETIMEDOUT : 0)) cfail("wrong-error", "reported %d", conn_cb_error);
		} else if (K_P == C.kind) {
			if (0 == fires_armed && 0 != ncb) cfail("spurious-callback", "callback (error %d) although the connection is still in progress and no timeout elapsed", conn_cb_error);
			if (fires_armed > 0 && 1 != ncb) cfail("timeout-count", "the timeout elapsed, %d callbacks", ncb);
			if (fires_armed > 0 && 1 == ncb && ETIMEDOUT != conn_cb_error) cfail("wrong-error", "timeout reported as %d", conn_cb_error);
		} else {
			int want = (K_U == C.kind) ? 0 : ECONNREFUSED;
			if (1 != ncb) cfail("result-not-reported", "%d callbacks for a connection that is %s", ncb, (K_U == C.kind) ? "established" : "refused");
			else if (conn_cb_error != want && !(fired_before_cb > 0 && ETIMEDOUT == conn_cb_error))
				cfail("wrong-error", "connection to a %c address reported as %d", kind_ch[C.kind], conn_cb_error);
		}
		if (fires_armed > 1) cfail("timer-left-armed", "the timeout timer could expire %d times", fires_armed);
		break;
	case M_CONNECT_EX:
		if ((final_seen || stopped_by_cb || task_dead) && natt != att_at_final)
			cfail("attempt-after-final", "%d connection attempts after the task was done", natt - att_at_final);
		if (!C.report_fail && 0 != n_fail_reports)
			cfail("unrequested-report", "%d failure reports without TP_TASK_F_CB_AFTER_EVERY_READ", n_fail_reports);
		if (!final_seen && !stopped_by_cb && !task_dead) {
			/* asked to continue: the task must still be going somewhere */
			int pending_conn = (att_fd >= 0);
			if (!cur_armed && !pending_conn)
				cfail("task-stalled", "no final report, no timer armed, no connection in progress after %d attempts", natt);
		}
		break;
	case M_CONNRECV:
		if (!task_dead && (int)rbuf.used != ((srv_sent < 16) ? srv_sent : 16))
			cfail("bytes-not-moved", "the server sent %d bytes, the armed task moved %zu", srv_sent, rbuf.used);
		if (n_timeout_cb != fires_armed)
			cfail("timeout-count", "timer expired %d time(s) while armed, ETIMEDOUT reported %d time(s)", fires_armed, n_timeout_cb);
		if (-2 == srv_fd && !task_dead && 0 == r_eof_cb)
			cfail("eof-lost", "the server closed, end of stream never reported");
		break;
	case M_NOTIFY:
		if (!task_dead && bytes_read != bytes_sent)
			cfail("data-not-notified", "%d bytes sent, the callback was shown %d, task still armed", bytes_sent, bytes_read);
		if (!task_dead && eof_armed && 0 == n_eof_cb)
			cfail("eof-lost", "the peer closed, end of stream never reported");
		if (n_timeout_cb != fires_armed)
			cfail("timeout-count", "timer expired %d time(s) while armed, ETIMEDOUT reported %d time(s)", fires_armed, n_timeout_cb);
		break;
	}
	if (NULL != task) tp_task_destroy(task);
	task = NULL;
	tp_destroy(tp); tp = NULL;
	for (i = 0; i < ncli; i ++) __real_close(cli[i]);
	if (conn_fd >= 0) __real_close(conn_fd);
	if (srv_fd >= 0) __real_close(srv_fd);
	if (sk[0] >= 0) __real_close(sk[0]);
	if (sk[1] >= 0) __real_close(sk[1]);
	drain_listener(K_U);
	if (p_answered) {	/* make P silent again: a fresh established connection that nobody accepts fills its queue */
		struct pollfd fp;
		drain_listener(K_P);
		__real_close(filler);
		harness_connect = 1;
		filler = socket(AF_INET, SOCK_STREAM | SOCK_NONBLOCK, 0);
		connect(filler, (struct sockaddr *)&addr_of[K_P], sizeof(struct sockaddr_in));
		harness_connect = 0;
		fp.fd = filler; fp.events = POLLOUT; poll(&fp, 1, 10000);
		p_answered = 0;
	}
	if (ncb > 0 && !case_failed) vh_nontrivial();
	vh_outcome(&ncb, sizeof(ncb)); vh_outcome(&natt, sizeof(natt)); vh_outcome(&n_accepted, sizeof(n_accepted)); vh_outcome(&final_error, sizeof(final_error));
}

static void
emit(void) {
	if (!vh_begin(mode_name[C.mode])) return;
	vh_set_describer(case_desc);
	run_case();
}

static void
gen_hist(const uint8_t *ops, const uint8_t *ks, int nops, int depth, int maxdepth) {
	int i;
	emit();
	if (depth >= maxdepth) return;
	for (i = 0; i < nops; i ++) {
		if (H_FIRE == ops[i] && !C.timeout) continue;
		C.h[C.nh].op = ops[i]; C.h[C.nh].k = ks[i]; C.nh ++;
		gen_hist(ops, ks, nops, depth + 1, maxdepth);
		C.nh --;
	}
}

static void
gen_connect_ex(void) {
	int code, i, n, nf;
	for (C.na = 1; C.na <= MAXA; C.na ++) {
		int ncodes = 1; for (i = 0; i < C.na; i ++) ncodes *= 3;
		for (code = 0; code < ncodes; code ++) {
			int c = code, has_p = 0;
			for (i = 0; i < C.na; i ++) { C.kinds[i] = c % 3; c /= 3; if (K_P == C.kinds[i]) has_p = 1; }
			if (has_p && !p_available) continue;
			for (C.timeout = 0; C.timeout < 2; C.timeout ++)
			for (C.max_tries = 0; C.max_tries <= 2; C.max_tries ++)
			for (C.rr = 0; C.rr < 2; C.rr ++)
			for (C.retry_delay = 0; C.retry_delay <= 60000; C.retry_delay += 60000)
			for (C.initial_delay = 0; C.initial_delay <= (C.retry_delay ? 1 : 0); C.initial_delay ++)
			for (C.report_fail = 0; C.report_fail < 2; C.report_fail ++)
			for (C.policy = 0; C.policy <= C.report_fail; C.policy ++) {
				(void)has_p;
				/* history: the timers expire one after the other; destroy after j steps */
				nf = vh_thorough ? 10 : 7;
				for (n = 0; n < nf; n ++) { C.h[n].op = H_FIRE; C.h[n].k = 0; }
				C.nh = nf; C.destroy_at = -1;
				emit();
				for (C.destroy_at = 0; C.destroy_at <= (vh_thorough ? nf : 3); C.destroy_at ++) emit();
				C.destroy_at = -1;
				if (C.timeout) { /* with a limit for all tries; the clock passes it at some point of the history */
					C.time_limit = 1;
					for (C.advance_at = -1; C.advance_at <= (vh_thorough ? 5 : 3); C.advance_at ++) emit();
					C.time_limit = 0; C.advance_at = -1;
				}
			}
		}
	}
}

int
main(int argc, char **argv) {
	static const uint8_t acc_ops[3] = { H_CONN, H_BURST, H_FIRE }, acc_ks[3] = { 0, 0, 0 };
	static const uint8_t con_ops[2] = { H_FIRE, H_SRVCLOSE }, con_ks[2] = { 0, 0 };
	static const uint8_t not_ops[5] = { H_DATA, H_DATA, H_FIRE, H_CLOSE, H_HALF }, not_ks[5] = { 1, 3, 0, 0, 0 };
	vh_init(argc, argv);
	signal(SIGPIPE, SIG_IGN);
	net_setup();
	memset(&C, 0, sizeof(C)); C.destroy_at = -1; C.advance_at = -1;
	C.mode = M_ACCEPT;
	for (C.evfl = 0; C.evfl < 2; C.evfl ++) for (C.timeout = 0; C.timeout < 2; C.timeout ++) for (C.policy = 0; C.policy <= 2; C.policy ++) {
		C.nh = 0; gen_hist(acc_ops, acc_ks, 3, 0, vh_thorough ? 7 : 5);
	}
	C.evfl = 0;
	C.mode = M_CONNECT; C.policy = 0;
	for (C.kind = 0; C.kind < 3; C.kind ++) for (C.timeout = 0; C.timeout < 2; C.timeout ++) for (C.nosettle = 0; C.nosettle < 2; C.nosettle ++) {
		if (K_P == C.kind && !p_available) continue;
		C.nh = 0; gen_hist(con_ops, con_ks, 2, 0, 4);
	}
	if (p_available) {	/* the silent address starts answering: before any timeout, after it, and with a further expiry behind */
		static const uint8_t pa[3][3] = { { H_PANSWER, 0, 0 }, { H_FIRE, H_PANSWER, 0 }, { H_FIRE, H_PANSWER, H_FIRE } };
		static const int pan[3] = { 1, 2, 3 };
		int q, j;
		C.kind = K_P; C.nosettle = 0;
		for (C.timeout = 0; C.timeout < 2; C.timeout ++) for (q = 0; q < 3; q ++) {
			if (!C.timeout && q > 0) continue;
			C.nh = pan[q];
			for (j = 0; j < pan[q]; j ++) { C.h[j].op = pa[q][j]; C.h[j].k = 0; }
			emit();
		}
		C.nh = 0;
	}
	C.nosettle = 0; C.kind = 0;
	C.mode = M_NOTIFY;
	for (C.evfl = 0; C.evfl < 2; C.evfl ++) for (C.timeout = 0; C.timeout < 2; C.timeout ++) for (C.policy = 0; C.policy <= 2; C.policy ++) {
		C.nh = 0; gen_hist(not_ops, not_ks, 5, 0, vh_thorough ? 6 : 5);
	}
	C.evfl = 0;
	{
		static const uint8_t cr_ops[4] = { H_SRVDATA, H_SRVDATA, H_FIRE, H_SRVCLOSE }, cr_ks[4] = { 1, 5, 0, 0 };
		C.mode = M_CONNRECV; C.policy = 0;
		for (C.timeout = 0; C.timeout < 2; C.timeout ++) { C.nh = 0; gen_hist(cr_ops, cr_ks, 4, 0, vh_thorough ? 6 : 5); }
	}
	C.mode = M_CONNECT_EX; C.policy = 0;
	gen_connect_ex();
	return (vh_finish());
}
