/* C16 - I/O tasks move exactly the bytes, in order, and report EOF, errors and timeouts.
 * Engine E2: real tpt_loop on this thread, wrapped epoll_wait plays the environment history
 * (arrival fragmentation, peer close, timer expiry, re-enable).  Real threadpool_task.c. */
#define _GNU_SOURCE
#include <errno.h>
#include <fcntl.h>
#include <poll.h>
#include <signal.h>
#include <sys/epoll.h>
#include <sys/socket.h>
#include <sys/timerfd.h>
#include <unistd.h>
#include "vh.h"
#include "threadpool/threadpool.h"
#include "threadpool/threadpool_msg_sys.h"
#include "threadpool/threadpool_task.h"

int	__real_epoll_wait(int, struct epoll_event *, int, int);
int	__real_timerfd_create(int, int);
int	__real_timerfd_settime(int, int, const struct itimerspec *, struct itimerspec *);
void	__wrap_syslog(int p, const char *f, ...) { (void)p; (void)f; }
void	__wrap_openlog(const char *a, int b, int c) { (void)a; (void)b; (void)c; }
void	lcb_verif_point(const char *tag) { (void)tag; }

static int rec_tfd_last = -1;
static struct itimerspec rec_spec;
static int rec_settime_calls;

int
__wrap_timerfd_create(int clk, int flags) {
	rec_tfd_last = __real_timerfd_create(clk, flags);
	return (rec_tfd_last);
}
int	__real_close(int);
int
__wrap_close(int fd) { /* the library closes a timerfd when it deletes the timer */
	if (fd == rec_tfd_last && fd >= 0) rec_tfd_last = -1;
	return (__real_close(fd));
}

int
__wrap_timerfd_settime(int fd, int flags, const struct itimerspec *n, struct itimerspec *o) {
	rec_settime_calls ++;
	rec_spec = *n;
	return (__real_timerfd_settime(fd, flags, n, o));
}

/* ------------------------------------------------------------------ case description */
enum { H_ARRIVE = 1, H_CLOSE, H_FIRE, H_ENABLE, H_DRAIN, H_RESTART, H_RESET };
typedef struct hstep_s { uint8_t op, k; } hstep_t;
#define MAXH 12
enum { POL_CONTINUE = 0, POL_STOP_AT_1, POL_STOP_AT_2, POL_DESTROY_AT_1, POL_DESTROY_AT_2, POL_NONE_AT_1_THEN_ENABLE, POL_NONE_AT_2_THEN_ENABLE, POL_START_PERSISTENT_AT_1, POL_N };
static const char *polname[] = { "continue", "stop@1", "stop@2", "destroy@1", "destroy@2", "none@1+enable", "none@2+enable", "start-again-persistent@1" };
#define TIMEOUT_MS 3600000ull

typedef struct cfg_s {
	int	send;		/* 0 = receive task, 1 = send task */
	uint16_t evflags;	/* 0, TP_F_ONESHOT, TP_F_DISPATCH */
	int	every_read;
	int	sfio;		/* shedule_first_io argument */
	int	timeout;	/* 0 / 1 */
	int	size, off, ts;	/* buffer window */
	int	used_zero;	/* 1: buf->used starts at 0 although the window starts at off > 0 */
	int	pol;
	int	pre;		/* number of history steps applied before the task is started */
	int	refuse;		/* 1: the task sits on a descriptor epoll refuses (/dev/null: EPERM), the scheduled start must fail;
				 * 2: then stopped and tp_task_enable(1) tried, which must fail as well */
	int	nh;
	hstep_t	h[MAXH];
} cfg_t;
static cfg_t C;

static const uint8_t PAY[16] = "abcdefghijklmnop";
#define CANARY 0xEE

/* ------------------------------------------------------------------ run state */
static tp_p tp;
static tpt_p t0;
static tp_task_p task;
static io_buf_t buf;
static uint8_t bufmem[64];
static int sk[2];		/* sk[0] = task side, sk[1] = peer */
static int peer_open;
static int arrived;		/* bytes written by the peer so far (recv) / bytes read by the peer (send) */
static int reported;		/* sum of transfered_size given to callbacks (of the current run) */
static int run_base;		/* buffer offset at which the current run of the task was started */
static int ncb, n_eof_cb, n_timeout_cb, fires_armed;
static int task_dead;		/* stop/destroy returned (no further callback allowed) */
static int peer_reset, reset_while_armed, n_reset_cb;
static int task_destroyed;
static int task_refused, refused_fd = -1;
static int task_paused;		/* dispatch + non-continue return: silent until re-enabled */
static int task_started;
static int in_start, paused_unscheduled;
static int cur_step, settle_left, shutdown_sent;
static int case_failed;
static uint8_t peer_got[64];

static void
cfail(const char *clause, const char *fmt, ...) {
	char m[300]; va_list ap;
	va_start(ap, fmt); vsnprintf(m, sizeof(m), fmt, ap); va_end(ap);
	case_failed = 1;
	vh_fail(clause, "step %d cb#%d: %s", cur_step, ncb, m);
}

static void
case_desc(char *b, size_t n) {
	int i; size_t o;
	o = (size_t)snprintf(b, n, "%s%s evfl=%d every=%d sfio=%d tmo=%d win(size=%d,off=%d,ts=%d,used0=%d) pol=%s pre=%d hist:", C.send ? "send" : "recv", (1 == C.refuse) ? " on a descriptor epoll refuses (/dev/null)" : (2 == C.refuse) ? " on a descriptor epoll refuses (/dev/null), then stop + tp_task_enable(1)" : "",
	    C.evflags, C.every_read, C.sfio, C.timeout, C.size, C.off, C.ts, C.used_zero ? 0 : C.off, polname[C.pol], C.pre);
	for (i = 0; i < C.nh && o + 12 < n; i ++) {
		switch (C.h[i].op) {
		case H_ARRIVE: o += (size_t)snprintf(b + o, n - o, " +%d", C.h[i].k); break;
		case H_CLOSE: o += (size_t)snprintf(b + o, n - o, " close"); break;
		case H_RESET: o += (size_t)snprintf(b + o, n - o, " reset"); break;
		case H_FIRE: o += (size_t)snprintf(b + o, n - o, " fire"); break;
		case H_RESTART: o += (size_t)snprintf(b + o, n - o, " stop+start"); break;
		case H_ENABLE: o += (size_t)snprintf(b + o, n - o, " enable"); break;
		case H_DRAIN: o += (size_t)snprintf(b + o, n - o, " drain%d", C.h[i].k); break;
		}
	}
}

static void
check_buffer(const char *when) {
	int i, consumed = (int)buf.offset - C.off;

	if (buf.offset + buf.transfer_size > buf.size)
		cfail("window-exceeds-buffer", "%s: offset %zu + transfer_size %zu > size %zu", when, buf.offset, buf.transfer_size, buf.size);
	if (consumed < 0 || consumed > C.ts)
		cfail("cursor-out-of-window", "%s: offset moved by %d, window is %d", when, consumed, C.ts);
	if ((int)buf.transfer_size != C.ts - consumed)
		cfail("cursor-inconsistent", "%s: offset advanced by %d but transfer_size went %d -> %zu", when, consumed, C.ts, buf.transfer_size);
	if (!C.send) {
		if ((int)buf.used != (C.used_zero ? 0 : C.off) + consumed)
			cfail("cursor-inconsistent", "%s: offset advanced by %d but used is %zu (was %d)", when, consumed, buf.used, C.used_zero ? 0 : C.off);
		if (consumed > arrived)
			cfail("bytes-invented", "%s: %d bytes in the buffer but only %d arrived", when, consumed, arrived);
		for (i = 0; i < consumed && i < 16; i ++) {
			if (bufmem[8 + C.off + i] != PAY[i]) {
				cfail("bytes-wrong", "%s: buffer byte %d is %02x, stream byte is %02x", when, i, bufmem[8 + C.off + i], PAY[i]);
				break;
			}
		}
		for (i = 0; i < (int)sizeof(bufmem); i ++) {
			if (i >= 8 + C.off && i < 8 + C.off + C.ts)
				continue;
			if (bufmem[i] != CANARY) {
				cfail("write-outside-window", "%s: byte at window offset %d was modified", when, i - 8 - C.off);
				break;
			}
		}
	}
}

static int ncb_after_reset;
static int ncb_at_reset_ok(void) { return (ncb_after_reset > 0 || !task_dead); }	/* a task that was stopped before any event after the reset owes nothing */

static int
task_cb(tp_task_p tptask, int error, io_buf_p b, uint32_t eof, size_t transfered_size, void *udata) {
	(void)udata;
	ncb ++;
	if (task_refused) {
		cfail("callback-after-refused-start", "callback (error %d) on a task whose tp_task_start_ex()%s returned an error", error, (2 == C.refuse) ? " and tp_task_enable()" : "");
		if (ETIMEDOUT == error)
			cfail("spurious-timeout", "ETIMEDOUT reported for a task that was never scheduled: its start was refused");
		return (TP_TASK_CB_NONE);
	}
	if (task_dead) {
		cfail("callback-after-stop", "callback after tp_task_%s() returned", task_destroyed ? "destroy" : "stop");
		return (TP_TASK_CB_NONE);
	}
	if (task_paused)
		cfail("callback-while-paused", "dispatch task called back again before tp_task_enable()");
	if (tptask != task || b != &buf)
		cfail("wrong-task-args", "callback got another task/buffer");
	reported += (int)transfered_size;
	if (peer_reset) ncb_after_reset ++;
	check_buffer("in callback");
	if (reported != (int)buf.offset - run_base)
		cfail("transferred-count", "sum of transferred sizes %d but cursor advanced by %d%s", reported, (int)buf.offset - run_base, (run_base != C.off) ? " since the task was started again" : "");
	if (0 != error) {
		if (ETIMEDOUT == error) {
			n_timeout_cb ++;
			if (n_timeout_cb > fires_armed)
				cfail("spurious-timeout", "ETIMEDOUT reported %d times, the timer expired %d times while armed", n_timeout_cb, fires_armed);
		} else if (ECONNRESET == error && peer_reset) {
			n_reset_cb ++;
		} else if (!(C.send && !peer_open)) {
			cfail("unexpected-error", "callback error %d", error);
		}
	}
	if (0 != eof) {
		n_eof_cb ++;
		if (peer_open)
			cfail("spurious-eof", "eof flags %#x but the peer has not closed", eof);
		/* "delivers exactly the bytes that arrived ... end of stream is reported": what arrived before the close comes first */
		if (!C.send && 0 == error && (int)buf.offset - C.off < ((arrived < C.ts) ? arrived : C.ts))
			cfail("eof-before-data", "end of stream reported (flags %#x) while only %d of the %d bytes that arrived (window %d) were delivered", eof, (int)buf.offset - C.off, arrived, C.ts);
	}
	/* policy */
	if (0 != eof || (0 != error && ETIMEDOUT != error) || 0 == buf.transfer_size) { /* finished: stop as the API documents */
		tp_task_stop(task);
		task_dead = 1;
		return ((0 != eof) ? TP_TASK_CB_EOF : TP_TASK_CB_NONE);
	}
	if (0 != (C.evflags & TP_F_ONESHOT)) { /* "should not return CONTINUE if TP_F_ONESHOT is set" */
		task_dead = 1; /* the registration is gone; nothing may call back again */
		tp_task_stop(task);
		return (TP_TASK_CB_NONE);
	}
	switch (C.pol) {
	case POL_STOP_AT_1: case POL_STOP_AT_2:
		if (ncb == (POL_STOP_AT_1 == C.pol ? 1 : 2)) { tp_task_stop(task); task_dead = 1; return (TP_TASK_CB_NONE); }
		break;
	case POL_DESTROY_AT_1: case POL_DESTROY_AT_2:
		if (ncb == (POL_DESTROY_AT_1 == C.pol ? 1 : 2)) { tp_task_destroy(task); task_dead = 1; task_destroyed = 1; return (TP_TASK_CB_NONE); }
		break;
	case POL_START_PERSISTENT_AT_1:	/* a dispatch task whose first callback starts the task again for the rest of the window,
					 * persistent this time, without stopping it first, and does not ask to continue */
		if (1 == ncb && 0 != (C.evflags & TP_F_DISPATCH)) {
			run_base = (int)buf.offset; reported = 0;
			if (0 != tp_task_start(task, C.send ? TP_EV_WRITE : TP_EV_READ, 0, C.timeout ? TIMEOUT_MS : 0, 0, &buf, task_cb))
				cfail("start-refused", "tp_task_start from the callback failed");
			return (TP_TASK_CB_NONE);
		}
		break;
	case POL_NONE_AT_1_THEN_ENABLE:
	case POL_NONE_AT_2_THEN_ENABLE:
		if (((POL_NONE_AT_1_THEN_ENABLE == C.pol) ? 1 : 2) == ncb && 0 != (C.evflags & TP_F_DISPATCH)) {
			task_paused = 1; paused_unscheduled = in_start; return (TP_TASK_CB_NONE);
		}
		break;
	}
	return (TP_TASK_CB_CONTINUE);
}

static void
start_task(void) {
	int rc;
	if (C.refuse) {
		/* "timeouts are reported" for a task that waits; a start that returned an error must leave nothing behind that
		 * could call back: no registration, no armed timer */
		refused_fd = open("/dev/null", (C.send ? O_WRONLY : O_RDONLY) | O_NONBLOCK);
		if (refused_fd < 0) { cfail("harness", "open /dev/null"); return; }
		rc = tp_task_create(t0, (uintptr_t)refused_fd, C.every_read ? tp_task_sr_handler : tp_task_rw_handler, 0, NULL, &task);
		if (0 != rc) { cfail("harness", "tp_task_create rc=%d", rc); return; }
		task_started = 1;
		rc = tp_task_start_ex(1, task, C.send ? TP_EV_WRITE : TP_EV_READ, C.evflags, C.timeout ? TIMEOUT_MS : 0, 0, &buf, task_cb);
		if (0 == rc)
			return; /* not refused on this kernel: an ordinary task, nothing to demand */
		if (2 == C.refuse) {
			tp_task_stop(task);
			if (0 == tp_task_enable(task, 1))
				return;
		}
		task_refused = 1; task_dead = 1;
		if (rec_tfd_last >= 0 && (0 != rec_spec.it_value.tv_sec || 0 != rec_spec.it_value.tv_nsec))
			cfail("timer-left-armed", "%s returned an error but the timeout timer it created is still armed (%ld s)", (2 == C.refuse) ? "tp_task_enable()" : "tp_task_start_ex()", (long)rec_spec.it_value.tv_sec);
		return;
	}
	rc = tp_task_create(t0, (uintptr_t)sk[0], tp_task_sr_handler, C.every_read ? TP_TASK_F_CB_AFTER_EVERY_READ : 0, NULL, &task);
	if (0 != rc) { cfail("harness", "tp_task_create rc=%d", rc); return; }
	task_started = 1;
	in_start = 1;
	rc = tp_task_start_ex(C.sfio, task, C.send ? TP_EV_WRITE : TP_EV_READ, C.evflags, C.timeout ? TIMEOUT_MS : 0, 0, &buf, task_cb);
	in_start = 0;
	if (0 != rc)
		cfail("start-refused", "tp_task_start_ex rc=%d", rc);
}

static int
timer_armed_now(void) {
	return (C.timeout && task_started && !task_dead && !task_paused);
}

static void
apply(const hstep_t *s) {
	struct itimerspec its;
	struct pollfd pfd;
	int i, n;
	char tmp[64];

	switch (s->op) {
	case H_ARRIVE:
		if (peer_open && arrived + s->k <= 16 && (ssize_t)s->k == write(sk[1], PAY + arrived, s->k))
			arrived += s->k;
		break;
	case H_CLOSE:
		if (peer_open) { close(sk[1]); sk[1] = -1; peer_open = 0; }
		break;
	case H_RESET: /* the peer goes away with unread data of ours in its queue: the connection is reset (ECONNRESET),
		       * what it had sent before is still readable */
		if (peer_open) {
			if (3 != write(sk[0], "xyz", 3)) cfail("harness", "write towards the peer");
			close(sk[1]); sk[1] = -1; peer_open = 0; peer_reset = 1;
			if (task_started && !task_dead && !task_paused) reset_while_armed = 1;
		}
		break;
	case H_FIRE:
		/* Also while a dispatch task is paused: the library must have silenced its timer, so an
		 * expiry then must not reach the callback (it is not counted as "expired while armed"). */
		/* Also after stop/destroy: a timer the library forgot to delete is still part of the
		 * environment; on the correct tree the timerfd is closed by then and the step is a no-op. */
		if (!(C.timeout && task_started) || rec_tfd_last < 0)
			break;
		/* "inactivity longer than the configured timeout is reported": while the task waits with a timeout configured,
		 * the library's own last timerfd_settime() must have armed the timer, with the configured value */
		if (timer_armed_now()) {
			if (0 == rec_spec.it_value.tv_sec && 0 == rec_spec.it_value.tv_nsec)
				cfail("timeout-not-armed", "the task waits with a timeout configured but the library's last timerfd_settime() disarmed the timer");
			else if ((time_t)(TIMEOUT_MS / 1000) != rec_spec.it_value.tv_sec || 0 != rec_spec.it_value.tv_nsec)
				cfail("timeout-value", "timer programmed with %ld s %ld ns, configured timeout is %llu ms", (long)rec_spec.it_value.tv_sec, (long)rec_spec.it_value.tv_nsec, (unsigned long long)TIMEOUT_MS);
		}
		memset(&its, 0, sizeof(its));
		its.it_value.tv_nsec = 1;
		__real_timerfd_settime(rec_tfd_last, 0, &its, NULL);
		pfd.fd = rec_tfd_last; pfd.events = POLLIN;
		for (i = 0; i < 1000 && 1 != poll(&pfd, 1, 10); i ++)
			;
		if (timer_armed_now())
			fires_armed ++;
		break;
	case H_RESTART: /* the owner (on the pool thread, between events) stops the task and starts it again over the rest
			 * of the window; what the abandoned run took in without reporting does not belong to the new run */
		if (!task_started || task_dead || task_paused || NULL == task || 0 == buf.transfer_size)
			break;
		tp_task_stop(task);
		run_base = (int)buf.offset; reported = 0;
		if (0 != tp_task_start_ex(1, task, C.send ? TP_EV_WRITE : TP_EV_READ, C.evflags, C.timeout ? TIMEOUT_MS : 0, 0, &buf, task_cb))
			cfail("start-refused", "tp_task_start_ex of a stopped task failed");
		break;
	case H_ENABLE:
		if (task_paused && !task_dead) {
			task_paused = 0;
			/* a task whose first I/O was done directly and was not continued has never been
			 * scheduled: tp_task_restart() is the documented way to schedule it */
			if (0 != (paused_unscheduled ? tp_task_restart(task) : tp_task_enable(task, 1)))
				cfail("enable-refused", "tp_task_%s failed", paused_unscheduled ? "restart" : "enable");
			paused_unscheduled = 0;
		}
		break;
	case H_DRAIN: /* send direction: the peer reads k bytes */
		if (peer_open) {
			n = (int)read(sk[1], tmp, s->k);
			if (n > 0 && arrived + n <= (int)sizeof(peer_got)) { memcpy(peer_got + arrived, tmp, (size_t)n); arrived += n; }
		}
		break;
	}
}

int
__wrap_epoll_wait(int epfd, struct epoll_event *ev, int maxev, int timeout) {
	int n;

	if (timeout >= 0 || NULL == tp)
		return (__real_epoll_wait(epfd, ev, maxev, timeout));
	for (;;) {
		if (settle_left > 0) {
			n = __real_epoll_wait(epfd, ev, 1, 0);
			if (n > 0) { settle_left --; return (n); }
			settle_left = 0;
		}
		if (shutdown_sent) {
			n = __real_epoll_wait(epfd, ev, 1, 1000);
			if (n <= 0) cfail("harness", "shutdown message never became ready");
			return (n);
		}
		if (!task_started && cur_step >= C.pre) {
			start_task();
			settle_left = 8;
			continue;
		}
		if (cur_step >= C.nh) {
			tp_shutdown(tp);
			shutdown_sent = 1;
			continue;
		}
		apply(&C.h[cur_step]);
		cur_step ++;
		settle_left = 8;
	}
}

static void
run_case(void) {
	tp_settings_t s;
	int rc, consumed, i;

	case_failed = 0;
	tp_settings_def(&s); s.flags = 0; s.threads_max = 1;
	tp = NULL;
	if (0 != tp_create(&s, &tp)) { vh_fail("harness", "tp_create"); return; }
	t0 = tp_thread_get(tp, 0);
	if (0 != socketpair(AF_UNIX, SOCK_STREAM | SOCK_NONBLOCK, 0, sk)) { vh_fail("harness", "socketpair"); return; }
	peer_open = 1; peer_reset = reset_while_armed = n_reset_cb = ncb_after_reset = 0; arrived = 0; reported = 0; run_base = C.off; ncb = n_eof_cb = n_timeout_cb = fires_armed = 0;
	task_dead = task_destroyed = task_paused = task_started = 0; task_refused = 0; refused_fd = -1; task = NULL; in_start = paused_unscheduled = 0;
	cur_step = 0; settle_left = 0; shutdown_sent = 0; rec_tfd_last = -1;
	memset(bufmem, CANARY, sizeof(bufmem));
	memset(&buf, 0, sizeof(buf));
	buf.data = bufmem + 8;
	buf.size = (size_t)C.size;
	buf.offset = (size_t)C.off;
	buf.transfer_size = (size_t)C.ts;
	buf.used = C.used_zero ? 0 : (C.send ? (size_t)(C.off + C.ts) : (size_t)C.off);
	if (C.send)
		memcpy(bufmem + 8 + C.off, PAY, (size_t)C.ts);
	rc = tp_thread_attach_first(tp);
	if (0 != rc) vh_fail("harness", "attach rc=%d", rc);

	/* ---- final checks: the system is quiet ---- */
	if (task_started && !case_failed) {
		check_buffer("at the end");
		consumed = (int)buf.offset - C.off;
		if (!C.send) {
			int want = (arrived < C.ts) ? arrived : C.ts;
			/* a task that was armed the whole time must have taken everything that arrived and fits */
			if (!task_dead && !task_paused && 0 == (C.evflags & TP_F_ONESHOT) && consumed != want)
				cfail("bytes-not-moved", "the task stayed armed, %d bytes arrived, window %d, but only %d were moved", arrived, C.ts, consumed);
			if (!peer_open && !task_dead && !task_paused && 0 == n_eof_cb && 0 == (C.evflags & TP_F_ONESHOT) && consumed < C.ts)
				cfail("eof-not-reported", "the peer closed while the task was armed but no callback carried EOF");
		} else {
			/* drain the rest and compare the stream */
			char tmp[64]; int n;
			while (peer_open && 0 < (n = (int)read(sk[1], tmp, sizeof(tmp)))) {
				if (arrived + n <= (int)sizeof(peer_got)) { memcpy(peer_got + arrived, tmp, (size_t)n); arrived += n; }
			}
			if (peer_open) {
				if (arrived != consumed)
					cfail("bytes-emitted-mismatch", "cursor says %d bytes sent, the peer received %d", consumed, arrived);
				for (i = 0; i < arrived; i ++) {
					if (peer_got[i] != PAY[i]) { cfail("bytes-wrong", "emitted byte %d is %02x want %02x", i, peer_got[i], PAY[i]); break; }
				}
				if (!task_dead && !task_paused && 0 == (C.evflags & TP_F_ONESHOT) && consumed != C.ts)
					cfail("bytes-not-moved", "send task stayed armed but emitted %d of %d bytes", consumed, C.ts);
			}
		}
		if (n_eof_cb > 1)
			cfail("eof-reported-twice", "EOF reported %d times", n_eof_cb);
		/* "socket errors ... are each reported once to the callback" */
		if (n_reset_cb > 1)
			cfail("socket-error-reported-twice", "ECONNRESET reported %d times", n_reset_cb);
		if (!C.send && reset_while_armed && 0 == n_reset_cb && 0 == (C.evflags & TP_F_ONESHOT) && ncb_at_reset_ok())
			cfail("socket-error-not-reported", "the peer reset the connection while the task was armed, no callback carried the error");
		if (fires_armed > 0 && n_timeout_cb != fires_armed)
			cfail("timeout-count", "timer expired %d time(s) while the task was armed, ETIMEDOUT reported %d time(s)", fires_armed, n_timeout_cb);
	}
	if (NULL != task && !task_destroyed)
		tp_task_destroy(task);
	tp_destroy(tp); tp = NULL;
	if (refused_fd >= 0) close(refused_fd);
	close(sk[0]);
	if (sk[1] >= 0) close(sk[1]);
	if ((ncb > 0 || task_refused) && !case_failed)
		vh_nontrivial();
	vh_outcome(&ncb, sizeof(ncb));
	vh_outcome(&reported, sizeof(reported));
}

/* ------------------------------------------------------------------ enumeration */
static int payload_len = 6;

static void
emit_case(void) {
	if (!vh_begin(C.refuse ? "refused_start" : C.send ? "send_task" : "recv_task"))
		return;
	vh_set_describer(case_desc);
	run_case();
}

/* all compositions of `left` bytes; optional close / fire / enable inserted */
static void
gen_hist(int left, int used_close, int used_fire, int used_enable) {
	int k;
	static int used_restart = 0;

	if (C.nh >= MAXH - 1)
		return;
	if (0 == left || used_close) {
		/* pre = 2: the data AND the peer's close / reset are both there before the task is started - one event carries both */
		for (C.pre = 0; C.pre <= ((C.nh > 1 && H_ARRIVE == C.h[0].op && (H_CLOSE == C.h[1].op || H_RESET == C.h[1].op)) ? 2 : (C.nh > 0) ? 1 : 0); C.pre ++)
			emit_case();
		C.pre = 0;
		if (0 == left && used_close) return;
	}
	if (!used_close) {
		C.h[C.nh].op = H_CLOSE; C.h[C.nh].k = 0; C.nh ++;
		gen_hist(left, 1, used_fire, used_enable);
		C.nh --;
		if (!C.send && POL_CONTINUE == C.pol && !C.used_zero) {
			C.h[C.nh].op = H_RESET; C.h[C.nh].k = 0; C.nh ++;
			gen_hist(left, 1, used_fire, used_enable);
			C.nh --;
		}
	}
	if (used_close)
		return;
	if (C.timeout && !used_fire) {
		C.h[C.nh].op = H_FIRE; C.h[C.nh].k = 0; C.nh ++;
		gen_hist(left, used_close, 1, used_enable);
		C.nh --;
	}
	if ((POL_NONE_AT_1_THEN_ENABLE == C.pol || POL_NONE_AT_2_THEN_ENABLE == C.pol) && !used_enable && C.nh > 0) {
		C.h[C.nh].op = H_ENABLE; C.h[C.nh].k = 0; C.nh ++;
		gen_hist(left, used_close, used_fire, 1);
		C.nh --;
	}
	if (POL_CONTINUE == C.pol && !used_restart && C.nh > 0 && !C.used_zero) {
		C.h[C.nh].op = H_RESTART; C.h[C.nh].k = 0; C.nh ++;
		used_restart = 1;
		gen_hist(left, used_close, used_fire, used_enable);
		used_restart = 0;
		C.nh --;
	}
	for (k = 1; k <= left; k ++) {
		C.h[C.nh].op = C.send ? H_DRAIN : H_ARRIVE; C.h[C.nh].k = (uint8_t)k; C.nh ++;
		gen_hist(left - k, used_close, used_fire, used_enable);
		C.nh --;
	}
}

int
main(int argc, char **argv) {
	static const uint16_t evf[3] = { 0, TP_F_ONESHOT, TP_F_DISPATCH };
	static const int wins[][3] = { { 6, 0, 6 }, { 8, 1, 6 }, { 8, 3, 5 }, { 8, 0, 1 }, { 4, 1, 3 }, { 8, 0, 8 } };
	int i, f, w, nwin;

	vh_init(argc, argv);
	signal(SIGPIPE, SIG_IGN);
	for (i = 1; i < argc; i ++) {
		if (0 == strcmp(argv[i], "--payload") && i + 1 < argc)
			payload_len = atoi(argv[i + 1]);
	}
	nwin = (int)(sizeof(wins) / sizeof(wins[0]));
	/* starts that the event layer refuses (prediction 19 of DESIGN 11): with and without a timeout, then the timer expiry */
	memset(&C, 0, sizeof(C));
	for (C.refuse = 1; C.refuse <= 2; C.refuse ++)
	for (C.send = 0; C.send < 2; C.send ++)
	for (f = 0; f < 3; f ++)
	for (C.every_read = 0; C.every_read < 2; C.every_read ++)
	for (C.timeout = 0; C.timeout < 2; C.timeout ++)
	for (i = 0; i < 2; i ++) {
		C.evflags = evf[f]; C.sfio = 1; C.size = 8; C.off = 1; C.ts = 6; C.pol = POL_CONTINUE; C.pre = 0;
		C.nh = 0;
		if (i) { C.h[0].op = H_FIRE; C.h[0].k = 0; C.nh = 1; }
		emit_case();
	}
	memset(&C, 0, sizeof(C));
	for (C.send = 0; C.send < 2; C.send ++)
	for (f = 0; f < 3; f ++)
	for (C.every_read = 0; C.every_read < (C.send ? 1 : 2); C.every_read ++)
	for (C.sfio = 0; C.sfio < 2; C.sfio ++)
	for (C.timeout = 0; C.timeout < 2; C.timeout ++)
	for (w = 0; w < nwin; w ++)
	for (C.pol = 0; C.pol < POL_N; C.pol ++) {
		C.evflags = evf[f];
		C.size = wins[w][0]; C.off = wins[w][1]; C.ts = wins[w][2];
		C.used_zero = 0;
		if ((POL_NONE_AT_1_THEN_ENABLE == C.pol || POL_NONE_AT_2_THEN_ENABLE == C.pol) && TP_F_DISPATCH != C.evflags)
			continue;
		if (TP_F_ONESHOT == C.evflags && POL_CONTINUE != C.pol)
			continue;
		if (POL_START_PERSISTENT_AT_1 == C.pol && (TP_F_DISPATCH != C.evflags || C.send))
			continue;
		if (!vh_thorough && (w >= 4 || (C.pol == POL_STOP_AT_2) || (C.pol == POL_DESTROY_AT_2)) && C.timeout)
			continue;	/* quick: thin out the product, every option value still occurs */
		C.nh = 0; C.pre = 0;
		gen_hist(C.send ? C.ts : payload_len, 0, 0, 0);
		/* the same window with buf->used == 0 (the caller tracks "used" itself): only where it differs */
		if (C.off > 0 && POL_CONTINUE == C.pol && 0 == C.timeout) {
			C.used_zero = 1; C.nh = 0; C.pre = 0;
			gen_hist(C.send ? C.ts : payload_len, 0, 0, 0);
			C.used_zero = 0;
		}
	}
	return (vh_finish());
}
