import os
from vlib import core

WRAPS = ['epoll_wait', 'timerfd_create', 'timerfd_settime', 'syslog', 'openlog', 'close']
B_TARGETS = ('send_task_shortwrite', 'pkt_rcvr_task')
C_TARGETS = ('accept_task', 'connect_task', 'connect_ex_task', 'notify_task', 'connect_then_recv_task')


def _srcs(main):
    return [main, core.repo_src('threadpool', 'threadpool.c'), core.repo_src('threadpool', 'threadpool_msg_sys.c'),
            core.repo_src('threadpool', 'threadpool_task.c'), core.repo_src('net', 'socket.c'), core.repo_src('net', 'socket_address.c'),
            core.repo_src('net', 'socket_options.c'), core.repo_src('net', 'utils.c'), core.repo_src('utils', 'sys.c')]


def _build_b():
    return core.compile_c('C16', 'h_c16b', _srcs('harness/C16/h_c16b.c'), flags=['-pthread', '-Wl,' + ','.join('--wrap=' + w for w in WRAPS)])


def _build_c():
    return core.compile_c('C16', 'h_c16c', _srcs('harness/C16/h_c16c.c'), flags=['-pthread', '-Wl,' + ','.join('--wrap=' + w for w in WRAPS + ['connect', 'clock_gettime'])])


def _build():
    srcs = ['harness/C16/h_c16.c', core.repo_src('threadpool', 'threadpool.c'), core.repo_src('threadpool', 'threadpool_msg_sys.c'),
            core.repo_src('threadpool', 'threadpool_task.c'), core.repo_src('net', 'socket.c'), core.repo_src('net', 'socket_address.c'),
            core.repo_src('net', 'socket_options.c'), core.repo_src('net', 'utils.c'), core.repo_src('utils', 'sys.c')]
    return core.compile_c('C16', 'h_c16', srcs, flags=['-pthread', '-Wl,' + ','.join('--wrap=' + w for w in WRAPS)])


def run(tier):
    rep = core.Report('C16', tier, 'model_checking',
        'every task configuration (direction x event flags x callback-after-every-read x first-io scheduling x timeout x buffer window x '
        'callback policy) crossed with every environment history (all fragmentations of the payload arrival, peer close at any position, '
        'timer expiry at any position, re-enable) is played into the real event loop and the real threadpool_task handlers; the accept, connect, '
        'connect_ex and notify variants run against the real loop-back TCP stack (listening / refusing / never-answering addresses) with every '
        'history of connections, expiries, closes and destroy points up to the depth bound; '
        'byte-stream and cursor invariants are checked in every callback and at quiescence; non-trivial = at least one task callback ran')
    rep.assumptions = ['stream sockets over AF_UNIX socketpair, loop-back TCP for accept/connect; one loop thread; callbacks follow the documented return-code contract '
                       '(stop the task before returning a non-CONTINUE code unless TP_F_DISPATCH)']
    b = _build()
    core.run_sharded(rep, b, tier, hang_s=120, extra_args=(['--payload', '8'] if tier == 'thorough' else []))
    b2 = _build_b()
    core.run_sharded(rep, b2, tier, hang_s=120)
    b3 = _build_c()
    core.run_sharded(rep, b3, tier, hang_s=120)
    n = int(rep.total('run'))
    rep.extra['states'] = n
    rep.extra['transitions'] = n
    rep.extra['traces_validated_against_impl'] = n
    rep.extra['explanation'] = 'states = (configuration, history) pairs executed on the real loop; every one is a trace of the implementation'
    r1 = core.make_replayer(lambda cfg: b, tier, extra_args=(['--payload', '8'] if tier == 'thorough' else []))
    r2 = core.make_replayer(lambda cfg: b2, tier)
    r3 = core.make_replayer(lambda cfg: b3, tier)
    rep.finish(lambda target, clause, idx, config: (r2 if target in B_TARGETS else r3 if target in C_TARGETS else r1)(target, clause, idx, config))


def replay(r, tier):
    import subprocess, sys
    b = _build_b() if r['target'] in B_TARGETS else _build_c() if r['target'] in C_TARGETS else _build()
    p = subprocess.run([b, '--tier', tier, '--only', '%s#%s' % (r['target'], r['index'])], capture_output=True)
    sys.stdout.write(p.stdout.decode('utf-8', 'replace'))
    return 1 if b'VIOL\t' in p.stdout else 0
