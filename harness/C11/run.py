import os
from vlib import core, e1

OPS = dict(END=0, CREATE=1, TCREATE0=2, TCREATE1=3, ATTACH=4, INFL_MSG=5, INFL_READ=6, INFL_TIMER=7,
           SHUT=8, SHUT_B=9, SHUT_W=10, WAIT=11, DESTROY=12, QUIESCE=13, INFL_BUSY=14, GATE_B=15, HOOK_WAITS=16,
           INFL_STUCK=17, INFL_SYNC_BCAST=18, LATE_AOP=19, HOOK_GATE=20, TIMER_ABS=21, INFL_CBSEND_SKIP=22, INFL_CBSEND_OTHER=23, ATTACH_H=24)
FAULTS_CREATE = 'SC_F_CALLOC|SC_F_EPOLL_CREATE|SC_F_PIPE2|SC_F_EPOLL_CTL|SC_F_PTHREAD_CREATE'


def scripts():
    """All life-cycle scripts (length <= 8 ops) that respect the documented call contract."""
    out = []
    for W in (1, 2):
        for start in ('none', 'all', 'skip1', 'skip1+attach'):
            for infl in ('none', 'MSG', 'READ', 'TIMER'):
                # in-flight work needs a running target (the last worker)
                target_runs = (start == 'all') or (start in ('skip1', 'skip1+attach') and W >= 2)
                if infl != 'none' and not target_runs:
                    continue
                for shut in ('SHUT', 'SHUT,SHUT', 'SHUT_B,SHUT', 'SHUT_W', 'SHUT_W,SHUT', 'none'):
                    if 'SHUT_W' in shut and not target_runs:
                        continue
                    for wait in ('WAIT', 'none', 'WAIT,WAIT'):
                        ops = ['CREATE']
                        if start == 'all':
                            ops.append('TCREATE0')
                        elif start.startswith('skip1'):
                            ops.append('TCREATE1')
                        if infl != 'none':
                            ops.append('INFL_' + infl)
                        if start == 'skip1+attach':
                            # the attaching thread is the main thread: shutdown must come from elsewhere
                            if shut in ('SHUT', 'SHUT,SHUT', 'none'):
                                continue
                            pre = [o for o in shut.split(',') if o in ('SHUT_B', 'SHUT_W')]
                            post = [o for o in shut.split(',') if o == 'SHUT']
                            ops += pre + ['ATTACH'] + post
                        elif shut != 'none':
                            ops += shut.split(',')
                        if wait != 'none':
                            if shut == 'none':
                                continue        # shutdown_wait before shutdown returns EBUSY: not interesting twice
                            ops += wait.split(',')
                        ops.append('DESTROY')
                        name = 'life/W%d/%s/%s/%s/%s' % (W, start, infl, shut.replace(',', '+'), wait.replace(',', '+'))
                        out.append((name, W, '0', ops))
    # a callback is still working (parked on a gate) when the pool is shut down; another thread lets it finish at any time
    for W in (1, 2):
        for shut in ('SHUT', 'SHUT_B,SHUT', 'none'):
            for wait in ('WAIT', 'none'):
                if shut == 'none' and wait != 'none':
                    continue
                ops = ['CREATE', 'TCREATE0', 'INFL_BUSY', 'QUIESCE', 'GATE_B'] + ([] if shut == 'none' else shut.split(',')) + ([] if wait == 'none' else [wait]) + ['DESTROY']
                out.append(('busy/W%d/%s/%s' % (W, shut.replace(',', '+'), wait), W, '0', ops))
    # attach_first after every thread (thread 0 included) was created: refused, and the refusal must leave the pool as it was
    for W in (1, 2):
        for shut in ('SHUT', 'SHUT_B,SHUT', 'SHUT_W'):
            for wait in ('WAIT', 'none'):
                out.append(('attach-refused/W%d/%s/%s' % (W, shut.replace(',', '+'), wait), W, '0',
                            ['CREATE', 'TCREATE0', 'ATTACH'] + shut.split(',') + ([] if wait == 'none' else [wait]) + ['DESTROY']))
    # slot 0 is served by a helper thread through attach_first; shutdown, wait and destroy come from the main thread
    for W in (1, 2):
        for shut in ('SHUT', 'SHUT_B,SHUT'):
            for wait in ('WAIT', 'none'):
                out.append(('attach-helper/W%d/%s/%s' % (W, shut.replace(',', '+'), wait), W, '0',
                            ['CREATE', 'TCREATE1', 'ATTACH_H', 'QUIESCE'] + shut.split(',') + ([] if wait == 'none' else [wait]) + ['DESTROY']))
    # the workers' stop hooks call tp_shutdown_wait() themselves
    for W in (1, 2):
        for shut in ('SHUT', 'SHUT_B,SHUT', 'SHUT_W'):
            for wait in ('WAIT', 'none'):
                out.append(('hookwait/W%d/%s/%s' % (W, shut.replace(',', '+'), wait), W, '0',
                            ['HOOK_WAITS', 'CREATE', 'TCREATE0'] + shut.split(',') + ([] if wait == 'none' else [wait]) + ['DESTROY']))
    # an event that stays ready for ever on the last worker while the pool is shut down
    for W in (1, 2):
        for shut in ('SHUT', 'SHUT_B,SHUT', 'SHUT_W'):
            out.append(('stuck/W%d/%s' % (W, shut.replace(',', '+')), W, '0', ['CREATE', 'TCREATE0', 'INFL_STUCK'] + shut.split(',') + ['WAIT', 'DESTROY']))
    # a worker's synchronous broadcast while slot 0 was never started (threads_create(skip_first) without attach_first)
    for W in (2, 3):
        for shut in ('SHUT', 'SHUT_B,SHUT'):
            out.append(('syncbcast/W%d/%s' % (W, shut.replace(',', '+')), W, '0', ['CREATE', 'TCREATE1', 'INFL_SYNC_BCAST'] + shut.split(',') + ['WAIT', 'DESTROY']))
    # work accepted by a busy worker AFTER shutdown was requested (it stands behind the shutdown message in the queue): the
    # record the library allocated for it must be released before the pool is gone
    for W in (1, 2):
        for shut in ('SHUT', 'SHUT_B,SHUT'):
            out.append(('lateaop/W%d/%s' % (W, shut.replace(',', '+')), W, '0',
                        ['CREATE', 'TCREATE0', 'INFL_BUSY', 'QUIESCE'] + shut.split(',') + ['LATE_AOP', 'GATE_B', 'WAIT', 'DESTROY']))
    # the same completion towards a worker that has left its loop and sits in its stop hook (not running any more, not yet stopped)
    for W in (1, 2):
        for shut in ('SHUT', 'SHUT_B,SHUT'):
            out.append(('stopaop/W%d/%s' % (W, shut.replace(',', '+')), W, '0',
                        ['HOOK_GATE', 'CREATE', 'TCREATE0'] + shut.split(',') + ['QUIESCE', 'LATE_AOP', 'GATE_B', 'WAIT', 'DESTROY']))
    # a worker's cbsend(self-skip) while slot 0 was never started: nothing can be sent, the record must still be released
    for shut in ('SHUT', 'SHUT_B,SHUT'):    # W = 2: the caller is the only running thread (with a third one the send races its shutdown: known finding)
        out.append(('cbskip/W2/%s' % shut.replace(',', '+'), 2, '0', ['CREATE', 'TCREATE1', 'INFL_CBSEND_SKIP'] + shut.split(',') + ['WAIT', 'DESTROY']))
    # the broadcast's last share is worked off when its originator has already stopped: worker 1 busy, worker 0 broadcasts
    # (the share is queued behind the busy callback), shutdown, worker 0 stops, then worker 1 is let go
    out.append(('cbdone-late/W2', 2, '0', ['CREATE', 'TCREATE0', 'INFL_BUSY', 'QUIESCE', 'INFL_CBSEND_OTHER', 'QUIESCE', 'SHUT', 'QUIESCE', 'GATE_B', 'WAIT', 'DESTROY']))
    # resource failures during creation / thread start (fault menu: each call may fail; bound = number of failures)
    for W in (1, 2):
        out.append(('fail/W%d/create-only' % W, W, FAULTS_CREATE, ['CREATE', 'DESTROY']))
        out.append(('fail/W%d/create+threads' % W, W, FAULTS_CREATE, ['CREATE', 'TCREATE0', 'QUIESCE', 'SHUT', 'WAIT', 'DESTROY']))
        out.append(('fail/W%d/create+threads+msg' % W, W, FAULTS_CREATE, ['CREATE', 'TCREATE0', 'INFL_MSG', 'SHUT', 'WAIT', 'DESTROY']))
        # timerfd creation fails: for the first add of a timer, and for the replacement an absolute re-add of a relative timer needs
        out.append(('fail/W%d/timer+abs-readd' % W, W, 'SC_F_TIMERFD', ['CREATE', 'TCREATE0', 'INFL_TIMER', 'TIMER_ABS', 'SHUT', 'WAIT', 'DESTROY']))
    return out


def gen_header(path, vs):
    with open(path, 'w') as f:
        f.write('static const lvar_t variants[] = {\n')
        for name, W, faults, ops in vs:
            f.write('\t{ %d, %s, { %s, 0 } },\n' % (W, faults, ', '.join(str(OPS[o]) for o in ops)))
        f.write('};\nconst sc_scenario_t sc_scenarios[] = {\n')
        for i, v in enumerate(vs):
            f.write('\t{ "%s", life_scenario, %d },\n' % (v[0], i))
        f.write('};\nconst int sc_nscenarios = %d;\n' % len(vs))


def plan(tier, vs):
    jobs = []
    for name, W, faults, ops in vs:
        f = name.split('/')
        if f[0] == 'fail':
            jobs.append((name, 1 if tier == 'quick' else 2, 0 if tier == 'quick' else 1))
            continue
        if f[0] in ('attach-refused', 'attach-helper', 'hookwait', 'stuck', 'syncbcast', 'lateaop', 'stopaop', 'cbskip', 'cbdone-late'):
            jobs.append((name, 1 if tier == 'quick' else 2, 1 if tier == 'quick' else 2))
            continue
        if f[0] == 'busy':
            heavy = (f[1] == 'W2' and '+' in f[2])      # two workers + threads B and G: bound 3 does not finish within the job deadline
            jobs.append((name, 2 if (tier == 'quick' or heavy) else 3, 1 if tier == 'quick' else 2))
            continue
        start, infl, shut, wait = f[2], f[3], f[4], f[5]
        if tier == 'quick':
            if wait != 'WAIT' and not (wait == 'none' and infl == 'none'):
                continue
            if W == 1 and infl != 'none':
                continue
            heavy = (infl != 'none') or ('+' in shut) or start == 'skip1+attach'
            jobs.append((name, 1 if heavy else 2, 1))
        else:
            heavy = (infl != 'none') and ('+' in shut)
            jobs.append((name, 2 if heavy else 3, 2 if heavy else 2))
    return jobs


def _build():
    vs = scripts()
    bdir = core.build_dir('C11')
    gen_header(os.path.join(bdir, 'c11_variants.h'), vs)
    return vs, e1.build('C11', 'h_c11', ['harness/C11/h_c11.c'], ['-I' + bdir])


def run(tier):
    rep = core.Report('C11', tier, 'model_checking',
        'stateless deviation-bounded DFS over schedules and resource-failure menus of life-cycle scripts run on the real pool; '
        'one case = one complete execution of a script; non-trivial = any execution other than the default schedule')
    vs, b = _build()
    rep.extra['scripts_total'] = len(vs)
    e1.run_jobs(rep, b, plan(tier, vs), tier, job_deadline_s=(300 if tier == 'quick' else 1500))
    e1.finish(rep, b, tier)


def replay(r, tier):
    vs, b = _build()
    return e1.replay(b, r)
