/* C11 - pool life cycle: no deadlock, leak, late callback or double hook.
 * Scripts of life-cycle operations explored by E1 (schedules + resource-failure menus). */
#include <fcntl.h>
#include <time.h>
#include <unistd.h>
#include "tp/tp_common.h"

enum { O_END = 0, O_CREATE, O_TCREATE0, O_TCREATE1, O_ATTACH, O_INFL_MSG, O_INFL_READ, O_INFL_TIMER,
       O_SHUT, O_SHUT_B, O_SHUT_W, O_WAIT, O_DESTROY, O_QUIESCE, O_INFL_BUSY, O_GATE_B, O_HOOK_WAITS, O_INFL_STUCK, O_INFL_SYNC_BCAST, O_LATE_AOP, O_HOOK_GATE, O_TIMER_ABS, O_INFL_CBSEND_SKIP, O_INFL_CBSEND_OTHER, O_ATTACH_H };
static const char *opname[] = { "end", "create", "threads_create(0)", "threads_create(skip_first)", "attach_first", "inflight:msg",
       "inflight:read-event", "inflight:timer", "shutdown", "shutdown(concurrent thread B)", "shutdown(from worker)", "shutdown_wait", "destroy", "quiesce", "inflight:busy-callback", "open-gate(thread G)",
       "stop-hooks-call-shutdown_wait", "inflight:event-that-stays-ready", "inflight:sync-broadcast-from-a-worker",
       "complete-an-async-operation-on-the-busy-worker", "stop-hook-of-the-last-worker-waits-on-the-gate",
       "add-the-timer-again-with-absolute-time", "inflight:cbsend(self-skip)-from-a-worker", "inflight:cbsend(self-skip)-from-the-first-worker",
       "attach_first(on a helper thread H that serves slot 0 from now on)" };

#define MAXOPS 12
typedef struct lvar_s {
	int	W;
	uint32_t faults;	/* fault menu active during create / threads_create */
	int	ops[MAXOPS];
} lvar_t;

static const lvar_t *cur;
static int fds0[256], nfds0;
static int created = 0, create_rc = -1;
static int rd_pipe[2] = { -1, -1 };
static tp_udata_t rd_udata, tm_udata;
static int timer_armed = 0;
static pthread_t thr_b;
static int have_b = 0;

/* a worker's stop hook that waits for the pool's threads itself ("waiting ... from one of its own threads"): the call must
 * be refused (EDEADLK) and must not disturb the bookkeeping the outside waiter relies on */
static int hook_waits = 0, hook_gate = 0;
static volatile int busy_gate = 0;
static void
c11_on_stop(tpt_p tpt) {
	int rc;
	tpc_on_stop(tpt);
	if (hook_gate && (int)tpt_get_num(tpt) == tpc_W - 1)
		sc_gate_wait(&busy_gate, "stop-hook");	/* the thread has left its loop and is not yet stopped until thread G lets it go */
	if (hook_waits && (int)tpt_get_num(tpt) < tpc_W) {
		rc = tp_shutdown_wait(tpt_get_tp(tpt));
		sc_log("shutdown_wait from the stop hook of thread %d: rc=%d", (int)tpt_get_num(tpt), rc);
		if (0 == rc)
			sc_fail("wait-from-own-thread-succeeded", "tp_shutdown_wait() called from the stop hook of worker %d returned 0", (int)tpt_get_num(tpt));
	}
}

static void
infl_msg_cb(tpt_p tpt, void *udata) {
	tpc_add(E_CB_BEGIN, (int)tpt_get_num(tpt), (long)(intptr_t)udata, 0, 0);
	sc_point("in-msg-cb");
	tpc_add(E_CB_END, (int)tpt_get_num(tpt), (long)(intptr_t)udata, 0, 0);
}

static void
infl_read_cb(tp_event_p ev, tp_udata_p ud) {
	char c;
	ssize_t r;
	tpc_add(E_EVENT, (int)tpt_get_num(ud->tpt), (long)ev->event, (long)ev->flags, 0);
	r = read((int)ud->ident, &c, 1);	/* consume: the level-triggered event goes quiet */
	(void)r;
}

/* a persistent read event whose callback does not take the data: it stays ready for ever (a level-triggered event of
 * real life: a listening socket nobody accepts from, a writable socket).  The callback yields so that the other threads
 * of the scenario get to run between two rounds of the worker. */
static tp_udata_t stuck_udata;
static int stuck_pipe[2] = { -1, -1 }, stuck_calls = 0;
static void
infl_stuck_cb(tp_event_p ev, tp_udata_p ud) {
	(void)ev; (void)ud;
	stuck_calls ++;
	sc_yield("stuck-event-callback");
}

/* a worker sends a synchronous broadcast to all others (while some slot may not be running) */
static void
sync_bcast_item_cb(tpt_p tpt, void *udata) { (void)tpt; (void)udata; }
static void
infl_sync_bcast_cb(tpt_p tpt, void *udata) {
	size_t sent = 0, failed = 0; int rc;
	(void)udata;
	tpc_add(E_CB_BEGIN, (int)tpt_get_num(tpt), 888, 0, 0);
	rc = tpt_msg_bsend_ex(tpt_get_tp(tpt), tpt, (TP_BMSG_F_SYNC | TP_BMSG_F_SELF_SKIP), sync_bcast_item_cb, NULL, &sent, &failed);
	sc_log("sync broadcast from worker %d: rc=%d sent=%zu failed=%zu", (int)tpt_get_num(tpt), rc, sent, failed);
	tpc_add(E_CB_END, (int)tpt_get_num(tpt), 888, 0, 0);
}

/* an asynchronous operation completed towards a worker that is still busy while the pool is being shut down: the library
 * allocated its record (tpt_msg_async_op_alloc) and accepted the completion message; it must be released before the pool
 * is gone, whatever stands in front of it in the worker's queue */
static int aop_calls = 0;
static void
late_aop_cb(tpt_p tpt, void **udata) {
	(void)udata;
	aop_calls ++;
	tpc_add(E_CB_BEGIN, (int)tpt_get_num(tpt), 999, 0, 0);
	tpc_add(E_CB_END, (int)tpt_get_num(tpt), 999, 0, 0);
}

/* a worker broadcasts with a completion callback, skipping itself, while no other thread runs (slot 0 never started): nothing
 * can be sent - whatever the call answers, the record it allocated must be released */
static int cbskip_done = 0;
static void
cbskip_item_cb(tpt_p tpt, void *udata) { (void)tpt; (void)udata; }
static void
cbskip_done_cb(tpt_p tpt, size_t send_msg_cnt, size_t error_cnt, void *udata) {
	(void)tpt; (void)udata; (void)send_msg_cnt; (void)error_cnt;
	cbskip_done ++;
}
static void
infl_cbsend_skip_cb(tpt_p tpt, void *udata) {
	int rc;
	(void)udata;
	tpc_add(E_CB_BEGIN, (int)tpt_get_num(tpt), 889, 0, 0);
	rc = tpt_msg_cbsend(tpt_get_tp(tpt), tpt, TP_BMSG_F_SELF_SKIP, cbskip_item_cb, NULL, cbskip_done_cb);
	sc_log("cbsend(self-skip) from worker %d with nobody else running: rc=%d", (int)tpt_get_num(tpt), rc);
	tpc_add(E_CB_END, (int)tpt_get_num(tpt), 889, 0, 0);
}

static void
infl_timer_cb(tp_event_p ev, tp_udata_p ud) {
	tpc_add(E_EVENT, (int)tpt_get_num(ud->tpt), (long)ev->event, (long)ev->flags, 1);
}

static void
shut_w_cb(tpt_p tpt, void *udata) {
	(void)udata;
	tpc_add(E_CB_BEGIN, (int)tpt_get_num(tpt), 777, 0, 0);
	tp_shutdown(tpt_get_tp(tpt));
	tpc_add(E_CB_END, (int)tpt_get_num(tpt), 777, 0, 0);
}

static pthread_t thr_g;
static int have_g = 0;

static void
busy_cb(tpt_p tpt, void *udata) {
	tpc_add(E_CB_BEGIN, (int)tpt_get_num(tpt), (long)(intptr_t)udata, 0, 0);
	sc_gate_wait(&busy_gate, "busy-callback");	/* the callback is "working" until thread G lets it go */
	tpc_add(E_CB_END, (int)tpt_get_num(tpt), (long)(intptr_t)udata, 0, 0);
}

static void *
gate_thread(void *arg) {
	(void)arg;
	busy_gate = 1;
	sc_log("G: gate opened");
	return (NULL);
}

static void *
shut_b_thread(void *arg) {
	(void)arg;
	tp_shutdown(tpc_tp);
	sc_log("B: shutdown returned");
	return (NULL);
}

/* a helper thread serves slot 0 through tp_thread_attach_first(); the pool is shut down, waited for and destroyed by the
 * main thread: when tp_destroy() has returned the helper must be out of the pool (its stop hook included) */
static pthread_t thr_h;
static int have_h = 0;
static volatile int helper_done = 0;
static void *
attach_h_thread(void *arg) {
	int rc;
	(void)arg;
	rc = tp_thread_attach_first(tpc_tp);
	sc_log("H: attach_first returned rc=%d", rc);
	helper_done = 1;
	return (NULL);
}

static void life_scenario(int idx);
#include "c11_variants.h"

static tpt_p
target_thread(void) {	/* the last worker: it is started by both threads_create forms when W >= 2 */
	return (tp_thread_get(tpc_tp, (size_t)(cur->W - 1)));
}

static void
life_scenario(int idx) {
	const lvar_t *v = &variants[idx];
	int i, rc, n, fds1[256], nfds1;
	tp_settings_t s;

	cur = v;
	for (i = 0; i < 40; i ++) { tpc_tid_of[i] = -1; tpc_starts[i] = tpc_stops[i] = 0; }
	nfds0 = sc_open_fds(fds0, 256);
	for (i = 0; i < MAXOPS && O_END != v->ops[i]; i ++) {
		sc_log("op %s", opname[v->ops[i]]);
		switch (v->ops[i]) {
		case O_CREATE:
			tpc_W = v->W;
			tp_settings_def(&s);
			s.flags = 0;
			s.threads_max = (size_t)v->W;
			s.tpt_on_start = tpc_on_start;
			s.tpt_on_stop = c11_on_stop;
			tpc_tp = NULL;
			sc_fault_mask = v->faults;
			create_rc = tp_create(&s, &tpc_tp);
			sc_fault_mask = 0;
			sc_log("create rc=%d", create_rc);
			if (0 != create_rc) {
				if (0 == v->faults)
					sc_fail("create-failed", "tp_create returned %d without any injected failure", create_rc);
				if (NULL != tpc_tp)
					sc_fail("create-failed-but-pool-returned", "tp_create returned %d but stored a pool pointer", create_rc);
				goto balances; /* nothing else can be done with a pool that does not exist */
			}
			if (NULL == tpc_tp)
				sc_fail("create-ok-but-null", "tp_create returned 0 but no pool");
			created = 1;
			break;
		case O_TCREATE0:
		case O_TCREATE1:
			sc_fault_mask = (v->faults & SC_F_PTHREAD_CREATE);
			rc = tp_threads_create(tpc_tp, (O_TCREATE1 == v->ops[i]));
			sc_fault_mask = 0;
			sc_log("threads_create rc=%d", rc);
			break;
		case O_ATTACH:
			rc = tp_thread_attach_first(tpc_tp);
			sc_log("attach_first returned rc=%d", rc);
			break;
		case O_INFL_MSG:
			rc = tpt_msg_send(target_thread(), NULL, 0, infl_msg_cb, (void *)(intptr_t)5);
			sc_log("inflight msg rc=%d", rc);
			break;
		case O_INFL_READ:
			if (0 != pipe(rd_pipe))
				sc_fail("harness", "pipe");
			if (1 != write(rd_pipe[1], "x", 1))
				sc_fail("harness", "write to own pipe");
			memset(&rd_udata, 0, sizeof(rd_udata));
			rd_udata.cb_func = infl_read_cb;
			rd_udata.ident = (uintptr_t)rd_pipe[0];
			rc = tpt_ev_add_args2(target_thread(), TP_EV_READ, 0, &rd_udata);
			sc_log("inflight read event rc=%d", rc);
			break;
		case O_INFL_TIMER:
			memset(&tm_udata, 0, sizeof(tm_udata));
			tm_udata.cb_func = infl_timer_cb;
			tm_udata.ident = 1;
			sc_fault_mask = (v->faults & SC_F_TIMERFD);
			rc = tpt_ev_add_args(target_thread(), TP_EV_TIMER, TP_F_ONESHOT, TP_FF_T_SEC, 3600, &tm_udata);
			sc_fault_mask = 0;
			sc_log("inflight timer rc=%d", rc);
			timer_armed = (0 == rc);
			break;
		case O_SHUT:
			tp_shutdown(tpc_tp);
			break;
		case O_SHUT_B:
			pthread_create(&thr_b, NULL, shut_b_thread, NULL);
			have_b = 1;
			break;
		case O_SHUT_W:
			rc = tpt_msg_send(target_thread(), NULL, 0, shut_w_cb, NULL);
			sc_log("shutdown-from-worker seed rc=%d", rc);
			break;
		case O_WAIT:
			rc = tp_shutdown_wait(tpc_tp);
			sc_log("shutdown_wait rc=%d", rc);
			break;
		case O_DESTROY:
			if (have_b) {	/* an application must not let another thread use the pool after destroying it */
				pthread_join(thr_b, NULL);
				have_b = 0;
			}
			if (timer_armed) {	/* the caller's own registration: remove it, as an application would */
				tpt_ev_del_args1(TP_EV_TIMER, &tm_udata);
				timer_armed = 0;
			}
			rc = tp_destroy(tpc_tp);
			sc_log("destroy rc=%d", rc);
			if (0 != rc)
				sc_fail("destroy-rc", "tp_destroy returned %d", rc);
			tpc_destroyed = 1;
			break;
		case O_QUIESCE:
			sc_wait_quiescent();
			break;
		case O_INFL_BUSY:
			busy_gate = 0;
			rc = tpt_msg_send(target_thread(), NULL, 0, busy_cb, (void *)(intptr_t)6);
			sc_log("inflight busy msg rc=%d", rc);
			break;
		case O_GATE_B:
			pthread_create(&thr_g, NULL, gate_thread, NULL);
			have_g = 1;
			break;
		case O_HOOK_WAITS:
			hook_waits = 1;
			break;
		case O_HOOK_GATE:
			hook_gate = 1; busy_gate = 0;
			break;
		case O_INFL_STUCK:
			if (0 != pipe(stuck_pipe) || 1 != write(stuck_pipe[1], "x", 1))
				sc_fail("harness", "pipe");
			memset(&stuck_udata, 0, sizeof(stuck_udata));
			stuck_udata.cb_func = infl_stuck_cb;
			stuck_udata.ident = (uintptr_t)stuck_pipe[0];
			rc = tpt_ev_add_args2(target_thread(), TP_EV_READ, 0, &stuck_udata);
			sc_log("inflight stuck event rc=%d", rc);
			break;
		case O_LATE_AOP: {
			tpt_msg_async_op_p aop = tpt_msg_async_op_alloc(target_thread(), late_aop_cb);
			if (NULL == aop) sc_fail("harness", "tpt_msg_async_op_alloc");
			aop_calls = 0;
			tpt_msg_async_op_cb_free(aop, NULL);
			sc_log("async operation completed towards the busy worker");
			break;
		}
		case O_TIMER_ABS:	/* the same record again, absolute: the library replaces the timerfd; when that fails the call
					 * reports an error and holds nothing any more */
			sc_fault_mask = (v->faults & SC_F_TIMERFD);
			rc = tpt_ev_add_args(target_thread(), TP_EV_TIMER, TP_F_ONESHOT, TP_FF_T_SEC | TP_FF_T_ABSTIME, (uint64_t)time(NULL) + 3600, &tm_udata);
			sc_fault_mask = 0;
			sc_log("timer added again with absolute time rc=%d", rc);
			timer_armed = (0 == rc);
			break;
		case O_INFL_CBSEND_SKIP:
			rc = tpt_msg_send(target_thread(), NULL, 0, infl_cbsend_skip_cb, NULL);
			sc_log("inflight cbsend(self-skip) seed rc=%d", rc);
			break;
		case O_INFL_CBSEND_OTHER:	/* from worker 0, while the last worker is busy: its share is queued behind the busy callback */
			rc = tpt_msg_send(tp_thread_get(tpc_tp, 0), NULL, 0, infl_cbsend_skip_cb, NULL);
			sc_log("inflight cbsend(self-skip) seed for worker 0 rc=%d", rc);
			break;
		case O_ATTACH_H:
			helper_done = 0;
			pthread_create(&thr_h, NULL, attach_h_thread, NULL);	/* joined by the pool (tp_shutdown_wait joins whoever serves a slot) */
			have_h = 1;
			break;
		case O_INFL_SYNC_BCAST:
			rc = tpt_msg_send(target_thread(), NULL, 0, infl_sync_bcast_cb, NULL);
			sc_log("inflight sync broadcast seed rc=%d", rc);
			break;
		}
	}
	if (have_b)
		pthread_join(thr_b, NULL);
	if (have_g)
		pthread_join(thr_g, NULL);
	if (have_h) {	/* the helper is the scenario's own thread: the pool joins it when its wait finds it serving slot 0, else the scenario does */
		sc_gate_wait(&helper_done, "helper-back-from-attach_first");
		sc_join_if_unjoined(thr_h);
	}
	sc_wait_quiescent();	/* anything that still wants to run (late callbacks!) runs now */
	if (tpc_count(E_CB_BEGIN, -1, 6) != tpc_count(E_CB_END, -1, 6))
		sc_fail("callback-cut-short", "the pool was torn down while a message callback was still running");

	/* hooks: exactly once per thread that ran, the virtual thread included */
balances:
	{
		for (n = 0; n <= v->W; n ++) {
			if (tpc_starts[n] > 1)
				sc_fail("start-hook-twice", "start hook ran %d times for thread %d", tpc_starts[n], n);
			if (tpc_stops[n] > 1)
				sc_fail("stop-hook-twice", "stop hook ran %d times for thread %d", tpc_stops[n], n);
			if (tpc_starts[n] != tpc_stops[n])
				sc_fail("hook-imbalance", "thread %d: %d start hook(s) but %d stop hook(s) after destroy", n, tpc_starts[n], tpc_stops[n]);
		}
		if (created && 1 != tpc_starts[v->W])
			sc_fail("pvt-hook-missing", "virtual thread start hook ran %d times", tpc_starts[v->W]);
	}
	if (rd_pipe[0] >= 0) { close(rd_pipe[0]); close(rd_pipe[1]); }
	if (stuck_pipe[0] >= 0) { close(stuck_pipe[0]); close(stuck_pipe[1]); }
	if (tpc_count(E_CB_BEGIN, -1, 888) != tpc_count(E_CB_END, -1, 888))
		sc_fail("callback-cut-short", "the pool was torn down while a worker was still inside its synchronous broadcast");
	if (0 != sc_threads_unjoined())
		sc_fail("thread-not-joined", "%d created thread(s) were never joined", sc_threads_unjoined());
	if (0 != sc_live_allocs())
		sc_fail("allocation-leaked", "%d pool allocation(s) still live at the end", sc_live_allocs());
	nfds1 = sc_open_fds(fds1, 256);
	if (nfds1 != nfds0 || 0 != memcmp(fds0, fds1, sizeof(int) * (size_t)nfds0)) {
		char b[300]; int o = 0;
		for (i = 0; i < nfds1 && o < 280; i ++) {
			int j, found = 0;
			for (j = 0; j < nfds0; j ++) if (fds0[j] == fds1[i]) found = 1;
			if (!found) o += snprintf(b + o, sizeof(b) - (size_t)o, " %d", fds1[i]);
		}
		sc_fail("descriptor-leaked", "open descriptors at the end differ from the start (%d vs %d): extra%s", nfds1, nfds0, b);
	}
}

int
main(int argc, char **argv) {
	return (sc_main(argc, argv));
}
