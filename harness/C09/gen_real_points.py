#!/usr/bin/env python3
"""Check-time generator of build/C09/real_points.h: for each of the 32 built-in curves a few points (x, y) with small x that
lie on the curve, and whether the group order annihilates them (n*P == O) - computed here with Python integers from the
parameters parsed out of liblcb's own table (include/crypto/dsa/ecdsa.h).  Independent of liblcb's arithmetic.
usage: gen_real_points.py <repo> <out.h> [points per curve]"""
import re, sys

def parse_curves(path):
    txt = open(path).read()
    i = txt.index('ec_curve_str[]')
    body = txt[i:]
    out = []
    for m in re.finditer(r'/\*\.name =\*/\s*"([^"]+)".*?/\*\.p =\*/\s*"([0-9a-fA-F]+)".*?/\*\.a =\*/\s*"([0-9a-fA-F]+)".*?/\*\.b =\*/\s*"([0-9a-fA-F]+)".*?/\*\.n =\*/\s*"([0-9a-fA-F]+)"', body, re.S):
        out.append((m.group(1), int(m.group(2), 16), int(m.group(3), 16), int(m.group(4), 16), int(m.group(5), 16)))
    return out

def sqrt_mod(a, p):
    a %= p
    if a == 0: return 0
    if pow(a, (p - 1) // 2, p) != 1: return None
    if p % 4 == 3: return pow(a, (p + 1) // 4, p)
    q, s = p - 1, 0
    while q % 2 == 0: q //= 2; s += 1
    z = 2
    while pow(z, (p - 1) // 2, p) != p - 1: z += 1
    m, c, t, r = s, pow(z, q, p), pow(a, q, p), pow(a, (q + 1) // 2, p)
    while t != 1:
        i, t2 = 0, t
        while t2 != 1: t2 = t2 * t2 % p; i += 1
        b = pow(c, 1 << (m - i - 1), p)
        m, c, t, r = i, b * b % p, t * b * b % p, r * b % p
    return r

def add(P, Q, a, p):
    if P is None: return Q
    if Q is None: return P
    (x1, y1), (x2, y2) = P, Q
    if x1 == x2:
        if (y1 + y2) % p == 0: return None
        l = (3 * x1 * x1 + a) * pow(2 * y1, -1, p) % p
    else:
        l = (y2 - y1) * pow(x2 - x1, -1, p) % p
    x3 = (l * l - x1 - x2) % p
    return (x3, (l * (x1 - x3) - y1) % p)

def mul(k, P, a, p):
    R = None
    while k:
        if k & 1: R = add(R, P, a, p)
        P = add(P, P, a, p)
        k >>= 1
    return R

def main():
    repo, out = sys.argv[1], sys.argv[2]
    per = int(sys.argv[3]) if len(sys.argv) > 3 else 6
    curves = parse_curves(repo + '/include/crypto/dsa/ecdsa.h')
    if len(curves) < 30: raise SystemExit('curve table not parsed (%d entries)' % len(curves))
    lines = ['/* GENERATED at check time by harness/C09/gen_real_points.py - reference data from Python integers */',
             'typedef struct c09_real_pt_s { const char *curve; const char *x, *y; int annihilated; } c09_real_pt_t;',
             'static const c09_real_pt_t c09_real_pts[] = {']
    outside = 0
    for (name, p, a, b, n) in curves:
        got, x = 0, 0
        while got < per and x < 4000:
            y = sqrt_mod(x * x * x + a * x + b, p)
            if y is not None:
                ann = 1 if mul(n, (x, y), a, p) is None else 0
                outside += (1 - ann)
                w = 2 * ((p.bit_length() + 7) // 8)
                lines.append('\t{ "%s", "%0*x", "%0*x", %d },' % (name, w, x, w, y, ann))
                got += 1
            x += 1
    lines.append('};')
    lines.append('#define C09_REAL_PTS_OUTSIDE %d' % outside)
    open(out, 'w').write('\n'.join(lines) + '\n')

if __name__ == '__main__':
    main()
