/* C09 - key encoding, validation, derivation and Diffie-Hellman are consistent.
 *
 * Tiny synthetic curves (harness/C03/tc.h: whole group by brute force; prime order and cofactor 2 / 4),
 * oracle = SEC 1 2.3.3 / 2.3.4 / 3.2.1 / 3.3.1-2 with native integers.
 *
 *  part R  export -> import = identity: ALL points (and O) x {compressed, packed, separate, concatenated} x {be, le}
 *  part I  ecdsa_pub_key_import_be/le on ALL byte strings of every accepted length (one byte fields: every string of
 *          length 1, 2, 3; two byte fields: all prefixes x coordinate sets that contain [0, p+8) and the extremes)
 *  part K  ecdsa_key_gen_be/le from every seed; part P ecdsa_recover_pub_key_from_priv_key_be/le for every d
 *  part D  ecdsa_dh (all (d1, d2), cofactor on/off), ecdsa_dh_be/le
 *  part S  size arguments at each boundary the code compares against, exact-size heap buffers (ASan builds)
 *
 * Binaries (run.py): ".g" no sanitizer, library calls on the guarded 0xA5 stack (gc.h) - the big enumerations;
 *                    ".s" ASan - every part on a reduced scale plus part S.
 * C09_CHK: 1 = validation compiled in (default), 0 = built with -DEC_DISABLE_PUB_KEY_CHK (no accept/reject oracle).
 */
#include "vh.h"
#include "tc.h"
#include "gc.h"

#ifdef EC_DISABLE_PUB_KEY_CHK
#define C09_CHK 0
#else
#define C09_CHK 1
#endif
#ifndef C09_ASAN
#define C09_ASAN 0
#endif
#ifndef C09_HEAVY	/* 1: this configuration runs the full-size enumerations in the thorough tier */
#define C09_HEAVY 0
#endif

static tc_t *TC[64];
static tc_t *
curve_get(const char *name) {
	size_t i;
	for (i = 0; i < TC_NDEFS; i ++) {
		if (0 == strcmp(tc_defs[i].name, name)) {
			if (NULL == TC[i])
				TC[i] = tc_build(&tc_defs[i]);
			return (TC[i]);
		}
	}
	tc_die("unknown curve", name);
	return (NULL);
}
#define DBL(t) EC_CURVE_CALC_BITS_DBL((t)->curve)
#define RC_CRASH (-99999)
static const char *EN[2] = { "be", "le" };

/* -------------------------------------------------------------------------- library calls (through gc_call) */
enum { OP_EXPORT, OP_IMPORT, OP_KEYGEN, OP_RECOVER, OP_DH, OP_DH_B, OP_SIGN_B, OP_VERIFY_B, OP_VERIFY_PRIV_B };
static const char *op_name[] = { "ecdsa_pub_key_export", "ecdsa_pub_key_import", "ecdsa_key_gen", "ecdsa_recover_pub_key_from_priv_key",
    "ecdsa_dh", "ecdsa_dh_be/le", "ecdsa_sign_be/le", "ecdsa_verify_be/le", "ecdsa_verify_priv_key_be/le" };
typedef struct call_s {
	int	op, le, rc, compress, cof;
	ec_curve_p curve;
	ec_point_p pt;
	bn_p	d, out;
	uint8_t	*px, *py, *rnd, *priv, *shared, *bh, *br, *bs;
	size_t	plen, rlen, dlen, hlen, slen, *psz, *dsz, *ssz;
} call_t;
static void
call_do(void *p) {
	call_t *c = (call_t *)p;
	switch (c->op) {
	case OP_EXPORT:
		c->rc = c->le ? ecdsa_pub_key_export_le(c->curve, c->compress, c->pt, c->px, c->py, c->psz)
		    : ecdsa_pub_key_export_be(c->curve, c->compress, c->pt, c->px, c->py, c->psz);
		break;
	case OP_IMPORT:
		c->rc = c->le ? ecdsa_pub_key_import_le(c->curve, c->px, c->py, c->plen, c->pt)
		    : ecdsa_pub_key_import_be(c->curve, c->px, c->py, c->plen, c->pt);
		break;
	case OP_KEYGEN:
		c->rc = c->le ? ecdsa_key_gen_le(c->curve, c->rnd, c->rlen, c->compress, c->priv, c->dsz, c->px, c->py, c->psz)
		    : ecdsa_key_gen_be(c->curve, c->rnd, c->rlen, c->compress, c->priv, c->dsz, c->px, c->py, c->psz);
		break;
	case OP_RECOVER:
		c->rc = c->le ? ecdsa_recover_pub_key_from_priv_key_le(c->curve, c->priv, c->dlen, c->compress, c->px, c->py, c->psz)
		    : ecdsa_recover_pub_key_from_priv_key_be(c->curve, c->priv, c->dlen, c->compress, c->px, c->py, c->psz);
		break;
	case OP_DH:
		c->rc = ecdsa_dh(c->curve, c->cof, c->pt, c->d, c->out);
		break;
	case OP_DH_B:
		c->rc = c->le ? ecdsa_dh_le(c->curve, c->cof, c->px, c->py, c->plen, c->priv, c->dlen, c->shared, c->ssz)
		    : ecdsa_dh_be(c->curve, c->cof, c->px, c->py, c->plen, c->priv, c->dlen, c->shared, c->ssz);
		break;
	case OP_SIGN_B:
		c->rc = c->le ? ecdsa_sign_le(c->curve, c->bh, c->hlen, c->priv, c->dlen, c->rnd, c->rlen, c->br, c->bs, c->ssz)
		    : ecdsa_sign_be(c->curve, c->bh, c->hlen, c->priv, c->dlen, c->rnd, c->rlen, c->br, c->bs, c->ssz);
		break;
	case OP_VERIFY_B:
		c->rc = c->le ? ecdsa_verify_le(c->curve, c->bh, c->hlen, c->br, c->bs, c->slen, c->px, c->py, c->plen)
		    : ecdsa_verify_be(c->curve, c->bh, c->hlen, c->br, c->bs, c->slen, c->px, c->py, c->plen);
		break;
	case OP_VERIFY_PRIV_B:
		c->rc = c->le ? ecdsa_verify_priv_key_le(c->curve, c->bh, c->hlen, c->br, c->bs, c->slen, c->priv, c->dlen)
		    : ecdsa_verify_priv_key_be(c->curve, c->bh, c->hlen, c->br, c->bs, c->slen, c->priv, c->dlen);
		break;
	}
}
static int
call_lib(call_t *c) {
	int sig = gc_call(call_do, c);
	char cl[96];
	if (0 != sig) {
		snprintf(cl, sizeof(cl), "%s-in-%s", (SIGALRM == sig) ? "timeout" : gc_signame(sig), op_name[c->op]);
		vh_fail(cl, "%s inside the library call (private stack pre-filled with 0x%02x)", gc_signame(sig), GC_PATTERN);
		return (RC_CRASH);
	}
	return (c->rc);
}
static uint64_t
maxval(size_t bytes) {
	return ((bytes >= 8) ? UINT64_MAX : ((1ull << (8 * bytes)) - 1));
}

/* -------------------------------------------------------------------------- reference encodings */
enum { F_COMPRESSED, F_PACKED, F_SEPARATE, F_CONCAT, F_NFORMS };
static const char *FN[] = { "compressed", "packed", "separate", "concatenated" };
static int
form_ok(tc_t *t, int form) { /* one byte fields: sizes of "separate"/"concatenated" collide with "O"/"compressed" (no real curve is that small) */
	return (t->bytes > 1 || form == F_COMPRESSED || form == F_PACKED);
}
/* SEC 1 2.3.3 (be); le = the same layout with little-endian coordinates.  Returns the size; *py only for F_SEPARATE */
static size_t
ref_encode(tc_t *t, tc_pt_t P, int form, int le, uint8_t **px, uint8_t **py) {
	size_t b = t->bytes, sz;
	uint8_t *x, *y = NULL;
	if (P.inf) {
		x = (uint8_t *)malloc(1); x[0] = 0;
		*px = x; *py = NULL;
		return (1);
	}
	switch (form) {
	case F_COMPRESSED:
		sz = 1 + b; x = (uint8_t *)malloc(sz);
		x[0] = (uint8_t)(2 + (P.y & 1)); tc_put(x + 1, b, P.x, le);
		break;
	case F_PACKED:
		sz = 1 + 2 * b; x = (uint8_t *)malloc(sz);
		x[0] = 4; tc_put(x + 1, b, P.x, le); tc_put(x + 1 + b, b, P.y, le);
		break;
	case F_SEPARATE:
		sz = b; x = (uint8_t *)malloc(sz); y = (uint8_t *)malloc(sz);
		tc_put(x, b, P.x, le); tc_put(y, b, P.y, le);
		break;
	default:
		sz = 2 * b; x = (uint8_t *)malloc(sz);
		tc_put(x, b, P.x, le); tc_put(x + b, b, P.y, le);
		break;
	}
	*px = x; *py = y;
	return (sz);
}

/* What an encoding denotes.  valid: 1 = neutral element or a point on the curve annihilated by n. */
typedef struct dec_s {
	int	valid;		/* the property's acceptance condition holds */
	int	standard;	/* and it is a standard (SEC 1 2.3.3) encoding / the library's separate form: must be accepted */
	int	hybrid_bad;	/* 06/07 whose parity bit does not match y (SEC 1 2.3.4 step 2.4.1 says invalid): recorded only */
	tc_pt_t	P;
	const char *why;	/* reason when not valid */
} dec_t;

static dec_t
ref_decode(tc_t *t, const uint8_t *px, const uint8_t *py, size_t sz, int le) {
	size_t b = t->bytes;
	dec_t d;
	uint64_t x, y;
	memset(&d, 0, sizeof(d));
	d.P = tc_inf();
	if (1 == sz) {
		if (0 == px[0]) { d.valid = 1; d.standard = 1; }
		else d.why = "one-byte-not-00";
		return (d);
	}
	if (sz == b) { /* separate (only reached for b > 1) */
		if (NULL == py) { d.why = "separate-form-without-y"; return (d); }
		x = tc_get(px, b, le); y = tc_get(py, b, le);
		goto affine;
	}
	if (sz == 1 + b) {
		int32_t r;
		if (2 != px[0] && 3 != px[0]) { d.why = "bad-prefix"; return (d); }
		x = tc_get(px + 1, b, le);
		if (x >= t->p) { d.why = "coordinate>=p"; return (d); }
		r = t->root[tc_rhs(t, (uint32_t)x)];
		if (r < 0) { d.why = "no-point-with-this-x"; return (d); }
		y = (uint64_t)r;
		if ((y & 1) != (uint64_t)(px[0] & 1))
			y = (t->p - y) % t->p;
		if ((y & 1) != (uint64_t)(px[0] & 1)) { d.why = "root-0-with-odd-parity-bit"; return (d); }
		if (!tc_valid_pub(t, x, y)) { d.why = "not-annihilated-by-n"; return (d); }
		d.valid = 1; d.standard = 1;
		d.P.x = (uint32_t)x; d.P.y = (uint32_t)y; d.P.inf = 0;
		return (d);
	}
	if (sz == 1 + 2 * b) {
		if (4 != px[0] && 6 != px[0] && 7 != px[0]) { d.why = "bad-prefix"; return (d); }
		x = tc_get(px + 1, b, le); y = tc_get(px + 1 + b, b, le);
		if (4 != px[0] && (y & 1) != (uint64_t)(px[0] & 1))
			d.hybrid_bad = 1;
		goto affine;
	}
	if (sz == 2 * b) {
		x = tc_get(px, b, le); y = tc_get(px + b, b, le);
		goto affine;
	}
	d.why = "no-such-length";
	return (d);
affine:
	if (x >= t->p || y >= t->p) { d.why = "coordinate>=p"; return (d); }
	if (!tc_on_curve(t, x, y)) { d.why = "off-curve"; return (d); }
	if (!tc_valid_pub(t, x, y)) { d.why = "not-annihilated-by-n"; return (d); }
	d.valid = 1;
	d.standard = (sz != 2 * b) && !d.hybrid_bad;
	d.P.x = (uint32_t)x; d.P.y = (uint32_t)y; d.P.inf = 0;
	return (d);
}

/* -------------------------------------------------------------------------- part R: export -> import */
static const char *T_RT[2] = { "ecdsa_pub_key_export_be>import_be", "ecdsa_pub_key_export_le>import_le" };

static void
roundtrip_one(tc_t *t, tc_pt_t P, int form, int le) {
	size_t b = t->bytes, need, sz = 777;
	uint8_t *ex, *ey = NULL, *cat = NULL, *ix, *iy;
	ec_point_t lp, lq;
	tc_pt_t Q;
	call_t c;
	int rc;

	if (!vh_begin(T_RT[le]))
		return;
	vh_desc("curve=%s point=(%u,%u,%s) form=%s", t->def->name, P.x, P.y, P.inf ? "O" : "affine", FN[form]);
	tc_pt_to_lib(t, P, &lp);
	need = P.inf ? 1 : ((F_COMPRESSED == form) ? 1 + b : ((F_PACKED == form) ? 1 + 2 * b : b));
	ex = (uint8_t *)malloc(need); memset(ex, 0xEE, need);
	if (F_SEPARATE == form || F_CONCAT == form) {
		ey = (uint8_t *)malloc(b); memset(ey, 0xEE, b);
	}
	memset(&c, 0, sizeof(c));
	c.op = OP_EXPORT; c.le = le; c.curve = t->curve; c.compress = (F_COMPRESSED == form); c.pt = &lp;
	c.px = ex; c.py = ey; c.psz = &sz;
	rc = call_lib(&c);
	if (RC_CRASH == rc)
		goto out;
	if (0 != rc) {
		vh_fail("export-failed", "rc=%d", rc);
		goto out;
	}
	if (sz != need) {
		vh_fail("export-size", "reported %zu, the form takes %zu", sz, need);
		goto out;
	}
	ix = ex; iy = ey;
	if (F_CONCAT == form && !P.inf) { /* the library never exports this form: join the separate one */
		cat = (uint8_t *)malloc(2 * b);
		memcpy(cat, ex, b); memcpy(cat + b, ey, b);
		ix = cat; iy = NULL; sz = 2 * b;
	}
	ec_point_init(&lq, DBL(t));
	memset(&c, 0, sizeof(c));
	c.op = OP_IMPORT; c.le = le; c.curve = t->curve; c.px = ix; c.py = iy; c.plen = sz; c.pt = &lq;
	rc = call_lib(&c);
	if (RC_CRASH == rc)
		goto out;
	if (0 != rc) {
		vh_fail("import-of-exported-key-failed", "rc=%d", rc);
		goto out;
	}
	if (!tc_pt_from_lib(&lq, &Q) || !tc_eq(P, Q))
		vh_fail("roundtrip-not-identity", "got (%u,%u,%s)", Q.x, Q.y, Q.inf ? "O" : "affine");
	else
		vh_nontrivial();
out:
	free(ex); free(ey); free(cat);
}

static void
roundtrip_all(const char *cname) {
	tc_t *t = curve_get(cname);
	uint32_t i, step;
	int form, le;
	if (NULL == t->curve)
		return;
	step = (t->npts > 3000) ? 97 : 1; /* the two 2^16 fields: every 97th point */
	for (le = 0; le < 2; le ++) {
		for (form = 0; form < F_NFORMS; form ++) {
			if (!form_ok(t, form))
				continue;
			roundtrip_one(t, tc_inf(), form, le);
			for (i = 0; i < t->npts; i += step) {
				/* with validation compiled in only public keys (points of <G>) import; the others are part I's business */
				if (C09_CHK && !t->in_sub[i])
					continue;
				roundtrip_one(t, t->pts[i], form, le);
			}
		}
	}
}

/* -------------------------------------------------------------------------- part I: import of arbitrary byte strings */
static const char *T_IMP[2] = { "ecdsa_pub_key_import_be", "ecdsa_pub_key_import_le" };
static const char *T_HYB[2] = { "observed:hybrid-prefix-parity-ignored/import_be", "observed:hybrid-prefix-parity-ignored/import_le" };

static uint8_t imp_x[8], imp_y[8];
static size_t imp_sz;
static int imp_has_y;
static const char *imp_curve;
static void
desc_imp(char *bf, size_t n) {
	char hx[20], hy[20];
	vh_hex(hx, sizeof(hx), imp_x, imp_sz);
	vh_hex(hy, sizeof(hy), imp_y, imp_has_y ? imp_sz : 0);
	snprintf(bf, n, "curve=%s pub_key_size=%zu pub_key_x=%s pub_key_y=%s", imp_curve, imp_sz, hx, imp_has_y ? hy : "NULL");
}

static void
import_one(tc_t *t, int le, const uint8_t *px, const uint8_t *py, size_t sz) {
	dec_t d;
	ec_point_t lq;
	tc_pt_t Q;
	uint8_t *hx, *hy = NULL;
	call_t c;
	int rc;
	char cl[96];

	if (!vh_begin(T_IMP[le]))
		return;
	memcpy(imp_x, px, sz); imp_sz = sz; imp_has_y = (NULL != py); imp_curve = t->def->name;
	if (py)
		memcpy(imp_y, py, sz);
	hx = (uint8_t *)vh_dup(px, sz);
	if (py)
		hy = (uint8_t *)vh_dup(py, sz);
	ec_point_init(&lq, DBL(t));
	memset(&c, 0, sizeof(c));
	c.op = OP_IMPORT; c.le = le; c.curve = t->curve; c.px = hx; c.py = hy; c.plen = sz; c.pt = &lq;
	rc = call_lib(&c);
	free(hx); free(hy);
	if (RC_CRASH == rc || !C09_CHK)
		return;
	d = ref_decode(t, px, py, sz, le);
	if (0 == rc) {
		if (!d.valid) {
			snprintf(cl, sizeof(cl), "accepts-invalid-encoding[%s]", d.why);
			vh_fail(cl, "rc=0");
			return;
		}
		if (!tc_pt_from_lib(&lq, &Q) || !tc_eq(d.P, Q)) {
			vh_fail("imported-wrong-point", "got (%u,%u,%s) want (%u,%u,%s)", Q.x, Q.y, Q.inf ? "O" : "affine",
			    d.P.x, d.P.y, d.P.inf ? "O" : "affine");
			return;
		}
		vh_nontrivial();
	} else if (d.valid && d.standard) {
		vh_fail("rejects-standard-encoding", "rc=%d for a standard encoding of (%u,%u,%s)", rc, d.P.x, d.P.y, d.P.inf ? "O" : "affine");
	}
}
/* #14: recorded, not enforced */
static void
hybrid_observe(tc_t *t, int le, const uint8_t *px, size_t sz) {
	dec_t d;
	ec_point_t lq;
	call_t c;
	if (sz != 1 + 2 * (size_t)t->bytes || (6 != px[0] && 7 != px[0]))
		return;
	d = ref_decode(t, px, NULL, sz, le);
	if (!d.valid || !d.hybrid_bad)
		return;
	if (!vh_begin(T_HYB[le]))
		return;
	memcpy(imp_x, px, sz); imp_sz = sz; imp_has_y = 0; imp_curve = t->def->name;
	ec_point_init(&lq, DBL(t));
	memset(&c, 0, sizeof(c));
	c.op = OP_IMPORT; c.le = le; c.curve = t->curve; c.px = (uint8_t *)vh_dup(px, sz); c.plen = sz; c.pt = &lq;
	if (0 == call_lib(&c))
		vh_nontrivial(); /* accepted although the parity bit of the prefix contradicts y */
	free(c.px);
}

static void
import_all_1byte(const char *cname, int quick_light) {
	tc_t *t = curve_get(cname);
	uint32_t v, lim;
	uint8_t s[4];
	int le;
	if (NULL == t->curve || 1 != t->bytes)
		return;
	vh_set_describer(desc_imp);
	for (le = 0; le < 2; le ++) {
		for (v = 0; v < 256; v ++) { s[0] = (uint8_t)v; import_one(t, le, s, NULL, 1); }
		for (v = 0; v < 65536; v ++) { s[0] = (uint8_t)(v >> 8); s[1] = (uint8_t)v; import_one(t, le, s, NULL, 2); }
		/* length 3: all 2^24 strings; the light variant keeps every prefix in [0,8] and ff, fe, 80 */
		lim = 1u << 24;
		for (v = 0; v < lim; v ++) {
			s[0] = (uint8_t)(v >> 16); s[1] = (uint8_t)(v >> 8); s[2] = (uint8_t)v;
			if (quick_light && s[0] > 8 && s[0] != 0xff && s[0] != 0xfe && s[0] != 0x80)
				continue;
			import_one(t, le, s, NULL, 3);
			hybrid_observe(t, le, s, 3);
		}
		/* no such length */
		for (v = 0; v < 256; v ++) { s[0] = (uint8_t)v; s[1] = 0; s[2] = 0; s[3] = 0; import_one(t, le, s, NULL, 4); }
		s[0] = 4; s[1] = (uint8_t)t->G.x; s[2] = (uint8_t)t->G.y; s[3] = 0; import_one(t, le, s, NULL, 4);
	}
	vh_set_describer(NULL);
}

/* two byte fields: coordinate sets */
static uint32_t CS[4096];
static uint32_t
coord_set(tc_t *t) {
	uint32_t n = 0, v, lim = (t->p < 1100) ? t->p + 8 : 0;
	uint32_t ex[] = { 0, 1, 2, t->p - 2, t->p - 1, t->p, t->p + 1, 0x00ff, 0x0100, 0x7fff, 0x8000, 0xfffe, 0xffff,
	    t->G.x, t->G.y, t->G.x + t->p, t->G.y + t->p, t->kG[2].x, t->kG[2].y, t->kG[t->n - 1].y, (t->G.x << 8 | t->G.x >> 8) & 0xffff };
	uint32_t i, j;
	for (v = 0; v < lim && n < 4000; v ++)
		CS[n ++] = v;
	for (i = 0; i < sizeof(ex) / sizeof(ex[0]); i ++) {
		if (ex[i] > 0xffff)
			continue;
		for (j = 0; j < n; j ++)
			if (CS[j] == ex[i])
				break;
		if (j == n)
			CS[n ++] = ex[i];
	}
	/* a handful of other group elements so that large fields have valid pairs too */
	for (i = 3; i < 40 && i < t->n; i += 3) {
		uint32_t w[2] = { t->kG[i].x, t->kG[i].y };
		uint32_t k;
		for (k = 0; k < 2; k ++) {
			for (j = 0; j < n; j ++)
				if (CS[j] == w[k])
					break;
			if (j == n && n < 4090)
				CS[n ++] = w[k];
		}
	}
	return (n);
}

static void
import_all_2byte(const char *cname, int light) {
	tc_t *t = curve_get(cname);
	uint32_t v, i, j, ncs;
	uint8_t s[8], y[2];
	static const uint8_t PFX[] = { 0, 1, 2, 3, 4, 5, 6, 7, 8, 0x80, 0xfe, 0xff };
	int le;
	size_t k;
	if (NULL == t->curve || 2 != t->bytes)
		return;
	ncs = coord_set(t);
	vh_set_describer(desc_imp);
	for (le = 0; le < 2; le ++) {
		for (v = 0; v < 256; v ++) { s[0] = (uint8_t)v; import_one(t, le, s, NULL, 1); }
		/* compressed: every prefix x every x (light: the PFX prefixes) */
		for (v = 0; v < (1u << 24); v ++) {
			s[0] = (uint8_t)(v >> 16); s[1] = (uint8_t)(v >> 8); s[2] = (uint8_t)v;
			if (light && s[0] > 8 && s[0] != 0xff && s[0] != 0xfe && s[0] != 0x80)
				continue;
			if (light && t->p > 1100 && 0 != (v & 0xffff) % 7 && (v & 0xffff) > 16 && (v & 0xffff) + 16 < t->p)
				continue;
			import_one(t, le, s, NULL, 3);
		}
		/* separate, concatenated, packed: coordinate sets */
		for (i = 0; i < ncs; i ++) {
			for (j = 0; j < ncs; j ++) {
				if (light && t->p > 300 && i > 64 && j > 64 && 0 != (i * 31 + j) % 5)
					continue;
				tc_put(s, 2, CS[i], le); tc_put(y, 2, CS[j], le);
				import_one(t, le, s, y, 2);
				import_one(t, le, s, NULL, 2); /* separate form without the y buffer: must be refused */
				tc_put(s + 2, 2, CS[j], le);
				import_one(t, le, s, NULL, 4);
				for (k = 0; k < sizeof(PFX); k ++) {
					if ((i > 80 || j > 80) && PFX[k] != 4 && PFX[k] != 6 && PFX[k] != 7 && !tc_on_curve(t, CS[i], CS[j]))
						continue; /* other prefixes: the low corner and all curve points */
					s[0] = PFX[k]; tc_put(s + 1, 2, CS[i], le); tc_put(s + 3, 2, CS[j], le);
					import_one(t, le, s, NULL, 5);
					hybrid_observe(t, le, s, 5);
				}
			}
		}
		/* no such length */
		memset(s, 0, sizeof(s));
		for (v = 0; v < 256; v ++) { s[0] = (uint8_t)v; import_one(t, le, s, NULL, 6); }
		s[0] = 4; import_one(t, le, s, NULL, 7);
	}
	vh_set_describer(NULL);
}

/* -------------------------------------------------------------------------- part K: key generation */
static const char *T_KG[2] = { "ecdsa_key_gen_be", "ecdsa_key_gen_le" };

/* decode what an export produced (form known to the caller) */
static int
decode_out(tc_t *t, int le, int compress, const uint8_t *px, const uint8_t *py, size_t sz, tc_pt_t *P) {
	dec_t d;
	size_t b = t->bytes;
	if (1 == sz && 0 == px[0] && !(1 == b && !compress && py)) { *P = tc_inf(); return (1); }
	if (!compress && py && sz == b) { /* separate; for one byte fields ref_decode would read it as "O" */
		uint64_t x = tc_get(px, b, le), y = tc_get(py, b, le);
		if (!tc_valid_pub(t, x, y))
			return (0);
		P->x = (uint32_t)x; P->y = (uint32_t)y; P->inf = 0;
		return (1);
	}
	d = ref_decode(t, px, py, sz, le);
	if (!d.valid)
		return (0);
	*P = d.P;
	return (1);
}

static void
keygen_one(tc_t *t, int le, uint32_t seed, size_t rnd_size, int compress) {
	size_t b = t->bytes, dsz = 777, psz = 777, xcap;
	call_t c;
	tc_pt_t Q;
	uint64_t d;
	int rc;

	if (!vh_begin(T_KG[le]))
		return;
	vh_desc("curve=%s seed=%u rnd_size=%zu compress=%d", t->def->name, seed, rnd_size, compress);
	memset(&c, 0, sizeof(c));
	c.op = OP_KEYGEN; c.le = le; c.curve = t->curve; c.compress = compress;
	c.rnd = (uint8_t *)malloc(rnd_size ? rnd_size : 1);
	/* the seed occupies the `bytes` bytes the function imports (the FIRST ones); a longer buffer continues with ff */
	memset(c.rnd, 0xff, rnd_size ? rnd_size : 1);
	if (rnd_size >= b)
		tc_put(c.rnd, b, seed, le);
	else if (rnd_size > 0)
		tc_put(c.rnd, rnd_size, seed, le);
	c.rlen = rnd_size;
	c.priv = (uint8_t *)malloc(b); memset(c.priv, 0xEE, b);
	xcap = compress ? 1 + b : b;
	c.px = (uint8_t *)malloc(xcap); c.py = (uint8_t *)malloc(b);
	memset(c.px, 0xEE, xcap); memset(c.py, 0xEE, b);
	c.dsz = &dsz; c.psz = &psz;
	rc = call_lib(&c);
	if (RC_CRASH == rc)
		goto out;
	if (rnd_size < b) { /* refused today (EINVAL); whatever it does, it must stay inside rnd_size bytes: ASan observes */
		vh_nontrivial();
		goto out;
	}
	if (0 != rc)
		goto out; /* "If function return error then generate another rnd and recall." */
	d = tc_get(c.priv, b, le);
	if (d < 1 || d >= t->n) {
		vh_fail("private-key-out-of-range", "rc=0 with d=%" PRIu64 " (n=%u), pub_key_size=%zu", d, t->n, psz);
		goto out;
	}
	if (dsz != b || psz != xcap) {
		vh_fail("keygen-sizes", "priv_key_size=%zu pub_key_size=%zu, want %zu and %zu", dsz, psz, b, xcap);
		goto out;
	}
	if (!decode_out(t, le, compress, c.px, compress ? NULL : c.py, psz, &Q) || !tc_eq(Q, t->kG[d])) {
		vh_fail("keypair-inconsistent", "exported d=%" PRIu64 " but the public key is not d*G = (%u,%u)", d, t->kG[d].x, t->kG[d].y);
		goto out;
	}
	vh_nontrivial();
out:
	free(c.rnd); free(c.priv); free(c.px); free(c.py);
}

static void
keygen_all(const char *cname, int light) {
	tc_t *t = curve_get(cname);
	uint32_t seed, top;
	int le, compress;
	if (NULL == t->curve)
		return;
	top = (uint32_t)maxval(t->bytes);
	for (le = 0; le < 2; le ++) {
		for (compress = 0; compress < 2; compress ++) {
			for (seed = 0; ; seed ++) {
				if (!(light && t->bytes > 1 && seed > 2 * t->n + 8 && seed + 8 < top && 0 != seed % 251))
					keygen_one(t, le, seed, t->bytes, compress);
				if (seed == top)
					break;
			}
			keygen_one(t, le, 5, t->bytes - 1, compress);
			keygen_one(t, le, 5, t->bytes + 1, compress);
			keygen_one(t, le, t->n - 1, t->bytes + 3, compress);
		}
	}
}

/* -------------------------------------------------------------------------- part P: public key from private key */
static const char *T_RC[2] = { "ecdsa_recover_pub_key_from_priv_key_be", "ecdsa_recover_pub_key_from_priv_key_le" };

static void
recover_one(tc_t *t, int le, uint64_t d, size_t dlen, int form) {
	size_t b = t->bytes, psz = 777, xcap;
	call_t c;
	tc_pt_t Q, want;
	int rc;

	if (!vh_begin(T_RC[le]))
		return;
	vh_desc("curve=%s d=%" PRIu64 " priv_key_size=%zu form=%s", t->def->name, d, dlen, FN[form]);
	if (d > maxval(dlen))
		return;
	memset(&c, 0, sizeof(c));
	c.op = OP_RECOVER; c.le = le; c.curve = t->curve; c.compress = (F_COMPRESSED == form);
	c.priv = (uint8_t *)malloc(dlen ? dlen : 1); tc_put(c.priv, dlen, d, le); c.dlen = dlen;
	xcap = (F_COMPRESSED == form) ? 1 + b : ((F_PACKED == form) ? 1 + 2 * b : b);
	c.px = (uint8_t *)malloc(xcap); memset(c.px, 0xEE, xcap);
	if (F_SEPARATE == form) { c.py = (uint8_t *)malloc(b); memset(c.py, 0xEE, b); }
	c.psz = &psz;
	rc = call_lib(&c);
	if (RC_CRASH == rc)
		goto out;
	if (dlen > b || 0 == dlen) { /* refused today (EINVAL): only memory discipline is observed */
		vh_nontrivial();
		goto out;
	}
	if (0 != rc) {
		if (d >= 1 && d < t->n)
			vh_fail("valid-private-key-refused", "rc=%d for d in [1, n-1]", rc);
		goto out;
	}
	want = t->kG[d % t->n];
	if (psz != (want.inf ? 1 : xcap)) {
		vh_fail("recover-size", "pub_key_size=%zu want %zu", psz, want.inf ? (size_t)1 : xcap);
		goto out;
	}
	if (!decode_out(t, le, c.compress, c.px, c.py, psz, &Q) || !tc_eq(Q, want)) {
		vh_fail("wrong-public-key", "not d*G = (%u,%u,%s)", want.x, want.y, want.inf ? "O" : "affine");
		goto out;
	}
	if (d >= 1 && d < t->n)
		vh_nontrivial();
out:
	free(c.priv); free(c.px); free(c.py);
}

static void
recover_all(const char *cname, int light) {
	tc_t *t = curve_get(cname);
	uint64_t d, top;
	size_t dlen;
	int le, form;
	if (NULL == t->curve)
		return;
	top = MIN((uint64_t)t->n + 3, maxval(t->bytes));
	for (le = 0; le < 2; le ++) {
		for (form = 0; form < 3; form ++) {
			if (!form_ok(t, form))
				continue;
			for (d = 0; d <= top; d ++) {
				if (light && t->n > 2000 && d > 300 && d + 300 < t->n && 0 != d % 211)
					continue;
				recover_one(t, le, d, t->bytes, form);
				if (t->bytes > 1 && d < 256)
					recover_one(t, le, d, t->bytes - 1, form);
			}
			recover_one(t, le, maxval(t->bytes), t->bytes, form);
			recover_one(t, le, 1, t->bytes + 1, form);
			recover_one(t, le, 1, 0, form);
		}
	}
	(void)dlen;
}

/* -------------------------------------------------------------------------- part D: Diffie-Hellman */
static const char *T_DH = "ecdsa_dh";
static const char *T_DHB[2] = { "ecdsa_dh_be", "ecdsa_dh_le" };
static const char *T_DH_OUT = "observed:ecdsa_dh(cofactor,key-outside-subgroup)";

static struct { const char *curve; uint32_t d1, d2; int cof; } dcur;
static void
desc_dh(char *bf, size_t n) {
	snprintf(bf, n, "curve=%s d1=%u d2=%u use_cofactor=%d", dcur.curve, dcur.d1, dcur.d2, dcur.cof);
}
/* shared = x(d * Q) or x(h * d * Q); returns rc, value in *v */
static int
lib_dh(tc_t *t, int cof, tc_pt_t Q, uint32_t d, uint64_t *v) {
	ec_point_t lq;
	bn_t bd, out;
	call_t c;
	int rc;
	tc_pt_to_lib(t, Q, &lq);
	tc_bn_set(&bd, DBL(t), d);
	bn_init(&out, DBL(t));
	memset(&c, 0, sizeof(c));
	c.op = OP_DH; c.curve = t->curve; c.cof = cof; c.pt = &lq; c.d = &bd; c.out = &out;
	rc = call_lib(&c);
	*v = (0 == rc) ? tc_bn_get(&out) : 0;
	return (rc);
}

static void
dh_all(const char *cname, int light) {
	tc_t *t = curve_get(cname);
	uint32_t n = t->n, d1, d2, i;
	uint64_t v12, v21;
	int cof, rc1, rc2;
	tc_pt_t S;
	if (NULL == t->curve)
		return;
	vh_set_describer(desc_dh);
	for (cof = 0; cof < 2; cof ++) {
		for (d1 = 0; d1 <= n; d1 ++) {
			for (d2 = d1; d2 <= n; d2 ++) {
				if (light && d1 > 8 && d2 > 8 && d1 + 8 < n && d2 + 8 < n && 0 != (d1 * 7 + d2) % 11)
					continue;
				if (!vh_begin(T_DH))
					continue;
				dcur.curve = cname; dcur.d1 = d1; dcur.d2 = d2; dcur.cof = cof;
				rc1 = lib_dh(t, cof, t->kG[d2 % n], d1, &v12);	/* party 1: own d1, peer's Q2 = d2*G */
				rc2 = lib_dh(t, cof, t->kG[d1 % n], d2, &v21);
				if (RC_CRASH == rc1 || RC_CRASH == rc2)
					continue;
				if (0 == d1 || 0 == d2 || d1 >= n || d2 >= n) {
					/* d = 0, d = n (d*Q = O) or Q = O: there is no x coordinate to return */
					if (0 == rc1 || 0 == rc2)
						vh_fail("secret-from-the-neutral-element", "rc=%d/%d although the product is O or the key is >= n", rc1, rc2);
					continue;
				}
				S = t->kG[(uint32_t)(((uint64_t)d1 * d2 % n) * (cof ? t->h % n : 1) % n)];
				if (!tc_eq(S, tc_mul(t, (uint64_t)d1 * (cof ? t->h : 1), t->kG[d2])))
					tc_die("internal: index arithmetic and tc_mul disagree", cname);
				if (0 != rc1 || 0 != rc2) {
					vh_fail("dh-failed", "rc=%d/%d for two valid key pairs", rc1, rc2);
					continue;
				}
				if (v12 != v21) {
					vh_fail("dh-not-symmetric", "%" PRIu64 " vs %" PRIu64, v12, v21);
					continue;
				}
				if (S.inf || v12 != S.x) {
					vh_fail("dh-wrong-secret", "got %" PRIu64 ", x(%s d1*d2*G) = %u", v12, cof ? "h*" : "", S.x);
					continue;
				}
				vh_nontrivial();
			}
		}
	}
	/* keys outside <G> (cofactor curves): SEC 1 3.3.2 computes h*d*Q; the library (h*d mod n)*Q.  Recorded only:
	 * such a point is not a public key and the byte entry points refuse it when validation is compiled in. */
	if (t->h > 1) {
		for (i = 0; i < t->npts; i ++) {
			if (t->in_sub[i])
				continue;
			for (d1 = 1; d1 < n; d1 += (light ? 7 : 1)) {
				if (!vh_begin(T_DH_OUT))
					continue;
				dcur.curve = cname; dcur.d1 = d1; dcur.d2 = i; dcur.cof = 1;
				rc1 = lib_dh(t, 1, t->pts[i], d1, &v12);
				S = tc_mul(t, (uint64_t)d1 * t->h, t->pts[i]);
				if (0 == rc1 && (S.inf || v12 != S.x))
					vh_nontrivial(); /* differs from SEC 1's h*d*Q */
			}
		}
	}
	vh_set_describer(NULL);
}

static void
dhb_one(tc_t *t, int le, int cof, uint32_t d1, uint32_t d2, int form, size_t dlen) {
	size_t b = t->bytes, ssz = 777;
	call_t c;
	tc_pt_t S;
	uint64_t v;
	int rc;

	if (!vh_begin(T_DHB[le]))
		return;
	vh_desc("curve=%s d1=%u peer=%u*G form=%s priv_key_size=%zu use_cofactor=%d", t->def->name, d1, d2, FN[form], dlen, cof);
	if (d1 > maxval(dlen))
		return;
	memset(&c, 0, sizeof(c));
	c.op = OP_DH_B; c.le = le; c.cof = cof; c.curve = t->curve;
	c.plen = ref_encode(t, t->kG[d2], form, le, &c.px, &c.py);
	c.priv = (uint8_t *)malloc(dlen ? dlen : 1); tc_put(c.priv, dlen, d1, le); c.dlen = dlen;
	c.shared = (uint8_t *)malloc(b); memset(c.shared, 0xEE, b);
	c.ssz = &ssz;
	rc = call_lib(&c);
	if (RC_CRASH == rc)
		goto out;
	if (dlen > b || 0 == dlen) { /* refused today (EINVAL): only memory discipline is observed */
		vh_nontrivial();
		goto out;
	}
	S = tc_mul(t, (uint64_t)d1 * (cof ? t->h : 1), t->kG[d2]);
	if (0 != rc) {
		if (d1 >= 1 && d1 < t->n && !t->kG[d2].inf)
			vh_fail("dh-failed", "rc=%d for a valid private key and a valid public key", rc);
		goto out;
	}
	if (S.inf) {
		vh_fail("secret-from-the-neutral-element", "rc=0 although d*Q = O");
		goto out;
	}
	v = tc_get(c.shared, b, le);
	if (ssz != b)
		vh_fail("dh-size", "shared_size=%zu want %zu", ssz, b);
	else if (S.inf || v != S.x)
		vh_fail("dh-wrong-secret", "got %" PRIu64 " want %u", v, S.x);
	else
		vh_nontrivial();
out:
	free(c.px); free(c.py); free(c.priv); free(c.shared);
}

static void
dhb_all(const char *cname, int light) {
	tc_t *t = curve_get(cname);
	uint32_t n = t->n, d1, i;
	int le, cof, form;
	uint32_t peers[] = { 1, 2, n / 2, n - 2, n - 1, 0 /* -> O */ };
	if (NULL == t->curve)
		return;
	for (le = 0; le < 2; le ++) {
		for (cof = 0; cof < 2; cof ++) {
			for (form = 0; form < F_NFORMS; form ++) {
				if (!form_ok(t, form))
					continue;
				for (d1 = 0; d1 <= MIN((uint64_t)n + 1, maxval(t->bytes)); d1 ++) {
					if (light && d1 > 6 && d1 + 6 < n && 0 != d1 % 13)
						continue;
					if (t->n > 2000 && d1 > 40 && d1 + 40 < n && 0 != d1 % 509)
						continue;
					for (i = 0; i < sizeof(peers) / sizeof(peers[0]); i ++) {
						dhb_one(t, le, cof, d1, peers[i], form, t->bytes);
						if (t->bytes > 1 && d1 < 256 && i < 2)
							dhb_one(t, le, cof, d1, peers[i], form, t->bytes - 1);
					}
				}
				dhb_one(t, le, cof, 1, 2, form, t->bytes + 1);
				dhb_one(t, le, cof, 1, 2, form, 0);
			}
		}
	}
}

/* -------------------------------------------------------------------------- part S: size arguments at the boundaries */
static const char *T_SZ_SIGN[2] = { "sizes:ecdsa_sign_be", "sizes:ecdsa_sign_le" };
static const char *T_SZ_VRF[2] = { "sizes:ecdsa_verify_be", "sizes:ecdsa_verify_le" };
static const char *T_SZ_VRFP[2] = { "sizes:ecdsa_verify_priv_key_be", "sizes:ecdsa_verify_priv_key_le" };

/* ecdsa_sign_X compares rnd_size with priv_key_size and priv_key_size with bytes; it then imports `bytes` bytes of rnd. */
static void
sizes_sign(tc_t *t, int le, uint32_t d, uint32_t k, size_t dlen, size_t klen, size_t hlen) {
	size_t b = t->bytes, ssz = 777;
	call_t c;
	int rc;
	if (!vh_begin(T_SZ_SIGN[le]))
		return;
	vh_desc("curve=%s bytes=%zu d=%u k=%u priv_key_size=%zu rnd_size=%zu hash_size=%zu (every buffer exactly that long)",
	    t->def->name, b, d, k, dlen, klen, hlen);
	memset(&c, 0, sizeof(c));
	c.op = OP_SIGN_B; c.le = le; c.curve = t->curve;
	c.bh = (uint8_t *)malloc(hlen ? hlen : 1); memset(c.bh, 0x5a, hlen ? hlen : 1); c.hlen = hlen;
	c.priv = (uint8_t *)malloc(dlen ? dlen : 1); tc_put(c.priv, dlen, d, le); c.dlen = dlen;
	c.rnd = (uint8_t *)malloc(klen ? klen : 1); tc_put(c.rnd, klen, k, le); c.rlen = klen;
	c.br = (uint8_t *)malloc(b); c.bs = (uint8_t *)malloc(b); c.ssz = &ssz;
	rc = call_lib(&c);
	if (RC_CRASH != rc)
		vh_nontrivial(); /* the observer is ASan: every buffer is exactly as long as its size argument says */
	free(c.bh); free(c.priv); free(c.rnd); free(c.br); free(c.bs);
}
static void
sizes_verify(tc_t *t, int le, int which, uint32_t d, size_t hlen, size_t slen, int form, size_t dlen) {
	size_t b = t->bytes;
	call_t c;
	if (!vh_begin(which ? T_SZ_VRFP[le] : T_SZ_VRF[le]))
		return;
	vh_desc("curve=%s bytes=%zu key=%u hash_size=%zu sign_size=%zu key form=%s priv_key_size=%zu", t->def->name, b, d, hlen, slen, FN[form], dlen);
	memset(&c, 0, sizeof(c));
	c.op = which ? OP_VERIFY_PRIV_B : OP_VERIFY_B; c.le = le; c.curve = t->curve;
	c.bh = (uint8_t *)malloc(hlen ? hlen : 1); memset(c.bh, 0x5a, hlen ? hlen : 1); c.hlen = hlen;
	c.br = (uint8_t *)malloc(slen ? slen : 1); c.bs = (uint8_t *)malloc(slen ? slen : 1); c.slen = slen;
	memset(c.br, 0x01, slen ? slen : 1); memset(c.bs, 0x01, slen ? slen : 1);
	if (which) {
		c.priv = (uint8_t *)malloc(dlen ? dlen : 1); tc_put(c.priv, dlen, d, le); c.dlen = dlen;
	} else {
		c.plen = ref_encode(t, t->kG[d], form, le, &c.px, &c.py);
	}
	if (RC_CRASH != call_lib(&c))
		vh_nontrivial(); /* the observer is ASan */
	free(c.bh); free(c.br); free(c.bs); free(c.priv); free(c.px); free(c.py);
}
static void
sizes_all(const char *cname) {
	tc_t *t = curve_get(cname);
	size_t b, dlen, klen, hlen, slen;
	int le, form;
	if (NULL == t->curve)
		return;
	b = t->bytes;
	for (le = 0; le < 2; le ++) {
		for (dlen = 0; dlen <= b + 1; dlen ++)
			for (klen = 0; klen <= b + 2; klen ++)
				for (hlen = 0; hlen <= 2 * b + 1; hlen ++)
					sizes_sign(t, le, 2, 3, dlen, klen, hlen);
		for (hlen = 0; hlen <= 2 * b + 1; hlen ++) {
			for (slen = 0; slen <= b + 1; slen ++) {
				for (form = 0; form < F_NFORMS; form ++)
					if (form_ok(t, form))
						sizes_verify(t, le, 0, 2, hlen, slen, form, 0);
				for (dlen = 0; dlen <= b + 2; dlen ++)
					sizes_verify(t, le, 1, 2, hlen, slen, 0, dlen);
			}
		}
	}
}

/* -------------------------------------------------------------------------- observed: a point object that held O */
static const char *T_REUSE[2] = { "observed:import-into-point-that-held-O/be", "observed:import-into-point-that-held-O/le" };
static void
reuse_observe(const char *cname) {
	tc_t *t = curve_get(cname);
	int le;
	uint8_t zero = 0, *px, *py;
	size_t sz;
	ec_point_t lq;
	tc_pt_t Q;
	call_t c;
	if (NULL == t->curve)
		return;
	for (le = 0; le < 2; le ++) {
		if (!vh_begin(T_REUSE[le]))
			continue;
		vh_desc("curve=%s import 00 then the packed G into the same ec_point_t", cname);
		ec_point_init(&lq, DBL(t));
		memset(&c, 0, sizeof(c));
		c.op = OP_IMPORT; c.le = le; c.curve = t->curve; c.px = &zero; c.plen = 1; c.pt = &lq;
		call_lib(&c);
		sz = ref_encode(t, t->G, F_PACKED, le, &px, &py);
		c.px = px; c.plen = sz;
		if (0 == call_lib(&c) && tc_pt_from_lib(&lq, &Q) && !tc_eq(Q, t->G))
			vh_nontrivial(); /* rc = 0 but the object still says "infinity" */
		free(px);
	}
}

int
main(int argc, char **argv) {
	int light, big;
	vh_init(argc, argv);
	big = (vh_thorough && C09_HEAVY);
	light = !big;
#if C09_ASAN
	/* ASan binaries: everything on a small scale (exact-size heap buffers), plus the size boundaries */
	roundtrip_all("s199"); roundtrip_all("c211h2"); roundtrip_all("w263m3"); roundtrip_all("w269h2");
	if (vh_thorough) { roundtrip_all("s113m3"); roundtrip_all("s229a0"); roundtrip_all("w401"); roundtrip_all("c223h4n"); }
	import_all_1byte("c239h4c", 1);
	import_all_2byte("w269h2", 1);
	keygen_all("s251", 1); keygen_all("w263m3", 1);
	recover_all("s251", 1); recover_all("w401", 1);
	dhb_all("c211h2", 1); dhb_all("w269h2", 1);
	if (vh_thorough) { dhb_all("s199", 0); dhb_all("w401", 1); dh_all("c223h4n", 1); keygen_all("w65519", 1); }
	sizes_all("s199"); sizes_all("w263m3"); sizes_all("w65519");
#else
	/* part R */
	roundtrip_all("s199"); roundtrip_all("s229a0"); roundtrip_all("s113m3"); roundtrip_all("s251");
	roundtrip_all("c211h2"); roundtrip_all("c223h4n"); roundtrip_all("c239h4c");
	roundtrip_all("w401"); roundtrip_all("w263m3"); roundtrip_all("w269h2"); roundtrip_all("w1021");
	roundtrip_all("w65519"); roundtrip_all("w63313"); roundtrip_all("w65519h4");
	/* part I */
	import_all_1byte("s229a0", light);	/* p = 5 (mod 8) */
	import_all_1byte("s113m3", light);	/* p = 1 (mod 16): Tonelli-Shanks; a = -3 */
	import_all_1byte("c223h4n", light);	/* cofactor 4, three points of order 2 */
	if (big) {
		import_all_1byte("s251", 0);	/* p = 3 (mod 4) */
		import_all_1byte("c211h2", 0);
		import_all_1byte("c239h4c", 0);
		import_all_1byte("s127", 0);
	}
	import_all_2byte("w269h2", light);	/* p = 5 (mod 8), cofactor 2 */
	import_all_2byte("w401", light);	/* p = 1 (mod 16): Tonelli-Shanks */
	if (big) {
		import_all_2byte("w263m3", 0);
		import_all_2byte("w1021", 1);
		import_all_2byte("w65519h4", 1);
		import_all_2byte("w63313", 1);	/* p = 1 (mod 8), 16 bit operands in Tonelli-Shanks */
	}
	/* part K, P */
	keygen_all("s199", 0); keygen_all("s251", 0); keygen_all("c223h4n", 0); keygen_all("w401", light); keygen_all("w269h2", light);
	recover_all("s199", 0); recover_all("s251", 0); recover_all("c211h2", 0); recover_all("w401", 0); recover_all("w65519", 1);
	if (big) { keygen_all("w65519", 1); keygen_all("s113m3", 0); recover_all("w65519h4", 1); recover_all("s113m3", 0); }
	/* part D */
	dh_all("s199", light); dh_all("c211h2", light); dh_all("c223h4n", 0); dh_all("c239h4c", 0); dh_all("w269h2", light);
	if (big) { dh_all("s251", 0); dh_all("s113m3", 0); dh_all("w401", 0); dh_all("w263m3", 0); }
	dhb_all("s199", light); dhb_all("c223h4n", light); dhb_all("w269h2", light); dhb_all("w65519", 1);
	if (big) { dhb_all("c211h2", 0); dhb_all("w401", 0); dhb_all("w65519h4", 1); }
	reuse_observe("s199"); reuse_observe("w401");
#endif
#ifndef GC_DISABLE
	if (0 == vh_shard && NULL == vh_only_target)
		printf("NOTE\tguarded calls in shard 0: %llu, contained crashes/hangs: %llu\n",
		    (unsigned long long)gc_calls, (unsigned long long)gc_crashes);
#endif
	return (vh_finish());
}
