/* C09, built-in curves: export -> import = identity for G, 2G, -G and O on each of the 32 curves of ecdsa.h,
 * {compressed, packed, separate, concatenated} x {be, le}.  The reference is the identity itself (no big numbers
 * needed); this is where a field size that is not a multiple of the digit size meets bn_export_le_bin
 * (secp112r1/r2: 14 bytes, secp521r1: 66 bytes). */
#include "vh.h"
#include <errno.h>
#include <sys/param.h>
#include "crypto/dsa/ecdsa.h"

static const char *T_RT[2] = { "builtin:ecdsa_pub_key_export_be>import_be", "builtin:ecdsa_pub_key_export_le>import_le" };
static const char *FN[] = { "compressed", "packed", "separate", "concatenated" };
static const char *PN[] = { "G", "2G", "-G", "O" };
static const char *T_KGL[2] = { "builtin:ecdsa_key_gen_be/seed-length", "builtin:ecdsa_key_gen_le/seed-length" };

int
main(int argc, char **argv) {
	static ec_curve_t curve;
	static uint8_t bx[300], by[300], cat[600];
	size_t i, b, sz, bits;
	int le, form, pi, rc, built;
	ec_point_t P, Q;

	vh_init(argc, argv);
	for (i = 0; i < nitems(ec_curve_str); i ++) {
		built = 0;
		for (pi = 0; pi < 4; pi ++) for (form = 0; form < 4; form ++) for (le = 0; le < 2; le ++) {
			if (!vh_begin(T_RT[le]))
				continue;
			vh_desc("curve=%s point=%s form=%s digit_bits=%d", ec_curve_str[i].name, PN[pi], FN[form], (int)BN_DIGIT_BITS);
			if (!built) {
				if (0 != ecdsa_curve_from_str(&ec_curve_str[i], &curve)) {
					vh_fail("curve-setup-failed", "ecdsa_curve_from_str");
					continue;
				}
				built = 1;
			}
			b = EC_CURVE_CALC_BYTES(&curve);
			bits = EC_CURVE_CALC_BITS_DBL(&curve);
			ec_point_init(&P, bits);
			ec_point_assign(&P, &curve.G);
			if (1 == pi)
				ec_point_add(&P, &P, &curve);
			else if (2 == pi) {
				bn_assign(&P.y, &curve.p);
				bn_sub(&P.y, &curve.G.y, NULL);
			} else if (3 == pi)
				P.infinity = 1;
			sz = 7777;
			rc = le ? ecdsa_pub_key_export_le(&curve, 0 == form, &P, bx, (form >= 2) ? by : NULL, &sz)
			    : ecdsa_pub_key_export_be(&curve, 0 == form, &P, bx, (form >= 2) ? by : NULL, &sz);
			if (0 != rc) {
				vh_fail("export-failed", "rc=%d (field %zu bytes)", rc, b);
				continue;
			}
			ec_point_init(&Q, bits);
			if (3 == form && 3 != pi) {
				memcpy(cat, bx, b); memcpy(cat + b, by, b);
				rc = le ? ecdsa_pub_key_import_le(&curve, cat, NULL, 2 * b, &Q) : ecdsa_pub_key_import_be(&curve, cat, NULL, 2 * b, &Q);
			} else {
				rc = le ? ecdsa_pub_key_import_le(&curve, bx, (2 == form) ? by : NULL, sz, &Q)
				    : ecdsa_pub_key_import_be(&curve, bx, (2 == form) ? by : NULL, sz, &Q);
			}
			if (0 != rc)
				vh_fail("import-of-exported-key-failed", "rc=%d", rc);
			else if (0 == ec_point_is_eq(&P, &Q))
				vh_fail("roundtrip-not-identity", "different point");
			else
				vh_nontrivial();
		}
	}
	/* key generation from a seed of every length 1 .. field size + 2, the seed in a heap block of exactly that size (ASan
	 * red zones behind it): "reads only within the sizes the caller passed"; a seed that is long enough must give a key
	 * pair that public-key recovery reproduces */
	for (i = 0; i < nitems(ec_curve_str); i ++) {
		if (0 != ecdsa_curve_from_str(&ec_curve_str[i], &curve))
			continue;	/* reported by the round-trip part above */
		b = EC_CURVE_CALC_BYTES(&curve);
		for (le = 0; le < 2; le ++) for (sz = 1; sz <= b + 2; sz ++) {
			uint8_t *rnd, *priv, *px, *py, *rx, *ry; size_t dsz, psz, rsz;
			if (!vh_begin(T_KGL[le])) continue;
			vh_desc("curve=%s seed of %zu bytes (field %zu bytes) digit_bits=%d", ec_curve_str[i].name, sz, b, (int)BN_DIGIT_BITS);
			rnd = (uint8_t *)malloc(sz); memset(rnd, 0, sz); rnd[sz / 2] = 0x5a; rnd[le ? 0 : sz - 1] |= 0x03;
			priv = (uint8_t *)malloc(b); px = (uint8_t *)malloc(b + 1); py = (uint8_t *)malloc(b + 1); rx = (uint8_t *)malloc(b + 1); ry = (uint8_t *)malloc(b + 1);
			dsz = 7777; psz = 7777;
			rc = le ? ecdsa_key_gen_le(&curve, rnd, sz, 0, priv, &dsz, px, py, &psz) : ecdsa_key_gen_be(&curve, rnd, sz, 0, priv, &dsz, px, py, &psz);
			if (sz >= b) {
				if (0 != rc) vh_fail("keygen-refused", "a seed of %zu bytes for a %zu-byte field refused rc=%d", sz, b, rc);
				else if (dsz != b) vh_fail("keygen-size", "private key size %zu, field %zu bytes", dsz, b);
				else {
					rsz = 7777;
					rc = le ? ecdsa_recover_pub_key_from_priv_key_le(&curve, priv, dsz, 0, rx, ry, &rsz) : ecdsa_recover_pub_key_from_priv_key_be(&curve, priv, dsz, 0, rx, ry, &rsz);
					if (0 != rc || rsz != psz || 0 != memcmp(rx, px, b) || 0 != memcmp(ry, py, b))
						vh_fail("keygen-recover-disagree", "public key recovered from the generated private key differs (rc=%d)", rc);
					else vh_nontrivial();
				}
			} else
				vh_nontrivial();	/* shorter than the field: refused today; whatever the answer, nothing behind the seed may be read (ASan) */
			free(rnd); free(priv); free(px); free(py); free(rx); free(ry);
		}
	}
	return (vh_finish());
}
