/* C09, built-in curves: export -> import = identity for G, 2G, -G and O on each of the 32 curves of ecdsa.h,
 * {compressed, packed, separate, concatenated} x {be, le}.  The reference is the identity itself (no big numbers
 * needed); this is where a field size that is not a multiple of the digit size meets bn_export_le_bin
 * (secp112r1/r2: 14 bytes, secp521r1: 66 bytes). */
#include "vh.h"
#include <errno.h>
#include <sys/param.h>
#include "crypto/dsa/ecdsa.h"

static const char *T_RT[2] = { "builtin:ecdsa_pub_key_export_be>import_be", "builtin:ecdsa_pub_key_export_le>import_le" };
static const char *FN[] = { "compressed", "packed", "separate", "concatenated" };
static const char *PN[] = { "G", "2G", "-G", "O" };

int
main(int argc, char **argv) {
	static ec_curve_t curve;
	static uint8_t bx[300], by[300], cat[600];
	size_t i, b, sz, bits;
	int le, form, pi, rc, built;
	ec_point_t P, Q;

	vh_init(argc, argv);
	for (i = 0; i < nitems(ec_curve_str); i ++) {
		built = 0;
		for (pi = 0; pi < 4; pi ++) for (form = 0; form < 4; form ++) for (le = 0; le < 2; le ++) {
			if (!vh_begin(T_RT[le]))
				continue;
			vh_desc("curve=%s point=%s form=%s digit_bits=%d", ec_curve_str[i].name, PN[pi], FN[form], (int)BN_DIGIT_BITS);
			if (!built) {
				if (0 != ecdsa_curve_from_str(&ec_curve_str[i], &curve)) {
					vh_fail("curve-setup-failed", "ecdsa_curve_from_str");
					continue;
				}
				built = 1;
			}
			b = EC_CURVE_CALC_BYTES(&curve);
			bits = EC_CURVE_CALC_BITS_DBL(&curve);
			ec_point_init(&P, bits);
			ec_point_assign(&P, &curve.G);
			if (1 == pi)
				ec_point_add(&P, &P, &curve);
			else if (2 == pi) {
				bn_assign(&P.y, &curve.p);
				bn_sub(&P.y, &curve.G.y, NULL);
			} else if (3 == pi)
				P.infinity = 1;
			sz = 7777;
			rc = le ? ecdsa_pub_key_export_le(&curve, 0 == form, &P, bx, (form >= 2) ? by : NULL, &sz)
			    : ecdsa_pub_key_export_be(&curve, 0 == form, &P, bx, (form >= 2) ? by : NULL, &sz);
			if (0 != rc) {
				vh_fail("export-failed", "rc=%d (field %zu bytes)", rc, b);
				continue;
			}
			ec_point_init(&Q, bits);
			if (3 == form && 3 != pi) {
				memcpy(cat, bx, b); memcpy(cat + b, by, b);
				rc = le ? ecdsa_pub_key_import_le(&curve, cat, NULL, 2 * b, &Q) : ecdsa_pub_key_import_be(&curve, cat, NULL, 2 * b, &Q);
			} else {
				rc = le ? ecdsa_pub_key_import_le(&curve, bx, (2 == form) ? by : NULL, sz, &Q)
				    : ecdsa_pub_key_import_be(&curve, bx, (2 == form) ? by : NULL, sz, &Q);
			}
			if (0 != rc)
				vh_fail("import-of-exported-key-failed", "rc=%d", rc);
			else if (0 == ec_point_is_eq(&P, &Q))
				vh_fail("roundtrip-not-identity", "different point");
			else
				vh_nontrivial();
		}
	}
	return (vh_finish());
}
