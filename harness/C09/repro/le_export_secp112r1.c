/* C09 finding (DESIGN 11 #10 seen at the ecdsa_* level): with the default 64 bit digits every little-endian export
 * on secp112r1 / secp112r2 fails.
 *
 * The field has 14 bytes, two 64 bit digits hold 16.  bn_digits_export_le_bin() (big_num.h:1098-1110) then
 * allows the top digit only values below  1 << (1 + ddiff*8)  with ddiff = 16 - 14 = 2, i.e. below 2^17, while
 * the top digit of a 112 bit number carries 48 bits.  So ecdsa_pub_key_export_le, ecdsa_key_gen_le, ecdsa_sign_le,
 * ecdsa_dh_le and ecdsa_recover_pub_key_from_priv_key_le return EOVERFLOW (75) for practically every value, although
 * the value fits the buffer.  (The correct bound is: the top digit must be < 2^(8*(BN_DIGIT_SIZE - ddiff)).)
 * The same wrong bound is too LAX in the other direction, see harness/C03/repro/n_longer_than_field_tiny.c (a).
 *
 *   gcc -O1 -w -I/repo/include le_export_secp112r1.c -o le_export && ./le_export        (exit 1 on the defective tree)
 *   gcc -O1 -w -I/repo/include -DBN_DIGIT_BIT_CNT=32 -DBN_CC_MULL_DIV=1 le_export_secp112r1.c -o le_export32 && ./le_export32   (works: 14 = 3.5 digits, ddiff = 2, top digit has 16 bits < 2^17)
 */
#include <stdio.h>
#include <string.h>
#include <stdint.h>
#include <stdlib.h>
#include <errno.h>
#include "crypto/dsa/ecdsa.h"

int
main(void) {
	static ec_curve_t curve;
	const char *name = "secp112r1";
	uint8_t x[29], y[14];
	size_t sz = 0;
	int rc_be, rc_le;

	if (0 != ecdsa_curve_from_str(ecdsa_curve_str_get_by_name(name, strlen(name)), &curve))
		return (2);
	rc_be = ecdsa_pub_key_export_be(&curve, 0, &curve.G, x, NULL, &sz);
	rc_le = ecdsa_pub_key_export_le(&curve, 0, &curve.G, x, NULL, &sz);
	printf("export of the base point of secp112r1 (digit = %d bits): be rc=%d, le rc=%d\n", (int)BN_DIGIT_BITS, rc_be, rc_le);
	(void)y;
	return ((0 != rc_le) ? 1 : 0);
}
