/* C09 finding: ecdsa_sign_be / ecdsa_sign_le read `bytes` bytes of `rnd` although they only require
 * rnd_size >= priv_key_size.
 *
 *     if (rnd_size < priv_key_size || priv_key_size > bytes) return (EINVAL);   // ecdsa.h:1288 / 1327
 *     ...
 *     BN_RET_ON_ERR(bn_import_be_bin(&s, rnd, bytes));                          // ecdsa.h:1299 / 1338
 *
 * A private key may legitimately be shorter than the field (leading zero bytes dropped; priv_key_size < bytes is
 * accepted everywhere).  With such a key and rnd_size == priv_key_size the call succeeds after reading
 * bytes - rnd_size bytes behind the caller's random buffer - and uses them as part of the nonce.
 * ecdsa_key_gen_be/le have the right test (rnd_size < bytes -> EINVAL).
 *
 *   gcc -O1 -g -w -fsanitize=address -I/repo/include sign_rnd_overread.c -o sign_rnd_overread && ./sign_rnd_overread
 *   -> AddressSanitizer: heap-buffer-overflow READ of size 1 ... in bn_digits_import_be_bin <- ecdsa_sign_be
 * Without ASan the program prints rc=0 (exit 1): success with a 31 byte random buffer on a 32 byte curve.
 */
#include <stdio.h>
#include <string.h>
#include <stdint.h>
#include <stdlib.h>
#include <errno.h>
#include "crypto/dsa/ecdsa.h"

int
main(void) {
	static ec_curve_t curve;
	const char *name = "secp256r1";
	uint8_t hash[32], r[32], s[32];
	uint8_t *priv = malloc(31), *rnd = malloc(31);	/* a 248 bit private key, 31 random bytes */
	size_t ss = 0;
	int rc;

	if (0 != ecdsa_curve_from_str(ecdsa_curve_str_get_by_name(name, strlen(name)), &curve))
		return (2);
	memset(hash, 0x42, 32);
	memset(priv, 0x11, 31);
	memset(rnd, 0x77, 31);
	rc = ecdsa_sign_be(&curve, hash, 32, priv, 31, rnd, 31, r, s, &ss);
	printf("ecdsa_sign_be(priv_key_size=31, rnd_size=31) on a 32 byte curve: rc=%d\n", rc);
	return ((0 == rc) ? 1 : 0);
}
