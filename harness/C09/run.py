"""C09 - key encoding, validation, derivation and Diffie-Hellman are consistent.

Tiny synthetic curves shared with C03 (harness/C03/tc.h + gc.h).  Per configuration:
  <name>.g  no sanitizer, library calls on the guarded 0xA5 stack: the large enumerations (parts R, I, K, P, D)
  <name>.s  ASan: every part on a reduced scale + part S (size arguments at the boundaries, exact-size heap buffers)
  real-*    the 32 built-in curves: export -> import of G, 2G, -G, O (ASan)"""
import os
from concurrent.futures import ThreadPoolExecutor
from vlib import core

PROJ = ['-DEC_USE_PROJECTIVE=1', '-DEC_PROJ_ADD_MIX=1', '-DEC_PROJ_REPEAT_DOUBLE=1']
NOCHK = ['-DEC_DISABLE_PUB_KEY_CHK=1']


def D(bits, bn_bits, cc=True):
    return ['-DBN_DIGIT_BIT_CNT=%d' % bits, '-DBN_BIT_LEN=%d' % bn_bits] + (['-DBN_CC_MULL_DIV=1'] if cc else [])


# name, compiler, optimisation of .g, flags, kinds, tier
CONFIGS = [
    ('d8-affine',         'gcc',   '-O2', D(8, 128) + ['-DC09_HEAVY=1'], 'gs', 'quick'),
    ('d64-affine',        'gcc',   '-O2', D(64, 512) + ['-DC09_HEAVY=1'], 'gs', 'quick'),
    ('d8-affine-nochk',   'gcc',   '-O2', D(8, 128) + NOCHK, 'gs', 'quick'),
    ('d64-proj-nochk',    'clang', '-O2', D(64, 512) + PROJ + NOCHK + ['-DEC_PF_TWIN_MULT_ALGO=3'], 'g', 'quick'),
    ('d8-proj-inter',     'clang', '-O2', D(8, 128, cc=False) + PROJ + ['-DEC_PF_TWIN_MULT_ALGO=3', '-DEC_PF_FXP_MULT_WIN_BITS=4'], 'g', 'thorough'),
    ('d8-slidingwin',     'clang', '-O1', D(8, 128) + ['-DEC_PF_FXP_MULT_ALGO=2', '-DEC_PF_UNKPT_MULT_ALGO=2'], 'g', 'thorough'),
    ('d8-bin',            'gcc',   '-O3', D(8, 128) + ['-DEC_PF_FXP_MULT_ALGO=0', '-DEC_PF_UNKPT_MULT_ALGO=0'], 'g', 'thorough'),
    ('d16-affine',        'gcc',   '-O0', D(16, 128), 'gs', 'thorough'),
    ('d32-proj',          'gcc',   '-O2', D(32, 256) + PROJ, 'gs', 'thorough'),
]
# the 32 built-in curves: digit sizes that do / do not divide the field sizes
REAL = [
    ('real-d64', 'gcc', ['-DEC_PF_FXP_MULT_WIN_BITS=4'], 'quick'),
    ('real-d32', 'gcc', ['-DBN_DIGIT_BIT_CNT=32', '-DBN_CC_MULL_DIV=1', '-DEC_PF_FXP_MULT_WIN_BITS=4'], 'quick'),
    ('real-d8',  'clang', ['-DBN_DIGIT_BIT_CNT=8', '-DBN_CC_MULL_DIV=1', '-DEC_PF_FXP_MULT_WIN_BITS=4'] + PROJ, 'thorough'),
    ('real-d16', 'gcc', ['-DBN_DIGIT_BIT_CNT=16', '-DBN_CC_MULL_DIV=1', '-DEC_PF_FXP_MULT_WIN_BITS=4', '-DEC_DISABLE_PUB_KEY_CHK=1'], 'thorough'),
]
INC = ['-I' + os.path.join(core.VERIF, 'harness', 'C03')]


def build(cfg, kind):
    name, cc, opt, flags, _, _ = cfg
    fl = list(flags) + INC
    if kind == 'g':
        return core.compile_c('C09', 'h_c09_%s.g' % name, ['harness/C09/h_c09.c'], flags=fl + ['-g'], cc=cc, opt=opt, san=None)
    return core.compile_c('C09', 'h_c09_%s.s' % name, ['harness/C09/h_c09.c'], flags=fl + ['-DGC_DISABLE=1', '-DC09_ASAN=1'], cc=cc, opt='-O1', san='asan')


def build_real(cfg):
    name, cc, flags, _ = cfg
    bdir = core.build_dir('C09')
    flags = list(flags) + ['-I' + bdir]
    return core.compile_c('C09', 'h_c09_%s' % name, ['harness/C09/h_c09_real.c'], flags=list(flags), cc=cc, opt='-O1', san='asan')


def run(tier):
    rep = core.Report('C09', tier, 'exploration',
        'tiny curves with the whole group tabulated (prime order and cofactor 2/4; p = 3 mod 4, 5 mod 8, 1 mod 16): ALL points x 4 encodings x 2 byte '
        'orders through export -> import; EVERY byte string of length 1, 2, 3 (one byte fields; every prefix x every x, and prefixes x coordinate '
        'sets covering [0,p+8) for two byte fields) through ecdsa_pub_key_import_be/le; every seed through key generation; every private key through '
        'public-key recovery; ALL (d1,d2) through ecdsa_dh with cofactor on/off; the byte entry points with every size argument around the '
        'boundaries the code compares against on exact-size heap buffers.  A case is non-trivial when the library accepted/produced a key and '
        'it was compared with the reference point')
    rep.assumptions = [
        'reference = SEC 1 2.3.3/2.3.4/3.2.1/3.3 written in the harness with native integers over a group table that every process '
        're-derives by brute force (harness/C03/tc.h); a compressed/packed/concatenated form with little-endian coordinates is read as the '
        'same layout with the coordinate bytes reversed',
        '.g binaries: library calls on a private stack pre-filled with 0xA5 under a guard page; .s binaries: ASan recover mode, '
        'every buffer exactly as long as its size argument',
        'with -DEC_DISABLE_PUB_KEY_CHK only round trips, key derivation, DH and memory discipline are judged (the statement ties '
        'the accept/reject rule to "validation enabled")',
    ]
    # reference points for the built-in curves (Python integers, parameters parsed from the library's own table)
    import subprocess, sys
    subprocess.run([sys.executable, os.path.join(core.VERIF, 'harness', 'C09', 'gen_real_points.py'), core.REPO,
                    os.path.join(core.build_dir('C09'), 'real_points.h'), '6' if tier == 'quick' else '16'], check=True)
    cfgs = [c for c in CONFIGS if tier == 'thorough' or c[5] == 'quick']
    reals = [c for c in REAL if tier == 'thorough' or c[3] == 'quick']
    jobs = [(c, k) for c in cfgs for k in c[4]]
    bins, skipped = {}, []
    with ThreadPoolExecutor(max_workers=8) as ex:
        futs = {'%s.%s' % (c[0], k): ex.submit(build, c, k) for c, k in jobs}
        futs.update({c[0]: ex.submit(build_real, c) for c in reals})
        for key, f in futs.items():
            try:
                bins[key] = f.result()
            except core.BuildError as e:
                skipped.append({'config': key, 'reason': 'does not compile: ' + str(e)[-300:]})
    for c, k in jobs:
        key = '%s.%s' % (c[0], k)
        if key in bins:
            core.run_sharded(rep, bins[key], tier, config=key)
            rep.configs.append({'name': key, 'cc': c[1], 'opt': c[2] if k == 'g' else '-O1',
                                'sanitizer': 'none (guarded stack)' if k == 'g' else 'asan', 'flags': c[3]})
    for c in reals:
        if c[0] in bins:
            core.run_sharded(rep, bins[c[0]], tier, nshards=4, config=c[0])
            rep.configs.append({'name': c[0], 'cc': c[1], 'opt': '-O1', 'sanitizer': 'asan', 'flags': c[2]})
    if skipped:
        rep.extra['configurations_skipped'] = skipped
    rep.extra['recorded_not_enforced'] = [
        'hybrid prefixes 06/07 accepted although the parity bit contradicts y (targets observed:hybrid-prefix-parity-ignored/*: nontrivial = accepted)',
        'ecdsa_dh(use_cofactor=1) on a point outside <G> returns (h*d mod n)*Q, SEC 1 3.3.2 computes h*d*Q (target observed:ecdsa_dh(...): nontrivial = differs)',
        'importing a finite point into an ec_point_t that held O leaves infinity = 1 (targets observed:import-into-point-that-held-O/*)',
        'one byte fields: the "separate" and "concatenated" sizes collide with "O" and "compressed" (cannot happen on a real curve); those forms run on two byte fields',
    ]
    rep.finish(core.make_replayer(lambda cfg: bins[cfg], tier))
