/* Shared by the thread-pool scenarios (C05, C10, C11): event recording, hooks, bring-up/tear-down. */
#ifndef TP_COMMON_H
#define TP_COMMON_H
#include <errno.h>
#include <stdio.h>
#include <stdlib.h>
#include <string.h>
#include <stdint.h>
#include <pthread.h>
#include "sched/sched.h"
#include "threadpool/threadpool.h"
#include "threadpool/threadpool_msg_sys.h"

enum { E_START = 1, E_STOP, E_CB_BEGIN, E_CB_END, E_DONE, E_CALL_BEGIN, E_CALL_RET, E_SEND_RET, E_EVENT };
static const char *tpc_evname[] = { "?", "start", "stop", "cb_begin", "cb_end", "done", "call_begin", "call_ret", "send_ret", "event" };

typedef struct tpc_evt_s { int type, tid, tnum; long a, b, c; } tpc_evt_t;
#define TPC_MAX_EV 4096
static tpc_evt_t tpc_ev[TPC_MAX_EV];
static int tpc_nev = 0;
static tp_p tpc_tp = NULL;
static int tpc_W = 0;
static int tpc_tid_of[40];	/* thread number -> logical (scheduler) thread id, -1 unknown */
static int tpc_starts[40], tpc_stops[40];
static int tpc_destroyed = 0;

static int
tpc_add(int type, int tnum, long a, long b, long c) {
	if (tpc_nev >= TPC_MAX_EV)
		sc_fail("harness", "event table full");
	tpc_ev[tpc_nev].type = type;
	tpc_ev[tpc_nev].tid = sc_self();
	tpc_ev[tpc_nev].tnum = tnum;
	tpc_ev[tpc_nev].a = a; tpc_ev[tpc_nev].b = b; tpc_ev[tpc_nev].c = c;
	sc_log("%s tnum=%d a=%ld b=%ld c=%ld", tpc_evname[type], tnum, a, b, c);
	if (tpc_destroyed && (E_CB_BEGIN == type || E_DONE == type || E_START == type || E_STOP == type || E_EVENT == type))
		sc_fail("callback-after-destroy", "%s on thread %d after tp_destroy() returned", tpc_evname[type], tnum);
	return (tpc_nev ++);
}

static void
tpc_on_start(tpt_p tpt) {
	int n = (int)tpt_get_num(tpt);
	tpc_add(E_START, n, 0, 0, 0);
	if (n >= 0 && n < 40) {
		tpc_starts[n] ++;
		tpc_tid_of[n] = sc_self();
	}
}

static void (*tpc_stop_extra)(tpt_p) = NULL;	/* scenario hook: runs inside the stop hook (the thread is out of its loop, not yet stopped) */
static void
tpc_on_stop(tpt_p tpt) {
	int n = (int)tpt_get_num(tpt);
	tpc_add(E_STOP, n, 0, 0, 0);
	if (n >= 0 && n < 40)
		tpc_stops[n] ++;
	if (NULL != tpc_stop_extra)
		tpc_stop_extra(tpt);
}

static int
tpc_create(int W) {
	tp_settings_t s;
	int i, rc;

	for (i = 0; i < 40; i ++) { tpc_tid_of[i] = -1; tpc_starts[i] = tpc_stops[i] = 0; }
	tpc_W = W;
	tp_settings_def(&s);
	s.flags = 0;
	s.threads_max = (size_t)W;
	s.tpt_on_start = tpc_on_start;
	s.tpt_on_stop = tpc_on_stop;
	tpc_tp = NULL;
	rc = tp_create(&s, &tpc_tp);
	return (rc);
}

/* Create + start; returns after every started worker is parked in its event loop. */
static void
tpc_up(int W, int skip_first) {
	int rc = tpc_create(W);
	if (0 != rc || NULL == tpc_tp)
		sc_fail("harness", "tp_create failed rc=%d without any injected fault", rc);
	rc = tp_threads_create(tpc_tp, skip_first);
	if (0 != rc)
		sc_fail("harness", "tp_threads_create rc=%d", rc);
	sc_wait_quiescent();
}

static void
tpc_down(void) {
	int rc;
	tp_shutdown(tpc_tp);
	rc = tp_shutdown_wait(tpc_tp);
	if (0 != rc)
		sc_fail("shutdown_wait-rc", "tp_shutdown_wait rc=%d", rc);
	rc = tp_destroy(tpc_tp);
	if (0 != rc)
		sc_fail("destroy-rc", "tp_destroy rc=%d", rc);
	tpc_destroyed = 1;
}

/* Overwrite a chunk of stack below the current frame: a late reader of a dead frame sees 0xA5. */
static void __attribute__((noinline))
tpc_scribble(void) {
	volatile char junk[2048];
	size_t i;
	for (i = 0; i < sizeof(junk); i ++)
		junk[i] = (char)0xA5;
}

static int
tpc_count(int type, int tnum, long a) {
	int i, n = 0;
	for (i = 0; i < tpc_nev; i ++) {
		if (tpc_ev[i].type == type && (tnum < 0 || tpc_ev[i].tnum == tnum) && (a == -1 || tpc_ev[i].a == a))
			n ++;
	}
	return (n);
}

static int
tpc_first(int type, int tnum, long a) {
	int i;
	for (i = 0; i < tpc_nev; i ++) {
		if (tpc_ev[i].type == type && (tnum < 0 || tpc_ev[i].tnum == tnum) && (a == -1 || tpc_ev[i].a == a))
			return (i);
	}
	return (-1);
}

static int
tpc_last(int type, int tnum, long a) {
	int i;
	for (i = tpc_nev - 1; i >= 0; i --) {
		if (tpc_ev[i].type == type && (tnum < 0 || tpc_ev[i].tnum == tnum) && (a == -1 || tpc_ev[i].a == a))
			return (i);
	}
	return (-1);
}
#endif
