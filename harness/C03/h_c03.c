/* C03 - ECDSA / GOST R 34.10 signatures: complete, sound and standard-conforming.
 *
 * Exhaustive enumeration on tiny prime-order curves (tc.h).  The oracle is the standard itself,
 * written with native integers over the brute-force group table (tc_std_sign / tc_std_verify);
 * it shares no code with liblcb.
 *
 *  part A  ecdsa_sign            all d x all hash integers e in [0,2n] x all nonces k in [0,2n]
 *  part B  ecdsa_verify,         FULL truth table: all (Q, e, r, s), e in [0,2n], r,s in [0,n+1], Q = iG, i in [1,n-1];
 *          ecdsa_verify_priv_key reference-signed signatures on the larger groups
 *  part C  *_be / *_le           byte entry points on exact-size heap buffers, hash lengths bytes-1 .. 2*bytes
 *
 * Two kinds of binaries are built from this file (run.py):
 *   "g" (guarded, no sanitizer): every library call runs through gc_call() - private stack pre-filled with 0xA5,
 *       crashes and hangs of the callee become clauses.  Parts A, B, C.
 *   "s" (ASan, GC_DISABLE): part C only, for the exact-size heap buffers.
 *
 * Clause names carry the regime of the hash so that one known deviation cannot hide another:
 *   [hash-below-n]      the hash integer is in [1, n-1]       (no reduction needed)
 *   [hash-not-below-n]  the hash integer is >= n              (standards: e mod n)
 *   [hash-zero]         the hash integer is 0 (for the byte entry points: the integer the library imports)
 *   [sec1-bit-truncation]  SEC 1 4.1.3 step 5 keeps the leftmost ceil(log2 n) BITS of the hash; the library keeps bytes
 */
#include "vh.h"
#include "tc.h"
#include "gc.h"

#ifndef C03_HEAVY
#define C03_HEAVY 0
#endif
#ifndef C03_PARTS
#define C03_PARTS 7
#endif
#ifndef C03_TRUTH31	/* thorough: also the truth table of the group of order 31 (8.2 M verifications) */
#define C03_TRUTH31 C03_HEAVY
#endif
#ifndef C03_SKIP_ZERO	/* 1: do not present zero hash integers / r / s (NOTES.md F3: they once made the library read uninitialised stack, which makes ASan runs history dependent) */
#define C03_SKIP_ZERO 0
#endif

static tc_t *TC[64];
static tc_t *
curve_get(const char *name) {
	size_t i;
	for (i = 0; i < TC_NDEFS; i ++) {
		if (0 == strcmp(tc_defs[i].name, name)) {
			if (NULL == TC[i])
				TC[i] = tc_build(&tc_defs[i]);
			return (TC[i]);
		}
	}
	tc_die("unknown curve", name);
	return (NULL);
}

static const char *algo_name[2] = { "ecdsa", "gost" };
#define DBL(t) EC_CURVE_CALC_BITS_DBL((t)->curve)
#define RC_CRASH (-99999)

/* -------------------------------------------------------------------------- library calls (through gc_call) */
enum { OP_SIGN, OP_VERIFY, OP_VERIFY_PRIV, OP_SIGN_B, OP_VERIFY_B, OP_VERIFY_PRIV_B };
typedef struct call_s {
	int	op, le, rc;
	ec_curve_p curve;
	bn_p	h, d, k, r, s;
	ec_point_p q;
	uint8_t	*bh, *bd, *bk, *br, *bs, *px, *py;
	size_t	hlen, dlen, klen, slen, plen, *ssz;
} call_t;

static void
call_do(void *p) {
	call_t *c = (call_t *)p;
	switch (c->op) {
	case OP_SIGN:
		c->rc = ecdsa_sign(c->curve, c->h, c->d, c->k, c->r, c->s);
		break;
	case OP_VERIFY:
		c->rc = ecdsa_verify(c->curve, c->h, c->r, c->s, c->q);
		break;
	case OP_VERIFY_PRIV:
		c->rc = ecdsa_verify_priv_key(c->curve, c->h, c->r, c->s, c->d);
		break;
	case OP_SIGN_B:
		c->rc = c->le ? ecdsa_sign_le(c->curve, c->bh, c->hlen, c->bd, c->dlen, c->bk, c->klen, c->br, c->bs, c->ssz)
		    : ecdsa_sign_be(c->curve, c->bh, c->hlen, c->bd, c->dlen, c->bk, c->klen, c->br, c->bs, c->ssz);
		break;
	case OP_VERIFY_B:
		c->rc = c->le ? ecdsa_verify_le(c->curve, c->bh, c->hlen, c->br, c->bs, c->slen, c->px, c->py, c->plen)
		    : ecdsa_verify_be(c->curve, c->bh, c->hlen, c->br, c->bs, c->slen, c->px, c->py, c->plen);
		break;
	case OP_VERIFY_PRIV_B:
		c->rc = c->le ? ecdsa_verify_priv_key_le(c->curve, c->bh, c->hlen, c->br, c->bs, c->slen, c->bd, c->dlen)
		    : ecdsa_verify_priv_key_be(c->curve, c->bh, c->hlen, c->br, c->bs, c->slen, c->bd, c->dlen);
		break;
	}
}
static const char *op_name[] = { "ecdsa_sign", "ecdsa_verify", "ecdsa_verify_priv_key", "ecdsa_sign_be/le", "ecdsa_verify_be/le", "ecdsa_verify_priv_key_be/le" };
static int
call_lib(call_t *c) {
	int sig = gc_call(call_do, c);
	char cl[64];
	if (0 != sig) {
		snprintf(cl, sizeof(cl), "%s-in-%s", (SIGALRM == sig) ? "timeout" : gc_signame(sig), op_name[c->op]);
		vh_fail(cl, "%s inside the library call (private stack pre-filled with 0x%02x)", gc_signame(sig), GC_PATTERN);
		return (RC_CRASH);
	}
	return (c->rc);
}

/* current case, for the lazy describer */
static struct {
	const char *what, *curve;
	int algo;
	uint32_t d, e, k, r, s;
} cur;
static void
desc_cur(char *b, size_t n) {
	snprintf(b, n, "%s curve=%s algo=%s d/i=%u e=%u k=%u r=%u s=%u", cur.what, cur.curve,
	    algo_name[cur.algo], cur.d, cur.e, cur.k, cur.r, cur.s);
}

static int
lib_verify(tc_t *t, uint32_t e, uint32_t r, uint32_t s, tc_pt_t Q) {
	bn_t be, br, bs;
	ec_point_t lq;
	call_t c;
	tc_bn_set(&be, DBL(t), e);
	tc_bn_set(&br, DBL(t), r);
	tc_bn_set(&bs, DBL(t), s);
	tc_pt_to_lib(t, Q, &lq);
	memset(&c, 0, sizeof(c));
	c.op = OP_VERIFY; c.curve = t->curve; c.h = &be; c.r = &br; c.s = &bs; c.q = &lq;
	return (call_lib(&c));
}
static int
lib_verify_priv(tc_t *t, uint32_t e, uint32_t r, uint32_t s, uint32_t d) {
	bn_t be, br, bs, bd;
	call_t c;
	tc_bn_set(&be, DBL(t), e);
	tc_bn_set(&br, DBL(t), r);
	tc_bn_set(&bs, DBL(t), s);
	tc_bn_set(&bd, DBL(t), d);
	memset(&c, 0, sizeof(c));
	c.op = OP_VERIFY_PRIV; c.curve = t->curve; c.h = &be; c.r = &br; c.s = &bs; c.d = &bd;
	return (call_lib(&c));
}
/* The capacity every routine derives from curve->m ("double size + 1 digit") is too small for two factors that
 * both need the extra digit of an n longer than the field (secp160k1/r1/r2, secp224k1 layout).  On the real curves
 * that needs values >= 2^(8*bytes), i.e. probability 2^-80; on s251 / w65519 it is common.  Own clause. */
static int
is_n_overflow(tc_t *t, int rc) {
	return (EOVERFLOW == rc && t->nbits > 8 * t->bytes);
}

/* -------------------------------------------------------------------------- part A: signing */
static const char *T_SIGN[2] = { "ecdsa_sign/ecdsa", "ecdsa_sign/gost" };

static void
sign_one(tc_t *t, int algo, uint32_t d, uint32_t e, uint32_t k) {
	bn_t bh, bd, bk, br, bs;
	uint64_t rv, sv;
	int rc, bad = 0;
	const char *reg = (0 == e) ? "hash-zero" : ((e < t->n) ? "hash-below-n" : "hash-not-below-n");
	char cl[112];
	call_t c;

	if (!vh_begin(T_SIGN[algo]))
		return;
	cur.what = "sign"; cur.curve = t->def->name; cur.algo = algo; cur.d = d; cur.e = e; cur.k = k; cur.r = cur.s = 0;
	t->curve->algo = (uint32_t)algo;
	tc_bn_set(&bh, DBL(t), e);
	tc_bn_set(&bd, DBL(t), d);
	tc_bn_set(&bk, DBL(t), k);
	bn_init(&br, DBL(t));
	bn_init(&bs, DBL(t));
	memset(&c, 0, sizeof(c));
	c.op = OP_SIGN; c.curve = t->curve; c.h = &bh; c.d = &bd; c.k = &bk; c.r = &br; c.s = &bs;
	rc = call_lib(&c);
	if (0 != rc)
		return; /* the property speaks about the cases where signing succeeds */
	rv = tc_bn_get(&br); sv = tc_bn_get(&bs);
	cur.r = (uint32_t)rv; cur.s = (uint32_t)sv;
	if (tc_bn_get(&bh) != e || tc_bn_get(&bd) != d) {
		vh_fail("sign-modified-its-input", "hash or key changed by the call");
		bad = 1;
	}
	rc = lib_verify(t, e, (uint32_t)rv, (uint32_t)sv, t->kG[d]);
	if (0 != rc) {
		if (is_n_overflow(t, rc))
			snprintf(cl, sizeof(cl), "own-signature-rejected:EOVERFLOW[n-longer-than-field]");
		else
			snprintf(cl, sizeof(cl), "own-signature-rejected-by-ecdsa_verify[%s]", reg);
		vh_fail(cl, "ecdsa_verify rc=%d", rc);
		bad = 1;
	}
	rc = lib_verify_priv(t, e, (uint32_t)rv, (uint32_t)sv, d);
	if (0 != rc) {
		if (is_n_overflow(t, rc))
			snprintf(cl, sizeof(cl), "own-signature-rejected:EOVERFLOW[n-longer-than-field]");
		else
			snprintf(cl, sizeof(cl), "own-signature-rejected-by-ecdsa_verify_priv_key[%s]", reg);
		vh_fail(cl, "ecdsa_verify_priv_key rc=%d", rc);
		bad = 1;
	}
	if (!tc_std_verify(t, algo, e, rv, sv, t->kG[d])) {
		snprintf(cl, sizeof(cl), "signature-rejected-by-standard-verifier[%s]", reg);
		vh_fail(cl, "(r,s)=(%" PRIu64 ",%" PRIu64 ") is not a valid %s signature of e=%u under Q=%u*G, n=%u",
		    rv, sv, algo_name[algo], e, d, t->n);
		bad = 1;
	}
	if (!bad)
		vh_nontrivial();
}

static uint32_t D_RED[16], E_RED[16];
static uint32_t
red_sets(uint32_t n, uint32_t *ne) {
	uint32_t dv[] = { 1, 2, 3, n / 2, n - 3, n - 2, n - 1 };
	uint32_t ev[] = { 0, 1, 2, n / 2, n - 2, n - 1, n, n + 1, n + 2, 2 * n - 2, 2 * n - 1, 2 * n };
	memcpy(D_RED, dv, sizeof(dv));
	memcpy(E_RED, ev, sizeof(ev));
	*ne = sizeof(ev) / sizeof(ev[0]);
	return (sizeof(dv) / sizeof(dv[0]));
}

static void
sign_all(const char *cname, int reduced) {
	tc_t *t = curve_get(cname);
	uint32_t n = t->n, d, e, k, i, j, nd, ne;
	int algo;

	if (NULL == t->curve)
		return;
	nd = red_sets(n, &ne);
	vh_set_describer(desc_cur);
	for (algo = 0; algo < 2; algo ++) {
		if (!reduced) {
			for (d = 1; d < n; d ++)
				for (e = 0; e <= 2 * n; e ++)
					for (k = 0; k <= 2 * n; k ++)
						sign_one(t, algo, d, e, k);
		} else {
			for (i = 0; i < nd; i ++)
				for (j = 0; j < ne; j ++)
					for (k = 0; k <= 2 * n; k ++)
						sign_one(t, algo, D_RED[i], E_RED[j], k);
		}
	}
	vh_set_describer(NULL);
}

/* -------------------------------------------------------------------------- part B: verifier truth table */
static const char *T_VRF[2] = { "ecdsa_verify/ecdsa", "ecdsa_verify/gost" };
static const char *T_VRFP[2] = { "ecdsa_verify_priv_key/ecdsa", "ecdsa_verify_priv_key/gost" };
static const char *T_VRF_O[2] = { "observed:ecdsa_verify(Q=O)/ecdsa", "observed:ecdsa_verify(Q=O)/gost" };

static void
decide(tc_t *t, int std, int rc, uint32_t e, uint32_t r, uint32_t s) {
	char cl[112];
	const char *reg = (0 == e) ? "hash-zero" : ((e < t->n) ? "hash-below-n" : "hash-not-below-n");
	int lib = (0 == rc);

	if (RC_CRASH == rc)
		return; /* already reported */
	if (lib == std) {
		if (std)
			vh_nontrivial();
		return;
	}
	if (lib && !std) {
		if (0 == r || 0 == s)
			snprintf(cl, sizeof(cl), "accepts-r-or-s-equal-0");
		else if (r >= t->n || s >= t->n)
			snprintf(cl, sizeof(cl), "accepts-r-or-s-above-n-1");
		else
			snprintf(cl, sizeof(cl), "accepts-invalid-signature[%s]", reg);
		vh_fail(cl, "library rc=0, the standard rejects (n=%u)", t->n);
	} else {
		if (is_n_overflow(t, rc))
			snprintf(cl, sizeof(cl), "rejects-valid-signature:EOVERFLOW[n-longer-than-field]");
		else
			snprintf(cl, sizeof(cl), "rejects-valid-signature[%s]", reg);
		vh_fail(cl, "library rc=%d, the standard accepts (n=%u)", rc, t->n);
	}
}

static void
truth_all(const char *cname) {
	tc_t *t = curve_get(cname);
	uint32_t n = t->n, i, e, r, s;
	int algo, std, rc;

	if (NULL == t->curve)
		return;
	vh_set_describer(desc_cur);
	for (algo = 0; algo < 2; algo ++) {
		t->curve->algo = (uint32_t)algo;
		for (i = 1; i < n; i ++) {
			for (e = 0; e <= 2 * n; e ++) {
				for (r = 0; r <= n + 1; r ++) {
					for (s = 0; s <= n + 1; s ++) {
						std = -1;
						cur.curve = cname; cur.algo = algo;
						cur.d = i; cur.e = e; cur.k = 0; cur.r = r; cur.s = s;
						if (vh_begin(T_VRF[algo])) {
							cur.what = "verify";
							std = tc_std_verify(t, algo, e, r, s, t->kG[i]);
							rc = lib_verify(t, e, r, s, t->kG[i]);
							decide(t, std, rc, e, r, s);
						}
						if (vh_begin(T_VRFP[algo])) {
							cur.what = "verify_priv_key";
							if (std < 0)
								std = tc_std_verify(t, algo, e, r, s, t->kG[i]);
							rc = lib_verify_priv(t, e, r, s, i);
							decide(t, std, rc, e, r, s);
						}
					}
				}
			}
		}
		/* Q = O is not a public key (SEC 1 3.2.2.1, GOST 5.2: Q != O); the bn-level verifier has no way to
		 * know.  Not enforced: count how many (e, r, s) it would accept with the neutral element as key. */
		for (e = 0; e <= 2 * n; e ++) {
			for (r = 1; r < n; r ++) {
				for (s = 1; s < n; s ++) {
					if (!vh_begin(T_VRF_O[algo]))
						continue;
					cur.what = "verify(Q=O)"; cur.curve = cname; cur.algo = algo;
					cur.d = 0; cur.e = e; cur.k = 0; cur.r = r; cur.s = s;
					if (0 == lib_verify(t, e, r, s, tc_inf()))
						vh_nontrivial();
				}
			}
		}
	}
	vh_set_describer(NULL);
}

/* Reference-signed signatures on the larger groups: every (d, e, k) the standard signer accepts must verify. */
static void
refsig_all(const char *cname, int reduced) {
	tc_t *t = curve_get(cname);
	uint32_t n = t->n, d, e, k, r, s, i, j, nd, ne;
	int algo, rc;

	if (NULL == t->curve)
		return;
	nd = red_sets(n, &ne);
	vh_set_describer(desc_cur);
	for (algo = 0; algo < 2; algo ++) {
		t->curve->algo = (uint32_t)algo;
		for (i = 0; i < (reduced ? nd : n - 1); i ++) {
			d = reduced ? D_RED[i] : i + 1;
			for (j = 0; j < (reduced ? ne : 2 * n + 1); j ++) {
				e = reduced ? E_RED[j] : j;
				for (k = 1; k < n; k ++) {
					int have = -1;
					cur.curve = cname; cur.algo = algo;
					cur.d = d; cur.e = e; cur.k = k; cur.r = cur.s = 0;
					if (vh_begin(T_VRF[algo])) {
						cur.what = "verify(reference-signed)";
						have = tc_std_sign(t, algo, e, d, k, &r, &s);
						if (have) { /* else: the standard discards this k */
							cur.r = r; cur.s = s;
							if (!tc_std_verify(t, algo, e, r, s, t->kG[d]))
								tc_die("internal: reference signer and verifier disagree", cname);
							rc = lib_verify(t, e, r, s, t->kG[d]);
							decide(t, 1, rc, e, r, s);
						}
					}
					if (vh_begin(T_VRFP[algo])) {
						cur.what = "verify_priv_key(reference-signed)";
						if (have < 0)
							have = tc_std_sign(t, algo, e, d, k, &r, &s);
						if (have) {
							cur.r = r; cur.s = s;
							rc = lib_verify_priv(t, e, r, s, d);
							decide(t, 1, rc, e, r, s);
						}
					}
				}
			}
		}
	}
	vh_set_describer(NULL);
}

/* -------------------------------------------------------------------------- part C: byte entry points */
static const char *T_SIGNB[2][2] = { { "ecdsa_sign_be/ecdsa", "ecdsa_sign_be/gost" }, { "ecdsa_sign_le/ecdsa", "ecdsa_sign_le/gost" } };
static const char *T_VRFB[2][2] = { { "ecdsa_verify_be/ecdsa", "ecdsa_verify_be/gost" }, { "ecdsa_verify_le/ecdsa", "ecdsa_verify_le/gost" } };
static const char *T_VRFPB[2][2] = { { "ecdsa_verify_priv_key_be/ecdsa", "ecdsa_verify_priv_key_be/gost" }, { "ecdsa_verify_priv_key_le/ecdsa", "ecdsa_verify_priv_key_le/gost" } };

enum { REG_LT, REG_GE, REG_BITS, REG_UNSPEC };
static const char *reg_names[5] = { "hash-below-n", "hash-not-below-n", "sec1-bit-truncation", "unspecified", "hash-zero" };
/* clause suffix: a hash that the library imports as the integer zero is its own regime (unless the standard reads other bits) */
static uint64_t std_e_lib;
#define reg_name_of(reg, e) ((REG_BITS != (reg) && 0 == std_e_lib) ? reg_names[4] : reg_names[reg])

/* The integer the standard derives from a hash byte string, and the regime.
 *  ECDSA (SEC 1 4.1.3 step 5): the leftmost min(8*len, ceil(log2 n)) bits of the hash.
 *  GOST (6.1 step 2): alpha = the integer whose binary representation is the hash; defined for hashes
 *  of the field size (256/512 bit for the real parameter sets); longer ones are outside the standard.
 *  Little-endian entry points: the same integer when the whole hash is one number (len <= bytes); a longer
 *  little-endian hash has no standard reading -> REG_UNSPEC (only self-consistency is checked). */
static int
std_e(tc_t *t, int algo, int le, const uint8_t *hash, size_t len, uint64_t *e_ret) {
	uint64_t v, e_lib;
	size_t use = (len < t->bytes) ? len : t->bytes;

	*e_ret = 0;
	std_e_lib = 0;
	if (0 == len || len > 8)
		return (REG_UNSPEC);
	std_e_lib = tc_get(hash, use, le);
	if (le && len > t->bytes)
		return (REG_UNSPEC);
	v = tc_get(hash, len, le);
	e_lib = tc_get(hash, use, le); /* what MIN(hash_size, bytes) imports (be: leftmost bytes; le: len <= bytes here) */
	if (TC_ALGO_GOST == algo) {
		if (len > t->bytes)
			return (REG_UNSPEC);
		*e_ret = v;
		return ((v < t->n) ? REG_LT : REG_GE);
	}
	if (8 * len > t->nbits)
		v >>= (8 * len - t->nbits);
	*e_ret = v;
	if (v != e_lib)
		return (REG_BITS);
	return ((v < t->n) ? REG_LT : REG_GE);
}
static int
hash_is_zero(const uint8_t *h, size_t len) {
	size_t i;
	for (i = 0; i < len; i ++)
		if (h[i])
			return (0);
	return (1);
}

/* public key encodings accepted by ecdsa_verify_*: 0 compressed, 1 packed 04, 2 separate, 3 concatenated */
static size_t
enc_pub(tc_t *t, tc_pt_t Q, int form, int le, uint8_t **px, uint8_t **py) {
	size_t b = t->bytes, sz;
	uint8_t *x, *y = NULL;
	switch (form) {
	case 0:
		sz = 1 + b; x = (uint8_t *)malloc(sz);
		x[0] = (uint8_t)(2 + (Q.y & 1)); tc_put(x + 1, b, Q.x, le);
		break;
	case 1:
		sz = 1 + 2 * b; x = (uint8_t *)malloc(sz);
		x[0] = 4; tc_put(x + 1, b, Q.x, le); tc_put(x + 1 + b, b, Q.y, le);
		break;
	case 2:
		sz = b; x = (uint8_t *)malloc(sz); y = (uint8_t *)malloc(sz);
		tc_put(x, b, Q.x, le); tc_put(y, b, Q.y, le);
		break;
	default:
		sz = 2 * b; x = (uint8_t *)malloc(sz);
		tc_put(x, b, Q.x, le); tc_put(x + b, b, Q.y, le);
		break;
	}
	*px = x; *py = y;
	return (sz);
}
static int
nforms(tc_t *t) { /* with a one byte field the sizes of "separate" and "concatenated" collide with "O" and "compressed" */
	return ((1 == t->bytes) ? 2 : 4);
}
static uint64_t
maxval(size_t bytes) {
	return ((bytes >= 8) ? UINT64_MAX : ((1ull << (8 * bytes)) - 1));
}

static int
call_verify(tc_t *t, int le, const uint8_t *hash, size_t hlen, uint64_t r, uint64_t s, size_t ssz, tc_pt_t Q, int form) {
	call_t c;
	int rc;
	memset(&c, 0, sizeof(c));
	c.op = OP_VERIFY_B; c.le = le; c.curve = t->curve;
	c.bh = (uint8_t *)vh_dup(hash, hlen); c.hlen = hlen;
	c.br = (uint8_t *)malloc(ssz); c.bs = (uint8_t *)malloc(ssz); c.slen = ssz;
	tc_put(c.br, ssz, r, le); tc_put(c.bs, ssz, s, le);
	c.plen = enc_pub(t, Q, form, le, &c.px, &c.py);
	rc = call_lib(&c);
	free(c.bh); free(c.br); free(c.bs); free(c.px); free(c.py);
	return (rc);
}
static int
call_verify_priv(tc_t *t, int le, const uint8_t *hash, size_t hlen, uint64_t r, uint64_t s, size_t ssz, uint32_t d) {
	call_t c;
	int rc;
	memset(&c, 0, sizeof(c));
	c.op = OP_VERIFY_PRIV_B; c.le = le; c.curve = t->curve;
	c.bh = (uint8_t *)vh_dup(hash, hlen); c.hlen = hlen;
	c.br = (uint8_t *)malloc(ssz); c.bs = (uint8_t *)malloc(ssz); c.slen = ssz;
	tc_put(c.br, ssz, r, le); tc_put(c.bs, ssz, s, le);
	c.bd = (uint8_t *)malloc(t->bytes); c.dlen = t->bytes;
	tc_put(c.bd, t->bytes, d, le);
	rc = call_lib(&c);
	free(c.bh); free(c.br); free(c.bs); free(c.bd);
	return (rc);
}

static void
bytes_sign_one(tc_t *t, int algo, int le, uint32_t d, uint32_t k, const uint8_t *hash, size_t hlen) {
	size_t b = t->bytes, ssz = 777;
	char hx[32], cl[112];
	const char *own;
	uint64_t e = 0, rv, sv;
	int rc, reg, form, bad = 0;
	call_t c;

	if (!vh_begin(T_SIGNB[le][algo]))
		return;
	if (C03_SKIP_ZERO && hlen > 0 && hash_is_zero(hash, MIN(hlen, b)))
		return;
	vh_hex(hx, sizeof(hx), hash, hlen);
	vh_desc("sign curve=%s n=%u bytes=%zu d=%u k=%u hash[%zu]=%s", t->def->name, t->n, b, d, k, hlen, hx);
	t->curve->algo = (uint32_t)algo;
	memset(&c, 0, sizeof(c));
	c.op = OP_SIGN_B; c.le = le; c.curve = t->curve;
	c.bh = (uint8_t *)vh_dup(hash, hlen); c.hlen = hlen;
	c.bd = (uint8_t *)malloc(b); tc_put(c.bd, b, d, le); c.dlen = b;
	c.bk = (uint8_t *)malloc(b); tc_put(c.bk, b, k, le); c.klen = b;
	c.br = (uint8_t *)malloc(b); c.bs = (uint8_t *)malloc(b);
	memset(c.br, 0xA5, b); memset(c.bs, 0xA5, b);
	c.ssz = &ssz;
	rc = call_lib(&c);
	if (0 == hlen) {
		if (0 == rc)
			vh_fail("empty-hash-accepted", "hash_size = 0 must be refused (EINVAL)");
		else if (RC_CRASH != rc)
			vh_nontrivial();
		goto out;
	}
	if (0 != rc)
		goto out;
	if (ssz != b) {
		vh_fail("sign-size", "reported signature size %zu, field size %zu", ssz, b);
		goto out;
	}
	rv = tc_get(c.br, b, le); sv = tc_get(c.bs, b, le);
	reg = std_e(t, algo, le, hash, hlen, &e);
	if (C03_SKIP_ZERO && (0 == rv || 0 == sv))
		goto out;
	/* When n is longer than the field (secp160r1 layout) a component >= 2^(8*bytes) cannot be returned in `bytes`
	 * bytes; a success whose output the library's own verifiers then reject is that symptom: own regime name. */
	own = (t->nbits > 8 * b) ? "n-longer-than-field" : reg_name_of(reg, e);
	for (form = 0; form < nforms(t); form ++) {
		rc = call_verify(t, le, hash, hlen, rv, sv, b, t->kG[d], form);
		if (0 != rc) {
			snprintf(cl, sizeof(cl), "own-signature-rejected-by-verify[%s]", own);
			vh_fail(cl, "(r,s)=(%" PRIu64 ",%" PRIu64 ") key form %d rc=%d", rv, sv, form, rc);
			bad = 1;
			break;
		}
	}
	rc = call_verify_priv(t, le, hash, hlen, rv, sv, b, d);
	if (0 != rc) {
		snprintf(cl, sizeof(cl), "own-signature-rejected-by-verify_priv_key[%s]", own);
		vh_fail(cl, "(r,s)=(%" PRIu64 ",%" PRIu64 ") rc=%d", rv, sv, rc);
		bad = 1;
	}
	if (bad)
		goto out;
	if (REG_UNSPEC != reg && !tc_std_verify(t, algo, e, rv, sv, t->kG[d])) {
		snprintf(cl, sizeof(cl), "signature-rejected-by-standard-verifier[%s]", reg_name_of(reg, e));
		vh_fail(cl, "(r,s)=(%" PRIu64 ",%" PRIu64 ") is not a valid %s signature; the standard derives e=%" PRIu64 " from this hash",
		    rv, sv, algo_name[algo], e);
		bad = 1;
	}
	/* the same private key handed over in fewer bytes than the field has (d = 1 as one byte): when signing succeeds it is a
	 * signature by d, i.e. the one just verified; the key sits in a heap block of exactly that size */
	if (!bad && b > 1 && (uint64_t)d <= maxval(b - 1)) {
		size_t sl = 1, ssz2 = 777; call_t c2; int rc2;
		while ((uint64_t)d > maxval(sl)) sl ++;
		memset(&c2, 0, sizeof(c2));
		c2.op = OP_SIGN_B; c2.le = le; c2.curve = t->curve;
		c2.bh = (uint8_t *)vh_dup(hash, hlen); c2.hlen = hlen;
		c2.bd = (uint8_t *)malloc(sl); tc_put(c2.bd, sl, d, le); c2.dlen = sl;
		c2.bk = (uint8_t *)malloc(b); tc_put(c2.bk, b, k, le); c2.klen = b;
		c2.br = (uint8_t *)malloc(b); c2.bs = (uint8_t *)malloc(b);
		memset(c2.br, 0xA5, b); memset(c2.bs, 0xA5, b);
		c2.ssz = &ssz2;
		rc2 = call_lib(&c2);
		if (0 == rc2 && (ssz2 != b || tc_get(c2.br, b, le) != rv || tc_get(c2.bs, b, le) != sv)) {
			vh_fail("short-key-encoding-signs-differently", "priv_key_size=%zu: (r,s)=(%" PRIu64 ",%" PRIu64 "), with the key in %zu bytes (%" PRIu64 ",%" PRIu64 ")",
			    sl, tc_get(c2.br, b, le), tc_get(c2.bs, b, le), b, rv, sv);
			bad = 1;
		}
		free(c2.bh); free(c2.bd); free(c2.bk); free(c2.br); free(c2.bs);
	}
	if (!bad)
		vh_nontrivial();
out:
	free(c.bh); free(c.bd); free(c.bk); free(c.br); free(c.bs);
}

/* one (hash, r, s, key) tuple through ecdsa_verify_X and ecdsa_verify_priv_key_X; decision must equal the standard's */
static void
bytes_verify_one(tc_t *t, int algo, int le, const char *what, const uint8_t *hash, size_t hlen,
    uint64_t r, uint64_t s, size_t ssz, uint32_t qi, int form) {
	char hx[32], cl[112];
	uint64_t e = 0;
	int reg, std, rc, lib, which;

	reg = std_e(t, algo, le, hash, hlen, &e);
	for (which = 0; which < 2; which ++) {
		if (!vh_begin(which ? T_VRFPB[le][algo] : T_VRFB[le][algo]))
			continue;
		if (REG_UNSPEC == reg)
			continue;
		if (r > maxval(ssz) || s > maxval(ssz) || (which && qi > maxval(t->bytes)))
			continue; /* cannot be presented in that many bytes */
		if (C03_SKIP_ZERO && (0 == r || 0 == s || 0 == std_e_lib))
			continue;
		vh_hex(hx, sizeof(hx), hash, hlen);
		vh_desc("%s curve=%s n=%u bytes=%zu key=%u*G form=%d hash[%zu]=%s r=%" PRIu64 " s=%" PRIu64 " sign_size=%zu",
		    what, t->def->name, t->n, (size_t)t->bytes, qi, form, hlen, hx, r, s, ssz);
		t->curve->algo = (uint32_t)algo;
		std = tc_std_verify(t, algo, e, r, s, t->kG[qi]);
		rc = which ? call_verify_priv(t, le, hash, hlen, r, s, ssz, qi)
		    : call_verify(t, le, hash, hlen, r, s, ssz, t->kG[qi], form);
		if (RC_CRASH == rc)
			continue;
		lib = (0 == rc);
		if (lib == std) {
			if (std)
				vh_nontrivial();
			continue;
		}
		if (lib) {
			if (0 == r || 0 == s)
				snprintf(cl, sizeof(cl), "accepts-r-or-s-equal-0");
			else if (r >= t->n || s >= t->n)
				snprintf(cl, sizeof(cl), "accepts-r-or-s-above-n-1");
			else
				snprintf(cl, sizeof(cl), "accepts-invalid-signature[%s]", reg_name_of(reg, e));
			vh_fail(cl, "library rc=0, the standard (e=%" PRIu64 ") rejects", e);
		} else {
			if (is_n_overflow(t, rc))
				snprintf(cl, sizeof(cl), "rejects-valid-signature:EOVERFLOW[n-longer-than-field]");
			else
				snprintf(cl, sizeof(cl), "rejects-valid-signature[%s]", reg_name_of(reg, e));
			vh_fail(cl, "library rc=%d, the standard (e=%" PRIu64 ") accepts", rc, e);
		}
	}
}

static void
bytes_verify_family(tc_t *t, int algo, int le, uint32_t d, uint32_t k, const uint8_t *hash, size_t hlen) {
	size_t b = t->bytes, i;
	uint64_t e = 0, maxv = maxval(b);
	uint32_t r, s;
	uint8_t hm[8];
	int reg, form;

	reg = std_e(t, algo, le, hash, hlen, &e);
	if (REG_UNSPEC == reg || 0 == hlen)
		return;
	if (!tc_std_sign(t, algo, e, d, k, &r, &s))
		return;
	if (r > maxv || s > maxv)
		return; /* n longer than the field and this signature does not fit: cannot be presented */
	/* the valid tuple with every key form */
	for (form = 0; form < nforms(t); form ++)
		bytes_verify_one(t, algo, le, "valid", hash, hlen, r, s, b, d, form);
	/* shorter sign_size when both components fit */
	if (b > 1)
		bytes_verify_one(t, algo, le, "valid-short-sign_size", hash, hlen, r, s, b - 1, d, 0);
	/* altered hash: every single bit */
	for (i = 0; i < 8 * hlen; i ++) {
		memcpy(hm, hash, hlen);
		hm[i / 8] ^= (uint8_t)(1u << (i % 8));
		bytes_verify_one(t, algo, le, "hash-bit-flipped", hm, hlen, r, s, b, d, 0);
	}
	/* altered r, s: every single bit, and the boundary values */
	for (i = 0; i < 8 * b; i ++) {
		bytes_verify_one(t, algo, le, "r-bit-flipped", hash, hlen, r ^ (1ull << i), s, b, d, 0);
		bytes_verify_one(t, algo, le, "s-bit-flipped", hash, hlen, r, s ^ (1ull << i), b, d, 0);
	}
	{
		uint64_t bv[] = { 0, 1, t->n - 1, t->n, (uint64_t)t->n + 1, maxv, (uint64_t)r + t->n, (uint64_t)s + t->n };
		for (i = 0; i < sizeof(bv) / sizeof(bv[0]); i ++) {
			bytes_verify_one(t, algo, le, "r-boundary", hash, hlen, bv[i], s, b, d, 0);
			bytes_verify_one(t, algo, le, "s-boundary", hash, hlen, r, bv[i], b, d, 0);
		}
		bytes_verify_one(t, algo, le, "r-s-swapped", hash, hlen, s, r, b, d, 0);
		bytes_verify_one(t, algo, le, "s-negated", hash, hlen, r, t->n - s, b, d, 0);
	}
	/* wrong key */
	bytes_verify_one(t, algo, le, "wrong-key", hash, hlen, r, s, b, (d % (t->n - 1)) + 1, 0);
	bytes_verify_one(t, algo, le, "wrong-key", hash, hlen, r, s, b, t->n - d, 1);
}

/* hash byte strings: the full byte alphabet at length 1, an alphabet of structural bytes beyond, and
 * everything numerically around n at the field length */
static void
bytes_all(const char *cname, int light) {
	tc_t *t = curve_get(cname);
	uint32_t n = t->n, i, j, a, c;
	size_t b, L, lens[4], nl = 0;
	int algo, le;
	uint32_t D[8], K[8], nd = 0, nk = 0;
	uint8_t A[10], h[8];
	uint64_t tot, v, maxv;
	size_t na = 0, na_l;

	if (NULL == t->curve)
		return;
	b = t->bytes;
	maxv = maxval(b);
	{
		uint32_t top = (uint32_t)MIN((uint64_t)n - 1, maxv); /* largest private key that fits the field size */
		uint32_t dv[] = { 1, 2, n / 2, top - 1, top };
		uint32_t kv[] = { 1, 2, n / 3, top, (uint32_t)MIN((uint64_t)n, maxv), (uint32_t)maxv };
		for (i = 0; i < (light ? 2u : 5u); i ++) D[nd ++] = dv[light ? (i * 3 + 1) : i];
		for (i = 0; i < (light ? 3u : 6u); i ++) K[nk ++] = kv[light ? (i * 2 + 1) : i];
	}
	{
		uint8_t av[] = { 0x00, 0xff, (uint8_t)n, 0x80, (uint8_t)(n >> 8), 0x01, 0x7f, (uint8_t)(n + 1) };
		for (i = 0; i < sizeof(av); i ++) {
			for (j = 0; j < na; j ++)
				if (A[j] == av[i])
					break;
			if (j == na)
				A[na ++] = av[i];
		}
	}
	lens[nl ++] = b - 1; lens[nl ++] = b; lens[nl ++] = b + 1;
	if (2 * b != b + 1)
		lens[nl ++] = 2 * b;
	for (algo = 0; algo < 2; algo ++) {
		for (le = 0; le < 2; le ++) {
			for (i = 0; i < nd; i ++) {
				for (j = 0; j < nk; j ++) {
					uint32_t kk = (K[j] % (n - 1)) + 1; /* nonce of the reference signer */
					for (c = 0; c < nl; c ++) {
						L = lens[c];
						if (0 == L) {
							bytes_sign_one(t, algo, le, D[i], K[j], h, 0);
							continue;
						}
						if (1 == L) {
							for (a = 0; a < 256; a ++) {
								h[0] = (uint8_t)a;
								bytes_sign_one(t, algo, le, D[i], K[j], h, 1);
								if (!light || 0 == ((a + j) % 4) || a < 4 || a + 4 > 255 || (a + 3 >= (n & 255) && a <= (n & 255) + 3))
									bytes_verify_family(t, algo, le, D[i], kk, h, 1);
							}
							continue;
						}
						/* all strings of length L over the first na_l symbols of A (8, 5, 4 symbols for L = 2, 3, 4) */
						na_l = (L == 2) ? na : ((L == 3) ? MIN(na, 5) : MIN(na, 4));
						for (tot = 1, a = 0; a < L; a ++)
							tot *= na_l;
						for (v = 0; v < tot; v ++) {
							uint64_t q = v;
							for (a = 0; a < L; a ++) { h[a] = A[q % na_l]; q /= na_l; }
							bytes_sign_one(t, algo, le, D[i], K[j], h, L);
							if (0 == (j % 2) && (!light || 0 == (v % 3)))
								bytes_verify_family(t, algo, le, D[i], kk, h, L);
						}
						/* at the field length: every value in [0,3], [n-3, n+3] and the top three */
						if (L == b && b > 1) {
							uint64_t nv[] = { 0, 1, 2, 3, n - 3, n - 2, n - 1, n, (uint64_t)n + 1, (uint64_t)n + 2, (uint64_t)n + 3,
							    2ull * n - 1, 2ull * n, 2ull * n + 1, maxv - 2, maxv - 1, maxv };
							for (a = 0; a < sizeof(nv) / sizeof(nv[0]); a ++) {
								if (nv[a] > maxv)
									continue;
								tc_put(h, b, nv[a], le);
								bytes_sign_one(t, algo, le, D[i], K[j], h, b);
								bytes_verify_family(t, algo, le, D[i], kk, h, b);
							}
						}
					}
				}
			}
		}
	}
}

int
main(int argc, char **argv) {
	vh_init(argc, argv);
	if (C03_PARTS & 2) {
		/* part B: full truth tables (group orders 11, 11, 17; thorough: 31, and 43 in the heavy configuration) */
		truth_all("t13");
		truth_all("t17");
		truth_all("t11");
		if (vh_thorough && C03_TRUTH31)
			truth_all("t23m3");
		if (vh_thorough && C03_HEAVY)
			truth_all("t31a0");
	}
	if (C03_PARTS & 1) {
		/* part A: signing, all (d, e, k) */
		sign_all("t13", 0);
		sign_all("t17", 0);
		sign_all("t11", 0);
		sign_all("t23m3", 0);
		if (vh_thorough || C03_HEAVY)
			sign_all("t31a0", 0);
		if (vh_thorough) {
			sign_all("t61", 0);
			sign_all("t43", 0);
			if (C03_HEAVY)
				sign_all("s127", 0);
		}
		sign_all("s199", 1);
		sign_all("s251", 1);
		sign_all("w263m3", 1);
		if (vh_thorough || C03_HEAVY) {
			sign_all("s229a0", 1);
			sign_all("s113m3", 1);
			sign_all("w401", 1);
		}
		if (vh_thorough) {
			sign_all("s127", 1);
			sign_all("w1021", 1);
		}
	}
	if (C03_PARTS & 2) {
		/* reference-signed signatures offered to the library on the larger groups */
		if (vh_thorough) {
			refsig_all("t31a0", 0);
			refsig_all("t61", 0);
			if (C03_HEAVY)
				refsig_all("s127", 0);
		} else {
			refsig_all("t31a0", 1);
		}
		refsig_all("s199", 1);
		refsig_all("s251", 1);
		refsig_all("w401", 1);
		if (vh_thorough || C03_HEAVY) {
			refsig_all("s113m3", 1);
			refsig_all("s229a0", 1);
		}
		if (vh_thorough) {
			refsig_all("w263m3", 1);
			refsig_all("w1021", 1);
		}
	}
	if (C03_PARTS & 4) {
		/* part C: byte entry points */
		bytes_all("s199", !vh_thorough);
		bytes_all("s127", 1);		/* n has 7 bits in a one byte field */
		bytes_all("s251", 1);		/* n has 9 bits in a one byte field: r, s may not fit */
		bytes_all("w263m3", !vh_thorough);
		bytes_all("w65519", 1);		/* n has 17 bits in a two byte field */
		if (vh_thorough) {
			bytes_all("s113m3", 1);
			bytes_all("w401", 1);
		}
	}
#ifndef GC_DISABLE
	if (0 == vh_shard && NULL == vh_only_target)
		printf("NOTE\tguarded calls in shard 0: %llu, contained crashes/hangs: %llu\n",
		    (unsigned long long)gc_calls, (unsigned long long)gc_crashes);
#endif
	return (vh_finish());
}
