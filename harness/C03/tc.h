/*
 * tc.h - tiny synthetic elliptic curves shared by harness/C03 and harness/C09.
 *
 * For every curve of tiny_curves_table.h (generated at authoring time by gen_curves.py)
 * tc_build() re-derives the whole group by brute force with native integers:
 *   - p and n prime (trial division), curve non singular, G on the curve;
 *   - the affine point set straight from the curve equation;
 *   - kG[k] for k = 0..n by repeated addition with the textbook affine law, G of exact order n;
 *   - #E = n * h;
 *   - the double-and-add reference multiplication agrees with the repeated-addition table.
 * A wrong table entry stops the harness (exit 3 = harness error), it never becomes a verdict.
 * Then the library's ec_curve_t is produced by the library's own constructor
 * ecdsa_curve_from_str() from hex strings, exactly as for the 32 built-in curves.
 *
 * Nothing in the reference part uses liblcb code.
 */
#ifndef TC_H
#define TC_H

#include <errno.h>
#include <inttypes.h>
#include <stdio.h>
#include <stdlib.h>
#include <string.h>
#include <stdint.h>
#include <sys/param.h>
#include "crypto/dsa/ecdsa.h"

typedef struct tc_def_s {
	const char *name;
	uint32_t m, flags, p, a, b, gx, gy, n, h;
} tc_def_t;

static const tc_def_t tc_defs[] = {
#include "tiny_curves_table.h"
};
#define TC_NDEFS (sizeof(tc_defs) / sizeof(tc_defs[0]))

typedef struct tc_pt_s {
	uint32_t x, y;
	int	inf;
} tc_pt_t;

typedef struct tc_s {
	const tc_def_t *def;
	uint32_t p, a, b, n, h;
	uint32_t bytes;		/* EC_CURVE_CALC_BYTES of the library curve */
	uint32_t nbits;		/* ceil(log2 n) = bit length of n (n is an odd prime) */
	tc_pt_t	G;
	uint32_t npts;		/* affine points on the curve (without O) */
	tc_pt_t	*pts;		/* sorted by (x, y) */
	uint8_t	*in_sub;	/* pts[i] lies in <G> */
	tc_pt_t	*kG;		/* kG[k] = k*G, k = 0..n; kG[0] = kG[n] = O */
	int32_t	*root;		/* root[v] = smallest y with y*y = v (mod p), or -1 */
	ec_curve_t *curve;	/* the library's object (heap) */
	char	hx[6][16];
	ec_curve_str_t cs;
} tc_t;

static void
tc_die(const char *what, const char *name) {
	fprintf(stderr, "tc: %s (%s)\n", what, name ? name : "");
	printf("NOTE\ttc-fatal: %s (%s)\n", what, name ? name : "");
	fflush(stdout);
	exit(3);
}

/* ------------------------------------------------------------------ native reference arithmetic */
static inline uint32_t
tc_mulm(uint32_t a, uint32_t b, uint32_t m) {
	return ((uint32_t)(((uint64_t)a * (uint64_t)b) % m));
}
static inline uint32_t
tc_addm(uint32_t a, uint32_t b, uint32_t m) {
	return ((uint32_t)(((uint64_t)a + (uint64_t)b) % m));
}
static inline uint32_t
tc_subm(uint32_t a, uint32_t b, uint32_t m) { /* a, b < m */
	return ((a >= b) ? (a - b) : (m - (b - a)));
}
/* x^-1 mod m by searching is too slow for p near 2^16: extended Euclid, signed 64 bit. */
static inline uint32_t
tc_invm(uint32_t x, uint32_t m) {
	int64_t r0 = m, r1 = x % m, s0 = 0, s1 = 1, q, t;
	while (r1 != 0) {
		q = r0 / r1;
		t = r0 - q * r1; r0 = r1; r1 = t;
		t = s0 - q * s1; s0 = s1; s1 = t;
	}
	/* r0 == gcd; callers only invert non-zero residues of a prime modulus. */
	if (s0 < 0)
		s0 += m;
	return ((uint32_t)s0);
}
static inline int
tc_is_prime(uint32_t v) {
	uint32_t i;
	if (v < 2)
		return (0);
	for (i = 2; (uint64_t)i * i <= v; i ++) {
		if (0 == v % i)
			return (0);
	}
	return (1);
}
static inline uint32_t
tc_bitlen(uint64_t v) {
	uint32_t n = 0;
	while (v) { n ++; v >>= 1; }
	return (n);
}

static inline uint32_t
tc_rhs(const tc_t *t, uint32_t x) { /* x^3 + a x + b mod p, x < p */
	uint32_t v = tc_mulm(tc_mulm(x, x, t->p), x, t->p);
	v = tc_addm(v, tc_mulm(t->a, x, t->p), t->p);
	return (tc_addm(v, t->b, t->p));
}
static inline int
tc_on_curve(const tc_t *t, uint64_t x, uint64_t y) { /* affine coordinates as decoded: may be >= p */
	if (x >= t->p || y >= t->p)
		return (0);
	return (tc_mulm((uint32_t)y, (uint32_t)y, t->p) == tc_rhs(t, (uint32_t)x));
}
static inline int
tc_eq(tc_pt_t a, tc_pt_t b) {
	if (a.inf || b.inf)
		return (a.inf && b.inf);
	return (a.x == b.x && a.y == b.y);
}
static inline tc_pt_t
tc_inf(void) {
	tc_pt_t r = { 0, 0, 1 };
	return (r);
}
static inline tc_pt_t
tc_neg(const tc_t *t, tc_pt_t a) {
	if (!a.inf)
		a.y = (t->p - a.y) % t->p;
	return (a);
}
/* textbook affine group law */
static inline tc_pt_t
tc_add(const tc_t *t, tc_pt_t P, tc_pt_t Q) {
	uint32_t l, x, y, p = t->p;
	tc_pt_t r;
	if (P.inf)
		return (Q);
	if (Q.inf)
		return (P);
	if (P.x == Q.x) {
		if ((P.y + Q.y) % p == 0)
			return (tc_inf());
		l = tc_mulm(tc_addm(tc_mulm(3, tc_mulm(P.x, P.x, p), p), t->a, p),
		    tc_invm(tc_mulm(2, P.y, p), p), p);
	} else {
		l = tc_mulm(tc_subm(Q.y, P.y, p), tc_invm(tc_subm(Q.x, P.x, p), p), p);
	}
	x = tc_subm(tc_subm(tc_mulm(l, l, p), P.x, p), Q.x, p);
	y = tc_subm(tc_mulm(l, tc_subm(P.x, x, p), p), P.y, p);
	r.x = x; r.y = y; r.inf = 0;
	return (r);
}
static inline tc_pt_t
tc_mul(const tc_t *t, uint64_t k, tc_pt_t P) { /* double and add; validated against repeated addition in tc_build */
	tc_pt_t R = tc_inf();
	while (k) {
		if (k & 1)
			R = tc_add(t, R, P);
		P = tc_add(t, P, P);
		k >>= 1;
	}
	return (R);
}
static inline tc_pt_t
tc_mul_naive(const tc_t *t, uint64_t k, tc_pt_t P) { /* k additions */
	tc_pt_t R = tc_inf();
	while (k --)
		R = tc_add(t, R, P);
	return (R);
}
/* index of an affine point in pts[] or -1 */
static inline int64_t
tc_index(const tc_t *t, uint64_t x, uint64_t y) {
	int64_t lo = 0, hi = (int64_t)t->npts - 1, mid;
	while (lo <= hi) {
		mid = (lo + hi) / 2;
		if (t->pts[mid].x == x && t->pts[mid].y == y)
			return (mid);
		if (t->pts[mid].x < x || (t->pts[mid].x == x && t->pts[mid].y < y))
			lo = mid + 1;
		else
			hi = mid - 1;
	}
	return (-1);
}
/* Is (x, y) a valid public key: on the curve and annihilated by n (i.e. in <G>; != O by construction). */
static inline int
tc_valid_pub(const tc_t *t, uint64_t x, uint64_t y) {
	int64_t i;
	if (!tc_on_curve(t, x, y))
		return (0);
	i = tc_index(t, x, y);
	return (i >= 0 && t->in_sub[i]);
}

/* ------------------------------------------------------------------ bn <-> native */
static inline void
tc_bn_set(bn_p bn, size_t bits, uint64_t v) {
	uint8_t le[8];
	size_t len = 1, i;
	for (i = 0; i < 8; i ++) {
		le[i] = (uint8_t)(v >> (8 * i));
		if (le[i])
			len = i + 1;
	}
	if (0 != bn_init(bn, bits) || 0 != bn_import_le_bin(bn, le, len))
		tc_die("tc_bn_set failed", NULL);
}
#define TC_BN_BIG	UINT64_MAX
static inline uint64_t
tc_bn_get(bn_p bn) {
	uint64_t v = 0;
	size_t i;
	for (i = 0; i < bn->digits; i ++) {
		if (i * BN_DIGIT_BITS >= 64) {
			if (bn->num[i])
				return (TC_BN_BIG);
			continue;
		}
		v |= ((uint64_t)bn->num[i]) << (i * BN_DIGIT_BITS);
	}
	return (v);
}
static inline void
tc_pt_to_lib(const tc_t *t, tc_pt_t P, ec_point_p lp) {
	size_t bits = EC_CURVE_CALC_BITS_DBL(t->curve);
	tc_bn_set(&lp->x, bits, P.inf ? 0 : P.x);
	tc_bn_set(&lp->y, bits, P.inf ? 0 : P.y);
	lp->infinity = P.inf ? 1 : 0;
}
/* returns 0 when a coordinate does not fit 32 bits */
static inline int
tc_pt_from_lib(ec_point_p lp, tc_pt_t *P) {
	uint64_t x, y;
	if (0 != lp->infinity) {
		*P = tc_inf();
		return (1);
	}
	x = tc_bn_get(&lp->x);
	y = tc_bn_get(&lp->y);
	if (x > UINT32_MAX || y > UINT32_MAX)
		return (0);
	P->x = (uint32_t)x; P->y = (uint32_t)y; P->inf = 0;
	return (1);
}

/* big/little endian fixed width byte strings <-> native */
static inline void
tc_put(uint8_t *dst, size_t len, uint64_t v, int le) {
	size_t i;
	for (i = 0; i < len; i ++) {
		uint8_t b = (i < 8) ? (uint8_t)(v >> (8 * i)) : 0;
		if (le)
			dst[i] = b;
		else
			dst[len - 1 - i] = b;
	}
}
static inline uint64_t
tc_get(const uint8_t *src, size_t len, int le) { /* len <= 8 */
	uint64_t v = 0;
	size_t i;
	for (i = 0; i < len; i ++)
		v |= ((uint64_t)(le ? src[i] : src[len - 1 - i])) << (8 * i);
	return (v);
}

/* ------------------------------------------------------------------ construction + brute force re-verification */
static int
tc_pt_cmp(const void *a, const void *b) {
	const tc_pt_t *p = (const tc_pt_t *)a, *q = (const tc_pt_t *)b;
	if (p->x != q->x)
		return ((p->x < q->x) ? -1 : 1);
	if (p->y != q->y)
		return ((p->y < q->y) ? -1 : 1);
	return (0);
}

static tc_t *
tc_build(const tc_def_t *d) {
	tc_t *t = (tc_t *)calloc(1, sizeof(tc_t));
	uint32_t x, y, v, k, cnt = 0;
	int64_t idx;
	int rc;

	t->def = d; t->p = d->p; t->a = d->a; t->b = d->b; t->n = d->n; t->h = d->h;
	t->G.x = d->gx; t->G.y = d->gy; t->G.inf = 0;
	t->nbits = tc_bitlen(d->n);
	if (!tc_is_prime(d->p) || d->p < 5 || d->p >= 65536)
		tc_die("p is not a prime in [5, 2^16)", d->name);
	if (!tc_is_prime(d->n))
		tc_die("n is not prime", d->name);
	if (d->n == d->p)
		tc_die("anomalous curve", d->name);
	if (d->a >= d->p || d->b >= d->p || d->gx >= d->p || d->gy >= d->p)
		tc_die("parameter not reduced", d->name);
	if (d->m != 8 * ((tc_bitlen(d->p) + 7) / 8))
		tc_die("declared m is not the byte-rounded bit length of p", d->name);
	v = tc_addm(tc_mulm(4, tc_mulm(tc_mulm(d->a, d->a, d->p), d->a, d->p), d->p),
	    tc_mulm(27, tc_mulm(d->b, d->b, d->p), d->p), d->p);
	if (0 == v)
		tc_die("singular curve", d->name);
	if (((d->flags & EC_CURVE_FLAG_A_M3) != 0) != (d->a == d->p - 3))
		tc_die("A_M3 flag does not match a", d->name);
	/* square roots */
	t->root = (int32_t *)malloc(sizeof(int32_t) * d->p);
	for (v = 0; v < d->p; v ++)
		t->root[v] = -1;
	for (y = 0; y < d->p; y ++) {
		v = tc_mulm(y, y, d->p);
		if (t->root[v] < 0)
			t->root[v] = (int32_t)y;
	}
	/* all points, from the equation */
	t->pts = (tc_pt_t *)malloc(sizeof(tc_pt_t) * (2 * (size_t)d->p + 2));
	for (x = 0; x < d->p; x ++) {
		v = tc_rhs(t, x);
		if (t->root[v] < 0)
			continue;
		y = (uint32_t)t->root[v];
		t->pts[cnt].x = x; t->pts[cnt].y = y; t->pts[cnt].inf = 0; cnt ++;
		if (y != 0) { /* p odd: the second root differs */
			t->pts[cnt].x = x; t->pts[cnt].y = d->p - y; t->pts[cnt].inf = 0; cnt ++;
		}
	}
	qsort(t->pts, cnt, sizeof(tc_pt_t), tc_pt_cmp);
	t->npts = cnt;
	for (k = 0; k < cnt; k ++) {
		if (!tc_on_curve(t, t->pts[k].x, t->pts[k].y))
			tc_die("internal: enumerated point off curve", d->name);
	}
	if (d->p < 600) { /* for the small fields also the plain double loop, as a check of the root table */
		uint32_t c2 = 0;
		for (x = 0; x < d->p; x ++)
			for (y = 0; y < d->p; y ++)
				if (tc_on_curve(t, x, y))
					c2 ++;
		if (c2 != cnt)
			tc_die("internal: point count mismatch", d->name);
	}
	if ((uint64_t)cnt + 1 != (uint64_t)d->n * d->h)
		tc_die("#E != n * h", d->name);
	if (!tc_on_curve(t, d->gx, d->gy))
		tc_die("G is not on the curve", d->name);
	/* kG by repeated addition; exact order */
	t->kG = (tc_pt_t *)malloc(sizeof(tc_pt_t) * ((size_t)d->n + 1));
	t->in_sub = (uint8_t *)calloc(cnt ? cnt : 1, 1);
	t->kG[0] = tc_inf();
	for (k = 1; k <= d->n; k ++) {
		t->kG[k] = tc_add(t, t->kG[k - 1], t->G);
		if (k < d->n) {
			if (t->kG[k].inf)
				tc_die("order of G is smaller than n", d->name);
			idx = tc_index(t, t->kG[k].x, t->kG[k].y);
			if (idx < 0)
				tc_die("internal: multiple of G not in the point list", d->name);
			if (t->in_sub[idx])
				tc_die("internal: multiple of G repeats", d->name);
			t->in_sub[idx] = 1;
		}
	}
	if (!t->kG[d->n].inf)
		tc_die("n*G != O", d->name);
	/* double-and-add reference == repeated addition (all k for small groups, a stride for the two large ones) */
	for (k = 0; k <= d->n; k += (d->n < 2000 ? 1 : 97)) {
		if (!tc_eq(tc_mul(t, k, t->G), t->kG[k]))
			tc_die("internal: tc_mul disagrees with repeated addition", d->name);
	}
	if (d->n < 2000) {
		for (k = 0; k < 8 && k < cnt; k ++) {
			tc_pt_t P = t->pts[(k * 7919u) % cnt];
			if (!tc_eq(tc_mul(t, d->n + 3, P), tc_mul_naive(t, d->n + 3, P)))
				tc_die("internal: tc_mul disagrees with tc_mul_naive", d->name);
		}
	}

	/* the library's curve, through the library's constructor */
	memset(&t->cs, 0, sizeof(t->cs));
	t->bytes = (d->m + 7) / 8;
	t->cs.name = d->name;
	t->cs.name_size = strlen(d->name);
	t->cs.OID = "";
	t->cs.num_size = 2 * t->bytes;
	t->cs.t = d->m / 2;
	t->cs.m = d->m;
	snprintf(t->hx[0], 16, "%0*x", (int)t->cs.num_size, d->p);  t->cs.p = t->hx[0];
	snprintf(t->hx[1], 16, "%0*x", (int)t->cs.num_size, d->a);  t->cs.a = t->hx[1];
	snprintf(t->hx[2], 16, "%0*x", (int)t->cs.num_size, d->b);  t->cs.b = t->hx[2];
	snprintf(t->hx[3], 16, "%0*x", (int)t->cs.num_size, d->gx); t->cs.Gx = t->hx[3];
	snprintf(t->hx[4], 16, "%0*x", (int)t->cs.num_size, d->gy); t->cs.Gy = t->hx[4];
	/* like secp160r1: n may need one byte more than the field */
	if (tc_bitlen(d->n) > 8 * t->bytes)
		snprintf(t->hx[5], 16, "%0*x", (int)t->cs.num_size + 2, d->n);
	else
		snprintf(t->hx[5], 16, "%0*x", (int)t->cs.num_size, d->n);
	t->cs.n = t->hx[5];
	t->cs.h = d->h;
	t->cs.algo = EC_CURVE_ALGO_ECDSA;
	t->cs.flags = d->flags;
	t->curve = (ec_curve_t *)malloc(sizeof(ec_curve_t));
	rc = ecdsa_curve_from_str(&t->cs, t->curve);
	if (0 != rc) {
		/* A build configuration that cannot even set a valid curve up is reported by the caller. */
		free(t->curve);
		t->curve = NULL;
	}
	return (t);
}

static const tc_def_t *
tc_find(const char *name) {
	size_t i;
	for (i = 0; i < TC_NDEFS; i ++) {
		if (0 == strcmp(tc_defs[i].name, name))
			return (&tc_defs[i]);
	}
	tc_die("unknown curve", name);
	return (NULL);
}

/* ------------------------------------------------------------------ the standards, native integers
 * SEC 1 v2.0 4.1.3 / 4.1.4 (ECDSA), GOST R 34.10-2012 6.1 / 6.2.  e is the integer already derived
 * from the hash (SEC 1 4.1.3 step 5; GOST: alpha); reduction mod n happens here. */
#define TC_ALGO_ECDSA	EC_CURVE_ALGO_ECDSA
#define TC_ALGO_GOST	EC_CURVE_ALGO_GOST20XX

static inline int
tc_std_verify(const tc_t *t, int algo, uint64_t e, uint64_t r, uint64_t s, tc_pt_t Q) {
	uint32_t n = t->n, em, w, u1, u2;
	tc_pt_t R;

	if (Q.inf || !tc_valid_pub(t, Q.x, Q.y))
		return (0); /* not a valid public key */
	if (r < 1 || r >= n || s < 1 || s >= n)
		return (0);
	em = (uint32_t)(e % n);
	if (TC_ALGO_ECDSA == algo) {
		w = tc_invm((uint32_t)s, n);
		u1 = tc_mulm(em, w, n);
		u2 = tc_mulm((uint32_t)r, w, n);
	} else {
		if (0 == em)
			em = 1;
		w = tc_invm(em, n);
		u1 = tc_mulm((uint32_t)s, w, n);
		u2 = (n - tc_mulm((uint32_t)r, w, n)) % n;
	}
	R = tc_add(t, t->kG[u1], tc_mul(t, u2, Q));
	if (R.inf)
		return (0);
	return ((R.x % n) == r);
}
/* returns 1 and (r, s) or 0 when this k must be discarded (r == 0 or s == 0) / is out of range */
static inline int
tc_std_sign(const tc_t *t, int algo, uint64_t e, uint32_t d, uint32_t k, uint32_t *r, uint32_t *s) {
	uint32_t n = t->n, em, rr, ss;

	if (d < 1 || d >= n || k < 1 || k >= n)
		return (0);
	rr = t->kG[k].x % n;
	if (0 == rr)
		return (0);
	em = (uint32_t)(e % n);
	if (TC_ALGO_ECDSA == algo) {
		ss = tc_mulm(tc_invm(k, n), tc_addm(em, tc_mulm(rr, d, n), n), n);
	} else {
		if (0 == em)
			em = 1;
		ss = tc_addm(tc_mulm(rr, d, n), tc_mulm(k, em, n), n);
	}
	if (0 == ss)
		return (0);
	*r = rr; *s = ss;
	return (1);
}

#endif /* TC_H */
