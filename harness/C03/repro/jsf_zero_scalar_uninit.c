/* C03 finding: with the default twin multiplication (EC_PF_TWIN_MULT_ALGO_JOINT) ecdsa_verify reads
 * uninitialised stack memory whenever one of the two scalars u1, u2 is zero, i.e. for
 *     r = 0            (u2 = r/s = 0; r = 0 is not rejected up front - attacker chosen), or
 *     hash integer 0   (ECDSA: u1 = e/s = 0),  or  GOST with s = 0 (u1 = s/e = 0).
 * bn_calc_jsf() (big_num.h) does  bn_assign_init(&tmA, a)  which copies a->digits == 0 digits and then reads
 * tmA.num[0] in every round:   l0 = (((int8_t)tmA.num[0] + d0) & 0x7);
 * With a stale odd byte there, d0 never returns to 0, the loop never ends and jsf_arr[] - a stack array of the
 * caller - is overrun until the process dies; with other stale values the verifier computes u1*G + u2*Q for a
 * garbage u and returns a wrong decision.
 *
 * The reproducer dirties the stack the way any earlier call would (0xA5 bytes), then verifies a signature with
 * r = 0 on secp256r1 through the public byte API.
 *
 *   gcc -O1 -w -I/repo/include jsf_zero_scalar_uninit.c -o jsf_zero && ./jsf_zero          (SIGSEGV / exit 139)
 *   gcc -O1 -g -w -fsanitize=address -I/repo/include jsf_zero_scalar_uninit.c -o jsf_zero_asan && \
 *       ASAN_OPTIONS=detect_stack_use_after_return=0 ./jsf_zero_asan                      (stack-buffer-overflow in bn_calc_jsf)
 * A fixed tree prints "rc=<non zero>: rejected" and exits 0.
 */
#include <stdio.h>
#include <string.h>
#include <stdint.h>
#include <stdlib.h>
#include <errno.h>
#include "crypto/dsa/ecdsa.h"

static ec_curve_t curve;

__attribute__((noinline)) static void
dirty_stack(void) {
	volatile uint8_t junk[256 * 1024];
	size_t i;
	for (i = 0; i < sizeof(junk); i ++)
		junk[i] = 0xA5;
}

__attribute__((noinline)) static int
verify_r0(uint8_t *pubx, size_t pub_size) {
	uint8_t hash[32], r[32], s[32];
	memset(hash, 0x42, 32);
	memset(r, 0x00, 32);		/* r = 0 */
	memset(s, 0x17, 32);
	return (ecdsa_verify_be(&curve, hash, 32, r, s, 32, pubx, NULL, pub_size));
}

int
main(void) {
	const char *name = "secp256r1";
	uint8_t rnd[32], priv[32], pubx[33], puby[32];
	size_t priv_size = 0, pub_size = 0, i;
	int rc;

	if (0 != ecdsa_curve_from_str(ecdsa_curve_str_get_by_name(name, strlen(name)), &curve))
		return (2);
	for (i = 0; i < 32; i ++)
		rnd[i] = (uint8_t)(0x11 * (i + 1));
	if (0 != ecdsa_key_gen_be(&curve, rnd, 32, 1, priv, &priv_size, pubx, puby, &pub_size))
		return (2);
	dirty_stack();
	rc = verify_r0(pubx, pub_size);
	printf("rc=%d: %s\n", rc, (0 == rc) ? "ACCEPTED a signature with r = 0" : "rejected");
	return ((0 == rc) ? 1 : 0);
}
