/* C03 finding (#13): a hash that is numerically >= n is mapped to (e mod (n-1)) + 1 instead of e mod n.
 *
 * SEC 1 4.1.3 / 4.1.4 (and GOST R 34.10-2012 6.1 step 2: e = alpha mod q) do all arithmetic with the hash integer
 * modulo n.  ecdsa_sign / ecdsa_verify / ecdsa_verify_priv_key call bn_mod_reduce() on the hash; that helper is
 * the *key derivation* map c -> (c mod (n-1)) + 1 (FIPS 186 B.4.1), not a reduction modulo n.  Consequences:
 *   - a signature the library makes for such a hash is rejected by every other implementation, and vice versa;
 *   - two hashes that are congruent mod n (the standard cannot tell them apart) verify differently.
 * brainpoolP256r1 has n = a9fb57db...: about one third of all SHA-256 values are >= n.  For the GOST parameter sets
 * with q = 8000...0150fe... (Test, CryptoPro-B, tc26-512-B) it is every second hash.
 *
 * The program signs H = ff..ff (>= n) and then verifies the SAME (r, s) against H - n, which is the same integer
 * mod n.  A conforming verifier must accept.  It also prints everything needed to ask OpenSSL:
 *
 *   gcc -O1 -w -I/repo/include hash_ge_n_brainpoolP256r1.c -o hash_ge_n && ./hash_ge_n
 *   (exit 1 + "NOT CONFORMING" on the defective tree, exit 0 on a fixed one)
 *
 * OpenSSL cross-check done while writing this file (openssl 3.0, `pkeyutl -verify` takes the raw digest):
 *   the (r,s) printed for H = ff..ff  -> "Signature Verification Failure";
 *   the (r,s) the library makes for H - n (same integer mod n, < n) -> "Signature Verified Successfully"
 *   for BOTH digests ff..ff and H - n.
 */
#include <stdio.h>
#include <string.h>
#include <stdint.h>
#include <stdlib.h>
#include <errno.h>
#include "crypto/dsa/ecdsa.h"

static void
hex(const char *l, const uint8_t *b, size_t n) {
	size_t i;
	printf("%s=", l);
	for (i = 0; i < n; i ++)
		printf("%02x", b[i]);
	printf("\n");
}
static void
unhex(const char *s, uint8_t *b, size_t n) {
	size_t i;
	unsigned v;
	for (i = 0; i < n; i ++) {
		sscanf(s + 2 * i, "%2x", &v);
		b[i] = (uint8_t)v;
	}
}

int
main(void) {
	static ec_curve_t curve;
	const char *name = "brainpoolP256r1";
	uint8_t rnd[32], priv[32], pub[65], puby[32], k[32], H[32], H2[32], r[32], s[32], r2[32], s2[32];
	size_t priv_size = 0, pub_size = 0, ss = 0, i;
	int rc, rc1, rc2, rc3;

	if (0 != ecdsa_curve_from_str(ecdsa_curve_str_get_by_name(name, strlen(name)), &curve))
		return (2);
	for (i = 0; i < 32; i ++) {
		rnd[i] = (uint8_t)(0x07 * (i + 1));
		k[i] = (uint8_t)(0x05 * (i + 3));
	}
	if (0 != ecdsa_key_gen_be(&curve, rnd, 32, 0, priv, &priv_size, pub, puby, &pub_size))
		return (2);
	/* packed form 04|x|y for OpenSSL */
	if (0 != ecdsa_recover_pub_key_from_priv_key_be(&curve, priv, priv_size, 0, pub, NULL, &pub_size))
		return (2);
	memset(H, 0xff, 32);	/* >= n */
	unhex("5604a8245e115643c199f56f627c728e73c6855c4a9e59086fe1f17d68b7a958", H2, 32);	/* H - n = H mod n */
	rc = ecdsa_sign_be(&curve, H, 32, priv, priv_size, k, 32, r, s, &ss);
	if (0 != rc)
		return (2);
	hex("pub", pub, pub_size); hex("H ", H, 32); hex("r ", r, 32); hex("s ", s, 32);
	rc1 = ecdsa_verify_be(&curve, H, 32, r, s, 32, pub, NULL, pub_size);
	rc2 = ecdsa_verify_be(&curve, H2, 32, r, s, 32, pub, NULL, pub_size);
	printf("verify(H = ff..ff, r, s) = %d\n", rc1);
	printf("verify(H - n,      r, s) = %d   (same integer modulo n: must equal the line above)\n", rc2);
	rc = ecdsa_sign_be(&curve, H2, 32, priv, priv_size, k, 32, r2, s2, &ss);
	hex("H2", H2, 32); hex("r2", r2, 32); hex("s2", s2, 32);
	rc3 = ecdsa_verify_be(&curve, H, 32, r2, s2, 32, pub, NULL, pub_size);
	printf("sign(H - n) -> (r2, s2); verify(H = ff..ff, r2, s2) = %d   (must be 0 as well)\n", rc3);
	printf("same nonce, congruent hashes: signatures %s\n", (0 == memcmp(s, s2, 32)) ? "equal (conforming)" : "DIFFER");
	if ((0 == rc1) != (0 == rc2) || 0 != rc3 || 0 != memcmp(s, s2, 32)) {
		printf("NOT CONFORMING: the hash is not reduced modulo n\n");
		return (1);
	}
	return (0);
}
