/* C03 findings that need an order n that is LONGER than the field (layout of secp160k1/r1/r2 and secp224k1:
 * n = 2^(8*bytes) + small).  Shown on the synthetic curve s251: y^2 = x^3 + x + 4 over p = 251, G = (85, 45),
 * prime n = 271 (9 bits, field 1 byte), set up through the library's own ecdsa_curve_from_str() exactly like the
 * built-in secp160r1 (n string one byte longer than the field).
 *
 * (a) default 64 bit digits:
 *       gcc -O1 -w -I/repo/include n_longer_than_field_tiny.c -o nlf64 && ./nlf64
 *     ecdsa_sign_le returns 0 but the component s = 262 (>= 2^8) was exported as 6: bn_export_le_bin accepts the
 *     truncation (DESIGN 11 #10: bound 1 << (1 + ddiff*8) in bn_digits_export_le_bin); ecdsa_sign_be says EOVERFLOW.
 *     On secp160r1 the same happens whenever s >= 2^160 (probability 2^-80 per signature).
 * (b) 8 bit digits:
 *       gcc -O1 -w -I/repo/include -DBN_DIGIT_BIT_CNT=8 -DBN_CC_MULL_DIV=1 n_longer_than_field_tiny.c -o nlf8 && ./nlf8
 *     ecdsa_verify(e = 269, r = 25, s = 116) - a signature ecdsa_sign itself produced - returns EOVERFLOW (75):
 *     every temporary is sized EC_CURVE_CALC_BITS_DBL = digit + 2*m bits, computed from the FIELD size m, so the
 *     product of two factors that both need the extra digit of n does not fit.  With the built-in curves that takes
 *     two factors >= 2^(8*bytes) (probability 2^-80 each, and only through the bn-level API for the hash).
 * Exit status 1 when either symptom shows.
 */
#include <stdio.h>
#include <string.h>
#include <stdint.h>
#include <stdlib.h>
#include <errno.h>
#include "crypto/dsa/ecdsa.h"

static ec_curve_str_t s251 = {
	"s251", 4, "", 0, /*num_size*/ 2, /*t*/ 4, /*m*/ 8, {0},
	/*p*/ "fb", NULL, 0, /*a*/ "01", /*b*/ "04", /*Gx*/ "55", /*Gy*/ "2d", /*n*/ "010f", /*h*/ 1,
	EC_CURVE_ALGO_ECDSA, 0
};

static void
set(bn_p bn, size_t bits, unsigned v) {
	uint8_t b[2] = { (uint8_t)v, (uint8_t)(v >> 8) };
	bn_init(bn, bits);
	bn_import_le_bin(bn, b, (v > 255) ? 2 : 1);
}

int
main(void) {
	static ec_curve_t curve;
	int bad = 0, rc;
	size_t bits;

	if (0 != ecdsa_curve_from_str(&s251, &curve))
		return (2);
	bits = EC_CURVE_CALC_BITS_DBL(&curve);
	{	/* (a) */
		uint8_t hash[1] = { 0x85 }, d[1] = { 2 }, k[1] = { 255 }, r[1], s[1];
		size_t ss = 0;
		int rc_be, rc_le;
		rc_be = ecdsa_sign_be(&curve, hash, 1, d, 1, k, 1, r, s, &ss);
		rc_le = ecdsa_sign_le(&curve, hash, 1, d, 1, k, 1, r, s, &ss);
		printf("(a) sign_be rc=%d   sign_le rc=%d (r,s)=(%u,%u); the true pair is (141,262)\n", rc_be, rc_le, r[0], s[0]);
		if (0 == rc_le) {
			uint8_t pub[3]; size_t ps = 0;
			ecdsa_recover_pub_key_from_priv_key_le(&curve, d, 1, 0, pub, NULL, &ps);
			rc = ecdsa_verify_le(&curve, hash, 1, r, s, 1, pub, NULL, ps);
			printf("    ecdsa_verify_le of that output: rc=%d\n", rc);
			if (0 != rc) {
				printf("    SUCCESS REPORTED FOR A TRUNCATED SIGNATURE\n");
				bad = 1;
			}
		}
	}
	{	/* (b) */
		bn_t e, d, k, r, s;
		ec_point_t Q;
		set(&e, bits, 269); set(&d, bits, 1); set(&k, bits, 379);
		bn_init(&r, bits); bn_init(&s, bits);
		rc = ecdsa_sign(&curve, &e, &d, &k, &r, &s);
		printf("(b) ecdsa_sign(e=269, d=1, k=379) rc=%d (r,s)=(%u,%u)\n", rc, (unsigned)r.num[0], (unsigned)s.num[0]);
		ec_point_init(&Q, bits);
		ec_point_assign(&Q, &curve.G);	/* Q = 1*G */
		set(&e, bits, 269);
		rc = ecdsa_verify(&curve, &e, &r, &s, &Q);
		printf("    ecdsa_verify of that signature: rc=%d%s\n", rc, (EOVERFLOW == rc) ? " (EOVERFLOW)" : "");
		if (0 != rc)
			bad = 1;
	}
	return (bad);
}
