/* C03 finding: a hash longer than the group order is truncated to whole BYTES of the field size
 * (MIN(hash_size, bytes) in every *_be/*_le entry point), not to the leftmost ceil(log2 n) BITS as
 * SEC 1 v2.0 4.1.3 step 5 / 4.1.4 step 3 (X9.62, FIPS 186) require.
 *
 * The two coincide only when n has exactly 8*bytes bits.  Built-in curves where they do not:
 *   secp160k1, secp160r1, secp160r2 (n has 161 bits, field 20 bytes), secp224k1 (225 bits, 28 bytes):
 *       any hash longer than 20 / 28 bytes (SHA-224/256/384/512) -> the standard uses 161 / 225 bits, the library 160 / 224;
 *   secp112r2 (n has 110 bits, 14 bytes), secp128r2 (126 bits, 16 bytes):
 *       any hash of at least 14 / 16 bytes (every real hash) -> the standard uses 110 / 126 bits, the library 112 / 128.
 * ECDSA signatures over those curves do not interoperate in either direction.
 *
 * Shown here with library calls only: sign a 32 byte hash on secp160r1 through ecdsa_sign_be, then verify at the
 * bn level with (a) the leftmost 160 bits and (b) the leftmost 161 bits of the hash as e.  A conforming signer
 * used (b).
 *
 *   gcc -O1 -w -I/repo/include sec1_bit_truncation_secp160r1.c -o sec1_bits && ./sec1_bits
 *   (exit 1 "NOT CONFORMING" on the defective tree)
 * OpenSSL cross-check done while writing this file: `openssl pkeyutl -verify` on secp160r1 with the 32 byte digest
 * rejects the library's signature ("Signature Verification Failure"); it accepts it for the 21 byte digest that
 * spells the library's e, which proves the signature itself is sound and only e differs.
 */
#include <stdio.h>
#include <string.h>
#include <stdint.h>
#include <stdlib.h>
#include <errno.h>
#include "crypto/dsa/ecdsa.h"

static void
hex(const char *l, const uint8_t *b, size_t n) {
	size_t i;
	printf("%s=", l);
	for (i = 0; i < n; i ++)
		printf("%02x", b[i]);
	printf("\n");
}

int
main(void) {
	static ec_curve_t curve;
	const char *name = "secp160r1";
	uint8_t rnd[20], priv[20], pub[41], puby[20], k[20], H[32], r[20], s[20], e161[21];
	size_t priv_size = 0, pub_size = 0, ss = 0, i, bits;
	bn_t e_a, e_b, br, bs;
	ec_point_t Q;
	int rc, rc_a, rc_b;

	if (0 != ecdsa_curve_from_str(ecdsa_curve_str_get_by_name(name, strlen(name)), &curve))
		return (2);
	for (i = 0; i < 20; i ++) {
		rnd[i] = (uint8_t)(0x07 * (i + 1));
		k[i] = (uint8_t)(0x05 * (i + 3));
	}
	for (i = 0; i < 32; i ++)
		H[i] = (uint8_t)(0x9d + 0x3b * i);	/* some 32 byte digest; bit 161 from the left is what matters */
	if (0 != ecdsa_key_gen_be(&curve, rnd, 20, 0, priv, &priv_size, pub, puby, &pub_size))
		return (2);
	if (0 != ecdsa_recover_pub_key_from_priv_key_be(&curve, priv, priv_size, 0, pub, NULL, &pub_size))
		return (2);
	rc = ecdsa_sign_be(&curve, H, 32, priv, priv_size, k, 20, r, s, &ss);
	if (0 != rc)
		return (2);
	hex("pub", pub, pub_size); hex("H", H, 32); hex("r", r, 20); hex("s", s, 20);

	bits = EC_CURVE_CALC_BITS_DBL(&curve);
	bn_init(&e_a, bits); bn_init(&e_b, bits); bn_init(&br, bits); bn_init(&bs, bits);
	ec_point_init(&Q, bits);
	if (0 != ecdsa_pub_key_import_be(&curve, pub, NULL, pub_size, &Q))
		return (2);
	bn_import_be_bin(&br, r, 20);
	bn_import_be_bin(&bs, s, 20);
	/* (a) leftmost 160 bits = first 20 bytes */
	bn_import_be_bin(&e_a, H, 20);
	/* (b) leftmost 161 bits = first 168 bits shifted right by 7 */
	for (i = 0; i < 21; i ++)
		e161[i] = (uint8_t)(((i ? H[i - 1] : 0) << 1) | (H[i] >> 7));
	/* e161 now holds H[0..20] >> 7 in 21 bytes */
	bn_import_be_bin(&e_b, e161, 21);
	hex("e161", e161, 21);
	rc_a = ecdsa_verify(&curve, &e_a, &br, &bs, &Q);
	rc_b = ecdsa_verify(&curve, &e_b, &br, &bs, &Q);
	printf("verify with e = leftmost 160 bits of H (whole bytes)     : %d\n", rc_a);
	printf("verify with e = leftmost 161 bits of H (SEC 1 4.1.3 s.5) : %d\n", rc_b);
	if (0 != rc_b) {
		printf("NOT CONFORMING: the signer did not use the leftmost ceil(log2 n) = 161 bits of the hash\n");
		return (1);
	}
	return (0);
}
