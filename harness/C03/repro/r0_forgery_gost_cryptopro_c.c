/* C03 finding: ecdsa_verify does not reject r = 0 (nor s = 0) up front.
 *
 * GOST R 34.10-2012 6.2 step 1 / SEC 1 4.1.4 step 1: a signature with r or s outside [1, n-1] is invalid.
 * ecdsa_verify() only tests r >= n, s >= n.  On the two built-in parameter sets whose base point has
 * x-coordinate 0 (id-gostR3410-2001-CryptoPro-C-ParamSet, ...-XchB-ParamSet) this is a universal forgery:
 *     r = 0, s = e  (e = hash mod n)   =>   u1 = s/e = 1, u2 = -r/e = 0,  R = 1*G + 0*Q = G,  R.x mod n = 0 = r
 * is accepted for EVERY public key and EVERY message, without knowing any secret.
 *
 * EC_PF_TWIN_MULT_ALGO=0 (binary twin multiplication) is used so that the outcome does not depend on the second
 * defect (bn_calc_jsf reads an uninitialised digit when a scalar is zero, see jsf_zero_scalar_uninit.c); with the
 * default JOINT method the same input runs into that one.
 *
 *   gcc -O1 -w -I/repo/include -DEC_PF_TWIN_MULT_ALGO=0 r0_forgery_gost_cryptopro_c.c -o r0_forgery && ./r0_forgery
 * prints "FORGERY ACCEPTED" (exit 1) on the defective tree, "rejected" (exit 0) once r = 0 is refused.
 */
#include <stdio.h>
#include <string.h>
#include <stdint.h>
#include <stdlib.h>
#include <errno.h>
#include "crypto/dsa/ecdsa.h"

int
main(void) {
	static ec_curve_t curve;
	const char *name = "id-gostR3410-2001-CryptoPro-C-ParamSet";
	uint8_t rnd[32], priv[32], pubx[33], puby[32], hash[32], r[32], s[32];
	size_t priv_size = 0, pub_size = 0, i;
	int rc;

	if (0 != ecdsa_curve_from_str(ecdsa_curve_str_get_by_name(name, strlen(name)), &curve))
		return (2);
	/* somebody's key pair; the forger only sees the public key */
	for (i = 0; i < 32; i ++)
		rnd[i] = (uint8_t)(0x11 * (i + 1));
	rc = ecdsa_key_gen_be(&curve, rnd, 32, 1, priv, &priv_size, pubx, puby, &pub_size);
	if (0 != rc) {
		printf("key_gen rc=%d\n", rc);
		return (2);
	}
	/* any message hash below n (n = 9b9f60...; 0x42.. is below it so e = hash) */
	memset(hash, 0x42, 32);
	memset(r, 0x00, 32);		/* r = 0 */
	memcpy(s, hash, 32);		/* s = e */
	rc = ecdsa_verify_be(&curve, hash, 32, r, s, 32, pubx, NULL, pub_size);
	printf("ecdsa_verify_be(hash=42..42, r=0, s=hash, some public key) = %d\n", rc);
	if (0 == rc) {
		printf("FORGERY ACCEPTED: r = 0 is not a valid signature component\n");
		return (1);
	}
	printf("rejected\n");
	return (0);
}
