#!/usr/bin/env python3
"""Authoring-time generator of the tiny synthetic curves used by harness/C03 and harness/C09.

    python3 harness/C03/gen_curves.py > harness/C03/tiny_curves_table.h

Every curve is y^2 = x^3 + a*x + b over a prime p < 2^16 with a base point G of PRIME order n
and cofactor h in {1, 2, 4}.  The search is deterministic (first (a, b) in lexicographic order
that satisfies the wanted predicate, G = h * P for the first point P, starting one third into the (x, y)-ordered point list, with h * P != O).
Nothing here is trusted by the checks: tc.h re-derives the whole group of every curve by brute
force at check time (point set from the curve equation, orders by repeated addition, primality
by trial division) and refuses to run when a table entry is wrong.
"""
import sys

def is_prime(n):
    if n < 2:
        return False
    i = 2
    while i * i <= n:
        if n % i == 0:
            return False
        i += 1
    return True

def inv(x, p):
    return pow(x, p - 2, p)

def add(P, Q, a, p):
    if P is None:
        return Q
    if Q is None:
        return P
    if P[0] == Q[0]:
        if (P[1] + Q[1]) % p == 0:
            return None
        l = (3 * P[0] * P[0] + a) * inv(2 * P[1], p) % p
    else:
        l = (Q[1] - P[1]) * inv(Q[0] - P[0], p) % p
    x = (l * l - P[0] - Q[0]) % p
    return (x, (l * (P[0] - x) - P[1]) % p)

def mul(k, P, a, p):
    R = None
    for _ in range(k):
        R = add(R, P, a, p)
    return R

def mul_fast(k, P, a, p):
    R = None
    while k:
        if k & 1:
            R = add(R, P, a, p)
        P = add(P, P, a, p)
        k >>= 1
    return R

def sqrt_table(p):
    t = {}
    for y in range(p):
        t.setdefault(y * y % p, []).append(y)
    return t

def points(p, a, b, sq):
    pts = []
    for x in range(p):
        for y in sq.get((x * x * x + a * x + b) % p, []):
            pts.append((x, y))
    return pts

def count(p, a, b, sq):
    return 1 + sum(len(sq.get((x * x * x + a * x + b) % p, [])) for x in range(p))

def find(p, want_h, pred=None, a_list=None, n_pred=None, torsion=None):
    """first (a, b) with #E = h*n, n prime (n != p), non singular, predicate holds."""
    sq = sqrt_table(p)
    # generic searches start at a = 1, b = 1: a = 0 / b = 0 curves have only a handful of possible orders
    for a in (a_list if a_list is not None else range(1, p)):
        for b in range(1, p):
            if (4 * a * a * a + 27 * b * b) % p == 0:
                continue
            N = count(p, a, b, sq)
            if N % want_h:
                continue
            n = N // want_h
            if not is_prime(n) or n == p or n < 5:
                continue
            if n_pred is not None and not n_pred(n):
                continue
            pts = points(p, a, b, sq)
            if torsion is not None:
                if sum(1 for P in pts if P[1] == 0) != torsion:
                    continue
            if pred is not None and not pred(p, a, b, n, pts):
                continue
            for P in pts[len(pts) // 3:] + pts[:len(pts) // 3]:
                G = mul_fast(want_h, P, a, p)
                if G is not None:
                    assert mul_fast(n, G, a, p) is None
                    return (p, a, b, G[0], G[1], n, want_h)
    raise SystemExit('no curve for p=%d h=%d' % (p, want_h))

def ts_ok(p):
    """bn_mod_sqrt (Tonelli-Shanks branch, p = 1 mod 8) looks for a quadratic non-residue by XOR-ing the operand with
    p >> 1, p >> 2, ... and gives up after bitlen(operand) attempts.  With 160..521 bit operands that never happens; with
    8..16 bit operands it does for some residues (e.g. p = 241, 257, 65521).  The tiny p = 1 (mod 8) fields used here are
    chosen so that the search succeeds for EVERY quadratic residue; otherwise the checks would measure that artefact."""
    qr = set(y * y % p for y in range(1, p))
    for a in qr:
        if a < 2:
            continue
        b, tm, bits = a, p, a.bit_length()
        while True:
            tm >>= 1
            b ^= tm
            if (b % p) != 0 and (b % p) not in qr:
                break
            bits -= 1
            if bits == 0:
                return False
    return True

def has_x0(p, a, b, n, pts):          # a point with x == 0 exists (r = 0 reachable in the subgroup when h == 1)
    return any(P[0] == 0 for P in pts)

def has_x_eq_n(p, a, b, n, pts):      # n < p and a point with x == n exists (x mod n == 0)
    return n < p and any(P[0] == n for P in pts)

def no_x_zero_mod_n(p, a, b, n, pts):
    return not any(P[0] % n == 0 for P in pts)

CURVES = [
    # name, m (declared field bits), flags(A_M3), tuple
    # --- very small groups: full verifier truth tables
    ('t11',   8, 0, find(11, 1, has_x0)),
    ('t13',   8, 0, find(13, 1, no_x_zero_mod_n)),
    ('t17',   8, 0, find(17, 1, has_x_eq_n)),
    ('t23m3', 8, 1, find(23, 1, None, a_list=[23 - 3])),
    ('t31a0', 8, 0, find(31, 1, None, a_list=[0])),
    ('t43',   8, 0, find(43, 1, has_x0, n_pred=lambda n: n > 43)),
    ('t61',   8, 0, find(61, 1, has_x_eq_n)),
    # --- one byte fields, group of a few hundred points
    ('s127',  8, 0, find(127, 1, None, n_pred=lambda n: n < 127)),
    ('s199',  8, 0, find(199, 1, has_x0)),
    ('s229a0', 8, 0, find(229, 1, None, a_list=[0])),                       # p = 5 (mod 8)
    ('s113m3', 8, 1, find(113, 1, None, a_list=[113 - 3])),                 # p = 1 (mod 16): Tonelli-Shanks; a = -3
    ('s251',  8, 0, find(251, 1, None, n_pred=lambda n: n > 256)),         # n needs 9 bits: one digit more than p
    # --- one byte fields with cofactor
    ('c211h2', 8, 0, find(211, 2)),
    ('c223h4n', 8, 0, find(223, 4, torsion=3)),                            # 2-torsion Z2 x Z2 (three points with y == 0)
    ('c239h4c', 8, 0, find(239, 4, torsion=1)),                            # cyclic 4-torsion
    # --- two byte fields
    ('w401',  16, 0, find(401, 1, None, n_pred=lambda n: n > 401)),        # p = 1 (mod 16): Tonelli-Shanks
    ('w263m3', 16, 1, find(263, 1, None, a_list=[263 - 3])),               # p = 3 (mod 4)
    ('w269h2', 16, 0, find(269, 2)),                                       # p = 5 (mod 8), cofactor 2
    ('w1021', 16, 0, find(1021, 1)),
    ('w65519', 16, 0, find(65519, 1, None, n_pred=lambda n: n > 65536)),   # n needs 17 bits (like secp160r1: one byte more than the field)
    ('w63313', 16, 0, find(63313, 1)),                                     # largest p = 1 (mod 8) below 2^16 that passes ts_ok
    ('w65519h4', 16, 0, find(65519, 4)),
]

def main():
    out = []
    out.append('/* GENERATED by harness/C03/gen_curves.py at authoring time - do not edit.')
    out.append(' * name, declared field bits m, EC_CURVE_FLAG_*, p, a, b, Gx, Gy, n (prime order of G), h (cofactor).')
    out.append(' * Every entry is re-verified by brute force in tc_build() at check time. */')
    for name, m, flags, (p, a, b, gx, gy, n, h) in CURVES:
        assert p % 8 != 1 or ts_ok(p), name
        out.append('\t{ "%s", %d, %d, %d, %d, %d, %d, %d, %d, %d },' % (name, m, flags, p, a, b, gx, gy, n, h))
    sys.stdout.write('\n'.join(out) + '\n')

if __name__ == '__main__':
    main()
