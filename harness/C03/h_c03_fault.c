/* C03, clause "it never reports success when an internal computation failed":
 * exhaustive fault enumeration.  The guarded hook LCB_VERIF_FAIL() at the head of the three
 * scalar-multiplication dispatchers (ec_point_mult_bp, ec_point_twin_mult_bp,
 * ec_point_unknown_pt_mult) lets this harness make the k-th multiplication of an operation fail,
 * for every k that occurs; the operation must then return non-zero. */
#include <errno.h>
#include <stddef.h>
#include <stdint.h>
#include <string.h>
#include <sys/param.h>
#include "vh.h"
#include "utils/macro.h"
#include "math/big_num.h"
#include "math/elliptic_curve.h"
#include "crypto/dsa/ecdsa.h"

static int fault_at = 0;	/* 0 = never; k = the k-th hooked call of the current operation fails */
static int calls = 0;
static const char *failed_site = NULL;

int
lcb_verif_fail(const char *site) {
	calls ++;
	if (0 != fault_at && calls == fault_at) {
		failed_site = site;
		return (1);
	}
	return (0);
}

#define MAXB 80
static ec_curve_t curve;
static uint8_t rnd[MAXB], priv[MAXB], pubx[MAXB * 2 + 2], puby[MAXB], hash[MAXB], nonce[MAXB], sr[MAXB], ss[MAXB], shared[MAXB * 2 + 2];
static uint8_t priv2[MAXB], pub2x[MAXB * 2 + 2], pub2y[MAXB];
static size_t bytes, priv_size, pub_size, sign_size, pub2_size;

enum { OP_KEYGEN = 0, OP_SIGN, OP_VERIFY, OP_VERIFY_PRIV, OP_RECOVER, OP_DH, OP_N };
static const char *opname[OP_N] = { "ecdsa_key_gen_be", "ecdsa_sign_be", "ecdsa_verify_be", "ecdsa_verify_priv_key_be",
    "ecdsa_recover_pub_key_from_priv_key_be", "ecdsa_dh_be" };

static int
do_op(int op) {
	uint8_t o1[MAXB], o2[MAXB * 2 + 2], o3[MAXB];
	size_t s1 = 0, s2 = 0;

	switch (op) {
	case OP_KEYGEN:
		return (ecdsa_key_gen_be(&curve, rnd, bytes, 0, o1, &s1, o2, o3, &s2));
	case OP_SIGN:
		return (ecdsa_sign_be(&curve, hash, bytes, priv, priv_size, nonce, bytes, o1, o3, &s1));
	case OP_VERIFY:
		return (ecdsa_verify_be(&curve, hash, bytes, sr, ss, sign_size, pubx, puby, pub_size));
	case OP_VERIFY_PRIV:
		return (ecdsa_verify_priv_key_be(&curve, hash, bytes, sr, ss, sign_size, priv, priv_size));
	case OP_RECOVER:
		return (ecdsa_recover_pub_key_from_priv_key_be(&curve, priv, priv_size, 0, o2, o3, &s2));
	case OP_DH:
		s1 = sizeof(o2);
		return (ecdsa_dh_be(&curve, 0, pub2x, pub2y, pub2_size, priv, priv_size, o2, &s1));
	}
	return (-99);
}

static void
one_curve(ec_curve_str_p cs) {
	int op, k, n, rc;
	size_t i;
	char target[96];

	if (0 != ecdsa_curve_from_str(cs, &curve))
		return;
	bytes = EC_CURVE_CALC_BYTES(&curve);
	if (bytes > MAXB)
		return;
	for (i = 0; i < bytes; i ++) {
		rnd[i] = (uint8_t)(0x11 + i * 7);
		hash[i] = (uint8_t)(0xA0 + i * 3);
		nonce[i] = (uint8_t)(0x21 + i * 5);
	}
	rnd[0] &= 0x3f; nonce[0] &= 0x3f;	/* stay below n on every curve */
	fault_at = 0;
	/* fixture, without faults: two key pairs and one valid signature */
	priv_size = 0; pub_size = 0;
	if (0 != ecdsa_key_gen_be(&curve, rnd, bytes, 0, priv, &priv_size, pubx, puby, &pub_size))
		return;
	rnd[bytes - 1] ^= 0x55;
	pub2_size = 0;
	{ size_t p2 = 0; if (0 != ecdsa_key_gen_be(&curve, rnd, bytes, 0, priv2, &p2, pub2x, pub2y, &pub2_size)) return; }
	rnd[bytes - 1] ^= 0x55;
	sign_size = 0;
	if (0 != ecdsa_sign_be(&curve, hash, bytes, priv, priv_size, nonce, bytes, sr, ss, &sign_size))
		return;

	for (op = 0; op < OP_N; op ++) {
		snprintf(target, sizeof(target), "%s", opname[op]);
		/* how many hooked multiplications does the fault-free operation make, and does it succeed? */
		calls = 0; fault_at = 0;
		rc = do_op(op);
		n = calls;
		if (!vh_begin(opname[op])) { /* baseline case */ } else {
			vh_desc("curve=%.*s no fault: rc=%d multiplications=%d", (int)cs->name_size, cs->name, rc, n);
			if (0 != rc)
				vh_fail("fixture-rejected", "the fault-free operation failed rc=%d", rc);
			else if (n > 0)
				vh_nontrivial();
		}
		for (k = 1; k <= n; k ++) {
			if (!vh_begin(opname[op]))
				continue;
			calls = 0; fault_at = k; failed_site = NULL;
			rc = do_op(op);
			fault_at = 0;
			vh_desc("curve=%.*s fault at multiplication %d of %d (%s): rc=%d", (int)cs->name_size, cs->name, k, n,
			    failed_site ? failed_site : "?", rc);
			if (NULL == failed_site)
				vh_fail("harness", "the fault was not reached");
			else if (0 == rc)
				vh_fail("success-after-failed-multiplication", "%s failed but the operation reported success", failed_site);
			else
				vh_nontrivial();
		}
	}
}

int
main(int argc, char **argv) {
	size_t i;

	vh_init(argc, argv);
	for (i = 0; i < nitems(ec_curve_str); i ++)
		one_curve(&ec_curve_str[i]);
	return (vh_finish());
}
