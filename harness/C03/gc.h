/*
 * gc.h - "guarded call": run one library call on a private stack so that
 *   (a) every byte the callee finds in its not-yet-initialised locals is a fixed ODD pattern (0xA5):
 *       a result that depends on uninitialised stack memory becomes a deterministic wrong result
 *       instead of a value that changes with the call history (full run vs. --only replay);
 *   (b) a stack smash inside the callee cannot reach the harness' own frames: the first frame of the
 *       call sits directly under a PROT_NONE page, the harness stays on the main stack;
 *   (c) SIGSEGV / SIGBUS / SIGFPE / SIGILL / SIGABRT raised inside the call, or a call that runs longer
 *       than GC_HANG_TICKS seconds, returns control to the harness, which reports it as a clause
 *       of the current case and goes on with the enumeration.
 * Used by the non-sanitizer builds of harness/C03 and harness/C09 (shared header).  With GC_DISABLE
 * (ASan builds) gc_call() is a plain call.
 */
#ifndef GC_H
#define GC_H

#include <signal.h>
#include <setjmp.h>
#include <stdint.h>
#include <stdlib.h>
#include <stdio.h>
#include <string.h>
#include <sys/mman.h>
#include <sys/time.h>
#include <ucontext.h>

#ifndef GC_STACK_SIZE
#define GC_STACK_SIZE	(512 * 1024)
#endif
#ifndef GC_SCRIBBLE
#define GC_SCRIBBLE	(160 * 1024)	/* re-filled before every call; gc_max_depth must stay below (checked) */
#endif
#define GC_GUARD	(64 * 1024)
#define GC_PATTERN	0xA5
#define GC_HANG_TICKS	3

static uint8_t *gc_stack;	/* usable region [gc_stack, gc_stack + GC_STACK_SIZE) */
static ucontext_t gc_main, gc_tmpl, gc_ctx;
static sigjmp_buf gc_jmp;
static volatile sig_atomic_t gc_active, gc_sig, gc_ticks;
static volatile uint64_t gc_calls, gc_tick_call;
static void (*gc_fn)(void *);
static void *gc_arg;
static size_t gc_max_depth;
static uint64_t gc_crashes;

static void
gc_tramp(void) {
	gc_fn(gc_arg);
}

static void
gc_handler(int sig) {
	if (SIGALRM == sig) {
		if (!gc_active)
			return;
		if (gc_tick_call == gc_calls) {
			if (++ gc_ticks >= GC_HANG_TICKS) {
				gc_sig = SIGALRM;
				siglongjmp(gc_jmp, 1);
			}
		} else {
			gc_tick_call = gc_calls;
			gc_ticks = 0;
		}
		return;
	}
	if (!gc_active) { /* the harness itself is broken: die loudly, the driver attributes it */
		signal(sig, SIG_DFL);
		raise(sig);
		return;
	}
	gc_sig = sig;
	siglongjmp(gc_jmp, 1);
}

static void
gc_init(void) {
	static const int sigs[] = { SIGSEGV, SIGBUS, SIGFPE, SIGILL, SIGABRT, SIGALRM };
	struct sigaction sa;
	struct itimerval it;
	stack_t ss;
	uint8_t *m;
	size_t i;

	m = (uint8_t *)mmap(NULL, GC_STACK_SIZE + 2 * GC_GUARD, PROT_READ | PROT_WRITE,
	    MAP_PRIVATE | MAP_ANONYMOUS, -1, 0);
	if (MAP_FAILED == m) {
		fprintf(stderr, "gc: mmap failed\n");
		exit(3);
	}
	mprotect(m, GC_GUARD, PROT_NONE);
	mprotect(m + GC_GUARD + GC_STACK_SIZE, GC_GUARD, PROT_NONE);
	gc_stack = m + GC_GUARD;
	memset(gc_stack, GC_PATTERN, GC_STACK_SIZE);
	ss.ss_sp = malloc(64 * 1024);
	ss.ss_size = 64 * 1024;
	ss.ss_flags = 0;
	sigaltstack(&ss, NULL);
	memset(&sa, 0, sizeof(sa));
	sa.sa_handler = gc_handler;
	sa.sa_flags = SA_ONSTACK | SA_NODEFER | SA_RESTART;
	sigemptyset(&sa.sa_mask);
	for (i = 0; i < sizeof(sigs) / sizeof(sigs[0]); i ++)
		sigaction(sigs[i], &sa, NULL);
	it.it_interval.tv_sec = 1; it.it_interval.tv_usec = 0;
	it.it_value = it.it_interval;
	setitimer(ITIMER_REAL, &it, NULL);
	getcontext(&gc_tmpl);
}

/* returns 0 when fn returned normally, else the signal number (SIGALRM = hang) */
static int
gc_call(void (*fn)(void *), void *arg) {
#ifdef GC_DISABLE
	fn(arg);
	return (0);
#else
	uint8_t *lo, *p;

	if (NULL == gc_stack)
		gc_init();
	lo = gc_stack + GC_STACK_SIZE - GC_SCRIBBLE;
	memset(lo, GC_PATTERN, GC_SCRIBBLE);
	gc_fn = fn; gc_arg = arg;
	gc_ctx = gc_tmpl;
	gc_ctx.uc_stack.ss_sp = gc_stack;
	gc_ctx.uc_stack.ss_size = GC_STACK_SIZE;
	gc_ctx.uc_link = &gc_main;
	makecontext(&gc_ctx, gc_tramp, 0);
	gc_calls ++;
	gc_sig = 0;
	if (0 == sigsetjmp(gc_jmp, 1)) {
		gc_active = 1;
		swapcontext(&gc_main, &gc_ctx);
		gc_active = 0;
	} else {
		gc_active = 0;
		gc_crashes ++;
		/* the interrupted call may have gone deeper than GC_SCRIBBLE: restore the whole pattern */
		memset(gc_stack, GC_PATTERN, GC_STACK_SIZE);
		return ((int)gc_sig);
	}
	/* depth actually used (a cheap scan of the lowest scribbled part only: 64 byte steps) */
	for (p = lo - 4096; p < lo + 4096; p += 64) {
		if (GC_PATTERN != *p) {
			fprintf(stderr, "gc: call went deeper than GC_SCRIBBLE\n");
			printf("NOTE\tgc-fatal: a library call used more than %d bytes of stack; raise GC_SCRIBBLE\n", GC_SCRIBBLE);
			fflush(stdout);
			exit(3);
		}
	}
	return (0);
#endif
}

static const char *
gc_signame(int sig) {
	switch (sig) {
	case SIGSEGV: return ("SIGSEGV");
	case SIGBUS: return ("SIGBUS");
	case SIGFPE: return ("SIGFPE");
	case SIGILL: return ("SIGILL");
	case SIGABRT: return ("SIGABRT");
	case SIGALRM: return ("hang");
	}
	return ("signal");
}

#endif /* GC_H */
