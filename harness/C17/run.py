"""C17 - INI store: ordered map + text round trip.  Engine E3 (explicit-state BFS on the real object).

Two builds of the same harness explore the same histories:
  asan     gcc -O1 + AddressSanitizer; ASan's realloc always moves the record -> the "re-point" path
  inplace  same + -DC17_INPLACE: ini.c's allocations come from a deterministic slack allocator whose
           realloc returns the same pointer when the new size fits 64 bytes of (poisoned) slack ->
           the "same pointer" path of ini_val_set (glibc takes it at will, ASan never)
Every process runs the whole search (state discovery is cheap); the per-state observer cases are
sharded by the global case counter."""
import os, re, shutil, subprocess, sys
from concurrent.futures import ThreadPoolExecutor
from vlib import core

PROP = 'C17'
SRC = ['harness/C17/h_c17.c']
CONFIGS = {
    'asan':    dict(name='h_c17_asan',    flags=[]),
    'inplace': dict(name='h_c17_inplace', flags=['-DC17_INPLACE']),
}


def build(cfg):
    c = CONFIGS[cfg]
    return core.compile_c(PROP, c['name'], SRC + [core.repo_src('utils', 'buf_str.c')],
                          flags=c['flags'], cc='gcc', opt='-O1', san='asan')


def build_all():
    with ThreadPoolExecutor(max_workers=2) as ex:
        return dict(zip(CONFIGS, ex.map(build, CONFIGS)))


HIST_RX = re.compile(r'tier=(\w+) ph=(\w+) hist=([0-9,\-]+) ')


def run_single(binary, tier, desc, cfg):
    m = HIST_RX.search(desc)
    if not m:
        return None
    # operation numbers depend on the tier (and build) that recorded the history: take the tier from the case text
    p = subprocess.run([binary, '--tier', m.group(1), '--cfg', cfg, '--single', m.group(2), m.group(3)],
                       capture_output=True, timeout=120)
    return p


def make_replayer(bins, tier, rep):
    """A violation is replayed from its history alone (no search): fresh object, the operations of the
    history through the real API, then the transition oracle / the observers; twice, same clause."""
    generic = core.make_replayer(lambda cfg: bins[(cfg or 'asan').split(':')[0]], tier)

    def replayer(target, clause, idx, config):
        binary = bins[(config or 'asan').split(':')[0]]
        desc = None
        for (i, d, c) in rep.viol.get((target, clause), []):
            if i == str(idx) and c == config:
                desc = d
                break
        if desc is None or not HIST_RX.search(desc):
            return generic(target, clause, idx, config)
        hits = 0
        for _ in range(2):
            p = run_single(binary, tier, desc, (config or 'asan').split(':')[0])
            if clause.startswith('crash') or clause == 'hang':
                if p.returncode != 0 or b'DONE' not in p.stdout:
                    hits += 1
                continue
            for line in p.stdout.decode('utf-8', 'replace').splitlines():
                f = line.split('\t')
                if f[0] == 'VIOL' and f[1] == target and f[2] == clause:
                    hits += 1
                    break
        return hits == 2
    return replayer


def merge(rep, sub):
    """Fold a per-search Report into the main one with the semantics of Report.ingest."""
    for target, d in sub.stats.items():
        dd = rep.stats.setdefault(target, {})
        for k, v in d.items():
            if isinstance(k, tuple):
                dd[k] = max(dd.get(k, 0), v)
            else:
                dd[k] = dd.get(k, 0) + v
    for k, v in sub.clauses.items():
        rep.clauses[k] = rep.clauses.get(k, 0) + v
    for k, cases in sub.viol.items():
        l = rep.viol.setdefault(k, [])
        for c in cases:
            if len(l) < 8:
                l.append(c)
    for smp in sub.samples:
        if sum(1 for x in rep.samples if x.get('target') == smp.get('target')) < 2 and len(rep.samples) < 40:
            rep.samples.append(smp)
    rep.notes += sub.notes
    rep.harness_errors += sub.harness_errors
    rep.exhaustive = rep.exhaustive and sub.exhaustive


def parse_bfs_notes(notes):
    out = []
    for n in notes:
        if not n.startswith('bfs '):
            continue
        d = dict(kv.split('=', 1) for kv in n[4:].split(' ') if '=' in kv)
        out.append(d)
    return out


def run(tier):
    rep = core.Report(PROP, tier, 'model_checking',
        'breadth-first search over operation histories replayed on a fresh real ini object; transition = one real call of '
        'ini_buf_parse(snippet) / ini_val_set / ini_val_set_int / ini_val_set_uint; states deduplicated by the canonical line list '
        '(type, text, name/value offsets, per-line allocation size); three alphabets: "closed" (ini_val_set only, 2 sections x 2 names x '
        '3-4 values incl. empty and a 40-byte one, from the empty store and from a parsed skeleton with blank lines, searched until no '
        'new state appears), "deep" (4 snippets + 12 sets + set_uint, depth 5/6), "mixed" (8 snippets, 3 sections x 3 names x 5 values, '
        'set_int/set_uint, depth 3), thorough also "mixed4" (7 snippets, 3 x 3 x 4 values, depth 4); snippets that would create a duplicate (section,name) or section header are not enabled; in every '
        'state 7 observer cases compare get/vali_get/get_int/enumerators/calc_size/gen(all capacities)/parse(gen) with a list-of-lists '
        'reference; a case is non-trivial when the store holds at least one entry (gen: at least one line) and the whole clause chain was evaluated')
    rep.assumptions = [
        'no allocation failure is injected (ENOMEM paths of ini.c are not explored)',
        'names and values are free of CR/LF and names free of "=" and "]" (what an INI line can represent)',
        'the canonical form reads ini_line_t through #include "utils/ini.c"; all oracles except record-invariant use the public API only',
        'duplicate (section,name) pairs / duplicate section headers are never generated: the store answers with the first, the property '
        'says "most recently"; that region is outside the ordered-map reading (DESIGN.md C17)',
    ]
    bins = build_all()
    rep.configs = list(CONFIGS)
    # Every process of a run repeats the state discovery (cost D per process) and shares the observer work (O in
    # total): wall = D + O/n, cpu = n*D + O.  The shard count per search is chosen from the measured D and O so that
    # discovery-heavy searches (closed: 16 revisits per state) do not burn 16 x D.
    if tier == 'quick':
        plan = [('asan', 'closed,deep', 4), ('asan', 'mixed', 4), ('inplace', 'closed,deep', 4)]
    else:
        plan = [('asan', 'mixed4', 8), ('asan', 'closed', 4), ('asan', 'deep', 4), ('asan', 'mixed', 2),
                ('inplace', 'deep', 4), ('inplace', 'closed', 4), ('inplace', 'mixed', 2)]
    # The searches are independent processes: run them side by side, each into its own Report (Report.ingest is not
    # safe for concurrent run_sharded calls), under its own binary name (the progress files are named after it), and
    # merge in plan order so that the result does not depend on which finishes first.
    def one(item):
        cfg, phases, n = item
        label = '%s:%s' % (cfg, phases)
        exe = bins[cfg] + '.' + phases.replace(',', '_')
        if os.path.exists(exe):
            os.unlink(exe)
        shutil.copy2(bins[cfg], exe)
        sub = core.Report(PROP, tier, 'model_checking', '')
        core.run_sharded(sub, exe, tier, nshards=n, extra_args=['--cfg', cfg, '--phases', phases], config=label)
        return sub
    with ThreadPoolExecutor(max_workers=len(plan)) as ex:
        subs = list(ex.map(one, plan))
    for sub in subs:
        merge(rep, sub)
    # every shard runs the identical search and prints identical notes only from shard 0
    per = parse_bfs_notes(rep.notes)
    states = sum(int(d['states']) for d in per if d['cfg'] == 'asan')
    trans = sum(int(d['transitions']) for d in per if d['cfg'] == 'asan')
    rep.extra['states'] = states
    rep.extra['transitions'] = trans
    rep.extra['traces_validated_against_impl'] = sum(int(d['transitions']) for d in per)
    rep.extra['search'] = [{k: (int(v) if v.lstrip('-').isdigit() else v) for k, v in d.items()} for d in per]
    rep.extra['frontier_emptied'] = {('%s/%s' % (d['cfg'], d['phase'])): bool(int(d['frontier_emptied'])) for d in per}
    want = sum(len(p[1].split(',')) for p in plan)
    if len(per) != want:
        rep.harness_errors.append('expected %d search summaries, got %d' % (want, len(per)))
    # "exhaustive" = the stated bounded space was enumerated completely (depth bound or closure)
    rep.finish(make_replayer(bins, tier, rep))


def replay(r, tier):
    """./check C17 --replay replay/C17/<x>.replay : re-run the recorded history, report whether it still fails."""
    cfg = (r.get('config') or 'asan').split(':')[0]
    binary = build(cfg)
    p = run_single(binary, tier, r['case'], cfg)
    if p is None:
        sys.stderr.write('no history in the replay file\n')
        return 2
    bad = False
    for line in p.stdout.decode('utf-8', 'replace').splitlines():
        f = line.split('\t')
        if f[0] == 'VIOL':
            print(line)
            if f[1] == r['target'] and f[2] == r['clause']:
                bad = True
    if bad:
        slug = re.sub(r'[^A-Za-z0-9_.-]+', '_', '%s-%s' % (r['target'], r['clause']))[:100]
        print('VIOLATION property=%s replay=%s' % (PROP, os.path.join(core.VERIF, 'replay', PROP, slug + '.replay')))
        return 1
    return 0
