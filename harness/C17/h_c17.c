/* C17 - the INI store behaves like an ordered map and survives a text round trip.
 *
 * Engine E3: explicit-state breadth-first search whose transition function is the REAL API
 * (ini_buf_parse / ini_val_set / ini_val_set_int / ini_val_set_uint).  A state is an operation
 * history replayed on a fresh ini object (objects do not copy); states are deduplicated by a
 * canonical serialisation of the store (every line record: type, text, name/value offsets and
 * the per-line allocation size, which decides whether the next replacement reallocates).
 * In every state the observers are compared with a boring reference (ordered list of sections,
 * each an ordered list of (name, value)) that shares no code with liblcb.
 *
 * ini.c is #included so that the canonical form can see ini_line_t; every oracle except the
 * "record-invariant" clause goes through the public API only.
 */
#include <errno.h>
#include <inttypes.h>
#include <limits.h>
#include <ctype.h>
#include "vh.h"

/* Configuration "inplace" (-DC17_INPLACE): the allocations made by ini.c (records and the line
 * array) come from a small allocator with 64 bytes of hidden slack, so that realloc() returns the
 * SAME pointer whenever the new size fits the slack and moves otherwise - deterministically, which
 * glibc does not promise.  This reaches the "ini->lines[val_off] == line" branch of ini_val_set that
 * ASan's always-moving realloc never takes.  The slack is poisoned, so an access behind the
 * requested size is still an ASan report. */
#ifdef C17_INPLACE
#define C17_SLACK 64
typedef struct c17_hdr_s { size_t cap, req; } c17_hdr_t;
static void *
c17_realloc(void *p, size_t m) {
	c17_hdr_t *h, *nh;
	if (NULL != p) {
		h = ((c17_hdr_t *)p) - 1;
		if (m <= h->cap) {		/* grows or shrinks in place */
			VH_UNPOISON(p, h->cap);
			VH_POISON((uint8_t *)p + m, h->cap - m);
			h->req = m;
			return (p);
		}
	}
	nh = (c17_hdr_t *)malloc(sizeof(c17_hdr_t) + m + C17_SLACK);
	if (NULL == nh)
		return (NULL);
	nh->cap = m + C17_SLACK;
	nh->req = m;
	if (NULL != p) {
		h = ((c17_hdr_t *)p) - 1;
		memcpy(nh + 1, p, h->req < m ? h->req : m);
		VH_UNPOISON(p, h->cap);
		free(h);
	}
	VH_POISON((uint8_t *)(nh + 1) + m, C17_SLACK);
	return (nh + 1);
}
static void *
c17_calloc(size_t n, size_t sz) {
	void *p = c17_realloc(NULL, n * sz);
	if (NULL != p)
		memset(p, 0, n * sz);
	return (p);
}
static void *
c17_reallocarray(void *p, size_t n, size_t sz) {
	return (c17_realloc(p, n * sz));
}
static void
c17_free(void *p) {
	c17_hdr_t *h;
	if (NULL == p)
		return;
	h = ((c17_hdr_t *)p) - 1;
	VH_UNPOISON(p, h->cap);
	free(h);
}
#include <sys/param.h>
#include <sys/types.h>
#include <inttypes.h>
#include <errno.h>
#include <string.h>
#include <stdlib.h>
#define calloc		c17_calloc
#define realloc		c17_realloc
#define reallocarray	c17_reallocarray
#define free		c17_free
#endif
#include "utils/ini.c"		/* found through -I<repo>/src */
#ifdef C17_INPLACE
#undef calloc
#undef realloc
#undef reallocarray
#undef free
#endif

/* ------------------------------------------------------------------ alphabets */
typedef struct str_s {
	const char *s;
	size_t	n;
	uint8_t	*exact;		/* heap copy of exactly n bytes (no NUL): redzone right behind */
	char	*z;		/* NUL terminated heap copy for the "size 0 = strlen" form */
} str_t;

#define LONG40	"vvvvvvvvvvvvvvvvvvvvvvvvvvvvvvvvvvvvvvvv"
#define MID17	"wwwwwwwwwwwwwwwww"

static str_t SECTS[] = { {"A", 1}, {"b", 1}, {"a", 1}, {"A]x[", 4} };	/* set alphabet (prefixes used); the last one only through add_one_set(): brackets inside a name */
static str_t NAMES[] = { {"k", 1}, {"K", 1}, {"xy", 2} };
static str_t VALS[]  = { {"", 0}, {"1", 1}, {LONG40, 40}, {"a=b", 3}, {MID17, 17} };
/* lookup spellings: every set spelling, its other-case spellings, a prefix, and absent ones */
static str_t LSECTS[] = { {"A", 1}, {"a", 1}, {"b", 1}, {"B", 1}, {"C", 1}, {"Ab", 2}, {"A]x[", 4} };
static str_t LNAMES[] = { {"k", 1}, {"K", 1}, {"xy", 2}, {"XY", 2}, {"Xy", 2}, {"x", 1}, {"z", 1} };
#define NELEM(a) (sizeof(a) / sizeof((a)[0]))

static void
str_prepare(str_t *a, size_t cnt) {
	size_t i;
	for (i = 0; i < cnt; i ++) {
		a[i].exact = (uint8_t *)vh_dup(a[i].s, a[i].n);
		a[i].z = (char *)malloc(a[i].n + 1);
		memcpy(a[i].z, a[i].s, a[i].n);
		a[i].z[a[i].n] = 0;
	}
}

/* ------------------------------------------------------------------ parse snippets
 * The reference meaning of every snippet is written by hand (no parser in the reference). */
enum { I_SECT, I_VAL, I_OTHER };
typedef struct sn_item_s { int kind; const char *name; const char *val; } sn_item_t;
typedef struct snippet_s {
	const char *text;
	size_t	len;
	int	nitems;
	sn_item_t items[4];
	int	nother_rep;	/* that many further I_OTHER lines (for the long blank-line snippet) */
	uint8_t	*exact;
} snippet_t;

#define BL62	"\n\n\n\n\n\n\n\n\n\n\n\n\n\n\n\n\n\n\n\n\n\n\n\n\n\n\n\n\n\n\n" \
		"\n\n\n\n\n\n\n\n\n\n\n\n\n\n\n\n\n\n\n\n\n\n\n\n\n\n\n\n\n\n\n"
static snippet_t SNIPS[] = {
	/* 0 */ { "[A]\nk=1\n", 0, 2, { {I_SECT, "A", 0}, {I_VAL, "k", "1"} }, 0, 0 },
	/* 1 */ { "[b]\r\n\r\nxy=2\r\n\r\n", 0, 4, { {I_SECT, "b", 0}, {I_OTHER, 0, 0}, {I_VAL, "xy", "2"}, {I_OTHER, 0, 0} }, 0, 0 },
	/* 2 */ { "; c\n\n", 0, 2, { {I_OTHER, 0, 0}, {I_OTHER, 0, 0} }, 0, 0 },
	/* 3 */ { "junk\n", 0, 1, { {I_OTHER, 0, 0} }, 0, 0 },
	/* 4 */ { "[A\n", 0, 1, { {I_OTHER, 0, 0} }, 0, 0 },
	/* 5 */ { "K=\nxy=a=b", 0, 2, { {I_VAL, "K", ""}, {I_VAL, "xy", "a=b"} }, 0, 0 },	/* no header, no final newline */
	/* 6 */ { "#c\n[a]\nk=" LONG40 "\n\n\n", 0, 4, { {I_OTHER, 0, 0}, {I_SECT, "a", 0}, {I_VAL, "k", LONG40}, {I_OTHER, 0, 0} }, 1, 0 },
	/* 7 */ { BL62, 0, 0, { {0, 0, 0} }, 62, 0 },	/* 62 blank lines: [X]+k=..+62 = 64 = INI_LINES_PREALLOC */
	/* 8 */ { "[A]\r\n\r\n; c\r\n[b]\n\n\n", 0, 4, { {I_SECT, "A", 0}, {I_OTHER, 0, 0}, {I_OTHER, 0, 0}, {I_SECT, "b", 0} }, 2, 0 },
	/* 9 */ { "[Ab]\n", 0, 1, { {I_SECT, "Ab", 0} }, 0, 0 },	/* a section header as the LAST line of the store (enumeration offsets reach lines_count) */
	/* 10 */ { "[b]  ;t\r\nk=1\n", 0, 2, { {I_SECT, "b", 0}, {I_VAL, "k", "1"} }, 0, 0 },	/* bytes after the ']' of a header: kept in the line, not part of the name */
	/* 11 */ { "[b]\r\n\r\n[a]\nk=1\n", 0, 4, { {I_SECT, "b", 0}, {I_OTHER, 0, 0}, {I_SECT, "a", 0}, {I_VAL, "k", "1"} }, 0, 0 },	/* a section with nothing but a blank line, followed by another one: a later set into it must land in it */
	/* 12 */ { "[A]\n[b]\nxy=2\n", 0, 3, { {I_SECT, "A", 0}, {I_SECT, "b", 0}, {I_VAL, "xy", "2"} }, 0, 0 },	/* an empty section directly followed by the next header */
};

/* ------------------------------------------------------------------ operations */
enum { OP_SET, OP_SET_INT, OP_SET_UINT, OP_PARSE };
typedef struct op_s {
	int	kind;
	int	sect, name, val;	/* indexes into SECTS / NAMES / VALS */
	int	zform;			/* pass size 0 and NUL terminated names */
	int64_t	ival;
	int	snip;
	int	only_first;		/* enabled only as the first operation (alternative initial store) */
} op_t;

#define MAXOPS	96
#define MAXD	64
typedef struct phase_s {
	const char *name;
	op_t	ops[MAXOPS];
	int	nops;
	int	depth;			/* bound; the search also stops when the frontier empties */
} phase_t;

static const char *
op_target(const op_t *o) {
	switch (o->kind) {
	case OP_SET:		return ("ini_val_set");
	case OP_SET_INT:	return ("ini_val_set_int");
	case OP_SET_UINT:	return ("ini_val_set_uint");
	default:		return ("ini_buf_parse");
	}
}

static size_t
op_print(const op_t *o, char *b, size_t n) {
	size_t i, w = 0;
	switch (o->kind) {
	case OP_SET:
		if (VALS[o->val].n > 8)
			return ((size_t)snprintf(b, n, "set%s(%s,%s,%c*%zu)", o->zform ? "z" : "", SECTS[o->sect].s,
			    NAMES[o->name].s, VALS[o->val].s[0], VALS[o->val].n));
		return ((size_t)snprintf(b, n, "set%s(%s,%s,'%s')", o->zform ? "z" : "", SECTS[o->sect].s,
		    NAMES[o->name].s, VALS[o->val].s));
	case OP_SET_INT:
		return ((size_t)snprintf(b, n, "set_int(%s,%s,%" PRId64 ")", SECTS[o->sect].s, NAMES[o->name].s, o->ival));
	case OP_SET_UINT:
		return ((size_t)snprintf(b, n, "set_uint(%s,%s,%" PRIu64 ")", SECTS[o->sect].s, NAMES[o->name].s, (uint64_t)o->ival));
	default:
		w = (size_t)snprintf(b, n, "parse(#%d \"", o->snip);
		for (i = 0; i < SNIPS[o->snip].len && i < 24 && w + 8 < n; i ++) {
			char c = SNIPS[o->snip].text[i];
			if (c == '\n') { b[w ++] = '\\'; b[w ++] = 'n'; }
			else if (c == '\r') { b[w ++] = '\\'; b[w ++] = 'r'; }
			else b[w ++] = c;
		}
		if (i < SNIPS[o->snip].len && w + 8 < n) { b[w ++] = '.'; b[w ++] = '.'; }
		if (w + 3 < n) { b[w ++] = '"'; b[w ++] = ')'; }
		b[w] = 0;
		return (w);
	}
}

/* ------------------------------------------------------------------ reference model */
#define M_MAXSECT	16
#define M_MAXVAL	16
#define M_MAXSTR	48
typedef struct m_val_s { uint8_t nlen, vlen; char name[8]; char val[M_MAXSTR]; } m_val_t;
typedef struct m_sect_s { uint8_t nlen; char name[8]; int nvals; m_val_t vals[M_MAXVAL]; } m_sect_t;
typedef struct model_s { int nsect; int npre; m_sect_t sect[M_MAXSECT]; } model_t;

static void
m_die(const char *what) {
	fprintf(stderr, "h_c17: reference model capacity exceeded: %s\n", what);
	exit(3);
}

static int
m_eq(const char *a, size_t an, const char *b, size_t bn) {
	return (an == bn && 0 == memcmp(a, b, an));
}

static int
m_eqi(const char *a, size_t an, const char *b, size_t bn) {
	size_t i;
	if (an != bn)
		return (0);
	for (i = 0; i < an; i ++) {
		if (tolower((unsigned char)a[i]) != tolower((unsigned char)b[i]))
			return (0);
	}
	return (1);
}

static m_sect_t *
m_sect_find(model_t *m, const char *s, size_t sn) {
	int i;
	for (i = 0; i < m->nsect; i ++) {
		if (m_eq(m->sect[i].name, m->sect[i].nlen, s, sn))
			return (&m->sect[i]);
	}
	return (NULL);
}

static m_val_t *
m_val_find(m_sect_t *se, const char *s, size_t sn) {
	int i;
	for (i = 0; i < se->nvals; i ++) {
		if (m_eq(se->vals[i].name, se->vals[i].nlen, s, sn))
			return (&se->vals[i]);
	}
	return (NULL);
}

static m_sect_t *
m_sect_add(model_t *m, const char *s, size_t sn) {
	m_sect_t *se;
	if (m->nsect == M_MAXSECT || sn > sizeof(se->name))
		m_die("sections");
	se = &m->sect[m->nsect ++];
	memset(se, 0, sizeof(*se));
	se->nlen = (uint8_t)sn;
	memcpy(se->name, s, sn);
	return (se);
}

static void
m_val_add(m_sect_t *se, const char *n, size_t nn, const char *v, size_t vn) {
	m_val_t *va;
	if (se->nvals == M_MAXVAL || nn > sizeof(va->name) || vn > M_MAXSTR)
		m_die("values");
	va = &se->vals[se->nvals ++];
	va->nlen = (uint8_t)nn;
	memcpy(va->name, n, nn);
	va->vlen = (uint8_t)vn;
	memcpy(va->val, v, vn);
}

/* set: replace the value of an existing (section, name), else append the name at the end of
 * the section, creating the section at the end of the store if needed. */
static void
m_set(model_t *m, const char *s, size_t sn, const char *n, size_t nn, const char *v, size_t vn) {
	m_sect_t *se = m_sect_find(m, s, sn);
	m_val_t *va;
	if (NULL == se)
		se = m_sect_add(m, s, sn);
	va = m_val_find(se, n, nn);
	if (NULL == va) {
		m_val_add(se, n, nn, v, vn);
	} else {
		if (vn > M_MAXSTR)
			m_die("value length");
		va->vlen = (uint8_t)vn;
		memcpy(va->val, v, vn);
	}
}

/* parse = append the snippet's lines to the file: a header opens a new section at the end,
 * a value goes to the last section (values before any header belong to no section). */
static void
m_parse(model_t *m, const snippet_t *sn) {
	int i;
	for (i = 0; i < sn->nitems; i ++) {
		const sn_item_t *it = &sn->items[i];
		if (I_SECT == it->kind) {
			m_sect_add(m, it->name, strlen(it->name));
		} else if (I_VAL == it->kind) {
			if (0 == m->nsect)
				m->npre ++;
			else
				m_val_add(&m->sect[m->nsect - 1], it->name, strlen(it->name), it->val, strlen(it->val));
		}
	}
}

/* The store keeps duplicate keys and answers with the first one; the property's "most recently
 * parsed" would mean the last.  Duplicate (section, name) pairs and duplicate section headers
 * are outside the ordered-map reading and are not generated: a snippet is enabled only when it
 * introduces neither (exact spelling). */
static int
m_parse_enabled(const model_t *m, const snippet_t *sn) {
	model_t t = *m;
	int i;
	for (i = 0; i < sn->nitems; i ++) {
		const sn_item_t *it = &sn->items[i];
		if (I_SECT == it->kind) {
			if (NULL != m_sect_find(&t, it->name, strlen(it->name)))
				return (0);
			if (t.nsect == M_MAXSECT)
				return (0);
			m_sect_add(&t, it->name, strlen(it->name));
		} else if (I_VAL == it->kind && 0 != t.nsect) {
			m_sect_t *se = &t.sect[t.nsect - 1];
			if (NULL != m_val_find(se, it->name, strlen(it->name)))
				return (0);
			if (se->nvals == M_MAXVAL)
				return (0);
			m_val_add(se, it->name, strlen(it->name), it->val, strlen(it->val));
		}
	}
	return (1);
}

static void
m_apply(model_t *m, const op_t *o) {
	char num[32];
	int l;
	switch (o->kind) {
	case OP_SET:
		m_set(m, SECTS[o->sect].s, SECTS[o->sect].n, NAMES[o->name].s, NAMES[o->name].n,
		    VALS[o->val].s, VALS[o->val].n);
		break;
	case OP_SET_INT:
		l = snprintf(num, sizeof(num), "%" PRId64, o->ival);
		m_set(m, SECTS[o->sect].s, SECTS[o->sect].n, NAMES[o->name].s, NAMES[o->name].n, num, (size_t)l);
		break;
	case OP_SET_UINT:
		l = snprintf(num, sizeof(num), "%" PRIu64, (uint64_t)o->ival);
		m_set(m, SECTS[o->sect].s, SECTS[o->sect].n, NAMES[o->name].s, NAMES[o->name].n, num, (size_t)l);
		break;
	default:
		m_parse(m, &SNIPS[o->snip]);
		break;
	}
}

static int
m_total_vals(const model_t *m) {
	int i, n = 0;
	for (i = 0; i < m->nsect; i ++)
		n += m->sect[i].nvals;
	return (n);
}

/* canonical decimal integer?  (then the integer getters have a defined answer) */
static int
m_is_int(const m_val_t *v, int64_t *out) {
	size_t i = 0;
	int neg = 0;
	int64_t r = 0;
	if (v->vlen == 0 || v->vlen > 18)
		return (0);
	if (v->val[0] == '-') { neg = 1; i = 1; }
	if (i == v->vlen)
		return (0);
	if (v->val[i] == '0' && v->vlen != i + 1)
		return (0);
	if (neg && v->val[i] == '0')
		return (0);
	for (; i < v->vlen; i ++) {
		if (v->val[i] < '0' || v->val[i] > '9')
			return (0);
		r = r * 10 + (v->val[i] - '0');
	}
	*out = neg ? -r : r;
	return (1);
}

/* ------------------------------------------------------------------ the real object */
static int
real_apply(ini_p ini, const op_t *o) {
	const str_t *s = &SECTS[o->sect], *n = &NAMES[o->name];
	switch (o->kind) {
	case OP_SET:
		if (o->zform)
			return (ini_val_set(ini, (const uint8_t *)s->z, 0, (const uint8_t *)n->z, 0,
			    VALS[o->val].exact, VALS[o->val].n));
		return (ini_val_set(ini, s->exact, s->n, n->exact, n->n, VALS[o->val].exact, VALS[o->val].n));
	case OP_SET_INT:
		return (ini_val_set_int(ini, (const uint8_t *)s->z, 0, (const uint8_t *)n->z, 0, (ssize_t)o->ival));
	case OP_SET_UINT:
		return (ini_val_set_uint(ini, s->exact, s->n, n->exact, n->n, (size_t)o->ival));
	default:
		return (ini_buf_parse(ini, SNIPS[o->snip].exact, SNIPS[o->snip].len));
	}
}

/* Compare what the enumerators show with the reference.  0 = equal. */
static int
cmp_store_model(ini_p ini, const model_t *m, char *why, size_t why_sz) {
	size_t soff = 0, voff, nsz, vnsz, vsz;
	const uint8_t *name, *vname, *val;
	int si = 0, vi, guard = 0;

	why[0] = 0;
	while (0 == ini_sect_enum(ini, &soff, &name, &nsz)) {
		if (++ guard > 4096) {
			snprintf(why, why_sz, "section enumeration does not end");
			return (1);
		}
		if (si >= m->nsect) {
			snprintf(why, why_sz, "extra section #%d '%.*s' (reference has %d)", si, (int)nsz, name, m->nsect);
			return (1);
		}
		if (!m_eq((const char *)name, nsz, m->sect[si].name, m->sect[si].nlen)) {
			snprintf(why, why_sz, "section #%d is '%.*s', reference '%.*s'", si, (int)nsz, name,
			    (int)m->sect[si].nlen, m->sect[si].name);
			return (1);
		}
		voff = 0;
		vi = 0;
		while (0 == ini_sect_val_enum(ini, soff, &voff, &vname, &vnsz, &val, &vsz)) {
			const m_val_t *mv;
			if (++ guard > 4096) {
				snprintf(why, why_sz, "value enumeration does not end");
				return (2);
			}
			if (vi >= m->sect[si].nvals) {
				snprintf(why, why_sz, "section '%.*s': extra entry #%d '%.*s'='%.*s' (reference has %d)",
				    (int)nsz, name, vi, (int)vnsz, vname, (int)(vsz > 44 ? 44 : vsz), val, m->sect[si].nvals);
				return (2);
			}
			mv = &m->sect[si].vals[vi];
			if (!m_eq((const char *)vname, vnsz, mv->name, mv->nlen) ||
			    !m_eq((const char *)val, vsz, mv->val, mv->vlen)) {
				snprintf(why, why_sz, "section '%.*s' entry #%d is '%.*s'='%.*s' (len %zu), reference '%.*s'='%.*s' (len %d)",
				    (int)nsz, name, vi, (int)vnsz, vname, (int)(vsz > 44 ? 44 : vsz), val, vsz,
				    (int)mv->nlen, mv->name, (int)mv->vlen, mv->val, (int)mv->vlen);
				return (2);
			}
			vi ++;
			voff ++;
		}
		if (vi != m->sect[si].nvals) {
			snprintf(why, why_sz, "section '%.*s' enumerates %d entries, reference has %d (next '%.*s')",
			    (int)nsz, name, vi, m->sect[si].nvals, (int)m->sect[si].vals[vi].nlen, m->sect[si].vals[vi].name);
			return (2);
		}
		si ++;
		soff ++;
	}
	if (si != m->nsect) {
		snprintf(why, why_sz, "%d sections enumerated, reference has %d (next '%.*s')", si, m->nsect,
		    (int)m->sect[si].nlen, m->sect[si].name);
		return (1);
	}
	return (0);
}

/* requested size of the allocation that holds a record */
#ifdef VH_HAS_ASAN
size_t __sanitizer_get_allocated_size(const volatile void *p);
#endif
static size_t
real_alloc_size(const void *rec) {
#ifdef C17_INPLACE
	return ((((const c17_hdr_t *)rec) - 1)->req);
#elif defined(VH_HAS_ASAN)
	return (__sanitizer_get_allocated_size(rec));
#else
	(void)rec;
	return ((size_t)-1);
#endif
}

/* White-box: every record's pointers point into the record's own storage (properties.jsonl,
 * anchors.state) - the precondition for the canonical form below to be meaningful. */
static int
record_invariant(ini_p ini, char *why, size_t why_sz) {
	size_t i;
	why[0] = 0;
	if (ini->lines_count > ini->lines_allocated) {
		snprintf(why, why_sz, "lines_count %zu > lines_allocated %zu", ini->lines_count, ini->lines_allocated);
		return (1);
	}
	for (i = 0; i < ini->lines_count; i ++) {
		ini_line_p l = ini->lines[i];
		if (NULL == l) {
			snprintf(why, why_sz, "line %zu is NULL although no allocation failed", i);
			return (1);
		}
		/* data_size <= data_allocated_size is NOT required: when realloc returns the same pointer
		 * ini_val_set leaves data_allocated_size at its old, smaller value (it only ever understates
		 * the real capacity, which costs a needless realloc later and nothing else).  The real
		 * capacity is watched by ASan. */
		if (l->data != (uint8_t *)(l + 1)) {
			snprintf(why, why_sz, "line %zu: data does not point at the record's own storage", i);
			return (1);
		}
		/* ... but it must never OVERSTATE it: ini_val_set writes up to data_allocated_size - 1
		 * bytes in place without asking the allocator again. */
		if (sizeof(ini_line_t) + l->data_allocated_size > real_alloc_size(l) ||
		    sizeof(ini_line_t) + l->data_size > real_alloc_size(l)) {
			snprintf(why, why_sz, "line %zu: record says %zu data bytes allocated (%zu used), the allocation has room for %zu",
			    i, l->data_allocated_size, l->data_size, real_alloc_size(l) - sizeof(ini_line_t));
			return (1);
		}
		if (INI_LINE_TYPE_VALUE == l->type) {
			if (l->name != l->data || l->val != l->data + l->name_size + 1 ||
			    l->name_size + 1 + l->val_size != l->data_size) {
				snprintf(why, why_sz, "line %zu: value record name/val do not tile data", i);
				return (1);
			}
		} else if (INI_LINE_TYPE_SECTION == l->type) {
			if (l->name != l->data + 1 || l->name_size + 2 > l->data_size) {
				snprintf(why, why_sz, "line %zu: section name outside data", i);
				return (1);
			}
		}
	}
	return (0);
}

/* ------------------------------------------------------------------ canonical form + hash set */
typedef struct h128_s { uint64_t a, b; } h128_t;

static uint8_t *canon_buf = NULL;
static size_t canon_cap = 0;

static void
canon_put(size_t *off, const void *p, size_t n) {
	if (*off + n > canon_cap) {
		canon_cap = (*off + n) * 2 + 256;
		canon_buf = (uint8_t *)realloc(canon_buf, canon_cap);
	}
	memcpy(canon_buf + *off, p, n);
	*off += n;
}

static h128_t
canon_hash(ini_p ini, size_t *canon_len) {
	size_t off = 0, i;
	uint64_t h1 = 1469598103934665603ull, h2 = 0x9E3779B97F4A7C15ull;
	h128_t r;

	for (i = 0; i < ini->lines_count; i ++) {
		ini_line_p l = ini->lines[i];
		uint32_t rec[7];
		if (NULL == l) {
			rec[0] = 0xffffffffu;
			canon_put(&off, rec, 4);
			continue;
		}
		rec[0] = l->type;
		rec[1] = (uint32_t)l->data_size;
		rec[2] = (uint32_t)l->data_allocated_size;
		rec[3] = (NULL != l->name) ? (uint32_t)(l->name - l->data) : 0xfffffffeu;
		rec[4] = (uint32_t)l->name_size;
		rec[5] = (NULL != l->val) ? (uint32_t)(l->val - l->data) : 0xfffffffeu;
		rec[6] = (uint32_t)l->val_size;
		canon_put(&off, rec, sizeof(rec));
		canon_put(&off, l->data, l->data_size);
	}
	for (i = 0; i < off; i ++) {
		h1 = (h1 ^ canon_buf[i]) * 1099511628211ull;
		h2 = (h2 + canon_buf[i]) * 0xff51afd7ed558ccdull;
		h2 ^= h2 >> 29;
	}
	r.a = h1 ^ (off << 1);
	r.b = h2;
	if (0 == r.a && 0 == r.b)
		r.a = 1;
	*canon_len = off;
	return (r);
}

static h128_t *hs_tbl = NULL;
static size_t hs_cap = 0, hs_cnt = 0;

static void
hs_reset(void) {
	free(hs_tbl);
	hs_cap = 1u << 16;
	hs_cnt = 0;
	hs_tbl = (h128_t *)calloc(hs_cap, sizeof(h128_t));
}

static int hs_insert(h128_t k);

static void
hs_grow(void) {
	h128_t *old = hs_tbl;
	size_t ocap = hs_cap, i;
	hs_cap *= 2;
	hs_cnt = 0;
	hs_tbl = (h128_t *)calloc(hs_cap, sizeof(h128_t));
	for (i = 0; i < ocap; i ++) {
		if (old[i].a || old[i].b)
			hs_insert(old[i]);
	}
	free(old);
}

static int	/* 1 = new */
hs_insert(h128_t k) {
	size_t pos;
	if ((hs_cnt + 1) * 10 > hs_cap * 6)
		hs_grow();
	pos = (size_t)(k.a ^ (k.b >> 17)) & (hs_cap - 1);
	for (;;) {
		if (0 == hs_tbl[pos].a && 0 == hs_tbl[pos].b) {
			hs_tbl[pos] = k;
			hs_cnt ++;
			return (1);
		}
		if (hs_tbl[pos].a == k.a && hs_tbl[pos].b == k.b)
			return (0);
		pos = (pos + 1) & (hs_cap - 1);
	}
}

/* ------------------------------------------------------------------ case description */
typedef struct hist_s { uint8_t len; uint8_t op[MAXD]; } hist_t;

static const phase_t *cur_phase = NULL;
static hist_t cur_hist;
static const char *cur_what = "";

static void
describe(char *b, size_t n) {
	size_t w;
	int i;
	w = (size_t)snprintf(b, n, "tier=%s ph=%s hist=", vh_thorough ? "thorough" : "quick", cur_phase->name);
	for (i = 0; i < cur_hist.len && w + 8 < n; i ++)
		w += (size_t)snprintf(b + w, n - w, "%s%d", i ? "," : "", cur_hist.op[i]);
	if (0 == cur_hist.len)
		w += (size_t)snprintf(b + w, n - w, "-");
	w += (size_t)snprintf(b + w, n - w, " %s::", cur_what);
	for (i = 0; i < cur_hist.len && w + 80 < n; i ++) {
		b[w ++] = ' ';
		w += op_print(&cur_phase->ops[cur_hist.op[i]], b + w, n - w);
		if (i + 1 < cur_hist.len)
			b[w ++] = ';';
	}
	b[w] = 0;
}

/* ------------------------------------------------------------------ observers */
static int asan_gen_reports = 0;	/* see obs_gen() */

/* reference lookups */
static const m_val_t *
ref_get_cs(const model_t *m, const str_t *s, const str_t *n) {
	m_sect_t *se = m_sect_find((model_t *)m, s->s, s->n);
	if (NULL == se)
		return (NULL);
	return (m_val_find(se, n->s, n->n));
}

/* case-insensitive: collects candidate values; *nsect = sections whose name matches ignoring case */
static int
ref_get_ci(const model_t *m, const str_t *s, const str_t *n, const m_val_t **cand, int cand_max, int *nsect) {
	int i, j, c = 0;
	*nsect = 0;
	for (i = 0; i < m->nsect; i ++) {
		if (!m_eqi(m->sect[i].name, m->sect[i].nlen, s->s, s->n))
			continue;
		(*nsect) ++;
		for (j = 0; j < m->sect[i].nvals; j ++) {
			if (m_eqi(m->sect[i].vals[j].name, m->sect[i].vals[j].nlen, n->s, n->n) && c < cand_max)
				cand[c ++] = &m->sect[i].vals[j];
		}
	}
	return (c);
}

typedef int (*get_fn)(const ini_p, const uint8_t *, const size_t, const uint8_t *, const size_t,
    const uint8_t **, size_t *);

static void
obs_get_cs(ini_p ini, const model_t *m) {
	size_t si, ni;
	int form, bad = 0, found = 0;

	if (!vh_begin("ini_val_get"))
		return;
	cur_what = "get";
	for (si = 0; si < NELEM(LSECTS); si ++) {
		for (ni = 0; ni < NELEM(LNAMES); ni ++) {
			const str_t *s = &LSECTS[si], *n = &LNAMES[ni];
			const m_val_t *ref = ref_get_cs(m, s, n);
			for (form = 0; form < 2; form ++) {
				const uint8_t *val = NULL;
				size_t vsz = 12345;
				int rc = form ? ini_val_get(ini, (const uint8_t *)s->z, 0, (const uint8_t *)n->z, 0, &val, &vsz)
				    : ini_val_get(ini, s->exact, s->n, n->exact, n->n, &val, &vsz);
				if (NULL == ref) {
					if (0 == rc) {
						bad = 1;
						vh_fail("exact-spelling-only", "get('%s','%s') found '%.*s' but no entry with exactly this spelling exists (form %d)",
						    s->s, n->s, (int)(vsz > 44 ? 44 : vsz), val, form);
					}
				} else if (0 != rc) {
					bad = 1;
					vh_fail("present-key-found", "get('%s','%s') rc=%d, reference has '%.*s' (form %d)",
					    s->s, n->s, rc, (int)ref->vlen, ref->val, form);
				} else if (!m_eq((const char *)val, vsz, ref->val, ref->vlen)) {
					bad = 1;
					vh_fail("value-most-recent", "get('%s','%s') = '%.*s' (len %zu), reference '%.*s' (len %d, form %d)",
					    s->s, n->s, (int)(vsz > 44 ? 44 : vsz), val, vsz, (int)ref->vlen, ref->val, (int)ref->vlen, form);
				} else {
					found ++;
				}
			}
		}
	}
	if (!bad && found)
		vh_nontrivial();
}

static void
obs_get_ci(ini_p ini, const model_t *m) {
	size_t si, ni;
	int form, bad = 0, found = 0, i;

	if (!vh_begin("ini_vali_get"))
		return;
	cur_what = "geti";
	for (si = 0; si < NELEM(LSECTS); si ++) {
		for (ni = 0; ni < NELEM(LNAMES); ni ++) {
			const str_t *s = &LSECTS[si], *n = &LNAMES[ni];
			const m_val_t *cand[32];
			int nsect, nc = ref_get_ci(m, s, n, cand, 32, &nsect);
			for (form = 0; form < 2; form ++) {
				const uint8_t *val = NULL;
				size_t vsz = 12345;
				int ok = 0;
				int rc = form ? ini_vali_get(ini, (const uint8_t *)s->z, 0, (const uint8_t *)n->z, 0, &val, &vsz)
				    : ini_vali_get(ini, s->exact, s->n, n->exact, n->n, &val, &vsz);
				if (0 == nc) {
					if (0 == rc) {
						bad = 1;
						vh_fail("absent-key-not-found", "geti('%s','%s') found '%.*s' but no entry matches in any case",
						    s->s, n->s, (int)(vsz > 44 ? 44 : vsz), val);
					}
					continue;
				}
				if (0 != rc) {
					/* Two sections whose names differ only in case are duplicates for a
					 * case-insensitive reader: which one is searched is not promised. */
					if (nsect >= 2)
						continue;
					bad = 1;
					vh_fail("any-case-found", "geti('%s','%s') rc=%d, reference has a match '%.*s'='%.*s'",
					    s->s, n->s, rc, (int)cand[0]->nlen, cand[0]->name, (int)cand[0]->vlen, cand[0]->val);
					continue;
				}
				for (i = 0; i < nc; i ++) {
					if (m_eq((const char *)val, vsz, cand[i]->val, cand[i]->vlen))
						ok = 1;
				}
				if (!ok) {
					bad = 1;
					vh_fail("value-most-recent", "geti('%s','%s') = '%.*s' (len %zu) is the value of none of the %d matching entries",
					    s->s, n->s, (int)(vsz > 44 ? 44 : vsz), val, vsz, nc);
				} else {
					found ++;
				}
			}
		}
	}
	if (!bad && found)
		vh_nontrivial();
}

static void
obs_get_int(ini_p ini, const model_t *m) {
	size_t si, ni;
	int bad = 0, found = 0;

	if (!vh_begin("ini_val_get_int"))
		return;
	cur_what = "get_int";
	for (si = 0; si < NELEM(LSECTS); si ++) {
		for (ni = 0; ni < NELEM(LNAMES); ni ++) {
			const str_t *s = &LSECTS[si], *n = &LNAMES[ni];
			const m_val_t *ref = ref_get_cs(m, s, n), *cand[32];
			int nsect, nc = ref_get_ci(m, s, n, cand, 32, &nsect);
			int64_t want = 0;
			ssize_t sv = 777;
			size_t uv = 777;
			int rc;

			rc = ini_val_get_int(ini, s->exact, s->n, n->exact, n->n, &sv);
			if ((NULL == ref) != (0 != rc)) {
				bad = 1;
				vh_fail("int-presence", "get_int('%s','%s') rc=%d, reference %s", s->s, n->s, rc, ref ? "present" : "absent");
			} else if (NULL != ref && m_is_int(ref, &want) && (int64_t)sv != want) {
				bad = 1;
				vh_fail("int-value", "get_int('%s','%s') = %zd, stored text '%.*s'", s->s, n->s, sv, (int)ref->vlen, ref->val);
			} else if (NULL != ref) {
				found ++;
			}
			rc = ini_val_get_uint(ini, (const uint8_t *)s->z, 0, (const uint8_t *)n->z, 0, &uv);
			if ((NULL == ref) != (0 != rc)) {
				bad = 1;
				vh_fail("uint-presence", "get_uint('%s','%s') rc=%d, reference %s", s->s, n->s, rc, ref ? "present" : "absent");
			} else if (NULL != ref && m_is_int(ref, &want) && want >= 0 && (int64_t)uv != want) {
				bad = 1;
				vh_fail("uint-value", "get_uint('%s','%s') = %zu, stored text '%.*s'", s->s, n->s, uv, (int)ref->vlen, ref->val);
			}
			/* case-insensitive integer getters: defined when exactly one entry matches */
			sv = 777;
			rc = ini_vali_get_int(ini, s->exact, s->n, n->exact, n->n, &sv);
			if (0 == nc && 0 == rc) {
				bad = 1;
				vh_fail("inti-presence", "geti_int('%s','%s') rc=0 but nothing matches", s->s, n->s);
			} else if (1 == nc && 1 == nsect) {
				if (0 != rc) {
					bad = 1;
					vh_fail("inti-presence", "geti_int('%s','%s') rc=%d, one entry matches", s->s, n->s, rc);
				} else if (m_is_int(cand[0], &want) && (int64_t)sv != want) {
					bad = 1;
					vh_fail("inti-value", "geti_int('%s','%s') = %zd, stored text '%.*s'", s->s, n->s, sv, (int)cand[0]->vlen, cand[0]->val);
				}
			}
			uv = 777;
			rc = ini_vali_get_uint(ini, s->exact, s->n, n->exact, n->n, &uv);
			if (0 == nc && 0 == rc) {
				bad = 1;
				vh_fail("uinti-presence", "geti_uint('%s','%s') rc=0 but nothing matches", s->s, n->s);
			} else if (1 == nc && 1 == nsect) {
				if (0 != rc) {
					bad = 1;
					vh_fail("uinti-presence", "geti_uint('%s','%s') rc=%d, one entry matches", s->s, n->s, rc);
				} else if (m_is_int(cand[0], &want) && want >= 0 && (int64_t)uv != want) {
					bad = 1;
					vh_fail("uinti-value", "geti_uint('%s','%s') = %zu, stored text '%.*s'", s->s, n->s, uv, (int)cand[0]->vlen, cand[0]->val);
				}
			}
		}
	}
	if (!bad && found)
		vh_nontrivial();
}

/* enumeration in file order + the offsets the finders return are the enumerators' offsets */
static void
obs_enum(ini_p ini, const model_t *m) {
	char why[384];
	int r, i, bad = 0;
	size_t off, cnt;

	if (vh_begin("ini_sect_enum")) {
		cur_what = "sect_enum";
		r = cmp_store_model(ini, m, why, sizeof(why));
		if (1 == r) {
			bad = 1;
			vh_fail("file-order", "%s", why);
		}
		/* the optional out parameters may be NULL */
		for (off = 0, cnt = 0; 0 == ini_sect_enum(ini, &off, NULL, NULL) && cnt < 4096; off ++)
			cnt ++;
		if ((int)cnt != m->nsect) {
			bad = 1;
			vh_fail("count", "%zu sections counted with NULL out parameters, reference %d", cnt, m->nsect);
		}
		/* first section with a given spelling: finder offset must be what the enumerator gives */
		for (i = 0; i < m->nsect && !bad; i ++) {
			size_t e = 0, f;
			const uint8_t *nm;
			size_t nsz;
			int j, first = 1;
			for (j = 0; j < i; j ++) {
				if (m_eq(m->sect[j].name, m->sect[j].nlen, m->sect[i].name, m->sect[i].nlen))
					first = 0;
			}
			if (!first)
				continue;
			for (j = 0; j <= i; j ++, e ++) {
				if (0 != ini_sect_enum(ini, &e, &nm, &nsz))
					break;
			}
			e --;
			f = ini_sect_find(ini, (const uint8_t *)m->sect[i].name, m->sect[i].nlen);
			if (f != e) {
				bad = 1;
				vh_fail("find-offset", "ini_sect_find('%.*s') = %zu, enumerator offset %zu", (int)m->sect[i].nlen, m->sect[i].name, f, e);
			}
		}
		if (!bad && m->nsect > 0)
			vh_nontrivial();
	}
	if (vh_begin("ini_sect_val_enum")) {
		cur_what = "val_enum";
		r = cmp_store_model(ini, m, why, sizeof(why));
		if (2 == r)
			vh_fail("file-order", "%s", why);
		else if (0 == r && m_total_vals(m) > 0)
			vh_nontrivial();
	}
}

/* calc_size == bytes gen writes; undersized gen fails and writes nothing past the capacity */
static uint8_t *gen_arena = NULL;
static size_t gen_arena_sz = 0;
#define GEN_LPAD 64

static int	/* returns rc; *ret bytes; checks canaries */
gen_into(ini_p ini, size_t cap, size_t need, size_t *ret, int *overflow, int poison) {
	size_t total = GEN_LPAD + cap + need + 64, i;
	uint8_t *buf;
	int rc;

	if (total > gen_arena_sz) {
		free(gen_arena);
		gen_arena_sz = total * 2;
		gen_arena = (uint8_t *)malloc(gen_arena_sz);
	}
	memset(gen_arena, 0xC5, total);
	buf = gen_arena + GEN_LPAD;
	if (poison) {
		VH_POISON(gen_arena, GEN_LPAD);
		VH_POISON(buf + cap, need + 64);
	}
	*ret = 0;
	rc = ini_buf_gen(ini, buf, cap, ret);
	if (poison) {
		VH_UNPOISON(gen_arena, GEN_LPAD);
		VH_UNPOISON(buf + cap, need + 64);
	}
	*overflow = 0;
	for (i = 0; i < GEN_LPAD; i ++) {
		if (gen_arena[i] != 0xC5)
			*overflow = 1;
	}
	for (i = GEN_LPAD + cap; i < total; i ++) {
		if (gen_arena[i] != 0xC5) {
			*overflow = (int)(i - (GEN_LPAD + cap)) + 2;	/* 2 + offset of first foreign byte */
			break;
		}
	}
	return (rc);
}

/* text of the store generated into a buffer of calc_size bytes (no oracle here) */
static uint8_t *
store_text(ini_p ini, size_t *need_out) {
	size_t need = 0, ret = 0;
	int ovf;
	*need_out = 0;
	if (0 != ini_buf_calc_size(ini, &need) || need > 100000)
		return (NULL);
	*need_out = need;
	if (0 != gen_into(ini, need ? need : 1, need, &ret, &ovf, 1) || ret != need)
		return (NULL);
	return ((uint8_t *)vh_dup(gen_arena + GEN_LPAD, need));
}

static void
obs_calc(ini_p ini) {
	size_t need = 999999, ret = 0;
	int rc, ovf;

	if (!vh_begin("ini_buf_calc_size"))
		return;
	cur_what = "calc_size";
	rc = ini_buf_calc_size(ini, &need);
	if (0 != rc || need > 100000) {
		vh_fail("calc-rc", "ini_buf_calc_size rc=%d size=%zu", rc, need);
		return;
	}
	/* a generous buffer: what gen writes when nothing constrains it */
	rc = gen_into(ini, need + 64, need + 64, &ret, &ovf, 1);
	if (0 != rc)
		vh_fail("gen-generous-capacity", "gen into calc_size+64=%zu bytes fails rc=%d", need + 64, rc);
	else if (ret != need)
		vh_fail("calc-equals-written", "calc_size=%zu, gen wrote %zu", need, ret);
	else if (need > 0)
		vh_nontrivial();
}

static void
obs_gen(ini_p ini) {
	size_t need = 0, ret, cap, ncaps = 0, i, off;
	static size_t caps[4096];
	static uint8_t mark[4096];
	uint8_t *text;
	int rc, ovf, bad = 0;

	if (!vh_begin("ini_buf_gen"))
		return;
	cur_what = "gen";
	if (0 != ini_buf_calc_size(ini, &need) || need > 100000)
		return;		/* reported by ini_buf_calc_size's case */
	text = store_text(ini, &need);	/* may be NULL if gen fails at exact capacity: reported below */
	/* capacities: all of 0..need+1 when small (thorough: <= 96, quick: <= 24), else the
	 * structural ones: 0, 1, 2, need/2, every line end -2..+1, need-2..need+1; always need+17 */
	memset(mark, 0, sizeof(mark));
	if (need + 18 > sizeof(mark)) {
		vh_fail("harness-capacity", "text of %zu bytes is larger than the harness expects", need);
		free(text);
		return;
	}
	if (need <= (size_t)(vh_thorough ? 96 : 24)) {
		for (cap = 0; cap <= need + 1; cap ++)
			mark[cap] = 1;
	} else {
		mark[0] = mark[1] = mark[2] = mark[need / 2] = 1;
		for (i = 0; NULL != text && i < need; i ++) {
			if (text[i] != '\n')
				continue;
			off = i + 1;	/* end of a line incl. CRLF */
			if (off >= 2) mark[off - 2] = 1;
			mark[off - 1] = mark[off] = mark[off + 1] = 1;
		}
		mark[need - 2] = mark[need - 1] = mark[need] = mark[need + 1] = 1;
	}
	mark[need + 17] = 1;
	for (cap = 0; cap <= need + 17; cap ++) {	/* ascending, every capacity once */
		if (mark[cap])
			caps[ncaps ++] = cap;
	}
	for (i = 0; i < ncaps; i ++) {
		cap = caps[i];
		/* Each ASan report costs ~100 us of formatting; after 40 overflows in this process the
		 * byte canaries alone watch the space behind the capacity (they see every write). */
		rc = gen_into(ini, cap, need, &ret, &ovf, asan_gen_reports < 40);
		if (ovf) {
			bad = 1;
			asan_gen_reports ++;
			vh_fail("writes-past-capacity", "capacity %zu, needs %zu: rc=%d reported %zu bytes, first foreign byte at capacity+%d",
			    cap, need, rc, ret, ovf - 2);
		}
		if (cap < need) {
			if (0 == rc) {
				bad = 1;
				vh_fail("undersized-must-fail", "capacity %zu < needed %zu but rc=0 (reported %zu bytes)", cap, need, ret);
			}
		} else if (cap > 0) {
			if (0 != rc || ret != need) {
				bad = 1;
				vh_fail("sufficient-capacity", "capacity %zu >= needed %zu: rc=%d wrote %zu", cap, need, rc, ret);
			} else if (NULL != text && 0 != memcmp(gen_arena + GEN_LPAD, text, need)) {
				bad = 1;
				vh_fail("sufficient-capacity", "capacity %zu: text differs from the text generated into calc_size bytes", cap);
			}
		}
	}
	if (!bad && need > 2)
		vh_nontrivial();
	free(text);
}

/* parse(gen(store)) is equivalent to the store */
static void
obs_roundtrip(ini_p ini, const model_t *m) {
	ini_p o2 = NULL;
	char why[384];
	size_t need2 = 0, ret2 = 0, text_len = 0;
	uint8_t *text;
	int rc, ovf;

	if (!vh_begin("ini_buf_parse(ini_buf_gen)"))
		return;
	cur_what = "roundtrip";
	text = store_text(ini, &text_len);
	if (NULL == text)
		return;		/* reported by ini_buf_gen's case (sufficient-capacity) */
	if (0 != ini_create(&o2)) {
		vh_fail("create", "ini_create failed");
		free(text);
		return;
	}
	rc = ini_buf_parse(o2, text, text_len);
	if (0 != rc) {
		vh_fail("reparse-rc", "parsing the generated text fails rc=%d", rc);
	} else if (0 != cmp_store_model(o2, m, why, sizeof(why))) {
		vh_fail("equivalent-store", "after parse(gen(store)): %s", why);
	} else if (0 != ini_buf_calc_size(o2, &need2) || need2 != text_len) {
		vh_fail("same-text", "re-parsed store calc_size=%zu, original text %zu", need2, text_len);
	} else {
		rc = gen_into(o2, text_len ? text_len : 1, text_len, &ret2, &ovf, 1);
		if (0 != rc || ret2 != text_len || 0 != memcmp(gen_arena + GEN_LPAD, text, text_len))
			vh_fail("same-text", "gen(parse(gen(store))) differs from gen(store) (rc=%d, %zu vs %zu bytes)", rc, ret2, text_len);
		else if (m_total_vals(m) > 0)
			vh_nontrivial();
	}
	ini_destroy(o2);
	free(text);
}

/* keys that point INTO the store (what the enumerators hand out), in every prefix length: a lookup compares names, not
 * addresses - "[Ab]" enumerated, its first byte used as the key "A" */
static void
obs_alias(ini_p ini, const model_t *m) {
	size_t soff = 0, voff, nsz, vnsz, vsz0, k, j;
	const uint8_t *name, *vname, *val0;
	int guard = 0, bad = 0, found = 0;

	if (!vh_begin("ini_val_get"))
		return;
	cur_what = "get-with-keys-inside-the-store";
	for (; 0 == ini_sect_enum(ini, &soff, &name, &nsz) && ++ guard < 4096; soff ++) {
		for (voff = 0; 0 == ini_sect_val_enum(ini, soff, &voff, &vname, &vnsz, &val0, &vsz0) && ++ guard < 4096; voff ++) {
			for (k = 1; k <= nsz; k ++) for (j = 1; j <= vnsz; j ++) {
				const uint8_t *val = NULL; size_t vsz = 12345;
				m_sect_t *se = m_sect_find((model_t *)m, (const char *)name, k);
				const m_val_t *ref = (NULL != se) ? m_val_find(se, (const char *)vname, j) : NULL;
				int rc = ini_val_get(ini, name, k, vname, j, &val, &vsz);
				if (NULL == ref) {
					if (0 == rc) { bad = 1; vh_fail("exact-spelling-only", "get('%.*s','%.*s') with keys taken from the enumerators ('%.*s','%.*s' shortened) found '%.*s', no such entry exists",
					    (int)k, name, (int)j, vname, (int)nsz, name, (int)vnsz, vname, (int)(vsz > 44 ? 44 : vsz), val); }
				} else if (0 != rc) {
					bad = 1; vh_fail("present-key-found", "get('%.*s','%.*s') with keys taken from the enumerators rc=%d, reference has '%.*s'", (int)k, name, (int)j, vname, rc, (int)ref->vlen, ref->val);
				} else if (!m_eq((const char *)val, vsz, ref->val, ref->vlen)) {
					bad = 1; vh_fail("value-most-recent", "get('%.*s','%.*s') with keys taken from the enumerators ('%.*s','%.*s' shortened) = '%.*s', reference '%.*s'",
					    (int)k, name, (int)j, vname, (int)nsz, name, (int)vnsz, vname, (int)(vsz > 44 ? 44 : vsz), val, (int)ref->vlen, ref->val);
				} else found ++;
			}
		}
	}
	if (!bad && found)
		vh_nontrivial();
}

static void
observe(ini_p ini, const model_t *m) {
	obs_get_cs(ini, m);
	obs_alias(ini, m);
	obs_get_ci(ini, m);
	obs_get_int(ini, m);
	obs_enum(ini, m);
	obs_calc(ini);
	obs_gen(ini);
	obs_roundtrip(ini, m);
}

/* ------------------------------------------------------------------ replay of a history */
static ini_p
build_real(const phase_t *ph, const hist_t *h, int upto) {
	ini_p ini = NULL;
	int i;
	if (0 != ini_create(&ini) || NULL == ini) {
		fprintf(stderr, "h_c17: ini_create failed\n");
		exit(3);
	}
	for (i = 0; i < upto; i ++)
		(void)real_apply(ini, &ph->ops[h->op[i]]);
	return (ini);
}

static void
build_model(const phase_t *ph, const hist_t *h, int upto, model_t *m) {
	int i;
	m->nsect = 0;
	m->npre = 0;
	for (i = 0; i < upto; i ++)
		m_apply(m, &ph->ops[h->op[i]]);
}

static int
op_enabled(const phase_t *ph, const model_t *m, const hist_t *h, const op_t *o) {
	(void)ph;
	if (o->only_first && 0 != h->len)
		return (0);
	if (OP_PARSE == o->kind)
		return (m_parse_enabled(m, &SNIPS[o->snip]));
	return (1);
}

/* One transition: real object after history h (h includes the new operation as its last element).
 * Returns the real object when it agrees with the reference (caller destroys), NULL if it diverged. */
static ini_p
do_transition(const phase_t *ph, const hist_t *h, const model_t *m_after, int own) {
	const op_t *o = &ph->ops[h->op[h->len - 1]];
	ini_p ini;
	char why[384];
	int rc, r;

	ini = build_real(ph, h, h->len - 1);
	rc = real_apply(ini, o);
	if (0 != rc) {
		if (own)
			vh_fail("returns-ok", "rc=%d", rc);
		ini_destroy(ini);
		return (NULL);
	}
	if (0 != record_invariant(ini, why, sizeof(why))) {
		if (own)
			vh_fail("record-invariant", "%s", why);
		ini_destroy(ini);
		return (NULL);
	}
	r = cmp_store_model(ini, m_after, why, sizeof(why));
	if (0 != r) {
		if (own)
			vh_fail((OP_PARSE == o->kind) ? "parsed-store-matches-reference" : "set-then-store-matches-reference", "%s", why);
		ini_destroy(ini);
		return (NULL);
	}
	if (own)
		vh_nontrivial();
	return (ini);
}

/* ------------------------------------------------------------------ BFS */
typedef struct bfs_stat_s {
	uint64_t states, transitions, pruned, disabled, revisits, closed_at;
	int	depth_reached, frontier_emptied;
	uint64_t per_depth[MAXD + 1];
	uint64_t max_lines, max_text;
} bfs_stat_t;

static void
bfs(const phase_t *ph, bfs_stat_t *st) {
	hist_t *front, *next;
	size_t nfront, nnext, cap_next, fi, nnew;
	int d, oi;
	model_t m, m2;
	h128_t hk;
	size_t clen;
	ini_p ini;

	memset(st, 0, sizeof(*st));
	hs_reset();
	cur_phase = ph;
	front = (hist_t *)calloc(1, sizeof(hist_t));
	nfront = 1;
	/* initial state */
	cur_hist.len = 0;
	ini = build_real(ph, &cur_hist, 0);
	build_model(ph, &cur_hist, 0, &m);
	hk = canon_hash(ini, &clen);
	hs_insert(hk);
	st->states = 1;
	st->per_depth[0] = 1;
	observe(ini, &m);
	ini_destroy(ini);

	for (d = 0; d < ph->depth && nfront > 0; d ++) {
		cap_next = 1024;
		nnext = 0;
		nnew = 0;
		next = (hist_t *)malloc(cap_next * sizeof(hist_t));
		for (fi = 0; fi < nfront; fi ++) {
			build_model(ph, &front[fi], front[fi].len, &m);
			for (oi = 0; oi < ph->nops; oi ++) {
				int own;
				if (!op_enabled(ph, &m, &front[fi], &ph->ops[oi])) {
					st->disabled ++;
					continue;
				}
				cur_hist = front[fi];
				cur_hist.op[cur_hist.len ++] = (uint8_t)oi;
				cur_what = "op";
				st->transitions ++;
				own = vh_begin(op_target(&ph->ops[oi]));
				if (own)
					vh_publish_desc();	/* crash / hang attribution */
				m2 = m;
				m_apply(&m2, &ph->ops[oi]);
				ini = do_transition(ph, &cur_hist, &m2, own);
				if (NULL == ini) {
					st->pruned ++;
					continue;
				}
				hk = canon_hash(ini, &clen);
				if (!hs_insert(hk)) {
					st->revisits ++;
					ini_destroy(ini);
					continue;
				}
				st->states ++;
				st->per_depth[d + 1] ++;
				if (ini->lines_count > st->max_lines)
					st->max_lines = ini->lines_count;
				observe(ini, &m2);
				ini_destroy(ini);
				nnew ++;
				if (d + 1 >= ph->depth)
					continue;	/* observed, but not expanded: the depth bound */
				if (nnext == cap_next) {
					cap_next *= 2;
					next = (hist_t *)realloc(next, cap_next * sizeof(hist_t));
				}
				next[nnext ++] = cur_hist;
			}
		}
		free(front);
		front = next;
		nfront = nnext;
		st->depth_reached = d + 1;
		if (0 == nnew) {
			st->frontier_emptied = 1;
			st->depth_reached = d;	/* this level produced no new state: the space is closed */
		}
	}
	free(front);
}

/* ------------------------------------------------------------------ phases */
static void
add_set_ops(phase_t *ph, int nsect, int nname, const char *vals, int zform_every) {
	int s, n, k = 0;
	const char *v;
	for (v = vals; *v; v ++) {		/* simplest first: the order of the value list */
		for (s = 0; s < nsect; s ++) {
			for (n = 0; n < nname; n ++) {
				op_t *o = &ph->ops[ph->nops ++];
				memset(o, 0, sizeof(*o));
				o->kind = OP_SET;
				o->sect = s; o->name = n; o->val = (*v - '0');
				o->zform = (zform_every && (k ++ % zform_every) == 0);
			}
		}
	}
}

static void
add_one_set(phase_t *ph, int sect, int name, int val) {
	op_t *o = &ph->ops[ph->nops ++];
	memset(o, 0, sizeof(*o));
	o->kind = OP_SET;
	o->sect = sect; o->name = name; o->val = val;
}

static void
add_parse_op(phase_t *ph, int snip, int only_first) {
	op_t *o = &ph->ops[ph->nops ++];
	memset(o, 0, sizeof(*o));
	o->kind = OP_PARSE;
	o->snip = snip;
	o->only_first = only_first;
}

static void
add_num_op(phase_t *ph, int kind, int sect, int name, int64_t v) {
	op_t *o = &ph->ops[ph->nops ++];
	memset(o, 0, sizeof(*o));
	o->kind = kind;
	o->sect = sect; o->name = name; o->ival = v;
}

static phase_t PH_CLOSED, PH_MIXED, PH_MIXED4, PH_DEEP;

static void
phases_init(int inplace) {
	size_t i;
	int s;

	str_prepare(SECTS, NELEM(SECTS));
	str_prepare(NAMES, NELEM(NAMES));
	str_prepare(VALS, NELEM(VALS));
	str_prepare(LSECTS, NELEM(LSECTS));
	str_prepare(LNAMES, NELEM(LNAMES));
	for (i = 0; i < NELEM(SNIPS); i ++) {
		SNIPS[i].len = strlen(SNIPS[i].text);
		SNIPS[i].exact = (uint8_t *)vh_dup(SNIPS[i].text, SNIPS[i].len);
	}

	/* value indexes: 0 "", 1 "1", 2 40 x 'v', 3 "a=b", 4 17 x 'w' */

	/* closed: ini_val_set only (plus an alternative initial store with blank lines and a comment),
	 * searched until no new state appears => every set sequence of ANY length over the alphabet.
	 * quick: 2 sections x 2 names (k, K) x {"1", 40 bytes}; thorough: x {"", "1", 40 bytes, 17 bytes}
	 * (configuration inplace: x {"", "1", 40 bytes}; its state space is 2.5 x larger per value) */
	PH_CLOSED.name = "closed";
	PH_CLOSED.depth = MAXD - 1;
	add_parse_op(&PH_CLOSED, 8, 1);
	add_set_ops(&PH_CLOSED, 2, 2, vh_thorough ? (inplace ? "012" : "0124") : "12", 5);

	/* deep: a smaller alphabet, more levels */
	PH_DEEP.name = "deep";
	PH_DEEP.depth = vh_thorough ? 6 : 5;
	add_parse_op(&PH_DEEP, 0, 0);
	add_parse_op(&PH_DEEP, 1, 0);
	add_parse_op(&PH_DEEP, 2, 0);
	add_parse_op(&PH_DEEP, 5, 0);
	add_parse_op(&PH_DEEP, 9, 0);
	add_parse_op(&PH_DEEP, 10, 0);
	add_parse_op(&PH_DEEP, 11, 0);
	add_parse_op(&PH_DEEP, 12, 0);
	add_set_ops(&PH_DEEP, 2, 2, "012", 3);
	add_num_op(&PH_DEEP, OP_SET_UINT, 0, 1, 100);
	add_one_set(&PH_DEEP, 3, 0, 1);	/* a section whose name contains ']' and '[' */
	add_num_op(&PH_DEEP, OP_SET_UINT, 0, 0, (int64_t)UINT64_MAX);	/* the ends of both integer types */
	add_num_op(&PH_DEEP, OP_SET_INT, 1, 1, INT64_MIN);

	/* mixed: everything, depth 3 */
	PH_MIXED.name = "mixed";
	PH_MIXED.depth = 3;
	for (s = 0; s < 8; s ++)
		add_parse_op(&PH_MIXED, s, 0);
	add_parse_op(&PH_MIXED, 9, 0);
	add_parse_op(&PH_MIXED, 10, 0);
	add_parse_op(&PH_MIXED, 11, 0);
	add_parse_op(&PH_MIXED, 12, 0);
	add_set_ops(&PH_MIXED, 3, 3, "01234", 7);
	add_num_op(&PH_MIXED, OP_SET_INT, 0, 0, -12);
	add_num_op(&PH_MIXED, OP_SET_UINT, 1, 2, 100);
	add_num_op(&PH_MIXED, OP_SET_INT, 1, 1, 0);
	add_num_op(&PH_MIXED, OP_SET_UINT, 0, 1, (int64_t)(UINT64_C(1) << 63));
	add_num_op(&PH_MIXED, OP_SET_INT, 1, 0, INT64_MAX);

	/* mixed4 (thorough, asan): depth 4 over the mixed alphabet without the 17-byte value and without the
	 * 62-blank-line snippet (46 operations): those two multiply the level-4 cost and stay covered at depth 3 */
	PH_MIXED4.name = "mixed4";
	PH_MIXED4.depth = 4;
	for (s = 0; s < 7; s ++)
		add_parse_op(&PH_MIXED4, s, 0);
	add_parse_op(&PH_MIXED4, 9, 0);
	add_set_ops(&PH_MIXED4, 3, 3, "0123", 7);
	add_num_op(&PH_MIXED4, OP_SET_INT, 0, 0, -12);
	add_num_op(&PH_MIXED4, OP_SET_UINT, 1, 2, 100);
	add_num_op(&PH_MIXED4, OP_SET_INT, 1, 1, 0);
	(void)inplace;
}

static phase_t *
phase_by_name(const char *n) {
	if (0 == strcmp(n, "closed")) return (&PH_CLOSED);
	if (0 == strcmp(n, "mixed")) return (&PH_MIXED);
	if (0 == strcmp(n, "mixed4")) return (&PH_MIXED4);
	if (0 == strcmp(n, "deep")) return (&PH_DEEP);
	return (NULL);
}

/* ------------------------------------------------------------------ single history (replay) */
static int
single(const char *phname, const char *hist) {
	phase_t *ph = phase_by_name(phname);
	hist_t h, full;
	model_t m, m2;
	ini_p ini = NULL;
	int i;
	const char *p = hist;

	if (NULL == ph) {
		fprintf(stderr, "h_c17: unknown phase %s\n", phname);
		return (2);
	}
	memset(&full, 0, sizeof(full));
	while (*p && *p != '-') {
		long v = strtol(p, (char **)&p, 10);
		if (v < 0 || v >= ph->nops || full.len >= MAXD) {
			fprintf(stderr, "h_c17: bad history\n");
			return (2);
		}
		full.op[full.len ++] = (uint8_t)v;
		if (*p == ',')
			p ++;
	}
	cur_phase = ph;
	vh_verbose = 1;
	/* every prefix transition is re-checked; observers run on the final state */
	memset(&h, 0, sizeof(h));
	build_model(ph, &h, 0, &m);
	for (i = 0; i < full.len; i ++) {
		h.op[h.len ++] = full.op[i];
		cur_hist = h;
		cur_what = "op";
		vh_begin(op_target(&ph->ops[full.op[i]]));
		m2 = m;
		m_apply(&m2, &ph->ops[full.op[i]]);
		ini = do_transition(ph, &cur_hist, &m2, 1);
		if (NULL == ini) {
			printf("NOTE\tsingle: diverged at operation %d\n", i);
			return (vh_finish());
		}
		m = m2;
		if (i + 1 < full.len)
			ini_destroy(ini);
	}
	if (NULL == ini)
		ini = build_real(ph, &h, 0);
	cur_hist = h;
	observe(ini, &m);
	ini_destroy(ini);
	return (vh_finish());
}

static void
print_stat(const char *cfg, const phase_t *ph, const bfs_stat_t *st) {
	int d;
	printf("NOTE\tbfs cfg=%s phase=%s ops=%d depth_bound=%d states=%llu transitions=%llu revisits=%llu diverged=%llu "
	    "disabled=%llu depth_reached=%d frontier_emptied=%d max_lines=%llu per_depth=",
	    cfg, ph->name, ph->nops, ph->depth, (unsigned long long)st->states, (unsigned long long)st->transitions,
	    (unsigned long long)st->revisits, (unsigned long long)st->pruned, (unsigned long long)st->disabled,
	    st->depth_reached, st->frontier_emptied, (unsigned long long)st->max_lines);
	for (d = 0; d <= st->depth_reached + 1 && d <= MAXD; d ++) {
		if (d > 0 && 0 == st->per_depth[d])
			break;
		printf("%s%llu", d ? "," : "", (unsigned long long)st->per_depth[d]);
	}
	printf("\n");
}

int
main(int argc, char **argv) {
	const char *cfg = "asan", *single_phase = NULL, *single_hist = NULL, *only_phase = NULL;
	bfs_stat_t st;
	int i;

	vh_init(argc, argv);
	for (i = 1; i < argc; i ++) {
		if (0 == strcmp(argv[i], "--cfg") && i + 1 < argc)
			cfg = argv[++ i];
		else if (0 == strcmp(argv[i], "--single") && i + 2 < argc) {
			single_phase = argv[i + 1];
			single_hist = argv[i + 2];
			i += 2;
		} else if (0 == strcmp(argv[i], "--phases") && i + 1 < argc)	/* comma list */
			only_phase = argv[++ i];
	}
	phases_init(0 == strcmp(cfg, "inplace"));
	vh_set_describer(describe);
	if (NULL != single_phase)
		return (single(single_phase, single_hist));

	{
		phase_t *all[] = { &PH_CLOSED, &PH_DEEP, &PH_MIXED, &PH_MIXED4 };
		size_t k;
		for (k = 0; k < NELEM(all); k ++) {
			char tok[32];
			snprintf(tok, sizeof(tok), ",%s,", all[k]->name);
			if (NULL == only_phase) {
				if (all[k] == &PH_MIXED4)
					continue;	/* only on request */
			} else {
				char lst[128];
				snprintf(lst, sizeof(lst), ",%s,", only_phase);
				if (NULL == strstr(lst, tok))
					continue;
			}
			bfs(all[k], &st);
			if (0 == vh_shard)
				print_stat(cfg, all[k], &st);
		}
	}
	return (vh_finish());
}
