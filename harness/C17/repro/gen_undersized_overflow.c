/* C17 / DESIGN.md 11 #5: ini_buf_gen() compares every line with the WHOLE buffer size instead of the
 * space that is left, so a buffer that is too small for the text but large enough for each single
 * line is overrun and the call even reports success.
 *
 * build + run (exit status 1 and a message = defect present; 0 = fixed):
 *   gcc -g -O1 -fsanitize=address -D_GNU_SOURCE -DLINUX -D__USE_GNU=1 -DHAVE_ACCEPT4 -DHAVE_EXPLICIT_BZERO -DHAVE_MEMMEM -DHAVE_MEMRCHR -DHAVE_PIPE2 \
 *       -DHAVE_POSIX_SPAWN_FILE_ACTIONS_ADDCLOSEFROM_NP -DHAVE_PTHREAD_SETNAME_NP -DHAVE_REALLOCARRAY -DHAVE_SOCK_CLOEXEC \
 *       -DHAVE_SOCK_NONBLOCK -DHAVE_STRNCASECMP -w -I/repo/include \
 *       /verif/harness/C17/repro/gen_undersized_overflow.c /repo/src/utils/ini.c /repo/src/utils/buf_str.c \
 *       -o /var/tmp/C17-scratch/gen_ovf && /var/tmp/C17-scratch/gen_ovf
 *   (with ASan: heap-buffer-overflow WRITE in ini_buf_gen; without -fsanitize the canary check below fires)
 */
#include <stdio.h>
#include <stdlib.h>
#include <string.h>
#include <stdint.h>
#include "utils/ini.h"

int
main(void) {
	static const char text[] = "[A]\nk=1\n";	/* generates "[A]\r\nk=1\r\n" = 10 bytes */
	ini_p ini = NULL;
	size_t need = 0, wrote = 0, cap = 7, i;
	uint8_t *arena, *buf;
	int rc, bad = 0;

	setvbuf(stdout, NULL, _IONBF, 0);
	if (0 != ini_create(&ini) || 0 != ini_buf_parse(ini, (const uint8_t *)text, sizeof(text) - 1))
		return (2);
	ini_buf_calc_size(ini, &need);
	printf("calc_size = %zu, capacity offered = %zu\n", need, cap);

	/* canary variant first (works without ASan): 7 usable bytes inside a 64 byte block */
	arena = malloc(64);
	memset(arena, 0xC5, 64);
	buf = arena;
	rc = ini_buf_gen(ini, buf, cap, &wrote);
	printf("ini_buf_gen(cap=%zu) rc=%d, reported %zu bytes\n", cap, rc, wrote);
	if (0 == rc) {
		printf("DEFECT: generation into a smaller buffer did not fail\n");
		bad = 1;
	}
	for (i = cap; i < 64; i ++) {
		if (arena[i] != 0xC5) {
			printf("DEFECT: byte %zu behind the %zu byte capacity was overwritten (0x%02x)\n", i, cap, arena[i]);
			bad = 1;
			break;
		}
	}
	free(arena);

	/* exact-size heap buffer: ASan reports heap-buffer-overflow here */
	buf = malloc(cap);
	rc = ini_buf_gen(ini, buf, cap, &wrote);
	free(buf);
	ini_destroy(ini);
	return (bad);
}
