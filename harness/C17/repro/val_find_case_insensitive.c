/* C17 / DESIGN.md 11 #6: ini_sect_val_find() (the case-SENSITIVE finder used by ini_val_get,
 * ini_val_get_int/_uint and ini_val_set*) compares names with mem_cmpin(), i.e. ignoring case -
 * its body is identical to ini_sect_val_findi().  Section names are compared case-sensitively
 * (ini_sect_find uses mem_cmpn), value names are not.
 *
 * build + run (exit status 1 and messages = defect present; 0 = fixed):
 *   gcc -g -O1 -D_GNU_SOURCE -DLINUX -D__USE_GNU=1 -DHAVE_ACCEPT4 -DHAVE_EXPLICIT_BZERO -DHAVE_MEMMEM -DHAVE_MEMRCHR -DHAVE_PIPE2 \
 *       -DHAVE_POSIX_SPAWN_FILE_ACTIONS_ADDCLOSEFROM_NP -DHAVE_PTHREAD_SETNAME_NP -DHAVE_REALLOCARRAY -DHAVE_SOCK_CLOEXEC \
 *       -DHAVE_SOCK_NONBLOCK -DHAVE_STRNCASECMP -w \
 *       -I/repo/include /verif/harness/C17/repro/val_find_case_insensitive.c \
 *       /repo/src/utils/ini.c /repo/src/utils/buf_str.c -o /var/tmp/C17-scratch/val_case && /var/tmp/C17-scratch/val_case
 */
#include <stdio.h>
#include <stdlib.h>
#include <string.h>
#include <stdint.h>
#include "utils/ini.h"

#define U(s) ((const uint8_t *)(s))

int
main(void) {
	ini_p ini = NULL;
	const uint8_t *val = NULL;
	size_t vsz = 0, soff, voff, n;
	int rc, bad = 0;

	setvbuf(stdout, NULL, _IONBF, 0);
	if (0 != ini_create(&ini))
		return (2);
	ini_val_set(ini, U("A"), 1, U("k"), 1, U("1"), 1);

	/* 1. lookup with the other-case spelling must not find anything */
	rc = ini_val_get(ini, U("A"), 1, U("K"), 1, &val, &vsz);
	printf("ini_val_get(A, K) rc=%d%s\n", rc, rc ? "" : "  <- found although only 'k' exists");
	if (0 == rc) {
		printf("DEFECT: case-sensitive lookup matched a name of different case ('%.*s')\n", (int)vsz, val);
		bad = 1;
	}
	rc = ini_val_get(ini, U("a"), 1, U("k"), 1, &val, &vsz);
	printf("ini_val_get(a, k) rc=%d (sections ARE compared case-sensitively)\n", rc);

	/* 2. setting K must add a second entry, not overwrite k */
	ini_val_set(ini, U("A"), 1, U("K"), 1, U("2"), 1);
	rc = ini_val_get(ini, U("A"), 1, U("k"), 1, &val, &vsz);
	printf("after ini_val_set(A, K, 2): ini_val_get(A, k) = '%.*s'\n", (int)vsz, val);
	if (0 != rc || vsz != 1 || val[0] != '1') {
		printf("DEFECT: setting 'K' replaced the value of 'k'\n");
		bad = 1;
	}
	soff = ini_sect_find(ini, U("A"), 1);
	for (voff = 0, n = 0; 0 == ini_sect_val_enum(ini, soff, &voff, NULL, NULL, NULL, NULL); voff ++)
		n ++;
	printf("section A enumerates %zu entries (2 expected)\n", n);
	if (2 != n)
		bad = 1;
	ini_destroy(ini);
	return (bad);
}
