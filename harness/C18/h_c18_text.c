/* C18 (text part) - socket-address text agrees with the conventional forms.
 *
 * Small-scope exhaustive enumeration of
 *   (a) addresses x ports x EVERY output capacity through sa_addr_to_str / sa_addr_port_to_str,
 *       text compared with a reference written here (snprintf dotted quad, RFC 5952 formatter),
 *       and parsed back with the library's own parser;
 *   (b) ALL strings over a small alphabet (and "core + decoration" strings) through
 *       sa_addr_from_str / sa_addr_port_from_str / str_net_to_ss, judged against a recognizer of
 *       the documented spellings built on libc inet_pton.
 * The references never call liblcb.  Sockaddr objects are built and read field by field here. */
#include <errno.h>
#include <inttypes.h>
#include <stddef.h>
#include <sys/socket.h>
#include <sys/un.h>
#include <netinet/in.h>
#include <arpa/inet.h>
#include "vh.h"
#include "net/socket_address.h"
#include "net/utils.h"

/* ./check C18 --replay: C18_ONLY_DESC=<case description> runs only the case(s) with exactly that description
 * (robust against the tier the replay file was recorded in; indices differ between tiers) */
static const char *only_desc; static uint64_t only_matched;
static int
want_case(void) {
	if (NULL == only_desc) return (1);
	if (0 != strcmp(vh_get_desc(), only_desc)) return (0);
	only_matched ++;
	return (1);
}

/* ------------------------------------------------------------------ harness-side address */
typedef struct xaddr_s {
	int	 fam;		/* AF_INET / AF_INET6 / AF_UNIX */
	uint8_t	 a[16];		/* network order */
	uint16_t port;		/* host order */
	unsigned pref;		/* only for str_net_to_ss */
	char	 path[112];
} xaddr_t;

#define SUN_PATH_MAX (sizeof(((struct sockaddr_un *)0)->sun_path))	/* 108 */

/* exact-size heap sockaddr, every field written by hand */
static void *
mk_sa(const xaddr_t *x) {
	if (x->fam == AF_INET) {
		struct sockaddr_in *s = (struct sockaddr_in *)malloc(sizeof(*s));
		memset(s, 0, sizeof(*s));
		s->sin_family = AF_INET;
		s->sin_port = htons(x->port);
		memcpy(&s->sin_addr, x->a, 4);
		return (s);
	} else if (x->fam == AF_INET6) {
		struct sockaddr_in6 *s = (struct sockaddr_in6 *)malloc(sizeof(*s));
		memset(s, 0, sizeof(*s));
		s->sin6_family = AF_INET6;
		s->sin6_port = htons(x->port);
		memcpy(&s->sin6_addr, x->a, 16);
		return (s);
	} else {
		struct sockaddr_un *s = (struct sockaddr_un *)malloc(sizeof(*s));
		memset(s, 0, sizeof(*s));
		s->sun_family = AF_UNIX;
		strncpy(s->sun_path, x->path, SUN_PATH_MAX - 1);
		return (s);
	}
}

static void
rd_sa(const struct sockaddr_storage *ss, xaddr_t *x) {
	memset(x, 0, sizeof(*x));
	x->fam = ss->ss_family;
	if (x->fam == AF_INET) {
		const struct sockaddr_in *s = (const struct sockaddr_in *)ss;
		memcpy(x->a, &s->sin_addr, 4);
		x->port = ntohs(s->sin_port);
	} else if (x->fam == AF_INET6) {
		const struct sockaddr_in6 *s = (const struct sockaddr_in6 *)ss;
		memcpy(x->a, &s->sin6_addr, 16);
		x->port = ntohs(s->sin6_port);
	} else if (x->fam == AF_UNIX) {
		const struct sockaddr_un *s = (const struct sockaddr_un *)ss;
		size_t n = strnlen(s->sun_path, SUN_PATH_MAX);
		memcpy(x->path, s->sun_path, n);
	}
}

static int
x_same(const xaddr_t *p, const xaddr_t *q) { /* family, address, port */
	if (p->fam != q->fam) return (0);
	if (p->fam == AF_UNIX) return (0 == strcmp(p->path, q->path));
	if (p->port != q->port) return (0);
	return (0 == memcmp(p->a, q->a, p->fam == AF_INET ? 4 : 16));
}

/* ------------------------------------------------------------------ reference text */
static size_t
ref_v4(const uint8_t *a, char *o) {
	return ((size_t)sprintf(o, "%u.%u.%u.%u", a[0], a[1], a[2], a[3]));
}

/* RFC 5952: lower case, no leading zeros, the longest run of >= 2 zero groups (first on a tie) is "::" */
static size_t
ref_v6_hex(const uint8_t *a, char *o) {
	unsigned w[8]; int i, j, best = -1, bl = 0; size_t k = 0;
	for (i = 0; i < 8; i ++) w[i] = ((unsigned)a[2 * i] << 8) | a[2 * i + 1];
	for (i = 0; i < 8; ) {
		if (w[i] != 0) { i ++; continue; }
		for (j = i; j < 8 && w[j] == 0; j ++) ;
		if (j - i > bl) { best = i; bl = j - i; }
		i = j;
	}
	if (bl < 2) best = -1;
	for (i = 0; i < 8; ) {
		if (i == best) { o[k ++] = ':'; o[k ++] = ':'; i += bl; continue; }
		if (k > 0 && o[k - 1] != ':') o[k ++] = ':';
		k += (size_t)sprintf(o + k, "%x", w[i]);
		i ++;
	}
	o[k] = 0;
	return (k);
}

/* RFC 5952 section 5: mixed notation for the well-known IPv4-embedding prefixes ::ffff:0:0/96 and
 * (deprecated) ::/96.  Not offered for :: and ::1.  Returns 0 when not applicable. */
static size_t
ref_v6_mixed(const uint8_t *a, char *o) {
	int i; size_t k;
	for (i = 0; i < 10; i ++) if (a[i]) return (0);
	if (a[10] == 0xff && a[11] == 0xff) k = (size_t)sprintf(o, "::ffff:");
	else if (a[10] == 0 && a[11] == 0) {
		if (a[12] == 0 && a[13] == 0 && a[14] == 0 && a[15] <= 1) return (0);
		k = (size_t)sprintf(o, "::");
	} else return (0);
	return (k + ref_v4(a + 12, o + k));
}

#define MAXREF 8
typedef struct refs_s { int n; char t[MAXREF][128]; size_t lmax; } refs_t;

static void
refs_add(refs_t *r, const char *fmt, ...) {
	va_list ap; size_t l;
	va_start(ap, fmt); l = (size_t)vsnprintf(r->t[r->n], sizeof(r->t[0]), fmt, ap); va_end(ap);
	if (l > r->lmax) r->lmax = l;
	r->n ++;
}

/* every spelling the property's "conventional form" admits for this address (+port) */
static void
refs_build(refs_t *r, const xaddr_t *x, int with_port) {
	char a1[64], a2[64]; size_t l2 = 0;
	r->n = 0; r->lmax = 0;
	if (x->fam == AF_UNIX) { refs_add(r, "%s", x->path); return; }
	if (x->fam == AF_INET) {
		ref_v4(x->a, a1);
		if (!with_port) { refs_add(r, "%s", a1); return; }
		if (x->port == 0) refs_add(r, "%s", a1);	/* no port to show */
		refs_add(r, "%s:%u", a1, x->port);
		return;
	}
	ref_v6_hex(x->a, a1);
	l2 = ref_v6_mixed(x->a, a2);
	if (!with_port) { refs_add(r, "%s", a1); if (l2) refs_add(r, "%s", a2); return; }
	if (x->port == 0) {
		refs_add(r, "[%s]", a1); refs_add(r, "%s", a1);
		if (l2) { refs_add(r, "[%s]", a2); refs_add(r, "%s", a2); }
	}
	refs_add(r, "[%s]:%u", a1, x->port);
	if (l2) refs_add(r, "[%s]:%u", a2, x->port);
}

static int
refs_match(const refs_t *r, const char *s, size_t n) {
	int i;
	for (i = 0; i < r->n; i ++)
		if (strlen(r->t[i]) == n && 0 == memcmp(r->t[i], s, n)) return (1);
	return (0);
}

/* ------------------------------------------------------------------ (a) formatting, every capacity */
static xaddr_t cur_x; static int cur_with_port;
static void
desc_fmt(char *b, size_t n) {
	char t[64];
	if (cur_x.fam == AF_UNIX) { snprintf(b, n, "unix pathlen=%zu path=%.24s%s", strlen(cur_x.path), cur_x.path, strlen(cur_x.path) > 24 ? "..." : ""); return; }
	if (cur_x.fam == AF_INET) ref_v4(cur_x.a, t); else ref_v6_hex(cur_x.a, t);
	snprintf(b, n, "%s addr=%s port=%u", cur_x.fam == AF_INET ? "inet" : "inet6", t, cur_x.port);
}

typedef int (*fmt_fn)(const sockaddr_storage_t *, char *, size_t, size_t *);
#define SENT ((size_t)-77)

/* one call with capacity cap; returns rc; on success copies the text to got */
static int
fmt_call(fmt_fn fn, const void *sa, size_t cap, const refs_t *r, char *got, size_t *gotlen, size_t *ret_out) {
	vh_guard_t g; char *buf; size_t ret = SENT; int rc;
	buf = (char *)vh_guard_alloc(&g, cap);
	rc = fn((const sockaddr_storage_t *)sa, buf, cap, &ret);
	if (vh_guard_check(&g)) vh_fail("write-outside-capacity", "cap=%zu: bytes outside the %zu-byte buffer were modified", cap, cap);
	if (rc == 0) {
		if (ret == SENT || ret >= cap) vh_fail("success-size", "cap=%zu rc=0 but reported length %zu does not fit", cap, ret);
		else if (buf[ret] != 0 || strnlen(buf, cap) != ret) vh_fail("success-termination", "cap=%zu reported length %zu, NUL at %zu", cap, ret, strnlen(buf, cap));
		else if (!refs_match(r, buf, ret)) vh_fail("text-not-conventional", "cap=%zu got '%.*s' want '%s'", cap, (int)ret, buf, r->t[r->n - 1]);
		else { memcpy(got, buf, ret); got[ret] = 0; *gotlen = ret; }
	}
	if (ret_out) *ret_out = ret;
	vh_guard_free(&g);
	return (rc);
}

static uint64_t v6_port_seq;	/* position in the enumeration of IPv6+port cases (same in every shard) */
static void
fmt_case(int with_port, const xaddr_t *x) {
	const char *tgt = with_port ? "sa_addr_port_to_str" : "sa_addr_to_str";
	fmt_fn fn = with_port ? sa_addr_port_to_str : sa_addr_to_str;
	refs_t r; void *sa; size_t cap, top, gotlen = SENT, ret, first_ok = SENT; char got[160]; int rc, pass;

	/* Capacities 0..2 cannot hold any bracketed IPv6 text, so what happens there cannot depend on the
	 * address: they are tried on every 97th (thorough: 1009th) IPv6+port case of the enumeration only.
	 * (Reason: a defect at such a capacity raises several ASan reports per case, ~1 ms each, and vh.h
	 * stops a shard after 20000 reports.)  All other capacities are tried on every case. */
	int tiny_caps = 1;
	if (with_port && x->fam == AF_INET6) tiny_caps = (0 == (v6_port_seq ++ % (vh_thorough ? 1009u : 97u)));
	if (!vh_begin(tgt)) return;
	cur_x = *x; cur_with_port = with_port;
	if (!want_case()) return;
	vh_publish_desc();
	refs_build(&r, x, with_port);
	sa = mk_sa(x);
	top = r.lmax + 10;
	for (pass = 0; pass < 2; pass ++) {
		/* pass 0: every capacity 0 .. longest admissible text + 10; pass 1: the documented buffer STR_ADDR_LEN */
		size_t lo = pass ? STR_ADDR_LEN : 0, hi = pass ? STR_ADDR_LEN : top;
		if (pass && STR_ADDR_LEN <= top) break;
		for (cap = lo; cap <= hi; cap ++) {
			if (cap < 3 && !tiny_caps) continue;
			rc = fmt_call(fn, sa, cap, &r, got, &gotlen, &ret);
			if (rc == 0) { if (first_ok == SENT) first_ok = cap; }
			else {
				if (first_ok != SENT) vh_fail("capacity-not-monotone", "succeeded with cap=%zu but rc=%d with cap=%zu", first_ok, rc, cap);
				if (cap == STR_ADDR_LEN) vh_fail("documented-buffer-insufficient", "rc=%d with cap=STR_ADDR_LEN=%zu", rc, (size_t)STR_ADDR_LEN);
				/* a size reported together with ENOSPC must be enough (one spare byte granted for the NUL) */
				if (rc == ENOSPC && ret != SENT && ret >= cap) {
					size_t r2 = SENT, gl2 = SENT; char g2[160];
					if (ret > 4096) vh_fail("enospc-size-report", "cap=%zu reported need %zu", cap, ret);
					else if (0 != fmt_call(fn, sa, ret + 1, &r, g2, &gl2, &r2)) vh_fail("enospc-size-report", "cap=%zu: ENOSPC reported %zu, but capacity %zu fails too", cap, ret, ret + 1);
				}
			}
		}
	}
	/* parse back with the library's parser for this form */
	if (gotlen != SENT) {
		struct sockaddr_storage *out = (struct sockaddr_storage *)malloc(sizeof(*out));
		char *in = (char *)vh_dup(got, gotlen);
		xaddr_t back, want = *x;
		memset(out, 0xA5, sizeof(*out));
		if (!with_port) want.port = 0;
		rc = with_port ? sa_addr_port_from_str(out, in, gotlen) : sa_addr_from_str(out, in, gotlen);
		if (rc != 0) vh_fail("roundtrip-rejected", "own output '%s' is rejected by the parser, rc=%d", got, rc);
		else {
			rd_sa(out, &back);
			if (!x_same(&back, &want)) vh_fail("roundtrip-differs", "own output '%s' parses to family %d port %u", got, back.fam, back.port);
			else vh_nontrivial();
		}
		vh_outcome(got, gotlen);
		free(in); free(out);
	}
	free(sa);
}

static const unsigned OCT[9] = { 0, 1, 9, 10, 99, 100, 199, 200, 255 };
static const unsigned PORTS[11] = { 0, 1, 9, 10, 99, 100, 999, 1000, 9999, 10000, 65535 };

static void
fmt_with_ports(const xaddr_t *x0) {
	xaddr_t x = *x0; int p;
	x.port = 4660; fmt_case(0, &x);	/* the port must not leak into the address-only form */
	for (p = 0; p < 11; p ++) { x.port = (uint16_t)PORTS[p]; fmt_case(1, &x); }
}

static void
fmt_all(void) {
	xaddr_t x; unsigned i, k; size_t n; int v;
	static const unsigned G4[4] = { 0, 1, 0xffff, 0x0db8 };
	static const unsigned G5[5] = { 0, 1, 0x10, 0x0db8, 0xffff };

	vh_set_describer(desc_fmt);
	/* IPv4 shape grid: 9^4 addresses, every digit-count combination */
	memset(&x, 0, sizeof(x)); x.fam = AF_INET;
	for (i = 0; i < 6561; i ++) {
		x.a[0] = (uint8_t)OCT[i / 729]; x.a[1] = (uint8_t)OCT[(i / 81) % 9]; x.a[2] = (uint8_t)OCT[(i / 9) % 9]; x.a[3] = (uint8_t)OCT[i % 9];
		fmt_with_ports(&x);
	}
	/* UNIX paths: "/a", "./a" and every length up to the longest that fits sun_path */
	for (v = 0; v < 2; v ++) {
		for (n = (size_t)(v ? 3 : 1); n <= SUN_PATH_MAX - 1; n ++) {
			memset(&x, 0, sizeof(x)); x.fam = AF_UNIX;
			memset(x.path, 'a', n);
			if (v) { x.path[0] = '.'; x.path[1] = '/'; } else x.path[0] = '/';
			if (n > 4) x.path[n / 2] = '/';
			fmt_case(0, &x); fmt_case(1, &x);
		}
	}
	/* thorough: all 65536 ports on addresses of every IPv4 text length */
	if (vh_thorough) {
		static const char *A4[9] = { "0.0.0.0", "1.1.1.10", "1.1.10.10", "1.10.10.10", "10.10.10.10", "10.10.10.100", "10.10.100.100", "10.100.100.100", "255.255.255.255" };
		for (k = 0; k < 9; k ++) {
			memset(&x, 0, sizeof(x)); x.fam = AF_INET; inet_pton(AF_INET, A4[k], x.a);
			for (i = 0; i < 65536; i ++) { x.port = (uint16_t)i; fmt_case(1, &x); }
		}
	}
	/* IPv6: all 4^8 group vectors (contains every zero-run shape: start x length x second run);
	 * thorough: 5^8 with a two-digit group as well */
	memset(&x, 0, sizeof(x)); x.fam = AF_INET6;
	if (!vh_thorough) {
		for (i = 0; i < 65536; i ++) {
			for (k = 0; k < 8; k ++) { unsigned g = G4[(i >> (2 * k)) & 3]; x.a[2 * k] = (uint8_t)(g >> 8); x.a[2 * k + 1] = (uint8_t)g; }
			fmt_with_ports(&x);
		}
	} else {
		for (i = 0; i < 390625; i ++) {
			unsigned t = i;
			for (k = 0; k < 8; k ++) { unsigned g = G5[t % 5]; t /= 5; x.a[2 * k] = (uint8_t)(g >> 8); x.a[2 * k + 1] = (uint8_t)g; }
			fmt_with_ports(&x);
		}
	}
	/* IPv4-compatible and IPv4-mapped: ::a.b.c.d and ::ffff:a.b.c.d over the octet grid */
	for (v = 0; v < 2; v ++) {
		memset(&x, 0, sizeof(x)); x.fam = AF_INET6;
		x.a[10] = x.a[11] = (uint8_t)(v ? 0xff : 0);
		for (i = 0; i < 6561; i ++) {
			x.a[12] = (uint8_t)OCT[i / 729]; x.a[13] = (uint8_t)OCT[(i / 81) % 9]; x.a[14] = (uint8_t)OCT[(i / 9) % 9]; x.a[15] = (uint8_t)OCT[i % 9];
			fmt_with_ports(&x);
		}
	}
	/* thorough: all 65536 ports on a few IPv6 addresses */
	if (vh_thorough) {
		static const char *A6[7] = { "::", "::1", "1::", "db8::1", "1:2:3:4:5:6:7:8", "2001:db8:ffff:ffff:ffff:ffff:ffff:ffff", "::ffff:255.255.255.255" };
		for (k = 0; k < 7; k ++) {
			memset(&x, 0, sizeof(x)); x.fam = AF_INET6; inet_pton(AF_INET6, A6[k], x.a);
			for (i = 0; i < 65536; i ++) { x.port = (uint16_t)i; fmt_case(1, &x); }
		}
	}
	vh_set_describer(NULL);
}

/* ------------------------------------------------------------------ (b) parsers */
enum { P_ADDR = 0, P_ADDRPORT = 1, P_NET = 2 };
static const char *PNAME[3] = { "sa_addr_from_str", "sa_addr_port_from_str", "str_net_to_ss" };
static uint64_t lenient_accept[3], doc_seen[3], pref_out_of_range_accepted;

static int
is_v4(const char *s, size_t n, uint8_t *out) {
	char t[128];
	if (n == 0 || n >= sizeof(t) || memchr(s, 0, n)) return (0);
	memcpy(t, s, n); t[n] = 0;
	return (1 == inet_pton(AF_INET, t, out));
}
static int
is_v6(const char *s, size_t n, uint8_t *out) {
	char t[128];
	if (n == 0 || n >= sizeof(t) || memchr(s, 0, n)) return (0);
	memcpy(t, s, n); t[n] = 0;
	return (1 == inet_pton(AF_INET6, t, out));
}
/* canonical decimal: "0" or [1-9][0-9]*, at most 5 digits, value <= max */
static int
canon_num(const char *s, size_t n, unsigned max, unsigned *v) {
	size_t i; unsigned r = 0;
	if (n == 0 || n > 5) return (0);
	if (s[0] == '0' && n > 1) return (0);
	for (i = 0; i < n; i ++) { if (s[i] < '0' || s[i] > '9') return (0); r = r * 10 + (unsigned)(s[i] - '0'); }
	if (r > max) return (0);
	*v = r;
	return (1);
}
static int
is_upath(const char *s, size_t n) {
	size_t i;
	if (n == 0 || n > SUN_PATH_MAX - 1) return (0);
	if (!(s[0] == '/' || (n >= 2 && s[0] == '.' && s[1] == '/'))) return (0);
	for (i = 0; i < n; i ++) {
		char c = s[i];
		if (!((c >= 'a' && c <= 'z') || (c >= 'A' && c <= 'Z') || (c >= '0' && c <= '9') || c == '/' || c == '.' || c == '_' || c == '-')) return (0);
	}
	return (1);
}

/* address spellings the header comments show: 127.0.0.1 / [2001:4f8:fff6::28] / 2001:4f8:fff6::28
 * (bare6 = whether the unbracketed IPv6 form counts) */
static int
doc_ip(const char *s, size_t n, int bare6, xaddr_t *w) {
	if (is_v4(s, n, w->a)) { w->fam = AF_INET; return (1); }
	if (bare6 && is_v6(s, n, w->a)) { w->fam = AF_INET6; return (1); }
	if (n > 2 && s[0] == '[' && s[n - 1] == ']' && is_v6(s + 1, n - 2, w->a)) { w->fam = AF_INET6; return (1); }
	return (0);
}

/* Is s a documented spelling for parser p?  If so *w is what must come out. */
static int
documented(int p, const char *s, size_t n, xaddr_t *w) {
	size_t i; unsigned v;
	memset(w, 0, sizeof(*w));
	if (n == 0) return (0);
	switch (p) {
	case P_ADDR:
		if (doc_ip(s, n, 1, w)) return (1);
		if (is_upath(s, n)) { w->fam = AF_UNIX; memcpy(w->path, s, n); return (1); }
		return (0);
	case P_ADDRPORT:
		/* 127.0.0.1:1234, [v6]:1234, and the formatter's own port-less output 127.0.0.1 / [v6];
		 * bare v6 (+port) is "wrong, but work" in the comment: ambiguous, not judged */
		if (doc_ip(s, n, 0, w)) return (1);
		if (is_upath(s, n)) { w->fam = AF_UNIX; memcpy(w->path, s, n); return (1); }
		for (i = n; i > 0 && s[i - 1] != ':'; i --) ;
		if (i < 2) return (0);	/* no ':' or nothing before it */
		if (!canon_num(s + i, n - i, 65535, &v)) return (0);
		if (!doc_ip(s, i - 1, 0, w)) return (0);
		w->port = (uint16_t)v;
		return (1);
	case P_NET:
		/* 127.0.0.0/8, [2001:4f8:fff6::]/32, 2001:4f8:fff6::28/32, and without "/len" (= host prefix) */
		if (doc_ip(s, n, 1, w)) { w->pref = (w->fam == AF_INET) ? 32 : 128; return (1); }
		for (i = n; i > 0 && s[i - 1] != '/'; i --) ;
		if (i < 2) return (0);
		if (!doc_ip(s, i - 1, 1, w)) return (0);
		if (!canon_num(s + i, n - i, (w->fam == AF_INET) ? 32 : 128, &v)) return (0);
		w->pref = v;
		return (1);
	}
	return (0);
}

/* An accepted input outside the documented set is not judged, except: the address that came out
 * must be what inet_pton gives for SOME substring of the input (resp. the path must occur in it). */
static int
justified(const xaddr_t *got, const char *s, size_t n) {
	size_t i, j, pl; uint8_t t[16];
	if (got->fam == AF_INET || got->fam == AF_INET6) {
		for (i = 0; i < n; i ++) for (j = i + 1; j <= n; j ++) {
			if (got->fam == AF_INET ? is_v4(s + i, j - i, t) : is_v6(s + i, j - i, t))
				if (0 == memcmp(t, got->a, got->fam == AF_INET ? 4 : 16)) return (1);
		}
		return (0);
	}
	if (got->fam == AF_UNIX) {
		pl = strlen(got->path);
		if (pl == 0 || pl > n || !(got->path[0] == '/' || got->path[0] == '.')) return (0);
		for (i = 0; i + pl <= n; i ++) if (0 == memcmp(s + i, got->path, pl)) return (1);
		return (0);
	}
	return (0);
}

static const char *cur_s; static size_t cur_n;
static void
desc_str(char *b, size_t n) {
	size_t i, k = 0;
	k += (size_t)snprintf(b + k, n - k, "len=%zu in='", cur_n);
	for (i = 0; i < cur_n && k + 8 < n; i ++) {
		unsigned char c = (unsigned char)cur_s[i];
		if (c >= 0x20 && c < 0x7f && c != '\\' && c != '\'') b[k ++] = (char)c;
		else k += (size_t)snprintf(b + k, n - k, "\\x%02x", c);
		if (i == 40 && cur_n > 60) { k += (size_t)snprintf(b + k, n - k, "..."); i = cur_n - 12; }
	}
	snprintf(b + k, n - k, "'");
}

#define INMAX 160
static char *inbuf[INMAX + 1];		/* one exact-size heap buffer per input length, reused */
static struct sockaddr_storage *outss;	/* exact-size heap output object */

static void
judge(int p, const char *s, size_t n) {
	xaddr_t want, got; int rc, doc; uint16_t pref = 0xBEEF; char *in;

	if (!vh_begin(PNAME[p])) return;
	cur_s = s; cur_n = n;
	if (n > INMAX || !want_case()) return;
	if (NULL == inbuf[n]) inbuf[n] = (char *)malloc(n);
	in = inbuf[n];
	memcpy(in, s, n);
	memset(outss, 0xA5, sizeof(*outss));
	switch (p) {
	case P_ADDR:	 rc = sa_addr_from_str(outss, in, n); break;
	case P_ADDRPORT: rc = sa_addr_port_from_str(outss, in, n); break;
	default:	 rc = str_net_to_ss(in, n, outss, &pref); break;
	}
	doc = documented(p, s, n, &want);
	if (rc == 0) { rd_sa(outss, &got); got.pref = pref; }
	if (doc) {
		doc_seen[p] ++;
		if (rc != 0) vh_fail("documented-spelling-rejected", "rc=%d", rc);
		else if (!x_same(&got, &want)) vh_fail("documented-spelling-wrong-result", "family %d port %u (want family %d port %u)", got.fam, got.port, want.fam, want.port);
		else if (p == P_NET && got.pref != want.pref) vh_fail("documented-spelling-wrong-result", "prefix length %u, want %u", got.pref, want.pref);
		else vh_nontrivial();
	} else if (rc == 0) {
		lenient_accept[p] ++;
		if (!justified(&got, s, n)) vh_fail("accepted-with-unrelated-address", "family %d: no part of the input is this address for inet_pton", got.fam);
		else vh_nontrivial();
		if (p == P_NET && ((got.fam == AF_INET && got.pref > 32) || (got.fam == AF_INET6 && got.pref > 128))) pref_out_of_range_accepted ++;
	}
	if (rc == 0) { uint8_t o[24]; o[0] = (uint8_t)got.fam; memcpy(o + 1, got.a, 16); o[17] = (uint8_t)got.port; o[18] = (uint8_t)(got.port >> 8); o[19] = (uint8_t)got.pref; vh_outcome(o, 20); }
}

static void
judge3(const char *s, size_t n) { judge(P_ADDR, s, n); judge(P_ADDRPORT, s, n); judge(P_NET, s, n); }

static void
parse_all(void) {
	static const char SIG[11] = { '1', '2', '5', '.', ':', '[', ']', ' ', 'a', 'f', '/' };
	static const char *CORE[] = { "1.2.5.1", "255.255.255.255", "::1", "1::", "::", "2:5::f", "1:2:5:a:f:1:2:5",
	    "::1.2.5.1", "::ffff:1.2.5.1", "/a", "./a" };
	static const char PRE[3] = { 0, '[', ' ' };
	static const char SUF[9] = { ']', ':', '/', '0', '1', '5', '6', ' ', 'a' };
	char s[INMAX + 8]; size_t n, i, nmax, smax, c, pl, sl; uint64_t tot, v, t;
	unsigned a, b, q;

	vh_set_describer(desc_str);
	outss = (struct sockaddr_storage *)malloc(sizeof(*outss));
	/* (1) every string over SIG up to length 6 (thorough 7) */
	nmax = vh_thorough ? 7 : 6;
	judge3(s, 0);
	for (n = 1; n <= nmax; n ++) {
		for (tot = 1, i = 0; i < n; i ++) tot *= 11;
		for (v = 0; v < tot; v ++) {
			for (t = v, i = 0; i < n; i ++) { s[n - 1 - i] = SIG[t % 11]; t /= 11; }
			judge3(s, n);
		}
	}
	/* (2) core + decorations: prefix over {'[',' '}^<=2, suffix over SUF^<=4 (thorough 5) */
	smax = vh_thorough ? 5 : 4;
	for (c = 0; c < sizeof(CORE) / sizeof(CORE[0]); c ++) {
		size_t cl = strlen(CORE[c]);
		for (a = 0; a < 3; a ++) for (b = 0; b < 3; b ++) {
			if (a == 0 && b != 0) continue;	/* prefix strings: "", x, xy */
			pl = 0;
			if (a) s[pl ++] = PRE[a];
			if (b) s[pl ++] = PRE[b];
			memcpy(s + pl, CORE[c], cl);
			for (sl = 0; sl <= smax; sl ++) {
				for (tot = 1, i = 0; i < sl; i ++) tot *= 9;
				for (v = 0; v < tot; v ++) {
					for (t = v, i = 0; i < sl; i ++) { s[pl + cl + sl - 1 - i] = SUF[t % 9]; t /= 9; }
					judge3(s, pl + cl + sl);
				}
			}
		}
	}
	/* (3) every prefix length / port number as text behind the IP cores, plain and bracketed (also beyond the range) */
	for (c = 0; c < 9; c ++) {
		for (q = 0; q < 2; q ++) {
			static const unsigned BIG[7] = { 255, 256, 999, 1000, 65535, 65536, 99999 };
			for (a = 0; a <= 140; a ++) {
				n = (size_t)sprintf(s, q ? "[%s]/%u" : "%s/%u", CORE[c], a);
				judge(P_NET, s, n);
			}
			for (a = 0; a < 7; a ++) {
				n = (size_t)sprintf(s, q ? "[%s]/%u" : "%s/%u", CORE[c], BIG[a]); judge(P_NET, s, n);
				n = (size_t)sprintf(s, q ? "[%s]:%u" : "%s:%u", CORE[c], BIG[a]); judge(P_ADDRPORT, s, n);
			}
		}
	}
	for (a = 0; a < 65536; a += (vh_thorough ? 1 : 257)) { /* quick: 256 ports spread over the range, thorough: all */
		n = (size_t)sprintf(s, "1.2.5.1:%u", a); judge(P_ADDRPORT, s, n);
		n = (size_t)sprintf(s, "[2:5::f]:%u", a); judge(P_ADDRPORT, s, n);
	}
	/* (4) UNIX path lengths around the sun_path / STR_ADDR_LEN limits */
	for (n = 100; n <= 120; n ++) {
		memset(s, 'a', n); s[0] = '/';
		judge(P_ADDR, s, n); judge(P_ADDRPORT, s, n);
	}
	vh_set_describer(NULL);
	printf("NOTE\tlenient_accept.sa_addr_from_str=%llu\n", (unsigned long long)lenient_accept[0]);
	printf("NOTE\tlenient_accept.sa_addr_port_from_str=%llu\n", (unsigned long long)lenient_accept[1]);
	printf("NOTE\tlenient_accept.str_net_to_ss=%llu\n", (unsigned long long)lenient_accept[2]);
	printf("NOTE\tdocumented_inputs.sa_addr_from_str=%llu\n", (unsigned long long)doc_seen[0]);
	printf("NOTE\tdocumented_inputs.sa_addr_port_from_str=%llu\n", (unsigned long long)doc_seen[1]);
	printf("NOTE\tdocumented_inputs.str_net_to_ss=%llu\n", (unsigned long long)doc_seen[2]);
	printf("NOTE\tprefix_out_of_range_accepted.str_net_to_ss=%llu\n", (unsigned long long)pref_out_of_range_accepted);
}

int
main(int argc, char **argv) {
	vh_init(argc, argv);
	only_desc = getenv("C18_ONLY_DESC");
	/* parsers first, IPv6 formatting last: a defect that makes every IPv6 case raise ASan reports
	 * (vh.h stops a shard after 20000 reports) must not hide the other sections */
	parse_all();
	fmt_all();
	if (only_desc) printf("NOTE\treplay_matched=%llu\n", (unsigned long long)only_matched);
	return (vh_finish());
}
