/* C18 (prefix part) - prefix-length <-> mask conversions are inverse; truncation and network
 * membership agree with plain integer arithmetic on the address (uint32_t / unsigned __int128).
 * The reference never calls liblcb: masks are built by shifting an integer, then stored big-endian. */
#include <errno.h>
#include <inttypes.h>
#include <sys/socket.h>
#include <netinet/in.h>
#include <arpa/inet.h>
#include "vh.h"
#include "net/socket_address.h"
#include "net/utils.h"

typedef unsigned __int128 u128;

/* ./check C18 --replay: C18_ONLY_DESC=<case description> runs only the case(s) with exactly that description */
static const char *only_desc; static uint64_t only_matched;
static int
want_case(void) {
	if (NULL == only_desc) return (1);
	if (0 != strcmp(vh_get_desc(), only_desc)) return (0);
	only_matched ++;
	return (1);
}

static uint32_t ref_mask4(unsigned len) { return (len == 0 ? 0u : (0xffffffffu << (32 - len))); }
static u128 ref_mask6(unsigned len) { return (len == 0 ? (u128)0 : (~(u128)0 << (128 - len))); }
static void st32(uint8_t *o, uint32_t v) { o[0] = (uint8_t)(v >> 24); o[1] = (uint8_t)(v >> 16); o[2] = (uint8_t)(v >> 8); o[3] = (uint8_t)v; }
static void st128(uint8_t *o, u128 v) { int i; for (i = 15; i >= 0; i --) { o[i] = (uint8_t)v; v >>= 8; } }
static u128 ld128(const uint8_t *p) { u128 v = 0; int i; for (i = 0; i < 16; i ++) v = (v << 8) | p[i]; return (v); }

/* exact-size, suitably aligned heap objects handed to the library */
static struct in_addr *h_m4, *h_n4, *h_a4;
static struct in6_addr *h_m6, *h_n6, *h_a6;
static struct sockaddr_in *h_sin;
static struct sockaddr_in6 *h_sin6;

static const size_t BADLEN[] = { 33, 34, 63, 64, 127, 128, 129, 130, 255, 256, 257, 65535, 65536, (size_t)1 << 32, ((size_t)1 << 32) + 8, (size_t)-1 };
#define NBAD (sizeof(BADLEN) / sizeof(BADLEN[0]))

/* ------------------------------------------------------------------ len <-> mask */
static void
lenmask_all(void) {
	unsigned len; size_t i; uint8_t want[16]; int rc, back;

	for (len = 0; len <= 32; len ++) {
		if (!vh_begin("inet_len2mask")) continue;
		vh_desc("len=%u", len);
		if (!want_case()) continue;
		memset(h_m4, 0xA5, 4);
		rc = inet_len2mask(len, h_m4);
		st32(want, ref_mask4(len));
		if (rc != 0) vh_fail("valid-length-rejected", "rc=%d", rc);
		else if (memcmp(h_m4, want, 4) != 0) vh_fail("mask-value", "got %08x want %08x (network order)", ntohl(h_m4->s_addr), ref_mask4(len));
		else vh_nontrivial();
	}
	for (i = 0; i < NBAD; i ++) {
		if (BADLEN[i] <= 32) continue;
		if (!vh_begin("inet_len2mask")) continue;
		vh_desc("len=%zu (out of range)", BADLEN[i]);
		if (!want_case()) continue;
		memset(h_m4, 0xA5, 4);
		rc = inet_len2mask(BADLEN[i], h_m4);
		if (rc == 0) vh_fail("invalid-length-accepted", "rc=0, mask %08x", ntohl(h_m4->s_addr));
		else vh_nontrivial();
	}
	for (len = 0; len <= 32; len ++) { /* mask2len on the reference mask, and inverse of the library's own mask */
		if (!vh_begin("inet_mask2len")) continue;
		vh_desc("len=%u", len);
		if (!want_case()) continue;
		st32((uint8_t *)h_m4, ref_mask4(len));
		back = inet_mask2len(h_m4);
		if (back != (int)len) vh_fail("length-value", "mask of /%u gives %d", len, back);
		else {
			memset(h_m4, 0xA5, 4);
			if (0 == inet_len2mask(len, h_m4) && inet_mask2len(h_m4) != (int)len) vh_fail("not-inverse", "mask2len(len2mask(%u)) = %d", len, inet_mask2len(h_m4));
			else vh_nontrivial();
		}
	}
	for (len = 0; len <= 128; len ++) {
		if (!vh_begin("inet6_len2mask")) continue;
		vh_desc("len=%u", len);
		if (!want_case()) continue;
		memset(h_m6, 0xA5, 16);
		rc = inet6_len2mask(len, h_m6);
		st128(want, ref_mask6(len));
		if (rc != 0) vh_fail("valid-length-rejected", "rc=%d", rc);
		else if (memcmp(h_m6, want, 16) != 0) { char g[40], w[40]; vh_hex(g, sizeof(g), h_m6, 16); vh_hex(w, sizeof(w), want, 16); vh_fail("mask-value", "got %s want %s", g, w); }
		else vh_nontrivial();
	}
	for (i = 0; i < NBAD; i ++) {
		if (BADLEN[i] <= 128) continue;
		if (!vh_begin("inet6_len2mask")) continue;
		vh_desc("len=%zu (out of range)", BADLEN[i]);
		if (!want_case()) continue;
		memset(h_m6, 0xA5, 16);
		rc = inet6_len2mask(BADLEN[i], h_m6);
		if (rc == 0) vh_fail("invalid-length-accepted", "rc=0");
		else vh_nontrivial();
	}
	for (len = 0; len <= 128; len ++) {
		if (!vh_begin("inet6_mask2len")) continue;
		vh_desc("len=%u", len);
		if (!want_case()) continue;
		st128((uint8_t *)h_m6, ref_mask6(len));
		back = inet6_mask2len(h_m6);
		if (back != (int)len) vh_fail("length-value", "mask of /%u gives %d", len, back);
		else {
			memset(h_m6, 0xA5, 16);
			if (0 == inet6_len2mask(len, h_m6) && inet6_mask2len(h_m6) != (int)len) vh_fail("not-inverse", "mask2len(len2mask(%u)) = %d", len, inet6_mask2len(h_m6));
			else vh_nontrivial();
		}
	}
}

/* ------------------------------------------------------------------ IPv4 truncation and membership */
/* all checks for one (address, length); nflip = how many single-bit neighbours to try (32 = all) */
static inline int
v4_one(uint32_t a, unsigned len, int allflips, char *why, size_t whysz) {
	uint32_t m = ref_mask4(len), net = a & m; uint8_t wn[4]; unsigned k; int r;

	st32(wn, net);
	/* net_addr_truncate_preflen on a sockaddr_in */
	memset(h_sin, 0, sizeof(*h_sin));
	h_sin->sin_family = AF_INET; h_sin->sin_port = htons(0x1234); h_sin->sin_addr.s_addr = htonl(a);
	net_addr_truncate_preflen((struct sockaddr_storage *)h_sin, (uint16_t)len);
	if (memcmp(&h_sin->sin_addr, wn, 4) != 0 || h_sin->sin_family != AF_INET || h_sin->sin_port != htons(0x1234)) {
		snprintf(why, whysz, "T net_addr_truncate_preflen(%08x,/%u) -> %08x want %08x", a, len, ntohl(h_sin->sin_addr.s_addr), net); return (1); }
	/* net_addr_truncate_mask with the mask as bytes */
	h_n4->s_addr = htonl(a); st32((uint8_t *)h_m4, m);
	net_addr_truncate_mask(AF_INET, (uint32_t *)h_n4, (uint32_t *)h_m4);
	if (memcmp(h_n4, wn, 4) != 0) { snprintf(why, whysz, "M net_addr_truncate_mask(%08x,/%u) -> %08x want %08x", a, len, ntohl(h_n4->s_addr), net); return (2); }
	if (ntohl(h_m4->s_addr) != m) { snprintf(why, whysz, "M net_addr_truncate_mask modified the mask"); return (2); }
	/* membership: the address itself, and its single-bit neighbours (bit k counted from the top) */
	h_a4->s_addr = htonl(a);
	r = is_addr_in_net(AF_INET, (const uint32_t *)h_n4, (const uint32_t *)h_m4, (const uint32_t *)h_a4);
	if (r != 1) { snprintf(why, whysz, "I is_addr_in_net(net=%08x/%u, addr=%08x) = %d want 1", net, len, a, r); return (3); }
	for (k = (allflips || len == 0) ? 0 : len - 1; k < 32 && (allflips || k <= len); k ++) {
		uint32_t b = a ^ (0x80000000u >> k);
		int want = (((b ^ net) & m) == 0);	/* integer arithmetic: same leading len bits */
		h_a4->s_addr = htonl(b);
		r = is_addr_in_net(AF_INET, (const uint32_t *)h_n4, (const uint32_t *)h_m4, (const uint32_t *)h_a4);
		if ((r != 0) != want) { snprintf(why, whysz, "I is_addr_in_net(net=%08x/%u, addr=%08x) = %d want %d", net, len, b, r, want); return (3); }
	}
	return (0);
}

static void
report4(int what, const char *why) {
	static const char *cl[4] = { "", "truncate-preflen-value", "truncate-mask-value", "membership" };
	vh_fail(cl[what], "%s", why + 2);
}

static void
v4_grid(void) {
	static const unsigned OCT[9] = { 0, 1, 9, 10, 99, 100, 199, 200, 255 };
	static const unsigned BYT[8] = { 0x00, 0x01, 0x55, 0x7f, 0x80, 0xaa, 0xfe, 0xff };
	unsigned i, len; uint32_t a; char why[200]; int w; size_t j;

	for (i = 0; i < 6561 + 4096; i ++) {
		if (i < 6561) a = (OCT[i / 729] << 24) | (OCT[(i / 81) % 9] << 16) | (OCT[(i / 9) % 9] << 8) | OCT[i % 9];
		else { unsigned t = i - 6561; a = (BYT[t >> 9] << 24) | (BYT[(t >> 6) & 7] << 16) | (BYT[(t >> 3) & 7] << 8) | BYT[t & 7]; }
		for (len = 0; len <= 32; len ++) {
			if (!vh_begin("ipv4_prefix_arith")) continue;
			vh_desc("addr=%08x len=%u", a, len);
			if (!want_case()) continue;
			w = v4_one(a, len, 1, why, sizeof(why));
			if (w) report4(w, why); else vh_nontrivial();
		}
		/* out-of-range lengths must not touch the address */
		for (j = 0; j < NBAD; j ++) {
			if (BADLEN[j] > 65535) continue;	/* parameter is uint16_t */
			if (!vh_begin("net_addr_truncate_preflen")) continue;
			vh_desc("inet addr=%08x len=%zu (out of range)", a, BADLEN[j]);
			if (!want_case()) continue;
			memset(h_sin, 0, sizeof(*h_sin)); h_sin->sin_family = AF_INET; h_sin->sin_addr.s_addr = htonl(a);
			net_addr_truncate_preflen((struct sockaddr_storage *)h_sin, (uint16_t)BADLEN[j]);
			vh_nontrivial();	/* memory safety only (ASan); the resulting value is not specified */
		}
	}
}

/* thorough: every one of the 2^32 addresses x every length; one case = one /24 block
 * (net_addr_truncate_preflen, is_addr_in_net for the address and its two neighbours across the prefix edge) */
static uint32_t cur_blk;
static void desc_blk(char *b, size_t n) { snprintf(b, n, "block %u.%u.%u.0/24 x len 0..32", cur_blk >> 16, (cur_blk >> 8) & 255, cur_blk & 255); }
static void
v4_sweep(void) {
	uint32_t blk, lo, a, be, m, net; unsigned len; char why[200]; int w, bad;
	vh_set_describer(desc_blk);
	for (blk = 0; blk < (1u << 24); blk ++) {
		if (!vh_begin("ipv4_prefix_arith_all_addresses")) continue;
		cur_blk = blk; bad = 0;
		if (!want_case()) continue;
		memset(h_sin, 0, sizeof(*h_sin)); h_sin->sin_family = AF_INET; h_sin->sin_port = htons(0x1234);
		for (lo = 0; lo < 256; lo ++) {
			a = (blk << 8) | lo; be = htonl(a);
			for (len = 0; len <= 32; len ++) {
				m = ref_mask4(len); net = a & m;
				h_sin->sin_addr.s_addr = be;
				net_addr_truncate_preflen((struct sockaddr_storage *)h_sin, (uint16_t)len);
				bad |= (h_sin->sin_addr.s_addr != htonl(net));
				h_n4->s_addr = htonl(net); h_m4->s_addr = htonl(m); h_a4->s_addr = be;
				bad |= (1 != is_addr_in_net(AF_INET, (const uint32_t *)h_n4, (const uint32_t *)h_m4, (const uint32_t *)h_a4));
				if (len > 0) {	/* neighbour across the prefix edge is outside */
					h_a4->s_addr = htonl(a ^ (0x80000000u >> (len - 1)));
					bad |= (0 != is_addr_in_net(AF_INET, (const uint32_t *)h_n4, (const uint32_t *)h_m4, (const uint32_t *)h_a4));
				}
				if (len < 32) {	/* neighbour in the first host bit is inside */
					h_a4->s_addr = htonl(a ^ (0x80000000u >> len));
					bad |= (1 != is_addr_in_net(AF_INET, (const uint32_t *)h_n4, (const uint32_t *)h_m4, (const uint32_t *)h_a4));
				}
			}
		}
		bad |= (h_sin->sin_family != AF_INET || h_sin->sin_port != htons(0x1234));
		if (!bad) { vh_nontrivial(); continue; }
		/* something differed: redo the block with the explaining checker */
		for (w = 0, lo = 0; lo < 256 && !w; lo ++)
			for (len = 0; len <= 32 && !w; len ++)
				w = v4_one((blk << 8) | lo, len, 0, why, sizeof(why));
		if (w) report4(w, why); else vh_fail("sockaddr-fields", "family/port of the sockaddr changed");
	}
	vh_set_describer(NULL);
}

/* ------------------------------------------------------------------ IPv6 */
static uint8_t cur6[16];
static void desc6(char *b, size_t n) { char h[40]; vh_hex(h, sizeof(h), cur6, 16); snprintf(b, n, "inet6 addr=%s x len 0..128", h); }

static void
v6_addr(const uint8_t *ab) {
	u128 a = ld128(ab), m, net; unsigned len, k; uint8_t wn[16], wm[16]; int r; size_t j;

	if (vh_begin("ipv6_prefix_arith") && (memcpy(cur6, ab, 16), want_case())) {
		for (len = 0; len <= 128; len ++) {
			m = ref_mask6(len); net = a & m;
			st128(wn, net); st128(wm, m);
			memset(h_sin6, 0, sizeof(*h_sin6));
			h_sin6->sin6_family = AF_INET6; h_sin6->sin6_port = htons(0x1234); h_sin6->sin6_scope_id = 7; memcpy(&h_sin6->sin6_addr, ab, 16);
			net_addr_truncate_preflen((struct sockaddr_storage *)h_sin6, (uint16_t)len);
			if (memcmp(&h_sin6->sin6_addr, wn, 16) != 0 || h_sin6->sin6_family != AF_INET6 || h_sin6->sin6_port != htons(0x1234) || h_sin6->sin6_scope_id != 7) {
				char g[40], w[40]; vh_hex(g, sizeof(g), &h_sin6->sin6_addr, 16); vh_hex(w, sizeof(w), wn, 16);
				vh_fail("truncate-preflen-value", "len=%u -> %s want %s", len, g, w); break; }
			memcpy(h_n6, ab, 16); memcpy(h_m6, wm, 16);
			net_addr_truncate_mask(AF_INET6, (uint32_t *)h_n6, (uint32_t *)h_m6);
			if (memcmp(h_n6, wn, 16) != 0 || memcmp(h_m6, wm, 16) != 0) { vh_fail("truncate-mask-value", "len=%u", len); break; }
			memcpy(h_a6, ab, 16);
			r = is_addr_in_net(AF_INET6, (const uint32_t *)h_n6, (const uint32_t *)h_m6, (const uint32_t *)h_a6);
			if (r != 1) { vh_fail("membership", "len=%u: the address is not in its own network (%d)", len, r); break; }
			for (k = 0; k < 128; k ++) {	/* single-bit neighbours: thorough all 128; quick the bits at the prefix edge, the ends and the 32-bit word seams */
				u128 b = a ^ ((u128)1 << (127 - k));
				if (!vh_thorough && !(k + 1 == len || k == len || k == 0 || k == 127 || (k % 32) == 31 || (k % 32) == 0)) continue;
				int want = (((b ^ net) & m) == 0);
				st128((uint8_t *)h_a6, b);
				r = is_addr_in_net(AF_INET6, (const uint32_t *)h_n6, (const uint32_t *)h_m6, (const uint32_t *)h_a6);
				if ((r != 0) != want) { vh_fail("membership", "len=%u flipped bit %u: %d want %d", len, k, r, want); break; }
			}
			if (k < 128) break;
		}
		if (len > 128) vh_nontrivial();
	}
	for (j = 0; j < NBAD; j ++) {
		if (BADLEN[j] <= 128 || BADLEN[j] > 65535) continue;
		if (!vh_begin("net_addr_truncate_preflen")) continue;
		{ char h[40]; vh_hex(h, sizeof(h), ab, 16); vh_desc("inet6 addr=%s len=%zu (out of range)", h, BADLEN[j]); }
		if (!want_case()) continue;
		memset(h_sin6, 0, sizeof(*h_sin6)); h_sin6->sin6_family = AF_INET6; memcpy(&h_sin6->sin6_addr, ab, 16);
		net_addr_truncate_preflen((struct sockaddr_storage *)h_sin6, (uint16_t)BADLEN[j]);
		vh_nontrivial();
	}
}

static void
v6_all(void) {
	static const unsigned G4[4] = { 0, 1, 0xffff, 0x0db8 };
	static const unsigned B4[4] = { 0x00, 0x55, 0x80, 0xff };
	uint8_t ab[16]; unsigned i, k;
	vh_set_describer(desc6);
	/* group alphabet {0,1,ffff,db8}^8: all 65536 vectors */
	for (i = 0; i < 65536; i ++) {
		for (k = 0; k < 8; k ++) { unsigned g = G4[(i >> (2 * k)) & 3]; ab[2 * k] = (uint8_t)(g >> 8); ab[2 * k + 1] = (uint8_t)g; }
		v6_addr(ab);
	}
	/* byte alphabet on the 4 bytes around each 32-bit word boundary, rest ff / 00 */
	for (i = 0; i < 256; i ++) {
		for (k = 0; k < 3; k ++) {
			memset(ab, (i & 1) ? 0xff : 0x00, 16);
			ab[4 * k + 2] = (uint8_t)B4[i & 3]; ab[4 * k + 3] = (uint8_t)B4[(i >> 2) & 3]; ab[4 * k + 4] = (uint8_t)B4[(i >> 4) & 3]; ab[4 * k + 5] = (uint8_t)B4[(i >> 6) & 3];
			v6_addr(ab);
		}
	}
	vh_set_describer(NULL);
}

int
main(int argc, char **argv) {
	vh_init(argc, argv);
	only_desc = getenv("C18_ONLY_DESC");
	h_m4 = malloc(4); h_n4 = malloc(4); h_a4 = malloc(4);
	h_m6 = malloc(16); h_n6 = malloc(16); h_a6 = malloc(16);
	h_sin = malloc(sizeof(*h_sin)); h_sin6 = malloc(sizeof(*h_sin6));
#ifdef C18_SWEEP	/* second build of this file: no sanitizer, -O2 -flto, only the 2^32 sweep */
	if (vh_thorough) v4_sweep();
#else
	lenmask_all();
	v4_grid();
	v6_all();
#endif
	if (only_desc) printf("NOTE\treplay_matched=%llu\n", (unsigned long long)only_matched);
	return (vh_finish());
}
