import re
from concurrent.futures import ThreadPoolExecutor
from vlib import core

SRC = lambda: [core.repo_src('net', 'socket_address.c'), core.repo_src('net', 'utils.c')]


def run(tier):
    rep = core.Report('C18', tier, 'exploration',
        'format: IPv4 octets {0,1,9,10,99,100,199,200,255}^4, IPv6 groups {0,1,ffff,db8}^8 (thorough {0,1,10,db8,ffff}^8), '
        'v4-mapped/compatible over the octet grid, UNIX paths of every length 1..107, x 11 boundary ports '
        '(thorough: all 65536 ports on 16 addresses) x every output capacity 0..text+10 and STR_ADDR_LEN (capacities 0..2 of the IPv6+port form on every 97th/1009th case); '
        'parse: every string over {1,2,5,.,:,[,],space,a,f,/} up to length 6 (thorough 7), core+decoration strings, '
        'every prefix length/port as text; prefix arithmetic: every length 0..32/0..128 (+ out of range) on the same '
        'address grids (thorough: all 2^32 IPv4 addresses x all 33 lengths, one case per /24 block). A case is non-trivial when the library call succeeded and '
        'the whole oracle chain (text == reference, parse-back == address, result == integer arithmetic) was evaluated')
    rep.assumptions = [
        'reference text: snprintf dotted quad and an RFC 5952 formatter written in the harness (mixed notation also admitted for ::/96 and ::ffff:0:0/96, RFC 5952 section 5)',
        'documented spellings are recognised with libc inet_pton plus the bracket/port/prefix syntax shown in the header comments; inputs outside that set are only judged by "the address that came out is inet_pton of some part of the input"',
        'prefix reference: shifts on uint32_t / unsigned __int128, stored big-endian',
        'STR_ADDR_LEN is taken as the documented sufficient buffer (every caller in src/ uses it)']
    with ThreadPoolExecutor(max_workers=3) as ex:
        ft = ex.submit(core.compile_c, 'C18', 'h_c18_text', ['harness/C18/h_c18_text.c'] + SRC())
        fp = ex.submit(core.compile_c, 'C18', 'h_c18_prefix', ['harness/C18/h_c18_prefix.c'] + SRC(), (), 'gcc', '-O2')
        bins = {'text': ft.result(), 'prefix': fp.result()}
        if tier == 'thorough':
            # the 2^32-address sweep compares values only; memory safety of the same functions is the ASan build's job
            bins['sweep'] = ex.submit(core.compile_c, 'C18', 'h_c18_sweep', ['harness/C18/h_c18_prefix.c'] + SRC(),
                                      ('-DC18_SWEEP', '-flto'), 'gcc', '-O3', 'none').result()
    rep.configs = ['text: h_c18_text.c (gcc -O1 asan)', 'prefix: h_c18_prefix.c (gcc -O2 asan)']
    if 'sweep' in bins:
        rep.configs.append('sweep: h_c18_prefix.c -DC18_SWEEP (gcc -O3 -flto, no sanitizer; thorough only)')
    for cfg in ('text', 'prefix', 'sweep'):
        if cfg in bins:
            core.run_sharded(rep, bins[cfg], tier, config=cfg)
    # per-shard NOTE counters -> sums (measured, informational)
    sums = {}
    rest = []
    for n in rep.notes:
        m = re.match(r'^([A-Za-z0-9_.]+)=(\d+)$', n)
        if m:
            sums[m.group(1)] = sums.get(m.group(1), 0) + int(m.group(2))
        else:
            rest.append(n)
    rep.notes = rest
    if any(n.startswith('cut') for n in rest):
        # vh.h stops a shard after 20000 ASan reports.  Enumeration order of h_c18_text is: parsers, IPv4 formatting,
        # UNIX formatting, IPv6 formatting - so a cut caused by an IPv6 formatting defect only loses IPv6 formatting cases.
        rep.extra['cut_scope'] = ('text harness order: parsers, IPv4, UNIX, IPv6 formatting; shards stopped at the ASan report cap '
                                  'inside the section named in per_target with run < cases')
    rep.extra['observed_not_judged'] = sums
    rep.finish(core.make_replayer(lambda cfg: bins[cfg or 'text'], tier))
