import os, re, subprocess, sys
from concurrent.futures import ThreadPoolExecutor
from vlib import core

SRC = lambda: [core.repo_src('net', 'socket_address.c'), core.repo_src('net', 'utils.c')]


def build(tier, want=('text', 'prefix', 'sweep')):
    with ThreadPoolExecutor(max_workers=3) as ex:
        f = {}
        if 'text' in want:
            f['text'] = ex.submit(core.compile_c, 'C18', 'h_c18_text', ['harness/C18/h_c18_text.c'] + SRC())
        if 'prefix' in want:
            f['prefix'] = ex.submit(core.compile_c, 'C18', 'h_c18_prefix', ['harness/C18/h_c18_prefix.c'] + SRC(), (), 'gcc', '-O2')
        if 'sweep' in want and tier == 'thorough':
            # the 2^32-address sweep compares values only; memory safety of the same functions is the ASan build's job
            f['sweep'] = ex.submit(core.compile_c, 'C18', 'h_c18_sweep', ['harness/C18/h_c18_prefix.c'] + SRC(),
                                   ('-DC18_SWEEP', '-flto'), 'gcc', '-O3', 'none')
        return {k: v.result() for k, v in f.items()}


def run(tier):
    rep = core.Report('C18', tier, 'exploration',
        'format: IPv4 octets {0,1,9,10,99,100,199,200,255}^4, IPv6 groups {0,1,ffff,db8}^8 (thorough {0,1,10,db8,ffff}^8), '
        'v4-mapped/compatible over the octet grid, UNIX paths of every length 1..107, x 11 boundary ports '
        '(thorough: all 65536 ports on 16 addresses) x every output capacity 0..text+10 and STR_ADDR_LEN (capacities 0..2 of the IPv6+port form on every 97th/1009th case); '
        'parse: every string over {1,2,5,.,:,[,],space,a,f,/} up to length 6 (thorough 7), core+decoration strings, '
        'every prefix length/port as text; prefix arithmetic: every length 0..32/0..128 (+ out of range) on the same '
        'address grids (thorough: all 2^32 IPv4 addresses x all 33 lengths, one case per /24 block). A case is non-trivial when the library call succeeded and '
        'the whole oracle chain (text == reference, parse-back == address, result == integer arithmetic) was evaluated')
    rep.assumptions = [
        'reference text: snprintf dotted quad and an RFC 5952 formatter written in the harness (mixed notation also admitted for ::/96 and ::ffff:0:0/96, RFC 5952 section 5)',
        'documented spellings are recognised with libc inet_pton plus the bracket/port/prefix syntax shown in the header comments; inputs outside that set are only judged by "the address that came out is inet_pton of some part of the input"',
        'prefix reference: shifts on uint32_t / unsigned __int128, stored big-endian',
        'STR_ADDR_LEN is taken as the documented sufficient buffer (every caller in src/ uses it)']
    bins = build(tier)
    rep.configs = ['text: h_c18_text.c (gcc -O1 asan)', 'prefix: h_c18_prefix.c (gcc -O2 asan)']
    if 'sweep' in bins:
        rep.configs.append('sweep: h_c18_prefix.c -DC18_SWEEP (gcc -O3 -flto, no sanitizer; thorough only)')
    for cfg in ('text', 'prefix', 'sweep'):
        if cfg in bins:
            core.run_sharded(rep, bins[cfg], tier, config=cfg)
    # per-shard NOTE counters -> sums (measured, informational)
    sums = {}
    rest = []
    for n in rep.notes:
        m = re.match(r'^([A-Za-z0-9_.]+)=(\d+)$', n)
        if m:
            sums[m.group(1)] = sums.get(m.group(1), 0) + int(m.group(2))
        else:
            rest.append(n)
    rep.notes = rest
    if any(n.startswith('cut') for n in rest):
        # vh.h stops a shard after 20000 ASan reports.  Enumeration order of h_c18_text is: parsers, IPv4 formatting,
        # UNIX formatting, IPv6 formatting - so a cut caused by an IPv6 formatting defect only loses IPv6 formatting cases.
        rep.extra['cut_scope'] = ('text harness order: parsers, IPv4, UNIX, IPv6 formatting; shards stopped at the ASan report cap '
                                  'inside the section named in per_target with run < cases')
    rep.extra['observed_not_judged'] = sums
    rep.finish(core.make_replayer(lambda cfg: bins[cfg or 'text'], tier))


TEXT_TARGETS = ('sa_addr_to_str', 'sa_addr_port_to_str', 'sa_addr_from_str', 'sa_addr_port_from_str', 'str_net_to_ss')


def replay(r, tier):
    """./check C18 --replay replay/C18/<x>.replay : rebuild, re-run exactly the recorded case (found by its
    description, so the tier the file was recorded in does not matter), say whether the clause still fails."""
    target, clause = r['target'], r['clause']
    desc = r['case'].split(' | ')[0]
    cfg = r.get('config') or ('text' if target in TEXT_TARGETS else 'sweep' if target.endswith('all_addresses') else 'prefix')
    hit = False
    for t in ([tier] + [x for x in ('quick', 'thorough') if x != tier]) if cfg != 'sweep' else ['thorough']:
        b = build(t, (cfg,))[cfg]
        p = subprocess.run([b, '--tier', t, '--only', target], capture_output=True, timeout=3000,
                           env=dict(os.environ, C18_ONLY_DESC=desc))
        out = p.stdout.decode('utf-8', 'replace')
        for line in out.splitlines():
            f = line.split('\t')
            if f[0] == 'VIOL':
                print(line)
                if f[1] == target and f[2] == clause:
                    hit = True
        m = re.search(r'replay_matched=(\d+)', out)
        if hit or (m and int(m.group(1)) > 0):
            break       # the case exists in this tier's enumeration and was run
    else:
        sys.stderr.write('recorded case not found in either tier: %s\n' % desc)
        return 2
    if hit:
        print('VIOLATION property=C18 replay=%s' % os.path.join(core.VERIF, 'replay', 'C18', re.sub(r'[^A-Za-z0-9_.-]+', '_', '%s-%s' % (target, clause))[:100] + '.replay'))
        return 1
    print('not reproduced: %s / %s on %s' % (target, clause, desc))
    return 0
