/* C18 reproducer: sa_addr_port_to_str() with an IPv6 address and a 1-byte buffer computes
 * (buf_size - 2) == SIZE_MAX for the inner call and lets inet_ntop write the whole address
 * behind the caller's buffer (and returns 0 with a length that does not fit).
 *
 * gcc -O1 -g -fsanitize=address -D_GNU_SOURCE -DLINUX -D__USE_GNU=1 -DHAVE_ACCEPT4 -DHAVE_EXPLICIT_BZERO -DHAVE_MEMMEM \
 *     -DHAVE_MEMRCHR -DHAVE_PIPE2 -DHAVE_REALLOCARRAY -DHAVE_SOCK_CLOEXEC -DHAVE_SOCK_NONBLOCK \
 *     -DHAVE_STRNCASECMP -w -I/repo/include -I/repo/src \
 *     ipv6_port_small_buffer.c /repo/src/net/socket_address.c -o /var/tmp/C18-scratch/ipv6_port_small_buffer \
 *   && /var/tmp/C18-scratch/ipv6_port_small_buffer
 * With the defect: AddressSanitizer heap-buffer-overflow (WRITE) and/or "BAD" below, exit status != 0.
 * Without ASan the canary check alone shows it. */
#include <stdio.h>
#include <stdlib.h>
#include <string.h>
#include <arpa/inet.h>
#include "net/socket_address.h"

int
main(void) {
	struct sockaddr_storage ss;
	struct sockaddr_in6 *s6 = (struct sockaddr_in6 *)&ss;
	char *arena = malloc(64), *buf;
	size_t len = 12345, i;
	int rc, touched = 0;

	memset(&ss, 0, sizeof(ss));
	s6->sin6_family = AF_INET6;
	s6->sin6_port = htons(80);
	inet_pton(AF_INET6, "2001:db8::5", &s6->sin6_addr);
	memset(arena, 0x7e, 64);
	buf = arena;				/* the caller's buffer is arena[0..0], capacity 1 */
	rc = sa_addr_port_to_str(&ss, buf, 1, &len);
	for (i = 1; i < 64; i ++)
		if (arena[i] != 0x7e) touched ++;
	printf("%s capacity=1 -> rc=%d reported length=%zu, %d byte(s) behind the buffer modified ('%.20s')\n",
	    (rc == 0 || touched) ? "BAD" : "ok", rc, len, touched, arena + 1);
	fflush(stdout);
	free(arena);
	return ((rc == 0 || touched) ? 1 : 0);
}
