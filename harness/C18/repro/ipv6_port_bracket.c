/* C18 reproducer: sa_addr_port_to_str() puts the closing bracket of an IPv6 address ON the last
 * address character instead of behind it: "[::1]:80" comes out as "[::]:80", "[2001:db8::5]:443"
 * as "[2001:db8::]:443" - a different address that parses back without error.
 *
 * gcc -O1 -g -D_GNU_SOURCE -DLINUX -D__USE_GNU=1 -DHAVE_ACCEPT4 -DHAVE_EXPLICIT_BZERO -DHAVE_MEMMEM \
 *     -DHAVE_MEMRCHR -DHAVE_PIPE2 -DHAVE_REALLOCARRAY -DHAVE_SOCK_CLOEXEC -DHAVE_SOCK_NONBLOCK \
 *     -DHAVE_STRNCASECMP -w -I/repo/include -I/repo/src \
 *     ipv6_port_bracket.c /repo/src/net/socket_address.c -o /var/tmp/C18-scratch/ipv6_port_bracket \
 *   && /var/tmp/C18-scratch/ipv6_port_bracket
 * exit status 1 = defect present, 0 = fixed. */
#include <stdio.h>
#include <string.h>
#include <arpa/inet.h>
#include "net/socket_address.h"

static int
one(const char *text, uint16_t port, const char *want) {
	struct sockaddr_storage ss, back;
	struct sockaddr_in6 *s6 = (struct sockaddr_in6 *)&ss;
	char buf[STR_ADDR_LEN];
	size_t len = 0;
	int rc, bad;

	memset(&ss, 0, sizeof(ss));
	s6->sin6_family = AF_INET6;
	s6->sin6_port = htons(port);
	inet_pton(AF_INET6, text, &s6->sin6_addr);
	rc = sa_addr_port_to_str(&ss, buf, sizeof(buf), &len);
	bad = (rc != 0 || strcmp(buf, want) != 0);
	printf("%-4s addr=%s port=%u -> rc=%d text='%s' (want '%s')\n", bad ? "BAD" : "ok", text, port, rc, buf, want);
	if (0 == rc && 0 == sa_addr_port_from_str(&back, buf, len)) {
		char t[64];
		inet_ntop(AF_INET6, &((struct sockaddr_in6 *)&back)->sin6_addr, t, sizeof(t));
		printf("     parses back as addr=%s port=%u\n", t, ntohs(((struct sockaddr_in6 *)&back)->sin6_port));
	}
	return (bad);
}

int
main(void) {
	int bad = 0;
	bad |= one("::1", 80, "[::1]:80");
	bad |= one("2001:db8::5", 443, "[2001:db8::5]:443");
	bad |= one("::", 9999, "[::]:9999");
	bad |= one("fe80::1", 0, "[fe80::1]");
	return (bad);
}
