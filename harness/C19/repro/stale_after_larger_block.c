/*
 * C19 reproducer (defect #21): a reader one round behind is handed bytes of a NEWER,
 * larger block as if they were the next bytes of the stream - no drop is reported.
 *
 * Build + run (exit status 1 and "DEFECT" on the affected tree, 0 and "ok" when fixed):
 *   gcc -O1 -w -D_GNU_SOURCE -DLINUX -D__USE_GNU=1 -DHAVE_ACCEPT4 -DHAVE_EXPLICIT_BZERO -DHAVE_MEMMEM \
 *       -DHAVE_MEMRCHR -DHAVE_PIPE2 -DHAVE_REALLOCARRAY -DHAVE_SOCK_CLOEXEC -DHAVE_SOCK_NONBLOCK \
 *       -DHAVE_STRNCASECMP -I/repo/include -I/repo/src \
 *       /verif/harness/C19/repro/stale_after_larger_block.c /repo/src/utils/ring_buffer.c \
 *       -o /var/tmp/C19-scratch/stale && /var/tmp/C19-scratch/stale
 *
 * Ring of 8 bytes, min_block_size 2.  The stream is the byte sequence 0,1,2,3,...
 *   W 6 bytes  -> block 0 = ring[0,6) = stream 0..5
 *   reader consumes them (cursor -> block index 1)
 *   W 2 bytes  -> block 1 = ring[6,8) = stream 6,7          (ring is now full)
 *   W 8 bytes  -> wraps: block 0 = ring[0,8) = stream 8..15 (physically overwrites old block 1)
 *   reader reads: must get stream 6,7,... or nothing plus a non-zero drop_size.
 * Only documented calls are used: r_buf_wbuf_get(min) / write <= returned size /
 * r_buf_wbuf_set(0, n) and r_buf_data_get() / r_buf_rpos_inc(consumed).
 */
#include <stdio.h>
#include <string.h>
#include <stdint.h>
#include "utils/ring_buffer.h"

static uint8_t next_byte = 0;

static int
wr(r_buf_p rb, size_t n) {
	uint8_t *p;
	size_t i, got = r_buf_wbuf_get(rb, n, &p);
	if (got < n)
		return (-1);
	for (i = 0; i < n; i ++)
		p[i] = next_byte ++;
	return (r_buf_wbuf_set(rb, 0, n));
}

int
main(void) {
	r_buf_p rb = r_buf_alloc((uintptr_t)-1, 8, 2);
	r_buf_rpos_t rp;
	iovec_t iov[64];
	size_t n, i, j, drop = 0, got = 0, pos = 0;
	uint8_t seen[64];

	if (NULL == rb)
		return (2);
	r_buf_rpos_init(rb, &rp, 0);			/* reader joins the empty ring */
	if (0 != wr(rb, 6))
		return (2);
	n = r_buf_data_get(rb, &rp, 1 << 20, iov, 64, &drop, &got);
	printf("read 1: %zu region(s), %zu byte(s), drop=%zu\n", n, got, drop);
	r_buf_rpos_inc(rb, &rp, got);			/* consumed stream 0..5 */
	if (0 != wr(rb, 2) || 0 != wr(rb, 8))
		return (2);
	drop = 0;
	n = r_buf_data_get(rb, &rp, 1 << 20, iov, 64, &drop, &got);
	printf("read 2: %zu region(s), %zu byte(s), drop=%zu :", n, got, drop);
	for (i = 0; i < n; i ++) {
		for (j = 0; j < iov[i].iov_len && pos < sizeof(seen); j ++) {
			seen[pos ++] = iov[i].iov_base[j];
			printf(" %u", iov[i].iov_base[j]);
		}
	}
	printf("\n");
	/* The reader has consumed 0..5.  In-order delivery without loss starts at 6;
	 * after a reported drop it may start later, but must still be ascending by 1. */
	for (i = 0; i < pos; i ++) {
		if ((0 == i && 0 == drop && 6 != seen[0]) ||
		    (0 != i && seen[i] != (uint8_t)(seen[i - 1] + 1))) {
			printf("DEFECT: byte %zu of the delivery is stream byte %u, expected %u; "
			    "drop_size reported = %zu\n", i, seen[i],
			    (0 == i) ? 6 : (uint8_t)(seen[i - 1] + 1), drop);
			return (1);
		}
	}
	printf("ok\n");
	return (0);
}
