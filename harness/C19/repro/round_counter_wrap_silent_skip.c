/*
 * C19 reproducer: when the ring's round counter wraps from SIZE_MAX to 0, a reader that is two
 * rounds behind is resynchronised with drop_size = 0, i.e. it silently loses data.
 * r_buf_rpos_check() decides "reader is ahead of the writer" with
 *     (size_t)(rpos->round_num + 1) >= r_buf->round_num
 * which is true for rpos->round_num == SIZE_MAX-1 and r_buf->round_num == 0.
 * The same history with small round numbers reports drop_size = 2 * size.
 *
 * The round counter is advanced by writing r_buf->round_num (public struct) after one complete,
 * fully consumed cycle: repeating that cycle 2^64-2 times gives the same state.
 *
 * Build + run (exit 1 and "DEFECT" on the affected tree, 0 and "ok" when fixed):
 *   gcc -O1 -w -D_GNU_SOURCE -DLINUX -D__USE_GNU=1 -DHAVE_ACCEPT4 -DHAVE_EXPLICIT_BZERO -DHAVE_MEMMEM \
 *       -DHAVE_MEMRCHR -DHAVE_PIPE2 -DHAVE_REALLOCARRAY -DHAVE_SOCK_CLOEXEC -DHAVE_SOCK_NONBLOCK \
 *       -DHAVE_STRNCASECMP -I/repo/include -I/repo/src \
 *       /verif/harness/C19/repro/round_counter_wrap_silent_skip.c /repo/src/utils/ring_buffer.c \
 *       -o /var/tmp/C19-scratch/rwrap && /var/tmp/C19-scratch/rwrap
 */
#include <stdio.h>
#include <stdint.h>
#include "utils/ring_buffer.h"

static uint8_t next_byte = 0;

static int
wr(r_buf_p rb, size_t request, size_t n) {
	uint8_t *p;
	size_t i, got = r_buf_wbuf_get(rb, request, &p);
	if (got < n)
		return (-1);
	for (i = 0; i < n; i ++)
		p[i] = next_byte ++;
	return (r_buf_wbuf_set(rb, 0, n));
}

static int
scenario(size_t start_round, size_t *drop_seen, unsigned *first_byte) {
	r_buf_p rb = r_buf_alloc((uintptr_t)-1, 8, 2);
	r_buf_rpos_t rp;
	iovec_t iov[64];
	size_t n, drop, got, i, delta;

	if (NULL == rb)
		return (2);
	next_byte = 0;
	r_buf_rpos_init(rb, &rp, 0);
	for (i = 0; i < 5; i ++) {	/* 4 blocks fill the ring, the 5th wraps it; the reader consumes everything */
		if (0 != wr(rb, 2, 2))
			return (2);
		n = r_buf_data_get(rb, &rp, 1 << 20, iov, 64, &drop, &got);
		r_buf_rpos_inc(rb, &rp, got);
	}
	delta = start_round - rb->round_num;	/* pretend (start_round - 1) more such cycles happened */
	rb->round_num += delta;
	rp.round_num += delta;
	/* The reader has consumed stream bytes 0..9.  Two wraps without the reader looking: */
	if (0 != wr(rb, 8, 2) || 0 != wr(rb, 8, 2))	/* request 8 contiguous bytes -> wraps; stream 10,11 and 12,13 */
		return (2);
	*drop_seen = 0;
	drop = 0;
	n = r_buf_data_get(rb, &rp, 1 << 20, iov, 64, &drop, &got);	/* resynchronises the cursor */
	*drop_seen |= drop;
	if (0 != wr(rb, 2, 2))						/* stream 14,15 */
		return (2);
	drop = 0;
	n = r_buf_data_get(rb, &rp, 1 << 20, iov, 64, &drop, &got);
	*drop_seen |= drop;
	*first_byte = (0 != n && 0 != iov[0].iov_len) ? iov[0].iov_base[0] : 0xFFFF;
	r_buf_free(rb);
	return (0);
}

int
main(void) {
	size_t drop_lo = 0, drop_hi = 0;
	unsigned b_lo = 0, b_hi = 0;

	if (0 != scenario(1, &drop_lo, &b_lo) || 0 != scenario(SIZE_MAX - 1, &drop_hi, &b_hi))
		return (2);
	printf("ring round 1 -> 3        : reader expected stream byte 10, got %u, drop_size reported %zu\n", b_lo, drop_lo);
	printf("ring round MAX-1 -> 1    : reader expected stream byte 10, got %u, drop_size reported %zu\n", b_hi, drop_hi);
	if (10 != b_hi && 0 == drop_hi) {
		printf("DEFECT: bytes 10..%u were skipped without any drop report when the round counter wrapped\n", b_hi - 1);
		return (1);
	}
	printf("ok\n");
	return (0);
}
