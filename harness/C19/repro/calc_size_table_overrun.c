/*
 * Out of C19's statement (r_buf_rpos_calc_size is not mentioned by the property) but found by the
 * same exploration: r_buf_rpos_calc_size() runs off the block table (SIGSEGV) for two cursors that
 * r_buf_rpos_check_fast() both accepts.
 * The lower cursor is in the previous round ABOVE iov_index_max + 1 ("Reader out of buf range in
 * previous round - normal"); in the fragmented path the size is summed over
 *     (1 + r_buf->iov_index_max - rpos_lo->iov_index)   entries, which wraps below zero.
 *
 * Build + run (prints DEFECT and exits 1 on the affected tree, exit 0 when fixed):
 *   gcc -O1 -w -D_GNU_SOURCE -DLINUX -D__USE_GNU=1 -DHAVE_ACCEPT4 -DHAVE_EXPLICIT_BZERO -DHAVE_MEMMEM \
 *       -DHAVE_MEMRCHR -DHAVE_PIPE2 -DHAVE_REALLOCARRAY -DHAVE_SOCK_CLOEXEC -DHAVE_SOCK_NONBLOCK \
 *       -DHAVE_STRNCASECMP -I/repo/include -I/repo/src \
 *       /verif/harness/C19/repro/calc_size_table_overrun.c /repo/src/utils/ring_buffer.c \
 *       -o /var/tmp/C19-scratch/calc && /var/tmp/C19-scratch/calc
 */
#include <stdio.h>
#include <stdint.h>
#include <signal.h>
#include <unistd.h>
#include "utils/ring_buffer.h"

static void
on_segv(int sig) {
	static const char msg[] = "DEFECT: r_buf_rpos_calc_size() ran off the block table (SIGSEGV/SIGBUS)\n";
	(void)sig;
	(void)!write(1, msg, sizeof(msg) - 1);
	_exit(1);
}

static int
wr2(r_buf_p rb, size_t request, size_t off, size_t n) {	/* the set2 calling convention */
	uint8_t *p;
	size_t got = r_buf_wbuf_get(rb, request, &p);
	if (got < off + n)
		return (-1);
	return (r_buf_wbuf_set2(rb, p + off, n, NULL));
}

int
main(void) {
	r_buf_p rb = r_buf_alloc((uintptr_t)-1, 8, 2);
	r_buf_rpos_t a, b;
	iovec_t iov[64];
	size_t drop, got, sz;

	if (NULL == rb)
		return (2);
	signal(SIGSEGV, on_segv);
	signal(SIGBUS, on_segv);
	r_buf_rpos_init(rb, &a, 0);
	r_buf_rpos_init(rb, &b, 0);
	/* Three writes that each need the whole ring (every one wraps). Reader a looks after the
	 * second and is resynchronised ("very slow reader") to iov_index + 1 of round 2. */
	if (0 != wr2(rb, 8, 0, 2) || 0 != wr2(rb, 8, 0, 2) || 0 != wr2(rb, 8, 0, 2))
		return (2);
	r_buf_data_get(rb, &a, 1, iov, 64, &drop, &got);
	if (0 != wr2(rb, 8, 1, 2))	/* one more wrap, with a leading offset (sets RBUF_F_FRAG) */
		return (2);
	r_buf_data_get(rb, &b, 1, iov, 64, &drop, &got);	/* reader b is resynchronised into round 3 */
	printf("ring: round %zu iov_index %zu iov_index_max %zu; a = {idx %zu, round %zu} b = {idx %zu, round %zu}\n",
	    rb->round_num, rb->iov_index, rb->iov_index_max, a.iov_index, a.round_num, b.iov_index, b.round_num);
	printf("check_fast(a) = %d, check_fast(b) = %d\n", r_buf_rpos_check_fast(rb, &a), r_buf_rpos_check_fast(rb, &b));
	fflush(stdout);
	sz = r_buf_rpos_calc_size(rb, &a, &b);
	printf("calc_size = %zu\nok\n", sz);
	return (0);
}
