/*
 * C19 reproducer: r_buf_data_avail_size() on a ring that has not been written yet returns a
 * pointer-derived garbage value instead of 0 (a full r_buf_data_get() returns nothing).
 * iov[0].iov_base is still NULL, and the non-fragmented path computes
 *     wpos - (iov[rpos->iov_index].iov_base - buf)  =  0 - (NULL - buf)  =  (size_t)buf.
 *
 * Build + run (exit 1 and "DEFECT" on the affected tree, 0 and "ok" when fixed):
 *   gcc -O1 -w -D_GNU_SOURCE -DLINUX -D__USE_GNU=1 -DHAVE_ACCEPT4 -DHAVE_EXPLICIT_BZERO -DHAVE_MEMMEM \
 *       -DHAVE_MEMRCHR -DHAVE_PIPE2 -DHAVE_REALLOCARRAY -DHAVE_SOCK_CLOEXEC -DHAVE_SOCK_NONBLOCK \
 *       -DHAVE_STRNCASECMP -I/repo/include -I/repo/src \
 *       /verif/harness/C19/repro/avail_size_fresh_ring.c /repo/src/utils/ring_buffer.c \
 *       -o /var/tmp/C19-scratch/avail && /var/tmp/C19-scratch/avail
 */
#include <stdio.h>
#include <stdint.h>
#include "utils/ring_buffer.h"

int
main(void) {
	r_buf_p rb = r_buf_alloc((uintptr_t)-1, 8, 2);
	r_buf_rpos_t rp, rp2;
	iovec_t iov[64];
	size_t avail, drop = 0, got = 0, n;

	if (NULL == rb)
		return (2);
	r_buf_rpos_init(rb, &rp, 0);	/* a reader joins before the first block arrives */
	rp2 = rp;
	avail = r_buf_data_avail_size(rb, &rp, &drop);
	n = r_buf_data_get(rb, &rp2, 1 << 20, iov, 64, &drop, &got);
	printf("avail_size = %zu, full read = %zu region(s)\n", avail, n);
	if (0 != avail && 0 == n) {
		printf("DEFECT: %zu bytes announced on an empty ring\n", avail);
		return (1);
	}
	printf("ok\n");
	return (0);
}
