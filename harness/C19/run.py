"""C19 - ring buffer: explicit-state BFS over the real r_buf_t (engine E3).  See NOTES.md."""
import os, subprocess, time
from concurrent.futures import ThreadPoolExecutor
from vlib import core

SIZES = (8, 12, 16)
MINS = (2, 3, 4)
STYLE = {0: 'set', 1: 'set2', 2: 'mixed'}
SEED = {0: 'fresh', 1: 'round=MAX-1', 2: 'round=MAX'}

# tier -> (state target of the optimised pass, state target of the ASan pass, depth bound, hard state cap)
# A job completes whole BFS levels and starts no further level once its state count reached the target,
# so the explored depth depends only on (job, target) - never on machine speed.
TIERS = {'quick': (100000, 3000, 8, 4000000), 'thorough': (600000, 40000, 12, 12000000)}


def jobs_for(tier):
    """(binary kind, job string, target).  job = size,min,style,seed,readers,depth,kmode,mmode"""
    t_fast, t_asan, depth, _ = TIERS[tier]
    out = []
    for size in SIZES:
        for mn in MINS:
            for style in (0, 1):
                for seed in (0, 1, 2):
                    for nr in (1, 2):
                        j = '%d,%d,%d,%d,%d,%d,0,1' % (size, mn, style, seed, nr, depth)
                        out.append(('fast', j, t_fast))
                        out.append(('asan', j, t_asan))
            # aborted writes (r_buf_wbuf_get without a commit) added to the writer alphabet
            for style in (0, 1):
                for seed in ((0, 1) if tier == 'thorough' else (0,)):
                    out.append(('fast', '%d,%d,%d,%d,1,%d,0,2' % (size, mn, style, seed, depth), t_fast))
            if tier == 'thorough':
                # every block length min..size, both commit calls mixed in one history, aborted writes
                for seed in (0, 1):
                    out.append(('fast', '%d,%d,2,%d,1,%d,1,2' % (size, mn, seed, depth), t_fast))
    return out


def job_name(kind, job):
    f = job.split(',')
    return '%s:ring%s/min%s/%s/%s/%sr/%s%s' % (kind, f[0], f[1], STYLE[int(f[2])], SEED[int(f[3])], f[4],
                                               'k=all' if f[6] == '1' else 'k=4', '+abort' if f[7] == '2' else '')


def build():
    srcs = ['harness/C19/h_c19.c', core.repo_src('utils', 'ring_buffer.c')]
    with ThreadPoolExecutor(2) as ex:
        a = ex.submit(core.compile_c, 'C19', 'h_c19', srcs)
        b = ex.submit(core.compile_c, 'C19', 'h_c19_o2', srcs, (), 'gcc', '-O2', None)
        return {'asan': a.result(), 'fast': b.result()}


def run_job(rep, bins, kind, job, target, cap, per_job):
    name = job_name(kind, job)
    prog = os.path.join(core.build_dir('C19'), 'progress.' + name.replace('/', '_').replace(':', '_'))
    cmd = [bins[kind], '--job', job, '--target', str(target), '--maxstates', str(cap), '--progress', prog]
    t0 = time.time()
    p = subprocess.run(cmd, stdout=subprocess.PIPE, stderr=subprocess.DEVNULL)
    text = p.stdout.decode('utf-8', 'replace')
    notes, body = {}, []
    for line in text.splitlines():
        if line.startswith('NOTE\t'):
            k, _, v = line[5:].partition('=')
            notes[k] = int(v) if v.lstrip('-').isdigit() else v
        else:
            body.append(line)
    done = rep.ingest('\n'.join(body), name)
    notes['wall_s'] = round(time.time() - t0, 2)
    per_job[name] = notes
    if not done:
        cur = core.read_progress(prog)
        if cur is None:
            rep.harness_errors.append('%s died (rc=%s) before any case' % (name, p.returncode))
        else:
            g, idx, tgt, desc = cur
            k = (tgt, 'crash:rc=%s' % p.returncode)
            rep.add_violation(tgt, k[1], idx, desc or job, name)
            rep.clauses[k] = rep.clauses.get(k, 0) + 1
        rep.exhaustive = False
    if 'seed_unusable' in notes:
        rep.harness_errors.append('%s: seed state could not be built/validated (%s)' % (name, notes['seed_unusable']))
    if notes.get('snapshot_crosscheck_failures', 0):
        rep.harness_errors.append('%s: %s snapshot/history cross-check failures' % (name, notes['snapshot_crosscheck_failures']))
    if notes.get('state_cap_hit', 0):
        rep.exhaustive = False
        rep.notes.append('%s: state cap hit inside level %s' % (name, notes.get('depth_completed', 0) + 1))


def trace_hits(binary, desc):
    """Replay the operation history of a violation on a fresh ring (API calls only)."""
    trace = desc.split(' | ')[0].strip()
    p = subprocess.run([binary, '--trace', trace], stdout=subprocess.PIPE, stderr=subprocess.DEVNULL, timeout=120)
    out = []
    for line in p.stdout.decode('utf-8', 'replace').splitlines():
        f = line.split('\t')
        if f[0] == 'VIOL' and len(f) >= 5:
            out.append((f[1], f[2], f[4]))
    return out, p.returncode


def run(tier):
    t_fast, t_asan, depth, cap = TIERS[tier]
    rep = core.Report('C19', tier, 'model_checking',
        'breadth-first search over snapshots of the real r_buf_t: rings {8,12,16} x min_block {2,3,4} x commit call '
        '{r_buf_wbuf_set, r_buf_wbuf_set2} x start state {fresh, one full cycle with the round counter moved to '
        'SIZE_MAX-1 / SIZE_MAX} x {1,2} readers; from every state every writer step W(request, length, offset) with '
        'length in {min, min+1, 2*min, size}, offset in {0,1}, request in {length+offset, size} (extra jobs: aborted '
        'writes = get without commit; thorough: every length min..size with both commit calls mixed) and every reader step '
        'R_i(max in {1,3,2^30}, advance in {all,1,0}); whole BFS levels until the state count reaches the target '
        '(%d fast / %d ASan per job) or depth %d; every new state is observed with avail_size, check_fast, calc_size, '
        'rpos_init(0,size/2,size); a transition is non-trivial when bytes were committed / delivered / consumed.  Plus (configuration big) '
        'deterministic long histories on rings of 3000..65536 bytes with minimum blocks 1..188 (block tables of several pages), three '
        'readers with different lags, against a byte-stream model, every mapping of the library followed by an inaccessible page'
        % (t_fast, t_asan, depth))
    rep.assumptions = [
        'the producer fills exactly the bytes it commits, never more than r_buf_wbuf_get() returned; get+fill+commit is one atomic step (single-threaded event loop usage)',
        'a consumer never advances by more than the last r_buf_data_get() handed out',
        'seeded start states are reachable: the harness checks on the real code that repeating the min-sized write/read cycle reproduces the state with all round numbers +1, then shifts the round numbers',
        'stream positions are stored relative to the write total in the dedup key: ring_buffer.c never reads the storage bytes and the oracle uses position differences only',
        'snapshots are lossless: constant header fields are compared, table entries beyond size/min+3 must be zero, and a sample of states per job is rebuilt from its history by API calls only and compared',
    ]
    bins = build()
    jobs = jobs_for(tier)
    # big jobs first
    jobs.sort(key=lambda j: (j[0] != 'fast', -int(j[1].split(',')[0]) * (3 if j[1].split(',')[6] == '1' else 1), j[1]))
    per_job = {}
    with ThreadPoolExecutor(core.NCPU) as ex:
        list(ex.map(lambda j: run_job(rep, bins, j[0], j[1], j[2], cap, per_job), jobs))
    rep.configs = sorted(per_job)
    # large geometries (block tables of several pages): deterministic long histories, every mapping followed by a guard page
    big = core.compile_c('C19', 'h_c19_big', ['harness/C19/h_c19_big.c', core.repo_src('utils', 'ring_buffer.c')],
                         flags=['-Wl,--wrap=mmap,--wrap=munmap'], cc='gcc', opt='-O1', san='none')
    core.run_sharded(rep, big, tier, nshards=4, config='big')

    def tot(k):
        return sum(v.get(k, 0) for v in per_job.values() if isinstance(v.get(k, 0), int))
    rep.extra['states'] = tot('states')
    rep.extra['transitions'] = tot('transitions')
    rep.extra['traces_validated_against_impl'] = tot('transitions')   # every transition is a call sequence on the real object
    rep.extra['snapshot_vs_history_crosschecks'] = tot('snapshot_crosschecks')
    rep.extra['jobs'] = len(per_job)
    depths = sorted(set(v.get('depth_completed', 0) for v in per_job.values()))
    rep.extra['depth_completed_min_max'] = [depths[0], depths[-1]] if depths else []
    rep.extra['depth_completed_per_job'] = {k: v.get('depth_completed') for k, v in sorted(per_job.items()) if k.startswith('fast')}
    for k in ('ring_wraps', 'round_counter_wraps', 'offset_commits', 'aborted_writes', 'deliveries', 'drop_reports', 'drop_exact',
              'drop_over', 'drop_under', 'drop_unset', 'drop_without_resync', 'skips_with_report',
              'data_size_ret_ne_regions', 'delivered_more_than_asked', 'set2_rpos_not_at_block',
              'get_returned_too_little', 'pruned_after_violation', 'calc_size_skipped_unsafe_cursor'):
        rep.extra['sum_' + k] = tot(k)
    if not rep.extra['sum_ring_wraps']:
        rep.harness_errors.append('vacuous: no ring wrap was explored')
    if not rep.extra['sum_round_counter_wraps']:
        rep.harness_errors.append('vacuous: the round counter never wrapped')

    big_replay = core.make_replayer(lambda cfg: big, tier)

    def replayer(target, clause, idx, config):
        if config == 'big':
            return big_replay(target, clause, idx, config)
        if clause.startswith('crash'):
            return True
        cases = rep.viol.get((target, clause), [])
        desc = next((c[1] for c in cases if c[0] == str(idx) and c[2] == config), cases[0][1] if cases else '')
        hits = 0
        for _ in range(2):
            v, _rc = trace_hits(bins['asan'], desc)
            if any(t == target and c == clause for t, c, _d in v):
                hits += 1
        return hits == 2
    rep.finish(replayer)


def replay(r, tier):
    """./check C19 --replay replay/C19/<file>: re-executes the recorded history on a fresh ring."""
    if r.get('config') == 'big':
        big = core.compile_c('C19', 'h_c19_big', ['harness/C19/h_c19_big.c', core.repo_src('utils', 'ring_buffer.c')],
                             flags=['-Wl,--wrap=mmap,--wrap=munmap'], cc='gcc', opt='-O1', san='none')
        p = subprocess.run([big, '--tier', tier, '--only', '%s#%s' % (r['target'], r['index'])], capture_output=True)
        import sys
        sys.stdout.write(p.stdout.decode('utf-8', 'replace'))
        return 1 if b'VIOL\t' in p.stdout else 0
    bins = build()
    v, rc = trace_hits(bins['asan'], r['case'])
    for t, c, d in v:
        print('VIOL %s %s %s' % (t, c, d))
    return 1 if any(t == r['target'] and c == r['clause'] for t, c, d in v) else 0
